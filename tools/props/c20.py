"""C20 — entanglement measures (qclib/entanglement.py: _get_iota, generalized_cross_product,
meyer_wallach_entanglement, geometric_entanglement)."""
import ast
import math
import os
from fractions import Fraction

import numpy as np

CLAIMED = True
TECHNIQUE = ("Lean 4: `_get_iota` translated from the Python source on every run and proved equal to the hand model; "
             "bit-deletion bijection, Lagrange identity, Meyer-Wallach closed form / range / zero-iff-pure / product / "
             "local-unitary invariance proved over C with explicit finite sums for all n; geometric measure: post-processing "
             "of an abstract Tucker result proved (Cauchy-Schwarz); exact rational + float correspondence with the real code; "
             "numpy partial-trace oracle")
LEVEL_TEXT = ("Proved for all n and all vectors (about the executable model instantiated at C): _get_iota(j,n,s,.) deletes bit j and is a "
              "bijection with explicit inverse (C20_iota, C20_iota_bits; C20_iota_src ties the theorem to the CURRENT source text by "
              "re-translation on every run); generalized_cross_product = |u|^2|v|^2-|<u,v>|^2 (C20_lagrange); the model's slicing loop "
              "builds the two iota-slices and its Meyer-Wallach value equals 2(1-(1/n) sum_k Tr rho_k^2) on unit vectors (C20_mw), lies in "
              "[0,1] (C20_mw_range), is 0 iff all one-qubit marginals are pure (C20_mw_zero_iff_pure) iff slices proportional "
              "(C20_pure_iff_proportional) iff the vector is a product state (C20_mw_product_zero, C20_mw_zero_iff_product, both directions, "
              "no normalisation needed); invariance under any one-qubit unitary on any qubit (C20_mw_local_unitary); relabelling only in "
              "slice-wise form (C20_mw_relabel_partial: the construction of the slice reindexing from a bit permutation is missing) - "
              "superseded by the FULL C20_mw_relabel / C20_mw_relabel_fin: for every n>=1, every permutation sigma of the qubits and every "
              "array, the array read through the bit permutation permIdx (bit k -> bit sigma k) has the same Meyer-Wallach value (the slice "
              "bijections are constructed from sigma); "
              "geometric measure: everything the property says about the returned triple given the Tucker kernel's specification "
              "(C20_geo_post: argmin over restarts, range by Cauchy-Schwarz, product state = phase * kron(factors), normalised, fidelity "
              "1-measure). Tied: _get_iota exhaustively n<=10, _to_qubits, slices/entries/value on dyadic Gaussian-rational vectors "
              "(Lean side exact in Q[i]; n<=6 quick, <=8 thorough) and on float vectors to 1e-9, rejected lengths, the post-processing of "
              "the captured Tucker results to 1e-9. Only tested: tensorly's Tucker (unit factors, core=<factors,psi>, zero on product "
              "states, GHZ/W values), numpy.")
LEVEL_NOTE = ("Trusted: Lean kernel (propext, Classical.choice, Quot.sound); the source->Lean translation of _get_iota (Nat for Python "
              "int, valid for qubit_idx<=qubits; cross-checked exhaustively n<=10 each run); the hand model of the numpy loops "
              "outside the explored inputs; numpy; tensorly.tucker (K4: unit-norm factors, core = <(x)f_k, psi>, convergence) validated "
              "numerically only; float vs exact arithmetic (compared to 1e-9).")
LEAN_TARGETS = ["QclibModel.Props.C20"]
THEOREMS = [
    "Qclib.C20_iota_src", "Qclib.C20_iota", "Qclib.C20_iota_bits", "Qclib.C20_lagrange",
    "Qclib.C20_mw", "Qclib.C20_mw_range", "Qclib.C20_mw_zero_iff_pure", "Qclib.C20_pure_iff_proportional",
    "Qclib.C20_mw_product_zero", "Qclib.C20_mw_zero_iff_product", "Qclib.C20_mw_local_unitary",
    "Qclib.C20_mw_relabel_partial", "Qclib.C20_geo_post", "Qclib.C20_mw_relabel", "Qclib.C20_mw_relabel_fin",
]
TRUSTED = [
    "tensorly.decomposition.tucker (rank (1,..,1), init='random'): factors have unit norm and core = <(x)_k f_k, psi> "
    "(checked numerically on every geometric call); that best-of-four ALS reaches the optimum is NOT proved",
    "numpy (np.abs, np.sum, np.kron, np.linalg.norm, reshape order); tensorly.tucker_to_vec = core * kron(factors) (tied to 1e-9)",
    "translator in tools/props/c20.py (Python AST -> Lean, Python int modelled by Nat; subtraction never underflows for qubit_idx <= qubits)",
]
ASSUMPTIONS = [
    "exact real/complex arithmetic in the theorems; the implementation is compared to 1e-9 (1e-12 relative on exact rational inputs)",
    "geometric measure: 'zero on product states' and the GHZ/W values depend on ALS convergence: validated numerically "
    "(product/GHZ to 1e-9: unchanged code reaches 4e-15; W_n to 1e-3: unchanged code reaches 1e-5 because tucker stops at tol=1e-4)",
]
UNREACHED_JUSTIFIED = {
    "qclib/entanglement.py:schmidt_decomposition,schmidt_composition,low_rank_approximation,_separation_matrix,_undo_separation_matrix,"
    "_effective_rank,randomized_svd": "Schmidt machinery: property C09 (and C07/C08 through LowRankInitialize), not the two measures of C20",
    "qclib/entanglement.py:qb_approximation": "unused alternative to randomized_svd",
}
RULE = ("tie: distinct ops — exhaustive (qubit, selector, basis state) tables of _get_iota for n<=10, Gaussian-rational and float "
        "vectors (n=1..8; random dense/sparse, basis, product, GHZ, W, non-power-of-two lengths) whose slices, per-qubit entries and "
        "value were diffed against the Lean model, captured Tucker results whose post-processing was diffed; oracle: distinct "
        "(check, n, state kind, vector hash) evaluated on the real code; non-trivial = n>=2; diversity pass (keys dv.*): "
        "distinct (entry point, check, element form, state structure, n) with the input passed in its original form "
        "(list / tuple / numpy scalars / int / float32 / float64 / complex64 / complex128 / read-only / strided), n = 1..6")

GEN_PATH = "QclibModel/Gen/Entangle.lean"


# ------------------------------------------------------------------------------------------------
# translator: entanglement._get_iota  ->  Lean (re-run on every check)
# ------------------------------------------------------------------------------------------------

_BINOPS = {ast.Pow: "^", ast.Sub: "-", ast.Add: "+", ast.Mult: "*", ast.LShift: "<<<", ast.RShift: ">>>",
           ast.BitAnd: "&&&", ast.BitOr: "|||", ast.BitXor: "^^^", ast.FloorDiv: "/", ast.Mod: "%"}


class Unsupported(Exception):
    pass


def _expr(e, names):
    if isinstance(e, ast.Constant) and isinstance(e.value, int) and not isinstance(e.value, bool) and e.value >= 0:
        return str(e.value)
    if isinstance(e, ast.Name):
        if e.id not in names:
            raise Unsupported(f"UNSUPPORTED entanglement.py:{e.lineno}: unknown name {e.id}")
        return e.id
    if isinstance(e, ast.BinOp) and type(e.op) in _BINOPS:
        return f"({_expr(e.left, names)} {_BINOPS[type(e.op)]} {_expr(e.right, names)})"
    if isinstance(e, ast.Compare) and len(e.ops) == 1 and isinstance(e.ops[0], ast.Eq):
        return f"({_expr(e.left, names)} == {_expr(e.comparators[0], names)})"
    raise Unsupported(f"UNSUPPORTED entanglement.py:{getattr(e, 'lineno', '?')}: {ast.dump(e)[:80]}")


def translate_get_iota(src):
    tree = ast.parse(src)
    fn = [n for n in tree.body if isinstance(n, ast.FunctionDef) and n.name == "_get_iota"]
    if not fn:
        raise Unsupported("UNSUPPORTED entanglement.py: function _get_iota not found")
    fn = fn[0]
    args = [a.arg for a in fn.args.args]
    if len(args) != 4 or fn.args.vararg or fn.args.kwarg or fn.args.defaults:
        raise Unsupported("UNSUPPORTED entanglement.py: _get_iota signature changed")
    names = set(args)
    lines, closers = [], 0
    body = list(fn.body)
    if body and isinstance(body[0], ast.Expr) and isinstance(body[0].value, ast.Constant) and isinstance(body[0].value.value, str):
        body = body[1:]
    returned = False
    for st in body:
        if returned:
            raise Unsupported(f"UNSUPPORTED entanglement.py:{st.lineno}: statement after return")
        if isinstance(st, ast.Assert):
            t = st.test
            if (isinstance(t, ast.Compare) and len(t.ops) == 1 and isinstance(t.ops[0], ast.In)
                    and isinstance(t.comparators[0], (ast.List, ast.Tuple)) and t.comparators[0].elts):
                x = _expr(t.left, names)
                alts = " ∨ ".join(f"{x} = {_expr(c, names)}" for c in t.comparators[0].elts)
                lines.append(f"if {alts} then")
                closers += 1
            else:
                raise Unsupported(f"UNSUPPORTED entanglement.py:{st.lineno}: assert form")
        elif isinstance(st, ast.Assign) and len(st.targets) == 1 and isinstance(st.targets[0], ast.Name):
            lines.append(f"let {st.targets[0].id} := {_expr(st.value, names)}")
            names.add(st.targets[0].id)
        elif isinstance(st, ast.Return) and isinstance(st.value, ast.Tuple) and len(st.value.elts) == 2:
            a, b = st.value.elts
            if not isinstance(a, ast.Compare):
                raise Unsupported(f"UNSUPPORTED entanglement.py:{st.lineno}: first component must be a comparison")
            lines.append(f"some ({_expr(a, names)}, {_expr(b, names)})")
            returned = True
        else:
            raise Unsupported(f"UNSUPPORTED entanglement.py:{st.lineno}: {type(st).__name__}")
    if not returned:
        raise Unsupported("UNSUPPORTED entanglement.py: _get_iota has no return")
    out = ["/- GENERATED on every run by tools/props/c20.py from qclib/entanglement.py (`_get_iota`).",
           "   Python `int` is modelled by `Nat`: valid while no subtraction underflows and no shift count is",
           "   negative, i.e. for `qubit_idx <= qubits`.  Do not edit. -/",
           "namespace Qclib.Gen",
           f"def get_iota ({' '.join(args)} : Nat) : Option (Bool × Nat) :="]
    out += ["  " + l for l in lines]
    out += ["  else none"] * closers
    out += ["end Qclib.Gen", ""]
    return "\n".join(out), args


def generate(ctx):
    import framework
    src = open(os.path.join(framework.REPO, "qclib", "entanglement.py")).read()
    text, args = translate_get_iota(src)
    if args != ["qubit_idx", "qubits", "selector_bit", "basis_state"]:
        raise Unsupported(f"UNSUPPORTED entanglement.py: _get_iota parameters are {args}")
    path = os.path.join(framework.LEAN, GEN_PATH)
    os.makedirs(os.path.dirname(path), exist_ok=True)
    old = open(path).read() if os.path.exists(path) else None
    if old != text:
        with open(path, "w") as f:
            f.write(text)
    return {"translated": ["entanglement._get_iota"], "file": "lean/" + GEN_PATH}


# ------------------------------------------------------------------------------------------------
# helpers
# ------------------------------------------------------------------------------------------------

def _E():
    import qclib.entanglement as E
    return E


def fr(x):
    return Fraction(x)


def cvec(re, im, den=1):
    return (np.array(re, dtype=float) + 1j * np.array(im, dtype=float)) / den


def vhash(v):
    import hashlib
    return hashlib.sha1(np.ascontiguousarray(np.round(np.asarray(v, dtype=complex), 12)).tobytes()).hexdigest()[:8]


def purities(v):
    """Independent computation: Tr rho_k^2 for every qubit k (qubit k = bit k of the index) via partial trace."""
    v = np.asarray(v, dtype=complex)
    n = int(round(math.log2(v.shape[0])))
    t = v.reshape((2,) * n)
    out = []
    for k in range(n):
        m = np.moveaxis(t, n - 1 - k, 0).reshape(2, -1)
        rho = m @ m.conj().T
        out.append(float(np.real(np.trace(rho @ rho))))
    return out


def mw_ideal(v):
    p = purities(v)
    return 2 * (1 - sum(p) / len(p))


class RealCodeRaised(Exception):
    """qclib itself raised (on a valid input this is a violation; on an invalid one it is the expected rejection)"""


def _guard(fn, *a, **k):
    try:
        return fn(*a, **k)
    except Exception as e:  # noqa: BLE001 - anything the real code throws
        raise RealCodeRaised(f"{type(e).__name__}: {e}") from e


class NonReal(Exception):
    """the real code returned a value with a non-zero imaginary part where the property needs a real number"""


def _real(x, what):
    z = complex(x)
    if abs(z.imag) > 1e-12 or math.isnan(z.real):
        raise NonReal(f"{what} = {z!r} is not a real number")
    return float(z.real)


def call_mw(v, capture=False):
    """Run the REAL meyer_wallach_entanglement; optionally capture what it passed to
    generalized_cross_product (the slices) and what that returned (the per-qubit entries)."""
    E = _E()
    if not capture:
        return _real(_guard(E.meyer_wallach_entanglement, np.asarray(v)), "meyer_wallach_entanglement"), None
    rec = []
    orig = E.generalized_cross_product

    def wrapper(u, w):
        r = orig(u, w)
        rec.append((np.array(u).reshape(-1).copy(), np.array(w).reshape(-1).copy(), _real(r, "generalized_cross_product")))
        return r
    E.generalized_cross_product = wrapper
    try:
        val = _real(_guard(E.meyer_wallach_entanglement, np.asarray(v)), "meyer_wallach_entanglement")
    finally:
        E.generalized_cross_product = orig
    return val, rec


def call_geo(v, seed, capture=False):
    """Run the REAL geometric_entanglement(v, True, True) with numpy's global RNG (used by tensorly's
    init='random') seeded; optionally capture the four Tucker results."""
    E = _E()
    rec = []
    orig = E.tucker

    def wrapper(*a, **k):
        r = orig(*a, **k)
        rec.append((complex(np.asarray(r.core).flatten()[0]), [np.asarray(f).reshape(-1).astype(complex).copy() for f in r.factors]))
        return r
    np.random.seed(seed)
    if capture:
        E.tucker = wrapper
    try:
        loss, ps, fs = _guard(E.geometric_entanglement, np.asarray(v), True, True)
    finally:
        E.tucker = orig
    return _real(loss, "geometric_entanglement"), np.asarray(ps).reshape(-1), [np.asarray(f) for f in fs], rec


# ------------------------------------------------------------------------------------------------
# state generators (everything from ctx.rng)
# ------------------------------------------------------------------------------------------------

def haar(ctx, n):
    g = ctx.nprng()
    v = g.normal(size=2 ** n) + 1j * g.normal(size=2 ** n)
    return v / np.linalg.norm(v)


def rand_unitary(g, d=2):
    z = g.normal(size=(d, d)) + 1j * g.normal(size=(d, d))
    q, r = np.linalg.qr(z)
    return q * (np.diag(r) / np.abs(np.diag(r)))


def apply_1q(v, n, k, u):
    """u on qubit k (bit k of the index)."""
    t = np.asarray(v, dtype=complex).reshape((2,) * n)
    ax = n - 1 - k
    t = np.moveaxis(np.tensordot(u, t, axes=([1], [ax])), 0, ax)
    return t.reshape(-1)


def permute_qubits(v, n, perm):
    """new qubit i = old qubit perm[i]."""
    t = np.asarray(v, dtype=complex).reshape((2,) * n)
    axes = [n - 1 - perm[n - 1 - a] for a in range(n)]
    return np.transpose(t, axes).reshape(-1)


def product_state(ctx, n, kind):
    r = ctx.rng
    fs = []
    for _ in range(n):
        if kind == "complex":
            f = np.array([complex(r.gauss(0, 1), r.gauss(0, 1)), complex(r.gauss(0, 1), r.gauss(0, 1))])
        elif kind == "real":
            f = np.array([r.gauss(0, 1), r.gauss(0, 1)], dtype=complex)
        else:  # with zero amplitudes and phases
            f = np.array(r.choice([[1, 0], [0, 1], [1, 1], [1, -1], [1, 1j], [0, 1j]]), dtype=complex)
            f = f * np.exp(1j * r.uniform(0, 2 * math.pi))
        fs.append(f / np.linalg.norm(f))
    v = np.array([1.0 + 0j])
    for f in fs:
        v = np.kron(v, f)
    return v, fs


def ghz(n):
    v = np.zeros(2 ** n, dtype=complex)
    v[0] = v[-1] = 2 ** -0.5
    return v


def wstate(n):
    v = np.zeros(2 ** n, dtype=complex)
    for k in range(n):
        v[1 << k] = n ** -0.5
    return v


def states(ctx, n):
    """(kind, vector) list of unit vectors on n qubits."""
    r = ctx.rng
    out = [("haar", haar(ctx, n))]
    g = ctx.nprng()
    x = g.normal(size=2 ** n)
    out.append(("real", (x / np.linalg.norm(x)).astype(complex)))
    # sparse with phases
    m = r.randint(1, max(1, min(2 ** n, 2 * n)))
    idx = r.sample(range(2 ** n), m)
    s = np.zeros(2 ** n, dtype=complex)
    for i in idx:
        s[i] = complex(r.gauss(0, 1), r.gauss(0, 1))
    out.append(("sparse", s / np.linalg.norm(s)))
    # basis state with a phase
    b = np.zeros(2 ** n, dtype=complex)
    b[r.randrange(2 ** n)] = r.choice([1, -1, 1j, np.exp(0.7j)])
    out.append(("basis", b))
    for kind in ("complex", "real", "zeros"):
        out.append(("product-" + kind, product_state(ctx, n, kind)[0]))
    # product with shuffled qubit order
    p, _ = product_state(ctx, n, "complex")
    perm = list(range(n))
    r.shuffle(perm)
    out.append(("product-shuffled", permute_qubits(p, n, perm)))
    out.append(("ghz", ghz(n)))
    out.append(("w", wstate(n)))
    if n >= 3:
        # Bell pair on two random qubits times a product state on the rest
        bell = np.array([1, 0, 0, 1], dtype=complex) / math.sqrt(2)
        rest, _ = product_state(ctx, n - 2, "complex")
        v = np.kron(bell, rest)
        r.shuffle(perm)
        out.append(("bell-x-product", permute_qubits(v, n, perm)))
    return out


# ------------------------------------------------------------------------------------------------
# tie
# ------------------------------------------------------------------------------------------------

def tie_iota(ctx, nmax=10):
    E = _E()
    for n in range(1, nmax + 1):
        lines = []
        for q in range(n):
            for s in (0, 1):
                for b in range(2 ** n):
                    try:
                        d, r = E._get_iota(q, n, s, b)
                        lines.append(f"{q} {s} {b} {1 if d else 0} {r}")
                    except Exception:  # noqa: BLE001
                        lines.append(f"{q} {s} {b} raise")
        ctx.tie({"op": "iota", "n": n}, lines, label=f"_get_iota exhaustive n={n}")
        ctx.count("iota-table")
    for (q, n, s, b) in ((0, 2, 2, 1), (1, 3, 5, 6), (0, 1, 3, 0)):
        try:
            d, r = E._get_iota(q, n, s, b)
            lines = [f"{1 if d else 0} {r}"]
        except Exception:  # noqa: BLE001
            lines = ["raise"]
        ctx.tie({"op": "iota1", "q": q, "n": n, "s": s, "b": b}, lines)
    lens = list(range(0, 70)) + [127, 128, 129, 255, 256, 257, 1023, 1024, 1025]
    ctx.tie({"op": "toqubits", "lens": lens}, [f"{l} {E._to_qubits(l)}" for l in lens])


def rational_vectors(ctx, n):
    """(kind, re, im, den) with small integer numerators and a power-of-two denominator (exact as floats)."""
    r = ctx.rng
    N = 2 ** n
    out = []
    out.append(("dense", [r.randint(-5, 5) for _ in range(N)], [r.randint(-5, 5) for _ in range(N)], r.choice([1, 2, 8])))
    out.append(("dense-real", [r.randint(-7, 7) for _ in range(N)], [0] * N, 1))
    re, im = [0] * N, [0] * N
    for i in r.sample(range(N), r.randint(1, min(N, n + 2))):
        re[i], im[i] = r.randint(-4, 4), r.randint(-4, 4)
    if not any(re) and not any(im):
        re[0] = 1
    out.append(("sparse", re, im, r.choice([1, 4])))
    re, im = [0] * N, [0] * N
    k = r.randrange(N)
    re[k], im[k] = r.choice([(1, 0), (0, 1), (-1, 0), (3, -4)])
    out.append(("basis", re, im, 1))
    # product of Gaussian-integer one-qubit factors (some with a zero amplitude)
    v = [complex(1, 0)]
    for _ in range(n):
        f = r.choice([(1, 0), (0, 1), (1, 1), (1, -1), (1, 1j), (2, 1 - 1j), (1 + 2j, -1)])
        v = [a * c for a in v for c in f]
    out.append(("product", [int(round(z.real)) for z in v], [int(round(z.imag)) for z in v], 1))
    g = [0] * N
    g[0] = g[-1] = 1
    out.append(("ghz", g, [0] * N, 1))
    w = [0] * N
    for k in range(n):
        w[1 << k] = 1
    out.append(("w", w, [0] * N, 1))
    return out


def floats_line(tag, xs):
    return tag + " ; " + " ".join(repr(float(x)) for x in xs)


def tie_mwq(ctx, n, kind, re, im, den):
    v = cvec(re, im, den)
    op = {"op": "mwq", "re": re, "im": im, "den": den}
    try:
        val, rec = call_mw(v, capture=True)
    except RealCodeRaised:
        ctx.tie(op, ["raise"], label=f"mwq {kind} len={len(re)} raises")
        return
    except NonReal as e:
        ctx.tie(op, ["non-real ; " + str(e).replace(";", ",")], label=f"mwq {kind} n={n}: {e}")
        return
    lines = []
    for q, (u, w, e) in enumerate(rec):
        lines.append(f"s0 {q} ; " + " ".join(f"{repr(float(z.real))} {repr(float(z.imag))}" for z in u))
        lines.append(f"s1 {q} ; " + " ".join(f"{repr(float(z.real))} {repr(float(z.imag))}" for z in w))
        lines.append(f"e {q} ; {e!r}")
    lines.append(f"mw ; {val!r}")
    nrm = float(np.linalg.norm(v))
    if nrm > 0:
        try:
            valn, _ = call_mw(v / nrm)
            lines.append(f"mwn ; {valn!r}")
        except (NonReal, RealCodeRaised) as e:
            lines.append("non-real ; " + str(e).replace(";", ","))
    ctx.tie(op, lines, label=f"mwq {kind} n={n} den={den}")
    ctx.count("mwq-" + kind)


def tie_mwf(ctx, kind, v):
    v = np.asarray(v, dtype=complex)
    op = {"op": "mwf", "re": [float(x) for x in v.real], "im": [float(x) for x in v.imag]}
    try:
        val, rec = call_mw(v, capture=True)
    except RealCodeRaised:
        ctx.tie(op, ["raise"], label=f"mwf {kind} len={len(v)} raises")
        ctx.count("mwf-raises")
        return
    except NonReal as e:
        ctx.tie(op, ["non-real ; " + str(e).replace(";", ",")], label=f"mwf {kind}: {e}")
        return
    lines = [f"e {q} ; {e!r}" for q, (_, _, e) in enumerate(rec)] + [f"mw ; {val!r}"]
    ctx.tie(op, lines, label=f"mwf {kind} len={len(v)}")
    ctx.count("mwf-" + kind)


def tie_geo(ctx, kind, v, seed, loss, ps, fs, rec):
    # which restart wins is decided by `min` over float keys: when two restarts have losses within 1e-12 the winner
    # depends on rounding noise of np.abs (legitimately non-unique) -> then only the restart the code chose is sent
    losses = [1 - abs(c) ** 2 for c, _ in rec]
    lo = min(losses)
    ambiguous = sum(1 for l in losses if l - lo < 1e-12) > 1
    sent = rec
    if ambiguous:
        got = [np.asarray(f).reshape(-1).astype(complex) for f in fs]
        sent = [(c, facs) for c, facs in rec if all(np.array_equal(a, b) for a, b in zip(facs, got))][:1]
        ctx.count("geo-argmin-ambiguous")
        if not sent:
            # the factors returned by the real code are none of the captured Tucker results: an observable
            # difference (e.g. factors conjugated / reordered), reported as a failing input, not a harness error
            ctx.fail(f"geo.factors-not-a-tucker-result:{kind}:n={int(np.log2(len(v)))}",
                     "returned one-qubit factors equal none of the factor sets tensorly returned",
                     {"call": "geometric_entanglement", "kind": kind, "seed": seed,
                      "re": [float(x) for x in np.real(v)], "im": [float(x) for x in np.imag(v)]})
            return
    else:
        ctx.count("geo-argmin-unique")
    op = {"op": "geo", "results": [
        {"core": [c.real, c.imag],
         "factors": [[float(f[0].real), float(f[0].imag), float(f[1].real), float(f[1].imag)] for f in facs]}
        for c, facs in sent]}
    flat = []
    for f in fs:
        f = np.asarray(f).reshape(-1).astype(complex)
        flat += [f[0].real, f[0].imag, f[1].real, f[1].imag]
    psl = []
    for z in np.asarray(ps).astype(complex):
        psl += [z.real, z.imag]
    ctx.tie(op, [floats_line("loss", [loss]), floats_line("ps", psl), floats_line("factors", flat)],
            label=f"geo post-processing {kind} n={len(fs)} seed={seed}")
    ctx.count("geo-" + kind)


def _parse(lines):
    d = {}
    for l in lines:
        head, sep, tail = l.partition(";")
        d[head.strip()] = tail.split() if sep else None
    return d


def _num(tok):
    import framework
    if tok.startswith("f") and tok[1:].isdigit():
        return framework.decode_param(tok)
    if "/" in tok:
        return Fraction(tok)
    return float(tok)


def _close(a, b, tol):
    a, b = float(a), float(b)
    if math.isnan(a) or math.isnan(b):
        return math.isnan(a) and math.isnan(b)
    return abs(a - b) <= tol * max(1.0, abs(a), abs(b))


def compare(op, impl, model):
    kind = op["op"]
    if kind in ("iota", "iota1", "toqubits"):
        if impl == model:
            return None
        for i, (x, y) in enumerate(zip(impl, model)):
            if x != y:
                return f"line {i}: impl={x!r} model={y!r}"
        return f"length {len(impl)} vs {len(model)}"
    if impl == ["raise"] or model == ["raise"]:
        return None if impl == model else f"impl={impl[:1]!r} model={model[:1]!r}"
    di, dm = _parse(impl), _parse(model)
    if "non-real" in di:
        return "impl: " + " ".join(di["non-real"] or [])
    if kind == "mwq":
        for k, toks in di.items():
            if k == "mwn":
                continue
            if k not in dm or dm[k] is None:
                return f"model has no line {k!r}: {model[:3]}"
            mv = [_num(t) for t in dm[k]]
            iv = [float(t) for t in toks]
            if len(mv) != len(iv):
                return f"{k}: length {len(iv)} vs {len(mv)}"
            for a, b in zip(iv, mv):
                if k.startswith("s"):
                    if Fraction(a) != b:          # slices are copies of the input entries: exact
                        return f"{k}: impl {a!r} model {b}"
                elif not _close(a, b, 1e-12):
                    return f"{k}: impl {a!r} model {float(b)!r} ({b})"
        if "mwn" in di:
            n2 = _num(dm["norm2"][0])
            want = _num(dm["mw"][0]) / (n2 * n2)
            if not _close(float(di["mwn"][0]), want, 1e-9):
                return f"normalised vector: impl {di['mwn'][0]} model mw/norm^4 = {float(want)!r}"
        return None
    if kind in ("mwf", "geo"):
        if set(di) != set(dm):
            return f"line keys differ: {sorted(di)} vs {sorted(dm)}"
        for k in di:
            iv = [float(t) for t in di[k]]
            mv = [_num(t) for t in dm[k]]
            if len(iv) != len(mv):
                return f"{k}: length {len(iv)} vs {len(mv)}"
            for i, (a, b) in enumerate(zip(iv, mv)):
                if not _close(a, b, 1e-9):
                    return f"{k}[{i}]: impl {a!r} model {b!r}"
        return None
    return f"unknown op {kind}"


# ------------------------------------------------------------------------------------------------
# oracle (the property itself, evaluated on the real code)
# ------------------------------------------------------------------------------------------------

TOL = 1e-9
# state kinds of boundary_states() whose two measures are known exactly (products and GHZ have their own clauses)
EXACT_MW = {"bell": 1.0, "bell-x-bell": 1.0}
EXACT_GEO = {"bell": 0.5, "bell-x-bell": 0.75}


def rep_vec(v, **kw):
    v = np.asarray(v, dtype=complex)
    d = {"re": [float(x) for x in v.real], "im": [float(x) for x in v.imag]}
    d.update(kw)
    return d


def oracle_iota(ctx, nmax=10):
    """_get_iota against an independent statement of 'delete bit j' and bijectivity."""
    E = _E()
    for n in range(1, nmax + 1):
        bad = None
        for q in range(n):
            seen = set()
            for b in range(2 ** n):
                bit = (b >> q) & 1
                want = ((b >> (q + 1)) << q) | (b & ((1 << q) - 1))
                for s in (0, 1):
                    try:
                        d, r = E._get_iota(q, n, s, b)
                    except Exception as e:  # noqa: BLE001
                        bad = bad or (q, s, b, f"raised {type(e).__name__}: {e}")
                        continue
                    if bool(d) != (bit == s) or r != want:
                        bad = bad or (q, s, b, bool(d), int(r), bit == s, want)
                seen.add((bit, want))
            if len(seen) != 2 ** n and not bad:
                bad = (q, "not injective")
        key = f"iota:n={n}"
        if bad:
            ctx.fail(key, f"_get_iota(qubit_idx,qubits,selector,basis_state) -> observed vs expected: {bad}",
                     {"kind": "iota", "n": n, "first_bad": list(bad)})
        else:
            ctx.ok(key, nontrivial=n >= 2)


def oracle_mw_state(ctx, n, kind, v, g=None, light=False):
    """Meyer-Wallach on the real code versus the partial-trace definition, range, invariances."""
    h = vhash(v)
    base = f"mw:{kind}:n={n}:{h}"
    rp = rep_vec(v, kind="mw", state_kind=kind)
    try:
        val, rec = call_mw(v, capture=True)
    except NonReal as e:
        ctx.fail(f"mw.non-real:{kind}:n={n}:{h}", str(e), dict(rp, check="value"))
        return
    except RealCodeRaised as e:
        ctx.fail(f"mw.raises:{kind}:n={n}:{h}", f"meyer_wallach_entanglement raised on a valid {n}-qubit vector: {e}",
                 dict(rp, check="value"))
        return
    ideal = mw_ideal(v)
    pur = purities(v)
    ctx.count("mw-" + kind)
    if abs(val - ideal) > TOL:
        ctx.fail(f"mw.value:{kind}:n={n}:{h}", f"meyer_wallach={val!r} but 2(1-mean purity)={ideal!r}",
                 dict(rp, check="value", observed=val, expected=ideal))
    else:
        ctx.ok(base + ":value", nontrivial=n >= 2, sample={"check": "mw value", "n": n, "kind": kind, "mw": val, "ideal": ideal})
    # per-qubit entries pin the bit convention: entry_j = (1 - Tr rho_j^2)/2 with qubit j = bit j
    ent = [e for (_, _, e) in rec]
    want = [(1 - p) / 2 for p in pur]
    if len(ent) != n or max(abs(a - b) for a, b in zip(ent, want)) > TOL:
        ctx.fail(f"mw.entries:{kind}:n={n}:{h}", f"per-qubit entries {ent} vs (1-purity)/2 {want}",
                 dict(rp, check="entries"))
    else:
        ctx.ok(base + ":entries", nontrivial=n >= 2)
    if not (-TOL <= val <= 1 + TOL):
        ctx.fail(f"mw.range:{kind}:n={n}:{h}", f"value {val!r} outside [0,1]", dict(rp, check="range"))
    else:
        ctx.ok(base + ":range", nontrivial=n >= 2)
    if kind.startswith("product") or kind == "basis":
        if abs(val) > TOL:
            ctx.fail(f"mw.product-zero:{kind}:n={n}:{h}", f"product state has value {val!r}",
                     dict(rp, check="product-zero"))
        else:
            ctx.ok(base + ":product-zero", nontrivial=n >= 2)
    if kind == "ghz" and n >= 2:
        if abs(val - 1) > TOL:
            ctx.fail(f"mw.ghz:n={n}", f"GHZ_{n} has value {val!r}, expected 1", dict(rp, check="value"))
        else:
            ctx.ok(base + ":ghz")
    if kind in EXACT_MW:
        if abs(val - EXACT_MW[kind]) > TOL:
            ctx.fail(f"mw.exact:{kind}:n={n}:{h}", f"meyer_wallach = {val!r}, exact value {EXACT_MW[kind]}", dict(rp, check="value"))
        else:
            ctx.ok(base + ":exact")
    if kind == "w" and n >= 2:
        if abs(val - 4 * (n - 1) / n ** 2) > TOL:
            ctx.fail(f"mw.w:n={n}", f"W_{n} has value {val!r}, expected {4*(n-1)/n**2}", dict(rp, check="value"))
        else:
            ctx.ok(base + ":w")
    if light:
        return
    g = g or ctx.nprng()
    # invariance under one-qubit unitaries (one random qubit, then all qubits)
    k = int(g.integers(n))
    u = rand_unitary(g)
    v1 = apply_1q(v, n, k, u)
    try:
        val1, _ = call_mw(v1)
    except (NonReal, RealCodeRaised) as e:
        ctx.fail(f"mw.non-real:{kind}:n={n}:{h}", str(e), dict(rp, check="value"))
        return
    if abs(val1 - val) > TOL:
        ctx.fail(f"mw.local-unitary:{kind}:n={n}:{h}", f"value {val!r} -> {val1!r} after a unitary on qubit {k}",
                 dict(rp, check="local-unitary", qubit=k,
                         u_re=[[float(x) for x in row] for row in u.real], u_im=[[float(x) for x in row] for row in u.imag]))
    else:
        ctx.ok(base + ":lu1", nontrivial=n >= 2)
    v2 = v
    for q in range(n):
        v2 = apply_1q(v2, n, q, rand_unitary(g))
    val2, _ = call_mw(v2)
    if abs(val2 - val) > TOL:
        ctx.fail(f"mw.local-unitary-all:{kind}:n={n}:{h}", f"value {val!r} -> {val2!r} after random unitaries on every qubit",
                 dict(rp, check="value"))
    else:
        ctx.ok(base + ":lu-all", nontrivial=n >= 2)
    perm = [int(x) for x in g.permutation(n)]
    v3 = permute_qubits(v, n, perm)
    val3, _ = call_mw(v3)
    if abs(val3 - val) > TOL:
        ctx.fail(f"mw.relabel:{kind}:n={n}:{h}", f"value {val!r} -> {val3!r} after qubit permutation {perm}",
                 dict(rp, check="relabel", perm=perm))
    else:
        ctx.ok(base + ":relabel", nontrivial=n >= 2)


W_TOL = 1e-3     # tucker stops at tol=1e-4: unchanged code is within 1.1e-5 of the W_n value (margin 100x)
GEO_TOL = 1e-9   # unchanged code: |measure| <= 4e-15 on product states, 1e-15 on GHZ (margin 1e5x)
FID_TOL = 1e-7


def oracle_geo_state(ctx, n, kind, v, seed, tie=True):
    h = vhash(v)
    base = f"geo:{kind}:n={n}:{h}"
    rp = rep_vec(v, kind="geo", seed=seed, state_kind=kind)
    try:
        loss, ps, fs, rec = call_geo(v, seed, capture=True)
        np.random.seed(seed)
        loss_only = _real(_guard(_E().geometric_entanglement, np.asarray(v)), "geometric_entanglement")
        # return_product_state=True with product_state_with_factors left at its default (2-tuple), list input
        np.random.seed(seed)
        two = _guard(_E().geometric_entanglement, np.asarray(v).tolist(), True)     # same dtype, so the same random draws
    except (NonReal, RealCodeRaised) as e:
        ctx.fail(f"geo.raises:{kind}:n={n}:{h}", f"geometric_entanglement on a valid {n}-qubit vector: {e}", dict(rp, check="raises"))
        return
    ctx.count("geo-oracle-" + kind)
    if tie:
        tie_geo(ctx, kind, v, seed, loss, ps, fs, rec)
    # K4 assumptions about tucker: unit factors, core = <(x)f, psi>
    for c, facs in rec:
        ctx.assumption_checks += 1
        kr = np.array([1.0 + 0j])
        for f in facs:
            kr = np.kron(kr, f)
        if max(abs(np.linalg.norm(f) - 1) for f in facs) > 1e-9 or abs(np.vdot(kr, np.asarray(v, dtype=complex)) - c) > 1e-9:
            ctx.fail("assumption:tucker-core-factors", f"tucker result is not (unit factors, core=<kron f, psi>): core={c}, "
                     f"<kron f,psi>={np.vdot(kr, v)}, norms={[float(np.linalg.norm(f)) for f in facs]}", rp, kind="assumption")
    checks = []
    checks.append(("same-value", abs(loss - loss_only) <= 1e-12, f"with product state {loss!r}, without {loss_only!r} (same seed)"))
    two_ok = isinstance(two, tuple) and len(two) == 2 and abs(complex(two[0]) - loss) <= 1e-12 \
        and np.asarray(two[1]).reshape(-1).shape == ps.shape and float(np.abs(np.asarray(two[1]).reshape(-1) - ps).max()) <= 1e-12
    ctx.count("branch:geometric_entanglement(v, True) without factors")
    checks.append(("two-tuple", two_ok, f"geometric_entanglement(list(v), True) (same seed) returned {type(two).__name__} "
                   f"of length {len(two) if isinstance(two, tuple) else '-'}, not (same measure, same product state)"))
    checks.append(("range", -GEO_TOL <= loss <= 1 + GEO_TOL, f"measure {loss!r} outside [0,1]"))
    checks.append(("normalised", abs(np.linalg.norm(ps) - 1) <= TOL, f"|product_state| = {np.linalg.norm(ps)!r}"))
    kr = np.array([1.0 + 0j])
    for f in fs:
        kr = np.kron(kr, np.asarray(f).reshape(-1))
    ph = np.vdot(kr, ps)
    checks.append(("shape", len(fs) == n and all(np.asarray(f).shape == (1, 2) for f in fs), "factors are not n arrays of shape (1,2)"))
    checks.append(("kron-factors", abs(abs(ph) - 1) <= TOL and float(np.abs(ps - ph * kr).max()) <= TOL,
                   f"product_state != phase * kron(factors): |phase|={abs(ph)!r}, max dev {float(np.abs(ps - ph * kr).max())!r}"))
    fid = abs(np.vdot(ps, np.asarray(v, dtype=complex))) ** 2
    checks.append(("fidelity", abs(fid - (1 - loss)) <= FID_TOL, f"fidelity {fid!r} vs 1-measure {1 - loss!r}"))
    if kind.startswith("product") or kind == "basis":
        checks.append(("product-zero", abs(loss) <= GEO_TOL, f"product state has measure {loss!r}"))
    if kind == "ghz" and n >= 2:
        checks.append(("ghz", abs(loss - 0.5) <= GEO_TOL, f"GHZ_{n}: measure {loss!r}, expected 0.5"))
    if kind in EXACT_GEO:
        checks.append(("exact", abs(loss - EXACT_GEO[kind]) <= GEO_TOL, f"{kind}: measure {loss!r}, exact value {EXACT_GEO[kind]}"))
    if kind == "w" and n >= 2:
        want = 1 - ((n - 1) / n) ** (n - 1)
        checks.append(("w", abs(loss - want) <= W_TOL, f"W_{n}: measure {loss!r}, expected {want!r} (tol {W_TOL})"))
    for name, good, msg in checks:
        if good:
            ctx.ok(f"{base}:{name}", nontrivial=n >= 2,
                   sample={"check": "geo " + name, "n": n, "kind": kind, "measure": loss} if name == "fidelity" else None)
        else:
            ctx.fail(f"geo.{name}:{kind}:n={n}:{h}", msg, dict(rp, check=name))


BOUNDARIES = {
    "entanglement.py:30-40 _get_iota: assert selector in [0,1], full_mask >> (qubits - qubit_idx), full_mask << (qubit_idx + 1)":
        "exhaustive tables qubits = 1..10, qubit_idx = 0 (low mask 0) .. qubits-1 (high mask 0), selectors 0, 1 and rejected 2, 3, 5 "
        "(tie, re-translated from source) - already complete",
    "entanglement.py:58-59 range(shape[0]), range(j) of generalized_cross_product":
        "slices of length 1 (n = 1: empty sum, tie), 2 (n = 2: a single cross term - all four Bell states, |00>, |11>, |++>), 4, 8",
    "entanglement.py:82-99 num_qb = _to_qubits(len), shape[0] // 2, 4 / num_qb":
        "n = 1 (tie), 2, 3, 4 boundary states; lengths 1, 3, 5, 6, 7, 12 rejected (tie); int / float / complex dtype arrays",
    "entanglement.py:99 value range [0, 1]": "exactly 0: |0..0>, |1..1>, |+>^n, generic product with one factor exactly |1> at the first / "
        "last qubit; exactly 1: Bell Phi+-, Psi+-, GHZ_n with relative phase 1, -1, i, Bell x Bell; just inside: product + 1e-3 GHZ, "
        "GHZ + 1e-3 product",
    "entanglement.py:131-133 n_qubits, reshape": "n = 2, 3, 4 boundary states (n = 1 raises in tensorly: outside the quantifier)",
    "entanglement.py:139-144 range(4) restarts, core.flatten()[0], min(results)":
        "product states (all four restarts give the same key up to rounding: the dict collapses), GHZ/Bell (degenerate optimum), W",
    "entanglement.py:146/152 return_product_state and product_state_with_factors":
        "(False, False), (False, True), (True, False), (True, True) on the same state and seed; list and ndarray input",
    "entanglement.py:151 product_state / norm": "states with exactly zero amplitudes (basis states, GHZ, W, sparse)",
    "entanglement.py:243 _to_qubits: n > 0, ceil(log2)": "lengths 0..69, 2^k - 1, 2^k, 2^k + 1 up to 1025 (tie) - already complete",
}


def kron_all(fs):
    v = np.array([1.0 + 0j])
    for f in fs:
        v = np.kron(v, np.asarray(f, dtype=complex))
    return v


def boundary_states(ctx, n):
    """(name, oracle kind, vector, exact MW or None, exact geometric measure or None); the exact values are enforced by
    the oracle through the kind (product-* / ghz clauses, EXACT_MW / EXACT_GEO), the two columns here are for the reader"""
    r = ctx.rng
    s = 1 / math.sqrt(2)
    N = 2 ** n
    e0, e1 = np.array([1, 0], dtype=complex), np.array([0, 1], dtype=complex)
    out = []
    out.append(("all factors |0>", "product-all0", kron_all([e0] * n), 0.0, 0.0))
    out.append(("all factors |1>", "product-all1", kron_all([e1] * n), 0.0, 0.0))
    out.append(("all factors |+> (all amplitudes equal)", "product-uniform", np.full(N, 1 / math.sqrt(N), dtype=complex), 0.0, 0.0))
    for where, q in (("first", 0), ("last", n - 1)):
        _, fs = product_state(ctx, n, "complex")
        fs[n - 1 - q] = e1 * np.exp(1j * r.uniform(0, 6.28))          # kron order: factor index n-1-q is qubit q
        out.append((f"generic product with the factor of the {where} qubit exactly |1>", "product-f1-" + where, kron_all(fs), 0.0, 0.0))
    for nm, ph in (("+", 1), ("-", -1), ("+i", 1j)):
        g = np.zeros(N, dtype=complex)
        g[0], g[-1] = s, s * ph
        out.append((f"GHZ / Bell Phi with relative phase {nm}", "ghz", g, 1.0, 0.5))
    if n == 2:
        for nm, ph in (("+", 1), ("-", -1)):
            out.append((f"Bell Psi{nm}", "bell", np.array([0, s, s * ph, 0], dtype=complex), 1.0, 0.5))
    if n == 4:
        bell = np.array([s, 0, 0, s], dtype=complex)
        sing = np.array([0, s, -s, 0], dtype=complex)
        out.append(("Bell x Bell (MW = 1, not GHZ)", "bell-x-bell", np.kron(bell, sing), 1.0, 0.75))
        out.append(("Bell x Bell on qubits (0,2),(1,3)", "bell-x-bell", permute_qubits(np.kron(bell, bell), 4, [0, 2, 1, 3]), 1.0, 0.75))
    out.append(("W_n", "w", wstate(n), None, None))
    p, _ = product_state(ctx, n, "complex")
    v = p + 1e-3 * ghz(n)
    out.append(("product + 1e-3 GHZ (just above 0)", "near-product", v / np.linalg.norm(v), None, None))
    v = ghz(n) + 1e-3 * p
    out.append(("GHZ + 1e-3 product (just below 1)", "near-ghz", v / np.linalg.norm(v), None, None))
    return out


def oracle_geo_options(ctx, n, kind, v, seed):
    """option pairs of geometric_entanglement on the same state and seed: (False, True) must still be the bare measure
    (`product_state_with_factors` only matters inside `if return_product_state`)"""
    E = _E()
    outs = {}
    rp = rep_vec(v, kind="geo", seed=seed, state_kind=kind, check="options")
    try:
        for flags in ((False, False), (False, True), (True, False), (True, True)):
            np.random.seed(seed)
            outs[flags] = _guard(E.geometric_entanglement, np.asarray(v), *flags)
        np.random.seed(seed)
        outs["kw"] = _guard(E.geometric_entanglement, list(v), return_product_state=False, product_state_with_factors=True)
    except RealCodeRaised as e:
        ctx.fail(f"geo.raises:options:{kind}:n={n}", str(e), rp)
        return
    ref = outs[(True, True)]
    good = (not isinstance(outs[(False, False)], tuple) and not isinstance(outs[(False, True)], tuple)
            and not isinstance(outs["kw"], tuple)
            and isinstance(outs[(True, False)], tuple) and len(outs[(True, False)]) == 2
            and isinstance(ref, tuple) and len(ref) == 3
            and all(abs(complex(x) - complex(ref[0])) <= 1e-12 for x in
                    (outs[(False, False)], outs[(False, True)], outs["kw"], outs[(True, False)][0])))
    ctx.count("boundary:geometric_entanglement option pairs (F,F) (F,T) (T,F) (T,T)")
    key = f"geo.options:{kind}:n={n}"
    if good:
        ctx.ok(key, nontrivial=True)
    else:
        ctx.fail(key, "return shapes / values of the four option pairs (same seed): " +
                 ", ".join(f"{k}: {type(o).__name__}{len(o) if isinstance(o, tuple) else ''}" for k, o in outs.items()), rp)


def oracle_mw_dtype(ctx, n):
    """dtype of the array handed to meyer_wallach_entanglement: int, float, float32"""
    E = _E()
    for nm, arr, want in (("int basis", np.eye(1, 2 ** n, 2 ** n - 1, dtype=int)[0], 0.0),
                          ("float 0.6|0..0> + 0.8|1..1>", np.array([0.6] + [0.0] * (2 ** n - 2) + [0.8]), 0.9216),
                          ("float32 GHZ", ghz(n).real.astype(np.float32), 1.0)):
        ctx.count("boundary:meyer_wallach dtype " + nm.split()[0])
        key = f"mw.dtype:{nm.split()[0]}:n={n}"
        rp = rep_vec(arr, kind="mw", state_kind="dtype", check="dtype")
        try:
            val = _real(_guard(E.meyer_wallach_entanglement, arr), "meyer_wallach_entanglement")
        except (NonReal, RealCodeRaised) as e:
            ctx.fail(key, f"{nm}: {e}", rp)
            continue
        if abs(val - want) > 1e-6:
            ctx.fail(key, f"{nm}: value {val!r}, expected {want}", rp)
        else:
            ctx.ok(key, nontrivial=True)


def boundary_cases(ctx):
    for n in (2, 3, 4):
        for name, kind, v, mw, geo in boundary_states(ctx, n):
            ctx.count(f"boundary:{name}")
            tie_mwf(ctx, kind, v)
            oracle_mw_state(ctx, n, kind, v)
            oracle_geo_state(ctx, n, kind, v, ctx.rng.getrandbits(31), tie=True)
        for kind, v in (("ghz", ghz(n)), ("haar", haar(ctx, n))):
            oracle_geo_options(ctx, n, kind, v, ctx.rng.getrandbits(31))
        oracle_mw_dtype(ctx, n)


# ================================================================================================
# INPUT-DIVERSITY SECTION  (functions _dv_* / _diversity_*, called from run_sizes through _diversity)
#
# Every public entry point of the property - meyer_wallach_entanglement(vector) and
# geometric_entanglement(state_vector, return_product_state=False, product_state_with_factors=False)
# (these are ALL the keywords the source has) - is called on inputs of the five form families:
#   (1) element types   : _dv_cast / _dv_forms_for  (python list / tuple / list of numpy scalars / mixed list, numpy int64 /
#                         int32 / float32 / float64 / complex64 / complex128, read-only and strided arrays, complex dtype with
#                         exactly zero imaginary parts, negative zeros)
#   (2) scale structure : _dv_states (heavy head + light tail 1e-3..1e-6 at the start / end / mixed, equal moduli, repeated
#                         values, all-negative reals, purely imaginary, basis states at every index, sparse with exact zeros)
#   (3) sign / phase    : _dv_states (phases +-1, +-i, global phases -1 / i, factors |+i>, |->, |1>, -|0>, i|0>, graph states)
#   (4) call forms      : DV_GEO_STYLES, _diversity_geo_callforms (every keyword default / explicitly default / non-default,
#                         positional / keyword / keyword-only in swapped order, numpy bools), meyer_wallach(vector=...)
#   (5) sizes           : n = 1 (Meyer-Wallach only: geometric_entanglement needs n >= 2), 2, 3, 4, 5, 6
# The ideal is always computed from the ORIGINAL input converted by the harness itself (np.asarray(raw, dtype=complex)).
# Every call also checks that the input object was not modified.
# ================================================================================================

_S2 = 1 / math.sqrt(2)
DV_FACTORS = {"+i": (_S2, _S2 * 1j), "-": (_S2, -_S2), "1": (0, 1), "-0": (-1, 0), "i0": (1j, 0)}
DV_FACTOR_ORDER = ["+i", "-", "1", "-0", "i0"]
DV_TOL32 = 5e-5      # float32 / complex64 input: tensorly computes in single precision (unchanged code reaches 3e-7)
DV_INT_FORMS = ("int64", "int32", "uint8", "uint64", "bool")


def _dv_special_factors(n, rot):
    """one-qubit factors with a genuinely complex relative phase / signs: factor of qubit q is DV_FACTOR_ORDER[(rot+q)%5]"""
    return [np.array(DV_FACTORS[DV_FACTOR_ORDER[(rot + q) % 5]], dtype=complex) for q in range(n)]


def _dv_kron_qubits(fs):
    """fs[q] = factor of qubit q (bit q of the index)"""
    return kron_all(fs[::-1])


def _dv_embed(head, k, rest, where, n):
    """k-qubit state `head` placed on the qubits `where` (tuple of k distinct qubits), `rest` ((n-k)-qubit vector) on the others"""
    v = np.kron(np.asarray(head, dtype=complex), np.asarray(rest, dtype=complex))   # head = qubits n-1 .. n-k
    perm = [None] * n
    for i, q in enumerate(where):
        perm[q] = n - 1 - i
    others = iter(range(n - k))
    for q in range(n):
        if perm[q] is None:
            perm[q] = next(others)
    return permute_qubits(v, n, perm)


def _dv_graph(n, edges):
    N = 2 ** n
    v = np.full(N, 1 / math.sqrt(N), dtype=complex)
    for b in range(N):
        for (a, c) in edges:
            if (b >> a) & 1 and (b >> c) & 1:
                v[b] = -v[b]
    return v


def _dv_unit_phase(r, choices=(1, -1, 1j, -1j)):
    return complex(r.choice(choices))


def _dv_states(ctx, n):
    """(name, unit vector as complex128, info) - info: product (bool), mw (exact value or None),
    geo ((exact value, tolerance) or None).  Names identify the structure, the numbers come from ctx.rng."""
    r = ctx.rng
    N = 2 ** n
    out = []

    def add(name, v, product=False, mw=None, geo=None):
        v = np.asarray(v, dtype=complex)
        out.append((name, v / np.linalg.norm(v), {"product": product or n == 1, "mw": mw, "geo": geo}))

    # --- (2) heavy head + light tail
    eps = [1e-3, 1e-4, 1e-5, 1e-6]
    for where in ("start", "end", "mixed"):
        if where == "mixed" and N < 4:
            continue
        v = np.zeros(N, dtype=complex)
        heavy = {"start": [0], "end": [N - 1], "mixed": sorted(r.sample(range(N), 2))}[where]
        for i in range(N):
            v[i] = eps[(i + r.randrange(4)) % 4] * np.exp(1j * r.uniform(0, 2 * math.pi))
        for h in heavy:
            v[h] = r.uniform(0.6, 1.0) * np.exp(1j * r.uniform(0, 2 * math.pi))
        add("tail-" + where, v)
    v = np.array([-eps[i % 4] * r.uniform(1, 3) for i in range(N)])
    v[r.randrange(N)] = -1.0
    add("tail-real-neg", v)
    # --- equal moduli, phases +-1 / +-i ; repeated values ; all negative ; purely imaginary
    add("eqmod-pm1", [r.choice((1, -1)) for _ in range(N)], product=(n == 1))
    add("eqmod-pmi", [_dv_unit_phase(r) for _ in range(N)], product=(n == 1))
    add("eqmod-allneg", [-1.0] * N, product=True)
    a, b = r.uniform(0.2, 0.5), r.uniform(0.6, 1.0)
    add("repeat-2values", [r.choice((a, b, -a)) for _ in range(N)], product=(n == 1))
    g = ctx.nprng()
    add("allneg-real", -np.abs(g.normal(size=N)) - 0.05, product=(n == 1))
    add("imag-only", 1j * g.normal(size=N), product=(n == 1))
    add("dense-complex", g.normal(size=N) + 1j * g.normal(size=N), product=(n == 1))
    add("dense-real", g.normal(size=N), product=(n == 1))
    # --- basis states at every index (n <= 4), sign alternating with the index, both signs at the last index
    idxs = list(range(N)) if n <= 4 else sorted({0, 1, N - 1, N - 2, 3, 5, r.randrange(N), r.randrange(N)})
    for i in idxs:
        for sg, nm in ((1, ""), (-1, "-neg")):
            if n <= 2 or i == N - 1 or (sg == 1) == (i % 2 == 0):
                v = np.zeros(N, dtype=complex)
                v[i] = sg
                add(f"basis{i}{nm}", v, product=True)
    for ph, nm in ((1j, "-i"), (-1j, "-mi")):
        v = np.zeros(N, dtype=complex)
        i = r.randrange(N)
        v[i] = ph
        add(f"basis{i}{nm}", v, product=True)
    # --- (3) product states of the special factors, times global phases
    for rot in (range(5) if n <= 4 else (r.randrange(5), r.randrange(5))):
        p = _dv_kron_qubits(_dv_special_factors(n, rot))
        add(f"prod-special{rot}", p, product=True)
    rot = r.randrange(5)
    p = _dv_kron_qubits(_dv_special_factors(n, rot))
    add(f"prod-special{rot}-gneg", -p, product=True)
    add(f"prod-special{rot}-gi", 1j * p, product=True)
    if n == 1:
        return out
    # --- GHZ with relative / global phases, graph states (all moduli equal, phases +-1, every qubit maximally mixed)
    for nm, rel, glob in (("", 1, 1), ("-rel-neg", -1, 1), ("-rel-i", 1j, 1), ("-glob-i", 1, 1j), ("-glob-neg", 1, -1)):
        v = np.zeros(N, dtype=complex)
        v[0], v[-1] = glob * _S2, glob * rel * _S2
        add("ghz" + nm, v, mw=1.0, geo=(0.5, GEO_TOL))
    add("graph-line", _dv_graph(n, [(q, q + 1) for q in range(n - 1)]), mw=1.0)
    if n >= 3:
        add("graph-star", _dv_graph(n, [(0, q) for q in range(1, n)]), mw=1.0, geo=(0.5, GEO_TOL))
        add("graph-ring", _dv_graph(n, [(q, (q + 1) % n) for q in range(n)]), mw=1.0)
    # --- W, W with one qubit flipped (the C20a pattern and its three mirror images), W with phases
    wmw = 4 * (n - 1) / n ** 2
    wgeo = (1 - ((n - 1) / n) ** (n - 1), W_TOL)
    add("w", wstate(n), mw=wmw, geo=wgeo)
    for q in sorted({0, n - 1, n // 2}):
        add(f"w-flip-q{q}", apply_1q(wstate(n), n, q, np.array([[0, 1], [1, 0]])), mw=wmw, geo=wgeo)
    v = wstate(n)
    for k in range(n):
        v[1 << k] *= _dv_unit_phase(r)
    add("w-phases", v, mw=wmw, geo=wgeo)
    # --- sparse with exact zeros: exactly one zero amplitude (n <= 3: at every index), half-vanishing slices
    if n <= 3:
        for z in range(N):
            v = np.array([_dv_unit_phase(r) for _ in range(N)])
            v[z] = 0
            add(f"onezero{z}", v)
    for q in sorted({0, n - 1}):
        for half in (0, 1):
            v = g.normal(size=N) + 1j * g.normal(size=N)
            for b in range(N):
                red = ((b >> (q + 1)) << q) | (b & ((1 << q) - 1))
                if (b >> q) & 1 == half and red % 2 == 1:
                    v[b] = 0      # the (bit q = half) slice vanishes at odd reduced indices where the other slice does not
            add(f"halfvanish{half}-q{q}", v)
    # --- entanglement in a single pair of qubits, the rest a product of special factors
    bell = {"phi+": [1, 0, 0, 1], "phi-": [1, 0, 0, -1], "psi+": [0, 1, 1, 0], "psi-": [0, 1, -1, 0], "phi+i": [1, 0, 0, 1j]}
    pairs = [(a, b) for a in range(n) for b in range(n) if a < b] if n <= 4 else [(0, n - 1), tuple(sorted(r.sample(range(n), 2)))]
    bnames = list(bell)
    for i, (a, b) in enumerate(pairs):
        rest = _dv_kron_qubits(_dv_special_factors(n - 2, i)) if n > 2 else np.array([1.0 + 0j])
        for bn in (bnames if n == 2 else [bnames[i % 5]]):
            add(f"bell-{bn}-q{a}q{b}", _dv_embed(bell[bn], 2, rest, (b, a), n), mw=2 / n, geo=(0.5, GEO_TOL))
        th = r.choice((r.uniform(0.25, 0.45), r.uniform(1.1, 1.3)))
        c, s_ = math.cos(th), math.sin(th)
        head = [c, 0, 0, s_ * np.exp(1j * r.uniform(0, 2 * math.pi))]
        add(f"pair-q{a}q{b}", _dv_embed(head, 2, rest, (b, a), n),
            mw=(4 / n) * (1 - c ** 4 - s_ ** 4), geo=(1 - max(c * c, s_ * s_), W_TOL))
    # --- products of Bell pairs
    if n >= 4:
        pairings = [((0, 1), (2, 3)), ((0, 2), (1, 3)), ((0, 3), (1, 2))] if n == 4 else [((0, n - 1), (1, 2))]
        if n == 6:
            pairings = [((0, 5), (1, 3), (2, 4))]
        for pi, prs in enumerate(pairings):
            k = 2 * len(prs)
            head = np.array([1.0 + 0j])
            for j in range(len(prs)):
                head = np.kron(head, np.array(bell[bnames[(pi + j) % 5]], dtype=complex))
            rest = _dv_kron_qubits(_dv_special_factors(n - k, pi)) if n > k else np.array([1.0 + 0j])
            where = tuple(q for pr in prs for q in (pr[1], pr[0]))
            add("bellprod-" + "-".join(f"q{a}q{b}" for a, b in prs), _dv_embed(head, k, rest, where, n),
                mw=k / n, geo=(1 - 0.5 ** len(prs), GEO_TOL))
    return out


# ---- (1) element types -------------------------------------------------------------------------

def _dv_kind(vec):
    """'int' (all entries in {0, +-1}), 'real' (exactly zero imaginary parts) or 'complex'"""
    vec = np.asarray(vec, dtype=complex)
    if np.all(vec.imag == 0):
        if np.all(np.isin(vec.real, (0.0, 1.0, -1.0))):
            return "int"
        return "real"
    return "complex"


def _dv_forms_for(vec):
    kind = _dv_kind(vec)
    forms = []
    if kind == "int":
        if all(float(np.real(x)) >= 0 for x in vec):      # unsigned integer dtypes (np.unpackbits / np.eye(N, dtype=np.uint8) rows)
            forms += ["uint8"]
        forms += ["int64", "list-int", "int32", "tuple-int", "npscalars-int"]
        if all(float(np.real(x)) >= 0 for x in vec):
            forms += ["uint64", "bool"]
    if kind in ("int", "real"):
        forms += ["f64", "f32", "list-float", "tuple-float", "npscalars-float", "negzero", "c128-negzero"]
    forms += ["c128", "c64", "list-complex", "tuple-complex", "npscalars-complex", "list-mixed", "readonly", "strided"]
    return forms


def _dv_cast(form, vec):
    """the user's input object of the given form holding the amplitudes `vec` (complex128 array)"""
    vec = np.asarray(vec, dtype=complex).reshape(-1)
    re = vec.real
    if form == "c128":
        return np.array(vec, dtype=np.complex128)
    if form == "c64":
        return vec.astype(np.complex64)
    if form == "readonly":
        a = np.array(vec, dtype=np.complex128)
        a.setflags(write=False)
        return a
    if form == "strided":
        buf = np.zeros(2 * len(vec), dtype=np.complex128)
        buf[::2] = vec
        return buf[::2]
    if form == "list-complex":
        return [complex(z) for z in vec]
    if form == "tuple-complex":
        return tuple(complex(z) for z in vec)
    if form == "npscalars-complex":
        return [np.complex128(z) for z in vec]
    if form == "list-mixed":        # int 0 / 1 / -1, python floats and python complex numbers in one list
        return [int(z.real) if (z.imag == 0 and z.real in (0.0, 1.0, -1.0)) else (float(z.real) if z.imag == 0 else complex(z))
                for z in vec]
    if form == "f64":
        return np.array(re, dtype=np.float64)
    if form == "f32":
        return re.astype(np.float32)
    if form == "list-float":
        return [float(x) for x in re]
    if form == "tuple-float":
        return tuple(float(x) for x in re)
    if form == "npscalars-float":
        return [np.float64(x) for x in re]
    if form == "negzero":
        a = np.array(re, dtype=np.float64)
        a[a == 0] = -0.0
        return a
    if form == "c128-negzero":      # complex dtype, imaginary parts exactly (negative) zero, zeros negative
        a = np.array(re, dtype=np.float64)
        a[a == 0] = -0.0
        return np.array([complex(x, -0.0) for x in a], dtype=np.complex128)
    if form in ("uint8", "uint64", "bool"):
        return np.array(np.rint(re), dtype={"uint8": np.uint8, "uint64": np.uint64, "bool": np.bool_}[form])
    if form == "int64":
        return np.array(np.rint(re), dtype=np.int64)
    if form == "int32":
        return np.array(np.rint(re), dtype=np.int32)
    if form == "list-int":
        return [int(round(x)) for x in re]
    if form == "tuple-int":
        return tuple(int(round(x)) for x in re)
    if form == "npscalars-int":
        return [np.int64(round(x)) for x in re]
    raise ValueError(form)


def _dv_snapshot(raw):
    """bit-exact fingerprint of the input object (to check that the call did not modify it)"""
    if isinstance(raw, np.ndarray):
        return ("nd", raw.dtype.str, raw.shape, np.ascontiguousarray(raw).tobytes())
    return (type(raw).__name__, tuple((type(x).__name__, np.asarray(x).tobytes()) for x in raw))


def _dv_family(sname):
    import re
    return re.sub(r"-q\d+(q\d+)?", "", re.sub(r"(?<=[a-z])\d+", "", sname))


def _dv_single(form):
    return form in ("c64", "f32")


def _dv_payload(entry, form, sname, n, vec, info, **kw):
    d = {"kind": "dv", "entry": entry, "form": form, "state": sname, "n": n,
         "re": [float(x) for x in vec.real], "im": [float(x) for x in vec.imag],
         "info": {"product": bool(info.get("product")), "mw": info.get("mw"),
                  "geo": list(info["geo"]) if info.get("geo") else None}}
    d.update(kw)
    return d


_DV_FAILED = set()


def _dv_fail(ctx, key, detail, payload):
    """report once per key and run (later hits of the same narrow key are only counted)"""
    tag = (id(ctx), key)
    if tag in _DV_FAILED:
        ctx.count("diversity:repeat-of-reported-key")
        return
    _DV_FAILED.add(tag)
    ctx.fail(key, detail, payload)


def mw_pairs_ideal(vec):
    """independent, cancellation-free evaluation of the definition: per qubit k the sum over index pairs of
    |u_i w_j - u_j w_i|^2 (u, w = the bit k = 0 / 1 halves), i.e. det rho_k = (1 - Tr rho_k^2)/2 - accurate to a RELATIVE
    1e-13, which the partial-trace form is not when the value is ~1e-12 (heavy head + light tail)"""
    vec = np.asarray(vec, dtype=complex).reshape(-1)
    n = len(vec).bit_length() - 1
    t = vec.reshape((2,) * n)
    ent = []
    for k in range(n):
        m = np.moveaxis(t, n - 1 - k, 0).reshape(2, -1)
        d = np.outer(m[0], m[1])
        d = d - d.T
        ent.append(0.5 * float(np.sum(np.abs(d) ** 2)))
    return 4 / n * sum(ent), ent


def _dv_call_mw(raw, keyword=False):
    """the REAL meyer_wallach_entanglement on the raw input object (no conversion by the harness)"""
    E = _E()
    rec = []
    orig = E.generalized_cross_product

    def wrapper(u, w):
        res = orig(u, w)
        rec.append(res)
        return res
    E.generalized_cross_product = wrapper
    try:
        if keyword:
            val = _guard(lambda: E.meyer_wallach_entanglement(vector=raw))
        else:
            val = _guard(E.meyer_wallach_entanglement, raw)
    finally:
        E.generalized_cross_product = orig
    return _real(val, "meyer_wallach_entanglement"), [_real(e, "generalized_cross_product") for e in rec]


DV_GATES = {
    "X": np.array([[0, 1], [1, 0]], dtype=complex),
    "Z": np.array([[1, 0], [0, -1]], dtype=complex),
    "S": np.array([[1, 0], [0, 1j]], dtype=complex),
    "H": np.array([[1, 1], [1, -1]], dtype=complex) * _S2,
    "D": np.diag([np.exp(0.3j), np.exp(-1.1j)]),
}


def _dv_perms(n):
    import itertools
    if n <= 4:
        return [list(p) for p in itertools.permutations(range(n))][1:]
    return [list(range(n))[::-1], list(range(1, n)) + [0], [n - 1] + list(range(1, n - 1)) + [0]]


def _dv_mw_case(ctx, n, form, sname, raw, info, keyword=False, tie=False, inv=None):
    """Meyer-Wallach on the raw input: value against both independent evaluations of the definition (absolute 1e-9 and
    relative 1e-7), per-qubit entries, range, zero on products, exact values, input unmodified, invariances."""
    vec = np.asarray(raw, dtype=complex).reshape(-1)          # the harness's own conversion of the ORIGINAL input
    K = lambda c: f"dv.mw.{c}:{form}:{sname}:n={n}"
    rp = _dv_payload("mw", form, sname, n, vec, info, keyword=keyword, inv=inv)
    snap = _dv_snapshot(raw)
    ctx.count(f"diversity:mw:form={form}")
    ctx.count(f"diversity:mw:n={n}")
    ctx.count("diversity:mw:state=" + _dv_family(sname))
    ctx.count("diversity:mw:call=" + ("keyword vector=" if keyword else "positional"))
    try:
        val, ent = _dv_call_mw(raw, keyword)
    except NonReal as e:
        _dv_fail(ctx, K("non-real"), str(e), rp)
        return
    except RealCodeRaised as e:
        _dv_fail(ctx, K("raises"), f"meyer_wallach_entanglement raised on a valid {n}-qubit state given as {form}: {e}", rp)
        return
    if _dv_snapshot(raw) != snap:
        _dv_fail(ctx, K("input-modified"), "the input object was modified by the call", rp)
    else:
        ctx.ok(K("input-unmodified"), nontrivial=n >= 2)
    # a float32 / complex64 input is a unit vector to 6e-8 only: the definition is evaluated on the normalised input (to 1e-6
    # there), the un-normalised determinant form on the input as given (all forms, relative 1e-10 + absolute 1e-13: unchanged
    # code reaches 1e-15 relative; the absolute floor leaves room for a correct but cancelling formula such as Lagrange's)
    vtol = 1e-6 if _dv_single(form) else TOL
    ideal = mw_ideal(vec / np.linalg.norm(vec))
    idealp, entp = mw_pairs_ideal(vec)
    checks = [("value", abs(val - ideal) <= vtol, f"meyer_wallach={val!r} but 2(1-mean purity)={ideal!r}"),
              ("value-rel", abs(val - idealp) <= 1e-10 * idealp + 1e-13,
               f"meyer_wallach={val!r} but (4/n) sum_k det rho_k = {idealp!r} (relative check, light amplitudes matter)"),
              ("entries", len(ent) == n and all(abs(a - b) <= 1e-10 * b + 1e-13 for a, b in zip(ent, entp)),
               f"per-qubit entries {ent} vs det rho_k {entp}"),
              ("range", -vtol <= val <= 1 + vtol, f"value {val!r} outside [0,1]")]
    if info.get("product"):
        checks.append(("product-zero", abs(val) <= vtol, f"product state has value {val!r}"))
    elif idealp > 1e-20:
        checks.append(("nonproduct-nonzero", val > 0.5 * idealp, f"non-product state (definition gives {idealp!r}) has value {val!r}"))
    if info.get("mw") is not None:
        checks.append(("exact", abs(val - info["mw"]) <= vtol,
                       f"value {val!r}, closed form {info['mw']!r}"))
    for name, good, msg in checks:
        if good:
            ctx.ok(K(name), nontrivial=n >= 2)
        else:
            _dv_fail(ctx, K(name), msg, dict(rp, check=name, observed=val))
    if tie:
        tie_mwf_raw(ctx, f"dv-{form}-{sname}", raw, vec)
    if not inv:
        return
    # invariances, evaluated in the SAME element form (X, Z and relabelling keep integers / reals / single precision exact)
    gates = ("X", "Z") if inv == "exact" else tuple(DV_GATES)
    for gi, gname in enumerate(gates):
        # every qubit for n <= 4; n = 5: first / middle / last; n = 6: one qubit per gate (chosen by the state's name)
        qubits = range(n) if n <= 4 else (sorted({0, n // 2, n - 1}) if n == 5 else [(gi + len(sname)) % n])
        for q in qubits:
            w = apply_1q(vec, n, q, DV_GATES[gname])
            ctx.count("diversity:mw:invariance=" + gname)
            try:
                v2, _ = _dv_call_mw(_dv_cast(form, w) if inv == "exact" else w)
            except (NonReal, RealCodeRaised) as e:
                _dv_fail(ctx, K(f"lu-{gname}-raises"), str(e), dict(rp, gate=gname, qubit=q))
                continue
            if abs(v2 - val) <= TOL and abs(v2 - val) <= 1e-6 * idealp + 1e-13:
                ctx.ok(K(f"lu-{gname}-q{q}"), nontrivial=n >= 2)
            else:
                _dv_fail(ctx, K(f"lu-{gname}"), f"value {val!r} -> {v2!r} after {gname} on qubit {q}", dict(rp, gate=gname, qubit=q))
    for perm in _dv_perms(n):
        w = permute_qubits(vec, n, perm)
        ctx.count("diversity:mw:invariance=relabel")
        try:
            v2, _ = _dv_call_mw(_dv_cast(form, w) if inv == "exact" else w)
        except (NonReal, RealCodeRaised) as e:
            _dv_fail(ctx, K("relabel-raises"), str(e), dict(rp, perm=perm))
            continue
        if abs(v2 - val) <= TOL and abs(v2 - val) <= 1e-6 * idealp + 1e-13:
            ctx.ok(K("relabel-" + "".join(map(str, perm))), nontrivial=n >= 2)
        else:
            _dv_fail(ctx, K("relabel"), f"value {val!r} -> {v2!r} after qubit permutation {perm}", dict(rp, perm=perm))


def tie_mwf_raw(ctx, kind, raw, vec):
    """float correspondence of the Meyer-Wallach value / entries with the real code run on the RAW input object"""
    op = {"op": "mwf", "re": [float(x) for x in vec.real], "im": [float(x) for x in vec.imag]}
    E = _E()
    rec = []
    orig = E.generalized_cross_product

    def wrapper(u, w):
        res = orig(u, w)
        rec.append(res)
        return res
    E.generalized_cross_product = wrapper
    try:
        val = E.meyer_wallach_entanglement(raw)
        lines = [f"e {q} ; {_real(e, 'entry')!r}" for q, e in enumerate(rec)] + [f"mw ; {_real(val, 'mw')!r}"]
    except NonReal as e:
        lines = ["non-real ; " + str(e).replace(";", ",")]
    except Exception:  # noqa: BLE001 - already reported by the oracle
        return
    finally:
        E.generalized_cross_product = orig
    ctx.tie(op, lines, label=f"mwf {kind} len={len(vec)}")
    ctx.count("diversity:tie-mwf")


# ---- geometric_entanglement ---------------------------------------------------------------------

# (4) call forms that must all return (measure, product state, factors)
DV_GEO_STYLES = {
    "positional": lambda E, x: E.geometric_entanglement(x, True, True),
    "keyword": lambda E, x: E.geometric_entanglement(x, return_product_state=True, product_state_with_factors=True),
    "keyword-only-swapped": lambda E, x: E.geometric_entanglement(product_state_with_factors=True, return_product_state=True,
                                                                  state_vector=x),
    "mixed": lambda E, x: E.geometric_entanglement(x, True, product_state_with_factors=True),
    "numpy-bool": lambda E, x: E.geometric_entanglement(x, np.True_, np.bool_(True)),
    "numpy-bool-keyword": lambda E, x: E.geometric_entanglement(x, product_state_with_factors=np.True_, return_product_state=np.bool_(True)),
    "int": lambda E, x: E.geometric_entanglement(x, 1, 1),
    "int-keyword": lambda E, x: E.geometric_entanglement(x, return_product_state=1, product_state_with_factors=1),
    "int-numpy-bool-mixed": lambda E, x: E.geometric_entanglement(x, 1, product_state_with_factors=np.True_),
}
DV_GEO_FLAGFORMS = {"numpy-bool": "np.bool_", "numpy-bool-keyword": "np.bool_", "int": "int", "int-keyword": "int", "int-numpy-bool-mixed": "int+np.bool_"}
DV_GEO_STYLE_ORDER = list(DV_GEO_STYLES)


def _dv_geo_case(ctx, n, form, sname, raw, info, seed, style="positional", tie=False):
    """geometric_entanglement on the raw input: shapes, range, normalisation, product state = phase * kron(factors),
    fidelity = 1 - measure with the ORIGINAL input, zero on products, closed-form values, input unmodified."""
    E = _E()
    vec = np.asarray(raw, dtype=complex).reshape(-1)
    K = lambda c: f"dv.geo.{c}:{form}:{sname}:n={n}"
    rp = _dv_payload("geo", form, sname, n, vec, info, seed=seed, style=style)
    single = _dv_single(form)
    tol = DV_TOL32 if single else TOL
    gtol = DV_TOL32 if single else GEO_TOL
    ftol = DV_TOL32 if single else FID_TOL
    snap = _dv_snapshot(raw)
    ctx.count(f"diversity:geo:form={form}")
    ctx.count(f"diversity:geo:n={n}")
    ctx.count("diversity:geo:state=" + _dv_family(sname))
    ctx.count("diversity:geo:call=" + style)
    if style in DV_GEO_FLAGFORMS:
        for opt_ in ("return_product_state", "product_state_with_factors"):
            ctx.count(f"flagforms:{opt_}:{DV_GEO_FLAGFORMS[style]}")
            ctx.count(f"flagforms:{opt_}:{DV_GEO_FLAGFORMS[style]}:True:via {'keyword' if 'keyword' in style else 'positional'}:n={n}")
    rec = []
    orig = E.tucker

    def wrapper(*a, **k):
        res = orig(*a, **k)
        rec.append((complex(np.asarray(res.core).flatten()[0]),
                    [np.asarray(f).reshape(-1).astype(complex).copy() for f in res.factors]))
        return res
    np.random.seed(seed)
    E.tucker = wrapper
    try:
        with np.errstate(all="ignore"):
            out = _guard(DV_GEO_STYLES[style], E, raw)
    except RealCodeRaised as e:
        _dv_fail(ctx, K("raises"), f"geometric_entanglement raised on a valid {n}-qubit state given as {form}: {e}", rp)
        return
    finally:
        E.tucker = orig
    if _dv_snapshot(raw) != snap:
        _dv_fail(ctx, K("input-modified"), "the input object was modified by the call", rp)
    else:
        ctx.ok(K("input-unmodified"), nontrivial=True)
    if not (isinstance(out, tuple) and len(out) == 3):
        _dv_fail(ctx, K("return-shape"), f"call style {style}: returned {type(out).__name__}, not (measure, product state, factors)", rp)
        return
    try:
        loss = _real(out[0], "geometric_entanglement")
    except NonReal as e:
        _dv_fail(ctx, K("non-real"), str(e), rp)
        return
    ps = np.asarray(out[1]).reshape(-1).astype(complex)
    fs = [np.asarray(f) for f in out[2]]
    kr = np.array([1.0 + 0j])
    for f in fs:
        kr = np.kron(kr, np.asarray(f, dtype=complex).reshape(-1))
    checks = [("range", -gtol <= loss <= 1 + gtol, f"measure {loss!r} outside [0,1]"),
              ("normalised", abs(np.linalg.norm(ps) - 1) <= tol, f"|product_state| = {np.linalg.norm(ps)!r}"),
              ("shape", len(fs) == n and all(f.shape == (1, 2) for f in fs) and ps.shape == vec.shape,
               f"factors are not {n} arrays of shape (1,2): {[f.shape for f in fs]}")]
    if len(kr) == len(ps):
        ph = np.vdot(kr, ps)
        dev = float(np.abs(ps - ph * kr).max())
        checks.append(("kron-factors", abs(abs(ph) - 1) <= tol and dev <= tol,
                       f"product_state != phase * kron(factors): |phase|={abs(ph)!r}, max dev {dev!r}"))
    if len(ps) == len(vec):
        fid = abs(np.vdot(ps, vec)) ** 2
        checks.append(("fidelity", abs(fid - (1 - loss)) <= ftol, f"fidelity {fid!r} vs 1-measure {1 - loss!r}"))
    if info.get("product"):
        checks.append(("product-zero", abs(loss) <= gtol, f"product state has measure {loss!r}"))
    if info.get("geo"):
        want, wtol = info["geo"]
        checks.append(("exact", abs(loss - want) <= max(wtol, gtol), f"measure {loss!r}, closed form {want!r} (tol {max(wtol, gtol)})"))
    for name, good, msg in checks:
        if good:
            ctx.ok(K(name), nontrivial=True)
        else:
            _dv_fail(ctx, K(name), msg, dict(rp, check=name, observed=loss))
    if tie and not single and len(rec) >= 1:
        tie_geo(ctx, f"dv-{form}-{sname}", vec, seed, loss, ps, fs, rec)
        ctx.count("diversity:tie-geo")


def _diversity_geo_callforms(ctx, n, form, sname, raw, seed):
    """(4) every keyword at its default / explicitly default / non-default, positional vs keyword, on the same input and
    seed: the measure must be the same number in all of them, the product state the same vector, the return shape as
    documented (float / 2-tuple / 3-tuple)."""
    E = _E()
    g = E.geometric_entanglement
    vec = np.asarray(raw, dtype=complex).reshape(-1)
    calls = [
        ("default", 1, lambda: g(raw)),
        ("kw-state-only", 1, lambda: g(state_vector=raw)),
        ("pos-F", 1, lambda: g(raw, False)),
        ("pos-F-F", 1, lambda: g(raw, False, False)),
        ("kw-F-F", 1, lambda: g(raw, return_product_state=False, product_state_with_factors=False)),
        ("kw-factors-only", 1, lambda: g(raw, product_state_with_factors=True)),
        ("pos-F-T", 1, lambda: g(raw, False, True)),
        ("pos-T", 2, lambda: g(raw, True)),
        ("kw-T", 2, lambda: g(raw, return_product_state=True)),
        ("pos-T-F", 2, lambda: g(raw, True, False)),
        ("kw-T-F-swapped", 2, lambda: g(raw, product_state_with_factors=False, return_product_state=True)),
        ("pos-T-T", 3, lambda: g(raw, True, True)),
        ("kw-T-T", 3, lambda: g(raw, return_product_state=True, product_state_with_factors=True)),
        ("kw-all-swapped", 3, lambda: g(product_state_with_factors=True, state_vector=raw, return_product_state=True)),
        ("numpy-bool-T-T", 3, lambda: g(raw, np.True_, np.True_)),
        ("numpy-bool-F-F", 1, lambda: g(raw, np.False_, np.False_)),
        # every combination of the two flags as numpy.bool_ and as int 1 / 0, positional and by keyword (the documented return
        # shape is decided by their truth values: float / (measure, state) / (measure, state, factors))
        ("numpy-bool-T-F", 2, lambda: g(raw, np.True_, np.False_)),
        ("numpy-bool-F-T", 1, lambda: g(raw, np.False_, np.True_)),
        ("numpy-bool-kw-T-T", 3, lambda: g(raw, return_product_state=np.bool_(True), product_state_with_factors=np.bool_(True))),
        ("numpy-bool-kw-T", 2, lambda: g(raw, return_product_state=np.True_)),
        ("numpy-bool-kw-T-F-swapped", 2, lambda: g(raw, product_state_with_factors=np.False_, return_product_state=np.True_)),
        ("int-T-T", 3, lambda: g(raw, 1, 1)),
        ("int-T-F", 2, lambda: g(raw, 1, 0)),
        ("int-F-T", 1, lambda: g(raw, 0, 1)),
        ("int-F-F", 1, lambda: g(raw, 0, 0)),
        ("int-kw-T-T", 3, lambda: g(raw, return_product_state=1, product_state_with_factors=1)),
        ("int-kw-T-F-swapped", 2, lambda: g(raw, product_state_with_factors=0, return_product_state=1)),
        ("int-kw-F", 1, lambda: g(raw, return_product_state=0)),
        ("mixed-forms-T-T", 3, lambda: g(raw, np.True_, product_state_with_factors=1)),
        ("mixed-forms-T-F", 2, lambda: g(raw, 1, np.False_)),
    ]
    rp = _dv_payload("geo-callforms", form, sname, n, vec, {}, seed=seed)
    ref = None
    for cname, arity, fn in calls:
        ctx.count("diversity:geo:callform=" + cname)
        if cname.startswith(("numpy-bool", "int-", "mixed-forms")):
            ff = "np.bool_" if cname.startswith("numpy") else "int" if cname.startswith("int") else "int+np.bool_"
            ctx.count(f"flagforms:return_product_state/product_state_with_factors:{ff}")
            ctx.count(f"flagforms:return_product_state/product_state_with_factors:{ff}:{cname.split('-', 2)[-1] if not cname.startswith('mixed') else cname[12:]}:n={n}")
        key = f"dv.geo.callform:{cname}:{form}:{sname}:n={n}"
        np.random.seed(seed)
        try:
            with np.errstate(all="ignore"):
                out = _guard(fn)
        except RealCodeRaised as e:
            _dv_fail(ctx, key, f"raised: {e}", dict(rp, callform=cname))
            continue
        got = 1 if not isinstance(out, tuple) else len(out)
        if got != arity:
            _dv_fail(ctx, key, f"returned {type(out).__name__} of {got} component(s), documented: {arity}", dict(rp, callform=cname))
            continue
        loss = complex(out[0] if arity > 1 else out)
        psv = np.asarray(out[1]).reshape(-1).astype(complex) if arity > 1 else None
        if ref is None:
            ref = [loss, None]
        if psv is not None and ref[1] is None:
            ref[1] = psv
        tol = 1e-6 if _dv_single(form) else 1e-12
        bad = abs(loss - ref[0]) > tol or (psv is not None and (psv.shape != ref[1].shape or float(np.abs(psv - ref[1]).max()) > tol))
        tol2 = DV_TOL32 if _dv_single(form) else FID_TOL
        if psv is not None and not np.isnan(psv).any() and psv.shape == vec.shape and (
                abs(np.linalg.norm(psv) - 1) > tol2 or abs(abs(np.vdot(psv, vec)) ** 2 - (1 - loss.real)) > tol2):
            # each return shape on its own: the product state is normalised and has fidelity 1 - measure with the input
            _dv_fail(ctx, key, f"|product_state| = {np.linalg.norm(psv)!r}, fidelity {abs(np.vdot(psv, vec)) ** 2!r}, "
                     f"1 - measure = {1 - loss.real!r}", dict(rp, callform=cname))
        elif bad or loss != loss:
            _dv_fail(ctx, key, f"same input and seed: measure {loss!r} vs {ref[0]!r} of the default call, or a different product state",
                     dict(rp, callform=cname))
        else:
            ctx.ok(key, nontrivial=True)


def _diversity(ctx, reps=1):
    """entry of the diversity pass: every state structure x sizes n = 1..6 x element forms x call forms"""
    for rep in range(reps):
        for n in (1, 2, 3, 4, 5, 6):
            sts = _dv_states(ctx, n)
            for si, (sname, vec, info) in enumerate(sts):
                forms = _dv_forms_for(vec)
                # n <= 3: every applicable element form; larger n: complex128 plus rotating forms (integer forms first)
                if n <= 3:
                    chosen = forms
                else:
                    rest = [f for f in forms if f != "c128"]
                    k = 2 if n == 4 else 1
                    chosen = ["c128"] + [rest[(si * k + j + rep) % len(rest)] for j in range(k)]
                    if n == 5 and si % 2 == 1:
                        chosen = chosen[:1]
                    if n == 6:                  # one form per state: complex128 and a rotating form alternate
                        chosen = chosen[:1] if si % 2 == 0 else chosen[1:]
                    chosen = list(dict.fromkeys(chosen))
                # the expensive observables (geometric measure, invariances in the same element form) on complex128, on
                # every integer form and on four rotating other forms; the Meyer-Wallach value on every chosen form
                others = [f for f in chosen if f != "c128" and not f.endswith("int") and f not in DV_INT_FORMS]
                ints = [f for f in chosen if f.endswith("int") or f in DV_INT_FORMS]
                heavy = set(chosen) if n > 3 else ({"c128"} | set(ints[:2]) | {f for f in ints[2:][(si + rep) % 3:][:1]}
                                                   | {others[(si * 2 + j + rep) % len(others)] for j in range(2)})
                inv_forms = {"int64", others[(si * 2 + rep) % len(others)] if others else "c128"}
                for fi, form in enumerate(chosen):
                    raw = _dv_cast(form, vec)
                    inv = None
                    if form == "c128" or n == 6:
                        inv = "full"
                    elif n <= 3 and form in inv_forms:
                        inv = "exact"
                    _dv_mw_case(ctx, n, form, sname, raw, info, keyword=((si + fi) % 3 == 1),
                                tie=(form == "c128" and (n <= 4 or si % 4 == 0)) or (n <= 3 and (si + fi) % 5 == 0), inv=inv)
                    if n >= 2 and form in heavy:
                        style = DV_GEO_STYLE_ORDER[(si + fi) % len(DV_GEO_STYLE_ORDER)]
                        _dv_geo_case(ctx, n, form, sname, raw, info, ctx.rng.getrandbits(31), style=style,
                                     tie=(form == "c128" and n <= 4 and si % 2 == 0) or (n <= 3 and (si + fi) % 7 == 1))
            if 2 <= n <= 4:
                # (4) call forms: a complex dense state as ndarray / list / tuple, a real state as float list, an integer basis list
                pick = {nm: (v, i) for nm, v, i in sts}
                cases = [("dense-complex", "c128"), ("dense-complex", "list-complex"), ("dense-complex", "tuple-complex"),
                         ("w-phases", "list-mixed"), ("dense-real", "list-float"), ("dense-real", "f32"),
                         ("basis1-neg" if n <= 2 else "basis2", "list-int"), ("ghz-rel-i", "c64")]
                for sname, form in cases[:{2: 8, 3: 4, 4: 2}[n]] if rep == 0 else cases:
                    if sname in pick:
                        _diversity_geo_callforms(ctx, n, form, sname, _dv_cast(form, pick[sname][0]), ctx.rng.getrandbits(31))
    ctx.notes.append("diversity pass: float32 / complex64 inputs are compared to 5e-5 in the geometric measure (tensorly then "
                     "computes in single precision; unchanged code reaches 3e-7), Meyer-Wallach on them to 1e-9 (the slices are "
                     "complex128)")


def _dv_replay(ctx, r):
    vec = cvec(r["re"], r["im"])
    n, form, sname = int(r["n"]), r["form"], r["state"]
    info = r.get("info") or {}
    if info.get("geo"):
        info["geo"] = tuple(info["geo"])
    raw = _dv_cast(form, vec)
    if r["entry"] == "mw":
        _dv_mw_case(ctx, n, form, sname, raw, info, keyword=bool(r.get("keyword")), inv=r.get("inv"))
    elif r["entry"] == "geo":
        _dv_geo_case(ctx, n, form, sname, raw, info, int(r["seed"]), style=r.get("style", "positional"))
    else:
        _diversity_geo_callforms(ctx, n, form, sname, raw, int(r["seed"]))

# ================================================================================================
# end of the input-diversity section
# ================================================================================================


def run_sizes(ctx, ns_mw, ns_geo, reps, mwq_ns, mwf_ns, qreps=1):
    tie_iota(ctx, 10)
    oracle_iota(ctx, 10)
    boundary_cases(ctx)
    for n in mwq_ns:
        for _ in range(qreps if n <= 6 else 1):
            for (kind, re, im, den) in rational_vectors(ctx, n):
                tie_mwq(ctx, n, kind, re, im, den)
    for L in (1, 3, 5, 6, 7, 12):       # lengths the real code rejects (ZeroDivisionError / IndexError)
        tie_mwq(ctx, 0, "bad-length", [1] * L, [0] * L, 1)
        tie_mwf(ctx, "bad-length", np.ones(L) / math.sqrt(L))
    for n in mwf_ns:
        for _ in range(qreps if n <= 6 else 1):
            for kind, v in states(ctx, n)[:4]:
                tie_mwf(ctx, kind, v)
    for n in ns_mw:
        for rep in range(reps if n <= 6 else 1):
            for kind, v in states(ctx, n):
                if n >= 8 and kind not in ("haar", "product-complex", "product-zeros", "ghz", "w", "bell-x-product"):
                    continue
                oracle_mw_state(ctx, n, kind, v, light=(n >= 8))
    for n in ns_geo:
        for rep in range(reps):
            for kind, v in states(ctx, n):
                oracle_geo_state(ctx, n, kind, v, ctx.rng.getrandbits(31), tie=(rep == 0 and n <= 6))
    # real-dtype input (tensorly then optimises over real product states only): the property's clauses still apply
    for n in (2, 3):
        g = ctx.nprng()
        x = g.normal(size=2 ** n)
        x /= np.linalg.norm(x)
        oracle_geo_state(ctx, n, "real-dtype", x, ctx.rng.getrandbits(31), tie=False)
    _diversity(ctx, reps=(1 if ctx.quick else 3))
    ctx.notes.append("geometric measure tolerances: product/GHZ 1e-9 (unchanged code reaches 4e-15), W_n 1e-3 "
                     "(tucker's stopping tol=1e-4 leaves ~1e-5), fidelity 1e-7; numpy global RNG seeded before each call")
    # observation outside the stated property: tensorly's random init is real, so real-amplitude states are optimised over
    # real product states only; (|001>+|010>+|100>-|111>)/2 is LU-equivalent to GHZ_3 (true measure 1/2)
    x = np.array([0, 1, 1, 0, 1, 0, 0, -1], dtype=complex) / 2
    try:
        lx, _, _, _ = call_geo(x, ctx.rng.getrandbits(31))
        plus_i = np.array([1, 1j]) / math.sqrt(2)
        fid = abs(np.vdot(np.kron(np.kron(plus_i, plus_i), plus_i), x)) ** 2
        ctx.notes.append(f"observation (outside the stated property, not a failure): geometric_entanglement((|001>+|010>+|100>-|111>)/2) "
                         f"= {lx:.6f} although the product state |+i>^3 has fidelity {fid:.6f}, i.e. the true geometric measure is <= "
                         f"{1 - fid:.6f}; global optimality / local-unitary invariance of the geometric value is not part of C20's statement")
    except (NonReal, RealCodeRaised) as e:
        ctx.notes.append(f"observation probe raised: {e}")
    ctx.notes.append("geometric_entanglement raises ValueError for a 1-qubit vector (tensorly needs >= 2 factors); n=1 is outside the "
                     "property's quantifier (n >= 2)")


def run(ctx):
    if ctx.quick:
        # Meyer-Wallach up to 9 qubits (half vectors of 128 / 256 entries: beyond any small-size fast path), geometric to 7
        run_sizes(ctx, ns_mw=range(2, 10), ns_geo=range(2, 8), reps=2, mwq_ns=range(1, 7), mwf_ns=range(1, 8))
    else:
        run_sizes(ctx, ns_mw=range(2, 11), ns_geo=range(2, 9), reps=8, mwq_ns=range(1, 9), mwf_ns=range(1, 9), qreps=4)


def search(ctx, hints):
    """A proof / translation / tie went red: evaluate the property itself on the real code."""
    oracle_iota(ctx, 11)
    for h in hints:
        op = h["op"]
        if op.get("op") in ("mwq", "mwf"):
            v = cvec(op["re"], op["im"], op.get("den", 1))
            L = len(v)
            if L >= 2 and L & (L - 1) == 0 and np.linalg.norm(v) > 0:
                n = L.bit_length() - 1
                oracle_mw_state(ctx, n, "hint", v / np.linalg.norm(v))
    for n in range(2, 9):
        for kind, v in states(ctx, n):
            oracle_mw_state(ctx, n, kind, v, light=(n >= 8))
    for n in range(2, 8):
        for kind, v in states(ctx, n):
            oracle_geo_state(ctx, n, kind, v, ctx.rng.getrandbits(31), tie=False)


def replay(ctx, payload):
    r = payload.get("replay") or {}
    if not r:   # an obligation (proof / translation / tie) stopped checking and no failing input was found: re-run everything
        run(ctx)
        return
    if r.get("kind") == "iota":
        oracle_iota(ctx, int(r["n"]))
        return
    if r.get("kind") == "dv":
        _dv_replay(ctx, r)
        return
    v = cvec(r["re"], r["im"])
    n = len(v).bit_length() - 1
    if r.get("check") == "options":
        oracle_geo_options(ctx, n, r.get("state_kind", "replay"), v, int(r["seed"]))
        return
    if r.get("check") == "dtype":
        oracle_mw_dtype(ctx, n)
        return
    if r.get("kind") == "geo":
        oracle_geo_state(ctx, n, r.get("state_kind", "replay"), v, int(r["seed"]), tie=False)
    else:
        oracle_mw_state(ctx, n, r.get("state_kind", "replay"), v)
