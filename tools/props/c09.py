"""C09 — Schmidt decomposition / composition across any bipartition (qclib/entanglement.py)."""
import itertools
import math
import numpy as np

CLAIMED = True
TECHNIQUE = ("Lean 4 proof (bit-list arithmetic, all n, all duplicate-free axis lists) that the two reshape index maps are "
             "mutually inverse and which bits go where; rank rule proved to return the least power of two; composition "
             "theorem over any commutative ring under the SVD specification; exact permutation diff of the model against "
             "_separation_matrix/_undo_separation_matrix and of the rank rule against low_rank_approximation; numerical "
             "oracle on schmidt_decomposition/schmidt_composition")
LEVEL_TEXT = ("Proved for the model, for every n and every duplicate-free list of axes < n (any order): undo(sep v) = v and "
              "sep(undo M) = M (C09_roundtrip_vec/_mat, index form C09_roundtrip), row/column bits of the flat index in which "
              "order (C09_bits), sorted(partition) is what is moved for natural-number partitions (C09_axes_sorted), the rank "
              "returned is a power of two, the least one >= min(r, eff) (r=0 => eff) and never above min(rows, cols) "
              "(C09_pow2), slicing keeps orthonormality (C09_sliced_orthonormal), and composing U diag(s) V from an SVD "
              "whose dropped coefficients vanish and undoing the reshape returns the vector (C09_compose). Tie: the index "
              "permutations are diffed exactly against the real functions for every subset (sorted) of n<=6 (8 thorough), "
              "every ordering for n<=4 (5), random orderings, negative/duplicate/out-of-range axes; the rank rule against "
              "low_rank_approximation exhaustively on lr in -2..40 x eff in 0..40 plus 2^k-1, 2^k, 2^k+1 up to 2^20 and "
              "singular-value lists around the 1e-7 threshold. Orthonormality of numpy's SVD factors, sortedness and "
              "non-negativity of its singular values are K4 hypotheses, validated numerically (oracle).")
LEVEL_NOTE = ("Trusted: Lean kernel (standard axioms); numpy reshape/moveaxis semantics as specified in Model/Schmidt.lean "
              "(validated by the exact tie); np.linalg.svd (hypothesis of C09_compose, validated by the oracle); float rank idiom "
              "2**ceil(log2(x)) = least power of two (exact for x < 2^49, tied up to 2^20+1); the 1e-7 threshold is modelled as an "
              "exact comparison, inputs keep singular values outside [1e-9, 1e-5].")
LEAN_TARGETS = ["QclibModel.Props.C09"]
DRIVER = "Drivers/C09.lean"
THEOREMS = ["Qclib.C09_roundtrip", "Qclib.C09_roundtrip_vec", "Qclib.C09_roundtrip_mat", "Qclib.C09_bits",
            "Qclib.C09_axes_sorted", "Qclib.C09_pow2", "Qclib.C09_sliced_orthonormal", "Qclib.C09_compose",
            "Qclib.C09_rank_src"]
TRUSTED = [
    "numpy reshape (C order) and moveaxis semantics as written in Model/Schmidt.lean (validated by the exact permutation tie each run)",
    "np.linalg.svd returns U, s, Vh with M = U diag(s) Vh, orthonormal columns/rows, s sorted non-increasing and >= 0 (validated numerically each run)",
    "math.log2/ceil on integers: 2**ceil(log2(x)) is the least power of two >= x (tied exhaustively on small x and at 2^k-1, 2^k, 2^k+1 up to 2^20)",
    "tools/py2lean.py: _effective_rank and the rank statements of low_rank_approximation are re-translated from the source on every "
    "run (Gen/SchmidtRank.lean) and proved equal to effRank / rankRule (C09_rank_src); second tie: the generated definitions run by "
    "the driver on exact rationals vs the Python originals (tools/schmidt_src.py: spectra with entries at / one ulp around 10**-7)",
]
ASSUMPTIONS = ["exact arithmetic in the theorems; implementation compared to 1e-7",
               "the 'edge-tail' boundary families place one coefficient at 3e-7 / 3.3e-8 (excluded band (5e-8, 2e-7) instead of [1e-9, 1e-5]): "
               "a dropped 3.3e-8 coefficient moves the composition by less than the 1e-7 tolerance",
               "float32 / complex64 inputs: numpy's SVD runs in single precision; compared with the up-cast input to 1e-5 and only on states "
               "whose Schmidt coefficients are all >= 3e-4 or on exact basis states",
               "C09_compose: the singular values dropped by the rank rule are exactly 0 (in the implementation: <= 1e-7; generated inputs keep them < 1e-9)"]
RULE = ("tie: (n, partition list) whose full index permutation (both directions) was diffed, and (low_rank, eff) / singular-value "
        "lists whose rank was diffed; oracle: (vector family, n, partition, rank) on which schmidt_decomposition + "
        "schmidt_composition of the real code were evaluated against an independent bit-arithmetic reshape and numpy SVD; "
        "non-trivial = n>=2 and non-empty proper partition; diversity cases: the same observables with the state / partition / "
        "rank / factors handed over in each container and element type, call form and scale / phase structure (keys diversity:*)")

BAND = (1e-9, 1e-5)   # singular values of generated inputs stay outside this band around the 1e-7 rank threshold


# ---------------------------------------------------------------------------------------------
# independent reference (plain bit arithmetic, no numpy axis functions)
# ---------------------------------------------------------------------------------------------

def ref_index(n, part, i):
    """(row, col) of flat index i: column bits = axes sorted(part), row bits = the other axes, both
    most significant first; axis a = bit n-1-a of i."""
    cols_axes = sorted(part)
    rows_axes = [a for a in range(n) if a not in part]
    r = 0
    for a in rows_axes:
        r = 2 * r + ((i >> (n - 1 - a)) & 1)
    c = 0
    for a in cols_axes:
        c = 2 * c + ((i >> (n - 1 - a)) & 1)
    return r, c


def ref_sep(n, v, part):
    k = len(part)
    m = np.zeros((2 ** (n - k), 2 ** k), dtype=np.asarray(v).dtype)
    for i in range(2 ** n):
        r, c = ref_index(n, part, i)
        m[r, c] = v[i]
    return m


def ref_undo(n, m, part):
    v = np.zeros(2 ** n, dtype=np.asarray(m).dtype)
    for i in range(2 ** n):
        r, c = ref_index(n, part, i)
        v[i] = m[r, c]
    return v


def clp2(x):
    p = 1
    while p < x:
        p *= 2
    return p


# ---------------------------------------------------------------------------------------------
# tie
# ---------------------------------------------------------------------------------------------

def sep_impl_lines(n, part):
    from qclib.entanglement import _separation_matrix, _undo_separation_matrix
    try:
        m = _separation_matrix(n, np.arange(2 ** n), list(part))
        rows, cols = m.shape
        # m[r, c] = i  <=> entry i of the vector lands at (r, c)
        undo_tab = [int(x) for x in m.reshape(-1)]
        v = _undo_separation_matrix(n, np.arange(2 ** n).reshape(rows, cols), list(part))
        sep_tab = [int(x) for x in v]   # v[i] = r*cols + c
    except Exception:   # numpy AxisError / ValueError (duplicate, out of range)
        return ["reject"]
    return ["sep " + " ".join(map(str, sep_tab)), "undo " + " ".join(map(str, undo_tab))]


def tie_sep(ctx, n, part):
    ctx.tie({"op": "sep", "n": n, "P": [int(a) for a in part]}, sep_impl_lines(n, part))
    ctx.count("sep:sorted" if list(part) == sorted(part) else "sep:unsorted")


def rank_impl(lr, s):
    from qclib.entanglement import low_rank_approximation
    s = np.asarray(s, dtype=float)
    try:
        r, u, sv, v = low_rank_approximation(lr, np.zeros((1, len(s))), np.zeros((len(s), 1)), s)
    except ValueError:
        return None
    return int(r)


def tie_rank(ctx, lr, eff):
    r = rank_impl(lr, np.ones(eff))
    ctx.tie({"op": "rank", "lr": lr, "eff": eff}, ["reject"] if r is None else [f"rank {r}"])
    ctx.count("rank")


def tie_ranks(ctx, lr, s):
    from qclib.entanglement import _effective_rank
    eff = int(_effective_rank(np.asarray(s, dtype=float)))
    r = rank_impl(lr, s)
    ctx.tie({"op": "ranks", "lr": lr, "s": [float(x) for x in s]},
            [f"eff {eff}", "reject" if r is None else f"rank {r}"])
    ctx.count("ranks")


def generate(ctx):
    """Rank rule re-translated from the current source (tools/schmidt_src.py); a refusal raises (broken obligation)."""
    import schmidt_src
    return schmidt_src.generate(ctx, "QclibModel.Props.C09", ["Qclib.C09_rank_src"])


def run_tie(ctx):
    import schmidt_src
    schmidt_src.tie(ctx)
    quick = ctx.quick
    nmax = 6 if quick else 8
    nperm = 4 if quick else 5
    for n in range(0, nmax + 1):
        for k in range(0, n + 1):
            for sub in itertools.combinations(range(n), k):
                tie_sep(ctx, n, sub)
    for n in range(2, nperm + 1):
        for k in range(2, n + 1):
            for p in itertools.permutations(range(n), k):
                if list(p) != sorted(p):
                    tie_sep(ctx, n, p)
    for n in range(nperm + 1, nmax + 1):
        for _ in range(12 if quick else 40):
            k = ctx.rng.randint(2, n)
            p = ctx.rng.sample(range(n), k)
            tie_sep(ctx, n, p)
    # what numpy does outside the documented domain: negative axes, duplicates, out of range
    for n in (1, 2, 3, 4):
        for p in ([-1], [-n], [-n - 1], [n], [0, 0], [n - 1, -1], [-1, 0], [0, -1], [-2, -1], [-1, -2], [0, n],
                  list(range(n)) + [0]):
            tie_sep(ctx, n, p)
    for _ in range(20 if quick else 80):
        n = ctx.rng.randint(2, 6)
        k = ctx.rng.randint(1, n)
        p = [ctx.rng.randint(-n - 1, n) for _ in range(k)]
        tie_sep(ctx, n, p)

    # rank rule
    hi = 40 if quick else 70
    for eff in range(0, hi + 1):
        for lr in range(-2, hi + 1):
            tie_rank(ctx, lr, eff)
    kmax = 14 if quick else 20
    for k in range(6, kmax + 1):
        for eff in (2 ** k - 1, 2 ** k, 2 ** k + 1):
            for lr in (0, 1, 2 ** (k - 1) - 1, 2 ** (k - 1), 2 ** (k - 1) + 1, 2 ** k - 1, 2 ** k, 2 ** k + 1, 2 ** (k + 1)):
                tie_rank(ctx, lr, eff)
    # threshold: strictly greater than 1e-7 counts
    lists = [
        [1.0, 0.5, 1e-7, 1.1e-7, 0.9e-7, 0.0],
        [1.0, 1.0000001e-7, 0.9999999e-7],
        [1e-7] * 4, [2e-7] * 3, [0.0] * 4, [1e-8] * 2,
        [0.9, 0.3, 0.3, 1e-12, 0.0, 0.0, 0.0, 0.0],
        [1.0] + [1e-3] * 4 + [1e-10] * 3,
        [0.5] * 8, [0.7, 0.7, 1e-6, 1e-6, 1e-8],
    ]
    for s in lists:
        for lr in (0, 1, 2, 3, 4, 5, 8, 9):
            tie_ranks(ctx, lr, s)
    for _ in range(10 if quick else 60):
        m = ctx.rng.choice([2, 4, 8, 16])
        s = sorted((ctx.rng.choice([ctx.rng.random(), 3e-7, 5e-8, 0.0, 1e-7]) for _ in range(m)), reverse=True)
        tie_ranks(ctx, ctx.rng.randint(0, m + 1), s)


# ---------------------------------------------------------------------------------------------
# oracle: the property on the real code
# ---------------------------------------------------------------------------------------------

def rand_unit(rng, d, real=False):
    v = rng.normal(size=d) + (0 if real else 1j * rng.normal(size=d))
    return v / np.linalg.norm(v)


def orthonormal(rng, d, k, real=False):
    a = rng.normal(size=(d, k)) + (0 if real else 1j * rng.normal(size=(d, k)))
    q, _ = np.linalg.qr(a)
    return q[:, :k]


def with_spectrum(rng, n, part, spec, real=False):
    """A state whose Schmidt coefficients across `part` are exactly `spec` (normalised)."""
    k = len(part)
    rows, cols = 2 ** (n - k), 2 ** k
    spec = np.asarray(spec, dtype=float)
    spec = spec / np.linalg.norm(spec)
    a = orthonormal(rng, rows, len(spec), real)
    b = orthonormal(rng, cols, len(spec), real)
    m = (a * spec) @ b.T
    return ref_undo(n, m, part)


def families(ctx, rng, n, part):
    """(name, vector) pairs; every vector is a unit vector with Schmidt spectrum outside BAND."""
    d = 2 ** n
    k = len(part)
    mind = min(2 ** k, 2 ** (n - k))
    out = [("complex", rand_unit(rng, d)), ("real", rand_unit(rng, d, real=True))]
    e = np.zeros(d, dtype=complex)
    e[int(rng.integers(d))] = rng.choice([1, -1, 1j, -1j])
    out.append(("basis", e))
    # product state, qubit factors in shuffled order (rank 1 across every bipartition)
    facs = [rand_unit(rng, 2) for _ in range(n)]
    t = np.array([1.0 + 0j])
    for f in facs:
        t = np.kron(t, f)
    out.append(("product", t))
    ghz = np.zeros(d, dtype=complex)
    ghz[0] = ghz[-1] = 1 / math.sqrt(2)
    out.append(("ghz", ghz))
    w = np.zeros(d, dtype=complex)
    for q in range(n):
        w[1 << q] = 1 / math.sqrt(n)
    out.append(("w", w))
    if mind >= 2:
        out.append(("small-tail", with_spectrum(rng, n, part, [1.0, 3e-4] if mind < 4 else [0.9, 0.4, 2e-4])))
        out.append(("repeated", with_spectrum(rng, n, part, [1.0] * mind)))
        out.append(("repeated-pair", with_spectrum(rng, n, part, [1.0, 1.0] + [0.3] * (mind - 2), real=True)))
    if mind >= 4:
        kk = int(rng.integers(2, mind))
        out.append((f"deficient{kk}", with_spectrum(rng, n, part, list(rng.uniform(0.2, 1.0, size=kk)))))
        out.append(("deficient3", with_spectrum(rng, n, part, [0.8, 0.5, 0.33])))
        out.append(("tiny-tail", with_spectrum(rng, n, part, [0.9, 0.4] + [1e-11] * (mind - 2))))
    return out


def oracle_case(ctx, name, n, part, v, r, key=None, svd=None, band=BAND):
    """Evaluate C09 on the real code for one (vector, partition, requested rank).  `svd`: value of the `svd` argument
    (None = not passed, i.e. the default 'auto')."""
    from qclib.entanglement import schmidt_decomposition, schmidt_composition
    part = list(part)
    k = len(part)
    rows, cols = 2 ** (n - k), 2 ** k
    key = key or f"schmidt:{name}:n={n}:P={','.join(map(str, part))}:r={r}" + (f":svd={svd}" if svd else "")
    rep = {"call": "schmidt_decomposition/schmidt_composition", "family": name, "n": n, "partition": part, "rank": r, "svd": svd,
           "band": list(band),
           "vector_re": [float(x) for x in np.real(v)], "vector_im": [float(x) for x in np.imag(v)]}
    # independent reference
    mref = ref_sep(n, np.asarray(v, dtype=complex), part)
    sref = np.linalg.svd(mref, compute_uv=False)
    if any(band[0] <= x <= band[1] for x in sref):
        ctx.count("skipped:threshold-band")
        return
    eff = int((sref > 1e-7).sum())
    want = clp2(r if 0 < r < eff else eff)
    vin = np.array(v, copy=True)
    try:
        if svd is None:
            rank, u, s, vh = schmidt_decomposition(v, part, rank=r)
        else:
            rank, u, s, vh = schmidt_decomposition(v, part, rank=r, svd=svd)
        back = schmidt_composition(u, vh, s, part)
    except Exception as ex:   # a valid input must not raise
        ctx.fail(key, f"raised {type(ex).__name__}: {ex}", rep)
        return
    problems = []
    if not np.array_equal(vin, np.asarray(v)):
        problems.append("input vector modified")
    if int(rank) != want:
        problems.append(f"rank {rank} != least power of two >= min(r, eff) = {want} (eff={eff})")
    if rank & (rank - 1) or rank < 1:
        problems.append(f"rank {rank} not a power of two")
    if len(s) != rank or u.shape != (rows, rank) or vh.shape != (rank, cols):
        problems.append(f"shapes U{u.shape} s{s.shape} V{vh.shape} for rank {rank}, matrix {rows}x{cols}")
    elif rank >= 1:
        gu = np.abs(u.conj().T @ u - np.eye(rank)).max()
        gv = np.abs(vh @ vh.conj().T - np.eye(rank)).max()
        if gu > 1e-7:
            problems.append(f"left vectors not orthonormal ({gu:.2e})")
        if gv > 1e-7:
            problems.append(f"right vectors not orthonormal ({gv:.2e})")
        if np.any(np.imag(s) != 0) or np.any(np.real(s) < 0) or np.any(np.diff(np.real(s)) > 1e-12):
            problems.append("coefficients not non-negative non-increasing")
        if np.abs(np.real(s) - sref[:rank]).max() > 1e-7:
            problems.append("coefficients differ from the singular values of the independent reshape")
        if back.shape != (2 ** n,):
            problems.append(f"composition has shape {back.shape}")
        elif rank >= eff:
            err = np.abs(back - v).max()
            if err > 1e-7:
                problems.append(f"composition differs from the input by {err:.2e} (no truncation)")
        else:
            # truncated: squared norm is the sum of the kept squared coefficients; when the cut is
            # not inside a degenerate cluster the truncation is unique and is compared entry-wise
            nn = float(np.vdot(back, back).real)
            if abs(nn - float((sref[:rank] ** 2).sum())) > 1e-7:
                problems.append(f"truncated composition has squared norm {nn}")
            if sref[rank - 1] - sref[rank] > 1e-3:
                uu, ss, vv = np.linalg.svd(mref, full_matrices=False)
                t = ref_undo(n, (uu[:, :rank] * ss[:rank]) @ vv[:rank], part)
                err = np.abs(back - t).max()
                if err > 1e-7:
                    problems.append(f"truncated composition differs from the independent truncation by {err:.2e}")
    ctx.count(f"fam:{name.rstrip('0123456789')}")
    ctx.count("truncated" if want < eff else "untruncated")
    if problems:
        ctx.fail(key, "; ".join(problems), rep)
    else:
        ctx.ok(key, nontrivial=n >= 2 and 0 < k < n,
               sample={"family": name, "n": n, "partition": part, "r": r, "rank": int(rank), "eff": eff})


def reshape_case(ctx, n, part, rng, key=None):
    """Real reshape vs independent bit arithmetic, and both round trips, on a random complex vector."""
    from qclib.entanglement import _separation_matrix, _undo_separation_matrix
    part = list(part)
    key = key or f"reshape:n={n}:P={','.join(map(str, part))}"
    v = rng.normal(size=2 ** n) + 1j * rng.normal(size=2 ** n)
    rep = {"call": "_separation_matrix/_undo_separation_matrix", "n": n, "partition": part}
    try:
        m = _separation_matrix(n, v, part)
        back = _undo_separation_matrix(n, m, part)
        mm = rng.normal(size=m.shape)
        back2 = _separation_matrix(n, _undo_separation_matrix(n, mm, part), part)
    except Exception as ex:
        ctx.fail(key, f"raised {type(ex).__name__}: {ex}", rep)
        return
    problems = []
    if m.shape != (2 ** (n - len(part)), 2 ** len(part)):
        problems.append(f"shape {m.shape}")
    elif not np.array_equal(m, ref_sep(n, v, part)):
        # not part of C09's statement (any consistent layout inside the two groups satisfies it; the
        # bipartition itself is checked through the singular values in oracle_case); C07 depends on it
        ctx.count("layout-differs-from-reference")
    if not np.array_equal(back, v):
        problems.append("undo(sep(v)) != v")
    if not np.array_equal(back2, mm):
        problems.append("sep(undo(M)) != M")
    if problems:
        ctx.fail(key, "; ".join(problems), rep)
    else:
        ctx.ok(key, nontrivial=0 < len(part) < n)


def ranks_for(k, n):
    mind = min(2 ** k, 2 ** (n - k))
    return list(range(0, mind + 2))


def run_oracle(ctx, nmax=None, nfull=None):
    rng = ctx.nprng()
    nmax = nmax or (6 if ctx.quick else 8)
    nfull = nfull or (5 if ctx.quick else 6)       # all subsets x all ranks up to here
    for n in range(2, nmax + 1):
        subsets = [s for k in range(1, n) for s in itertools.combinations(range(n), k)]
        if n > nfull:
            subsets = ctx.rng.sample(subsets, 12 if ctx.quick else 30)
        for sub in subsets:
            reshape_case(ctx, n, sub, rng)
            orders = [list(sub)]
            if len(sub) >= 2:
                sh = list(sub)
                while sh == sorted(sh):
                    ctx.rng.shuffle(sh)
                orders.append(sh)
                reshape_case(ctx, n, sh, rng)
            fams = families(ctx, rng, n, list(sub))
            for name, v in fams:
                rs = ranks_for(len(sub), n)
                if n > 4 and name not in ("complex", "repeated", "deficient3"):
                    rs = [0, 1] + ([ctx.rng.choice(rs[2:])] if len(rs) > 2 else [])
                for r in rs:
                    for od in orders:
                        oracle_case(ctx, name, n, od, v, r)
    # SVD specification (K4): M = U diag(s) Vh, validated on the matrices the code would see
    for _ in range(20):
        a = rng.normal(size=(8, 4)) + 1j * rng.normal(size=(8, 4))
        u, s, vh = np.linalg.svd(a, full_matrices=False)
        ctx.assumption_checks += 1
        if np.abs((u * s) @ vh - a).max() > 1e-9 or np.any(np.diff(s) > 0) or np.any(s < 0):
            ctx.fail("assumption:svd-spec", "np.linalg.svd does not satisfy its specification", kind="assumption")
    if ctx.hist.get("layout-differs-from-reference"):
        ctx.notes.append("the real reshape orders rows/columns differently from the reference layout (axes increasing, "
                         "most significant first) on %d partitions; C09 does not depend on it, C07's qubit placement does"
                         % ctx.hist["layout-differs-from-reference"])
    ctx.notes.append(f"generated vectors keep every Schmidt coefficient outside [{BAND[0]}, {BAND[1]}] (rank threshold 1e-7); "
                     "the zero vector is excluded (not a state; the code raises ValueError from log2(0), the model rejects too)")


# ---------------------------------------------------------------------------------------------
# branch coverage of qclib/entanglement.py (tools/branch_audit.py C09)
# ---------------------------------------------------------------------------------------------

UNREACHED_JUSTIFIED = {
    "qclib/entanglement.py:_get_iota,generalized_cross_product,meyer_wallach_entanglement,geometric_entanglement": "entanglement measures (Meyer-Wallach, geometric): not part of the Schmidt decomposition / composition",
    "qclib/entanglement.py:qb_approximation": "randomized QB approximation, not called by schmidt_decomposition",
}


def run_oracle_branches(ctx):
    """schmidt_decomposition's choice of SVD routine (entanglement.py:218-231).  With the default svd='auto' the randomized
    SVD is used for n >= 14, rank == 1 and more than round(n/2.5) partition qubits; it is exact (to rounding) when the state
    has at most rank + 12 Schmidt coefficients, which is what the cases below keep to.  The explicit values 'regular' and
    'randomized' are exercised with a requested rank equal to the least power of two >= Schmidt rank (the randomized routine
    returns exactly the requested number of terms, so other requests are outside the statement 'count is a power of two')."""
    rng = ctx.nprng()
    n = 14
    for part in ([0, 2, 4, 6, 8, 10, 12], [13, 1, 2, 3, 5, 8, 9, 11], [0, 3, 6, 7, 9, 13]):
        side = "auto->randomized" if len(part) > round(n / 2.5) else "auto->regular"
        for name, spec in (("product-across", [1.0]), ("spectrum3", [0.9, 0.4, 0.15])):
            v = with_spectrum(rng, n, sorted(part), spec)
            oracle_case(ctx, name, n, part, v, 1)
            ctx.count(f"branch:n=14:r=1:{side}")
        # r = 0 (no truncation) never goes to the randomized routine
        oracle_case(ctx, "spectrum3", n, part, with_spectrum(rng, n, sorted(part), [0.9, 0.4, 0.15]), 0)
        ctx.count("branch:n=14:r=0:auto->regular")
    for n, part in ((2, [0]), (3, [1]), (4, [0, 1]), (4, [3, 0]), (5, [0, 1, 2]), (6, [1, 3, 5]), (6, [5, 4])):
        mind = min(2 ** len(part), 2 ** (n - len(part)))
        for spec in ([1.0], [0.8, 0.6], [1.0, 1.0], [0.8, 0.5, 0.33], [0.7, 0.5, 0.4, 0.3]):
            if len(spec) > mind:
                continue
            v = with_spectrum(rng, n, sorted(part), spec)
            oracle_case(ctx, f"spectrum{len(spec)}", n, part, v, clp2(len(spec)), svd="randomized")
            ctx.count("branch:svd=randomized")
            oracle_case(ctx, f"spectrum{len(spec)}", n, part, v, ctx.rng.choice([0, 1, len(spec)]), svd="regular")
            ctx.count("branch:svd=regular")
    ctx.notes.append("svd='randomized' named explicitly returns exactly `rank` terms (0 terms for rank = 0, 3 for rank = 3): "
                     "outside C09's quantifier (vectors, partitions, ranks; the default svd='auto'), exercised only with "
                     "rank = least power of two >= Schmidt rank; n = 14 cases keep to <= 3 Schmidt coefficients, where the "
                     "randomized routine chosen by 'auto' is exact")


# ---------------------------------------------------------------------------------------------
# boundary values of entanglement.py (each conjunct of the SVD-routine switch, the rank rule on real decompositions
# at sizes where the switch is live, the 1e-7 cut from both sides)
# ---------------------------------------------------------------------------------------------

NARROW_BAND = (5e-8, 2e-7)    # only for the 'edge-tail' families: a coefficient a factor 3 below / above the 1e-7 cut


def _seed_rsvd(ctx):
    """entanglement.py draws the random test matrix of randomized_svd from a module-level unseeded generator: make the run a
    function of VERIF_SEED (module state only)."""
    import qclib.entanglement as ent
    ent._rng = np.random.default_rng(ctx.rng.getrandbits(63))


def run_oracle_boundaries(ctx):
    rng = ctx.nprng()
    _seed_rsvd(ctx)
    spec3 = [0.9, 0.4, 0.15]
    spec8 = [0.7, 0.45, 0.35, 0.25, 0.2, 0.15, 0.1, 0.08]
    # (1) `rank == 1`: requested rank 0 / 1 / 2 and the non-powers of two 3, 5, 6 with the other conjuncts TRUE
    #     (svd='auto', n >= 14, len(partition) > round(n/2.5)); low Schmidt rank keeps the reference SVD cheap and exact
    for n, part in ((14, [0, 1, 3, 5, 8, 10, 13]), (14, [12, 2, 4, 5, 6, 7, 9, 11]), (15, [0, 2, 3, 6, 9, 11, 14])):
        for name, spec in (("spectrum3", spec3), ("spectrum8", spec8)):
            v = with_spectrum(rng, n, sorted(part), spec)
            for r in (0, 1, 2, 3, 5, 6):
                oracle_case(ctx, name, n, part, v, r)
                ctx.count(f"boundary:rank-conjunct:n={n}:len={len(part)}:r={r}")
    # (2) `n_qubits >= 14`: n = 13 / 14 / 15 with rank 1 and a partition above the bound
    for n in (13, 14, 15):
        k = round(n / 2.5) + 1
        for _ in range(2):
            part = ctx.rng.sample(range(n), k)
            for name, spec in (("product-across", [1.0]), ("spectrum3", spec3)):
                oracle_case(ctx, name, n, part, with_spectrum(rng, n, sorted(part), spec), 1)
                ctx.count(f"boundary:n-conjunct:n={n}:len={k}:r=1")
    # (3) `len(partition) > round(n_qubits/2.5)`: below / at / above the bound at n = 14, 15 with rank 1
    for n in (14, 15):
        b = round(n / 2.5)
        for k, rel in ((b - 1, "below"), (b, "at"), (b + 1, "above")):
            part = ctx.rng.sample(range(n), k)
            for name, spec in (("product-across", [1.0]), ("spectrum3", spec3)):
                oracle_case(ctx, name, n, part, with_spectrum(rng, n, sorted(part), spec), 1)
                ctx.count(f"boundary:len-conjunct:n={n}:len={k}({rel}):r=1")
    # (4) `svd == 'auto'`: the same live point with svd='regular' named explicitly
    part = ctx.rng.sample(range(14), 7)
    for r in (1, 3):
        oracle_case(ctx, "spectrum8", 14, part, with_spectrum(rng, 14, sorted(part), spec8), r, svd="regular")
        ctx.count("boundary:svd-option:regular:n=14:len=7")
    # (5) `j > 10**-7`: a coefficient a factor 3 above (kept: counted in the rank) / below (dropped: the composition is then
    #     off by at most that coefficient, 3.3e-8 < 1e-7) the cut
    for n, part in ((3, [1]), (4, [0, 2]), (5, [1, 4]), (6, [0, 2, 5])):
        mind = min(2 ** len(part), 2 ** (n - len(part)))
        for name, tail in (("edge-tail-above", 3e-7), ("edge-tail-below", 3.3e-8)):
            spec = [0.9, tail] if mind < 4 else [0.9, 0.4, tail]
            v = with_spectrum(rng, n, sorted(part), spec)
            for r in range(0, len(spec) + 2):
                oracle_case(ctx, name, n, part, v, r, band=NARROW_BAND)
                ctx.count(f"boundary:sv-cut:{name}")
    # (6) `0 < low_rank < effective_rank` on real decompositions: low_rank = eff-1 / eff / eff+1 around powers of two
    for n, part in ((6, [0, 1, 2]), (8, [0, 2, 4, 6])):
        mind = 2 ** len(part)
        for eff in sorted({3, 4, 5, mind - 1, mind}):
            v = with_spectrum(rng, n, part, list(np.linspace(1.0, 0.3, eff)))
            for r in (eff - 1, eff, eff + 1):
                oracle_case(ctx, f"deficient{eff}", n, part, v, r)
                ctx.count("boundary:low_rank-vs-eff:" + ("below" if r < eff else "at" if r == eff else "above"))
    ctx.notes.append("boundary cases: the four conjuncts of the SVD-routine switch one at a time with the others true (rank 0/1/2/3/5/6, "
                     "n = 13/14/15, len(partition) = bound-1/bound/bound+1, svd='regular'), states with 3 or 8 Schmidt coefficients; "
                     f"'edge-tail' families put one coefficient at 3e-7 / 3.3e-8 and use the narrower excluded band {NARROW_BAND}; "
                     "randomized_svd's module-level generator is seeded from VERIF_SEED")


# ---------------------------------------------------------------------------------------------
# input-diversity pass: the FORM of otherwise ordinary inputs (quick tier, n = 2..6, a few cheap n = 14)
#
# entry points: D = schmidt_decomposition, C = schmidt_composition, S = _separation_matrix, U = _undo_separation_matrix,
#               R = low_rank_approximation / _effective_rank (rank handling)
#
#  form                                                   | D + C round trip                 | C alone          | S / U            | R
#  -------------------------------------------------------+----------------------------------+------------------+------------------+-----------
#  1 state: int list / tuple / list of numpy scalars /    | div_types (form_case, `vtype`)   | div_comp (`utype`| div_reshape      | -
#    mixed list / i64 / f32 / f64 / c64 / c128 / zero     |                                  | `stype`: real    | (`vtype`) + tie  |
#    imaginary part / negative zeros                      |                                  | u, v; int s)     | (`atype`)        |
#  1 partition: list / tuple / int64 array / range /      | div_types, div_calls (`ptype`,   | div_comp         | div_reshape + tie| -
#    numpy ints / set / frozenset / non-ascending /       | `pcomp`: same object, sorted,    | (`ptype`)        | tie_sep_form     |
#    complement / 1 qubit / n-1 qubits                    | reversed, set, tuple, array)     |                  |                  |
#  1 rank: omitted / int / numpy int / > Schmidt rank /   | div_calls (`rtype`), div_sizes   | -                | -                | tie_rank_form
#    not a power of two                                   |                                  |                  |                  | (numpy lr, s as list/tuple/f32/int)
#  2 light-tail spectra 1e-3 / 3e-5 / 1e-6, all-equal,    | div_scale                        | div_comp (s with | -                | tie_rank_form
#    exactly repeated, product, light-tail amplitudes,    |                                  | light tail)      |                  |
#    sparse, one amplitude, one half / one sub-tree       |                                  |                  |                  |
#  3 all-negative / imaginary / global phase -1, i, e^it /| div_phase                        | div_comp (phase  | div_reshape      | -
#    per-entry +-1, +-i                                   |                                  | on u)            | (exact identity) |
#  4 positional / keyword / reordered keywords / svd      | div_calls (`form`, `cform`,      | div_comp (`cform`| div_reshape      | -
#    positional; outputs fed to C as is / s list / tuple /| `ctype`, `partition2` = the same | pos / kw)        | (`form`, `mtype`)|
#    copies / Fortran / read-only; same array twice;      | object decomposed twice)         |                  |                  |
#    read-only, strided, matrix-column inputs untouched   |                                  |                  |                  |
#  5 n = 2 all forms, n = 3..6, |P| = 1, n//2, n-1,       | div_sizes                        | div_comp n = 2..4| div_reshape      | -
#    rank 1..5 at n = 4..6, n = 14 product / low rank     |                                  |                  | n = 2..6         |
#
# Tie: the Lean driver models the index tables of S / U and the rank rule.  Partition forms and array forms of the index
# vector are tied through the existing "sep" op (canonical integer list; a set is sent sorted - the model sorts, C09_axes_sorted),
# rank forms through the "ranks" op.  dtype, call form, read-only / strided / Fortran layout are not in the model: oracle only.
#
# Single precision (float32 / complex64): numpy's SVD then works in single precision, so the observable is compared with the
# UP-CAST input to TOL32 = 1e-5 (measured on the unchanged code: <= 3e-7); only states whose Schmidt coefficients are all
# >= 3e-4 (the rank would otherwise depend on single-precision noise around the 1e-7 cut) or exact basis states (exact in
# single precision) are generated.  Any exception on these valid inputs is a failure.
# ---------------------------------------------------------------------------------------------

import copy

TOL32 = 1e-5
SINGLE = ("f32", "c64", "f32-fortran")

VTYPES_COMPLEX = ["c128", "c64", "list", "tuple", "list-npscalar", "readonly", "strided", "column-C", "column-F", "negzero"]
VTYPES_REAL = ["f64", "f32", "list-float", "tuple-float", "list-npfloat", "c128-zero-imag", "list-mixed", "f64-readonly",
               "f64-strided", "f64-negzero"]
VTYPES_INT = ["i64", "list-int", "tuple-int", "list-npint", "i64-readonly", "i32"]
PTYPES = ["list", "tuple", "ndarray", "list-npint", "set", "frozenset", "range"]
DFORMS = ["pos2", "pos3", "pos4", "kw-rank", "kw-rank-svd", "kw-all", "kw-all-reordered", "kw-svd-only", "mixed"]
CFORMS = ["pos", "kw", "kw-reordered", "mixed"]
CTYPES = ["asis", "s-list", "s-tuple", "copies", "fortran", "readonly"]
PCOMPS = ["same", "sorted", "reversed", "set", "tuple", "ndarray"]
RTYPES = ["int", "np.int64", "np.int32"]


def _all_real(v):
    return bool(np.all(np.imag(v) == 0))


def _all_int(v):
    return _all_real(v) and bool(np.all(np.real(v) == np.round(np.real(v))))


def vtypes_for(v):
    out = list(VTYPES_COMPLEX)
    if _all_real(v):
        out += VTYPES_REAL
    if _all_int(v):
        out += VTYPES_INT
    return out


def build_state(vref, vtype):
    """The object handed to the library for the canonical complex128 vector `vref` in the element/container form `vtype`."""
    v = np.array(vref, dtype=complex)
    d = len(v)
    re = np.real(v).copy()
    if vtype == "c128":
        return v
    if vtype == "c64":
        return v.astype(np.complex64)
    if vtype == "list":
        return [complex(x) for x in v]
    if vtype == "tuple":
        return tuple(complex(x) for x in v)
    if vtype == "list-npscalar":
        return [np.complex128(x) for x in v]
    if vtype == "readonly":
        v.flags.writeable = False
        return v
    if vtype == "strided":
        big = np.full(2 * d, 7.0 - 3.0j)
        big[::2] = v
        return big[::2]
    if vtype in ("column-C", "column-F"):
        m = np.full((d, 3), 7.0 - 3.0j, order=vtype[-1])
        m[:, 1] = v
        return m[:, 1]
    if vtype == "negzero":
        out = np.empty(d, dtype=complex)
        out.real = np.where(v.real == 0, -0.0, v.real)
        out.imag = np.where(v.imag == 0, -0.0, v.imag)
        return out
    # real-valued forms
    if vtype == "f64":
        return re
    if vtype == "f32":
        return re.astype(np.float32)
    if vtype == "list-float":
        return [float(x) for x in re]
    if vtype == "tuple-float":
        return tuple(float(x) for x in re)
    if vtype == "list-npfloat":
        return [np.float64(x) for x in re]
    if vtype == "c128-zero-imag":
        return re.astype(complex)
    if vtype == "list-mixed":
        return [(int(x) if x == round(x) else float(x)) if i % 3 else complex(x, 0.0) for i, x in enumerate(re)]
    if vtype == "f64-readonly":
        re.flags.writeable = False
        return re
    if vtype == "f64-strided":
        big = np.full(2 * d, 7.0)
        big[::2] = re
        return big[::2]
    if vtype == "f64-negzero":
        return np.where(re == 0, -0.0, re)
    # integer-valued forms
    ire = np.round(re).astype(np.int64)
    if vtype == "i64":
        return ire
    if vtype == "i32":
        return ire.astype(np.int32)
    if vtype == "list-int":
        return [int(x) for x in ire]
    if vtype == "tuple-int":
        return tuple(int(x) for x in ire)
    if vtype == "list-npint":
        return [np.int64(x) for x in ire]
    if vtype == "i64-readonly":
        ire.flags.writeable = False
        return ire
    raise ValueError(vtype)


def _as_range(part):
    part = [int(a) for a in part]
    if len(part) == 1:
        return range(part[0], part[0] + 1)
    st = part[1] - part[0]
    if st == 0 or any(b - a != st for a, b in zip(part, part[1:])):
        return None
    return range(part[0], part[-1] + (1 if st > 0 else -1), st)


def build_partition(part, ptype):
    part = [int(a) for a in part]
    if ptype == "list":
        return list(part)
    if ptype == "tuple":
        return tuple(part)
    if ptype == "ndarray":
        return np.array(part, dtype=np.int64)
    if ptype == "list-npint":
        return [np.int64(a) if i % 2 == 0 else np.int32(a) for i, a in enumerate(part)]
    if ptype == "set":
        return set(part)
    if ptype == "frozenset":
        return frozenset(part)
    if ptype == "range":
        return _as_range(part)
    if ptype == "sorted":
        return sorted(part)
    if ptype == "reversed":
        return list(reversed(part))
    raise ValueError(ptype)


def build_rank(r, rtype):
    return {"int": int, "np.int64": np.int64, "np.int32": np.int32, "np.uint8": np.uint8, "np.intp": np.intp}[rtype](r)


def _snapshot(obj):
    if isinstance(obj, np.ndarray):
        base = obj.base if isinstance(obj.base, np.ndarray) else None
        return ("nd", obj.copy(), obj.dtype, None if base is None else base.copy())
    return ("py", copy.deepcopy(obj), type(obj))


def _unchanged(obj, snap):
    if snap[0] == "nd":
        if not isinstance(obj, np.ndarray) or obj.dtype != snap[2] or obj.shape != snap[1].shape:
            return False
        if not np.array_equal(obj, snap[1]):
            return False
        if snap[3] is not None and not np.array_equal(obj.base, snap[3]):
            return False
        return True
    return type(obj) is snap[2] and bool(obj == snap[1])


def _call_decomposition(form, vobj, pobj, robj, svd):
    from qclib.entanglement import schmidt_decomposition as D
    if form == "pos2":
        return D(vobj, pobj)
    if form == "pos3":
        return D(vobj, pobj, robj)
    if form == "pos4":
        return D(vobj, pobj, robj, svd)
    if form == "kw-rank":                       # baa.py
        return D(vobj, pobj, rank=robj)
    if form == "kw-rank-svd":                   # lowrank.py
        return D(vobj, pobj, rank=robj, svd=svd)
    if form == "kw-all":
        return D(state_vector=vobj, partition=pobj, rank=robj, svd=svd)
    if form == "kw-all-reordered":
        return D(svd=svd, rank=robj, partition=pobj, state_vector=vobj)
    if form == "kw-svd-only":
        return D(vobj, pobj, svd=svd)
    if form == "mixed":
        return D(vobj, partition=pobj, rank=robj)
    raise ValueError(form)


def _call_composition(cform, u, vh, s, pobj):
    from qclib.entanglement import schmidt_composition as C
    if cform == "pos":                          # baa.py, test_entanglement.py
        return C(u, vh, s, pobj)
    if cform == "kw":
        return C(svd_u=u, svd_v=vh, singular_values=s, partition=pobj)
    if cform == "kw-reordered":
        return C(partition=pobj, singular_values=s, svd_v=vh, svd_u=u)
    if cform == "mixed":
        return C(u, vh, singular_values=s, partition=pobj)
    raise ValueError(cform)


def _convert_factors(ctype, u, s, vh):
    if ctype == "asis":
        return u, s, vh
    if ctype == "s-list":
        return u, [x for x in s], vh
    if ctype == "s-tuple":
        return u, tuple(float(x) for x in s), vh
    if ctype == "copies":
        return np.array(u), np.array(s), np.array(vh)
    if ctype == "fortran":
        return np.asfortranarray(u), np.array(s), np.asfortranarray(vh)
    if ctype == "readonly":
        u, s, vh = np.array(u), np.array(s), np.array(vh)
        for a in (u, s, vh):
            a.flags.writeable = False
        return u, s, vh
    raise ValueError(ctype)


def _pcomp_obj(pcomp, part, pobj):
    if pcomp == "same":
        return pobj
    return build_partition(part, pcomp)


def _schmidt_problems(n, part, vup, r, rank, u, s, vh, back, tol, eff, sref, mref):
    """The statements of C09 for one decomposition / composition of the up-cast input `vup` (shared by the diversity cases)."""
    k = len(part)
    rows, cols = 2 ** (n - k), 2 ** k
    want = clp2(r if 0 < r < eff else eff)
    problems = []
    try:
        rank_i = int(rank)
    except Exception:
        return [f"rank returned as {type(rank).__name__}"], want
    if rank_i != want:
        problems.append(f"rank {rank_i} != least power of two >= min(r, eff) = {want} (eff={eff})")
    if rank_i & (rank_i - 1) or rank_i < 1:
        problems.append(f"rank {rank_i} not a power of two")
    u, s, vh = np.asarray(u), np.asarray(s), np.asarray(vh)
    if len(s) != rank_i or u.shape != (rows, rank_i) or vh.shape != (rank_i, cols):
        problems.append(f"shapes U{u.shape} s{s.shape} V{vh.shape} for rank {rank_i}, matrix {rows}x{cols}")
        return problems, want
    rank = rank_i
    gu = np.abs(u.conj().T @ u - np.eye(rank)).max()
    gv = np.abs(vh @ vh.conj().T - np.eye(rank)).max()
    if gu > tol:
        problems.append(f"left vectors not orthonormal ({gu:.2e})")
    if gv > tol:
        problems.append(f"right vectors not orthonormal ({gv:.2e})")
    if np.any(np.imag(s) != 0) or np.any(np.real(s) < 0) or np.any(np.diff(np.real(s)) > tol * 1e-5):
        problems.append("coefficients not non-negative non-increasing")
    if np.abs(np.real(s) - sref[:rank]).max() > tol:
        problems.append("coefficients differ from the singular values of the independent reshape")
    back = np.asarray(back)
    if back.shape != (2 ** n,):
        problems.append(f"composition has shape {back.shape}")
    elif rank >= eff:
        err = np.abs(back - vup).max()
        if err > tol:
            problems.append(f"composition differs from the input by {err:.2e} (no truncation)")
    else:
        nn = float(np.vdot(back, back).real)
        if abs(nn - float((sref[:rank] ** 2).sum())) > tol:
            problems.append(f"truncated composition has squared norm {nn}")
        if sref[rank - 1] - sref[rank] > (1e-3 if tol <= 1e-7 else 5e-2):
            uu, ss, vv = np.linalg.svd(mref, full_matrices=False)
            t = ref_undo(n, (uu[:, :rank] * ss[:rank]) @ vv[:rank], part)
            err = np.abs(back - t).max()
            if err > tol:
                problems.append(f"truncated composition differs from the independent truncation by {err:.2e}")
    return problems, want


def mkspec(name, n, part, v, r=0, vtype="c128", ptype="list", rtype="int", form="kw-rank", svd=None, cform="pos",
           ctype="asis", pcomp="same", partition2=None, band=BAND, exact32=False):
    """JSON-able description of one diversity case of the decomposition / composition round trip."""
    if form in ("pos2", "kw-svd-only"):
        r = 0                                   # rank not passed
    if form in ("pos4", "kw-rank-svd", "kw-all", "kw-all-reordered", "kw-svd-only") and svd is None:
        svd = "auto"
    if form in ("pos2", "pos3", "kw-rank", "mixed"):
        svd = None                              # svd not passed
    if ptype == "range" and _as_range(part) is None:
        ptype = "tuple"
    v = np.asarray(v, dtype=complex)
    return {"call": "diversity", "family": name, "n": int(n), "partition": [int(a) for a in part], "rank": int(r),
            "vtype": vtype, "ptype": ptype, "rtype": rtype, "form": form, "svd": svd, "cform": cform, "ctype": ctype,
            "pcomp": pcomp, "partition2": None if partition2 is None else [int(a) for a in partition2],
            "band": list(band), "exact32": bool(exact32),
            "vector_re": [float(x) for x in np.real(v)], "vector_im": [float(x) for x in np.imag(v)]}


def form_case(ctx, spec):
    """C09 on the real code for one (vector, partition, rank) handed over in the forms named by `spec`."""
    n, r = spec["n"], spec["rank"]
    vref = np.array(spec["vector_re"]) + 1j * np.array(spec["vector_im"])
    vtype, ptype, rtype = spec["vtype"], spec["ptype"], spec["rtype"]
    form, svd, cform, ctype, pcomp = spec["form"], spec["svd"], spec["cform"], spec["ctype"], spec["pcomp"]
    band = tuple(spec["band"])
    single = vtype in SINGLE
    tol = TOL32 if single else 1e-7
    parts = [spec["partition"]] + ([spec["partition2"]] if spec.get("partition2") else [])
    key = (f"diversity:schmidt:{spec['family']}:n={n}:P={','.join(map(str, parts[0]))}"
           + (f"+P2={','.join(map(str, parts[1]))}" if len(parts) > 1 else "")
           + f":r={r}:v={vtype}:p={ptype}:rk={rtype}:call={form}:svd={svd}:comp={cform}/{ctype}/{pcomp}")
    vobj = build_state(vref, vtype)
    vup = np.asarray(vobj, dtype=complex).reshape(-1)
    vsnap = _snapshot(vobj)
    robj = build_rank(r, rtype)
    # screen the spectra of all requested bipartitions first (threshold band, single-precision rank stability)
    refs = []
    for part in parts:
        mref = ref_sep(n, vup, part)
        sref = np.linalg.svd(mref, compute_uv=False)
        if any(band[0] <= x <= band[1] for x in sref):
            ctx.count("diversity:skipped:threshold-band")
            return
        if single and not spec.get("exact32") and sref.min() < 3e-4:
            ctx.count("diversity:skipped:single-precision-rank-deficient")
            return
        refs.append((mref, sref))
    problems = []
    info = {}
    for idx, part in enumerate(parts):
        mref, sref = refs[idx]
        eff = int((sref > 1e-7).sum())
        pobj = build_partition(part, ptype)
        psnap = _snapshot(pobj)
        tag = "" if idx == 0 else "second partition: "
        try:
            res = _call_decomposition(form, vobj, pobj, robj, svd)
            rank, u, s, vh = res
            cu, cs, cvh = _convert_factors(ctype, u, s, vh)
            pc = _pcomp_obj(pcomp, part, pobj)
            snaps = [_snapshot(x) for x in (cu, cs, cvh, pc)]
            back = _call_composition(cform, cu, cvh, cs, pc)
        except Exception as ex:   # a valid input must not raise
            ctx.fail(key, f"{tag}raised {type(ex).__name__}: {ex}", spec)
            return
        if not _unchanged(vobj, vsnap):
            problems.append(tag + "input vector (or the array it is a view of) modified")
        if not _unchanged(pobj, psnap):
            problems.append(tag + "partition object modified")
        if not all(_unchanged(x, sn) for x, sn in zip((cu, cs, cvh, pc), snaps)):
            problems.append(tag + "schmidt_composition modified one of its arguments")
        pr, want = _schmidt_problems(n, part, vup, r, rank, u, s, vh, back, tol, eff, sref, mref)
        problems += [tag + x for x in pr]
        info = {"rank": want, "eff": eff}
        ctx.count("diversity:truncated" if want < eff else "diversity:untruncated")
    ctx.count(f"diversity:vtype:{vtype}")
    ctx.count(f"diversity:ptype:{ptype}")
    ctx.count(f"diversity:rtype:{rtype}")
    ctx.count(f"diversity:call:{form}")
    ctx.count(f"diversity:comp:{cform}/{ctype}/{pcomp}")
    ctx.count(f"diversity:fam:{spec['family']}")
    if problems:
        ctx.fail(key, "; ".join(problems), spec)
    else:
        ctx.ok(key, nontrivial=True, sample={"family": spec["family"], "n": n, "partition": parts[0], "r": r,
                                              "vtype": vtype, "ptype": ptype, "call": form, **info})


# ---- composition alone ----------------------------------------------------------------------

UTYPES = ["c128", "c64", "fortran", "readonly", "sliced-view", "full-unsliced", "f64", "f32", "f32-fortran", "i64"]
STYPES = ["f64", "list", "tuple", "list-npfloat", "f32", "i64", "list-int", "tuple-int"]


def _build_factor(m, utype, r, axis):
    """Left (axis = 1: columns kept) or right (axis = 0: rows kept) factor in the form `utype`; `m` is the full square
    unitary, the first r columns / rows are the Schmidt vectors."""
    m = np.array(m, dtype=complex)
    sl = m[:, :r] if axis == 1 else m[:r, :]
    if utype == "full-unsliced":
        return m
    if utype == "sliced-view":
        return sl                                # a view of the full matrix, as low_rank_approximation returns
    if utype == "c128":
        return np.array(sl)
    if utype == "c64":
        return sl.astype(np.complex64)
    if utype == "fortran":
        return np.asfortranarray(sl)
    if utype == "readonly":
        a = np.array(sl)
        a.flags.writeable = False
        return a
    if utype == "f64":
        return np.array(np.real(sl))
    if utype == "f32":
        return np.real(sl).astype(np.float32)
    if utype == "f32-fortran":
        return np.asfortranarray(np.real(sl).astype(np.float32))
    if utype == "i64":
        return np.round(np.real(sl)).astype(np.int64)
    raise ValueError(utype)


def _build_s(s, stype):
    s = np.array(s, dtype=float)
    if stype == "f64":
        return s
    if stype == "list":
        return [float(x) for x in s]
    if stype == "tuple":
        return tuple(float(x) for x in s)
    if stype == "list-npfloat":
        return [np.float64(x) for x in s]
    if stype == "f32":
        return s.astype(np.float32)
    if stype == "i64":
        return np.round(s).astype(np.int64)
    if stype == "list-int":
        return [int(round(x)) for x in s]
    if stype == "tuple-int":
        return tuple(int(round(x)) for x in s)
    raise ValueError(stype)


def comp_case(ctx, spec):
    """schmidt_composition alone: (U[:, :r] * s) @ V[:r, :] placed back on the qubits, against plain bit arithmetic."""
    n, part, r = spec["n"], spec["partition"], len(spec["s"])
    qu = np.array(spec["u_re"]) + 1j * np.array(spec["u_im"])
    qv = np.array(spec["v_re"]) + 1j * np.array(spec["v_im"])
    utype, stype, ptype, cform = spec["utype"], spec["stype"], spec["ptype"], spec["cform"]
    key = (f"diversity:composition:{spec['family']}:n={n}:P={','.join(map(str, part))}:rank={r}:u={utype}:s={stype}:p={ptype}"
           f":call={cform}")
    u = _build_factor(qu, utype, r, 1)
    vh = _build_factor(qv, utype, r, 0)
    s = _build_s(spec["s"], stype)
    pobj = build_partition(part, ptype)
    single = utype in SINGLE or stype == "f32"
    tol = TOL32 if single else 1e-7
    uu = np.asarray(u, dtype=complex)[:, :r]
    vv = np.asarray(vh, dtype=complex)[:r, :]
    ss = np.asarray(s, dtype=float)
    want = ref_undo(n, (uu * ss) @ vv, part)
    snaps = [_snapshot(x) for x in (u, vh, s, pobj)]
    try:
        back = np.asarray(_call_composition(cform, u, vh, s, pobj))
    except Exception as ex:
        ctx.fail(key, f"raised {type(ex).__name__}: {ex}", spec)
        return
    problems = []
    if not all(_unchanged(x, sn) for x, sn in zip((u, vh, s, pobj), snaps)):
        problems.append("schmidt_composition modified one of its arguments")
    if back.shape != (2 ** n,):
        problems.append(f"composition has shape {back.shape}")
    else:
        err = np.abs(back - want).max()
        if err > tol:
            problems.append(f"composition differs from (U*s)V placed on the qubits by {err:.2e}")
    ctx.count(f"diversity:comp-alone:u={utype}")
    ctx.count(f"diversity:comp-alone:s={stype}")
    ctx.count(f"diversity:comp-alone:p={ptype}")
    if problems:
        ctx.fail(key, "; ".join(problems), spec)
    else:
        ctx.ok(key, nontrivial=True)


def mk_comp(name, n, part, qu, qv, s, utype="c128", stype="f64", ptype="list", cform="pos"):
    if ptype == "range" and _as_range(part) is None:
        ptype = "tuple"
    qu, qv = np.asarray(qu, dtype=complex), np.asarray(qv, dtype=complex)
    return {"call": "diversity-comp", "family": name, "n": int(n), "partition": [int(a) for a in part],
            "u_re": np.real(qu).tolist(), "u_im": np.imag(qu).tolist(), "v_re": np.real(qv).tolist(), "v_im": np.imag(qv).tolist(),
            "s": [float(x) for x in s], "utype": utype, "stype": stype, "ptype": ptype, "cform": cform}


# ---- reshape alone --------------------------------------------------------------------------

MTYPES = ["asis", "nested-list", "fortran", "strided", "readonly", "copy", "tuple-of-tuples"]


def _build_matrix(m, mtype):
    m = np.asarray(m)
    if mtype == "asis":
        return m
    if mtype == "copy":
        return np.array(m)
    if mtype == "nested-list":
        return m.tolist()
    if mtype == "tuple-of-tuples":
        return tuple(tuple(row) for row in m.tolist())
    if mtype == "fortran":
        return np.asfortranarray(m)
    if mtype == "strided":
        big = np.full((2 * m.shape[0], 2 * m.shape[1]), 7, dtype=m.dtype)
        big[::2, ::2] = m
        return big[::2, ::2]
    if mtype == "readonly":
        a = np.array(m)
        a.flags.writeable = False
        return a
    raise ValueError(mtype)


def _call_sep(form, n, vobj, pobj):
    from qclib.entanglement import _separation_matrix as S
    if form == "kw":
        return S(n_qubits=n, state_vector=vobj, partition=pobj)
    if form == "kw-reordered":
        return S(partition=pobj, state_vector=vobj, n_qubits=n)
    return S(n, vobj, pobj)


def _call_undo(form, n, mobj, pobj):
    from qclib.entanglement import _undo_separation_matrix as U
    if form == "kw":
        return U(n_qubits=n, sep_matrix=mobj, partition=pobj)
    if form == "kw-reordered":
        return U(partition=pobj, sep_matrix=mobj, n_qubits=n)
    return U(n, mobj, pobj)


def reshape_form_case(ctx, spec):
    """'Reshaping to the bipartition matrix and back is the identity' with the vector / matrix / partition in the named
    forms; the matrix must also be the one the canonical form (complex128 array, list partition) gives."""
    n, part = spec["n"], spec["partition"]
    vref = np.array(spec["vector_re"]) + 1j * np.array(spec["vector_im"])
    vtype, ptype, mtype, form = spec["vtype"], spec["ptype"], spec["mtype"], spec["form"]
    key = f"diversity:reshape:n={n}:P={','.join(map(str, part))}:v={vtype}:p={ptype}:m={mtype}:call={form}"
    vobj = build_state(vref, vtype)
    vup = np.asarray(vobj, dtype=complex).reshape(-1)
    pobj = build_partition(part, ptype)
    snaps = [_snapshot(vobj), _snapshot(pobj)]
    k = len(part)
    try:
        m = _call_sep(form, n, vobj, pobj)
        mcanon = _call_sep("pos", n, vup, list(part))
        mobj = _build_matrix(m, mtype)
        msnap = _snapshot(mobj)
        back = _call_undo(form, n, mobj, pobj)
        # the other direction on an arbitrary integer matrix in the same form
        mm = _build_matrix(np.arange(1, 2 ** n + 1).reshape(2 ** (n - k), 2 ** k) * 3 - 2 ** n, mtype)
        back2 = _call_sep(form, n, _call_undo(form, n, mm, pobj), pobj)
    except Exception as ex:
        ctx.fail(key, f"raised {type(ex).__name__}: {ex}", spec)
        return
    problems = []
    m, back, back2 = np.asarray(m), np.asarray(back), np.asarray(back2)
    if m.shape != (2 ** (n - k), 2 ** k):
        problems.append(f"shape {m.shape}")
    elif not np.array_equal(m, mcanon):
        problems.append("matrix differs from the one for the canonical form of the same input")
    if back.shape != (2 ** n,) or not np.array_equal(back, vup):
        problems.append("undo(sep(v)) != v")
    if back2.shape != np.asarray(mm).shape or not np.array_equal(back2, np.asarray(mm)):
        problems.append("sep(undo(M)) != M")
    if not (_unchanged(vobj, snaps[0]) and _unchanged(pobj, snaps[1]) and _unchanged(mobj, msnap)):
        problems.append("an argument was modified")
    ctx.count(f"diversity:reshape:v={vtype}")
    ctx.count(f"diversity:reshape:p={ptype}")
    ctx.count(f"diversity:reshape:m={mtype}")
    if problems:
        ctx.fail(key, "; ".join(problems), spec)
    else:
        ctx.ok(key, nontrivial=0 < k < n)


def mk_reshape(n, part, v, vtype="c128", ptype="list", mtype="asis", form="pos"):
    if ptype == "range" and _as_range(part) is None:
        ptype = "tuple"
    v = np.asarray(v, dtype=complex)
    return {"call": "diversity-reshape", "n": int(n), "partition": [int(a) for a in part], "vtype": vtype, "ptype": ptype,
            "mtype": mtype, "form": form, "vector_re": [float(x) for x in np.real(v)], "vector_im": [float(x) for x in np.imag(v)]}


ATYPES = ["ndarray", "list-int", "tuple-int", "f64", "readonly", "strided", "c128"]


def tie_sep_form(ctx, n, part, ptype, atype, mtype):
    """Index tables of the real reshape functions with the partition / index vector / index matrix in the given forms,
    against the model run on the canonical integer partition."""
    from qclib.entanglement import _separation_matrix, _undo_separation_matrix
    if ptype == "range" and _as_range(part) is None:
        ptype = "tuple"
    pobj = build_partition(part, ptype)
    idx = np.arange(2 ** n)
    vobj = {"ndarray": lambda: idx, "list-int": lambda: [int(x) for x in idx], "tuple-int": lambda: tuple(int(x) for x in idx),
            "f64": lambda: idx.astype(float), "c128": lambda: idx.astype(complex),
            "readonly": lambda: build_state(idx, "i64-readonly"), "strided": lambda: build_state(idx, "f64-strided")}[atype]()
    try:
        m = np.asarray(_separation_matrix(n, vobj, pobj))
        rows, cols = m.shape
        undo_tab = [int(round(float(np.real(x)))) for x in m.reshape(-1)]
        v = _undo_separation_matrix(n, _build_matrix(np.arange(2 ** n).reshape(rows, cols), mtype), pobj)
        sep_tab = [int(x) for x in np.asarray(v)]
        lines = ["sep " + " ".join(map(str, sep_tab)), "undo " + " ".join(map(str, undo_tab))]
    except Exception:
        lines = ["reject"]
    canon = sorted(int(a) for a in part) if ptype in ("set", "frozenset") else [int(a) for a in part]
    ctx.tie({"op": "sep", "n": n, "P": canon}, lines)
    ctx.count(f"diversity:tie-sep:p={ptype}")
    ctx.count(f"diversity:tie-sep:a={atype}/m={mtype}")


def tie_rank_form(ctx, lr, s, lrtype, stype):
    """Rank rule with the requested rank as a numpy integer and the coefficients as list / tuple / float32 / int array."""
    from qclib.entanglement import low_rank_approximation, _effective_rank
    sobj = _build_s(s, stype)
    sup = [float(x) for x in np.asarray(sobj, dtype=float)]
    lobj = build_rank(lr, lrtype)
    eff = int(_effective_rank(sobj))
    try:
        rr, uu, sv, vv = low_rank_approximation(lobj, np.zeros((1, len(sup))), np.zeros((len(sup), 1)), sobj)
        line = f"rank {int(rr)}"
        if len(sv) != min(int(rr), len(sup)):
            line += f" (returned {len(sv)} coefficients)"
    except ValueError:
        line = "reject"
    ctx.tie({"op": "ranks", "lr": int(lr), "s": sup}, [f"eff {eff}", line])
    ctx.count(f"diversity:tie-rank:lr={lrtype}/s={stype}")


# ---- generators -----------------------------------------------------------------------------

def _phase(rng):
    return complex(np.exp(1j * rng.uniform(0.3, 2 * math.pi - 0.3)))


def _exact_repeated(n, part, m, rng, phases=False):
    """m exactly equal Schmidt coefficients: c * sum_j |row_j>|col_j> with distinct rows and columns (a partial permutation
    matrix times c, optional unit phases): the coefficients are the same float m times."""
    k = len(part)
    rows, cols = 2 ** (n - k), 2 ** k
    rr = rng.permutation(rows)[:m]
    cc = rng.permutation(cols)[:m]
    mat = np.zeros((rows, cols), dtype=complex)
    c = 1 / math.sqrt(m)
    for j in range(m):
        mat[rr[j], cc[j]] = c * ([1, -1, 1j, -1j][int(rng.integers(4))] if phases else 1)
    return ref_undo(n, mat, sorted(part))


def _light_tail_amplitudes(rng, n, where):
    """One or two amplitudes O(1), the others 3e-6 .. 1e-3 (random phases), head at the start / at the end / mixed."""
    d = 2 ** n
    v = 10.0 ** (-rng.uniform(3.0, 5.5, size=d)) * np.exp(1j * rng.uniform(0, 2 * math.pi, size=d))
    heads = {"first": [0], "last": [d - 1], "first-two": [0, 1], "mixed": [int(rng.integers(1, d - 1)), d - 1]}[where]
    for h in heads:
        v[h] = _phase(rng)
    return v / np.linalg.norm(v)


def _partitions_by_size(ctx, n):
    """Partitions of sizes 1, n//2, n-1 (and the complement of the middle one), one of them non-ascending."""
    if n == 2:
        return [[0], [1]]
    out = []
    for k in sorted({1, n // 2, n - 1}):
        if not 0 < k < n:
            continue
        p = sorted(ctx.rng.sample(range(n), k))
        out.append(p)
        if k >= 2:
            sh = list(p)
            while sh == sorted(sh):
                ctx.rng.shuffle(sh)
            out.append(sh)
        if k == n // 2:
            comp = [a for a in range(n) if a not in p]
            if comp and comp != p:
                out.append(comp[::-1])            # the complement, descending (lowrank.py hands over reg_a = partition[::-1])
    return out


def div_types(ctx):
    """Family 1: element / container types of the state and of the partition, through the full round trip."""
    rng = ctx.nprng()
    cyc = itertools.cycle(PTYPES)
    for n, parts in ((2, [[0], [1]]), (3, [[1], [2, 0], [0, 1]]), (4, [[3, 1], [1, 3, 0], [2]])):
        d = 2 ** n
        states = []
        for i, sign in ((0, 1), (d - 1, -1), (int(rng.integers(1, d - 1)), -1)):
            e = np.zeros(d)
            e[i] = sign
            states.append((f"basis-int{'+' if sign > 0 else '-'}", e, True))
        states.append(("real-signed", rand_unit(rng, d, real=True), False))
        states.append(("complex", rand_unit(rng, d), False))
        half = np.array([(-1) ** bin(i & (i >> 1)).count("1") for i in range(d)]) / math.sqrt(d)   # exact for n = 2, 4
        states.append(("exact-half-signs", half, False))
        if n >= 3:
            sp = np.zeros(d, dtype=complex)
            sp[[1, d - 2]] = [0.6, -0.8j]
            states.append(("sparse-zeros", sp, False))
        for name, v, exact in states:
            for vtype in vtypes_for(v):
                for part in parts:
                    for r in (0, 1) if vtype not in ("i64", "list-int", "f32", "c64", "c128") else (0, 1, 2, 3):
                        form_case(ctx, mkspec(name, n, part, v, r, vtype=vtype, ptype=next(cyc), exact32=exact))
            ctx.count("diversity:types")


def div_scale(ctx):
    """Family 2: scale structure of the Schmidt coefficients and of the amplitudes."""
    rng = ctx.nprng()
    pc = itertools.cycle(PTYPES)
    vc = itertools.cycle(["c128", "list", "readonly", "c64", "tuple", "strided"])
    fc = itertools.cycle(DFORMS)
    for n in (2, 3, 4, 5, 6):
        for part in _partitions_by_size(ctx, n):
            k = len(part)
            mind = min(2 ** k, 2 ** (n - k))
            sp = sorted(part)
            fams = []
            if mind >= 2:
                fams.append(("tail-1e-3", with_spectrum(rng, n, sp, [1.0, 1e-3]), BAND))
                fams.append(("tail-3e-5", with_spectrum(rng, n, sp, [1.0, 3e-5] if mind < 4 else [0.9, 0.4, 3e-5]), BAND))
                fams.append(("tail-1e-6", with_spectrum(rng, n, sp, [1.0, 1e-6] if mind < 4 else [0.9, 0.4, 1e-6]), NARROW_BAND))
                fams.append(("all-equal", with_spectrum(rng, n, sp, [1.0] * mind), BAND))
                fams.append(("exact-repeated-max", _exact_repeated(n, part, mind, rng, phases=True), BAND))
                fams.append(("exact-repeated2", _exact_repeated(n, part, 2, rng), BAND))
            if mind >= 4:
                fams.append(("tail-ladder", with_spectrum(rng, n, sp, [0.9, 1e-3, 1e-4, 1e-6]), NARROW_BAND))
                fams.append(("exact-repeated3", _exact_repeated(n, part, 3, rng, phases=True), BAND))
                fams.append(("head2-tail", with_spectrum(rng, n, sp, [0.7, 0.7, 3e-5, 3e-5], real=True), BAND))
            d = 2 ** n
            for where in ("first", "last", "first-two", "mixed"):
                if where == "mixed" and d < 4:
                    continue
                for _ in range(4):
                    v = _light_tail_amplitudes(rng, n, where)
                    sref = np.linalg.svd(ref_sep(n, v, part), compute_uv=False)
                    if not any(NARROW_BAND[0] <= x <= NARROW_BAND[1] for x in sref):
                        fams.append((f"amp-tail-{where}", v, NARROW_BAND))
                        break
                else:
                    ctx.count("diversity:skipped:amp-tail-near-cut")
            for pos, tag in ((0, "first"), (d - 1, "last")):
                e = np.zeros(d, dtype=complex)
                e[pos] = [1, -1, 1j, -1j, _phase(rng)][int(rng.integers(5))]
                fams.append((f"single-{tag}", e, BAND))
            hv = np.zeros(d, dtype=complex)
            hv[: d // 2] = rand_unit(rng, d // 2)
            fams.append(("half-low", hv, BAND))
            hv = np.zeros(d, dtype=complex)
            hv[d // 2:] = rand_unit(rng, d // 2)
            fams.append(("half-high", hv, BAND))
            if d >= 8:
                st = np.zeros(d, dtype=complex)
                st[d // 4: d // 2] = rand_unit(rng, d // 4)
                fams.append(("sub-tree", st, BAND))
                sv = np.zeros(d, dtype=complex)
                nz = rng.permutation(d)[: 2 + int(rng.integers(2))]
                sv[nz] = rand_unit(rng, len(nz))
                fams.append(("sparse", sv, BAND))
            pr = np.array([1.0 + 0j])
            for _ in range(n):
                pr = np.kron(pr, rand_unit(rng, 2))
            fams.append(("product", pr, BAND))
            for name, v, band in fams:
                rs = [0, 1] + ([int(ctx.rng.choice([2, 3, mind, mind + 1]))] if mind >= 2 else [])
                for r in rs:
                    vt = next(vc)
                    if vt == "c64" and band is not BAND:
                        vt = "c128"
                    form_case(ctx, mkspec(name, n, part, v, r, vtype=vt, ptype=next(pc), form=next(fc), band=band))
        ctx.count("diversity:scale")


def div_phase(ctx):
    """Family 3: sign / phase structure (the round trip is exact including the phase)."""
    rng = ctx.nprng()
    pc = itertools.cycle(PTYPES)
    fc = itertools.cycle(DFORMS)
    for n in (2, 3, 4, 5):
        d = 2 ** n
        base = rand_unit(rng, d)
        rbase = np.abs(rand_unit(rng, d, real=True))
        fams = [("all-negative", -rbase, ["f64", "list-float", "c128-zero-imag", "f32"]),
                ("imaginary", 1j * rbase, ["c128", "list", "c64"]),
                ("imaginary-negative", -1j * rbase, ["c128", "tuple"]),
                ("real-mixed-signs", rbase * rng.choice([-1.0, 1.0], size=d), ["f64", "f64-readonly", "c128-zero-imag"])]
        for ph, tag in ((-1, "-1"), (1j, "i"), (-1j, "-i"), (_phase(rng), "eit")):
            fams.append((f"global-phase{tag}", ph * base, ["c128", "list-npscalar"]))
        uni = np.ones(d) / math.sqrt(d)
        fams.append(("uniform-signs", uni * rng.choice([-1.0, 1.0], size=d), ["f64", "c128-zero-imag", "list-float"]))
        fams.append(("uniform-pm1-pmi", uni * rng.choice(np.array([1, -1, 1j, -1j]), size=d), ["c128", "list", "negzero"]))
        fams.append(("all-equal-negative", -uni, ["f64", "f32", "tuple-float"]))
        for part in _partitions_by_size(ctx, n):
            mind = min(2 ** len(part), 2 ** (n - len(part)))
            for name, v, vts in fams:
                for vt in vts:
                    for r in (0, int(ctx.rng.choice([1, 2, 3]))):
                        form_case(ctx, mkspec(name, n, part, v, r, vtype=vt, ptype=next(pc), form=next(fc)))
        ctx.count("diversity:phase")


def div_calls(ctx):
    """Family 4: call forms.  Every decomposition form x partition form, every composition form x factor form x
    composition-partition form, rank types, svd named / positional, the same object decomposed for two partitions."""
    rng = ctx.nprng()
    _seed_rsvd(ctx)
    cases = [(3, [2, 0], [1]), (3, [1], [0, 2]), (4, [3, 1], [0, 2]), (4, [1, 3, 0], [2]), (4, [0, 1, 2], [3, 0]), (5, [4, 2], [3, 1, 0])]
    for n, part, part2 in cases:
        k = len(part)
        mind = min(2 ** k, 2 ** (n - k))
        v = rand_unit(rng, 2 ** n)
        vdef = with_spectrum(rng, n, sorted(part), [0.8, 0.6]) if mind >= 2 else v
        # decomposition form x partition form (+ rank type, svd value cycled)
        tc = itertools.cycle(["tuple", "list", "ndarray"])
        pick = ctx.rng.choice                      # inner forms drawn independently (cycles would lock step with r)
        for form in DFORMS:
            for ptype in PTYPES:
                for r in (0, 1, 3):
                    form_case(ctx, mkspec("calls", n, part, v, r, ptype=ptype, rtype=pick(RTYPES), form=form,
                                          svd=pick(["auto", "regular"]), cform=pick(CFORMS), ctype=pick(CTYPES),
                                          pcomp=pick(PCOMPS)))
        # every rank type x every way the rank is passed, requested rank below the Schmidt rank
        for form in ("pos3", "pos4", "kw-rank", "kw-rank-svd", "kw-all", "kw-all-reordered", "mixed"):
            for rt in RTYPES:
                for r in (1, 2, 3):
                    form_case(ctx, mkspec("rank-types", n, part, v, r, ptype=next(tc), rtype=rt, form=form))
        # composition form x factor form x composition partition form
        for cf in CFORMS:
            for ct in CTYPES:
                for pq in PCOMPS:
                    form_case(ctx, mkspec("comp-forms", n, part, vdef, int(ctx.rng.choice([0, 1, 2, 3])), ptype="list",
                                          form="kw-rank", cform=cf, ctype=ct, pcomp=pq))
        # the SAME input object decomposed for two different partitions (int / real / complex, read-only, strided, column views)
        e = np.zeros(2 ** n)
        e[int(rng.integers(2 ** n))] = -1
        for name, vec, vts in (("twice-int", e, ["i64", "list-int", "i64-readonly", "tuple-int"]),
                               ("twice-real", rand_unit(rng, 2 ** n, real=True), ["f64", "f64-readonly", "f64-strided", "list-float"]),
                               ("twice-complex", v, ["c128", "readonly", "strided", "column-C", "column-F", "list", "tuple"])):
            for vt in vts:
                for r in (0, 2):
                    form_case(ctx, mkspec(name, n, part, vec, r, vtype=vt, ptype=next(tc), form="kw-rank-svd", svd="auto",
                                          partition2=part2))
        # svd='randomized' positionally / by keyword with rank = least power of two >= Schmidt rank (exact there)
        for spec, rr in (([1.0], 1), ([0.8, 0.6], 2)):
            if len(spec) <= mind:
                vs = with_spectrum(rng, n, sorted(part), spec)
                for form in ("pos4", "kw-rank-svd", "kw-all-reordered"):
                    form_case(ctx, mkspec("randomized-forms", n, part, vs, rr, ptype="tuple", rtype="np.int64", form=form,
                                          svd="randomized"))
    # forms the library does not claim to support: rank=None, factors as nested lists
    from qclib.entanglement import schmidt_decomposition, schmidt_composition
    v = rand_unit(rng, 8)
    for name, fn in (("rank-None", lambda: schmidt_decomposition(v, [0], None)),
                     ("composition-factors-as-lists",
                      lambda: schmidt_composition(*[x.tolist() for x in schmidt_decomposition(v, [0])[1::2]], [1.0, 0.0], [0]))):
        try:
            fn()
            ctx.count(f"diversity:{name}:accepted")
        except Exception as ex:
            ctx.count(f"diversity:{name}:unsupported-form-raises-{type(ex).__name__}")
    ctx.count("diversity:calls")


def div_sizes(ctx):
    """Family 5: n = 2 with every form, partition sizes 1 / n//2 / n-1 at n = 3..6, requested ranks 1..5 (and > Schmidt rank,
    numpy integers) at n = 4..6, cheap forms on the n = 14 'auto' -> randomized branch."""
    rng = ctx.nprng()
    _seed_rsvd(ctx)
    # n = 2: the smallest size with a proper non-empty subset, every state form x partition form x call form
    for name, v in (("bell-int-like", np.array([1, 0, 0, 1]) / math.sqrt(2)), ("basis", np.array([0, 0, 1, 0.0])),
                    ("complex", rand_unit(rng, 4)), ("product", np.kron(rand_unit(rng, 2), rand_unit(rng, 2)))):
        fc = itertools.cycle(DFORMS)
        for part in ([0], [1]):
            for vt in vtypes_for(v):
                for pt in PTYPES:
                    for r in (0, 1, 2, 3):
                        form_case(ctx, mkspec("n2-" + name, 2, part, v, r, vtype=vt, ptype=pt, form=next(fc),
                                              exact32=name == "basis"))
    # ranks 1..5, mind + 1 as python / numpy integers at n = 4, 5, 6
    pc = itertools.cycle(PTYPES)
    for n in (4, 5, 6):
        for part in _partitions_by_size(ctx, n):
            mind = min(2 ** len(part), 2 ** (n - len(part)))
            specs = [("generic", rand_unit(rng, 2 ** n)), ("product", with_spectrum(rng, n, sorted(part), [1.0]))]
            if mind >= 4:
                specs.append(("deficient3", with_spectrum(rng, n, sorted(part), [0.8, 0.5, 0.33])))
            if mind >= 8:
                specs.append(("deficient5", with_spectrum(rng, n, sorted(part), [0.7, 0.5, 0.4, 0.3, 0.2])))
            for name, v in specs:
                for r in (1, 2, 3, 4, 5, mind + 1):
                    form_case(ctx, mkspec(name, n, part, v, r, ptype=next(pc), rtype=ctx.rng.choice(RTYPES), form="kw-rank"))
    # n = 14: partition / rank / call forms on the size-dependent SVD switch (product and 3-coefficient states)
    n = 14
    # (partitions of 8, 11, 10, 12 qubits: all above the bound round(14/2.5) = 6; the lopsided ones keep the reference SVD cheap)
    for part, ptype, rtype, form, spec in (([13, 1, 2, 3, 5, 8, 9, 11], "tuple", "np.int64", "pos3", [1.0]),
                                           (list(range(13, 2, -1)), "range", "int", "kw-rank", [0.9, 0.4, 0.15]),
                                           ([0, 3, 5, 6, 9, 11, 13, 1, 2, 8], "ndarray", "np.int32", "kw-rank-svd", [1.0]),
                                           ([0, 1, 2, 3, 4, 5, 7, 9, 10, 11, 12, 13], "frozenset", "int", "mixed", [0.9, 0.4, 0.15])):
        v = with_spectrum(rng, n, sorted(part), spec)
        for r in (1,) if len(spec) == 1 else (1, 3):
            form_case(ctx, mkspec(f"n14-spectrum{len(spec)}", n, part, v, r, ptype=ptype, rtype=rtype, form=form,
                                  vtype="readonly" if len(spec) == 1 else "c128"))
        ctx.count("diversity:n=14:auto->randomized")
    ctx.count("diversity:sizes")


def div_comp(ctx):
    """schmidt_composition alone: factor / coefficient / partition / call forms."""
    rng = ctx.nprng()
    pc = itertools.cycle(PTYPES)
    cc = itertools.cycle(CFORMS)
    for n, part in ((2, [0]), (2, [1]), (3, [2, 0]), (3, [1]), (4, [3, 1]), (4, [1, 3, 0]), (4, [2])):
        k = len(part)
        rows, cols = 2 ** (n - k), 2 ** k
        mind = min(rows, cols)
        for real in (False, True):
            qu = orthonormal(rng, rows, rows, real)
            qv = orthonormal(rng, cols, cols, real).T
            specs = [("product", [1.0])]
            if mind >= 2:
                specs += [("two", [0.8, 0.6]), ("light-tail", [1.0, 1e-3]), ("equal", [math.sqrt(0.5)] * 2)]
            if mind >= 4:
                specs += [("four-tail", [0.9, 0.4, 1e-3, 1e-6]), ("three", [0.8, 0.5, 0.33])]
            for name, s in specs:
                s = [float(x) for x in np.array(s) / np.linalg.norm(s)]
                for ut in UTYPES:
                    if ut in ("f64", "f32", "f32-fortran") and not real:
                        continue
                    if ut == "i64":
                        continue
                    sts = ["f64", "list", "tuple", "list-npfloat", "f32"] + (["i64", "list-int", "tuple-int"] if len(s) == 1 else [])
                    for st in sts:
                        comp_case(ctx, mk_comp(("real-" if real else "") + name, n, part, qu, qv, s, utype=ut, stype=st,
                                               ptype=next(pc), cform=next(cc)))
        # all-integer factors of a basis (product) state: u, v int64, s = [1] as int array / int list
        i, j = int(rng.integers(rows)), int(rng.integers(cols))
        pu = np.roll(np.eye(rows), i, axis=0) * -1
        pv = np.roll(np.eye(cols), j, axis=1)
        for st in ("i64", "list-int", "tuple-int", "f64"):
            for pt in PTYPES:
                comp_case(ctx, mk_comp("basis-int", n, part, pu, pv, [1.0], utype="i64", stype=st, ptype=pt, cform=next(cc)))
        # phases on the factors
        qu = orthonormal(rng, rows, rows) * np.array([1, -1, 1j, -1j])[rng.integers(4, size=rows)]
        qv = (orthonormal(rng, cols, cols) * _phase(rng)).T
        for ut in ("c128", "sliced-view", "full-unsliced", "fortran"):
            comp_case(ctx, mk_comp("phased", n, part, qu, qv, [0.8, 0.6] if mind >= 2 else [1.0], utype=ut, ptype=next(pc),
                                   cform=next(cc)))
    ctx.count("diversity:composition-alone")


def div_reshape(ctx):
    """_separation_matrix / _undo_separation_matrix: vector, matrix, partition and call forms (oracle), and the index tables
    with the partition / index array in each form (tie)."""
    rng = ctx.nprng()
    mc = itertools.cycle(MTYPES)
    fc = itertools.cycle(["pos", "kw", "kw-reordered"])
    for n in (2, 3, 4, 5, 6):
        d = 2 ** n
        parts = _partitions_by_size(ctx, n) + ([[2, 0], [1, 3, 0]] if n == 4 else [])
        e = np.zeros(d)
        e[int(rng.integers(d))] = -1
        states = [("complex", rand_unit(rng, d)), ("real", rand_unit(rng, d, real=True)), ("int", e)]
        for part in parts:
            for name, v in states:
                vts = {"complex": VTYPES_COMPLEX, "real": VTYPES_REAL, "int": VTYPES_INT + ["list-mixed", "negzero"]}[name]
                if n > 4:
                    vts = vts[:: 2]
                for vt in vts:
                    for pt in (PTYPES if n <= 3 else [PTYPES[(len(vt) + n) % len(PTYPES)], "list"]):
                        reshape_form_case(ctx, mk_reshape(n, part, v, vtype=vt, ptype=pt, mtype=next(mc), form=next(fc)))
            ac = itertools.cycle(ATYPES)
            for pt in PTYPES:
                tie_sep_form(ctx, n, part, pt, next(ac), next(mc))
        ctx.count("diversity:reshape")
    # rank rule: numpy-integer request, coefficient containers
    for s in ([1.0, 0.5, 1e-3, 1e-6], [0.7, 0.7, 3e-5, 0.0], [1.0, 0.0], [1.0], [0.5] * 4, [0.9, 0.4, 0.1, 0.05, 1e-3, 0.0, 0.0, 0.0],
              [1.0, 1.0, 1.0, 0.0]):
        for lr in (0, 1, 2, 3, 4, 5, 9):
            for lt in RTYPES:
                for st in ("f64", "list", "tuple", "list-npfloat", "f32") + (("i64", "list-int") if s == [1.0, 1.0, 1.0, 0.0] else ()):
                    tie_rank_form(ctx, lr, s, lt, st)


def div_flagforms(ctx):
    """Valid FALSY values of the arguments, in every numeric / container form and through every way the argument is passed:
    rank = 0 ("no truncation") as int / numpy.int64 / int32 / uint8 / intp next to rank 1 and the top of the range, positional and by
    keyword; a partition that consists of qubit 0 only (one-element ndarray: `not partition` is true; index 0 is falsy itself) in
    every container next to the last qubit and to both ends; svd in both spellings valid below the randomized switch.  The rank
    rule with rank 0 in the same forms is tied in div_reshape (tie_rank_form, lr = 0 x RTYPES) and here for the two extra types."""
    rng = ctx.nprng()
    rtypes = RTYPES + ["np.uint8", "np.intp"]
    fc = itertools.cycle(DFORMS)
    tc = itertools.cycle(["tuple", "list", "ndarray", "list-npint", "range"])
    for n, part in ((3, [0]), (3, [2, 0]), (4, [0]), (4, [3, 1]), (5, [0, 4])):
        mind = min(2 ** len(part), 2 ** (n - len(part)))
        v = rand_unit(rng, 2 ** n)
        vdef = with_spectrum(rng, n, sorted(part), [0.8, 0.6]) if mind >= 4 else v
        for form in ("pos3", "pos4", "kw-rank", "kw-rank-svd", "kw-all", "kw-all-reordered", "mixed"):
            for rt in rtypes:
                for r in sorted({0, 1, mind}):
                    for name, vec in (("rank0-forms", v),) + ((("rank0-forms-deficient", vdef),) if r != 1 and mind >= 4 else ()):
                        form_case(ctx, mkspec(name, n, part, vec, r, ptype=next(tc), rtype=rt, form=form,
                                              svd=("auto", "regular")[(r + len(form)) % 2]))
                    ctx.count(f"flagforms:rank:{rt}:{'0' if r == 0 else 'top' if r == mind else '1'}")
                    ctx.count(f"flagforms:rank:{rt}:{'0' if r == 0 else 'top' if r == mind else '1'}:via {form}")
    for n in (3, 4):
        v = rand_unit(rng, 2 ** n)
        for part, tag in (([0], "qubit-0-only"), ([n - 1], "last-qubit-only"), ([0, n - 1], "both-ends"), ([n - 1, 0], "both-ends-descending")):
            for pt in PTYPES:
                for r in (0, 1):
                    form_case(ctx, mkspec("partition-" + tag, n, part, v, r, ptype=pt, rtype=rtypes[(r + len(pt)) % len(rtypes)], form=next(fc),
                                          pcomp=PCOMPS[(r + len(pt) + n) % len(PCOMPS)]))
                    ctx.count(f"flagforms:partition:{pt}:{tag}")
        for svd in ("auto", "regular"):
            for form in ("pos4", "kw-rank-svd", "kw-all", "kw-all-reordered", "kw-svd-only"):
                for r in (0, 1):
                    form_case(ctx, mkspec("svd-forms", n, [n - 1, 0], v, r, ptype="tuple", form=form, svd=svd))
                    ctx.count(f"flagforms:svd:{svd}:via {form}")
    for s_ in ([1.0, 0.5, 1e-3, 1e-6], [1.0, 0.0], [0.5] * 4):
        for lr in (0, 1, 4):
            for lt in ("np.uint8", "np.intp"):
                tie_rank_form(ctx, lr, s_, lt, "f64")
    ctx.count("diversity:flagforms")


def run_diversity(ctx):
    div_types(ctx)
    div_scale(ctx)
    div_phase(ctx)
    div_calls(ctx)
    div_sizes(ctx)
    div_comp(ctx)
    div_reshape(ctx)
    div_flagforms(ctx)
    ctx.notes.append("diversity cases: element/container types of state, partition, rank and of the composition's factors; light-tail "
                     "spectra 1e-3 / 3e-5 (band [1e-9, 1e-5]) and 1e-6 (band (5e-8, 2e-7)); single precision compared with the up-cast "
                     f"input to {TOL32} and only on states with all coefficients >= 3e-4 or exact basis states; rank=None and factors "
                     "passed as nested lists are not claimed by the library (counted, not judged)")


def compare(op, impl, model):
    """All dumped lines are integers / fixed tokens: exact comparison."""
    a = [" ".join(l.split()) for l in impl]
    b = [" ".join(l.split()) for l in model]
    if a == b:
        return None
    for i, (x, y) in enumerate(zip(a, b)):
        if x != y:
            return f"line {i}: impl={x[:160]!r} model={y[:160]!r}"
    return f"length {len(a)} vs {len(b)}: impl={a[:3]!r} model={b[:3]!r}"


def run(ctx):
    run_tie(ctx)
    run_oracle(ctx)
    run_oracle_branches(ctx)
    run_oracle_boundaries(ctx)
    run_diversity(ctx)


def search(ctx, hints):
    rng = ctx.nprng()
    for h in hints:
        op = h["op"]
        if op.get("op") == "sep":
            n, p = op["n"], op["P"]
            if len(set(p)) == len(p) and all(0 <= a < n for a in p):
                reshape_case(ctx, n, p, rng)
                if 0 < len(p) < n and n <= 9:
                    for name, v in families(ctx, rng, n, p)[:4]:
                        for r in (0, 1, 2):
                            oracle_case(ctx, name, n, p, v, r)
        elif op.get("op") in ("rank", "ranks", "gen_rank"):
            # is the rank the least power of two on a real decomposition with that many coefficients?
            eff = op.get("eff", len(op.get("s", [])))
            if op.get("op") == "gen_rank":
                eff = sum(1 for a, b in zip(op["num"], op["den"]) if a / b > 1e-6)
            n = max(2, 2 * max(1, math.ceil(math.log2(max(eff, 1)))))
            if n <= 10 and eff >= 1:
                part = list(range(n // 2))
                v = with_spectrum(rng, n, part, [1.0] * min(eff, 2 ** (n // 2)))
                oracle_case(ctx, "hint", n, part, v, max(0, op.get("lr", 0)))
    run_diversity(ctx)
    run_oracle(ctx, nmax=7, nfull=6)


def replay(ctx, payload):
    r = payload["replay"]
    rng = ctx.nprng()
    if r.get("call") == "diversity":
        _seed_rsvd(ctx)
        form_case(ctx, r)
    elif r.get("call") == "diversity-comp":
        comp_case(ctx, r)
    elif r.get("call") == "diversity-reshape":
        reshape_form_case(ctx, r)
    elif r.get("call", "").startswith("_separation"):
        reshape_case(ctx, r["n"], r["partition"], rng)
    else:
        v = np.array(r["vector_re"]) + 1j * np.array(r["vector_im"])
        oracle_case(ctx, r.get("family", "replay"), r["n"], r["partition"], v, r["rank"], svd=r.get("svd"),
                    band=tuple(r.get("band", BAND)))
