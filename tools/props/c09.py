"""C09 — Schmidt decomposition / composition across any bipartition (qclib/entanglement.py)."""
import itertools
import math
import numpy as np

CLAIMED = True
TECHNIQUE = ("Lean 4 proof (bit-list arithmetic, all n, all duplicate-free axis lists) that the two reshape index maps are "
             "mutually inverse and which bits go where; rank rule proved to return the least power of two; composition "
             "theorem over any commutative ring under the SVD specification; exact permutation diff of the model against "
             "_separation_matrix/_undo_separation_matrix and of the rank rule against low_rank_approximation; numerical "
             "oracle on schmidt_decomposition/schmidt_composition")
LEVEL_TEXT = ("Proved for the model, for every n and every duplicate-free list of axes < n (any order): undo(sep v) = v and "
              "sep(undo M) = M (C09_roundtrip_vec/_mat, index form C09_roundtrip), row/column bits of the flat index in which "
              "order (C09_bits), sorted(partition) is what is moved for natural-number partitions (C09_axes_sorted), the rank "
              "returned is a power of two, the least one >= min(r, eff) (r=0 => eff) and never above min(rows, cols) "
              "(C09_pow2), slicing keeps orthonormality (C09_sliced_orthonormal), and composing U diag(s) V from an SVD "
              "whose dropped coefficients vanish and undoing the reshape returns the vector (C09_compose). Tie: the index "
              "permutations are diffed exactly against the real functions for every subset (sorted) of n<=6 (8 thorough), "
              "every ordering for n<=4 (5), random orderings, negative/duplicate/out-of-range axes; the rank rule against "
              "low_rank_approximation exhaustively on lr in -2..40 x eff in 0..40 plus 2^k-1, 2^k, 2^k+1 up to 2^20 and "
              "singular-value lists around the 1e-7 threshold. Orthonormality of numpy's SVD factors, sortedness and "
              "non-negativity of its singular values are K4 hypotheses, validated numerically (oracle).")
LEVEL_NOTE = ("Trusted: Lean kernel (standard axioms); numpy reshape/moveaxis semantics as specified in Model/Schmidt.lean "
              "(validated by the exact tie); np.linalg.svd (hypothesis of C09_compose, validated by the oracle); float rank idiom "
              "2**ceil(log2(x)) = least power of two (exact for x < 2^49, tied up to 2^20+1); the 1e-7 threshold is modelled as an "
              "exact comparison, inputs keep singular values outside [1e-9, 1e-5].")
LEAN_TARGETS = ["QclibModel.Props.C09"]
DRIVER = "Drivers/C09.lean"
THEOREMS = ["Qclib.C09_roundtrip", "Qclib.C09_roundtrip_vec", "Qclib.C09_roundtrip_mat", "Qclib.C09_bits",
            "Qclib.C09_axes_sorted", "Qclib.C09_pow2", "Qclib.C09_sliced_orthonormal", "Qclib.C09_compose",
            "Qclib.C09_rank_src"]
TRUSTED = [
    "numpy reshape (C order) and moveaxis semantics as written in Model/Schmidt.lean (validated by the exact permutation tie each run)",
    "np.linalg.svd returns U, s, Vh with M = U diag(s) Vh, orthonormal columns/rows, s sorted non-increasing and >= 0 (validated numerically each run)",
    "math.log2/ceil on integers: 2**ceil(log2(x)) is the least power of two >= x (tied exhaustively on small x and at 2^k-1, 2^k, 2^k+1 up to 2^20)",
    "tools/py2lean.py: _effective_rank and the rank statements of low_rank_approximation are re-translated from the source on every "
    "run (Gen/SchmidtRank.lean) and proved equal to effRank / rankRule (C09_rank_src); second tie: the generated definitions run by "
    "the driver on exact rationals vs the Python originals (tools/schmidt_src.py: spectra with entries at / one ulp around 10**-7)",
]
ASSUMPTIONS = ["exact arithmetic in the theorems; implementation compared to 1e-7",
               "the 'edge-tail' boundary families place one coefficient at 3e-7 / 3.3e-8 (excluded band (5e-8, 2e-7) instead of [1e-9, 1e-5]): "
               "a dropped 3.3e-8 coefficient moves the composition by less than the 1e-7 tolerance",
               "C09_compose: the singular values dropped by the rank rule are exactly 0 (in the implementation: <= 1e-7; generated inputs keep them < 1e-9)"]
RULE = ("tie: (n, partition list) whose full index permutation (both directions) was diffed, and (low_rank, eff) / singular-value "
        "lists whose rank was diffed; oracle: (vector family, n, partition, rank) on which schmidt_decomposition + "
        "schmidt_composition of the real code were evaluated against an independent bit-arithmetic reshape and numpy SVD; "
        "non-trivial = n>=2 and non-empty proper partition")

BAND = (1e-9, 1e-5)   # singular values of generated inputs stay outside this band around the 1e-7 rank threshold


# ---------------------------------------------------------------------------------------------
# independent reference (plain bit arithmetic, no numpy axis functions)
# ---------------------------------------------------------------------------------------------

def ref_index(n, part, i):
    """(row, col) of flat index i: column bits = axes sorted(part), row bits = the other axes, both
    most significant first; axis a = bit n-1-a of i."""
    cols_axes = sorted(part)
    rows_axes = [a for a in range(n) if a not in part]
    r = 0
    for a in rows_axes:
        r = 2 * r + ((i >> (n - 1 - a)) & 1)
    c = 0
    for a in cols_axes:
        c = 2 * c + ((i >> (n - 1 - a)) & 1)
    return r, c


def ref_sep(n, v, part):
    k = len(part)
    m = np.zeros((2 ** (n - k), 2 ** k), dtype=np.asarray(v).dtype)
    for i in range(2 ** n):
        r, c = ref_index(n, part, i)
        m[r, c] = v[i]
    return m


def ref_undo(n, m, part):
    v = np.zeros(2 ** n, dtype=np.asarray(m).dtype)
    for i in range(2 ** n):
        r, c = ref_index(n, part, i)
        v[i] = m[r, c]
    return v


def clp2(x):
    p = 1
    while p < x:
        p *= 2
    return p


# ---------------------------------------------------------------------------------------------
# tie
# ---------------------------------------------------------------------------------------------

def sep_impl_lines(n, part):
    from qclib.entanglement import _separation_matrix, _undo_separation_matrix
    try:
        m = _separation_matrix(n, np.arange(2 ** n), list(part))
        rows, cols = m.shape
        # m[r, c] = i  <=> entry i of the vector lands at (r, c)
        undo_tab = [int(x) for x in m.reshape(-1)]
        v = _undo_separation_matrix(n, np.arange(2 ** n).reshape(rows, cols), list(part))
        sep_tab = [int(x) for x in v]   # v[i] = r*cols + c
    except Exception:   # numpy AxisError / ValueError (duplicate, out of range)
        return ["reject"]
    return ["sep " + " ".join(map(str, sep_tab)), "undo " + " ".join(map(str, undo_tab))]


def tie_sep(ctx, n, part):
    ctx.tie({"op": "sep", "n": n, "P": [int(a) for a in part]}, sep_impl_lines(n, part))
    ctx.count("sep:sorted" if list(part) == sorted(part) else "sep:unsorted")


def rank_impl(lr, s):
    from qclib.entanglement import low_rank_approximation
    s = np.asarray(s, dtype=float)
    try:
        r, u, sv, v = low_rank_approximation(lr, np.zeros((1, len(s))), np.zeros((len(s), 1)), s)
    except ValueError:
        return None
    return int(r)


def tie_rank(ctx, lr, eff):
    r = rank_impl(lr, np.ones(eff))
    ctx.tie({"op": "rank", "lr": lr, "eff": eff}, ["reject"] if r is None else [f"rank {r}"])
    ctx.count("rank")


def tie_ranks(ctx, lr, s):
    from qclib.entanglement import _effective_rank
    eff = int(_effective_rank(np.asarray(s, dtype=float)))
    r = rank_impl(lr, s)
    ctx.tie({"op": "ranks", "lr": lr, "s": [float(x) for x in s]},
            [f"eff {eff}", "reject" if r is None else f"rank {r}"])
    ctx.count("ranks")


def generate(ctx):
    """Rank rule re-translated from the current source (tools/schmidt_src.py); a refusal raises (broken obligation)."""
    import schmidt_src
    return schmidt_src.generate(ctx, "QclibModel.Props.C09", ["Qclib.C09_rank_src"])


def run_tie(ctx):
    import schmidt_src
    schmidt_src.tie(ctx)
    quick = ctx.quick
    nmax = 6 if quick else 8
    nperm = 4 if quick else 5
    for n in range(0, nmax + 1):
        for k in range(0, n + 1):
            for sub in itertools.combinations(range(n), k):
                tie_sep(ctx, n, sub)
    for n in range(2, nperm + 1):
        for k in range(2, n + 1):
            for p in itertools.permutations(range(n), k):
                if list(p) != sorted(p):
                    tie_sep(ctx, n, p)
    for n in range(nperm + 1, nmax + 1):
        for _ in range(12 if quick else 40):
            k = ctx.rng.randint(2, n)
            p = ctx.rng.sample(range(n), k)
            tie_sep(ctx, n, p)
    # what numpy does outside the documented domain: negative axes, duplicates, out of range
    for n in (1, 2, 3, 4):
        for p in ([-1], [-n], [-n - 1], [n], [0, 0], [n - 1, -1], [-1, 0], [0, -1], [-2, -1], [-1, -2], [0, n],
                  list(range(n)) + [0]):
            tie_sep(ctx, n, p)
    for _ in range(20 if quick else 80):
        n = ctx.rng.randint(2, 6)
        k = ctx.rng.randint(1, n)
        p = [ctx.rng.randint(-n - 1, n) for _ in range(k)]
        tie_sep(ctx, n, p)

    # rank rule
    hi = 40 if quick else 70
    for eff in range(0, hi + 1):
        for lr in range(-2, hi + 1):
            tie_rank(ctx, lr, eff)
    kmax = 14 if quick else 20
    for k in range(6, kmax + 1):
        for eff in (2 ** k - 1, 2 ** k, 2 ** k + 1):
            for lr in (0, 1, 2 ** (k - 1) - 1, 2 ** (k - 1), 2 ** (k - 1) + 1, 2 ** k - 1, 2 ** k, 2 ** k + 1, 2 ** (k + 1)):
                tie_rank(ctx, lr, eff)
    # threshold: strictly greater than 1e-7 counts
    lists = [
        [1.0, 0.5, 1e-7, 1.1e-7, 0.9e-7, 0.0],
        [1.0, 1.0000001e-7, 0.9999999e-7],
        [1e-7] * 4, [2e-7] * 3, [0.0] * 4, [1e-8] * 2,
        [0.9, 0.3, 0.3, 1e-12, 0.0, 0.0, 0.0, 0.0],
        [1.0] + [1e-3] * 4 + [1e-10] * 3,
        [0.5] * 8, [0.7, 0.7, 1e-6, 1e-6, 1e-8],
    ]
    for s in lists:
        for lr in (0, 1, 2, 3, 4, 5, 8, 9):
            tie_ranks(ctx, lr, s)
    for _ in range(10 if quick else 60):
        m = ctx.rng.choice([2, 4, 8, 16])
        s = sorted((ctx.rng.choice([ctx.rng.random(), 3e-7, 5e-8, 0.0, 1e-7]) for _ in range(m)), reverse=True)
        tie_ranks(ctx, ctx.rng.randint(0, m + 1), s)


# ---------------------------------------------------------------------------------------------
# oracle: the property on the real code
# ---------------------------------------------------------------------------------------------

def rand_unit(rng, d, real=False):
    v = rng.normal(size=d) + (0 if real else 1j * rng.normal(size=d))
    return v / np.linalg.norm(v)


def orthonormal(rng, d, k, real=False):
    a = rng.normal(size=(d, k)) + (0 if real else 1j * rng.normal(size=(d, k)))
    q, _ = np.linalg.qr(a)
    return q[:, :k]


def with_spectrum(rng, n, part, spec, real=False):
    """A state whose Schmidt coefficients across `part` are exactly `spec` (normalised)."""
    k = len(part)
    rows, cols = 2 ** (n - k), 2 ** k
    spec = np.asarray(spec, dtype=float)
    spec = spec / np.linalg.norm(spec)
    a = orthonormal(rng, rows, len(spec), real)
    b = orthonormal(rng, cols, len(spec), real)
    m = (a * spec) @ b.T
    return ref_undo(n, m, part)


def families(ctx, rng, n, part):
    """(name, vector) pairs; every vector is a unit vector with Schmidt spectrum outside BAND."""
    d = 2 ** n
    k = len(part)
    mind = min(2 ** k, 2 ** (n - k))
    out = [("complex", rand_unit(rng, d)), ("real", rand_unit(rng, d, real=True))]
    e = np.zeros(d, dtype=complex)
    e[int(rng.integers(d))] = rng.choice([1, -1, 1j, -1j])
    out.append(("basis", e))
    # product state, qubit factors in shuffled order (rank 1 across every bipartition)
    facs = [rand_unit(rng, 2) for _ in range(n)]
    t = np.array([1.0 + 0j])
    for f in facs:
        t = np.kron(t, f)
    out.append(("product", t))
    ghz = np.zeros(d, dtype=complex)
    ghz[0] = ghz[-1] = 1 / math.sqrt(2)
    out.append(("ghz", ghz))
    w = np.zeros(d, dtype=complex)
    for q in range(n):
        w[1 << q] = 1 / math.sqrt(n)
    out.append(("w", w))
    if mind >= 2:
        out.append(("small-tail", with_spectrum(rng, n, part, [1.0, 3e-4] if mind < 4 else [0.9, 0.4, 2e-4])))
        out.append(("repeated", with_spectrum(rng, n, part, [1.0] * mind)))
        out.append(("repeated-pair", with_spectrum(rng, n, part, [1.0, 1.0] + [0.3] * (mind - 2), real=True)))
    if mind >= 4:
        kk = int(rng.integers(2, mind))
        out.append((f"deficient{kk}", with_spectrum(rng, n, part, list(rng.uniform(0.2, 1.0, size=kk)))))
        out.append(("deficient3", with_spectrum(rng, n, part, [0.8, 0.5, 0.33])))
        out.append(("tiny-tail", with_spectrum(rng, n, part, [0.9, 0.4] + [1e-11] * (mind - 2))))
    return out


def oracle_case(ctx, name, n, part, v, r, key=None, svd=None, band=BAND):
    """Evaluate C09 on the real code for one (vector, partition, requested rank).  `svd`: value of the `svd` argument
    (None = not passed, i.e. the default 'auto')."""
    from qclib.entanglement import schmidt_decomposition, schmidt_composition
    part = list(part)
    k = len(part)
    rows, cols = 2 ** (n - k), 2 ** k
    key = key or f"schmidt:{name}:n={n}:P={','.join(map(str, part))}:r={r}" + (f":svd={svd}" if svd else "")
    rep = {"call": "schmidt_decomposition/schmidt_composition", "family": name, "n": n, "partition": part, "rank": r, "svd": svd,
           "band": list(band),
           "vector_re": [float(x) for x in np.real(v)], "vector_im": [float(x) for x in np.imag(v)]}
    # independent reference
    mref = ref_sep(n, np.asarray(v, dtype=complex), part)
    sref = np.linalg.svd(mref, compute_uv=False)
    if any(band[0] <= x <= band[1] for x in sref):
        ctx.count("skipped:threshold-band")
        return
    eff = int((sref > 1e-7).sum())
    want = clp2(r if 0 < r < eff else eff)
    vin = np.array(v, copy=True)
    try:
        if svd is None:
            rank, u, s, vh = schmidt_decomposition(v, part, rank=r)
        else:
            rank, u, s, vh = schmidt_decomposition(v, part, rank=r, svd=svd)
        back = schmidt_composition(u, vh, s, part)
    except Exception as ex:   # a valid input must not raise
        ctx.fail(key, f"raised {type(ex).__name__}: {ex}", rep)
        return
    problems = []
    if not np.array_equal(vin, np.asarray(v)):
        problems.append("input vector modified")
    if int(rank) != want:
        problems.append(f"rank {rank} != least power of two >= min(r, eff) = {want} (eff={eff})")
    if rank & (rank - 1) or rank < 1:
        problems.append(f"rank {rank} not a power of two")
    if len(s) != rank or u.shape != (rows, rank) or vh.shape != (rank, cols):
        problems.append(f"shapes U{u.shape} s{s.shape} V{vh.shape} for rank {rank}, matrix {rows}x{cols}")
    else:
        gu = np.abs(u.conj().T @ u - np.eye(rank)).max()
        gv = np.abs(vh @ vh.conj().T - np.eye(rank)).max()
        if gu > 1e-7:
            problems.append(f"left vectors not orthonormal ({gu:.2e})")
        if gv > 1e-7:
            problems.append(f"right vectors not orthonormal ({gv:.2e})")
        if np.any(np.imag(s) != 0) or np.any(np.real(s) < 0) or np.any(np.diff(np.real(s)) > 1e-12):
            problems.append("coefficients not non-negative non-increasing")
        if np.abs(np.real(s) - sref[:rank]).max() > 1e-7:
            problems.append("coefficients differ from the singular values of the independent reshape")
        if back.shape != (2 ** n,):
            problems.append(f"composition has shape {back.shape}")
        elif rank >= eff:
            err = np.abs(back - v).max()
            if err > 1e-7:
                problems.append(f"composition differs from the input by {err:.2e} (no truncation)")
        else:
            # truncated: squared norm is the sum of the kept squared coefficients; when the cut is
            # not inside a degenerate cluster the truncation is unique and is compared entry-wise
            nn = float(np.vdot(back, back).real)
            if abs(nn - float((sref[:rank] ** 2).sum())) > 1e-7:
                problems.append(f"truncated composition has squared norm {nn}")
            if sref[rank - 1] - sref[rank] > 1e-3:
                uu, ss, vv = np.linalg.svd(mref, full_matrices=False)
                t = ref_undo(n, (uu[:, :rank] * ss[:rank]) @ vv[:rank], part)
                err = np.abs(back - t).max()
                if err > 1e-7:
                    problems.append(f"truncated composition differs from the independent truncation by {err:.2e}")
    ctx.count(f"fam:{name.rstrip('0123456789')}")
    ctx.count("truncated" if want < eff else "untruncated")
    if problems:
        ctx.fail(key, "; ".join(problems), rep)
    else:
        ctx.ok(key, nontrivial=n >= 2 and 0 < k < n,
               sample={"family": name, "n": n, "partition": part, "r": r, "rank": int(rank), "eff": eff})


def reshape_case(ctx, n, part, rng, key=None):
    """Real reshape vs independent bit arithmetic, and both round trips, on a random complex vector."""
    from qclib.entanglement import _separation_matrix, _undo_separation_matrix
    part = list(part)
    key = key or f"reshape:n={n}:P={','.join(map(str, part))}"
    v = rng.normal(size=2 ** n) + 1j * rng.normal(size=2 ** n)
    rep = {"call": "_separation_matrix/_undo_separation_matrix", "n": n, "partition": part}
    try:
        m = _separation_matrix(n, v, part)
        back = _undo_separation_matrix(n, m, part)
        mm = rng.normal(size=m.shape)
        back2 = _separation_matrix(n, _undo_separation_matrix(n, mm, part), part)
    except Exception as ex:
        ctx.fail(key, f"raised {type(ex).__name__}: {ex}", rep)
        return
    problems = []
    if m.shape != (2 ** (n - len(part)), 2 ** len(part)):
        problems.append(f"shape {m.shape}")
    elif not np.array_equal(m, ref_sep(n, v, part)):
        # not part of C09's statement (any consistent layout inside the two groups satisfies it; the
        # bipartition itself is checked through the singular values in oracle_case); C07 depends on it
        ctx.count("layout-differs-from-reference")
    if not np.array_equal(back, v):
        problems.append("undo(sep(v)) != v")
    if not np.array_equal(back2, mm):
        problems.append("sep(undo(M)) != M")
    if problems:
        ctx.fail(key, "; ".join(problems), rep)
    else:
        ctx.ok(key, nontrivial=0 < len(part) < n)


def ranks_for(k, n):
    mind = min(2 ** k, 2 ** (n - k))
    return list(range(0, mind + 2))


def run_oracle(ctx, nmax=None, nfull=None):
    rng = ctx.nprng()
    nmax = nmax or (6 if ctx.quick else 8)
    nfull = nfull or (5 if ctx.quick else 6)       # all subsets x all ranks up to here
    for n in range(2, nmax + 1):
        subsets = [s for k in range(1, n) for s in itertools.combinations(range(n), k)]
        if n > nfull:
            subsets = ctx.rng.sample(subsets, 12 if ctx.quick else 30)
        for sub in subsets:
            reshape_case(ctx, n, sub, rng)
            orders = [list(sub)]
            if len(sub) >= 2:
                sh = list(sub)
                while sh == sorted(sh):
                    ctx.rng.shuffle(sh)
                orders.append(sh)
                reshape_case(ctx, n, sh, rng)
            fams = families(ctx, rng, n, list(sub))
            for name, v in fams:
                rs = ranks_for(len(sub), n)
                if n > 4 and name not in ("complex", "repeated", "deficient3"):
                    rs = [0, 1] + ([ctx.rng.choice(rs[2:])] if len(rs) > 2 else [])
                for r in rs:
                    for od in orders:
                        oracle_case(ctx, name, n, od, v, r)
    # SVD specification (K4): M = U diag(s) Vh, validated on the matrices the code would see
    for _ in range(20):
        a = rng.normal(size=(8, 4)) + 1j * rng.normal(size=(8, 4))
        u, s, vh = np.linalg.svd(a, full_matrices=False)
        ctx.assumption_checks += 1
        if np.abs((u * s) @ vh - a).max() > 1e-9 or np.any(np.diff(s) > 0) or np.any(s < 0):
            ctx.fail("assumption:svd-spec", "np.linalg.svd does not satisfy its specification", kind="assumption")
    if ctx.hist.get("layout-differs-from-reference"):
        ctx.notes.append("the real reshape orders rows/columns differently from the reference layout (axes increasing, "
                         "most significant first) on %d partitions; C09 does not depend on it, C07's qubit placement does"
                         % ctx.hist["layout-differs-from-reference"])
    ctx.notes.append(f"generated vectors keep every Schmidt coefficient outside [{BAND[0]}, {BAND[1]}] (rank threshold 1e-7); "
                     "the zero vector is excluded (not a state; the code raises ValueError from log2(0), the model rejects too)")


# ---------------------------------------------------------------------------------------------
# branch coverage of qclib/entanglement.py (tools/branch_audit.py C09)
# ---------------------------------------------------------------------------------------------

UNREACHED_JUSTIFIED = {
    "qclib/entanglement.py:_get_iota,generalized_cross_product,meyer_wallach_entanglement,geometric_entanglement": "entanglement measures (Meyer-Wallach, geometric): not part of the Schmidt decomposition / composition",
    "qclib/entanglement.py:qb_approximation": "randomized QB approximation, not called by schmidt_decomposition",
}


def run_oracle_branches(ctx):
    """schmidt_decomposition's choice of SVD routine (entanglement.py:218-231).  With the default svd='auto' the randomized
    SVD is used for n >= 14, rank == 1 and more than round(n/2.5) partition qubits; it is exact (to rounding) when the state
    has at most rank + 12 Schmidt coefficients, which is what the cases below keep to.  The explicit values 'regular' and
    'randomized' are exercised with a requested rank equal to the least power of two >= Schmidt rank (the randomized routine
    returns exactly the requested number of terms, so other requests are outside the statement 'count is a power of two')."""
    rng = ctx.nprng()
    n = 14
    for part in ([0, 2, 4, 6, 8, 10, 12], [13, 1, 2, 3, 5, 8, 9, 11], [0, 3, 6, 7, 9, 13]):
        side = "auto->randomized" if len(part) > round(n / 2.5) else "auto->regular"
        for name, spec in (("product-across", [1.0]), ("spectrum3", [0.9, 0.4, 0.15])):
            v = with_spectrum(rng, n, sorted(part), spec)
            oracle_case(ctx, name, n, part, v, 1)
            ctx.count(f"branch:n=14:r=1:{side}")
        # r = 0 (no truncation) never goes to the randomized routine
        oracle_case(ctx, "spectrum3", n, part, with_spectrum(rng, n, sorted(part), [0.9, 0.4, 0.15]), 0)
        ctx.count("branch:n=14:r=0:auto->regular")
    for n, part in ((2, [0]), (3, [1]), (4, [0, 1]), (4, [3, 0]), (5, [0, 1, 2]), (6, [1, 3, 5]), (6, [5, 4])):
        mind = min(2 ** len(part), 2 ** (n - len(part)))
        for spec in ([1.0], [0.8, 0.6], [1.0, 1.0], [0.8, 0.5, 0.33], [0.7, 0.5, 0.4, 0.3]):
            if len(spec) > mind:
                continue
            v = with_spectrum(rng, n, sorted(part), spec)
            oracle_case(ctx, f"spectrum{len(spec)}", n, part, v, clp2(len(spec)), svd="randomized")
            ctx.count("branch:svd=randomized")
            oracle_case(ctx, f"spectrum{len(spec)}", n, part, v, ctx.rng.choice([0, 1, len(spec)]), svd="regular")
            ctx.count("branch:svd=regular")
    ctx.notes.append("svd='randomized' named explicitly returns exactly `rank` terms (0 terms for rank = 0, 3 for rank = 3): "
                     "outside C09's quantifier (vectors, partitions, ranks; the default svd='auto'), exercised only with "
                     "rank = least power of two >= Schmidt rank; n = 14 cases keep to <= 3 Schmidt coefficients, where the "
                     "randomized routine chosen by 'auto' is exact")


# ---------------------------------------------------------------------------------------------
# boundary values of entanglement.py (each conjunct of the SVD-routine switch, the rank rule on real decompositions
# at sizes where the switch is live, the 1e-7 cut from both sides)
# ---------------------------------------------------------------------------------------------

NARROW_BAND = (5e-8, 2e-7)    # only for the 'edge-tail' families: a coefficient a factor 3 below / above the 1e-7 cut


def _seed_rsvd(ctx):
    """entanglement.py draws the random test matrix of randomized_svd from a module-level unseeded generator: make the run a
    function of VERIF_SEED (module state only)."""
    import qclib.entanglement as ent
    ent._rng = np.random.default_rng(ctx.rng.getrandbits(63))


def run_oracle_boundaries(ctx):
    rng = ctx.nprng()
    _seed_rsvd(ctx)
    spec3 = [0.9, 0.4, 0.15]
    spec8 = [0.7, 0.45, 0.35, 0.25, 0.2, 0.15, 0.1, 0.08]
    # (1) `rank == 1`: requested rank 0 / 1 / 2 and the non-powers of two 3, 5, 6 with the other conjuncts TRUE
    #     (svd='auto', n >= 14, len(partition) > round(n/2.5)); low Schmidt rank keeps the reference SVD cheap and exact
    for n, part in ((14, [0, 1, 3, 5, 8, 10, 13]), (14, [12, 2, 4, 5, 6, 7, 9, 11]), (15, [0, 2, 3, 6, 9, 11, 14])):
        for name, spec in (("spectrum3", spec3), ("spectrum8", spec8)):
            v = with_spectrum(rng, n, sorted(part), spec)
            for r in (0, 1, 2, 3, 5, 6):
                oracle_case(ctx, name, n, part, v, r)
                ctx.count(f"boundary:rank-conjunct:n={n}:len={len(part)}:r={r}")
    # (2) `n_qubits >= 14`: n = 13 / 14 / 15 with rank 1 and a partition above the bound
    for n in (13, 14, 15):
        k = round(n / 2.5) + 1
        for _ in range(2):
            part = ctx.rng.sample(range(n), k)
            for name, spec in (("product-across", [1.0]), ("spectrum3", spec3)):
                oracle_case(ctx, name, n, part, with_spectrum(rng, n, sorted(part), spec), 1)
                ctx.count(f"boundary:n-conjunct:n={n}:len={k}:r=1")
    # (3) `len(partition) > round(n_qubits/2.5)`: below / at / above the bound at n = 14, 15 with rank 1
    for n in (14, 15):
        b = round(n / 2.5)
        for k, rel in ((b - 1, "below"), (b, "at"), (b + 1, "above")):
            part = ctx.rng.sample(range(n), k)
            for name, spec in (("product-across", [1.0]), ("spectrum3", spec3)):
                oracle_case(ctx, name, n, part, with_spectrum(rng, n, sorted(part), spec), 1)
                ctx.count(f"boundary:len-conjunct:n={n}:len={k}({rel}):r=1")
    # (4) `svd == 'auto'`: the same live point with svd='regular' named explicitly
    part = ctx.rng.sample(range(14), 7)
    for r in (1, 3):
        oracle_case(ctx, "spectrum8", 14, part, with_spectrum(rng, 14, sorted(part), spec8), r, svd="regular")
        ctx.count("boundary:svd-option:regular:n=14:len=7")
    # (5) `j > 10**-7`: a coefficient a factor 3 above (kept: counted in the rank) / below (dropped: the composition is then
    #     off by at most that coefficient, 3.3e-8 < 1e-7) the cut
    for n, part in ((3, [1]), (4, [0, 2]), (5, [1, 4]), (6, [0, 2, 5])):
        mind = min(2 ** len(part), 2 ** (n - len(part)))
        for name, tail in (("edge-tail-above", 3e-7), ("edge-tail-below", 3.3e-8)):
            spec = [0.9, tail] if mind < 4 else [0.9, 0.4, tail]
            v = with_spectrum(rng, n, sorted(part), spec)
            for r in range(0, len(spec) + 2):
                oracle_case(ctx, name, n, part, v, r, band=NARROW_BAND)
                ctx.count(f"boundary:sv-cut:{name}")
    # (6) `0 < low_rank < effective_rank` on real decompositions: low_rank = eff-1 / eff / eff+1 around powers of two
    for n, part in ((6, [0, 1, 2]), (8, [0, 2, 4, 6])):
        mind = 2 ** len(part)
        for eff in sorted({3, 4, 5, mind - 1, mind}):
            v = with_spectrum(rng, n, part, list(np.linspace(1.0, 0.3, eff)))
            for r in (eff - 1, eff, eff + 1):
                oracle_case(ctx, f"deficient{eff}", n, part, v, r)
                ctx.count("boundary:low_rank-vs-eff:" + ("below" if r < eff else "at" if r == eff else "above"))
    ctx.notes.append("boundary cases: the four conjuncts of the SVD-routine switch one at a time with the others true (rank 0/1/2/3/5/6, "
                     "n = 13/14/15, len(partition) = bound-1/bound/bound+1, svd='regular'), states with 3 or 8 Schmidt coefficients; "
                     f"'edge-tail' families put one coefficient at 3e-7 / 3.3e-8 and use the narrower excluded band {NARROW_BAND}; "
                     "randomized_svd's module-level generator is seeded from VERIF_SEED")


def compare(op, impl, model):
    """All dumped lines are integers / fixed tokens: exact comparison."""
    a = [" ".join(l.split()) for l in impl]
    b = [" ".join(l.split()) for l in model]
    if a == b:
        return None
    for i, (x, y) in enumerate(zip(a, b)):
        if x != y:
            return f"line {i}: impl={x[:160]!r} model={y[:160]!r}"
    return f"length {len(a)} vs {len(b)}: impl={a[:3]!r} model={b[:3]!r}"


def run(ctx):
    run_tie(ctx)
    run_oracle(ctx)
    run_oracle_branches(ctx)
    run_oracle_boundaries(ctx)


def search(ctx, hints):
    rng = ctx.nprng()
    for h in hints:
        op = h["op"]
        if op.get("op") == "sep":
            n, p = op["n"], op["P"]
            if len(set(p)) == len(p) and all(0 <= a < n for a in p):
                reshape_case(ctx, n, p, rng)
                if 0 < len(p) < n and n <= 9:
                    for name, v in families(ctx, rng, n, p)[:4]:
                        for r in (0, 1, 2):
                            oracle_case(ctx, name, n, p, v, r)
        elif op.get("op") in ("rank", "ranks", "gen_rank"):
            # is the rank the least power of two on a real decomposition with that many coefficients?
            eff = op.get("eff", len(op.get("s", [])))
            if op.get("op") == "gen_rank":
                eff = sum(1 for a, b in zip(op["num"], op["den"]) if a / b > 1e-6)
            n = max(2, 2 * max(1, math.ceil(math.log2(max(eff, 1)))))
            if n <= 10 and eff >= 1:
                part = list(range(n // 2))
                v = with_spectrum(rng, n, part, [1.0] * min(eff, 2 ** (n // 2)))
                oracle_case(ctx, "hint", n, part, v, max(0, op.get("lr", 0)))
    run_oracle(ctx, nmax=7, nfull=6)


def replay(ctx, payload):
    r = payload["replay"]
    rng = ctx.nprng()
    if r.get("call", "").startswith("_separation"):
        reshape_case(ctx, r["n"], r["partition"], rng)
    else:
        v = np.array(r["vector_re"]) + 1j * np.array(r["vector_im"])
        oracle_case(ctx, r.get("family", "replay"), r["n"], r["partition"], v, r["rank"], svd=r.get("svd"),
                    band=tuple(r.get("band", BAND)))
