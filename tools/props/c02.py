"""C02 — unitary synthesis (qclib/unitary.py): QSD / CSD recursion, optimisations A.1 / A.2, isometry mode, QR."""
import contextlib
import hashlib
import math
import os
import sys
import types

CLAIMED = True
TECHNIQUE = ("Lean 4 proofs of the algebra and index logic around the numerical kernels (block-matrix identities over any "
             "commutative *-ring with the kernels' specifications as explicit hypotheses; reversible-semantics proof of the QR "
             "Gray walk for all n); shape model tied to build_unitary by diffing the library-object list with the kernels' "
             "outputs fed in from the real run; Operator oracle over structured unitary families with the kernel "
             "specifications re-checked on every call")
LEVEL_TEXT = ("PARTIAL. Proved for all sizes: (C02_qr_gray, C02_qr_sandwich, C02_qr_undo, C02_qr_orientation) for every n and "
              "row != col the MCX walk of the QR decomposition never fails, ends with patterns differing in one bit, maps both basis "
              "labels simultaneously, every X-MCX-X sandwich flips its target exactly on its control pattern, _undo_mcxs (and the X "
              "layer) is the two-sided inverse on every label, and with col<row the surviving bit reads row=1/col=0 with the MCMT "
              "controls selecting exactly the final row pattern; (C02_csd_nolast, C02_csd_step, C02_csd_negRightHalf) "
              "ucr(RY, 2 theta, CZ, last_control=False) = CZ.Mux on every state with Mux applying the CS block per control index "
              "(via C13_nolast), and diag(u0, u1.Zh).(CZ.CS).diag(v0,v1) = X from the cossin specification, Zh being exactly the "
              "negation of the right half of the columns; (C02_demux, C02_demux_rz) diag(U1,U2) = (V+V)(D+D^dagger)(W+W) from the "
              "eigen specification, W unitary, and UCRZ(-2 arg d) multiplies by d_j / d_j^-1 per control index; (C02_iso_columns) by "
              "induction over the isometry levels the leading columns do not depend on the dropped blocks; WHOLE RECURSION "
              "(C02_matrix_semantics, C02_middle_placed, C02_csd_node, C02_qsd_full, C02_qsd_iso_full): with 'a gate list denotes "
              "the matrix M on wires 0..n-1, little-endian, identity elsewhere, on every state' (applyMat, shown to compose: "
              "product / block-diagonal / M+M one level up), the middle gate list on the wires the model really uses, "
              "place(ucr(RY,2 theta,CZ,False),[n-1]+range(n-1)), denotes CZ(n-2,n-1).CS(theta) for every n, and by induction over "
              "the recursion, for every n and iso, IF the tape is the record of a run in which every cossin / _compute_gates "
              "output meets its specification and every leaf UnitaryGate / UCRZ denotes its matrix / multiplexer (QsdSynth), "
              "THEN the model's whole buildUnitary-qsd gate list consumes exactly the tape and denotes X (iso=0) resp. a matrix "
              "with X's leading columns, acting like X on every state whose top iso wires read 0; (C02_csd_full) the same for "
              "buildUnitary-csd: lists of 2^(n-s) blocks denote the multiplexed matrix (block number = number on wires s..n-1), "
              "one cossin per block, UCRYGate(2 theta) on [s-1]+(0..s-2, s..n-1) proved to read the block from the wires above "
              "and the diagonal index from the wires below its target, UCGate leaves by specification. Tied: the recursion "
              "shape / wires / angle vectors (2 theta through ucr, -2 arg d) / kernel-call count / sign-flipped block of "
              "build_unitary for n<=4 (quick) / 5 (thorough), qsd and csd, every iso, eight input families; QR x/mcx/mcmt lists "
              "for ALL (row, col), n<=4 / 5, and whole QR circuits n<=3. Tested only: Operator(unitary(U, dec, iso, a2)) vs U "
              "over Haar and degenerate families, n<=5 / 6 (QR n<=4 / 5), with cossin / eig specifications re-checked per call; "
              "input validation and the A.2 fallback (regression probes).")
LEVEL_NOTE = ("Trusted: Lean kernel; scipy cossin, numpy eig/svd (_closest_unitary), qiskit UnitaryGate/UCRZ/UCRY/UCGate/MCX/"
              "MCMT/_apply_a2 and Operator (specified, validated numerically each run, not verified); IEEE floats vs exact "
              "algebra (1e-7); the hand model equals the code beyond the explored sizes only by uniformity of the recursion.")
LEAN_TARGETS = ["QclibModel.Props.C02"]
THEOREMS = ["Qclib.C02_qr_gray", "Qclib.C02_qr_sandwich", "Qclib.C02_qr_undo", "Qclib.C02_qr_orientation",
            "Qclib.C02_csd_nolast", "Qclib.C02_csd_step", "Qclib.C02_csd_negRightHalf", "Qclib.C02_demux",
            "Qclib.C02_demux_rz", "Qclib.C02_iso_columns", "Qclib.C02_matrix_semantics", "Qclib.C02_middle_placed",
            "Qclib.C02_csd_node", "Qclib.C02_qsd_full", "Qclib.C02_qsd_iso_full", "Qclib.C02_csd_full"]
TRUSTED = [
    "scipy.linalg.cossin(X, separate=True) returns (u1,u2), theta, (v1h,v2h) with X = diag(u1,u2) [[C,-S],[S,C]] diag(v1h,v2h), "
    "blocks unitary (re-checked numerically on every call)",
    "np.linalg.eig + _closest_unitary give a unitary V and d with U1 U2^dagger = V d^2 V^dagger (re-checked on every call; when "
    "eig's vectors are not orthonormal the repair is only checked, not derived)",
    "qiskit UnitaryGate, UCRZGate, UCRYGate, UCGate, MCXGate, MCMT implement their matrices; _apply_a2 preserves the operator; "
    "quantum_info.Operator as reference simulator",
    "qiskit RY/RZ/CZ matrix conventions equal Sem/Denote.lean (validated in C13)",
]
ASSUMPTIONS = ["exact complex arithmetic in the theorems; implementation compared at 1e-7",
               "QR: input unitaries without zero entries and whose Givens sweep meets no exactly-zero pivot / sub-pivot"]
RULE = ("tie: (n, decomposition, iso, family) shapes with the real kernel outputs as tape; (n,row,col) QR rotations, all pairs; "
        "oracle: distinct (n, family, seed, decomposition, iso, apply_a2) on which the operator was compared entry-by-entry; "
        "non-trivial = n>=2")
DRIVER = "Drivers/C02.lean"

import framework  # noqa: E402  (puts REPO on sys.path)

TOL = 1e-7


# eight exactly-unitary 2x2 blocks (re, im) on which qiskit's UCGate synthesises a wrong operator (error 1.87); they are
# what scipy's cossin leaves of the 64x64 DFT matrix on the way down the csd recursion
UCG_BAD_BLOCKS = [
    [(-0.7680771738870561, 4.796505202842473e-09), (0.6403572869528955, 9.340903066764642e-10), (-0.6403572869528955, 5.8891801236649964e-09), (-0.7680771738870561, 1.1468821225352143e-09)],
    [(-0.8028266426031454, -2.797019492068734e-13), (0.5962125308365812, -5.3864724337658076e-14), (0.5962125308365818, 3.052372245050064e-13), (0.8028266426031456, 5.878228236226387e-14)],
    [(0.9338571592191721, 2.4365165628142618e-09), (0.35764620251737345, -7.503110808447015e-10), (-0.35764620251737345, -1.9085250724783944e-09), (0.9338571592191721, 5.877191773720104e-10)],
    [(0.9023146695264581, 1.0201942451279005e-12), (0.43107799428567284, -3.594236391464657e-13), (-0.43107799428567284, -1.0181952891374078e-12), (0.9023146695264581, 3.5871938891174054e-13)],
    [(0.7680771738125189, 6.451571157631684e-09), (0.6403572870422993, -1.2564043232042852e-09), (0.6403572870422997, 7.921280709091275e-09), (-0.7680771738125189, -1.5426213375084896e-09)],
    [(0.8028266426030339, -2.0070176598851197e-14), (0.5962125308367316, 3.86509473019552e-15), (0.5962125308367318, -2.1902475180211285e-14), (-0.8028266426030339, 4.217956976129368e-15)],
    [(0.9338571591462492, -1.0657483293094262e-08), (-0.35764620270778325, -3.2819098884426514e-09), (-0.357646202707783, 8.348013874298755e-09), (-0.9338571591462492, 2.570722236146527e-09)],
    [(-0.9023146695271971, -1.0580354663860646e-12), (-0.4310779942841265, 3.7275544288814946e-13), (-0.4310779942841264, -1.0559623647710256e-12), (0.902314669527197, 3.7202507048078063e-13)],
]


def ucgate_error(blocks):
    """max |Operator(UCGate(blocks)) - blockdiag(blocks)| (qiskit kernel specification)."""
    import numpy as np
    from qiskit.circuit.library import UCGate
    from qiskit.quantum_info import Operator
    bl = [np.array(b, dtype=complex) for b in blocks]
    ideal = np.zeros((2 * len(bl), 2 * len(bl)), dtype=complex)
    for j, x in enumerate(bl):
        ideal[2 * j:2 * j + 2, 2 * j:2 * j + 2] = x
    return float(np.abs(Operator(UCGate(bl)).data - ideal).max())


def operator_with_ideal_ucgates(circ, lists, n):
    """Operator of a csd circuit on wires 0..n-1 with every `multiplexer` (UCGate on all qubits, target 0) replaced by
    the block-diagonal matrix of the list it was built from (`lists`, in circuit order)."""
    import numpy as np
    from qiskit import QuantumCircuit
    from qiskit.quantum_info import Operator
    total = np.eye(2 ** n, dtype=complex)
    it = iter(lists)

    def walk(c, wires):
        nonlocal total
        for inst in c.data:
            op = inst.operation
            qs = [wires[c.find_bit(q).index] for q in inst.qubits]
            if op.name == "multiplexer":
                bl = next(it)
                if qs != sorted(qs) or 2 * len(bl) != 2 ** len(qs):
                    raise RuntimeError("unexpected UCGate placement %r" % (qs,))
                m = np.zeros((2 * len(bl), 2 * len(bl)), dtype=complex)
                for j, x in enumerate(bl):
                    m[2 * j:2 * j + 2, 2 * j:2 * j + 2] = x
                qc = QuantumCircuit(n)
                qc.unitary(m, qs)
                total = Operator(qc).data @ total
            elif op.name in ("ucry", "ucrz", "unitary", "ry", "cz") or op.definition is None:
                qc = QuantumCircuit(n)
                qc.append(op, qs)
                total = Operator(qc).data @ total
            else:
                walk(op.definition, qs)
    walk(circ, list(range(n)))
    return total


def defer_fail(ctx, key, detail, replay):
    """Precision-only findings are reported after every other failure of the run."""
    if not hasattr(ctx, "_deferred"):
        ctx._deferred = []
    ctx._deferred.append((key, detail, replay))


def flush_deferred(ctx):
    for key, detail, replay in getattr(ctx, "_deferred", []):
        ctx.fail(key, detail, replay)
    ctx._deferred = []


# ---------------------------------------------------------------------------------------------------
# input families
# ---------------------------------------------------------------------------------------------------

FAMILIES = ["haar", "identity", "minus_identity", "i_identity", "diag_phases", "permutation", "real_orthogonal",
            "tensor", "block_equal", "block_diff", "hadamard", "qft", "diag_pm1", "cnot_chain", "tensor_id"]
QR_FAMILIES = ["haar", "real_orthogonal", "hadamard", "qft", "haar_phase"]


def haar(rng, dim):
    import numpy as np
    z = (rng.standard_normal((dim, dim)) + 1j * rng.standard_normal((dim, dim))) / math.sqrt(2)
    q, r = np.linalg.qr(z)
    d = np.diagonal(r)
    return q * (d / np.abs(d))


def haar_real(rng, dim):
    import numpy as np
    q, r = np.linalg.qr(rng.standard_normal((dim, dim)))
    return q * np.sign(np.diagonal(r))


def make_unitary(family, n, seed):
    import numpy as np
    rng = np.random.default_rng(seed)
    dim = 2 ** n
    if family == "haar":
        return haar(rng, dim)
    if family == "haar_phase":
        return np.exp(1j * rng.uniform(0, 2 * np.pi)) * haar(rng, dim)
    if family == "identity":
        return np.eye(dim, dtype=complex)
    if family == "minus_identity":
        return -np.eye(dim, dtype=complex)
    if family == "i_identity":
        return 1j * np.eye(dim, dtype=complex)
    if family == "diag_phases":
        return np.diag(np.exp(1j * rng.uniform(0, 2 * np.pi, dim)))
    if family == "diag_pm1":
        return np.diag(rng.choice([1.0, -1.0], dim)).astype(complex)
    if family == "permutation":
        return np.eye(dim, dtype=complex)[rng.permutation(dim)]
    if family == "real_orthogonal":
        return haar_real(rng, dim).astype(complex)
    if family == "tensor":
        m = np.ones((1, 1), dtype=complex)
        for _ in range(n):
            m = np.kron(m, haar(rng, 2))
        return m
    if family == "tensor_id":
        # identity on a random subset of qubits, Haar on the others
        m = np.ones((1, 1), dtype=complex)
        for q in range(n):
            m = np.kron(m, haar(rng, 2) if rng.integers(0, 2) else np.eye(2))
        return m
    if family == "block_equal":
        if n == 1:
            return np.eye(2, dtype=complex)
        return np.kron(np.eye(2), haar(rng, dim // 2))
    if family == "block_diff":
        if n == 1:
            return np.diag(np.exp(1j * rng.uniform(0, 2 * np.pi, 2)))
        z = np.zeros((dim, dim), dtype=complex)
        z[: dim // 2, : dim // 2] = haar(rng, dim // 2)
        z[dim // 2:, dim // 2:] = haar(rng, dim // 2)
        return z
    if family == "hadamard":
        h = np.array([[1, 1], [1, -1]], dtype=complex) / math.sqrt(2)
        m = np.ones((1, 1), dtype=complex)
        for _ in range(n):
            m = np.kron(m, h)
        return m
    if family == "qft":
        w = np.exp(2j * np.pi / dim)
        return np.array([[w ** (i * j) for j in range(dim)] for i in range(dim)]) / math.sqrt(dim)
    if family == "near_special_zz":
        # exp(i 1e-5 ZZ) on qubits 0,1 (identity elsewhere): within fidelity 1e-9 of the identity 2-qubit class
        e = 1e-5
        blk = np.diag(np.exp(1j * e * np.array([1, -1, -1, 1])))
        return np.kron(np.eye(dim // 4), blk) if n >= 2 else np.eye(2, dtype=complex)
    if family.startswith("block_near_equal@"):
        # diag(A, A exp(i eps H)): the eigenvalues of U1 U2^dagger in _compute_gates form a cluster of width ~eps around 1, so the
        # eigenvector matrix of np.linalg.eig sits next to the `is_unitary_matrix` test (atol 1e-8, rtol 1e-5) that selects the
        # closest-unitary repair (unitary.py:211-214)
        eps = float(family.split("@")[1])
        if n == 1:
            return np.diag(np.exp(1j * np.array([0.3, 0.3 + eps])))
        a = haar(rng, dim // 2)
        w = haar(rng, dim // 2)
        h = rng.uniform(-1.0, 1.0, dim // 2)
        z = np.zeros((dim, dim), dtype=complex)
        z[: dim // 2, : dim // 2] = a
        z[dim // 2:, dim // 2:] = a @ (w * np.exp(1j * eps * h)) @ w.conj().T
        return z
    if family.startswith("cs_tiny@"):
        # cosine-sine angles (a, .., a, a + d t / 2): every non-constant combination of the multiplexed RY angles 2 theta is
        # +-t, next to the `abs(angle) > 1e-8` test of the ucr leaf (ucr.py:48)
        t = float(family.split("@")[1])
        if n < 2:
            return haar(rng, dim)
        d = dim // 2
        theta = np.full(d, 0.7)
        theta[-1] += d * t / 2
        z = np.zeros((dim, dim), dtype=complex)
        z[:d, :d] = np.diag(np.cos(theta))
        z[:d, d:] = -np.diag(np.sin(theta))
        z[d:, :d] = np.diag(np.sin(theta))
        z[d:, d:] = np.diag(np.cos(theta))
        left = np.zeros((dim, dim), dtype=complex)
        right = np.zeros((dim, dim), dtype=complex)
        left[:d, :d], left[d:, d:] = haar(rng, d), haar(rng, d)
        right[:d, :d], right[d:, d:] = haar(rng, d), haar(rng, d)
        return left @ z @ right
    if family.startswith("tiny_entry@"):
        # Haar unitary with one entry of modulus e (a row rotation of a Haar matrix): QR is stated for unitaries without
        # zero entries, its own tests are exact (`!= 0`)
        e = float(family.split("@")[1])
        u = haar(rng, dim)
        i, k, j = 0, dim - 1, int(rng.integers(dim))
        x, y = u[i, j], u[k, j]
        rr = math.sqrt(abs(x) ** 2 + abs(y) ** 2)
        beta = e / rr
        alpha = math.sqrt(1 - beta ** 2)
        c = (alpha * np.conj(y) + beta * np.conj(x)) / rr
        sgm = (-alpha * np.conj(x) + beta * np.conj(y)) / rr
        g = np.eye(dim, dtype=complex)
        g[i, i], g[i, k], g[k, i], g[k, k] = c, sgm, -np.conj(sgm), np.conj(c)
        return g @ u
    if family == "cnot_chain":
        perm = list(range(dim))
        for q in range(n - 1):
            perm = [p ^ (((p >> q) & 1) << (q + 1)) for p in perm]
        return np.eye(dim, dtype=complex)[perm]
    raise ValueError(family)


# ---------------------------------------------------------------------------------------------------
# add-only instrumentation of qclib.unitary (wrappers live here; /repo is never edited)
# ---------------------------------------------------------------------------------------------------

@contextlib.contextmanager
def instrumented(rec, disable_a2=False):
    """Wrap the kernels `build_unitary` calls.  `rec` receives tuples in call order.
    `disable_a2` (diagnosis only): make `_apply_a2` raise QiskitError so that unitary() takes its own fallback."""
    import numpy as np
    import scipy as real_sp
    import qclib.unitary as qu

    saved = {k: getattr(qu, k) for k in ("sp", "_compute_gates", "_unitary", "_apply_a2", "_row_and_col_qubits")}

    def cossin(x, p, q, separate=True):
        x0 = np.array(x, dtype=complex)
        u, theta, vdh = real_sp.linalg.cossin(x, p, q, separate=separate)
        caller = sys._getframe(1).f_code.co_name
        rec.append(("cossin", caller, x0, [np.array(b) for b in u], np.array(theta), [np.array(b) for b in vdh], u))
        return u, theta, vdh

    shim = types.SimpleNamespace(linalg=types.SimpleNamespace(cossin=cossin))

    def compute_gates(g1, g2):
        d, v, w = saved["_compute_gates"](g1, g2)
        rec.append(("demux", np.array(g1), np.array(g2), np.array(d), np.array(v), np.array(w)))
        return d, v, w

    def unitary_(gate_list, n_qubits, decomposition="qsd"):
        rec.append(("_unitary", sys._getframe(1).f_code.co_name, [np.array(g) for g in gate_list], gate_list))
        return saved["_unitary"](gate_list, n_qubits, decomposition)

    def apply_a2(circ):
        rec.append(("a2",))
        if disable_a2:
            from qiskit.exceptions import QiskitError
            raise QiskitError("A.2 disabled by the harness (diagnosis)")
        try:
            return saved["_apply_a2"](circ)
        except Exception as e:  # re-raised: the fallback in unitary() must see it
            rec.append(("a2-raised", type(e).__name__))
            raise

    def row_col(col, n_qubits, row):
        rec.append(("rowcol", row, col, n_qubits))
        return saved["_row_and_col_qubits"](col, n_qubits, row)

    qu.sp = shim
    qu._compute_gates = compute_gates
    qu._unitary = unitary_
    qu._apply_a2 = apply_a2
    qu._row_and_col_qubits = row_col
    try:
        yield qu
    finally:
        for k, v in saved.items():
            setattr(qu, k, v)


def kernel_spec_errors(rec):
    """max deviation of the kernels' specifications over the recorded calls."""
    import numpy as np
    cs_err = eig_err = 0.0
    for r in rec:
        if r[0] == "cossin":
            _, _, x, u, theta, vdh, _ = r
            h = len(theta)
            c, s = np.diag(np.cos(theta)), np.diag(np.sin(theta))
            mid = np.block([[c, -s], [s, c]])
            z = np.zeros((h, h))
            bu = np.block([[u[0], z], [z, u[1]]])
            bv = np.block([[vdh[0], z], [z, vdh[1]]])
            cs_err = max(cs_err, float(np.abs(bu @ mid @ bv - x).max()))
            for b in list(u) + list(vdh):
                cs_err = max(cs_err, float(np.abs(b.conj().T @ b - np.eye(h)).max()))
        elif r[0] == "demux":
            _, g1, g2, d, v, w = r
            k = len(d)
            eig_err = max(eig_err, float(np.abs(v.conj().T @ v - np.eye(k)).max()))
            eig_err = max(eig_err, float(np.abs(np.abs(d) - 1).max()))
            eig_err = max(eig_err, float(np.abs(v @ np.diag(d * d) @ v.conj().T - g1 @ g2.conj().T).max()))
            eig_err = max(eig_err, float(np.abs(v @ np.diag(d) @ w - g1).max()))
            eig_err = max(eig_err, float(np.abs(v @ np.diag(d.conj()) @ w - g2).max()))
    return cs_err, eig_err


# ---------------------------------------------------------------------------------------------------
# flattening for the tie
# ---------------------------------------------------------------------------------------------------

def shape_lines(circ):
    """library objects of a build_unitary circuit: arrays dropped, angle vectors kept."""
    from flatten import flatten
    import numpy as np
    out = []
    for name, qs, params in flatten(circ):
        w = " ".join(str(q) for q in qs)
        if name == "unitary":
            out.append(f"unitary {w} ;")
        elif name in ("ucrz", "ucry"):
            out.append(f"{name} {w} ; " + " ".join(repr(float(np.real(np.asarray(p).ravel()[0]))) for p in params))
        elif name == "multiplexer":
            out.append(f"ucg {w} ;")  # block count not compared: qiskit stores a simplified parameter list
        elif name in ("ry", "cz"):
            out.append(f"{name} {w} ; " + " ".join(repr(float(p)) for p in params))
        else:
            out.append(f"UNEXPECTED-{name} {w} ;")
    return out


def qr_lines(circ, wires=None, out=None):
    """x / mcx / mcmt list of a QR circuit (MCMT and the bare 2x2 UnitaryGate kept opaque)."""
    if out is None:
        out = []
    if wires is None:
        wires = list(range(circ.num_qubits))
    for inst in circ.data:
        op = inst.operation
        qs = [wires[circ.find_bit(q).index] for q in inst.qubits]
        w = " ".join(str(q) for q in qs)
        if op.name in ("mcmt", "unitary"):
            out.append(f"mcmt {w} ;")
        elif op.name == "x":
            out.append(f"x {w} ;")
        elif op.name in ("cx", "ccx", "mcx", "c3x", "c4x", "mcx_gray"):
            cs = getattr(op, "ctrl_state", None)
            nc = getattr(op, "num_ctrl_qubits", 0)
            out.append(f"mcx {w} ;" if cs is None or cs == (1 << nc) - 1 else f"mcx[{cs}] {w} ;")
        elif op.definition is not None:
            qr_lines(op.definition, qs, out)
        else:
            out.append(f"UNEXPECTED-{op.name} {w} ;")
    return out


def tape_of(rec):
    import numpy as np
    tape = []
    for r in rec:
        if r[0] == "cossin":
            tape.append([float(t) for t in r[4]])
        elif r[0] == "demux":
            tape.append([float(t) for t in np.angle(r[3])])
    return tape


def interleave(m):
    import numpy as np
    m = np.asarray(m, dtype=complex)
    return [[float(v) for z in row for v in (z.real, z.imag)] for row in m]


def compare(op, impl, model):
    if op["op"] == "negright":
        return framework.diff_lines(impl, model, tol=1e-12)
    return framework.diff_lines(impl, model, tol=1e-9)


# ---------------------------------------------------------------------------------------------------
# tie
# ---------------------------------------------------------------------------------------------------

def tie_build(ctx, n, dec, iso, family, seed, with_blocks):
    import numpy as np
    rec = []
    u = make_unitary(family, n, seed)
    try:
        with instrumented(rec) as qu:
            circ = qu.build_unitary(u, dec, iso)
    except Exception as e:  # noqa: BLE001  qclib raised on a valid unitary
        ctx.fail(f"unitary-raises:{dec}:build:iso={iso}:n={n}:{family}", f"build_unitary raised {type(e).__name__}: {e}",
                 replay_dict(("unitary", n, family, seed, dec, iso, False)))
        return
    ctx.tie({"op": "build", "n": n, "dec": dec, "iso": iso, "tape": tape_of(rec), "family": family, "seed": seed},
            shape_lines(circ) + ["tape-left 0 ;"], label=f"build n={n} {dec} iso={iso} {family}")
    ctx.count(f"build:{dec}:iso{min(iso, 1)}")
    # A.1: what build_unitary hands to _unitary as right_gates[1] vs the cossin output
    cs_calls = [r for r in rec if r[0] == "cossin"]
    by_id = {}
    for r in cs_calls:
        for side, blocks, live in (("u", r[3], r[6]),):
            for idx, (copy, obj) in enumerate(zip(blocks, live)):
                by_id[id(obj)] = (r[1], idx, copy, len(r[4]))
    keep = [r for r in rec if r[0] == "_unitary"]
    n_flip = 0
    for r in keep:
        _, caller, passed, live = r
        for idx, (p, obj) in enumerate(zip(passed, live)):
            if id(obj) not in by_id:
                continue
            cs_caller, cs_idx, orig, ntheta = by_id[id(obj)]
            flipped = cs_caller == "build_unitary" and caller == "build_unitary" and cs_idx == 1
            h = ntheta // 2 if flipped else orig.shape[1]
            if flipped:
                n_flip += 1
            if with_blocks or flipped:
                ctx.tie({"op": "negright", "h": 2 * h, "rows": interleave(orig)},
                        ["row ; " + " ".join(repr(v) for v in row) for row in interleave(p)],
                        label=f"A.1 block n={n} {dec} iso={iso} {family} caller={caller} idx={idx} flipped={flipped}")
    want = sum(1 for r in cs_calls if r[1] == "build_unitary")
    if n_flip != want:
        ctx.obligation_broken("A.1 sign flip observed once per build_unitary cossin call",
                              f"n={n} {dec} iso={iso} {family}: {n_flip} flips for {want} calls")


def two_level(n, row, col):
    import numpy as np
    m = np.eye(2 ** n, dtype=complex)
    a, b = 0.6, 0.8j
    m[col, col], m[col, row], m[row, col], m[row, row] = np.conj(a), np.conj(b), b, -a
    return m


def tie_qr(ctx, nmax):
    import numpy as np
    import qclib.unitary as qu
    for n in range(1, nmax + 1):
        for row in range(2 ** n):
            for col in range(row):
                try:
                    circ = qu._build_qr_circuit(np.array([two_level(n, row, col).conj().T]), n)
                except Exception as e:  # noqa: BLE001
                    ctx.fail(f"qr-rotation-raises:n={n}:row={row}:col={col}", f"_build_qr_circuit raised {type(e).__name__}: {e}",
                             {"call": f"qclib.unitary._build_qr_circuit([two-level rotation between {row} and {col}], {n})"})
                    continue
                ctx.tie({"op": "qr", "n": n, "pairs": [[row, col]]}, qr_lines(circ), label=f"qr n={n} row={row} col={col}")
                cq, nd, rq = qu._row_and_col_qubits(col, n, row)
                ctx.tie({"op": "bits", "n": n, "row": row, "col": col},
                        ["bits " + " ".join(str(int(v)) for v in list(cq) + [nd] + list(rq)) + " ;"])
                ctx.count(f"qr-rot:n{n}:d{nd}")
    # whole circuits: the (row, col) sequence the real sweep visits
    for n in range(1, min(nmax, 3) + 1):
        rec = []
        seed = ctx.rng.getrandbits(32)
        u = make_unitary("haar", n, seed)
        try:
            with instrumented(rec) as q2:
                circ = q2.build_unitary(u, "qr")
        except Exception as e:  # noqa: BLE001
            ctx.fail(f"unitary-raises:qr:build:n={n}:haar", f"build_unitary(U, 'qr') raised {type(e).__name__}: {e}",
                     replay_dict(("unitary", n, "haar", seed, "qr", 0, False)))
            continue
        pairs = [[r[1], r[2]] for r in rec if r[0] == "rowcol"]
        ctx.tie({"op": "qr", "n": n, "pairs": pairs}, qr_lines(circ), label=f"qr whole n={n}")


def run_tie(ctx):
    nmax = 4 if ctx.quick else 5
    fams = ["haar", "identity", "real_orthogonal", "block_equal", "hadamard", "tensor", "diag_phases", "permutation"]
    for n in range(1, nmax + 1):
        for dec in ("qsd", "csd"):
            for iso in range(0, max(n, 1)):
                for fi, fam in enumerate(fams if n <= 4 else fams[:4]):
                    if iso > 0 and fi >= 3 and n >= 4:
                        continue
                    tie_build(ctx, n, dec, iso, fam, ctx.rng.getrandbits(32), with_blocks=(n <= 3 and fi == 0))
    for dec in ("qsd", "csd", "qr"):
        for a2 in (True, False):
            import numpy as np
            rec = []
            try:
                with instrumented(rec) as qu:
                    qu.unitary(make_unitary("haar", 3 if dec != "qr" else 2, 7), dec, 0, a2)
            except Exception:  # noqa: BLE001  (reported by the oracle sweep with a replay)
                continue
            ctx.tie({"op": "a2", "dec": dec, "a2": a2}, [f"a2 {int(any(r[0] == 'a2' for r in rec))} ;"])
    tie_qr(ctx, 4 if ctx.quick else 5)


# ---------------------------------------------------------------------------------------------------
# oracle (process pool)
# ---------------------------------------------------------------------------------------------------

def job_key(job):
    _, n, fam, seed, dec, iso, a2 = job
    return f"unitary:{dec}:a2={int(a2)}:iso={iso}:n={n}:{fam}:{seed & 0xffff:x}"


def run_job(job, disable_a2=False):
    """('unitary', n, family, seed, dec, iso, a2) -> result dict (never raises)."""
    sys.setrecursionlimit(10000)
    try:
        import numpy as np
        from qiskit.quantum_info import Operator
        _, n, fam, seed, dec, iso, a2 = job
        u = make_unitary(fam, n, seed)
        if dec == "qr" and np.abs(u).min() < 1e-6:
            return {"skipped": "zero entry"}
        rec = []
        res = {"job": list(job)}
        try:
            with instrumented(rec, disable_a2) as qu:
                circ = qu.unitary(u.copy(), dec, iso, a2)
        except Exception as e:  # noqa: BLE001  qclib raised on a valid input
            import traceback
            res["raised"] = f"{type(e).__name__}: {e}"
            res["tb"] = traceback.format_exc()[-800:]
            return res
        op = Operator(circ).data
        cols = 2 ** (n - iso) if dec != "qr" else 2 ** n
        res["err"] = float(np.abs(op[:, :cols] - u[:, :cols]).max())
        if dec == "csd" and res["err"] > TOL:
            # is qiskit's UCGate kernel the culprit?  (diagnosis on the failure path only)
            lists = [r[2] for r in rec if r[0] == "_unitary" and r[2][0].shape == (2, 2)]
            try:
                res["ucg_err"] = max([ucgate_error(bl) for bl in lists] or [0.0])
                fixed = operator_with_ideal_ucgates(circ, lists, n)
                res["err_ideal_ucg"] = float(np.abs(fixed[:, :cols] - u[:, :cols]).max())
            except Exception as e:  # noqa: BLE001
                res["ucg_diag_exc"] = f"{type(e).__name__}: {e}"
        res["cs_err"], res["eig_err"] = kernel_spec_errors(rec)
        res["a2_called"] = any(r[0] == "a2" for r in rec)
        res["a2_raised"] = any(r[0] == "a2-raised" for r in rec)
        res["n_cossin"] = sum(1 for r in rec if r[0] == "cossin")
        res["n_demux"] = sum(1 for r in rec if r[0] == "demux")
        return res
    except Exception:  # noqa: BLE001  harness trouble must not look like a violation
        import traceback
        return {"harness_exc": traceback.format_exc()[-1500:], "job": list(job)}


def job_weight(job):
    return 4 ** job[1] * (40 if job[4] == "qr" else 1)


def run_jobs(jobs):
    if not jobs:
        return []
    import multiprocessing as mp
    from concurrent.futures import ProcessPoolExecutor
    workers = max(1, min(14, (os.cpu_count() or 2) - 1, len(jobs)))
    if workers == 1 or len(jobs) < 4:
        return [run_job(j) for j in jobs]
    for k in ("OMP_NUM_THREADS", "OPENBLAS_NUM_THREADS", "RAYON_NUM_THREADS", "MKL_NUM_THREADS"):
        os.environ[k] = "1"
    order = sorted(range(len(jobs)), key=lambda i: -job_weight(jobs[i]))
    with ProcessPoolExecutor(max_workers=workers, mp_context=mp.get_context("spawn")) as ex:
        res = list(ex.map(run_job, [jobs[i] for i in order], chunksize=1))
    out = [None] * len(jobs)
    for i, r in zip(order, res):
        out[i] = r
    return out


def replay_dict(job, extra=None):
    _, n, fam, seed, dec, iso, a2 = job
    d = {"call": "qclib.unitary.unitary(U, decomposition, iso, apply_a2)", "n": n, "family": fam, "seed": seed,
         "decomposition": dec, "iso": iso, "apply_a2": a2,
         "how": "U = tools/props/c02.py::make_unitary(family, n, seed); compare Operator(circuit)[:, :2^(n-iso)] with U"}
    if n <= 2:
        d["U"] = [[[float(z.real), float(z.imag)] for z in row] for row in make_unitary(fam, n, seed)]
    d.update(extra or {})
    return d


def judge(ctx, job, res):
    key = job_key(job)
    _, n, fam, seed, dec, iso, a2 = job
    if res is None or "harness_exc" in res:
        raise RuntimeError("harness exception in oracle job %r: %s" % (job, (res or {}).get("harness_exc")))
    if "skipped" in res:
        ctx.count("qr-skipped-zero-entry")
        return
    ctx.count(f"oracle:{dec}")
    if "raised" in res:
        ctx.fail(f"unitary-raises:{dec}:a2={int(a2)}:iso={iso}:n={n}:{fam}", "qclib raised on a valid unitary: " + res["raised"],
                 replay_dict(job, {"traceback": res.get("tb")}))
        return
    if dec != "qr":
        ctx.assumption_checks += res["n_cossin"] + res["n_demux"]
        if res["cs_err"] > 1e-8:
            ctx.fail(f"assumption:cossin-spec:n={n}:{fam}", f"scipy cossin specification violated by {res['cs_err']:.2e}",
                     replay_dict(job), kind="assumption")
        if res["eig_err"] > 1e-6:
            ctx.fail(f"assumption:demux-spec:n={n}:{fam}",
                     f"_compute_gates: V unitary / V d^2 V^dagger = U1 U2^dagger / V D W = U1 violated by {res['eig_err']:.2e}",
                     replay_dict(job), kind="assumption")
    if res["a2_raised"]:
        ctx.count("a2-fallback-taken")
    if res["a2_called"] != (dec == "qsd" and a2):
        ctx.fail(f"a2-decision:{dec}:a2={int(a2)}", f"_apply_a2 called={res['a2_called']}", replay_dict(job))
    if res["err"] > TOL and dec == "qsd" and a2 and res["err"] <= 1e-4:
        # small loss only on the A.2 path?  re-run with qiskit's pass disabled (unitary() then takes its own fallback)
        res2 = run_job(job, disable_a2=True)
        if res2.get("err", 1.0) <= TOL:
            defer_fail(ctx, f"unitary-a2-precision:iso={iso}:n={n}:{fam}",
                     f"precision loss on the A.2 path only (qiskit two-qubit re-synthesis): max |Operator - U| = {res['err']:.3e} "
                     f"with apply_a2=True, {res2['err']:.1e} with the pass disabled",
                     replay_dict(job, {"observed_err": res["err"], "err_without_a2": res2["err"]}))
            return
    if res["err"] > TOL and dec == "csd" and res.get("ucg_err", 0.0) > TOL and res.get("err_ideal_ucg", 1.0) <= TOL:
        ctx.fail(f"unitary-ucgate-kernel:iso={iso}:n={n}:{fam}",
                 f"qiskit UCGate kernel synthesises a wrong operator: a UCGate of this circuit deviates by {res['ucg_err']:.3e} from "
                 f"its block-diagonal matrix; max |Operator - U| = {res['err']:.3e}, but {res['err_ideal_ucg']:.1e} when every UCGate is "
                 "replaced by its ideal matrix", replay_dict(job, {"observed_err": res["err"], "ucgate_err": res["ucg_err"]}))
        return
    if res["err"] > TOL:
        ctx.fail(key, f"max |Operator(circuit) - U| over the leading {2 ** (n - iso) if dec != 'qr' else 2 ** n} columns = {res['err']:.3e}",
                 replay_dict(job, {"observed_err": res["err"]}))
    else:
        ctx.ok(key, nontrivial=n >= 2, sample={"n": n, "family": fam, "dec": dec, "iso": iso, "a2": a2, "err": res["err"]})


def oracle_jobs(ctx, nmax, qr_nmax, reps):
    jobs = []
    for n in range(1, nmax + 1):
        for fam in FAMILIES:
            rr = reps if fam in ("haar", "real_orthogonal", "tensor", "block_equal", "block_diff", "permutation", "diag_phases",
                                 "tensor_id", "diag_pm1") else 1
            if n >= 5:
                rr = 1
            for _ in range(rr):
                seed = ctx.rng.getrandbits(32)
                for iso in range(0, n):
                    if n >= 5 and iso not in (0, 1, n - 1) and fam not in ("haar", "hadamard", "block_equal"):
                        continue
                    jobs.append(("unitary", n, fam, seed, "qsd", iso, True))
                    jobs.append(("unitary", n, fam, seed, "qsd", iso, False))
                    jobs.append(("unitary", n, fam, seed, "csd", iso, False))
    for n in range(1, qr_nmax + 1):
        for fam in QR_FAMILIES:
            for _ in range(reps if n < qr_nmax else 1):
                jobs.append(("unitary", n, fam, ctx.rng.getrandbits(32), "qr", 0, False))
    return jobs


def boundary_jobs(ctx):
    """Inputs next to the float thresholds of the anchored sources (the size / option boundaries - n = 1, 2 without recursion, n = 3
    first recursion, every iso in 0..n-1, csd leaf at 2x2 blocks, QR n = 1 - are AT and one off in oracle_jobs already)."""
    jobs = []
    for n in (2, 3, 4):
        for eps in (1e-9, 1e-7, 1e-5, 1e-3):
            seed = ctx.rng.getrandbits(32)
            fam = f"block_near_equal@{eps:g}"
            for iso in ((0,) if n < 3 else (0, 1)):
                jobs.append(("unitary", n, fam, seed, "qsd", iso, True))
                jobs.append(("unitary", n, fam, seed, "qsd", iso, False))
                jobs.append(("unitary", n, fam, seed, "csd", iso, False))
            ctx.count(f"boundary:demux-eigenvalue-cluster-width:{eps:g}")
    for n in (3, 4):
        for t in (3e-9, 3e-8, 1e-6):
            seed = ctx.rng.getrandbits(32)
            fam = f"cs_tiny@{t:g}"
            jobs.append(("unitary", n, fam, seed, "qsd", 0, True))
            jobs.append(("unitary", n, fam, seed, "qsd", 1, False))
            jobs.append(("unitary", n, fam, seed, "csd", 0, False))
            ctx.count(f"boundary:ucr-angle-vs-1e-8:{t:g}")
    for n in (2, 3):
        for e in (3e-6, 1e-4):
            jobs.append(("unitary", n, f"tiny_entry@{e:g}", ctx.rng.getrandbits(32), "qr", 0, False))
            ctx.count(f"boundary:qr-smallest-entry:{e:g}")
    return jobs


def probe_findings(ctx):
    """Concrete inputs of recorded findings, probed on every run (F-C02-1 fixed: one-qubit QR; the A.2 precision loss)."""
    jobs = [("unitary", 1, "haar", 11, "qr", 0, False), ("unitary", 1, "real_orthogonal", 12, "qr", 0, False),
            ("unitary", 2, "near_special_zz", 0, "qsd", 0, True), ("unitary", 3, "near_special_zz", 0, "qsd", 0, True),
            ("unitary", 2, "near_special_zz", 0, "qsd", 0, False), ("unitary", 2, "near_special_zz", 0, "csd", 0, False)]
    for job in jobs:
        judge(ctx, job, run_job(job))
    # known kernel finding: qiskit UCGate on eight exactly-unitary blocks, and its natural occurrence unitary(DFT_64, 'csd')
    ctx.assumption_checks += 1
    blocks = [[[complex(*b[0]), complex(*b[1])], [complex(*b[2]), complex(*b[3])]] for b in UCG_BAD_BLOCKS]
    e = ucgate_error(blocks)
    if e > TOL:
        ctx.fail("assumption:qiskit-ucgate:8-blocks", f"Operator(UCGate(blocks)) deviates from blockdiag(blocks) by {e:.3e} "
                 "(blocks unitary to 1e-15)", {"call": "qiskit.circuit.library.UCGate(UCG_BAD_BLOCKS of tools/props/c02.py)"},
                 kind="assumption")
    else:
        ctx.ok("assumption:qiskit-ucgate:8-blocks", nontrivial=False)
    job = ("unitary", 6, "qft", 0, "csd", 0, False)
    judge(ctx, job, run_job(job))
    probe_validation_and_fallback(ctx)


def probe_validation_and_fallback(ctx):
    """Regression probes of the fix: commits — unitary() validates its input (7594978) and falls back to the
    unoptimised circuit when qiskit's A.2 pass raises QiskitError (c5b2ace)."""
    import numpy as np
    import qclib.unitary as qu
    import qclib.isometry as qi
    from qiskit.quantum_info import Operator
    u8 = make_unitary("haar", 3, 99)
    bad = {"scaled-8x8": 2 * u8, "non-square": u8[:, :4], "6x6": np.eye(6), "non-unitary-4x4": np.triu(np.ones((4, 4))),
           "vector": u8[:, 0]}
    for name, m in bad.items():
        for dec in ("qsd", "csd"):
            key = f"unitary-accepts-invalid:{name}:{dec}"
            try:
                qu.unitary(m, dec)
            except ValueError:
                ctx.ok(key, nontrivial=False)
            except Exception as e:  # noqa: BLE001
                ctx.fail(key, f"raised {type(e).__name__} instead of ValueError: {e}", {"call": f"unitary({name}, {dec!r})"})
            else:
                ctx.fail(key, "unitary() returned a circuit for an invalid matrix", {"call": f"unitary({name}, {dec!r})"})
    # the input on which qiskit's _apply_a2 raises QiskitError: extension of 2 Hadamard columns, iso mode
    h3 = make_unitary("hadamard", 3, 0)[:, :2]
    ext = qi._extend_to_unitary(h3.astype(complex), 3, 1)
    rec = []
    key = "unitary-a2-fallback:hadamard3-iso2"
    try:
        with instrumented(rec) as q:
            circ = q.unitary(ext, "qsd", 2, True)
        err = float(np.abs(Operator(circ).data[:, :2] - h3).max())
        ctx.count("a2-raised-on-probe" if any(r[0] == "a2-raised" for r in rec) else "a2-ok-on-probe")
        if err > TOL:
            ctx.fail(key, f"leading columns off by {err:.2e}", {"call": "unitary(extend(H3[:, :2]), 'qsd', 2, True)"})
        else:
            ctx.ok(key)
    except Exception as e:  # noqa: BLE001
        ctx.fail(key, f"unitary() raised {type(e).__name__}: {e} (no fallback to the unoptimised circuit)",
                 {"call": "unitary(qclib.isometry._extend_to_unitary(H3[:, :2], 3, 1), 'qsd', 2, True)"})


# ---------------------------------------------------------------------------------------------------
# branch coverage of the anchored sources (tools/branch_audit.py C02)
# ---------------------------------------------------------------------------------------------------

UNREACHED_JUSTIFIED = {
    "qclib/unitary.py:cnot_count,_cnot_count_estimate,_cnot_count_iso,_cnot_count_iso_qsd": "CNOT counts of the synthesis: property C10",
    "qclib/unitary.py:381->416": "dead: _apply_mcxs is only called while n_diff > 1, so some bit differs and the loop always leaves through a break (C02_qr_gray proves the walk never fails)",
    "qclib/gates/ucr.py:75-76": "last_control=True: unitary.py always passes last_control=False (the CZ is absorbed, optimisation A.1); the True side belongs to C13 / C01",
}


def probe_call_forms(ctx):
    """The same matrices handed over in the other admissible forms: no optional argument at all (defaults qsd / iso 0 /
    A.2 on), keyword arguments, a nested list instead of an ndarray (unitary() itself starts with np.asarray), a real
    dtype.  One narrow key per form x decomposition."""
    import numpy as np
    from qiskit.quantum_info import Operator
    forms = []
    for n in (1, 2, 3):
        for fam in ("haar", "real_orthogonal", "hadamard", "permutation", "block_equal"):
            seed = ctx.rng.getrandbits(32)
            u = make_unitary(fam, n, seed)
            forms.append((n, fam, seed, "defaults", "qsd", 0, lambda q, u=u: q.unitary(u.copy())))
            forms.append((n, fam, seed, "build-defaults", "qsd", 0, lambda q, u=u: q.build_unitary(u.copy())))
            forms.append((n, fam, seed, "keywords", "csd", 0,
                          lambda q, u=u: q.unitary(gate=u.copy(), decomposition="csd", iso=0, apply_a2=False)))
            iso = n - 1
            forms.append((n, fam, seed, "list", "qsd", iso, lambda q, u=u, iso=iso: q.unitary(u.tolist(), "qsd", iso, True)))
            forms.append((n, fam, seed, "list", "csd", 0, lambda q, u=u: q.unitary(u.tolist(), "csd")))
            if np.abs(u.imag).max() == 0:
                ur = np.real(u).copy()
                forms.append((n, fam, seed, "real-dtype", "qsd", 0, lambda q, ur=ur: q.unitary(ur.copy(), "qsd")))
                forms.append((n, fam, seed, "real-dtype", "csd", iso, lambda q, ur=ur, iso=iso: q.unitary(ur.copy(), "csd", iso)))
                if np.abs(u).min() > 1e-6:
                    forms.append((n, fam, seed, "real-dtype", "qr", 0, lambda q, ur=ur: q.unitary(ur.copy(), "qr")))
                    forms.append((n, fam, seed, "list", "qr", 0, lambda q, ur=ur: q.unitary(ur.tolist(), "qr")))
    seen_fail = set()
    for n, fam, seed, form, dec, iso, call in forms:
        ctx.count(f"branch:call-form:{form}:{dec}")
        key = f"unitary-form:{form}:{dec}:iso={iso}:n={n}:{fam}"
        rep = {"call": f"qclib.unitary.unitary / build_unitary, form {form!r}", "n": n, "family": fam, "seed": seed,
               "decomposition": dec, "iso": iso, "form": form,
               "how": "U = tools/props/c02.py::make_unitary(family, n, seed); see probe_call_forms"}
        u = make_unitary(fam, n, seed)
        rec = []
        try:
            with instrumented(rec) as q:
                circ = call(q)
        except Exception as e:  # noqa: BLE001  qclib raised on a valid unitary
            k2 = f"unitary-raises:{dec}:{form}-input"
            if k2 not in seen_fail:       # one report per form x decomposition
                seen_fail.add(k2)
                ctx.fail(k2, f"qclib raised on a valid unitary given as {form} (n={n}, {fam}): {type(e).__name__}: {e}", rep)
            continue
        cols = 2 ** (n - iso) if dec != "qr" else 2 ** n
        err = float(np.abs(Operator(circ).data[:, :cols] - u[:, :cols]).max())
        a2_called = any(r[0] == "a2" for r in rec)
        if form == "defaults" and not a2_called:
            ctx.fail(key + ":a2", "unitary(U) with no optional argument did not run the A.2 pass (documented default apply_a2=True, "
                                  "decomposition='qsd')", rep)
        elif form == "build-defaults" and n >= 3 and not any(r[0] == "demux" for r in rec):
            ctx.fail(key + ":dec", "build_unitary(U) with no optional argument did not take the qsd recursion", rep)
        elif err > TOL:
            ctx.fail(key, f"max |Operator(circuit) - U| over the leading {cols} columns = {err:.3e}", rep)
        else:
            ctx.ok(key, nontrivial=n >= 2, sample={"n": n, "family": fam, "dec": dec, "iso": iso, "form": form, "err": err})


def run(ctx):
    run_tie(ctx)
    probe_findings(ctx)
    probe_call_forms(ctx)
    jobs = oracle_jobs(ctx, 5 if ctx.quick else 6, 4 if ctx.quick else 5, 2 if ctx.quick else 4) + boundary_jobs(ctx)
    for job, res in zip(jobs, run_jobs(jobs)):
        judge(ctx, job, res)
    flush_deferred(ctx)
    ctx.notes.append("QR is exercised only on unitaries whose entries all exceed 1e-6 in modulus (the property's own restriction)")
    ctx.notes.append("boundary families: block_near_equal@eps (eigenvalue cluster of width 1e-9..1e-3 in _compute_gates, either side of "
                     "the is_unitary_matrix test that selects the closest-unitary repair), cs_tiny@t (multiplexed RY combinations of "
                     "3e-9 / 3e-8 / 1e-6 around ucr's 1e-8 cut), tiny_entry@e (QR on a unitary whose smallest entry is 3e-6 / 1e-4)")
    ctx.notes.append("kernel specifications: cossin to 1e-8, eigen/demultiplexing to 1e-6, operator to 1e-7")


def search(ctx, hints):
    """Failing-input search on the real code: the disagreeing shapes first, then the full structured sweep."""
    jobs = []
    for h in hints:
        op = h.get("op", {})
        if op.get("op") == "build":
            for a2 in (True, False):
                jobs.append(("unitary", op["n"], op.get("family", "haar"), op.get("seed", 1), op["dec"], op["iso"], a2))
        if op.get("op") == "qr":
            jobs.append(("unitary", op["n"], "haar", 1, "qr", 0, False))
    probe_findings(ctx)
    jobs = jobs[:60] + oracle_jobs(ctx, 5, 4, 2)
    for job, res in zip(jobs, run_jobs(jobs)):
        judge(ctx, job, res)
    flush_deferred(ctx)


def replay(ctx, payload):
    r = payload["replay"]
    if r.get("form"):
        probe_call_forms(ctx)
        return
    job = ("unitary", r["n"], r["family"], r["seed"], r["decomposition"], r["iso"], r["apply_a2"])
    judge(ctx, job, run_job(job))
    flush_deferred(ctx)
