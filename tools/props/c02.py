"""C02 — unitary synthesis (qclib/unitary.py): QSD / CSD recursion, optimisations A.1 / A.2, isometry mode, QR."""
import contextlib
import hashlib
import math
import os
import sys
import types

CLAIMED = True
TECHNIQUE = ("Lean 4 proofs of the algebra and index logic around the numerical kernels (block-matrix identities over any "
             "commutative *-ring with the kernels' specifications as explicit hypotheses; reversible-semantics proof of the QR "
             "Gray walk for all n); shape model tied to build_unitary by diffing the library-object list with the kernels' "
             "outputs fed in from the real run; Operator oracle over structured unitary families with the kernel "
             "specifications re-checked on every call")
LEVEL_TEXT = ("PARTIAL. Proved for all sizes: (C02_qr_gray, C02_qr_sandwich, C02_qr_undo, C02_qr_orientation) for every n and "
              "row != col the MCX walk of the QR decomposition never fails, ends with patterns differing in one bit, maps both basis "
              "labels simultaneously, every X-MCX-X sandwich flips its target exactly on its control pattern, _undo_mcxs (and the X "
              "layer) is the two-sided inverse on every label, and with col<row the surviving bit reads row=1/col=0 with the MCMT "
              "controls selecting exactly the final row pattern; (C02_csd_nolast, C02_csd_step, C02_csd_negRightHalf) "
              "ucr(RY, 2 theta, CZ, last_control=False) = CZ.Mux on every state with Mux applying the CS block per control index "
              "(via C13_nolast), and diag(u0, u1.Zh).(CZ.CS).diag(v0,v1) = X from the cossin specification, Zh being exactly the "
              "negation of the right half of the columns; (C02_demux, C02_demux_rz) diag(U1,U2) = (V+V)(D+D^dagger)(W+W) from the "
              "eigen specification, W unitary, and UCRZ(-2 arg d) multiplies by d_j / d_j^-1 per control index; (C02_iso_columns) by "
              "induction over the isometry levels the leading columns do not depend on the dropped blocks; WHOLE RECURSION "
              "(C02_matrix_semantics, C02_middle_placed, C02_csd_node, C02_qsd_full, C02_qsd_iso_full): with 'a gate list denotes "
              "the matrix M on wires 0..n-1, little-endian, identity elsewhere, on every state' (applyMat, shown to compose: "
              "product / block-diagonal / M+M one level up), the middle gate list on the wires the model really uses, "
              "place(ucr(RY,2 theta,CZ,False),[n-1]+range(n-1)), denotes CZ(n-2,n-1).CS(theta) for every n, and by induction over "
              "the recursion, for every n and iso, IF the tape is the record of a run in which every cossin / _compute_gates "
              "output meets its specification and every leaf UnitaryGate / UCRZ denotes its matrix / multiplexer (QsdSynth), "
              "THEN the model's whole buildUnitary-qsd gate list consumes exactly the tape and denotes X (iso=0) resp. a matrix "
              "with X's leading columns, acting like X on every state whose top iso wires read 0; (C02_csd_full) the same for "
              "buildUnitary-csd: lists of 2^(n-s) blocks denote the multiplexed matrix (block number = number on wires s..n-1), "
              "one cossin per block, UCRYGate(2 theta) on [s-1]+(0..s-2, s..n-1) proved to read the block from the wires above "
              "and the diagonal index from the wires below its target, UCGate leaves by specification. Tied: the recursion "
              "shape / wires / angle vectors (2 theta through ucr, -2 arg d) / kernel-call count / sign-flipped block of "
              "build_unitary for n<=4 (quick) / 5 (thorough), qsd and csd, every iso, eight input families; QR x/mcx/mcmt lists "
              "for ALL (row, col), n<=4 / 5, and whole QR circuits n<=3. Tested only: Operator(unitary(U, dec, iso, a2)) vs U "
              "over Haar and degenerate families, n<=5 / 6 (QR n<=4 / 5), with cossin / eig specifications re-checked per call; "
              "input validation and the A.2 fallback (regression probes).")
LEVEL_NOTE = ("Trusted: Lean kernel; scipy cossin, numpy eig/svd (_closest_unitary), qiskit UnitaryGate/UCRZ/UCRY/UCGate/MCX/"
              "MCMT/_apply_a2 and Operator (specified, validated numerically each run, not verified); IEEE floats vs exact "
              "algebra (1e-7); the hand model equals the code beyond the explored sizes only by uniformity of the recursion.")
LEAN_TARGETS = ["QclibModel.Props.C02", "QclibModel.Props.C02QR"]
THEOREMS = ["Qclib.C02_qr_gray", "Qclib.C02_qr_sandwich", "Qclib.C02_qr_undo", "Qclib.C02_qr_orientation",
            "Qclib.C02_csd_nolast", "Qclib.C02_csd_step", "Qclib.C02_csd_negRightHalf", "Qclib.C02_demux",
            "Qclib.C02_demux_rz", "Qclib.C02_iso_columns", "Qclib.C02_matrix_semantics", "Qclib.C02_middle_placed",
            "Qclib.C02_csd_node", "Qclib.C02_qsd_full", "Qclib.C02_qsd_iso_full", "Qclib.C02_csd_full",
            # the whole Givens sweep of the QR decomposition (Props/C02QR.lean)
            "Qclib.C02_qr_step", "Qclib.C02_qr_sequence", "Qclib.C02_qr_triangular", "Qclib.C02_qr_residual",
            "Qclib.C02_qr_locate", "Qclib.C02_qr_residual_default", "Qclib.C02_qr_residual_located",
            "Qclib.C02_qr_code_sequence", "Qclib.C02_qr_full", "Qclib.C02_qr_full_exact", "Qclib.C02_qr_rotation_amp",
            "Qclib.C02_qr_circuit", "Qclib.C02_qr_residual_unlocated_before_fix", "Qclib.C02_qr_circuit_raises_before_fix"]
TRUSTED = [
    "scipy.linalg.cossin(X, separate=True) returns (u1,u2), theta, (v1h,v2h) with X = diag(u1,u2) [[C,-S],[S,C]] diag(v1h,v2h), "
    "blocks unitary (re-checked numerically on every call)",
    "np.linalg.eig + _closest_unitary give a unitary V and d with U1 U2^dagger = V d^2 V^dagger (re-checked on every call; when "
    "eig's vectors are not orthonormal the repair is only checked, not derived)",
    "qiskit UnitaryGate, UCRZGate, UCRYGate, UCGate, MCXGate, MCMT implement their matrices; _apply_a2 preserves the operator; "
    "quantum_info.Operator as reference simulator",
    "qiskit RY/RZ/CZ matrix conventions equal Sem/Denote.lean (validated in C13)",
]
ASSUMPTIONS = ["exact complex arithmetic in the theorems; implementation compared at 1e-7",
               "QR: input unitaries without zero entries and whose Givens sweep meets no exactly-zero pivot / sub-pivot"]
RULE = ("tie: (n, decomposition, iso, family) shapes with the real kernel outputs as tape; (n,row,col) QR rotations, all pairs; "
        "oracle: distinct (n, family, seed, decomposition, iso, apply_a2) on which the operator was compared entry-by-entry; "
        "non-trivial = n>=2; input-diversity cases: (matrix family, global phase, element type, call form, use of the result, "
        "decomposition, iso, apply_a2) specs at n = 1..4 and direct ucr calls (angle list, element type, call form) at k = 0..3")
DRIVER = "Drivers/C02.lean"

import framework  # noqa: E402  (puts REPO on sys.path)

TOL = 1e-7


# eight exactly-unitary 2x2 blocks (re, im) on which qiskit's UCGate synthesises a wrong operator (error 1.87); they are
# what scipy's cossin leaves of the 64x64 DFT matrix on the way down the csd recursion
UCG_BAD_BLOCKS = [
    [(-0.7680771738870561, 4.796505202842473e-09), (0.6403572869528955, 9.340903066764642e-10), (-0.6403572869528955, 5.8891801236649964e-09), (-0.7680771738870561, 1.1468821225352143e-09)],
    [(-0.8028266426031454, -2.797019492068734e-13), (0.5962125308365812, -5.3864724337658076e-14), (0.5962125308365818, 3.052372245050064e-13), (0.8028266426031456, 5.878228236226387e-14)],
    [(0.9338571592191721, 2.4365165628142618e-09), (0.35764620251737345, -7.503110808447015e-10), (-0.35764620251737345, -1.9085250724783944e-09), (0.9338571592191721, 5.877191773720104e-10)],
    [(0.9023146695264581, 1.0201942451279005e-12), (0.43107799428567284, -3.594236391464657e-13), (-0.43107799428567284, -1.0181952891374078e-12), (0.9023146695264581, 3.5871938891174054e-13)],
    [(0.7680771738125189, 6.451571157631684e-09), (0.6403572870422993, -1.2564043232042852e-09), (0.6403572870422997, 7.921280709091275e-09), (-0.7680771738125189, -1.5426213375084896e-09)],
    [(0.8028266426030339, -2.0070176598851197e-14), (0.5962125308367316, 3.86509473019552e-15), (0.5962125308367318, -2.1902475180211285e-14), (-0.8028266426030339, 4.217956976129368e-15)],
    [(0.9338571591462492, -1.0657483293094262e-08), (-0.35764620270778325, -3.2819098884426514e-09), (-0.357646202707783, 8.348013874298755e-09), (-0.9338571591462492, 2.570722236146527e-09)],
    [(-0.9023146695271971, -1.0580354663860646e-12), (-0.4310779942841265, 3.7275544288814946e-13), (-0.4310779942841264, -1.0559623647710256e-12), (0.902314669527197, 3.7202507048078063e-13)],
]


def ucgate_error(blocks):
    """max |Operator(UCGate(blocks)) - blockdiag(blocks)| (qiskit kernel specification)."""
    import numpy as np
    from qiskit.circuit.library import UCGate
    from qiskit.quantum_info import Operator
    bl = [np.array(b, dtype=complex) for b in blocks]
    ideal = np.zeros((2 * len(bl), 2 * len(bl)), dtype=complex)
    for j, x in enumerate(bl):
        ideal[2 * j:2 * j + 2, 2 * j:2 * j + 2] = x
    return float(np.abs(Operator(UCGate(bl)).data - ideal).max())


def operator_with_ideal_ucgates(circ, lists, n):
    """Operator of a csd circuit on wires 0..n-1 with every `multiplexer` (UCGate on all qubits, target 0) replaced by
    the block-diagonal matrix of the list it was built from (`lists`, in circuit order)."""
    import numpy as np
    from qiskit import QuantumCircuit
    from qiskit.quantum_info import Operator
    total = np.eye(2 ** n, dtype=complex)
    it = iter(lists)

    def walk(c, wires):
        nonlocal total
        for inst in c.data:
            op = inst.operation
            qs = [wires[c.find_bit(q).index] for q in inst.qubits]
            if op.name == "multiplexer":
                bl = next(it)
                if qs != sorted(qs) or 2 * len(bl) != 2 ** len(qs):
                    raise RuntimeError("unexpected UCGate placement %r" % (qs,))
                m = np.zeros((2 * len(bl), 2 * len(bl)), dtype=complex)
                for j, x in enumerate(bl):
                    m[2 * j:2 * j + 2, 2 * j:2 * j + 2] = x
                qc = QuantumCircuit(n)
                qc.unitary(m, qs)
                total = Operator(qc).data @ total
            elif op.name in ("ucry", "ucrz", "unitary", "ry", "cz") or op.definition is None:
                qc = QuantumCircuit(n)
                qc.append(op, qs)
                total = Operator(qc).data @ total
            else:
                walk(op.definition, qs)
    walk(circ, list(range(n)))
    return total


def defer_fail(ctx, key, detail, replay):
    """Precision-only findings are reported after every other failure of the run."""
    if not hasattr(ctx, "_deferred"):
        ctx._deferred = []
    ctx._deferred.append((key, detail, replay))


def flush_deferred(ctx):
    for key, detail, replay in getattr(ctx, "_deferred", []):
        ctx.fail(key, detail, replay)
    ctx._deferred = []


# ---------------------------------------------------------------------------------------------------
# input families
# ---------------------------------------------------------------------------------------------------

FAMILIES = ["haar", "identity", "minus_identity", "i_identity", "diag_phases", "permutation", "real_orthogonal",
            "tensor", "block_equal", "block_diff", "hadamard", "qft", "diag_pm1", "cnot_chain", "tensor_id"]
QR_FAMILIES = ["haar", "real_orthogonal", "hadamard", "qft", "haar_phase"]


def haar(rng, dim):
    import numpy as np
    z = (rng.standard_normal((dim, dim)) + 1j * rng.standard_normal((dim, dim))) / math.sqrt(2)
    q, r = np.linalg.qr(z)
    d = np.diagonal(r)
    return q * (d / np.abs(d))


def haar_real(rng, dim):
    import numpy as np
    q, r = np.linalg.qr(rng.standard_normal((dim, dim)))
    return q * np.sign(np.diagonal(r))


def make_unitary(family, n, seed):
    import numpy as np
    rng = np.random.default_rng(seed)
    dim = 2 ** n
    if family == "haar":
        return haar(rng, dim)
    if family == "haar_phase":
        return np.exp(1j * rng.uniform(0, 2 * np.pi)) * haar(rng, dim)
    if family == "identity":
        return np.eye(dim, dtype=complex)
    if family == "minus_identity":
        return -np.eye(dim, dtype=complex)
    if family == "i_identity":
        return 1j * np.eye(dim, dtype=complex)
    if family == "diag_phases":
        return np.diag(np.exp(1j * rng.uniform(0, 2 * np.pi, dim)))
    if family == "diag_pm1":
        return np.diag(rng.choice([1.0, -1.0], dim)).astype(complex)
    if family == "permutation":
        return np.eye(dim, dtype=complex)[rng.permutation(dim)]
    if family == "real_orthogonal":
        return haar_real(rng, dim).astype(complex)
    if family == "tensor":
        m = np.ones((1, 1), dtype=complex)
        for _ in range(n):
            m = np.kron(m, haar(rng, 2))
        return m
    if family == "tensor_id":
        # identity on a random subset of qubits, Haar on the others
        m = np.ones((1, 1), dtype=complex)
        for q in range(n):
            m = np.kron(m, haar(rng, 2) if rng.integers(0, 2) else np.eye(2))
        return m
    if family == "block_equal":
        if n == 1:
            return np.eye(2, dtype=complex)
        return np.kron(np.eye(2), haar(rng, dim // 2))
    if family == "block_diff":
        if n == 1:
            return np.diag(np.exp(1j * rng.uniform(0, 2 * np.pi, 2)))
        z = np.zeros((dim, dim), dtype=complex)
        z[: dim // 2, : dim // 2] = haar(rng, dim // 2)
        z[dim // 2:, dim // 2:] = haar(rng, dim // 2)
        return z
    if family == "hadamard":
        h = np.array([[1, 1], [1, -1]], dtype=complex) / math.sqrt(2)
        m = np.ones((1, 1), dtype=complex)
        for _ in range(n):
            m = np.kron(m, h)
        return m
    if family == "qft":
        w = np.exp(2j * np.pi / dim)
        return np.array([[w ** (i * j) for j in range(dim)] for i in range(dim)]) / math.sqrt(dim)
    if family == "near_special_zz":
        # exp(i 1e-5 ZZ) on qubits 0,1 (identity elsewhere): within fidelity 1e-9 of the identity 2-qubit class
        e = 1e-5
        blk = np.diag(np.exp(1j * e * np.array([1, -1, -1, 1])))
        return np.kron(np.eye(dim // 4), blk) if n >= 2 else np.eye(2, dtype=complex)
    if family.startswith("block_near_equal@"):
        # diag(A, A exp(i eps H)): the eigenvalues of U1 U2^dagger in _compute_gates form a cluster of width ~eps around 1, so the
        # eigenvector matrix of np.linalg.eig sits next to the `is_unitary_matrix` test (atol 1e-8, rtol 1e-5) that selects the
        # closest-unitary repair (unitary.py:211-214)
        eps = float(family.split("@")[1])
        if n == 1:
            return np.diag(np.exp(1j * np.array([0.3, 0.3 + eps])))
        a = haar(rng, dim // 2)
        w = haar(rng, dim // 2)
        h = rng.uniform(-1.0, 1.0, dim // 2)
        z = np.zeros((dim, dim), dtype=complex)
        z[: dim // 2, : dim // 2] = a
        z[dim // 2:, dim // 2:] = a @ (w * np.exp(1j * eps * h)) @ w.conj().T
        return z
    if family.startswith("cs_tiny@"):
        # cosine-sine angles (a, .., a, a + d t / 2): every non-constant combination of the multiplexed RY angles 2 theta is
        # +-t, next to the `abs(angle) > 1e-8` test of the ucr leaf (ucr.py:48)
        t = float(family.split("@")[1])
        if n < 2:
            return haar(rng, dim)
        d = dim // 2
        theta = np.full(d, 0.7)
        theta[-1] += d * t / 2
        z = np.zeros((dim, dim), dtype=complex)
        z[:d, :d] = np.diag(np.cos(theta))
        z[:d, d:] = -np.diag(np.sin(theta))
        z[d:, :d] = np.diag(np.sin(theta))
        z[d:, d:] = np.diag(np.cos(theta))
        left = np.zeros((dim, dim), dtype=complex)
        right = np.zeros((dim, dim), dtype=complex)
        left[:d, :d], left[d:, d:] = haar(rng, d), haar(rng, d)
        right[:d, :d], right[d:, d:] = haar(rng, d), haar(rng, d)
        return left @ z @ right
    if family.startswith("tiny_entry@"):
        # Haar unitary with one entry of modulus e (a row rotation of a Haar matrix): QR is stated for unitaries without
        # zero entries, its own tests are exact (`!= 0`)
        e = float(family.split("@")[1])
        u = haar(rng, dim)
        i, k, j = 0, dim - 1, int(rng.integers(dim))
        x, y = u[i, j], u[k, j]
        rr = math.sqrt(abs(x) ** 2 + abs(y) ** 2)
        beta = e / rr
        alpha = math.sqrt(1 - beta ** 2)
        c = (alpha * np.conj(y) + beta * np.conj(x)) / rr
        sgm = (-alpha * np.conj(x) + beta * np.conj(y)) / rr
        g = np.eye(dim, dtype=complex)
        g[i, i], g[i, k], g[k, i], g[k, k] = c, sgm, -np.conj(sgm), np.conj(c)
        return g @ u
    if family.startswith("small_pivot@"):
        # RY(pi - t) (x) V with V[0, 0] real positive: no zero entries, but in the Givens sweep of column 0 the pivot is
        # ~t/2 of the entry being eliminated, so the normalised off-diagonal element of that rotation is 1 - O(t^2):
        # within rounding distance of the exact constants (`!= 0`, `not_equal(., 1)`) that locate a rotation
        t = float(family.split("@")[1])
        c, sn = math.cos((math.pi - t) / 2), math.sin((math.pi - t) / 2)
        ry = np.array([[c, -sn], [sn, c]], dtype=complex)
        if n == 1:
            return ry
        v = haar(rng, dim // 2)
        v = v * (np.conj(v[0, 0]) / abs(v[0, 0]))
        return np.kron(ry, v)
    if family == "cnot_chain":
        perm = list(range(dim))
        for q in range(n - 1):
            perm = [p ^ (((p >> q) & 1) << (q + 1)) for p in perm]
        return np.eye(dim, dtype=complex)[perm]
    raise ValueError(family)


# ---------------------------------------------------------------------------------------------------
# add-only instrumentation of qclib.unitary (wrappers live here; /repo is never edited)
# ---------------------------------------------------------------------------------------------------

@contextlib.contextmanager
def instrumented(rec, disable_a2=False):
    """Wrap the kernels `build_unitary` calls.  `rec` receives tuples in call order.
    `disable_a2` (diagnosis only): make `_apply_a2` raise QiskitError so that unitary() takes its own fallback."""
    import numpy as np
    import scipy as real_sp
    import qclib.unitary as qu

    saved = {k: getattr(qu, k) for k in ("sp", "_compute_gates", "_unitary", "_apply_a2", "_row_and_col_qubits")}

    def cossin(x, p, q, separate=True):
        x0 = np.array(x, dtype=complex)
        u, theta, vdh = real_sp.linalg.cossin(x, p, q, separate=separate)
        caller = sys._getframe(1).f_code.co_name
        rec.append(("cossin", caller, x0, [np.array(b) for b in u], np.array(theta), [np.array(b) for b in vdh], u))
        return u, theta, vdh

    shim = types.SimpleNamespace(linalg=types.SimpleNamespace(cossin=cossin))

    def compute_gates(g1, g2):
        d, v, w = saved["_compute_gates"](g1, g2)
        rec.append(("demux", np.array(g1), np.array(g2), np.array(d), np.array(v), np.array(w)))
        return d, v, w

    def unitary_(gate_list, n_qubits, decomposition="qsd"):
        rec.append(("_unitary", sys._getframe(1).f_code.co_name, [np.array(g) for g in gate_list], gate_list))
        return saved["_unitary"](gate_list, n_qubits, decomposition)

    def apply_a2(circ):
        rec.append(("a2",))
        if disable_a2:
            from qiskit.exceptions import QiskitError
            raise QiskitError("A.2 disabled by the harness (diagnosis)")
        try:
            return saved["_apply_a2"](circ)
        except Exception as e:  # re-raised: the fallback in unitary() must see it
            rec.append(("a2-raised", type(e).__name__))
            raise

    def row_col(col, n_qubits, row):
        rec.append(("rowcol", row, col, n_qubits))
        return saved["_row_and_col_qubits"](col, n_qubits, row)

    qu.sp = shim
    qu._compute_gates = compute_gates
    qu._unitary = unitary_
    qu._apply_a2 = apply_a2
    qu._row_and_col_qubits = row_col
    try:
        yield qu
    finally:
        for k, v in saved.items():
            setattr(qu, k, v)


def kernel_spec_errors(rec):
    """max deviation of the kernels' specifications over the recorded calls."""
    import numpy as np
    cs_err = eig_err = 0.0
    for r in rec:
        if r[0] == "cossin":
            _, _, x, u, theta, vdh, _ = r
            h = len(theta)
            c, s = np.diag(np.cos(theta)), np.diag(np.sin(theta))
            mid = np.block([[c, -s], [s, c]])
            z = np.zeros((h, h))
            bu = np.block([[u[0], z], [z, u[1]]])
            bv = np.block([[vdh[0], z], [z, vdh[1]]])
            cs_err = max(cs_err, float(np.abs(bu @ mid @ bv - x).max()))
            for b in list(u) + list(vdh):
                cs_err = max(cs_err, float(np.abs(b.conj().T @ b - np.eye(h)).max()))
        elif r[0] == "demux":
            _, g1, g2, d, v, w = r
            k = len(d)
            eig_err = max(eig_err, float(np.abs(v.conj().T @ v - np.eye(k)).max()))
            eig_err = max(eig_err, float(np.abs(np.abs(d) - 1).max()))
            eig_err = max(eig_err, float(np.abs(v @ np.diag(d * d) @ v.conj().T - g1 @ g2.conj().T).max()))
            eig_err = max(eig_err, float(np.abs(v @ np.diag(d) @ w - g1).max()))
            eig_err = max(eig_err, float(np.abs(v @ np.diag(d.conj()) @ w - g2).max()))
    return cs_err, eig_err


# ---------------------------------------------------------------------------------------------------
# flattening for the tie
# ---------------------------------------------------------------------------------------------------

def shape_lines(circ):
    """library objects of a build_unitary circuit: arrays dropped, angle vectors kept."""
    from flatten import flatten
    import numpy as np
    out = []
    for name, qs, params in flatten(circ):
        w = " ".join(str(q) for q in qs)
        if name == "unitary":
            out.append(f"unitary {w} ;")
        elif name in ("ucrz", "ucry"):
            out.append(f"{name} {w} ; " + " ".join(repr(float(np.real(np.asarray(p).ravel()[0]))) for p in params))
        elif name == "multiplexer":
            out.append(f"ucg {w} ;")  # block count not compared: qiskit stores a simplified parameter list
        elif name in ("ry", "cz"):
            out.append(f"{name} {w} ; " + " ".join(repr(float(p)) for p in params))
        else:
            out.append(f"UNEXPECTED-{name} {w} ;")
    return out


def qr_lines(circ, wires=None, out=None):
    """x / mcx / mcmt list of a QR circuit (MCMT and the bare 2x2 UnitaryGate kept opaque)."""
    if out is None:
        out = []
    if wires is None:
        wires = list(range(circ.num_qubits))
    for inst in circ.data:
        op = inst.operation
        qs = [wires[circ.find_bit(q).index] for q in inst.qubits]
        w = " ".join(str(q) for q in qs)
        if op.name in ("mcmt", "unitary"):
            out.append(f"mcmt {w} ;")
        elif op.name == "x":
            out.append(f"x {w} ;")
        elif op.name in ("cx", "ccx", "mcx", "c3x", "c4x", "mcx_gray"):
            cs = getattr(op, "ctrl_state", None)
            nc = getattr(op, "num_ctrl_qubits", 0)
            out.append(f"mcx {w} ;" if cs is None or cs == (1 << nc) - 1 else f"mcx[{cs}] {w} ;")
        elif op.definition is not None:
            qr_lines(op.definition, qs, out)
        else:
            out.append(f"UNEXPECTED-{op.name} {w} ;")
    return out


def tape_of(rec):
    import numpy as np
    tape = []
    for r in rec:
        if r[0] == "cossin":
            tape.append([float(t) for t in r[4]])
        elif r[0] == "demux":
            tape.append([float(t) for t in np.angle(r[3])])
    return tape


def interleave(m):
    import numpy as np
    m = np.asarray(m, dtype=complex)
    return [[float(v) for z in row for v in (z.real, z.imag)] for row in m]


def compare(op, impl, model):
    if op["op"] == "negright":
        return framework.diff_lines(impl, model, tol=1e-12)
    return framework.diff_lines(impl, model, tol=1e-9)


# ---------------------------------------------------------------------------------------------------
# tie
# ---------------------------------------------------------------------------------------------------

def tie_build(ctx, n, dec, iso, family, seed, with_blocks):
    import numpy as np
    rec = []
    u = make_unitary(family, n, seed)
    try:
        with instrumented(rec) as qu:
            circ = qu.build_unitary(u, dec, iso)
    except Exception as e:  # noqa: BLE001  qclib raised on a valid unitary
        ctx.fail(f"unitary-raises:{dec}:build:iso={iso}:n={n}:{family}", f"build_unitary raised {type(e).__name__}: {e}",
                 replay_dict(("unitary", n, family, seed, dec, iso, False)))
        return
    ctx.tie({"op": "build", "n": n, "dec": dec, "iso": iso, "tape": tape_of(rec), "family": family, "seed": seed},
            shape_lines(circ) + ["tape-left 0 ;"], label=f"build n={n} {dec} iso={iso} {family}")
    ctx.count(f"build:{dec}:iso{min(iso, 1)}")
    # A.1: what build_unitary hands to _unitary as right_gates[1] vs the cossin output
    cs_calls = [r for r in rec if r[0] == "cossin"]
    by_id = {}
    for r in cs_calls:
        for side, blocks, live in (("u", r[3], r[6]),):
            for idx, (copy, obj) in enumerate(zip(blocks, live)):
                by_id[id(obj)] = (r[1], idx, copy, len(r[4]))
    keep = [r for r in rec if r[0] == "_unitary"]
    n_flip = 0
    for r in keep:
        _, caller, passed, live = r
        for idx, (p, obj) in enumerate(zip(passed, live)):
            if id(obj) not in by_id:
                continue
            cs_caller, cs_idx, orig, ntheta = by_id[id(obj)]
            flipped = cs_caller == "build_unitary" and caller == "build_unitary" and cs_idx == 1
            h = ntheta // 2 if flipped else orig.shape[1]
            if flipped:
                n_flip += 1
            if with_blocks or flipped:
                ctx.tie({"op": "negright", "h": 2 * h, "rows": interleave(orig)},
                        ["row ; " + " ".join(repr(v) for v in row) for row in interleave(p)],
                        label=f"A.1 block n={n} {dec} iso={iso} {family} caller={caller} idx={idx} flipped={flipped}")
    want = sum(1 for r in cs_calls if r[1] == "build_unitary")
    if n_flip != want:
        ctx.obligation_broken("A.1 sign flip observed once per build_unitary cossin call",
                              f"n={n} {dec} iso={iso} {family}: {n_flip} flips for {want} calls")


def two_level(n, row, col):
    import numpy as np
    m = np.eye(2 ** n, dtype=complex)
    a, b = 0.6, 0.8j
    m[col, col], m[col, row], m[row, col], m[row, row] = np.conj(a), np.conj(b), b, -a
    return m


def tie_qr(ctx, nmax):
    import numpy as np
    import qclib.unitary as qu
    for n in range(1, nmax + 1):
        for row in range(2 ** n):
            for col in range(row):
                try:
                    circ = qu._build_qr_circuit(np.array([two_level(n, row, col).conj().T]), n)
                except Exception as e:  # noqa: BLE001
                    ctx.fail(f"qr-rotation-raises:n={n}:row={row}:col={col}", f"_build_qr_circuit raised {type(e).__name__}: {e}",
                             {"call": f"qclib.unitary._build_qr_circuit([two-level rotation between {row} and {col}], {n})"})
                    continue
                ctx.tie({"op": "qr", "n": n, "pairs": [[row, col]]}, qr_lines(circ), label=f"qr n={n} row={row} col={col}")
                cq, nd, rq = qu._row_and_col_qubits(col, n, row)
                ctx.tie({"op": "bits", "n": n, "row": row, "col": col},
                        ["bits " + " ".join(str(int(v)) for v in list(cq) + [nd] + list(rq)) + " ;"])
                ctx.count(f"qr-rot:n{n}:d{nd}")
    # whole circuits: the (row, col) sequence the real sweep visits
    for n in range(1, min(nmax, 3) + 1):
        rec = []
        seed = ctx.rng.getrandbits(32)
        u = make_unitary("haar", n, seed)
        try:
            with instrumented(rec) as q2:
                circ = q2.build_unitary(u, "qr")
        except Exception as e:  # noqa: BLE001
            ctx.fail(f"unitary-raises:qr:build:n={n}:haar", f"build_unitary(U, 'qr') raised {type(e).__name__}: {e}",
                     replay_dict(("unitary", n, "haar", seed, "qr", 0, False)))
            continue
        pairs = [[r[1], r[2]] for r in rec if r[0] == "rowcol"]
        ctx.tie({"op": "qr", "n": n, "pairs": pairs}, qr_lines(circ), label=f"qr whole n={n}")


QR_LOCATE_DRIVER = "Drivers/C02QR.lean"


def tie_qr_locate(ctx):
    """`_get_row_col` (which two levels does a factor of the Givens sequence act on?) against the executable model
    Model/QrLocate.lean: only the class of an entry matters to the search (== 0, == 1, anything else), so the matrix is sent as
    class codes 0 / 1 / 2.  Cases: every two-level rotation (generic element, element exactly 1, element exactly 0), the residual
    diag(1, .., 1, phase) alone (F-C02-4: located at the last two levels by default) and with a rounding-noise entry at every
    position below the diagonal, and random code matrices.  Model line: `row col`."""
    import numpy as np
    from unittest import mock
    import qclib.unitary as qu
    val = {0: 0.0, 1: 1.0, 2: 0.3 + 0.4j}
    r = ctx.rng

    def one(n, codes, label):
        N = 2 ** n
        m = np.array([[val[c] for c in rw] for rw in codes], dtype=complex)
        seen = []
        orig = qu._row_and_col_qubits

        def spy(col, n_qubits, row):
            seen.append((int(row), int(col)))
            return orig(col, n_qubits, row)
        try:
            with mock.patch.object(qu, "_row_and_col_qubits", spy):
                blk = qu._get_row_col(m, n)[0]
            row, col = seen[-1]
            want = np.array([[m[col][col], m[col][row]], [m[row][col], m[row][row]]])
            lines = [f"{row} {col}"]
            if not np.array_equal(np.asarray(blk), want):
                lines.append("block-is-not-the-located-one")
        except Exception as e:  # noqa: BLE001
            lines = [f"raises {type(e).__name__}"]
        ctx.tie({"op": "locate", "N": N, "codes": codes}, lines, label=f"qr-locate {label} N={N}", driver=QR_LOCATE_DRIVER)
        ctx.count(f"qr-locate:{label}")

    def ident(N):
        return [[1 if i == j else 0 for j in range(N)] for i in range(N)]

    for n in (1, 2, 3):
        N = 2 ** n
        for row in range(N):
            for col in range(row):
                for b, nm in ((2, "generic"), (1, "element-exactly-1"), (0, "element-exactly-0")):
                    c = ident(N)
                    c[col][col], c[row][row] = (2, 2) if b == 2 else (0, 0) if b == 1 else (1, 2)
                    c[row][col] = c[col][row] = b
                    one(n, c, "rotation:" + nm)
        res = ident(N)
        res[N - 1][N - 1] = 2
        one(n, res, "residual-exact")
        one(n, ident(N), "identity")
        for row in range(N):
            for col in range(row):
                c = [rw[:] for rw in res]
                c[row][col] = 2
                one(n, c, "residual+noise:" + ("last-row" if row == N - 1 else "other-row"))
        for _ in range(20 if ctx.quick else 100):
            one(n, [[r.choice((0, 0, 1, 2)) for _ in range(N)] for _ in range(N)], "random-codes")


def run_tie(ctx):
    tie_qr_locate(ctx)
    nmax = 4 if ctx.quick else 5
    fams = ["haar", "identity", "real_orthogonal", "block_equal", "hadamard", "tensor", "diag_phases", "permutation"]
    for n in range(1, nmax + 1):
        for dec in ("qsd", "csd"):
            for iso in range(0, max(n, 1)):
                for fi, fam in enumerate(fams if n <= 4 else fams[:4]):
                    if iso > 0 and fi >= 3 and n >= 4:
                        continue
                    tie_build(ctx, n, dec, iso, fam, ctx.rng.getrandbits(32), with_blocks=(n <= 3 and fi == 0))
    for dec in ("qsd", "csd", "qr"):
        for a2 in (True, False):
            import numpy as np
            rec = []
            try:
                with instrumented(rec) as qu:
                    qu.unitary(make_unitary("haar", 3 if dec != "qr" else 2, 7), dec, 0, a2)
            except Exception:  # noqa: BLE001  (reported by the oracle sweep with a replay)
                continue
            ctx.tie({"op": "a2", "dec": dec, "a2": a2}, [f"a2 {int(any(r[0] == 'a2' for r in rec))} ;"])
    tie_qr(ctx, 4 if ctx.quick else 5)


# ---------------------------------------------------------------------------------------------------
# oracle (process pool)
# ---------------------------------------------------------------------------------------------------

def job_key(job):
    _, n, fam, seed, dec, iso, a2 = job
    return f"unitary:{dec}:a2={int(a2)}:iso={iso}:n={n}:{fam}:{seed & 0xffff:x}"


def measure_plain(res, circ, rec, u, n, dec, iso):
    """Fill `res` with the property's observable of one synthesis: max |Operator(circ) - U| over the leading columns, the
    UCGate diagnosis on the csd failure path, the kernel specifications of the recorded calls and the A.2 decision."""
    import numpy as np
    from qiskit.quantum_info import Operator
    op = Operator(circ).data
    cols = 2 ** (n - iso) if dec != "qr" else 2 ** n
    res["err"] = float(np.abs(op[:, :cols] - u[:, :cols]).max())
    if dec == "csd" and res["err"] > TOL:
        # is qiskit's UCGate kernel the culprit?  (diagnosis on the failure path only)
        lists = [r[2] for r in rec if r[0] == "_unitary" and r[2][0].shape == (2, 2)]
        try:
            res["ucg_err"] = max([ucgate_error(bl) for bl in lists] or [0.0])
            fixed = operator_with_ideal_ucgates(circ, lists, n)
            res["err_ideal_ucg"] = float(np.abs(fixed[:, :cols] - u[:, :cols]).max())
        except Exception as e:  # noqa: BLE001
            res["ucg_diag_exc"] = f"{type(e).__name__}: {e}"
    res["cs_err"], res["eig_err"] = kernel_spec_errors(rec)
    res["a2_called"] = any(r[0] == "a2" for r in rec)
    res["a2_raised"] = any(r[0] == "a2-raised" for r in rec)
    res["n_cossin"] = sum(1 for r in rec if r[0] == "cossin")
    res["n_demux"] = sum(1 for r in rec if r[0] == "demux")


def run_job(job, disable_a2=False):
    """('unitary', n, family, seed, dec, iso, a2) -> result dict (never raises)."""
    sys.setrecursionlimit(10000)
    try:
        import numpy as np
        from qiskit.quantum_info import Operator
        _, n, fam, seed, dec, iso, a2 = job
        u = make_unitary(fam, n, seed)
        if dec == "qr" and np.abs(u).min() < 1e-6:
            return {"skipped": "zero entry"}
        rec = []
        res = {"job": list(job)}
        try:
            with instrumented(rec, disable_a2) as qu:
                circ = qu.unitary(u.copy(), dec, iso, a2)
        except BaseException as e:  # noqa: BLE001  qclib raised on a valid input (qiskit's Rust kernels panic with a BaseException)
            if isinstance(e, (KeyboardInterrupt, SystemExit, MemoryError)):
                raise
            import traceback
            res["raised"] = f"{type(e).__name__}: {str(e)[:300]}"
            res["tb"] = traceback.format_exc()[-1500:]
            return res
        measure_plain(res, circ, rec, u, n, dec, iso)
        return res
    except Exception:  # noqa: BLE001  harness trouble must not look like a violation
        import traceback
        return {"harness_exc": traceback.format_exc()[-1500:], "job": list(job)}


def job_weight(job):
    if isinstance(job, dict):      # input-diversity spec (div_eval)
        return 4 ** job["n"] * (40 if job["dec"] == "qr" else 1) * (3 if job.get("use", "plain") != "plain" else 1)
    return 4 ** job[1] * (40 if job[4] == "qr" else 1)


def run_any(job):
    """pool entry: structured-sweep tuples go to run_job, input-diversity specs (dicts) to div_eval."""
    try:
        return div_eval(job) if isinstance(job, dict) else run_job(job)
    except BaseException as e:  # noqa: BLE001  a Rust panic (pyo3 PanicException) cannot be pickled back to the parent
        if isinstance(e, (KeyboardInterrupt, SystemExit, MemoryError)):
            raise
        import traceback
        return {"harness_exc": f"{type(e).__name__} escaped the worker: " + traceback.format_exc()[-2500:],
                "job": job if isinstance(job, dict) else list(job)}


def run_jobs(jobs):
    if not jobs:
        return []
    import multiprocessing as mp
    from concurrent.futures import ProcessPoolExecutor
    workers = max(1, min(14, (os.cpu_count() or 2) - 1, len(jobs)))
    if workers == 1 or len(jobs) < 4:
        return [run_any(j) for j in jobs]
    for k in ("OMP_NUM_THREADS", "OPENBLAS_NUM_THREADS", "RAYON_NUM_THREADS", "MKL_NUM_THREADS"):
        os.environ[k] = "1"
    order = sorted(range(len(jobs)), key=lambda i: -job_weight(jobs[i]))
    with ProcessPoolExecutor(max_workers=workers, mp_context=mp.get_context("spawn")) as ex:
        res = list(ex.map(run_any, [jobs[i] for i in order], chunksize=1))
    out = [None] * len(jobs)
    for i, r in zip(order, res):
        out[i] = r
    return out


def replay_dict(job, extra=None):
    _, n, fam, seed, dec, iso, a2 = job
    d = {"call": "qclib.unitary.unitary(U, decomposition, iso, apply_a2)", "n": n, "family": fam, "seed": seed,
         "decomposition": dec, "iso": iso, "apply_a2": a2,
         "how": "U = tools/props/c02.py::make_unitary(family, n, seed); compare Operator(circuit)[:, :2^(n-iso)] with U"}
    if n <= 2:
        d["U"] = [[[float(z.real), float(z.imag)] for z in row] for row in make_unitary(fam, n, seed)]
    d.update(extra or {})
    return d


def classify_kernel(ctx, res, dec, a2, iso, n, tag, rerun_without_a2, rep):
    """The two recorded qiskit-kernel phenomena, for every caller (structured sweep, boundary and input-diversity cases):
    (1) a deviation <= 1e-4 on the qsd/A.2 path that vanishes when the run is repeated with qiskit's pass disabled
    (`rerun_without_a2()` -> result dict with 'err') is `unitary-a2-precision:...`; (2) a csd deviation that vanishes when
    every UCGate of the circuit is replaced by its ideal block-diagonal matrix while one of the UCGates deviates from its
    own block list (`ucg_err`, `err_ideal_ucg` of measure_plain) is `unitary-ucgate-kernel:...`.  True = classified (the
    failure was emitted under the known key); False = `res['err']` is something else (or fine)."""
    if res["err"] > TOL and dec == "qsd" and a2 and res["err"] <= 1e-4:
        # small loss only on the A.2 path?  re-run with qiskit's pass disabled (unitary() then takes its own fallback)
        res2 = rerun_without_a2()
        if res2.get("err", 1.0) <= TOL:
            defer_fail(ctx, f"unitary-a2-precision:iso={iso}:n={n}:{tag}",
                     f"precision loss on the A.2 path only (qiskit two-qubit re-synthesis): max |Operator - U| = {res['err']:.3e} "
                     f"with apply_a2=True, {res2['err']:.1e} with the pass disabled",
                     dict(rep, observed_err=res["err"], err_without_a2=res2["err"]))
            return True
    if res["err"] > TOL and dec == "csd" and res.get("ucg_err", 0.0) > TOL and res.get("err_ideal_ucg", 1.0) <= TOL:
        ctx.fail(f"unitary-ucgate-kernel:iso={iso}:n={n}:{tag}",
                 f"qiskit UCGate kernel synthesises a wrong operator: a UCGate of this circuit deviates by {res['ucg_err']:.3e} from "
                 f"its block-diagonal matrix; max |Operator - U| = {res['err']:.3e}, but {res['err_ideal_ucg']:.1e} when every UCGate is "
                 "replaced by its ideal matrix", dict(rep, observed_err=res["err"], ucgate_err=res["ucg_err"]))
        return True
    return False


def judge(ctx, job, res):
    key = job_key(job)
    _, n, fam, seed, dec, iso, a2 = job
    if res is None or "harness_exc" in res:
        raise RuntimeError("harness exception in oracle job %r: %s" % (job, (res or {}).get("harness_exc")))
    if "skipped" in res:
        ctx.count("qr-skipped-zero-entry")
        return
    ctx.count(f"oracle:{dec}")
    if "raised" in res:
        ctx.fail(f"unitary-raises:{dec}:a2={int(a2)}:iso={iso}:n={n}:{fam}", "qclib raised on a valid unitary: " + res["raised"],
                 replay_dict(job, {"traceback": res.get("tb")}))
        return
    if dec != "qr":
        ctx.assumption_checks += res["n_cossin"] + res["n_demux"]
        if res["cs_err"] > 1e-8:
            ctx.fail(f"assumption:cossin-spec:n={n}:{fam}", f"scipy cossin specification violated by {res['cs_err']:.2e}",
                     replay_dict(job), kind="assumption")
        if res["eig_err"] > 1e-6:
            ctx.fail(f"assumption:demux-spec:n={n}:{fam}",
                     f"_compute_gates: V unitary / V d^2 V^dagger = U1 U2^dagger / V D W = U1 violated by {res['eig_err']:.2e}",
                     replay_dict(job), kind="assumption")
    if res["a2_raised"]:
        ctx.count("a2-fallback-taken")
    if res["a2_called"] != (dec == "qsd" and a2):
        ctx.fail(f"a2-decision:{dec}:a2={int(a2)}", f"_apply_a2 called={res['a2_called']}", replay_dict(job))
    if classify_kernel(ctx, res, dec, a2, iso, n, fam, lambda: run_job(job, disable_a2=True), replay_dict(job)):
        return
    if res["err"] > TOL:
        ctx.fail(key, f"max |Operator(circuit) - U| over the leading {2 ** (n - iso) if dec != 'qr' else 2 ** n} columns = {res['err']:.3e}",
                 replay_dict(job, {"observed_err": res["err"]}))
    else:
        ctx.ok(key, nontrivial=n >= 2, sample={"n": n, "family": fam, "dec": dec, "iso": iso, "a2": a2, "err": res["err"]})


def oracle_jobs(ctx, nmax, qr_nmax, reps):
    jobs = []
    for n in range(1, nmax + 1):
        for fam in FAMILIES:
            rr = reps if fam in ("haar", "real_orthogonal", "tensor", "block_equal", "block_diff", "permutation", "diag_phases",
                                 "tensor_id", "diag_pm1") else 1
            if n >= 5:
                rr = 1
            for _ in range(rr):
                seed = ctx.rng.getrandbits(32)
                for iso in range(0, n):
                    if n >= 5 and iso not in (0, 1, n - 1) and fam not in ("haar", "hadamard", "block_equal"):
                        continue
                    jobs.append(("unitary", n, fam, seed, "qsd", iso, True))
                    jobs.append(("unitary", n, fam, seed, "qsd", iso, False))
                    jobs.append(("unitary", n, fam, seed, "csd", iso, False))
    for n in range(1, qr_nmax + 1):
        for fam in QR_FAMILIES:
            for _ in range(reps if n < qr_nmax else 1):
                jobs.append(("unitary", n, fam, ctx.rng.getrandbits(32), "qr", 0, False))
    return jobs


def boundary_jobs(ctx):
    """Inputs next to the float thresholds of the anchored sources (the size / option boundaries - n = 1, 2 without recursion, n = 3
    first recursion, every iso in 0..n-1, csd leaf at 2x2 blocks, QR n = 1 - are AT and one off in oracle_jobs already)."""
    jobs = []
    for n in (2, 3, 4):
        for eps in (1e-9, 1e-7, 1e-5, 1e-3):
            seed = ctx.rng.getrandbits(32)
            fam = f"block_near_equal@{eps:g}"
            for iso in ((0,) if n < 3 else (0, 1)):
                jobs.append(("unitary", n, fam, seed, "qsd", iso, True))
                jobs.append(("unitary", n, fam, seed, "qsd", iso, False))
                jobs.append(("unitary", n, fam, seed, "csd", iso, False))
            ctx.count(f"boundary:demux-eigenvalue-cluster-width:{eps:g}")
    for n in (3, 4):
        for t in (3e-9, 3e-8, 1e-6):
            seed = ctx.rng.getrandbits(32)
            fam = f"cs_tiny@{t:g}"
            jobs.append(("unitary", n, fam, seed, "qsd", 0, True))
            jobs.append(("unitary", n, fam, seed, "qsd", 1, False))
            jobs.append(("unitary", n, fam, seed, "csd", 0, False))
            ctx.count(f"boundary:ucr-angle-vs-1e-8:{t:g}")
    for n in (2, 3):
        for e in (3e-6, 1e-4):
            jobs.append(("unitary", n, f"tiny_entry@{e:g}", ctx.rng.getrandbits(32), "qr", 0, False))
            ctx.count(f"boundary:qr-smallest-entry:{e:g}")
    for n in (2, 3):
        for t in (4e-3, 1e-3, 1e-4, 1e-6):
            jobs.append(("unitary", n, f"small_pivot@{t:g}", ctx.rng.getrandbits(32), "qr", 0, False))
            jobs.append(("unitary", n, f"small_pivot@{t:g}", ctx.rng.getrandbits(32), "qsd", 0, True))
            ctx.count(f"boundary:qr-rotation-element-vs-1:{t:g}")
    return jobs


def probe_qr_exact(ctx):
    """Regression probe of F-C02-4: unitaries without zero entries whose Givens sweep is exact in floating point, so that the
    residual is exactly diag(1, .., 1, phase) with nothing below the diagonal (the code used to find the residual's levels only
    through rounding noise and raised UnboundLocalError here)."""
    import numpy as np
    from qiskit.quantum_info import Operator
    import qclib.unitary as qu
    a = np.array([[1 + 1j, 1 + 1j], [1 + 1j, -1 - 1j]]) / 2
    b = np.array([[3, 4], [4, -3]]) / 5
    c = np.array([[0.6, 0.8j], [0.8j, 0.6]])
    mats = {"(1+i)H/sqrt2": a, "3-4-5": b, "i*3-4-5": 1j * b, "0.6,0.8i": c, "kron(a,a)": np.kron(a, a), "kron(b,a)": np.kron(b, a),
            "kron(c,b)": np.kron(c, b), "kron(a,b,c)": np.kron(np.kron(a, b), c)}
    for name, u in mats.items():
        n = int(round(math.log2(len(u))))
        key = f"unitary-qr:exactly-representable:n={n}:{name}"
        rep = {"call": "qclib.unitary.unitary(U, 'qr')", "U": [[[float(z.real), float(z.imag)] for z in row] for row in u], "name": name}
        ctx.count("boundary:qr-residual-exactly-diagonal")
        try:
            err = float(np.abs(Operator(qu.unitary(np.array(u, dtype=complex), "qr")).data - u).max())
        except Exception as e:  # noqa: BLE001
            ctx.fail(f"unitary-raises:qr:residual-exactly-diagonal:n={n}:{name}", f"unitary(U, 'qr') raised {type(e).__name__}: {e}", rep)
            continue
        if err > TOL:
            ctx.fail(key, f"max |Operator - U| = {err:.3e}", rep)
        else:
            ctx.ok(key, nontrivial=n >= 2)


def probe_findings(ctx):
    probe_qr_exact(ctx)
    """Concrete inputs of recorded findings, probed on every run (F-C02-1 fixed: one-qubit QR; the A.2 precision loss)."""
    jobs = [("unitary", 1, "haar", 11, "qr", 0, False), ("unitary", 1, "real_orthogonal", 12, "qr", 0, False),
            ("unitary", 2, "near_special_zz", 0, "qsd", 0, True), ("unitary", 3, "near_special_zz", 0, "qsd", 0, True),
            ("unitary", 2, "near_special_zz", 0, "qsd", 0, False), ("unitary", 2, "near_special_zz", 0, "csd", 0, False)]
    for job in jobs:
        judge(ctx, job, run_job(job))
    # known kernel finding: qiskit UCGate on eight exactly-unitary blocks, and its natural occurrence unitary(DFT_64, 'csd')
    ctx.assumption_checks += 1
    blocks = [[[complex(*b[0]), complex(*b[1])], [complex(*b[2]), complex(*b[3])]] for b in UCG_BAD_BLOCKS]
    e = ucgate_error(blocks)
    if e > TOL:
        ctx.fail("assumption:qiskit-ucgate:8-blocks", f"Operator(UCGate(blocks)) deviates from blockdiag(blocks) by {e:.3e} "
                 "(blocks unitary to 1e-15)", {"call": "qiskit.circuit.library.UCGate(UCG_BAD_BLOCKS of tools/props/c02.py)"},
                 kind="assumption")
    else:
        ctx.ok("assumption:qiskit-ucgate:8-blocks", nontrivial=False)
    job = ("unitary", 6, "qft", 0, "csd", 0, False)
    judge(ctx, job, run_job(job))
    probe_validation_and_fallback(ctx)


def probe_validation_and_fallback(ctx):
    """Regression probes of the fix: commits — unitary() validates its input (7594978) and falls back to the
    unoptimised circuit when qiskit's A.2 pass raises QiskitError (c5b2ace)."""
    import numpy as np
    import qclib.unitary as qu
    import qclib.isometry as qi
    from qiskit.quantum_info import Operator
    u8 = make_unitary("haar", 3, 99)
    bad = {"scaled-8x8": 2 * u8, "non-square": u8[:, :4], "6x6": np.eye(6), "non-unitary-4x4": np.triu(np.ones((4, 4))),
           "vector": u8[:, 0]}
    for name, m in bad.items():
        for dec in ("qsd", "csd"):
            key = f"unitary-accepts-invalid:{name}:{dec}"
            try:
                qu.unitary(m, dec)
            except ValueError:
                ctx.ok(key, nontrivial=False)
            except Exception as e:  # noqa: BLE001
                ctx.fail(key, f"raised {type(e).__name__} instead of ValueError: {e}", {"call": f"unitary({name}, {dec!r})"})
            else:
                ctx.fail(key, "unitary() returned a circuit for an invalid matrix", {"call": f"unitary({name}, {dec!r})"})
    # the input on which qiskit's _apply_a2 raises QiskitError: extension of 2 Hadamard columns, iso mode
    h3 = make_unitary("hadamard", 3, 0)[:, :2]
    ext = qi._extend_to_unitary(h3.astype(complex), 3, 1)
    rec = []
    key = "unitary-a2-fallback:hadamard3-iso2"
    try:
        with instrumented(rec) as q:
            circ = q.unitary(ext, "qsd", 2, True)
        err = float(np.abs(Operator(circ).data[:, :2] - h3).max())
        ctx.count("a2-raised-on-probe" if any(r[0] == "a2-raised" for r in rec) else "a2-ok-on-probe")
        if err > TOL:
            ctx.fail(key, f"leading columns off by {err:.2e}", {"call": "unitary(extend(H3[:, :2]), 'qsd', 2, True)"})
        else:
            ctx.ok(key)
    except Exception as e:  # noqa: BLE001
        ctx.fail(key, f"unitary() raised {type(e).__name__}: {e} (no fallback to the unoptimised circuit)",
                 {"call": "unitary(qclib.isometry._extend_to_unitary(H3[:, :2], 3, 1), 'qsd', 2, True)"})


# ---------------------------------------------------------------------------------------------------
# branch coverage of the anchored sources (tools/branch_audit.py C02)
# ---------------------------------------------------------------------------------------------------

UNREACHED_JUSTIFIED = {
    "qclib/unitary.py:cnot_count,_cnot_count_estimate,_cnot_count_iso,_cnot_count_iso_qsd": "CNOT counts of the synthesis: property C10",
    "qclib/unitary.py:381->416": "dead: _apply_mcxs is only called while n_diff > 1, so some bit differs and the loop always leaves through a break (C02_qr_gray proves the walk never fails)",
    "qclib/gates/ucr.py:75-76": "last_control=True: unitary.py always passes last_control=False (the CZ is absorbed, optimisation A.1); the True side belongs to C13 / C01",
}


def probe_call_forms(ctx):
    """The same matrices handed over in the other admissible forms: no optional argument at all (defaults qsd / iso 0 /
    A.2 on), keyword arguments, a nested list instead of an ndarray (unitary() itself starts with np.asarray), a real
    dtype.  One narrow key per form x decomposition."""
    import numpy as np
    from qiskit.quantum_info import Operator
    forms = []
    for n in (1, 2, 3):
        for fam in ("haar", "real_orthogonal", "hadamard", "permutation", "block_equal"):
            seed = ctx.rng.getrandbits(32)
            u = make_unitary(fam, n, seed)
            forms.append((n, fam, seed, "defaults", "qsd", 0, lambda q, u=u: q.unitary(u.copy())))
            forms.append((n, fam, seed, "build-defaults", "qsd", 0, lambda q, u=u: q.build_unitary(u.copy())))
            forms.append((n, fam, seed, "keywords", "csd", 0,
                          lambda q, u=u: q.unitary(gate=u.copy(), decomposition="csd", iso=0, apply_a2=False)))
            iso = n - 1
            forms.append((n, fam, seed, "list", "qsd", iso, lambda q, u=u, iso=iso: q.unitary(u.tolist(), "qsd", iso, True)))
            forms.append((n, fam, seed, "list", "csd", 0, lambda q, u=u: q.unitary(u.tolist(), "csd")))
            if np.abs(u.imag).max() == 0:
                ur = np.real(u).copy()
                forms.append((n, fam, seed, "real-dtype", "qsd", 0, lambda q, ur=ur: q.unitary(ur.copy(), "qsd")))
                forms.append((n, fam, seed, "real-dtype", "csd", iso, lambda q, ur=ur, iso=iso: q.unitary(ur.copy(), "csd", iso)))
                if np.abs(u).min() > 1e-6:
                    forms.append((n, fam, seed, "real-dtype", "qr", 0, lambda q, ur=ur: q.unitary(ur.copy(), "qr")))
                    forms.append((n, fam, seed, "list", "qr", 0, lambda q, ur=ur: q.unitary(ur.tolist(), "qr")))
    seen_fail = set()
    for n, fam, seed, form, dec, iso, call in forms:
        ctx.count(f"branch:call-form:{form}:{dec}")
        key = f"unitary-form:{form}:{dec}:iso={iso}:n={n}:{fam}"
        rep = {"call": f"qclib.unitary.unitary / build_unitary, form {form!r}", "n": n, "family": fam, "seed": seed,
               "decomposition": dec, "iso": iso, "form": form,
               "how": "U = tools/props/c02.py::make_unitary(family, n, seed); see probe_call_forms"}
        u = make_unitary(fam, n, seed)
        rec = []
        try:
            with instrumented(rec) as q:
                circ = call(q)
        except Exception as e:  # noqa: BLE001  qclib raised on a valid unitary
            k2 = f"unitary-raises:{dec}:{form}-input"
            if k2 not in seen_fail:       # one report per form x decomposition
                seen_fail.add(k2)
                ctx.fail(k2, f"qclib raised on a valid unitary given as {form} (n={n}, {fam}): {type(e).__name__}: {e}", rep)
            continue
        cols = 2 ** (n - iso) if dec != "qr" else 2 ** n
        err = float(np.abs(Operator(circ).data[:, :cols] - u[:, :cols]).max())
        a2_called = any(r[0] == "a2" for r in rec)
        if form == "defaults" and not a2_called:
            ctx.fail(key + ":a2", "unitary(U) with no optional argument did not run the A.2 pass (documented default apply_a2=True, "
                                  "decomposition='qsd')", rep)
        elif form == "build-defaults" and n >= 3 and not any(r[0] == "demux" for r in rec):
            ctx.fail(key + ":dec", "build_unitary(U) with no optional argument did not take the qsd recursion", rep)
        elif err > TOL:
            ctx.fail(key, f"max |Operator(circuit) - U| over the leading {cols} columns = {err:.3e}", rep)
        else:
            ctx.ok(key, nontrivial=n >= 2, sample={"n": n, "family": fam, "dec": dec, "iso": iso, "form": form, "err": err})


# ---------------------------------------------------------------------------------------------------
# input-diversity pass: the FORM of otherwise ordinary inputs (element types, scale / phase structure, call forms, sizes)
# ---------------------------------------------------------------------------------------------------
#
# form x entry point -> where generated                                         (U = unitary(), B = build_unitary(), R = ucr())
#
#  1 element types
#    nested Python list of ints / floats / complex, mixed int+complex .... U   div_specs_etypes: etype list, mixedlist
#    tuple of tuples, list of 1-D numpy rows, list of lists of numpy scalars U   etype tuple, rows, npscalars
#    int64 ndarray (permutation, +-1 diagonal, CNOT, SWAP, X(x)I, [[0,-1],[1,0]](x)I) U, B   etype int64 (B: call build-*)
#    float64 REAL dtype (orthogonal, Hadamard-type, -H, det = -1) ............ U, B   etype f64 (qsd / csd / qr)
#    float16 / float32 / complex64 (exactly representable ones at 1e-7 at every n / decomposition / iso / A.2 - unitary()
#    promotes them to double; inexact ones by the reduced-precision rule) ... U   etype f16, f32, c64
#    complex128 with exactly zero imaginary parts ........................... U   every real matrix in etype c128
#    negative zeros (-0.0 entries, (-0.0-0.0j)) ............................. U   etype negzero-f64, negzero-c128
#    np.matrix, Fortran order, read-only array, strided view ................ U   etype npmatrix, fortran, readonly, strided
#    caller's object untouched afterwards (bytes, dtype, element types) ..... U, R every case (fingerprint before / after)
#    angle lists: Python ints, tuple, int64 / float32 / float64 ndarray, lists of numpy scalars (as unitary.py's
#    `list(2 * theta)`, also float32 scalars as a complex64 matrix produces) R   div_ucr_specs
#  2 scale structure
#    exp(i eps H), P exp(i eps H) for eps = 1e-3 .. 1e-6 .................... U   matrix near_id@eps, near_perm@eps
#    one non-trivial block (top-left / bottom-right), U (+) I on one sub-tree U   block_tl, block_br, subtree
#    all-equal moduli (DFT, Hadamard, complex Hadamard) ..................... U   dft, hadamard, complex_hadamard
#    exactly repeated entries / eigenvalues (repair branch of _compute_gates) U   rep_eig, tensor_h_lsb, hadamard
#    sparse monomial matrices (permutation x phases) ........................ U   monomial, monomial_pmi, perm, yz
#  3 sign / phase structure
#    global phase -1, i, -i, e^{it} times every structured family ........... U   phase tag of every spec
#    per-entry phases exactly +-1, +-i; negative real entries, zero imag .... U   pm1, s_diag, yz, monomial_pmi, phase -1 on ints
#    CS angles exactly 0 / pi/4 / pi/2 / mixed, det = -1 real orthogonal .... U   cs@0, cs@pi4, anti_block, iy_top, cs@mixed, real_det_m1
#    angles >= 2pi, <= -2pi, exactly +-2pi, +-4pi, Walsh partial sums 0 / 2pi R   div_ucr_specs (rotations are 4pi-periodic)
#  4 call forms
#    decomposition / iso / apply_a2 positional, keyword, keyword in reverse order, mixed, only the non-default ones,
#    every (dec, iso, a2) at n = 2, 3 ........................................ U, B div_specs_calls
#    r_gate / angles / c_gate / last_control positional, keyword, defaults .. R   div_ucr_specs
#    result via to_gate / to_instruction / compose / append on a permuted non-contiguous qubit list of a larger host
#    (int indices, Qubit objects, register in a multi-register host), the same gate object appended twice, copy() then
#    both used, inverse() (= U^dagger), same matrix object synthesised twice  U   div_specs_uses
#  5 sizes: n = 1, 2 (no recursion), 3 (first recursion) for every form, n = 4 once per form family; k = 0..3 for R
#
# Tie: every plain-use case with decomposition qsd / csd registers the recursion shape of the circuit build_unitary returned
# for the converted input (`build` op: wires, 2 theta through ucr, -2 arg d, kernel-call count) and the A.2 decision (`a2`
# op); whole QR circuits are tied through the recorded (row, col) sequence (`qr` op); direct ucr calls are tied gate by
# gate through the C13 driver (Model/Ucr.lean is the model Model/Unitary.lean itself uses).  Element type, call form,
# host placement, inverse and input preservation are outside the model: oracle only.
#
# Oracle rules: semantically identical forms -> 1e-7 on the operator (global phase included), routed through
# classify_kernel first (A.2 precision / UCGate kernel land on their recorded keys).  float16 / float32 / complex64: the value
# handed in is the up-cast array; when that is exactly unitary (entries 0, +-1, +-0.5, +-0.25, +-i ...) it is an ordinary valid
# input at every n and decomposition (unitary() promotes reduced-precision matrices to double): 1e-7 rule, a rejection or any
# exception is a failure `unitary-raises:...:div:...:<etype>:...`.  Otherwise (rounded entries: the up-cast matrix is not
# unitary to ~1e-7 / ~1e-3) ValueError (unitary()'s documented rejection; also a qiskit constructor's "not unitary" verdict on a
# factor of it) or an error <= 1e-5 is accepted, anything above 1e-3 and every other exception type is a failure.

DIV_INT_MATS = ["perm", "pm1", "cnot", "swap", "x_top", "x_bot", "iy_top"]
DIV_ETYPES = ["c128", "list", "mixedlist", "tuple", "rows", "npscalars", "int64", "f64", "f16", "f32", "c64", "negzero-f64",
              "negzero-c128", "npmatrix", "fortran", "readonly", "strided"]
DIV_CONFIGS = [("qsd", True), ("qsd", False), ("csd", False)]
DIV_REDUCED = ("f16", "f32", "c64")


def div_matrix(name, n, seed):
    """complex128 unitary of the structured family `name` (parameter after '@')."""
    import numpy as np
    rng = np.random.default_rng(seed)
    dim = 2 ** n
    base, _, par = name.partition("@")
    x = np.array([[0, 1], [1, 0]], dtype=complex)
    y = np.array([[0, -1j], [1j, 0]])
    z = np.diag([1, -1]).astype(complex)
    h = np.array([[1, 1], [1, -1]], dtype=complex) / math.sqrt(2)
    eye = np.eye(dim, dtype=complex)

    def kron(ms):
        m = np.ones((1, 1), dtype=complex)
        for f in ms:
            m = np.kron(m, f)
        return m

    def perm():
        while True:
            p = rng.permutation(dim)
            if dim == 1 or any(p[i] != i for i in range(dim)):
                return eye[p]

    def blockdiag(a, b):
        m = np.zeros((dim, dim), dtype=complex)
        m[: len(a), : len(a)] = a
        m[len(a):, len(a):] = b
        return m

    def herm_exp(eps):
        g = rng.standard_normal((dim, dim)) + 1j * rng.standard_normal((dim, dim))
        w, v = np.linalg.eigh(g + g.conj().T)
        w = w / np.abs(w).max()
        return (v * np.exp(1j * eps * w)) @ v.conj().T

    if base == "perm":
        return perm()
    if base == "pm1":
        d = rng.choice([1.0, -1.0], dim)
        d[int(rng.integers(dim))] = -1.0
        return np.diag(d).astype(complex)
    if base == "cnot":
        return x if n == 1 else np.kron(np.eye(dim // 4), eye[:4, :4][[0, 3, 2, 1]])
    if base == "swap":
        return x if n == 1 else np.kron(np.eye(dim // 4), eye[:4, :4][[0, 2, 1, 3]])
    if base == "x_top":
        return np.kron(x, np.eye(dim // 2))
    if base == "x_bot":
        return np.kron(np.eye(dim // 2), x)
    if base == "iy_top":      # [[0,-1],[1,0]] (x) I: cosine-sine angles exactly pi/2, integer entries, one of them negative
        return np.kron(np.array([[0, -1], [1, 0]], dtype=complex), np.eye(dim // 2))
    if base == "s_diag":
        d = rng.choice(np.array([1, -1, 1j, -1j]), dim)
        d[int(rng.integers(dim))] = 1j
        return np.diag(d)
    if base == "yz":
        return kron([y if (q + seed) % 2 == 0 else z for q in range(n)])
    if base == "monomial":
        return perm() @ np.diag(np.exp(1j * rng.uniform(0, 2 * np.pi, dim)))
    if base == "monomial_pmi":
        return perm() @ np.diag(rng.choice(np.array([1, -1, 1j, -1j]), dim))
    if base == "hadamard":
        return kron([h] * n)
    if base == "complex_hadamard":
        return kron([np.array([[1, 1j], [1j, 1]]) / math.sqrt(2)] + [h] * (n - 1))
    if base == "dft":
        w = np.exp(2j * np.pi / dim)
        return np.array([[w ** (i * j) for j in range(dim)] for i in range(dim)]) / math.sqrt(dim)
    if base == "near_id":
        return herm_exp(float(par))
    if base == "near_perm":
        return perm() @ herm_exp(float(par))
    if base == "block_tl":
        return blockdiag(haar(rng, dim // 2), np.eye(dim // 2))
    if base == "block_br":
        return blockdiag(np.eye(dim // 2), haar(rng, dim // 2))
    if base == "subtree":
        return blockdiag(haar(rng, 2), np.eye(dim - 2)) if n > 1 else haar(rng, 2)
    if base == "rep_eig":
        return np.kron(haar(rng, dim // 2), np.eye(2))
    if base == "tensor_h_lsb":
        return np.kron(haar(rng, dim // 2), h)
    if base == "haar":
        return haar(rng, dim)
    if base == "real_orth":
        return haar_real(rng, dim).astype(complex)
    if base == "real_det_m1":
        q = haar_real(rng, dim)
        if np.linalg.det(q) > 0:
            q[:, 0] = -q[:, 0]
        return q.astype(complex)
    if base == "anti_block":   # [[0, -A], [B, 0]]: every cosine-sine angle exactly pi/2
        m = np.zeros((dim, dim), dtype=complex)
        m[: dim // 2, dim // 2:] = -haar(rng, dim // 2)
        m[dim // 2:, : dim // 2] = haar(rng, dim // 2)
        return m
    if base == "cs":
        d = dim // 2
        theta = {"0": np.zeros(d), "pi4": np.full(d, np.pi / 4), "pi2": np.full(d, np.pi / 2),
                 "mixed": rng.choice(np.array([0.0, np.pi / 4, np.pi / 2]), d)}[par]
        c, s = np.diag(np.cos(theta)), np.diag(np.sin(theta))
        mid = np.block([[c, -s], [s, c]]).astype(complex)
        if n == 1:
            return mid
        return blockdiag(haar(rng, d), haar(rng, d)) @ mid @ blockdiag(haar(rng, d), haar(rng, d))
    raise ValueError(name)


def div_phase(tag, seed):
    if tag == "e":
        import cmath
        return cmath.exp(1j * (0.3 + (seed % 997) / 997.0 * 5.5))
    return {"1": 1.0, "-1": -1.0, "i": 1j, "-i": -1j}[tag]


def div_cast(u, etype):
    """The matrix `u` (complex128) in element-type form `etype`; None when the form cannot hold it."""
    import numpy as np
    real = not np.any(u.imag != 0)
    integral = real and np.array_equal(u.real, np.round(u.real))
    if integral:
        nat = np.round(u.real).astype(np.int64)
    elif real:
        nat = u.real.copy()
    else:
        nat = u.copy()
    if etype == "c128":
        return u.copy()
    if etype == "list":
        return nat.tolist()
    if etype == "mixedlist":     # as a user types S or Y (x) Z: ints where the entry is an integer, complex elsewhere
        if real:
            return None
        return [[int(round(v.real)) if v.imag == 0 and v.real == round(v.real) else complex(v) for v in row] for row in u]
    if etype == "tuple":
        return tuple(tuple(r) for r in nat.tolist())
    if etype == "rows":
        return [np.array(r) for r in nat]
    if etype == "npscalars":
        return [[v for v in r] for r in nat]
    if etype == "int64":
        return nat if integral else None
    if etype == "f64":
        return u.real.copy() if real else None
    if etype == "f16":
        return u.real.astype(np.float16) if real else None
    if etype == "f32":
        return u.real.astype(np.float32) if real else None
    if etype == "c64":
        return u.astype(np.complex64)
    if etype == "negzero-f64":
        if not real:
            return None
        a = u.real.copy()
        a[a == 0] = -0.0
        return a if np.any(a == 0) else None
    if etype == "negzero-c128":
        re, im = u.real.copy(), u.imag.copy()
        re[re == 0] = -0.0
        im[im == 0] = -0.0
        a = np.empty(u.shape, dtype=complex)
        a.real, a.imag = re, im
        return a
    if etype == "npmatrix":
        import warnings
        with warnings.catch_warnings():
            warnings.simplefilter("ignore")
            return np.matrix(nat)
    if etype == "fortran":
        return np.asfortranarray(nat)
    if etype == "readonly":
        a = nat.copy()
        a.setflags(write=False)
        return a
    if etype == "strided":
        big = np.zeros((2 * len(u), 2 * len(u)), dtype=nat.dtype)
        big[::2, ::2] = nat
        return big[::2, ::2]
    raise ValueError(etype)


def div_fingerprint(obj):
    """bytes / dtype / element types of an input object (to detect that the library wrote into the caller's data)."""
    import numpy as np
    if isinstance(obj, np.ndarray):
        return ("nd", type(obj).__name__, str(obj.dtype), obj.shape, np.array(obj).tobytes())
    if isinstance(obj, (list, tuple)):
        return (type(obj).__name__,) + tuple(div_fingerprint(v) for v in obj)
    return (type(obj).__name__, repr(obj))


def div_input(s):
    """(ideal complex128 matrix = the value handed in, the object handed in, exact?) of a spec; None if not applicable."""
    import numpy as np
    u = div_matrix(s["matrix"], s["n"], s["seed"])
    ph = div_phase(s.get("phase", "1"), s["seed"])
    if ph != 1.0:
        u = u * ph
    u = u + 0.0                      # no negative zeros from the phase multiplication
    obj = div_cast(u, s["etype"])
    if obj is None:
        return None
    val = np.array(obj, dtype=complex)
    exact = bool(np.abs(val.conj().T @ val - np.eye(len(val))).max() < 1e-12)
    if s["etype"] not in DIV_REDUCED and not np.array_equal(val, u):
        raise RuntimeError("form %r does not hold the matrix exactly" % s["etype"])
    return val, obj, exact


def opt_form(v, form):
    """the option value `v` (canonical Python bool / int) in the form named: numpy.bool_, int 1 / 0, numpy integers"""
    import numpy as np
    if form is None or (form == "bool" and isinstance(v, bool)) or (form == "int" and type(v) is int):
        return v
    return {"bool": bool, "int": int, "np.bool_": np.bool_, "np.int64": np.int64, "np.int32": np.int32, "np.uint8": np.uint8}[form](v)


def div_call(qu, g, dec, iso, a2, call):
    import numpy as np
    if call == "pos":
        return qu.unitary(g, dec, iso, a2)
    if call == "kw":
        return qu.unitary(gate=g, decomposition=dec, iso=iso, apply_a2=a2)
    if call == "kw-rev":
        return qu.unitary(apply_a2=a2, iso=iso, decomposition=dec, gate=g)
    if call == "mixed":
        return qu.unitary(g, dec, apply_a2=a2, iso=iso)
    if call == "mixed2":
        return qu.unitary(g, dec, iso, apply_a2=a2)
    if call == "min":            # only the arguments that differ from the defaults, by keyword
        kw = {}
        if dec != "qsd":
            kw["decomposition"] = dec
        if iso:
            kw["iso"] = iso
        if not a2:
            kw["apply_a2"] = a2          # False in whatever form the case names (False / numpy.False_ / 0)
        return qu.unitary(g, **kw)
    if call == "build-pos":
        return qu.build_unitary(np.asarray(g), dec, iso)
    if call == "build-kw":
        return qu.build_unitary(gate=np.asarray(g), iso=iso, decomposition=dec)
    if call == "build-min":
        kw = {}
        if dec != "qsd":
            kw["decomposition"] = dec
        if iso:
            kw["iso"] = iso
        return qu.build_unitary(np.asarray(g), **kw)
    raise ValueError(call)


def div_embed(u, idx, hq):
    """u on host qubits idx (idx[k] carries bit k of u's index), identity on the other host qubits."""
    import numpy as np
    n = len(idx)
    out = np.zeros((2 ** hq, 2 ** hq), dtype=complex)
    mask = sum(1 << q for q in idx)
    for b in range(2 ** hq):
        j = sum(((b >> q) & 1) << k for k, q in enumerate(idx))
        rest = b & ~mask
        for jp in range(2 ** n):
            bp = rest | sum(((jp >> k) & 1) << q for k, q in enumerate(idx))
            out[bp, b] = u[jp, j]
    return out


def div_host(host, n, seed, second=False):
    """(QuantumCircuit, qargs as handed to qiskit, global indices) for host form `host`: hq = n + 3 qubits, the qubit list is
    permuted, non-ascending and non-contiguous."""
    import random
    from qiskit import QuantumCircuit, QuantumRegister
    hq = n + 3
    r = random.Random(seed * 7 + (13 if second else 0))
    while True:
        idx = r.sample(range(hq), n)
        if n == 1 or (idx != sorted(idx) and max(idx) - min(idx) >= n):
            break
    if host == "ints":
        return QuantumCircuit(hq), list(idx), idx
    if host == "qubits":
        qc = QuantumCircuit(QuantumRegister(2, "a"), QuantumRegister(hq - 2, "b"))
        return qc, [qc.qubits[i] for i in idx], idx
    if host == "regs":        # registers declared in another order than they are used; the target register in the middle
        t, anc, xx = QuantumRegister(n, "t"), QuantumRegister(2, "anc"), QuantumRegister(1, "x")
        qc = QuantumCircuit(anc, t, xx)
        if second:
            qargs = [xx[0], anc[1], t[0]][:n]
        else:
            qargs = list(t[::-1]) if seed % 2 else t
        return qc, qargs, [qc.find_bit(q).index for q in qargs]
    raise ValueError(host)


def div_use(circ, val, s):
    """(operator, ideal, column selector, to_gate refusals) of the way the returned circuit is used."""
    import numpy as np
    from qiskit.exceptions import QiskitError
    from qiskit.quantum_info import Operator
    n, iso, dec, use = s["n"], s["iso"], s["dec"], s.get("use", "plain")
    lead = 2 ** (n - iso) if dec != "qr" else 2 ** n
    if use == "plain":
        return Operator(circ).data, val, list(range(lead)), []
    if use == "inverse":
        return Operator(circ.inverse()).data, val.conj().T, list(range(2 ** n)), []
    host, qargs, idx = div_host(s["host"], n, s["seed"])
    hq = host.num_qubits
    ideal = div_embed(val, idx, hq)
    # build_unitary appends its sub-circuits with to_instruction() (the two-qubit leaf "qsd2q", the multiplexers) and the QR
    # circuit holds one appended as a plain circuit (_undo_mcxs): qiskit's to_gate() refuses such circuits from n = 3 on (all
    # of QR).  Not part of the property (operator equality): the refusal is counted and the Instruction used instead.
    refused = []

    def conv(c):
        try:
            return c.to_gate()
        except QiskitError as e:       # "... is not a gate instruction": recorded, the Instruction is used instead
            refused.append(str(e))
            return c.to_instruction()
    if use == "to_gate":
        host.append(conv(circ), qargs)
    elif use == "to_instruction":
        host.append(circ.to_instruction(), qargs)
    elif use == "compose":
        host = host.compose(circ, qargs)
    elif use == "compose-inplace":
        host.compose(circ, qargs, inplace=True)
    elif use == "append":
        host.append(circ, qargs)
    elif use == "inverse-on-host":
        host.append(conv(circ.inverse()), qargs)
        ideal = div_embed(val.conj().T, idx, hq)
    elif use in ("gate-twice", "copy-then-both"):
        _, qargs2, idx2 = div_host(s["host"], n, s["seed"], second=True)
        if s["host"] == "qubits":
            qargs2 = [host.qubits[i] for i in idx2]
        elif s["host"] == "regs":
            qargs2 = [host.qubits[i] for i in idx2]
        if use == "gate-twice":
            g = conv(circ)
            host.append(g, qargs)
            host.append(g, qargs2)
        else:
            c2 = circ.copy()
            host.append(conv(c2), qargs)
            host.append(circ.to_instruction(), qargs2)
        ideal = div_embed(val, idx2, hq) @ ideal
    else:
        raise ValueError(use)
    if use in ("gate-twice", "copy-then-both", "inverse-on-host") or iso == 0 or dec == "qr":
        cols = list(range(2 ** hq))
    else:
        cols = [b for b in range(2 ** hq) if sum(((b >> q) & 1) << k for k, q in enumerate(idx)) < lead]
    return Operator(host).data, ideal, cols, refused


def div_eval(s, disable_a2=False):
    """input-diversity spec -> result dict (never raises)."""
    sys.setrecursionlimit(10000)
    try:
        import numpy as np
        import warnings
        inp = div_input(s)
        if inp is None:
            return {"skipped": "form not applicable"}
        val, obj, exact = inp
        n, dec, iso, a2 = s["n"], s["dec"], s["iso"], s["a2"]
        before = div_fingerprint(obj)
        rec, top, depth = [], [], [0]
        res = {"spec": s, "exact": exact}
        try:
            with warnings.catch_warnings():
                warnings.simplefilter("ignore")
                with instrumented(rec, disable_a2) as qu:
                    orig = qu.build_unitary

                    def build_top(*a, **k):
                        depth[0] += 1
                        try:
                            c = orig(*a, **k)
                        finally:
                            depth[0] -= 1
                        if depth[0] == 0:
                            top.append(c)
                        return c
                    qu.build_unitary = build_top
                    # the options as handed over: apply_a2 / iso in the form the spec names (the judgement uses the canonical s["a2"], s["iso"])
                    a2_f, iso_f = opt_form(a2, s.get("a2form")), opt_form(iso, s.get("isoform"))
                    try:
                        circ = div_call(qu, obj, dec, iso_f, a2_f, s.get("call", "pos"))
                        rec1 = list(rec)
                        circ_again = div_call(qu, obj, dec, iso_f, a2_f, s.get("call", "pos")) if s.get("use") == "twice" else None
                    finally:
                        qu.build_unitary = orig
        except BaseException as e:  # noqa: BLE001  qclib raised (qiskit's Rust kernels panic with a BaseException)
            if isinstance(e, (KeyboardInterrupt, SystemExit, MemoryError)):
                raise
            import traceback
            res["raised"] = f"{type(e).__name__}: {str(e)[:400]}"
            res["exc_type"] = type(e).__name__
            res["tb"] = traceback.format_exc()[-800:]
            return res
        res["mutated"] = div_fingerprint(obj) != before
        try:
            measure_plain(res, circ, rec1, val, n, dec, iso)
        except BaseException as e:  # noqa: BLE001  a lazily built definition (qiskit UCGate / UnitaryGate) raised under Operator()
            if isinstance(e, (KeyboardInterrupt, SystemExit, MemoryError)):
                raise
            import traceback
            tb = traceback.format_exc()
            res["op_raised"] = f"{type(e).__name__}: {str(e)[:400]}"
            res["op_exc_type"] = type(e).__name__
            res["op_in_uc"] = "generalized_gates/uc.py" in tb
            res["tb"] = tb[-800:]
            blocks = [b for r in rec1 if r[0] == "_unitary" and r[2][0].shape == (2, 2) for b in r[2]]
            res["blocks_err"] = max([float(np.abs(b.conj().T @ b - np.eye(2)).max()) for b in blocks] or [0.0])
            return res
        use = s.get("use", "plain")
        if use == "twice":
            res2 = {}
            measure_plain(res2, circ_again, rec[len(rec1):], val, n, dec, iso)
            res["err_use"] = res2["err"]
        elif use != "plain":
            try:
                op, ideal, cols, refused = div_use(circ, val, s)
                res["err_use"] = float(np.abs(op[:, cols] - ideal[:, cols]).max())
                res["to_gate_refused"] = len(refused)
            except Exception as e:  # noqa: BLE001  qiskit refused the returned circuit in this use
                import traceback
                res["use_raised"] = f"{type(e).__name__}: {e}"
                res["use_exc_type"] = type(e).__name__
                res["tb"] = traceback.format_exc()[-800:]
        if s.get("tie") and top and not disable_a2:
            if dec == "qr":
                if n <= 3:
                    res["tie_op"] = {"op": "qr", "n": n, "pairs": [[r[1], r[2]] for r in rec1 if r[0] == "rowcol"]}
                    res["tie_lines"] = qr_lines(top[0])
            else:
                res["tie_op"] = {"op": "build", "n": n, "dec": dec, "iso": iso, "tape": tape_of(rec1)}
                res["tie_lines"] = shape_lines(top[0]) + ["tape-left 0 ;"]
        return res
    except Exception:  # noqa: BLE001  harness trouble must not look like a violation
        import traceback
        return {"harness_exc": traceback.format_exc()[-1500:], "spec": s}


def div_tag(s):
    return f"{s['matrix']}*{s.get('phase', '1')}:{s['etype']}:{s.get('call', 'pos')}:{s.get('use', 'plain')}" + \
        (f"@{s['host']}" if s.get("host") else "") + \
        (f":forms=apply_a2/{s.get('a2form') or 'bool'},iso/{s.get('isoform') or 'int'}" if (s.get("a2form") or s.get("isoform")) else "")


def div_replay(s):
    d = {"call": "qclib.unitary.unitary / build_unitary (input-diversity case)", "div": s, "n": s["n"], "decomposition": s["dec"],
         "iso": s["iso"], "apply_a2": s["a2"],
         "how": "tools/props/c02.py: val, obj, _ = div_input(spec); circ = div_call(qclib.unitary, obj, dec, iso, apply_a2, spec['call']); "
                "compare per div_use(circ, val, spec)"}
    if s["n"] <= 2:
        try:
            d["U"] = [[[float(v.real), float(v.imag)] for v in row] for row in div_input(s)[0]]
        except Exception:  # noqa: BLE001
            pass
    return d


def div_judge(ctx, s, res):
    if res is None or "harness_exc" in res:
        raise RuntimeError("harness exception in input-diversity case %r: %s" % (s, (res or {}).get("harness_exc")))
    if "skipped" in res:
        return
    n, dec, iso, a2 = s["n"], s["dec"], s["iso"], s["a2"]
    tag = div_tag(s)
    key = f"unitary-div:{dec}:a2={int(a2)}:iso={iso}:n={n}:{tag}:{s['seed'] & 0xffff:x}"
    rep = div_replay(s)
    # float16 / float32 / complex64: unitary() promotes them to double, so a reduced-precision array whose up-cast value is
    # exactly unitary is an ordinary valid input at every n, decomposition, iso and A.2 setting (1e-7, no exception); only
    # rounded entries (up-cast value not unitary) fall under the reduced-precision rule
    reduced = s["etype"] in DIV_REDUCED and not res.get("exact", True)
    ctx.count(f"diversity:oracle:{dec}")
    if "raised" in res:
        if reduced and res["exc_type"] in ("ValueError", "QiskitError", "PanicException") \
                and ("unitary" in res["raised"] or "failed to diagonalize" in res["raised"]):
            # the rejection unitary() documents ("The matrix must be unitary.") or the same verdict of a qiskit constructor on an
            # intermediate factor computed in single precision ("Input matrix is not unitary." / "A controlled gate is not unitary.")
            ctx.count(f"diversity:reduced-precision:{s['etype']}:{dec}:rejected-{res['exc_type']}")
            ctx.ok(key + ":rejected", nontrivial=False)
            return
        ctx.fail(f"unitary-raises:{dec}:a2={int(a2)}:iso={iso}:n={n}:div:{tag}",
                 "qclib raised on a valid unitary (form %s, call %s): %s" % (s["etype"], s.get("call", "pos"), res["raised"]),
                 dict(rep, traceback=res.get("tb")))
        return
    if "op_raised" in res:
        if reduced and res["op_exc_type"] in ("ValueError", "QiskitError", "PanicException") \
                and ("unitary" in res["op_raised"] or "failed to diagonalize" in res["op_raised"]):
            # (an inexact single-precision matrix that slips through unitary()'s own tolerance: a qiskit factor re-validates or
            # its Weyl decomposition gives up when the definition is expanded - still a rejection of a not-quite-unitary input)
            ctx.count(f"diversity:reduced-precision:{s['etype']}:{dec}:rejected-at-definition-{res['op_exc_type']}")
            ctx.ok(key + ":rejected", nontrivial=False)
        elif dec == "csd" and res["op_in_uc"] and res["blocks_err"] <= 1e-12:
            ctx.fail(f"unitary-ucgate-kernel:raises:iso={iso}:n={n}:div:{tag}",
                     f"qiskit UCGate kernel: the definition of a UCGate of the returned circuit raises {res['op_raised']} although every 2x2 "
                     f"block handed to UCGate is unitary to {res['blocks_err']:.1e}", dict(rep, traceback=res.get("tb")))
        else:
            ctx.fail(f"unitary-operator-raises:{dec}:a2={int(a2)}:iso={iso}:n={n}:div:{tag}",
                     f"Operator(circuit) of the returned circuit raised {res['op_raised']}", dict(rep, traceback=res.get("tb")))
        return
    if "use_raised" in res:
        ctx.fail(f"unitary-use-raises:{dec}:a2={int(a2)}:iso={iso}:n={n}:{tag}",
                 f"the circuit returned by unitary() could not be used as {s.get('use')}: {res['use_raised']}", dict(rep, traceback=res.get("tb")))
        return
    if res.get("to_gate_refused"):
        ctx.count(f"diversity:to_gate:{dec}:unsupported-form-raises-QiskitError")
    if res.get("tie_op"):
        ctx.tie(res["tie_op"], res["tie_lines"], label=f"diversity {dec} iso={iso} n={n} {tag}")
        if dec != "qr":
            ctx.tie({"op": "a2", "dec": dec, "a2": bool(a2) and not s.get("call", "pos").startswith("build")},
                    [f"a2 {int(res['a2_called'])} ;"], label=f"diversity a2 decision {dec} a2={a2} {tag}")
    if dec != "qr" and not reduced:
        ctx.assumption_checks += res["n_cossin"] + res["n_demux"]
        if res["cs_err"] > 1e-8:
            ctx.fail(f"assumption:cossin-spec:n={n}:div:{tag}", f"scipy cossin specification violated by {res['cs_err']:.2e}", rep,
                     kind="assumption")
    if res.get("mutated"):
        ctx.fail(f"unitary-mutates-input:{dec}:n={n}:{s['etype']}:{s['matrix']}",
                 "the caller's matrix object was modified by the synthesis (bytes / dtype / element types differ afterwards)", rep)
        return
    want_a2 = dec == "qsd" and a2 and not s.get("call", "pos").startswith("build")
    if res["a2_called"] != want_a2:
        ctx.fail(f"a2-decision:{dec}:a2={int(a2)}:div:{s.get('call', 'pos')}" + (f":apply_a2/{s['a2form']}:n={n}" if s.get("a2form") else ""),
                 f"_apply_a2 called={res['a2_called']}, expected {want_a2} (call form {s.get('call', 'pos')})", rep)
        return
    if res["a2_raised"]:
        ctx.count("diversity:a2-fallback-taken")
    rerun = lambda: div_eval(dict(s, use="plain", tie=False), disable_a2=True)   # noqa: E731
    if reduced:
        worst = max(res["err"], res.get("err_use", 0.0))
        if worst > 1e-5 and classify_kernel(ctx, res, dec, want_a2, iso, n, "div:" + tag, rerun, rep):
            return           # single-precision noise on the blocks is exactly what the UCGate kernel finding needs
        if worst > 1e-3:
            ctx.fail(key, f"reduced-precision input ({s['etype']}): silent wrong result, max |Operator - upcast(U)| = {worst:.3e}", rep)
        elif worst > 1e-5:
            ctx.count(f"diversity:reduced-precision:{s['etype']}:{dec}:degraded-1e-5..1e-3")
            ctx.ok(key, nontrivial=False)
        else:
            ctx.count(f"diversity:reduced-precision:{s['etype']}:{dec}:accepted-correct-to-1e-5")
            ctx.ok(key, nontrivial=n >= 2)
        return
    if classify_kernel(ctx, res, dec, want_a2, iso, n, "div:" + tag, rerun, rep):
        return
    if res["err"] > TOL:
        ctx.fail(key, f"max |Operator(circuit) - U| over the leading {2 ** (n - iso) if dec != 'qr' else 2 ** n} columns = {res['err']:.3e} "
                      f"(matrix {s['matrix']}, phase {s.get('phase', '1')}, element type {s['etype']}, call form {s.get('call', 'pos')})",
                 dict(rep, observed_err=res["err"]))
    elif res.get("err_use", 0.0) > TOL:
        ctx.fail(key, f"the returned circuit is right stand-alone ({res['err']:.1e}) but used as {s.get('use')}"
                      f"{' on host form ' + s['host'] if s.get('host') else ''} deviates by {res['err_use']:.3e} from the ideal "
                      "(U on the listed qubits in the listed order, identity elsewhere / U^dagger / the same operator twice)",
                 dict(rep, observed_err=res["err_use"]))
    else:
        ctx.ok(key, nontrivial=n >= 2, sample={"n": n, "matrix": s["matrix"], "etype": s["etype"], "call": s.get("call", "pos"),
                                                "use": s.get("use", "plain"), "dec": dec, "iso": iso, "a2": a2, "err": res["err"]})
        if s.get("a2form"):
            ctx.count(f"flagforms:apply_a2:{s['a2form']}")
            ctx.count(f"flagforms:apply_a2:{s['a2form']}:{bool(a2)}:via {s.get('call', 'pos')}:{dec}")
        if s.get("isoform"):
            ctx.count(f"flagforms:iso:{s['isoform']}")
            ctx.count(f"flagforms:iso:{s['isoform']}:{'0' if iso == 0 else 'n-1' if iso == n - 1 else 'middle'}:via {s.get('call', 'pos')}")


def div_spec(ctx, matrix, n, etype, dec, iso, a2, phase="1", call="pos", use="plain", host=None, tie=None, seed=None):
    s = {"matrix": matrix, "n": n, "seed": ctx.rng.getrandbits(32) if seed is None else seed, "phase": phase, "etype": etype, "dec": dec,
         "iso": iso, "a2": a2, "call": call, "use": use, "host": host}
    s["tie"] = (use == "plain") if tie is None else tie
    return s


def div_specs_etypes(ctx):
    """family 1 (element types) x family 5 (n = 1, 2, 3; n = 4 once per form family)."""
    out = []
    mats = {1: ["perm", "pm1", "s_diag", "yz", "hadamard", "real_orth", "real_det_m1", "haar"],
            2: DIV_INT_MATS + ["s_diag", "yz", "monomial_pmi", "hadamard", "complex_hadamard", "real_orth", "real_det_m1"],
            3: DIV_INT_MATS + ["s_diag", "yz", "monomial_pmi", "hadamard", "real_orth", "real_det_m1", "haar"],
            4: ["perm", "hadamard", "real_orth"]}
    k = ctx.rng.randrange(3)
    for n in (1, 2, 3, 4):
        for mi, mat in enumerate(mats[n]):
            seed = ctx.rng.getrandbits(32)
            for ei, et in enumerate(DIV_ETYPES):
                if n == 4 and et not in ("list", "int64", "f64", "f16", "f32", "c64", "negzero-f64"):
                    continue
                if et == "c128" and mat == "haar":
                    continue
                phases = ["1"]
                if mat in DIV_INT_MATS + ["hadamard"] and et in ("list", "int64", "f64", "tuple", "f16", "f32") and n <= 3:
                    phases.append("-1")      # all non-zero entries negative, zero imaginary part
                if mat in ("perm", "cnot") and et in ("list", "mixedlist", "c64") and n <= 3:
                    phases.append("i")       # purely imaginary entries: [[0, 1j], [1j, 0]]
                for ph in phases:
                    k += 1
                    # the integer / real forms are the ones that reach the kernels in an unusual dtype: every configuration;
                    # the others rotate through (qsd, A.2), (qsd, no A.2), csd
                    full = et in ("list", "int64", "f64", "negzero-f64", "f32", "c64") and n <= 3
                    cfgs = DIV_CONFIGS if full else [DIV_CONFIGS[k % 3]]
                    for ci, (dec, a2) in enumerate(cfgs):
                        iso = (k + ci) % n
                        out.append(div_spec(ctx, mat, n, et, dec, iso, a2, phase=ph, seed=seed))
                    if mat in ("hadamard", "complex_hadamard", "real_orth", "real_det_m1", "haar") and n <= 3 \
                            and et not in ("int64", "mixedlist") \
                            and (n <= 2 or et in ("list", "f64", "f16", "f32", "tuple", "c64")):
                        out.append(div_spec(ctx, mat, n, et, "qr", 0, False, phase=ph, seed=seed))   # no zero entries
                    if mat == "hadamard" and n == 4 and et in DIV_REDUCED:      # entries +-0.25: exactly unitary in half precision
                        out.append(div_spec(ctx, mat, n, et, "qr", 0, False, phase=ph, seed=seed))
    out = [s for s in out if div_applicable(s)]
    for s in out:
        ctx.count(f"diversity:etype:{s['etype']}:{s['dec']}")
        ctx.count(f"diversity:n={s['n']}")
    return out


def div_specs_structure(ctx):
    """families 2 and 3: scale and sign / phase structure, every structured family times the global phases."""
    out = []
    mats = ["near_id@1e-3", "near_id@1e-4", "near_id@1e-5", "near_id@1e-6", "near_perm@1e-3", "near_perm@1e-5", "near_perm@1e-6",
            "block_tl", "block_br", "subtree", "dft", "hadamard", "complex_hadamard", "rep_eig", "tensor_h_lsb", "monomial",
            "monomial_pmi", "perm", "yz", "s_diag", "pm1", "real_det_m1", "anti_block", "iy_top", "cs@0", "cs@pi4", "cs@pi2", "cs@mixed",
            "x_top", "swap"]
    k = ctx.rng.randrange(60)
    for n in (1, 2, 3, 4):
        for mat in mats:
            if n == 1 and mat in ("rep_eig", "tensor_h_lsb", "block_tl", "block_br", "anti_block", "swap", "iy_top"):
                continue
            if n == 4 and mat not in ("near_id@1e-5", "near_perm@1e-6", "subtree", "complex_hadamard", "rep_eig", "monomial_pmi",
                                      "anti_block", "cs@mixed", "block_br"):
                continue
            seed = ctx.rng.getrandbits(32)
            for ph in ("1", "-1", "i", "-i", "e"):
                if n == 4 and ph not in ("1", "i"):
                    continue
                k += 1
                cfgs = DIV_CONFIGS if n in (2, 3) else [DIV_CONFIGS[k % 3]]     # n = 1: every decomposition is one UnitaryGate
                for ci, (dec, a2) in enumerate(cfgs):
                    if mat.startswith("near_") and a2 and not (ph == "1" or (ph == "i" and mat.endswith("@1e-5"))):
                        continue     # the A.2 precision finding (K-C02-1) lives here: one phase per eps is enough to show it
                    out.append(div_spec(ctx, mat, n, "c128", dec, (k + ci) % n, a2, phase=ph, seed=seed))
                if mat in ("dft", "hadamard", "complex_hadamard", "real_det_m1") and n <= 2 + (ph == "1"):
                    out.append(div_spec(ctx, mat, n, "c128", "qr", 0, False, phase=ph, seed=seed))
            ctx.count(f"diversity:structure:{mat}")
    out = [s for s in out if div_applicable(s)]
    for s in out:
        ctx.count(f"diversity:phase:{s['phase']}")
        ctx.count(f"diversity:n={s['n']}")
    return out


def div_specs_calls(ctx):
    """family 4a: every (decomposition, iso, apply_a2) at n = 1, 2, 3 in every way of passing the arguments."""
    out = []
    calls = ["pos", "kw", "kw-rev", "mixed", "mixed2", "min"]
    for n in (1, 2, 3):
        inputs = [("haar", "c128"), ("perm", "list"), ("hadamard", "f64")]
        seeds = [ctx.rng.getrandbits(32) for _ in inputs]
        k = ctx.rng.randrange(6)
        for dec in ("qsd", "csd"):
            for iso in range(n):
                for a2 in (True, False):
                    for call in calls:
                        k += 1
                        mat, et = inputs[k % 3]
                        out.append(div_spec(ctx, mat, n, et, dec, iso, a2, call=call, seed=seeds[k % 3]))
                    for call in ("build-pos", "build-kw", "build-min"):
                        if not a2:
                            k += 1
                            mat, et = inputs[k % 3]
                            out.append(div_spec(ctx, mat, n, "int64" if et == "list" else et, dec, iso, False, call=call, seed=seeds[k % 3]))
        if n <= 2:
            for call in calls + ["build-pos", "build-kw", "build-min"]:
                for a2 in ((True, False) if not call.startswith("build") else (False,)):
                    out.append(div_spec(ctx, "hadamard", n, "f64", "qr", 0, a2, call=call, seed=seeds[2]))
    for s in out:
        ctx.count(f"diversity:call:{s['call']}:{s['dec']}")
    return out


def div_specs_uses(ctx):
    """family 4b: what callers do with the returned circuit."""
    out = []
    k = ctx.rng.randrange(12)
    hosted = ["to_gate", "to_instruction", "compose", "compose-inplace", "append", "inverse-on-host", "gate-twice", "copy-then-both"]
    for n in (1, 2, 3):
        inputs = [("haar", "c128"), ("perm", "list"), ("hadamard", "f64"), ("monomial_pmi", "c128")]
        seeds = [ctx.rng.getrandbits(32) for _ in inputs]
        for use in hosted:
            for host in ("ints", "qubits", "regs"):
                for dec, a2 in DIV_CONFIGS:
                    k += 1
                    mat, et = inputs[k % 4]
                    iso = (k // 4) % n if use in ("to_gate", "to_instruction", "compose", "compose-inplace", "append") else 0
                    out.append(div_spec(ctx, mat, n, et, dec, iso, a2, call=("pos", "kw", "min")[k % 3], use=use, host=host,
                                        seed=seeds[k % 4]))
            if n <= 2:
                out.append(div_spec(ctx, "hadamard", n, "f64", "qr", 0, False, use=use, host=("ints", "qubits", "regs")[k % 3],
                                    seed=seeds[2]))
        for use in ("inverse", "twice"):
            for ii, (mat, et) in enumerate(inputs):
                for dec, a2 in DIV_CONFIGS:
                    out.append(div_spec(ctx, mat, n, et, dec, 0 if use == "inverse" else (ii % n), a2, use=use, seed=seeds[ii]))
            if n <= 2:
                out.append(div_spec(ctx, "hadamard", n, "f64", "qr", 0, False, use=use, seed=seeds[2]))
    for s in out:
        ctx.count(f"diversity:use:{s['use']}" + (f"@{s['host']}" if s["host"] else ""))
    return out


def div_specs_flagforms(ctx):
    """apply_a2 True / False as bool, numpy.bool_ and int 1 / 0, and iso = 0 (valid and falsy: "no freed qubit"), the middle and
    n - 1 as int / numpy.int64 / numpy.int32, through every way unitary() and build_unitary() take them (positional, keyword, reversed
    keywords, mixed, only-the-non-defaults), at n = 2 (size <= 4: one UnitaryGate + the A.2 pass) and n = 3, 4 (recursive split, iso
    recursion), qsd and csd.  Same oracle (operator to 1e-7 over the leading columns, the A.2 decision = canonical bool) and ties
    (build shape with the canonical iso, a2 decision with the canonical bool)."""
    out = []
    a2forms, isoforms = ("np.bool_", "int", "bool"), ("np.int64", "int", "np.int32")
    calls = ["pos", "kw", "kw-rev", "mixed", "mixed2", "min"]
    k = ctx.rng.randrange(36)
    for n in (2, 3, 4):
        inputs = [("haar", "c128"), ("monomial_pmi", "c128"), ("hadamard", "f64")]
        seeds = [ctx.rng.getrandbits(32) for _ in inputs]
        for dec in ("qsd", "csd"):
            for iso in sorted({0, (n - 1) // 2, n - 1}):
                for a2 in (True, False):
                    for j in range(3 if n <= 3 else 1):
                        k += 1
                        af, jf = a2forms[k % 3], isoforms[(k // 3) % 3]
                        if af == "bool" and jf == "int":
                            af = "np.bool_"
                        mat, et = inputs[k % 3]
                        s = div_spec(ctx, mat, n, et, dec, iso, a2, call=calls[k % 6], seed=seeds[k % 3])
                        s.update(a2form=af, isoform=jf)
                        out.append(s)
                    if not a2:
                        k += 1
                        mat, et = inputs[k % 3]
                        s = div_spec(ctx, mat, n, et, dec, iso, False, call=("build-pos", "build-kw", "build-min")[k % 3], seed=seeds[k % 3])
                        s.update(isoform=isoforms[k % 3 if k % 3 != 1 else 0])
                        out.append(s)
    for s in out:
        ctx.count(f"diversity:flagforms:{s['call']}:{s['dec']}")
    return out


def diversity_specs(ctx):
    return div_specs_etypes(ctx) + div_specs_structure(ctx) + div_specs_calls(ctx) + div_specs_uses(ctx) + div_specs_flagforms(ctx)


def div_applicable(s):
    """the element-type form can hold the matrix (an int64 array cannot hold S, a real dtype cannot hold i * P, ...)."""
    import numpy as np
    u = div_matrix(s["matrix"], s["n"], s["seed"]) * div_phase(s.get("phase", "1"), s["seed"])
    if s["dec"] == "qr" and np.abs(u).min() < 1e-6:
        return False               # QR is stated for unitaries without zero entries
    return div_cast(u + 0.0, s["etype"]) is not None


# ---- direct calls of qclib.gates.ucr.ucr in the forms unitary.py makes / could make -----------------------------------

def div_ucr_angles(form, values):
    import numpy as np
    if form == "list":
        return list(values)
    if form == "tuple":
        return tuple(values)
    if form == "i64":
        return np.array(values, dtype=np.int64)
    if form == "f32":
        return np.array(values, dtype=np.float32)
    if form == "f64":
        return np.array(values, dtype=np.float64)
    if form == "list-f64":       # what unitary.py hands over: list(2 * theta)
        return list(np.array(values, dtype=np.float64))
    if form == "list-f32":       # the same when the matrix came in as complex64 / float32
        return list(np.array(values, dtype=np.float32))
    if form == "list-i64":
        return list(np.array(values, dtype=np.int64))
    raise ValueError(form)


def div_ucr_one(ctx, s):
    """one direct ucr call: operator vs the multiplexer (CZ/CX . Mux when last_control=False), gate list vs Model/Ucr.lean."""
    import numpy as np
    from flatten import flatten, to_lines
    from qiskit.circuit.library import RYGate, RZGate, CXGate, CZGate
    from qiskit.quantum_info import Operator
    from qclib.gates.ucr import ucr
    axis, ent, last0, call = s["axis"], s["ent"], s["last"], s["call"]
    last = opt_form(bool(last0), s.get("lastform"))        # last_control as bool / numpy.bool_ (what `not np.any(...)` gives) / int
    ang = div_ucr_angles(s["form"], s["values"])
    up = [float(v) for v in ang]          # the value handed in (float32 rounds the literals)
    k = int(math.log2(len(up)))
    key = f"ucr-div:{axis}:{ent}:{int(last)}:k={k}:{s['form']}:{call}:{s['name']}" + (f":last_control/{s['lastform']}" if s.get("lastform") else "")
    rep = {"call": "qclib.gates.ucr.ucr (input-diversity case, direct call as unitary.py makes it)", "div_ucr": s}
    rg, cg = (RYGate if axis == "Y" else RZGate), (CXGate if ent == "CX" else CZGate)
    before = div_fingerprint(ang)
    try:
        if call == "pos":
            circ = ucr(rg, ang, cg, last)
        elif call == "kw":
            circ = ucr(last_control=last, c_gate=cg, angles=ang, r_gate=rg)
        else:                                 # "min": defaults left out
            kw = {}
            if ent != "CX":
                kw["c_gate"] = cg
            if not last:
                kw["last_control"] = last
            circ = ucr(rg, ang, **kw)
    except Exception as e:  # noqa: BLE001
        ctx.fail(f"ucr-raises:{axis}:{ent}:{int(last)}:k={k}:{s['form']}:{call}", f"ucr raised {type(e).__name__}: {e} on angles {ang!r}", rep)
        return
    if div_fingerprint(ang) != before:
        ctx.fail(f"ucr-mutates-input:{s['form']}:k={k}", "the caller's angle object was modified", rep)
        return
    ctx.tie({"op": "ucr", "axis": axis, "ent": ent, "k": k, "last": bool(last), "angles": up}, to_lines(flatten(circ)),
            label=f"diversity ucr {axis} {ent} last={last} k={k} {s['form']} {s['name']}", driver="Drivers/C13.lean")
    full = circ
    if k >= 1 and not last:
        full = circ.copy()
        (full.cx if ent == "CX" else full.cz)(k, 0)
    ideal = np.zeros((2 * len(up), 2 * len(up)), dtype=complex)
    for j, t in enumerate(up):
        c, sn = math.cos(t / 2), math.sin(t / 2)
        ideal[2 * j:2 * j + 2, 2 * j:2 * j + 2] = [[c, -sn], [sn, c]] if axis == "Y" else np.diag([np.exp(-0.5j * t), np.exp(0.5j * t)])
    err = float(np.abs(Operator(full).data - ideal).max())
    if err > TOL:
        ctx.fail(key, f"max |Operator(ucr) - multiplexer| = {err:.3e} for angles {ang!r}", dict(rep, observed_err=err))
    else:
        ctx.ok(key, nontrivial=k >= 1, sample={"ucr": axis + ent, "last": bool(last), "form": s["form"], "angles": up[:4], "err": err})
        if s.get("lastform"):
            ctx.count(f"flagforms:last_control:{s['lastform']}")
            ctx.count(f"flagforms:last_control:{s['lastform']}:{bool(last)}:via {call}:k={k}")


def from_leaves(leaves):
    """angle list whose fully multiplexed (leaf) angles are `leaves` (inverse of ucr's kron([[.5,.5],[.5,-.5]], I) steps)."""
    if len(leaves) == 1:
        return list(leaves)
    hh = len(leaves) // 2
    a, b = from_leaves(leaves[:hh]), from_leaves(leaves[hh:])
    return [p + q for p, q in zip(a, b)] + [p - q for p, q in zip(a, b)]


def div_ucr_specs(ctx):
    r = ctx.rng
    pi = math.pi
    out = []
    combos = [("Y", "CZ", False), ("Y", "CX", True), ("Z", "CX", True), ("Z", "CX", False), ("Y", "CZ", True)]
    i = r.randrange(30)
    for k in range(0, 4):
        m = 2 ** k
        lists = []      # (name, values, admissible forms)
        ints = ["list", "tuple", "i64", "list-i64", "f32", "f64"]
        flts = ["list", "tuple", "f64", "list-f64", "f32", "list-f32"]
        lists.append(("odd-ints", [1 + 2 * j for j in range(m)], ints))                # [1, 3, 5, 7]: every half-sum / -difference is an integer
        lists.append(("tri-ints", [1 + j * (j + 1) // 2 for j in range(m)], ints))   # [1, 2, 4, 7]: half-integers from the first level on
        lists.append(("rand-ints", [r.randint(-7, 7) or 3 for _ in range(m)], ints))
        lists.append(("neg-ints", [-(2 + j) for j in range(m)], ints))
        lists.append(("cs-range", [r.uniform(0.05, pi - 0.05) for _ in range(m)], flts))           # 2 theta of a generic cossin
        lists.append(("above-2pi", [2 * pi + r.uniform(0.1, 6.0) for _ in range(m)], flts))
        lists.append(("below-minus-2pi", [-2 * pi - r.uniform(0.1, 6.0) for _ in range(m)], flts))
        lists.append(("mixed-periods", [r.choice([-4 * pi, -2 * pi, 0.0, 2 * pi, 4 * pi]) + r.uniform(0.2, 2.9) for _ in range(m)], flts))
        lists.append(("all-2pi", [2 * pi] * m, ["list", "f64", "list-f64"]))                          # RY(2pi) = -I on every branch
        lists.append(("all-minus-2pi", [-2 * pi] * m, ["list", "f64"]))
        lists.append(("all-4pi", [4 * pi] * m, ["list", "f64"]))
        lists.append(("pm-2pi-4pi", [r.choice([2 * pi, -2 * pi, 4 * pi, -4 * pi, 0.0]) for _ in range(m)], ["list", "tuple", "f64", "list-f64"]))
        if k >= 1:
            # Walsh-Hadamard sums / differences of the recursion hit exactly 0, 2pi, -2pi, 4pi, pi at the leaves
            lists.append(("leaves-0-2pi", from_leaves([r.choice([0.0, 2 * pi, -2 * pi, 4 * pi, pi]) for _ in range(m)]), ["list", "f64", "list-f64"]))
            lv = [0.0] * m
            lv[r.randrange(m)] = 2 * pi
            lists.append(("one-leaf-2pi", from_leaves(lv), ["list", "f64"]))
            lists.append(("leaves-2pi-plus", from_leaves([2 * pi * r.choice([1, -1, 2]) + r.uniform(0.3, 2.5) for _ in range(m)]), ["list", "f64", "f32"]))
        for name, vals, forms in lists:
            for fi, form in enumerate(forms):
                i += 1
                # unitary.py's own form (RY, CZ, no last control) for every list x form; the others rotate
                todo = [combos[0], combos[1 + i % 4]] if k <= 2 else [combos[i % 5]]
                for axis, ent, last in todo:
                    call = ("pos", "kw", "min")[(i + fi + (axis == "Z")) % 3]
                    out.append({"axis": axis, "ent": ent, "last": last, "form": form, "values": vals, "call": call, "name": name})
                    ctx.count(f"diversity:ucr:{form}")
                    ctx.count(f"diversity:ucr-call:{call}")
            ctx.count(f"diversity:ucr-angles:{name}")
    # last_control True / False as bool, numpy.bool_ and int, positional / keyword / only-when-non-default, k = 0 (no control: the
    # flag selects nothing), 1, 2, 3; the three (axis, entangler) pairs of the sweep above
    for k in range(0, 4):
        m = 2 ** k
        for lf in ("np.bool_", "int", "bool"):
            for last in (True, False):
                for call in ("pos", "kw", "min"):
                    i += 1
                    axis, ent = (("Y", "CZ"), ("Y", "CX"), ("Z", "CX"), ("Y", "CZ"))[i % 4]       # (Z, CZ) multiplexes nothing: CZ commutes with RZ
                    vals = [r.uniform(0.05, pi - 0.05) for _ in range(m)] if i % 3 else [1 + 2 * j for j in range(m)]
                    out.append({"axis": axis, "ent": ent, "last": last, "lastform": lf, "form": "list" if i % 3 else "list-i64", "values": vals,
                                "call": call, "name": "flagforms"})
    return out


def diversity_ucr(ctx):
    for s in div_ucr_specs(ctx):
        div_ucr_one(ctx, s)


def run(ctx):
    run_tie(ctx)
    probe_findings(ctx)
    probe_call_forms(ctx)
    jobs = oracle_jobs(ctx, 5 if ctx.quick else 6, 4 if ctx.quick else 5, 2 if ctx.quick else 4) + boundary_jobs(ctx)
    jobs = jobs + diversity_specs(ctx)          # input-diversity cases (dict specs) share the process pool
    for job, res in zip(jobs, run_jobs(jobs)):
        (div_judge if isinstance(job, dict) else judge)(ctx, job, res)
    diversity_ucr(ctx)
    flush_deferred(ctx)
    ctx.notes.append("QR is exercised only on unitaries whose entries all exceed 1e-6 in modulus (the property's own restriction)")
    ctx.notes.append("boundary families: block_near_equal@eps (eigenvalue cluster of width 1e-9..1e-3 in _compute_gates, either side of "
                     "the is_unitary_matrix test that selects the closest-unitary repair), cs_tiny@t (multiplexed RY combinations of "
                     "3e-9 / 3e-8 / 1e-6 around ucr's 1e-8 cut), tiny_entry@e (QR on a unitary whose smallest entry is 3e-6 / 1e-4)")
    ctx.notes.append("kernel specifications: cossin to 1e-8, eigen/demultiplexing to 1e-6, operator to 1e-7")
    ctx.notes.append("input-diversity cases: identical values in another element type / call form / use are held to 1e-7 (global phase "
                     "included) after classify_kernel; float16 / float32 / complex64 arrays whose up-cast value is exactly unitary are ordinary valid inputs at "
                     "every n / decomposition / iso / A.2 (unitary() promotes them to double): 1e-7, any exception fails; rounded single-precision "
                     "values (up-cast not unitary): a ValueError / QiskitError saying 'not unitary' or a result within 1e-5 of the up-cast "
                     "matrix is accepted, > 1e-3 or any other exception type fails; QR only on matrices without zero entries.  qiskit's to_gate() refuses the circuits of unitary() from n = 3 on and every QR "
                     "circuit (sub-circuits appended as plain Instructions): counted as diversity:to_gate:*:unsupported-form-raises-QiskitError, "
                     "the Instruction is used instead.  near_id / near_perm @ eps = 1e-3 .. 1e-6 keep multiplexed angles a factor >= 100 above "
                     "or exact rounding noise below ucr's 1e-8 cut (a dropped leaf costs <= 5e-9 each, < 1e-7 in total at n <= 4)")


def search(ctx, hints):
    """Failing-input search on the real code: the disagreeing shapes first, then the full structured sweep."""
    jobs = []
    for h in hints:
        op = h.get("op", {})
        if op.get("op") == "build":
            for a2 in (True, False):
                jobs.append(("unitary", op["n"], op.get("family", "haar"), op.get("seed", 1), op["dec"], op["iso"], a2))
        if op.get("op") == "qr":
            jobs.append(("unitary", op["n"], "haar", 1, "qr", 0, False))
    probe_findings(ctx)
    jobs = jobs[:60] + oracle_jobs(ctx, 5, 4, 2) + diversity_specs(ctx)
    for job, res in zip(jobs, run_jobs(jobs)):
        (div_judge if isinstance(job, dict) else judge)(ctx, job, res)
    diversity_ucr(ctx)
    flush_deferred(ctx)


def replay(ctx, payload):
    r = payload["replay"]
    if r.get("div"):
        div_judge(ctx, r["div"], div_eval(r["div"]))
        flush_deferred(ctx)
        return
    if r.get("div_ucr"):
        div_ucr_one(ctx, r["div_ucr"])
        return
    if r.get("form"):
        probe_call_forms(ctx)
        return
    job = ("unitary", r["n"], r["family"], r["seed"], r["decomposition"], r["iso"], r["apply_a2"])
    judge(ctx, job, run_job(job))
    flush_deferred(ctx)
