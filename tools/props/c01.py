"""C01 — exact dense state preparation.

Anchors: qclib/state_preparation/{topdown,lowrank,svd,ucg,ucge,isometry,baa_lowrank}.py,
util/{state_tree_preparation,angle_tree_preparation,tree_walk,tree_register,tree_utils}.py,
qclib/gates/ucr.py, qclib/entanglement.py (schmidt_decomposition).
"""
import cmath
import contextlib
import copy
import itertools
import math
import os
import numpy as np

CLAIMED = True
TECHNIQUE = ("Lean 4 proofs: half-angle / phase algebra of the state tree and angle tree over R and C (Mathlib arcsin, exp), "
             "circuit-level induction over the levels of the top-down multiplexer cascade in amplitude-function semantics using "
             "the multiplexer theorem of C13 transported along wire renamings, finite-sum assembly of the Plesch (Schmidt) "
             "circuit over any commutative ring using the reshape round trip of C09, total decision function for _encode; "
             "executable model tied to TopDownInitialize / LowRankInitialize / SVDInitialize by diffing trees, multiplexer calls, "
             "flattened gate lists and circuit plans; Statevector oracle over the seven classes and their options")
LEVEL_TEXT = ("TopDownInitialize is proved IN FULL for the model, every n>=1 and every unit vector (zeros, signs, phases, zero "
              "sub-trees included): half-angle and phase identities of one node, clamp never fires, zero node => angle 0 "
              "(C01_angles); root value times the product of RY/RZ factors along the path equals a_k, and e^{i mean arg} x path = a_k "
              "for unit vectors (C01_topdown_path); one level of top_down - ucr RY with last_control = not any(z), reversed ucr RZ "
              "with last_control = not any(y), each only if any(angles) - denotes RZ(z_j) RY(y_j) on the target wire on EVERY state, "
              "over any commutative ring with rotation laws, via C13's invariant transported along the wire renaming "
              "(C01_topdown_level); the whole gate list incl. the global phase maps every input whose n wires are |0> to amplitude "
              "a_k at the label reading k (wire i = bit i), model accepts, width n, spine on wires n-1..0 (C01_topdown_circuit); "
              "global_phase=False deviates by exactly e^{-i mean arg} (C01_topdown_nophase). LowRank/SVD: _encode is a total 4-way "
              "case split with exactly one branch per shape (C01_encode_dispatch); rank 1 => no e-bits, no CX, two independent "
              "preparations (C01_rank1); the Plesch ASSEMBLY at wire level over any commutative ring: singular values on "
              "reg_b[:e], CX fan-out, U on reg_b, V^T on reg_a, reverse_bits yields v/||s|| at the little-endian index, given the "
              "SVD specification and sub-encoders meeting their specifications (C01_plesch_assembly, uses C09 round trip and "
              "C07 sum identity), same for SVDInitialize (C01_svd_assembly); BAA at zero loss for split/canonical/brute_force "
              "from C08 (C01_baa_zero). Corollaries of the other properties: C01_ucg (C12_column_t at t = 0: the UCG/UCGE level loop "
              "maps v to |0..0> exactly and every left inverse maps |0..0> to v, given qiskit's UCGate diagonal specification) and "
              "C01_isometry (C03 with one column: the ccd sweep G_0 maps a unit v to phi*e_0 with |phi| = 1; _extend_to_unitary of a "
              "one-column isometry is unitary with column 0 = v; Knill's product of the emitted factors has column 0 = v). NOT proved (K4 hypotheses, oracle only): np.linalg.svd, the sub-encoders "
              "(isometry/unitary decompositions C02/C03), UCG/UCGE (C12 pending), isometry-based (C03 pending), BAA greedy. "
              "Tie: state tree, allocation, angle tree, every ucr call (axis, last_control, wires, angles), width, flattened gate "
              "list and global phase (mod 2pi) of the real TopDownInitialize vs the Float model for all n<=5 (6 thorough) x 13 "
              "vector families x global_phase in {default, True, False}; LowRank plan (registers, rank, e-bits, encoder branch of "
              "each _encode call, CX list, returned circuit after reverse_bits) for all n<=5 (6), every increasing partition, every "
              "lr, plus the _encode dispatch table and SVDInitialize's plan. Oracle: Statevector(definition) vs v to 1e-7, phase "
              "included, seven classes x documented options, n=1..6 (8 thorough).")
LEVEL_NOTE = ("Trusted: Lean kernel (standard axioms); hand model <-> code beyond the explored sizes (same recursion for all n); "
              "abs/cmath.phase/np.angle (leaf values read from the real state tree, re-checked against sqrt and atan2 in the driver); "
              "libm sqrt/pow/asin; qiskit gate matrices ry/rz/cx and global_phase; qiskit compose/append/reverse_bits wire mapping "
              "(tied through the returned circuit); np.linalg.svd, randomized_svd, qclib.unitary / qclib.isometry decompositions, "
              "UCGate (specified as hypotheses of the assembly theorems, validated end to end by the oracle); IEEE floats vs exact "
              "reals (`!= 0.0`, `any(angles)`, 1e-8 leaf threshold of ucr, 1e-7 rank threshold modelled as exact comparisons).")
LEAN_TARGETS = ["QclibModel.Props.C01"]
THEOREMS = ["Qclib.C01_angles", "Qclib.C01_topdown_path", "Qclib.C01_topdown_level", "Qclib.C01_topdown_circuit",
            "Qclib.C01_topdown_nophase", "Qclib.C01_encode_dispatch", "Qclib.C01_rank1", "Qclib.C01_plesch_assembly",
            "Qclib.C01_svd_assembly", "Qclib.C01_baa_zero", "Qclib.C01_ucg", "Qclib.C01_isometry"]
TRUSTED = [
    "abs(complex), cmath.phase, np.angle: leaf (mag, arg) are taken from the real state tree and re-checked against sqrt(re^2+im^2), atan2 to 1e-12 in the driver",
    "qiskit ry/rz/cx matrices and circuit.global_phase equal matRY/matRZ/X/scale(e^{i theta}) of Sem/Denote.lean (C13's harness validates the matrices each run; the oracle validates the phase)",
    "np.linalg.svd / randomized_svd return U, s, Vh with M = U diag(s) Vh (hypothesis hsvd of C01_plesch_assembly / C01_svd_assembly; end-to-end oracle)",
    "qclib.unitary.unitary, qclib.isometry.decompose, nested LowRank/SVD/TopDown sub-circuits implement the matrix they are given (hypotheses hMsv, hMU, hMV; properties C02, C03; end-to-end oracle)",
    "UCGInitialize/UCGEInitialize, IsometryInitialize, BaaLowRankInitialize(greedy): Statevector oracle only (C12 / C03 theorems pending)",
    "float: `x != 0.0`, any(angles), abs(angle) > 1e-8, s > 1e-7 are exact comparisons in the theorems; generated amplitudes are exact zeros or >= 0.2/sqrt(2^n), Schmidt coefficients outside [1e-9, 1e-5]",
]
ASSUMPTIONS = ["exact real/complex arithmetic in the theorems; implementation compared to 1e-7",
               "all n circuit wires start in |0> (further wires arbitrary)",
               "C01_plesch_assembly: ||s|| = 1 for a unit vector (the statement is nrm * amplitude = v_k for any nrm)"]
RULE = ("tie: (class, n, options, vector) whose trees / multiplexer calls / gate list / plan were diffed against the Lean model; "
        "oracle: (class, options, n, vector family, index) on which Statevector(definition) was compared with the vector; "
        "non-trivial = n>=2 and at least two non-zero amplitudes")
DRIVER = "Drivers/C01.lean"

TOL = 1e-7
A2_MAX = 1e-3          # errors in (TOL, A2_MAX] are re-checked with qiskit's A.2 optimisation bypassed (known precision limit)
BAND = (1e-9, 1e-5)    # Schmidt coefficients of generated inputs stay outside this band around the 1e-7 rank threshold

FAMILIES = ["complex", "real_signed", "nonneg", "sparse", "zero_subtree", "basis", "uniform", "product", "signed_product", "partial_repetition",
            "ghz", "w", "rankdef", "repeated"]


# ------------------------------------------------------------------------------------------------
# independent reshape (plain bit arithmetic): axis a of the (2,)*n tensor = bit n-1-a of the index
# ------------------------------------------------------------------------------------------------

def ref_index(n, part, i):
    rows_axes = [a for a in range(n) if a not in part]
    r = 0
    for a in rows_axes:
        r = 2 * r + ((i >> (n - 1 - a)) & 1)
    c = 0
    for a in sorted(part):
        c = 2 * c + ((i >> (n - 1 - a)) & 1)
    return r, c


def ref_sep(n, v, part):
    k = len(part)
    m = np.zeros((2 ** (n - k), 2 ** k), dtype=complex)
    for i in range(2 ** n):
        r, c = ref_index(n, part, i)
        m[r, c] = v[i]
    return m


def ref_undo(n, m, part):
    v = np.zeros(2 ** n, dtype=complex)
    for i in range(2 ** n):
        r, c = ref_index(n, part, i)
        v[i] = m[r, c]
    return v


def default_partition(n):
    return list(range(n // 2 + n % 2))


# ------------------------------------------------------------------------------------------------
# vectors
# ------------------------------------------------------------------------------------------------

def _clean(v):
    v = np.asarray(v, dtype=complex)
    v = v / np.linalg.norm(v)
    # no negative zeros (the JSON channel to the Lean driver does not carry the sign of zero)
    return np.array([complex(float(a.real) + 0.0, float(a.imag) + 0.0) for a in v])


def _haar_cols(r, d, k):
    m = r.normal(size=(d, k)) + 1j * r.normal(size=(d, k))
    q, _ = np.linalg.qr(m)
    return q[:, :k]


def make_vector(r, n, family, part=None):
    """r: numpy Generator.  `part` = bipartition the Schmidt-structured families refer to."""
    dim = 2 ** n
    part = default_partition(n) if part is None else sorted(part)

    def amp(cplx=True):
        m = r.uniform(0.2, 1.0)
        return m * np.exp(1j * r.uniform(-3.0, 3.0)) if cplx else m * r.choice([-1.0, 1.0])

    v = np.zeros(dim, dtype=complex)
    if family == "complex":
        v = np.array([amp() for _ in range(dim)])
    elif family == "real_signed":
        v = np.array([amp(False) for _ in range(dim)], dtype=complex)
    elif family == "nonneg":
        v = np.array([r.uniform(0.2, 1.0) for _ in range(dim)], dtype=complex)
    elif family == "sparse":
        k = max(1, int(r.integers(1, max(2, dim // 2 + 1))))
        for i in r.choice(dim, size=k, replace=False):
            v[i] = amp(bool(r.integers(2)))
    elif family == "zero_subtree":
        v = np.array([amp() for _ in range(dim)])
        for _ in range(int(r.integers(1, 3))):
            size = 2 ** int(r.integers(0, n))
            start = int(r.integers(0, dim // size)) * size
            w = v.copy()
            w[start:start + size] = 0
            if np.any(w != 0):
                v = w
    elif family == "basis":
        v[int(r.integers(dim))] = [1.0, -1.0, 1j, -1j][int(r.integers(4))]
    elif family == "uniform":
        v = np.ones(dim, dtype=complex)
    elif family == "product":
        v = np.ones(1, dtype=complex)
        for _ in range(n):
            t = int(r.integers(5))
            if t == 0:
                f = np.array([1.0, 0.0])
            elif t == 1:
                f = np.array([0.0, 1j])
            else:
                f = np.array([amp(), amp()])
            v = np.kron(v, f / np.linalg.norm(f))
    elif family == "signed_product":
        # factors from a small set: multiplexers with repeated / sign-related entries (UCGE's simplification)
        pool = [np.array([1.0, 1.0]), np.array([1.0, -1.0]), np.array([3.0, 4.0]), np.array([3.0, -4.0]),
                np.array([1.0, 1j]), np.array([1.0, 0.0])]
        v = np.ones(1, dtype=complex)
        for _ in range(n):
            f = pool[int(r.integers(len(pool)))]
            v = np.kron(v, f / np.linalg.norm(f))
    elif family == "partial_repetition":
        # the level multiplexers repeat only PARTLY: product on one branch of the top qubit, entangled (or sparse)
        # on the other, with a common real one-qubit factor kept on a lower qubit - UCGE's repetition search has
        # to start a verification, strike entries and then back out (ucge._repetition_search roll-back path)
        if n < 3:
            return make_vector(r, n, "signed_product")
        fac = np.array([3.0, 4.0]) / 5.0 if r.integers(2) else np.array([1.0, 1.0]) / np.sqrt(2)
        m = n - 2                                   # qubits other than the top one and the common factor (qubit 1)
        def rest_product():
            w = np.ones(1)
            for _ in range(m):
                f = np.array([r.uniform(0.3, 1.0), r.uniform(0.3, 1.0)])
                w = np.kron(w, f / np.linalg.norm(f))
            return w
        def rest_other():
            if r.integers(2):
                w = r.uniform(0.2, 1.0, size=2 ** m)          # entangled, real non-negative
            else:
                w = np.zeros(2 ** m)
                w[int(r.integers(2 ** m))] = 1.0               # sparse: all-zero branches give identity gates
            return w / np.linalg.norm(w)
        def with_factor(w):                                    # insert the common factor at qubit 1
            t = w.reshape([2] * m) if m else w.reshape(())
            full = np.zeros([2] * (m + 1))
            idx_axis = m - 1 if m else 0                       # qubit 1 = second-to-last axis of the (m+1)-qubit block
            for bit in (0, 1):
                sl = [slice(None)] * (m + 1)
                sl[idx_axis if m else 0] = bit
                full[tuple(sl)] = fac[bit] * (t if m else 1.0)
            return full.reshape(-1)
        lo, hi = with_factor(rest_product()), with_factor(rest_other())
        if r.integers(2):
            lo, hi = hi, lo
        a = r.uniform(0.4, 0.9)
        v = np.concatenate([a * lo, np.sqrt(1 - a * a) * hi]).astype(complex)
    elif family == "ghz":
        v[0] = 1.0
        v[dim - 1] = np.exp(1j * r.uniform(-3, 3)) if r.integers(2) else -1.0
    elif family == "w":
        for q in range(n):
            v[1 << q] = 1.0
    elif family in ("rankdef", "repeated"):
        k = len(part)
        rows, cols = 2 ** (n - k), 2 ** k
        mind = min(rows, cols)
        if n == 1:
            return make_vector(r, n, "complex")
        if family == "rankdef":
            rk = int(r.integers(1, max(2, mind)))          # 1 <= rk < mind (or 1)
            s = np.sort(r.uniform(0.3, 1.0, size=rk))[::-1]
        else:
            rk = mind if r.integers(2) else max(1, mind // 2)
            s = np.ones(rk)
            if rk >= 3 and r.integers(2):
                s[-1] = 0.5                                   # a repeated cluster plus one smaller value
        u = _haar_cols(r, rows, rk)
        w = _haar_cols(r, cols, rk)
        m = (u * s) @ w.T
        v = ref_undo(n, m, part)
    else:
        raise ValueError(family)
    return _clean(v)


def in_band(n, v, part):
    s = np.linalg.svd(ref_sep(n, v, part), compute_uv=False)
    return any(BAND[0] <= x <= BAND[1] for x in s)


# ------------------------------------------------------------------------------------------------
# oracle (worker side)
# ------------------------------------------------------------------------------------------------

def build_gate(cls, v, opts, label=None):
    import qclib.state_preparation as sp
    klass = getattr(sp, cls)
    kw = {} if label is None else {"label": label}
    if cls == "SVDInitialize":
        return klass(v, **kw)
    return klass(v, opt_params=copy.deepcopy(opts), **kw)


def build_entry(cls, v, opts, entry):
    """The static helper `Class.initialize(q_circuit, state, qubits, opt_params)` on a circuit of `entry["width"]` wires;
    `entry["qubits"]` is None (all wires of the circuit) or the explicit list of wires."""
    import qclib.state_preparation as sp
    from qiskit import QuantumCircuit
    klass = getattr(sp, cls)
    qc = QuantumCircuit(entry["width"])
    if cls == "SVDInitialize":
        klass.initialize(qc, v, qubits=entry["qubits"])
    else:
        klass.initialize(qc, v, qubits=entry["qubits"], opt_params=copy.deepcopy(opts))
    return qc


def embed(v, entry):
    """Ideal state of the wider circuit: gate qubit i sits on wire entry["qubits"][i], the other wires stay |0>."""
    n = int(round(math.log2(len(v))))
    qs = entry["qubits"] if entry["qubits"] is not None else list(range(n))
    out = np.zeros(2 ** entry["width"], dtype=complex)
    for k in range(len(v)):
        idx = 0
        for i in range(n):
            idx |= ((k >> i) & 1) << qs[i]
        out[idx] = v[k]
    return out


def eval_case(task):
    """Runs in a worker process: build the REAL gate, simulate, compare.  Returns a small dict."""
    import sys
    import warnings
    warnings.filterwarnings("ignore")
    repo = task["repo"]
    if repo not in sys.path:
        sys.path.insert(0, repo)
    from qiskit.quantum_info import Statevector
    v = np.array(task["re"]) + 1j * np.array(task["im"])
    n = task["n"]
    out = {"key": task["key"]}
    if task.get("rsvd_seed") is not None:
        import qclib.entanglement as _ent     # randomized_svd draws from a module-level unseeded generator
        _ent._rng = np.random.default_rng(task["rsvd_seed"])
    entry = task.get("entry")
    if entry:
        # the documented static entry point: append to a caller's circuit (all wires / an explicit wire list)
        try:
            qc = build_entry(task["cls"], np.array(v, copy=True), task["opts"], entry)
            sv = Statevector(qc).data
        except Exception as ex:
            out.update(status="raises", detail=f"{type(ex).__name__}: {str(ex)[:300]}")
            return out
        want = embed(v, entry)
        err = float(np.abs(sv - want).max())
        out["err"] = err
        if not err <= TOL:
            k = int(np.argmax(np.abs(sv - want)))
            out.update(status="fail", detail=f"{task['cls']}.initialize(circuit[{entry['width']}], v, qubits={entry['qubits']}): "
                                             f"amplitude {k}: prepared {sv[k]:.9f}, wanted {want[k]:.9f} (max err {err:.3e})")
        else:
            out["status"] = "ok"
        return out
    try:
        gate = build_gate(task["cls"], np.array(v, copy=True), task["opts"], task.get("label"))
        d = gate.definition
        sv = Statevector(d).data
    except Exception as ex:   # construction must never fail on a valid vector
        out.update(status="raises", detail=f"{type(ex).__name__}: {str(ex)[:300]}")
        return out
    if task.get("label") is not None and gate.label != task["label"]:
        out.update(status="fail", detail=f"label {task['label']!r} passed, gate.label is {gate.label!r}")
        return out
    if d.num_qubits != n or gate.num_qubits != n or len(sv) != len(v):
        out.update(status="fail", detail=f"circuit on {d.num_qubits} qubits (declared {gate.num_qubits}) for a {n}-qubit vector")
        return out
    ph = 1.0
    if task.get("upto_phase"):
        ov = np.vdot(v, sv)
        ph = ov / abs(ov) if abs(ov) > 1e-12 else 1.0
    err = float(np.abs(sv - ph * v).max())
    out["err"] = err
    if TOL < err <= A2_MAX:
        # Known precision limit of qiskit's `_apply_a2` (used by qclib.unitary.unitary(.., 'qsd', apply_a2=True), hence by
        # the csd/knill isometries and the low-rank encoders): a two-qubit block within 1e-9 of a special Weyl class is
        # re-synthesised approximately.  If the error disappears with the optimisation bypassed, report it under its own key.
        err2 = recheck_without_a2(task, v, ph)
        if err2 is not None and err2 <= TOL:
            k = int(np.argmax(np.abs(sv - ph * v)))
            out.update(status="a2", err_without_a2=err2,
                       detail=f"max err {err:.3e} at amplitude {k} (|<v|psi>| = {abs(np.vdot(v, sv)):.12f}); with "
                              f"qclib.unitary._apply_a2 bypassed the error is {err2:.3e}: precision limit of qiskit's A.2 "
                              "re-synthesis of a near-special two-qubit block")
            return out
    if not err <= TOL:
        k = int(np.argmax(np.abs(sv - ph * v)))
        ov = abs(np.vdot(v, sv))
        out.update(status="fail", overlap=float(ov),
                   detail=f"amplitude {k}: prepared {sv[k]:.9f}, wanted {(ph * v)[k]:.9f} (max err {err:.3e}, |<v|psi>| = {ov:.9f})")
    else:
        out["status"] = "ok"
    return out


def recheck_without_a2(task, v, ph):
    """Same construction with `qclib.unitary._apply_a2` replaced by the identity (the unoptimised QSD circuit)."""
    from unittest import mock
    from qiskit.quantum_info import Statevector
    import qclib.unitary as qu
    try:
        with mock.patch.object(qu, "_apply_a2", lambda circuit: circuit):
            gate = build_gate(task["cls"], np.array(v, copy=True), task["opts"], task.get("label"))
            sv = Statevector(gate.definition).data
        if task.get("upto_phase"):
            ov = np.vdot(v, sv)
            ph = ov / abs(ov) if abs(ov) > 1e-12 else 1.0
        return float(np.abs(sv - ph * v).max())
    except Exception:
        return None


def optkey(opts):
    if opts is None:
        return "default"
    parts = []
    for k in sorted(opts):
        val = opts[k]
        if isinstance(val, (list, tuple)):
            val = ",".join(map(str, val))
        parts.append(f"{k}={val}")
    return ";".join(parts)


def make_task(cls, opts, n, family, idx, v, upto_phase=False, tag=None, label=None, entry=None):
    import framework
    base = tag or f"{cls}:{optkey(opts)}"
    return {"repo": framework.REPO, "cls": cls, "opts": opts, "n": n, "family": family,
            "re": [float(x) for x in np.real(v)], "im": [float(x) for x in np.imag(v)],
            "upto_phase": bool(upto_phase), "key": f"{base}:n={n}:{family}:{idx}", "label": label, "entry": entry}


def run_tasks(ctx, tasks):
    from concurrent.futures import ProcessPoolExecutor
    import multiprocessing as mp
    if not tasks:
        return []
    workers = max(1, min(14, (os.cpu_count() or 2) - 1))
    # heavy cases first so that the pool drains evenly
    order = sorted(range(len(tasks)), key=lambda i: -tasks[i]["n"])
    with ProcessPoolExecutor(max_workers=workers, mp_context=mp.get_context("fork")) as ex:
        res_sorted = list(ex.map(eval_case, [tasks[i] for i in order], chunksize=4))
    results = [None] * len(tasks)
    for i, r in zip(order, res_sorted):
        results[i] = r
    for task, res in zip(tasks, results):
        record(ctx, task, res)
    return results


def record(ctx, task, res):
    v = np.array(task["re"]) + 1j * np.array(task["im"])
    nz = int(np.sum(np.abs(v) > 0))
    rep = {"cls": task["cls"], "opts": task["opts"], "n": task["n"], "family": task["family"],
           "re": task["re"], "im": task["im"], "upto_phase": task["upto_phase"], "key": task["key"],
           "label": task.get("label"), "entry": task.get("entry"), "rsvd_seed": task.get("rsvd_seed"),
           "call": (f"{task['cls']}.initialize(QuantumCircuit({task['entry']['width']}), v, qubits={task['entry']['qubits']}, "
                    f"opt_params={task['opts']})" if task.get("entry") else
                    f"Statevector({task['cls']}(v, opt_params={task['opts']}, label={task.get('label')!r}).definition)")}
    ctx.count(f"oracle:{task['cls']}")
    ctx.count(f"family:{task['family']}")
    if res["status"] == "ok":
        ctx.ok(task["key"], nontrivial=task["n"] >= 2 and nz >= 2,
               sample={"class": task["cls"], "opts": task["opts"], "n": task["n"], "family": task["family"],
                       "nonzeros": nz, "err": res["err"]})
    elif res["status"] == "a2":
        ctx.count("a2-precision")
        ctx.fail(f"dense-a2-precision:{task['cls']}:{optkey(task['opts'])}:n={task['n']}", f"{task['key']}: " + res["detail"],
                 dict(rep, observed_err=res.get("err"), err_without_a2=res.get("err_without_a2")))
    elif res["status"] == "raises":
        ctx.fail(task["key"] + ("" if task.get("fixed_key") else ":raises"), res["detail"], rep)
    elif task.get("allclose_probe") and res.get("err", 1.0) <= 1e-5:
        ctx.count("allclose-merge")
        ctx.fail(task["key"], res["detail"] + " -- two sibling multiplexer blocks 3e-6 apart are merged by np.allclose (rtol 1e-5) in "
                 "qiskit's UCGate._simplify / ucge._repetition_search; 3e-5 apart (cases `allclose:delta=3e-05`) the state is exact",
                 dict(rep, observed_err=res.get("err"), allclose_probe=True))
    else:
        ctx.fail(task["key"], res["detail"], dict(rep, observed_err=res.get("err")))


# ------------------------------------------------------------------------------------------------
# oracle (case generation)
# ------------------------------------------------------------------------------------------------

ISO = ["ccd", "csd", "knill"]
UNI = ["qsd", "csd"]
SCHEME_PAIRS = [(i, u) for i in ISO for u in UNI]


def fam_vectors(ctx, r, n, fams, part=None, reps=1):
    for fam in fams:
        for j in range(reps if fam in ("complex", "sparse", "zero_subtree", "rankdef") else (3 if fam in ("signed_product", "partial_repetition") else 1)):
            v = make_vector(r, n, fam, part)
            p = default_partition(n) if part is None else part
            tries = 0
            while n >= 2 and in_band(n, v, p) and tries < 5:
                ctx.count("skipped:threshold-band")
                v = make_vector(r, n, fam, part)
                tries += 1
            yield fam, j, v


def gen_tasks(ctx, nmax):
    r = ctx.nprng()
    quick = ctx.quick
    reps = 1 if quick else 2
    tasks = []
    cyc = itertools.count()

    for n in range(1, nmax + 1):
        # ---- TopDownInitialize
        for opts, upto in ((None, False), ({"global_phase": True}, False), ({"global_phase": False}, True),
                           ({"lib": "qiskit"}, False), ({"lib": "qclib", "global_phase": True}, False)):
            fams = FAMILIES if opts is None or n <= 4 else ["complex", "zero_subtree", "basis"]
            for fam, j, v in fam_vectors(ctx, r, n, fams, reps=reps):
                tasks.append(make_task("TopDownInitialize", opts, n, fam, j, v, upto_phase=upto))

        # ---- UCGInitialize / UCGEInitialize
        for cls in ("UCGInitialize", "UCGEInitialize"):
            for opts in (None, {"target_state": 0, "preserve_previous": False}, {"target_state": 0, "preserve_previous": True}):
                if cls == "UCGEInitialize" and opts and opts["preserve_previous"]:
                    continue    # outside C01's quantifier (coordinator decision); see the note in run_oracle
                fams = FAMILIES if opts is None or n <= 4 else ["complex", "sparse", "product", "signed_product", "partial_repetition"]
                for fam, j, v in fam_vectors(ctx, r, n, fams, reps=reps):
                    tasks.append(make_task(cls, opts, n, fam, j, v))

        # ---- IsometryInitialize
        for scheme in (None, "ccd", "csd", "knill"):
            if scheme == "knill" and n < 2:
                continue        # decompose(.., 'knill') is defined from two qubits (explicit ValueError at N=2)
            opts = None if scheme is None else {"scheme": scheme}
            fams = FAMILIES if n <= 5 else ["complex", "real_signed", "sparse", "basis", "product", "ghz"]
            for fam, j, v in fam_vectors(ctx, r, n, fams, reps=reps):
                tasks.append(make_task("IsometryInitialize", opts, n, fam, j, v))

        # ---- SVDInitialize (defined from two qubits: it splits the register in two non-empty halves)
        if n >= 2:
            for fam, j, v in fam_vectors(ctx, r, n, FAMILIES, part=list(range(n // 2)), reps=reps):
                tasks.append(make_task("SVDInitialize", None, n, fam, j, v))

        # ---- LowRankInitialize
        for fam, j, v in fam_vectors(ctx, r, n, FAMILIES, reps=reps):
            tasks.append(make_task("LowRankInitialize", None, n, fam, j, v))
        if n >= 2:
            subsets = [list(s) for k in range(1, n) for s in itertools.combinations(range(n), k)]
            if n > 4:
                subsets = ctx.rng.sample(subsets, 6 if quick else 14)
            for sub in subsets:
                mind = min(2 ** len(sub), 2 ** (n - len(sub)))
                fams = ["complex", "rankdef", "repeated", ctx.rng.choice(["real_signed", "sparse", "product", "ghz", "w", "basis",
                                                                         "zero_subtree", "uniform", "nonneg"])]
                for fam, j, v in fam_vectors(ctx, r, n, fams, part=sub):
                    iso, uni = SCHEME_PAIRS[next(cyc) % len(SCHEME_PAIRS)]
                    lr = [0, mind, mind + 3][next(cyc) % 3]      # every value keeps the full Schmidt rank
                    svd = ["auto", "regular"][next(cyc) % 2]
                    opts = {"partition": sub, "iso_scheme": iso, "unitary_scheme": uni, "lr": lr, "svd": svd}
                    tasks.append(make_task("LowRankInitialize", opts, n, fam, j, v))
                    if n <= 3:
                        for iso2, uni2 in SCHEME_PAIRS:
                            if (iso2, uni2) != (iso, uni):
                                tasks.append(make_task("LowRankInitialize",
                                                       {"partition": sub, "iso_scheme": iso2, "unitary_scheme": uni2}, n, fam, j, v))
            # the same sets passed as unsorted lists (`partition` is documented as a *set* of qubit indices)
            for sub in subsets:
                if len(sub) < 2:
                    continue
                sh = list(sub)
                while sh == sorted(sh):
                    ctx.rng.shuffle(sh)
                for fam, j, v in fam_vectors(ctx, r, n, ["complex", "rankdef"], part=sub):
                    iso, uni = SCHEME_PAIRS[next(cyc) % len(SCHEME_PAIRS)]
                    tasks.append(make_task("LowRankInitialize", {"partition": sh, "iso_scheme": iso, "unitary_scheme": uni},
                                           n, fam, j, v,
                                           tag="LowRankInitialize:partition-order:unsorted-list:P=" + ",".join(map(str, sh))))
            # scheme options on the default partition
            for iso, uni in SCHEME_PAIRS:
                for fam, j, v in fam_vectors(ctx, r, n, ["complex", "rankdef", "sparse"]):
                    tasks.append(make_task("LowRankInitialize", {"iso_scheme": iso, "unitary_scheme": uni}, n, fam, j, v))
            # lr below the size limit but not below the Schmidt rank: still exact
            for sub in ([default_partition(n)] if n < 4 else [default_partition(n), [0], [n - 1]]):
                for rk_fam in ("rankdef", "product", "ghz"):
                    v = make_vector(r, n, rk_fam, sub)
                    s = np.linalg.svd(ref_sep(n, v, sub), compute_uv=False)
                    eff = int((s > 1e-7).sum())
                    if in_band(n, v, sub):
                        continue
                    tasks.append(make_task("LowRankInitialize", {"partition": sub, "lr": eff}, n, rk_fam, f"lr=eff{len(sub)}", v))
                    # randomized SVD is exact when the requested rank is 2 = a power of two >= Schmidt rank
                    # (rank 1 is rounded inside randomized_svd only through the data; nested calls get lr=0)
                    if eff <= 2:
                        tasks.append(make_task("LowRankInitialize", {"partition": sub, "lr": 2, "svd": "randomized"}, n, rk_fam,
                                               f"rand{len(sub)}", v))

        # ---- BaaLowRankInitialize, zero allowed loss
        for fam, j, v in fam_vectors(ctx, r, n, FAMILIES, reps=reps):
            tasks.append(make_task("BaaLowRankInitialize", None, n, fam, j, v))
        baa_grid = []
        for strategy in ("greedy", "brute_force", "split", "canonical"):
            for ulr in (False, True):
                for mcs in (0, 1, 2):
                    if mcs > max(1, n // 2):
                        continue
                    baa_grid.append({"max_fidelity_loss": 0.0, "strategy": strategy, "use_low_rank": ulr,
                                     "max_combination_size": mcs})
        for g in baa_grid:
            iso, uni = SCHEME_PAIRS[next(cyc) % len(SCHEME_PAIRS)]
            opts = dict(g, iso_scheme=iso, unitary_scheme=uni)
            fams = ["complex", "product", ctx.rng.choice(["rankdef", "ghz", "w", "sparse", "basis", "real_signed", "repeated",
                                                          "zero_subtree"])]
            if n >= 6 and g["strategy"] == "brute_force":
                fams = fams[:2]
            for fam, j, v in fam_vectors(ctx, r, n, fams):
                tasks.append(make_task("BaaLowRankInitialize", opts, n, fam, j, v))
    return tasks


def probe_unsorted(ctx):
    """`partition` given as an unsorted list (the docstring calls it a *set* of qubit indices)."""
    r = np.random.default_rng(11)
    tasks = []
    for n, part in ((3, [1, 0]), (3, [2, 0]), (4, [2, 0, 1]), (4, [3, 1])):
        v = _clean(r.normal(size=2 ** n) + 1j * r.normal(size=2 ** n))
        t = make_task("LowRankInitialize", {"partition": part}, n, "complex", 0, v,
                      tag="LowRankInitialize:partition-order:unsorted-list")
        t["key"] = "LowRankInitialize:partition-order:unsorted-list"
        tasks.append(t)
    return tasks


A2_PROBE_M = [[-0.729069172542213, 0.493998485646007], [-0.5117022689246972, -0.3024283467785967],
              [-0.37965359476427246, -0.00433375675044421], [-0.24996415264692562, -0.815158763552625]]


def probe_a2(ctx):
    """Fixed 3-qubit input (found by the C07 check) on which the csd isometry called by `_encode` reproduces its 4x2
    matrix only to ~1e-5: probed on every run so that the known finding is printed when it is present."""
    m = np.array(A2_PROBE_M) * np.array([0.8, 0.6])
    v = _clean(ref_undo(3, m, [0]))
    return [make_task("LowRankInitialize", {"partition": [0]}, 3, "a2_probe", 0, v)]


# ------------------------------------------------------------------------------------------------
# branch coverage of the anchored sources (tools/branch_audit.py C01): entry points and option
# values that the family x option grid above never passes
# ------------------------------------------------------------------------------------------------

ALL_CLASSES = ["TopDownInitialize", "UCGInitialize", "UCGEInitialize", "IsometryInitialize", "SVDInitialize",
               "LowRankInitialize", "BaaLowRankInitialize"]

UNREACHED_JUSTIFIED = {
    "qclib/state_preparation/lowrank.py:224": "cnot_count(partition=...) is the CNOT estimate (C10); C01 reaches it only through BAA, which passes no partition",
    "qclib/state_preparation/ucg.py:143-144,203-207,224-227": "target bit '1' needs target_state != 0: preparation from |t>, t > 0, is property C12 (C01 states |0..0>)",
    "qclib/state_preparation/ucge.py:136-137": "target bit '1' (target_state != 0): property C12",
    "qclib/state_preparation/ucge.py:106-107": "UCGEInitialize with preserve_previous=True is outside C01's option list and C12 states preserve for the plain variant only (see the note of run_oracle)",
    "qclib/state_preparation/isometry.py:69-76": "scheme='qiskit' delegates to QuantumCircuit.isometry, which the installed qiskit no longer has; not in C01's scheme list {ccd, csd, knill}",
    "qclib/state_preparation/util/state_tree_preparation.py:__str__": "debug printing",
    "qclib/state_preparation/util/angle_tree_preparation.py:__str__": "debug printing",
    "qclib/state_preparation/util/angle_tree_preparation.py:59-60": "dead: mag is a quotient of an abs() and a sqrt(), never negative (the upper clamp at 61-62 IS reached, family 'denormal')",
    "qclib/state_preparation/util/tree_walk.py:43-45": "start_level > 0 is passed only by the bidirectional initializer (not a C01 class); topdown.py always passes 0",
    "qclib/state_preparation/util/tree_walk.py:bottom_up,_apply_cswaps": "used by the divide-and-conquer / bidirectional initializers only",
    "qclib/entanglement.py:_get_iota,generalized_cross_product,geometric_entanglement,meyer_wallach_entanglement,qb_approximation": "entanglement measures, not used by any dense initializer",
    "qclib/entanglement.py:schmidt_composition": "inverse of schmidt_decomposition, property C09; no initializer calls it",
    "qclib/unitary.py:40-47": "validation raises of unitary(): rejection is property C16; the SVD factors handed over by the initializers are unitary",
    "qclib/unitary.py:53-57": "fallback when qiskit's A.2 pass raises: probed by C02/C03 (unitary-a2-fallback:hadamard3-iso2); states built from two Hadamard columns as Schmidt vectors were pre-screened and do not reach it (the SVD returns the columns with other signs)",
    "qclib/unitary.py:104-105,_qrd,_build_qr_circuit,_build_qr_gate_sequence,_get_row_col,_row_and_col_qubits,_apply_cx,_apply_mcxs,_undo_mcxs,_append_mcmt_gate": "decomposition='qr' is never selected by an initializer (unitary_scheme in {qsd, csd}); property C02",
    "qclib/unitary.py:225-296": "cnot_count and its estimates: property C10",
    "qclib/isometry.py:74-85": "validation raises of _check_isometry: property C16; a unit vector is a valid 2^n x 1 isometry",
    "qclib/isometry.py:104-105": "knill on fewer than two qubits raises by design (documented ValueError); C01 starts knill at n = 2",
    "qclib/isometry.py:149-151": "_extend_to_unitary of a square matrix: LowRankInitialize._encode sends square blocks to decompose_unitary, state vectors are 2^n x 1",
    "qclib/isometry.py:341-368,440-443,_cnot_count_estimate_knill": "cnot_count and its estimates: property C10",
}


def _pick_clamp_amplitude():
    """A positive float r whose square is subnormal and rounds DOWN, so that the state tree gives the node (0, r) the
    magnitude sqrt(0.0**2 + r**2) < r and `create_angles_tree` sees mag = r / sqrt(r**2) > 1.0: the only way to the upper
    clamp of angle_tree_preparation.py:61-62 (for normal floats sqrt(fl(x*x)) == x).  Chosen by float arithmetic alone, not
    by running the code under test, so that the case is generated whatever the code does with it."""
    for k in range(1, 400):
        r = (1.0 + k / 397.0) * 1e-160
        p = math.sqrt(0.0 ** 2 + r ** 2)
        if p != 0.0 and r / p > 1.0:
            return r
    return None


def clamp_branch_taken(v):
    """Evidence that the real create_angles_tree took a clamp branch on v: a node for which `asin` was not called
    (recording proxy of the module's `math`).  Returns the number of such nodes (None if the real code raised)."""
    import qclib.state_preparation.util.angle_tree_preparation as atp
    from qclib.state_preparation.util.state_tree_preparation import state_decomposition, Amplitude

    class MathProxy:
        pi = math.pi

        def __init__(self):
            self.asin_calls = 0

        def asin(self, x):
            self.asin_calls += 1
            return math.asin(x)

    proxy, orig = MathProxy(), atp.math
    atp.math = proxy
    try:
        n = int(round(math.log2(len(v))))
        atp.create_angles_tree(state_decomposition(n, [Amplitude(i, complex(a)) for i, a in enumerate(v)]))
    except Exception:
        return None
    finally:
        atp.math = orig
    return (len(v) - 1) - proxy.asin_calls


def clamp_vectors():
    """Unit vectors (to machine precision) with one amplitude r ~ 1e-160 alone under its parent."""
    r = _pick_clamp_amplitude()
    if r is None:
        return []
    return [np.array(x, dtype=complex) for x in
            ([1.0, 0.0, 0.0, r], [0.0, r, 0.6, 0.8j], [0.6, 0, 0, 0, 0.8, 0, 0, -r], [0.0, 1j * r, 0.0, 0.0, 0.0, 0.0, 0.0, -1.0])]


def gen_branch_tasks(ctx):
    r = ctx.nprng()
    tasks = []

    def opts_for(cls, j):
        if cls == "IsometryInitialize":
            return {"scheme": ["ccd", "csd", "knill"][j % 3]}
        if cls == "LowRankInitialize":
            return {"iso_scheme": ISO[j % 3], "unitary_scheme": UNI[j % 2]}
        if cls == "BaaLowRankInitialize":
            return {"max_fidelity_loss": 0.0, "strategy": ["greedy", "brute_force"][j % 2]}
        return None

    j = 0
    for cls in ALL_CLASSES:
        for n in (1, 2, 3, 4):
            if n < 2 and cls == "SVDInitialize":
                continue
            for fam in ("complex", "sparse", "real_signed"):
                j += 1
                opts = opts_for(cls, j) if j % 2 else None
                if n < 2 and opts and opts.get("scheme") == "knill":
                    opts = {"scheme": "ccd"}
                v = make_vector(r, n, fam)
                # (1) an explicit label (the `if label is None` default is skipped)
                if fam == "complex":
                    tasks.append(make_task(cls, opts, n, fam, 0, v, label=f"my {cls[:3]} {n}",
                                           tag=f"{cls}:label:{optkey(opts)}"))
                    ctx.count("branch:label-given")
                # (2) static Class.initialize(circuit, state): qubits=None appends on all wires of the circuit
                if fam == "sparse" or n == 1:
                    tasks.append(make_task(cls, opts, n, fam, 0, v, entry={"width": n, "qubits": None},
                                           tag=f"{cls}:initialize:qubits=None:{optkey(opts)}"))
                    ctx.count("branch:initialize:qubits=None")
                # (3) ... and an explicit wire list (a shuffled selection of n wires of an (n+1)-wire circuit)
                if fam == "real_signed" or n == 1:
                    qs = ctx.rng.sample(range(n + 1), n)
                    tasks.append(make_task(cls, opts, n, fam, 0, v, entry={"width": n + 1, "qubits": qs},
                                           tag=f"{cls}:initialize:qubits={','.join(map(str, qs))}:{optkey(opts)}"))
                    ctx.count("branch:initialize:qubits=list")

    # (4) an option dictionary that names none of the options (every `opt_params.get(..) is None` default)
    for cls in ALL_CLASSES:
        if cls in ("SVDInitialize", "UCGInitialize", "UCGEInitialize"):
            continue      # no opt_params / `target_state` has no default inside a dictionary (None // 2 raises)
        for n in (1, 2, 3):
            for fam in ("complex", "zero_subtree"):
                tasks.append(make_task(cls, {}, n, fam, 0, make_vector(r, n, fam), tag=f"{cls}:empty-options"))
                ctx.count("branch:opt_params={}")
    # UCG/UCGE: preserve_previous left out of the dictionary (None = do not preserve)
    for cls in ("UCGInitialize", "UCGEInitialize"):
        for n in (1, 2, 3):
            tasks.append(make_task(cls, {"target_state": 0}, n, "complex", 0, make_vector(r, n, "complex")))
            ctx.count("branch:ucg:preserve-omitted")

    # (5) BAA: an allowed loss outside [0, 1] "will be ignored" (docstring) = zero loss, exact preparation
    for mfl in (-0.25, 1.5):
        for n in (2, 3, 4):
            for fam, strategy in (("complex", "greedy"), ("ghz", "brute_force"), ("rankdef", "greedy")):
                v = make_vector(r, n, fam)
                tasks.append(make_task("BaaLowRankInitialize", {"max_fidelity_loss": mfl, "strategy": strategy}, n, fam, 0, v))
                ctx.count("branch:baa:loss-out-of-range-ignored")

    # (6) the upper clamp of create_angles_tree (mag > 1.0 by one rounding error; needs a subnormal square)
    for i, v in enumerate(clamp_vectors()):
        n = int(round(math.log2(len(v))))
        for cls, opts in (("TopDownInitialize", None), ("TopDownInitialize", {"global_phase": True}), ("LowRankInitialize", None),
                          ("BaaLowRankInitialize", None)):
            if cls != "TopDownInitialize" and i:
                continue
            tasks.append(make_task(cls, opts, n, "denormal", i, v))
            ctx.count("branch:topdown:clamp-upper(oracle)")
    return tasks


# ------------------------------------------------------------------------------------------------
# boundary values of the anchored sources: inputs AT and next to the thresholds (tie and oracle)
#   ucr.py:48       abs(angle) > 1e-8   (every leaf of the multiplexer recursion)
#   ucg.py:185,188  amplitude != 0      (exact zero vs tiny non-zero)
#   ucge.py / qiskit UCGate._simplify   np.allclose(block_i, block_0)  (rtol 1e-5, atol 1e-8)
#   entanglement.py _effective_rank 1e-7; schmidt_decomposition svd='auto' switch (n = 13/14/15, lr = 1)
# ------------------------------------------------------------------------------------------------

ALLCLOSE_KEY = "dense-allclose-merge"


def _cunit(x):
    x = np.asarray(x, dtype=complex)
    return x / np.linalg.norm(x)


def angle_threshold_vectors():
    """(name, vector): a rotation angle (n = 1) or a multiplexed angle combination (n = 2, 3) of size t for t a factor 3 below
    the 1e-8 cut of ucr (gate skipped; the state is off by t/2), a factor 3 above it (gate present) and at 1e-6, where a skipped
    gate would be visible to the Statevector comparison as well."""
    out = []
    for t in (3e-9, 3e-8, 1e-6):
        out.append((f"ry-angle={t:g}", np.array([math.cos(t / 2), math.sin(t / 2)], dtype=complex)))
        out.append((f"rz-angle={t:g}", np.array([1.0, np.exp(1j * t)], dtype=complex) / math.sqrt(2)))
        a = 0.9
        # two-angle multiplexer (a, a + 2t): combinations (a + t, -t)
        out.append((f"mux2-ry-diff={t:g}", _cunit(np.concatenate([0.6 * np.array([math.cos(a / 2), math.sin(a / 2)]),
                                                                  0.8 * np.array([math.cos(a / 2 + t), math.sin(a / 2 + t)])]))))
        out.append((f"mux2-rz-diff={t:g}", _cunit(np.concatenate([0.6 * np.array([1.0, np.exp(0.7j)]),
                                                                  0.8 * np.array([1.0, np.exp(1j * (0.7 + 2 * t))])]))))
        # four-angle multiplexer, one angle 4t off: every non-constant combination is +-t
        blocks = [np.array([math.cos(a / 2), math.sin(a / 2)])] * 3 + [np.array([math.cos(a / 2 + 2 * t), math.sin(a / 2 + 2 * t)])]
        out.append((f"mux4-ry-diff={t:g}", _cunit(np.concatenate([w * b for w, b in zip((0.4, 0.5, 0.6, 0.48), blocks)]))))
    return out


def tiny_vectors(r, n, tiny):
    """Generic vector with (a) one amplitude, (b) one aligned sibling pair and (c), n >= 3, one aligned block of four scaled to
    `tiny`: non-zero but far below the other amplitudes (the code's tests are exact `!= 0` / `mag != 0.0`)."""
    dim = 2 ** n
    out = []
    base = make_vector(r, n, "complex")
    for name, idx in (("one", [int(r.integers(dim))]), ("pair", [2 * int(r.integers(dim // 2)) + b for b in (0, 1)]),
                      ("quad", [4 * int(r.integers(max(1, dim // 4))) + b for b in range(4)] if n >= 3 else None)):
        if idx is None:
            continue
        v = base.copy()
        v[idx] = v[idx] * tiny
        out.append((f"tiny={tiny:g}:{name}", _clean(v)))
    return out


def allclose_vectors(delta, n):
    """Two sibling multiplexer blocks a relative `delta` apart: f1 = unit([0.6, 0.8 (1 + delta)]) next to f0 = [0.6, 0.8]."""
    f0 = _cunit([0.6, 0.8])
    f1 = _cunit([0.6, 0.8 * (1 + delta)])
    v = _cunit(np.concatenate([0.6 * f0, 0.8 * f1]))
    if n == 3:
        v = _cunit(np.kron(v, _cunit([1, 1j])))
    return v


def atol_vectors(d):
    """Blocks identity-like vs off by an absolute d in a zero entry (np.allclose atol = 1e-8)."""
    return _cunit(np.concatenate([0.6 * np.array([1.0, 0.0]), 0.8 * _cunit([1.0, d])]))


def run_tie_boundaries(ctx):
    for name, v in angle_threshold_vectors():
        for gp in (None, False):
            tie_topdown(ctx, _clean(v), gp, "angle-threshold")
        ctx.count("boundary:tie:ucr-angle-vs-1e-8:" + name.split("=")[1])
    r = ctx.nprng()
    for n in (2, 3):
        for tiny in (1e-12, 3e-9):
            for name, v in tiny_vectors(r, n, tiny):
                tie_topdown(ctx, v, None, "tiny")
                ctx.count("boundary:tie:amplitude-tiny-nonzero")


def gen_boundary_tasks(ctx):
    r = ctx.nprng()
    tasks = []
    # (1) rotation angles around the 1e-8 cut of ucr
    for name, v in angle_threshold_vectors():
        n = int(round(math.log2(len(v))))
        for opts in (None, {"lib": "qiskit"}):
            tasks.append(make_task("TopDownInitialize", opts, n, "angle-threshold", name, _clean(v)))
        ctx.count("boundary:ucr-angle-vs-1e-8:" + name.split("=")[1])
    # (2) amplitudes tiny but not zero
    for n in (2, 3, 4):
        for tiny in (1e-12, 3e-9):
            for name, v in tiny_vectors(r, n, tiny):
                classes = [("TopDownInitialize", None), ("UCGInitialize", None), ("UCGEInitialize", None),
                           ("IsometryInitialize", {"scheme": "ccd"})]
                if tiny == 1e-12:      # Schmidt-based classes: keep coefficients out of the (1e-9, 1e-5) band
                    classes += [("LowRankInitialize", None), ("SVDInitialize", None), ("BaaLowRankInitialize", None),
                                ("IsometryInitialize", {"scheme": "knill"}), ("IsometryInitialize", {"scheme": "csd"})]
                for cls, opts in classes:
                    tasks.append(make_task(cls, opts, n, "tiny", name, v))
                ctx.count(f"boundary:amplitude-tiny-nonzero:{tiny:g}")
    # (3) sibling multiplexer blocks next to the np.allclose merge (UCGate._simplify / ucge._repetition_search)
    mux_classes = [("UCGInitialize", None), ("UCGEInitialize", None), ("IsometryInitialize", {"scheme": "ccd"})]
    for n in (2, 3):
        for delta, side in ((3e-9, "inside(negligible)"), (3e-5, "outside(rtol x3)")):
            for cls, opts in mux_classes:
                tasks.append(make_task(cls, opts, n, "allclose", f"delta={delta:g}", allclose_vectors(delta, n)))
            ctx.count("boundary:allclose-rtol:" + side)
        for cls, opts in mux_classes:
            # inside the tolerance and visible: the known merge (one key per class and size)
            t = make_task(cls, opts, n, "allclose", "delta=3e-6", allclose_vectors(3e-6, n))
            t["key"] = f"{ALLCLOSE_KEY}:{cls}:{optkey(opts)}:n={n}:delta=3e-6"
            t["allclose_probe"] = True
            tasks.append(t)
        ctx.count("boundary:allclose-rtol:inside(finding-probe)")
    for d, side in ((3e-9, "below-atol"), (3e-8, "above-atol"), (1e-6, "above-atol-x100")):
        for cls, opts in mux_classes:
            tasks.append(make_task(cls, opts, 2, "allclose-atol", f"d={d:g}", atol_vectors(d)))
        ctx.count("boundary:allclose-atol:" + side)
    # (3b) a sibling pair of amplitudes whose SQUARES are subnormal (4e-162, 2e-162): the pair's norm (ucg.py:141, isometry.py
    #      Lemma 2) is then computed from a few subnormal quanta.  Fixed literals; one key per class and size, ok when right.
    sub = {2: np.array([1.0, 0.0, 4e-162, 2e-162], dtype=complex),
           3: np.array([0.6, 0, 0, 0.8j, 0, 0, 3e-162j, -4e-162], dtype=complex)}
    for n, v in sub.items():
        for cls, opts in mux_classes + [("TopDownInitialize", None), ("LowRankInitialize", None), ("IsometryInitialize", {"scheme": "csd"})]:
            t = make_task(cls, opts, n, "subnormal-pair", 0, v)
            t["key"] = f"dense-subnormal-pair:{cls}:{optkey(opts)}:n={n}"
            t["fixed_key"] = True
            tasks.append(t)
        ctx.count("boundary:amplitude-pair-with-subnormal-squares")
    # (4) one Schmidt coefficient a factor 3 below the 1e-7 rank cut (dropped: error <= 3.3e-8)
    for n, part in ((3, [0, 1]), (4, [0, 1])):
        k = len(part)
        u = _haar_cols(r, 2 ** (n - k), 2)
        w = _haar_cols(r, 2 ** k, 2)
        v = _clean(ref_undo(n, (u * np.array([1.0, 3.3e-8])) @ w.T, part))
        for cls, opts in (("LowRankInitialize", None), ("SVDInitialize", None), ("BaaLowRankInitialize", None),
                          ("LowRankInitialize", {"partition": part, "iso_scheme": "knill", "unitary_scheme": "csd"})):
            tasks.append(make_task(cls, opts, n, "sv-cut-below", "3.3e-8", v))
        ctx.count("boundary:schmidt-coefficient-vs-1e-7:below(3.3e-8)")
    # (5) svd='auto' switch of schmidt_decomposition (lr == 1 and n >= 14 and partition above round(n/2.5)): product states
    #     across the default partition keep lr = 1 exact and the circuit cheap (two states of <= 8 qubits)
    for n, opts in ((13, {"lr": 1}), (14, {"lr": 1}), (15, {"lr": 1}), (14, {"lr": 1, "svd": "regular"}),
                    (14, {"lr": 1, "partition": list(range(6))})):
        part = opts.get("partition") or default_partition(n)
        k = len(part)
        v = _clean(np.kron(_haar_cols(r, 2 ** k, 1)[:, 0], _haar_cols(r, 2 ** (n - k), 1)[:, 0]))   # partition = leading qubits
        t = make_task("LowRankInitialize", opts, n, "product-across", 0, v)
        t["rsvd_seed"] = ctx.rng.randrange(2 ** 31)
        tasks.append(t)
        ctx.count(f"boundary:svd-switch:n={n}:len={k}:{opts.get('svd', 'auto')}")
    # (6) registers wider than the usual sizes (n = 9, 10, 11), where container iteration order, index widths and register
    #     bookkeeping can first go wrong: Schmidt rank 2 across the partition in use keeps the encoders small, the partition
    #     runs over the default one, interleaved ones, one-qubit ones and ones whose complement holds the top qubit(s)
    wide = [(9, None), (9, [0, 2, 4, 6, 7]), (9, [1, 3, 5, 8]), (9, [8]), (9, [0, 1, 2, 3, 4, 5, 6, 7]), (9, [4, 5, 6, 7, 8]),
            (9, [0, 1, 2, 3]), (10, None), (10, [0, 3, 5, 7, 9]), (10, [8, 9]), (10, [1, 2, 4, 5, 6]), (11, None),
            (11, [0, 2, 4, 6, 8, 10])]
    for n, part0 in wide:
        part = sorted(part0) if part0 is not None else default_partition(n)
        k = len(part)
        u = _haar_cols(r, 2 ** (n - k), 2)
        w = _haar_cols(r, 2 ** k, 2)
        v = _clean(ref_undo(n, (u * np.array([1.0, 0.6])) @ w.T, part))
        opts = None if part0 is None else {"partition": list(part0)}
        tasks.append(make_task("LowRankInitialize", opts, n, "wide-rank2", ",".join(map(str, part)), v))
        ctx.count(f"boundary:wide-register:n={n}:len={k}:top-in-{'partition' if n - 1 in part else 'complement'}")
    return tasks


def run_oracle(ctx, nmax=None):
    nmax = nmax or (6 if ctx.quick else 8)
    tasks = gen_tasks(ctx, nmax) + gen_branch_tasks(ctx) + gen_boundary_tasks(ctx) + probe_unsorted(ctx) + probe_a2(ctx)
    run_tasks(ctx, tasks)
    ctx.notes.append("boundary cases (gen_boundary_tasks / run_tie_boundaries): rotation and multiplexed-angle combinations of 3e-9 / 3e-8 / "
                     "1e-6 around ucr's 1e-8 cut (tie of the gate list at all three, Statevector sensitive from 1e-6), amplitudes tiny but "
                     "non-zero (1e-12 all classes, 3e-9 for the classes without a Schmidt step), sibling multiplexer blocks a relative "
                     "3e-9 / 3e-5 apart and 3e-9 / 3e-8 / 1e-6 apart in a zero entry (either side of np.allclose's rtol 1e-5 / atol 1e-8 in "
                     "qiskit's UCGate._simplify and ucge._repetition_search); 3e-6 apart is the known merge, probed under "
                     f"{ALLCLOSE_KEY}:<Class>:<options>:n=<n>:delta=3e-6; one Schmidt coefficient at 3.3e-8; n = 13 / 14 / 15 with lr = 1 on "
                     "product states around the randomized-SVD switch")
    ctx.notes.append("UCGEInitialize with preserve_previous=True is NOT exercised (outside C01's option list; C12 states "
                     "'preserve' for the plain variant only). Observed on the unchanged tree: it prepares a wrong state whenever "
                     "_simplify drops a control, e.g. v = kron([0.6,0.8],[1,1j]/sqrt(2)), opt_params={'target_state':0,"
                     "'preserve_previous':True}: max error 0.57 (UCGInitialize with the same options is right)")
    ctx.notes.append(f"oracle: Statevector(definition) vs vector to {TOL}, global phase included except global_phase=False; "
                     f"Schmidt coefficients of generated vectors (across the partition in use / the default one) stay outside "
                     f"[{BAND[0]}, {BAND[1]}] around the 1e-7 rank threshold (exact zeros come out as ~1e-17); amplitudes are exact "
                     "zeros or >= 0.2/sqrt(2^n) before normalisation; SVDInitialize and the knill scheme from n=2 "
                     "(both reject one qubit by an explicit ValueError); an error in (1e-7, 1e-3] that disappears when "
                     "qclib.unitary._apply_a2 is bypassed is reported under dense-a2-precision:<Class>:<options>:n=<n> (known "
                     "precision limit of qiskit's A.2 re-synthesis); IsometryInitialize scheme='qiskit' is outside the "
                     "property's quantifier (and QuantumCircuit.isometry no longer exists in the installed qiskit)")


# ------------------------------------------------------------------------------------------------
# tie: TopDownInitialize  (trees, allocation, multiplexer calls, flattened gate list, global phase)
# ------------------------------------------------------------------------------------------------

@contextlib.contextmanager
def capture_topdown():
    """Look at the trees and the `ucr` calls the real `_define_initialize` works with (no source hook):
    wrap the names as imported by topdown.py / tree_walk.py."""
    import qclib.state_preparation.topdown as mod
    import qclib.state_preparation.util.tree_walk as tw
    cap = {"mux": []}
    orig_add, orig_sd, orig_ucr = mod.add_register, mod.state_decomposition, tw.ucr

    def add_register(circuit, angle_tree, start_level):
        res = orig_add(circuit, angle_tree, start_level)
        cap["angle_tree"], cap["circuit"], cap["start_level"] = angle_tree, circuit, start_level
        return res

    def state_decomposition(nqubits, data):
        t = orig_sd(nqubits, data)
        cap["state_tree"] = t
        return t

    def ucr(r_gate, angles, *a, **k):
        last = k.get("last_control", a[1] if len(a) > 1 else True)
        cap["mux"].append((r_gate.__name__, [float(x) for x in angles], bool(last)))
        return orig_ucr(r_gate, angles, *a, **k)

    mod.add_register, mod.state_decomposition, tw.ucr = add_register, state_decomposition, ucr
    try:
        yield cap
    finally:
        mod.add_register, mod.state_decomposition, tw.ucr = orig_add, orig_sd, orig_ucr


def ff(x):
    return repr(float(x))


def topdown_impl(v, gp, extra_opts=None):
    """Returns (op-dict fields, impl lines) of the real TopDownInitialize.  `gp` is handed over as it is (None = no
    opt_params; a numpy.bool_ / int stands for the bool of the same truth value)."""
    from flatten import flatten, to_lines
    import qclib.state_preparation.topdown as mod
    opts = None if gp is None else dict({"global_phase": gp}, **(extra_opts or {}))
    with capture_topdown() as cap:
        gate = mod.TopDownInitialize(list(v), opt_params=opts)
        d = gate.definition
    lines, leaves = [], []

    def walk_st(t):
        if t is None:
            return
        lines.append(f"st {t.level} {t.index} ; {ff(t.mag)} {ff(t.arg)}")
        if t.left is None and t.right is None:
            leaves.append((t.index, float(t.mag), float(t.arg)))
        walk_st(t.left)
        walk_st(t.right)
    walk_st(cap["state_tree"])
    circ = cap["circuit"]

    def walk_alloc(t):
        if t is None:
            return
        q = getattr(t, "qubit", None)
        lines.append(f"alloc {t.level} {t.index} {-1 if q is None else circ.find_bit(q).index} ;")
        walk_alloc(t.left)
        walk_alloc(t.right)
    walk_alloc(cap["angle_tree"])

    def walk_at(t):
        if t is None:
            return
        lines.append(f"at {t.level} {t.index} ; {ff(t.angle_y)} {ff(t.angle_z)}")
        walk_at(t.left)
        walk_at(t.right)
    walk_at(cap["angle_tree"])
    insts = list(d.data)
    if len(insts) != len(cap["mux"]):
        lines.append(f"MUX-COUNT-MISMATCH {len(insts)} {len(cap['mux'])} ;")
    for inst, (gname, angles, last) in zip(insts, cap["mux"]):
        ws = [d.find_bit(q).index for q in inst.qubits]
        ax = {"RYGate": "Y", "RZGate": "Z"}.get(gname, gname)
        lines.append(f"mux{ax} {int(last)} {' '.join(map(str, ws))} ; {' '.join(ff(a) for a in angles)}")
    lines.append(f"width {d.num_qubits} ;")
    lines += to_lines(flatten(d))
    leaves.sort()
    return [m for _, m, _ in leaves], [a for _, _, a in leaves], lines


def tie_topdown(ctx, v, gp, family, extra_opts=None):
    try:
        mag, arg, lines = topdown_impl(v, gp, extra_opts)
    except Exception:
        return      # reported by the oracle as `:raises`
    n = int(round(math.log2(len(v))))
    op = {"op": "topdown", "n": n, "gp": True if gp is None else bool(gp), "family": family,
          "re": [float(a.real) for a in v], "im": [float(a.imag) for a in v], "mag": mag, "arg": arg}
    ctx.tie(op, lines, label=f"topdown n={n} gp={gp} {family}")
    ctx.count("tie:topdown")
    ctx.count("tie:topdown:zeros" if np.any(np.abs(v) == 0) else "tie:topdown:dense")


def split_phase(lines):
    """gate lines -> (sum of gphase parameters mod 2pi, other lines)."""
    import framework
    ph, rest = 0.0, []
    for l in lines:
        if l.startswith("gphase"):
            ph += framework.parse_line(l)[2][0]
        else:
            rest.append(l)
    return ph, rest


def compare(op, impl, model):
    import framework
    if op.get("op") == "topdown":
        pi_, ri = split_phase(impl)
        pm, rm = split_phase(model)
        d = (pi_ - pm + math.pi) % (2 * math.pi) - math.pi
        if abs(d) > 1e-9:
            return f"global phase: impl {pi_!r} model {pm!r} (difference {d:.3e} mod 2pi)"
        return framework.diff_lines(ri, rm, tol=TOL)
    return framework.diff_lines(impl, model, tol=TOL)


def run_tie_topdown(ctx, nmax=None):
    nmax = nmax or (5 if ctx.quick else 6)
    r = ctx.nprng()
    reps = 1 if ctx.quick else 3
    for n in range(1, nmax + 1):
        for fam in FAMILIES:
            for _ in range(reps if fam in ("complex", "sparse", "zero_subtree", "product") else 1):
                v = make_vector(r, n, fam)
                for gp in (None, True, False):
                    tie_topdown(ctx, v, gp, fam)
    # the upper clamp of create_angles_tree (angle_tree_preparation.py:61-62): the Float model takes the same branch
    cv = clamp_vectors()
    if not cv:
        ctx.notes.append("no amplitude found whose subnormal square rounds down: the clamp branch of create_angles_tree "
                         "was not exercised")
    for v in cv:
        ctx.count("branch:topdown:clamp-upper:nodes-clamped", clamp_branch_taken(v) or 0)
        for gp in (None, False):
            tie_topdown(ctx, v, gp, "denormal")
            ctx.count("branch:topdown:clamp-upper(tie)")
    ctx.notes.append("tie TopDown: angles compared to 1e-7 (2*asin near 1 amplifies one ulp to 3e-8), global phase modulo 2pi "
                     "(qiskit normalises circuit.global_phase); lib='qiskit' is qiskit's own initialize (K4, oracle only)")


# ------------------------------------------------------------------------------------------------
# tie: LowRankInitialize / SVDInitialize assembly ("Plesch"): observation of the REAL
# _define_initialize / _encode (callees that build sub-circuits are replaced by recording stubs; no
# source edits), compared line by line with Model/Plesch.lean + Model/Schmidt.lean.
#   lrplan :  `top ; topdown` (n < 2) | `rega …` `regb …` `rank r` `ebits e`,
#             `enc <reg wires> ; <sv|U|V> <branch> <rows> <cols>` per _encode call and `cx c t` in call order,
#             `outblk <wires> ; <sv|U|V>` / `outcx c t` = the RETURNED circuit (after reverse_bits)
#   svdplan:  `rega …` `regb …` `sv <wires> ; <svd|topdown> <len(d)>` `cx c t`… `U <wires> ; r c` `V <wires> ; r c`
#   dispatch: `branch ; <name>`
# ------------------------------------------------------------------------------------------------

PLESCH_SCHEMES = (("ccd", "qsd"), ("knill", "csd"))


def _nq(rows):
    return int(round(math.log2(rows))) if rows > 0 else 0


# ---------------------------------------------------------------------------------------------
# LowRankInitialize
# ---------------------------------------------------------------------------------------------

def _encode_stubs(lowrank, ev, outer=None):
    """Recording replacements of the three callees of `_encode` (module globals of lowrank.py)."""
    from qiskit import QuantumCircuit
    from qiskit.circuit import Gate

    def blk(nq):
        """A circuit holding one opaque gate `blk<k>` on all its qubits (k = number of the _encode call)."""
        qc = QuantumCircuit(nq)
        if nq > 0:
            qc.append(Gate(f"blk{sum(1 for e in ev if e[0] == 'kind') - 1}", nq, []), list(range(nq)))
        return qc

    def sp_stub(params, *a, **k):
        opts = k.get("opt_params")
        note = ""
        if outer is not None:
            want = {"iso_scheme": outer.isometry_scheme, "unitary_scheme": outer.unitary_scheme, "svd": outer.svd}
            if opts != want or a or set(k) - {"opt_params"}:
                note = "sp-options-not-passed-on"
        ev.append(("kind", "sp", note))
        return blk(_nq(len(params)))

    def iso_stub(data, scheme="ccd", **k):
        ev.append(("kind", "iso:" + str(scheme), ""))
        return blk(_nq(data.shape[0]))

    def uni_stub(data, decomposition="qsd", **k):
        ev.append(("kind", "unitary:" + str(decomposition), ""))
        return blk(_nq(data.shape[0]))

    return sp_stub, iso_stub, uni_stub


def eff_rank(v, n, part):
    """Number of singular values above the code's own threshold, with the code's own functions."""
    from qclib.entanglement import _separation_matrix, _effective_rank
    s = np.linalg.svd(_separation_matrix(n, v, list(part)), compute_uv=False)
    return int(_effective_rank(s)), [float(x) for x in s]


def plan_impl(v, n, part, lr, iso, uni, svd, part_obj=None):
    """Observe the real `_define_initialize`.  `part=None` = default partition.  Returns (op, lines).
    `part_obj`: the object handed to the real code as `partition` (tuple / ndarray / list of numpy ints holding the
    same indices as `part`, in the same order); default `list(part)`."""
    from unittest import mock
    from qiskit import QuantumCircuit
    from qclib.state_preparation import lowrank
    opts = {"lr": lr, "iso_scheme": iso, "unitary_scheme": uni, "svd": svd}
    if part is not None:
        opts["partition"] = list(part) if part_obj is None else part_obj
    g = lowrank.LowRankInitialize(v, opt_params=opts)
    ev, cap = [], {}
    orig_sd, orig_cx, orig_tq = lowrank.schmidt_decomposition, QuantumCircuit.cx, lowrank._to_qubits
    orig_create, orig_encode = g._create_quantum_circuit, g._encode
    sp_stub, iso_stub, uni_stub = _encode_stubs(lowrank, ev, outer=g)

    class TopStub:
        def __init__(self, params, *a, **k):
            ev.append(("top", "topdown"))
            self.definition = QuantumCircuit(max(_nq(len(params)), 1))

    def sd_spy(state, partition, rank=0, svd="auto"):
        out = orig_sd(state, partition, rank=rank, svd=svd)
        ev.append(("sd", [int(a) for a in partition], int(out[0])))
        return out

    def tq_spy(x):
        r = orig_tq(x)
        ev.append(("ebits", int(r)))
        return r

    def cx_spy(self, c, t, *a, **k):
        if cap.get("circ") is self:
            ev.append(("cx", int(c), int(t)))
        return orig_cx(self, c, t, *a, **k)

    def create_spy():
        circ, ra, rb = orig_create()
        cap["circ"], cap["ra"], cap["rb"] = circ, [int(a) for a in ra], [int(a) for a in rb]
        return circ, ra, rb

    def encode_spy(data, circuit, reg):
        ev.append(("enc", tuple(int(x) for x in data.shape), [int(q) for q in reg]))
        return orig_encode(data, circuit, reg)

    g._create_quantum_circuit = create_spy
    g._encode = encode_spy
    raised = None
    with mock.patch.object(lowrank, "LowRankInitialize", sp_stub), \
            mock.patch.object(lowrank, "decompose_isometry", iso_stub), \
            mock.patch.object(lowrank, "decompose_unitary", uni_stub), \
            mock.patch.object(lowrank, "schmidt_decomposition", sd_spy), \
            mock.patch.object(lowrank, "TopDownInitialize", TopStub), \
            mock.patch.object(lowrank, "_to_qubits", tq_spy), \
            mock.patch.object(QuantumCircuit, "cx", cx_spy):
        try:
            res = g._define_initialize()
        except Exception as ex:      # the real code failed on a valid input: a tie diff, then the search runs
            raised = f"raised-{type(ex).__name__}"
    op = {"op": "lrplan", "n": int(n), "lr": int(lr), "iso": iso, "uni": uni, "svd": svd}
    if part is None:
        op["defpart"] = True
    else:
        op["P"] = [int(a) for a in part]
    if n >= 2:
        used = cap.get("ra", [])[::-1] if part is None else list(part)
        op["eff"] = eff_rank(v, n, used)[0] if used else 0
    else:
        op["eff"] = 1
    if raised:
        return op, [raised]
    if any(e[0] == "top" for e in ev):
        extra = [e for e in ev if e[0] != "top"]
        return op, ["top ; topdown"] + (["unexpected-events-after-top"] if extra else [])
    sd = [e for e in ev if e[0] == "sd"]
    eb = [e for e in ev if e[0] == "ebits"]
    lines = ["rega " + " ".join(map(str, cap["ra"])), "regb " + " ".join(map(str, cap["rb"])),
             f"rank {sd[0][2]}", f"ebits {eb[0][1] if eb else -1}"]
    if sd[0][1] != cap["ra"]:
        lines.append("sd-partition " + " ".join(map(str, sd[0][1])))
    encs = [i for i, e in enumerate(ev) if e[0] == "enc"]
    labels = ["sv", "U", "V"] if len(encs) == 3 else ["U", "V"] if len(encs) == 2 else [f"x{k}" for k in range(len(encs))]
    lab = dict(zip(encs, labels))
    for i, e in enumerate(ev):
        if e[0] == "enc":
            kind = ev[i + 1] if i + 1 < len(ev) and ev[i + 1][0] == "kind" else ("kind", "?", "")
            lines.append(f"enc {' '.join(map(str, e[2]))} ; {lab[i]} {kind[1]} {e[1][0]} {e[1][1]}")
            if kind[2]:
                lines.append(kind[2])
        elif e[0] == "cx":
            lines.append(f"cx {e[1]} {e[2]}")
    # the circuit that is RETURNED (after reverse_bits): opaque blocks and CNOTs with their final wires
    for inst in res.data:
        name = inst.operation.name
        wires = " ".join(str(res.find_bit(q).index) for q in inst.qubits)
        if name == "cx":
            lines.append(f"outcx {wires}")
        elif name.startswith("blk") and name[3:].isdigit() and int(name[3:]) < len(labels):
            lines.append(f"outblk {wires} ; {labels[int(name[3:])]}")
        else:
            lines.append(f"out-{name} {wires}")
    return op, lines


# ---------------------------------------------------------------------------------------------
# _encode alone
# ---------------------------------------------------------------------------------------------

def dispatch_impl(rows, cols, iso="ccd", uni="qsd"):
    """Which callee does the real `_encode` choose for a `rows × cols` array?"""
    from unittest import mock
    from qiskit import QuantumCircuit
    from qclib.state_preparation import lowrank
    g = lowrank.LowRankInitialize([1.0, 0.0, 0.0, 0.0], opt_params={"iso_scheme": iso, "unitary_scheme": uni})
    ev = []
    sp_stub, iso_stub, uni_stub = _encode_stubs(lowrank, ev, outer=g)
    nq = _nq(rows)
    circ = QuantumCircuit(nq)
    with mock.patch.object(lowrank, "LowRankInitialize", sp_stub), \
            mock.patch.object(lowrank, "decompose_isometry", iso_stub), \
            mock.patch.object(lowrank, "decompose_unitary", uni_stub):
        try:
            g._encode(np.zeros((rows, cols)), circ, list(range(nq)))
        except Exception as ex:
            return {"op": "dispatch", "rows": rows, "cols": cols, "iso": iso, "uni": uni}, [f"raised-{type(ex).__name__}"]
    kinds = [e for e in ev if e[0] == "kind"]
    lines = [f"branch ; {k[1]}" for k in kinds] + [k[2] for k in kinds if k[2]]
    return {"op": "dispatch", "rows": rows, "cols": cols, "iso": iso, "uni": uni}, lines


# ---------------------------------------------------------------------------------------------
# SVDInitialize
# ---------------------------------------------------------------------------------------------

def svdplan_impl(v, n):
    """Observe the real `SVDInitialize._define_initialize`: registers (circuit qubit indices), where
    the singular values go (nested SVDInitialize or TopDownInitialize, and their number), the CNOTs,
    the shapes of the two unitaries and the wires they are appended on."""
    from unittest import mock
    from qiskit import QuantumCircuit
    from qiskit.circuit import Gate
    from qclib.state_preparation import svd as svdmod
    g = svdmod.SVDInitialize(v)
    ev, cap, tag = [], {}, {}

    def idx(circ, qargs):
        out = []
        for q in qargs:
            out.append(int(q) if isinstance(q, (int, np.integer)) else int(circ.find_bit(q).index))
        return out

    class Circ(QuantumCircuit):
        def __init__(self, *regs, **k):
            super().__init__(*regs, **k)
            if "circ" not in cap and len(regs) == 2:
                cap["circ"] = self

        def append(self, instruction, qargs=None, cargs=None, **k):
            if cap.get("circ") is self:
                ev.append(("append", tag.get(id(instruction), ("?",)), idx(self, list(qargs))))
            return super().append(instruction, qargs, cargs, **k)

        def cx(self, c, t, *a, **k):
            if cap.get("circ") is self:
                ev.append(("cx", idx(self, [c])[0], idx(self, [t])[0]))
            return super().cx(c, t, *a, **k)

    keep = []

    def sub_stub(kind):
        def make(params, *a, **k):
            gate = Gate("stub_" + kind, _nq(len(params)), [])
            keep.append(gate)
            tag[id(gate)] = ("sv", kind, int(len(params)))
            return gate
        return make

    def uni_stub(m, *a, **k):
        m = np.asarray(m)
        c = QuantumCircuit(_nq(m.shape[0]))
        keep.append(c)
        tag[id(c)] = ("unitary", int(m.shape[0]), int(m.shape[1]), bool(a or k))
        return c

    with mock.patch.object(svdmod, "QuantumCircuit", Circ), \
            mock.patch.object(svdmod, "SVDInitialize", sub_stub("svd")), \
            mock.patch.object(svdmod, "TopDownInitialize", sub_stub("topdown")), \
            mock.patch.object(svdmod, "unitary", uni_stub):
        try:
            res = g._define_initialize()
        except Exception as ex:
            return {"op": "svdplan", "n": int(n)}, [f"raised-{type(ex).__name__}"]
    circ = cap["circ"]
    ra, rb = circ.qregs[0], circ.qregs[1]
    lines = ["rega " + " ".join(str(circ.find_bit(q).index) for q in ra),
             "regb " + " ".join(str(circ.find_bit(q).index) for q in rb)]
    names = iter(["U", "V", "X", "Y"])
    for e in ev:
        if e[0] == "cx":
            lines.append(f"cx {e[1]} {e[2]}")
        elif e[1][0] == "sv":
            lines.append(f"sv {' '.join(map(str, e[2]))} ; {e[1][1]} {e[1][2]}")
        elif e[1][0] == "unitary":
            lines.append(f"{next(names)} {' '.join(map(str, e[2]))} ; {e[1][1]} {e[1][2]}")
            if e[1][3]:
                lines.append("unitary-called-with-options")
        else:
            lines.append("append-of-unknown-object")
    # the circuit that is RETURNED (no reverse_bits): instruction wires in order
    blocks = iter(["sv", "U", "V", "X", "Y"])
    for inst in res.data:
        wires = " ".join(str(res.find_bit(q).index) for q in inst.qubits)
        if inst.operation.name == "cx":
            lines.append(f"outcx {wires}")
        else:
            lines.append(f"outblk {wires} ; {next(blocks)}")
    return {"op": "svdplan", "n": int(n)}, lines


# ---------------------------------------------------------------------------------------------
# cases
# ---------------------------------------------------------------------------------------------

def _unit(v):
    return v / np.linalg.norm(v)


def plesch_families(rng, n, part):
    """(name, unit vector) list: random complex, random real, rank-deficient across `part`."""
    from qclib.entanglement import _undo_separation_matrix
    dim = 2 ** n
    out = [("complex", _unit(rng.normal(size=dim) + 1j * rng.normal(size=dim))),
           ("real", _unit(rng.normal(size=dim)))]
    k = len(part)
    rows, cols = 2 ** (n - k), 2 ** k
    mind = min(rows, cols)
    for r in sorted({1, max(1, mind // 2), max(1, mind - 1)}):
        if r < mind or r == 1:
            a = rng.normal(size=(rows, r)) + 1j * rng.normal(size=(rows, r))
            b = rng.normal(size=(r, cols)) + 1j * rng.normal(size=(r, cols))
            out.append((f"deficient{r}", _unit(np.asarray(_undo_separation_matrix(n, a @ b, list(part))))))
    return out


def plesch_in_band(v, n, part):
    _, s = eff_rank(v, n, part)
    return any(BAND[0] <= x <= BAND[1] for x in s)


def run_tie_plesch(ctx, nmax=5):
    rng = ctx.nprng()
    # (1) plans of LowRankInitialize: every n <= nmax, every non-empty proper subset as an increasing list
    for n in range(2, nmax + 1):
        subsets = [list(s) for k in range(1, n) for s in itertools.combinations(range(n), k)]
        for sub in subsets:
            mind = min(2 ** len(sub), 2 ** (n - len(sub)))
            for name, v in plesch_families(rng, n, sub):
                if plesch_in_band(v, n, sub):
                    ctx.count("plesch:skipped-threshold-band")
                    continue
                for lr in range(0, mind + 2):
                    iso, uni = PLESCH_SCHEMES[(lr + len(sub) + n) % 2]
                    svd = "auto" if (lr + n) % 3 else "regular"
                    op, lines = plan_impl(v, n, sub, lr, iso, uni, svd)
                    ctx.tie(op, lines)
                    ctx.count(f"plesch:lrplan:{name.rstrip('0123456789')}")
        # the same sets as unsorted lists (`_create_quantum_circuit` sorts the partition; so does the model)
        for sub in subsets:
            if len(sub) < 2:
                continue
            sh = list(sub)
            while sh == sorted(sh):
                ctx.rng.shuffle(sh)
            name, v = plesch_families(rng, n, sub)[0]
            if plesch_in_band(v, n, sub):
                continue
            for lr in (0, 1):
                op, lines = plan_impl(v, n, sh, lr, "ccd", "qsd", "auto")
                ctx.tie(op, lines)
                ctx.count("plesch:lrplan:unsorted-list")
        # default partition
        dp = list(range(n // 2 + n % 2))
        for name, v in plesch_families(rng, n, dp)[:3]:
            if plesch_in_band(v, n, dp):
                continue
            for lr in (0, 1, 2):
                op, lines = plan_impl(v, n, None, lr, "ccd", "qsd", "auto")
                ctx.tie(op, lines)
                ctx.count("plesch:lrplan:default-partition")
    # n < 2: the TopDown shortcut
    for v in (np.array([0.6, 0.8]), _unit(rng.normal(size=2) + 1j * rng.normal(size=2))):
        for part in (None, [0]):
            op, lines = plan_impl(v, 1, part, 0, "ccd", "qsd", "auto")
            ctx.tie(op, lines)
            ctx.count("plesch:lrplan:top")
    # (2) the _encode dispatch table
    for rows in (1, 2, 4, 8, 16, 32):
        for cols in (1, 2, 4, 8, 16, 32):
            for iso, uni in PLESCH_SCHEMES:
                op, lines = dispatch_impl(rows, cols, iso, uni)
                ctx.tie(op, lines)
                ctx.count("plesch:dispatch")
    # (3) SVDInitialize
    for n in range(1, nmax + 2):
        dim = 2 ** n
        for v in (_unit(rng.normal(size=dim) + 1j * rng.normal(size=dim)), _unit(rng.normal(size=dim))):
            op, lines = svdplan_impl(v, n)
            ctx.tie(op, lines)
            ctx.count("plesch:svdplan")



# ------------------------------------------------------------------------------------------------
# INPUT DIVERSITY (functions `_diversity_*` / `_div_*`): the FORM of otherwise ordinary valid inputs
#   (1) element types   python list / tuple / list of numpy scalars / float32 / float64 / complex64 / complex128 /
#                       int64 arrays, all-integer basis vectors, real dtypes for every class (the algorithms create complex
#                       intermediates), complex dtype with exactly-zero imaginary parts, negative zeros
#   (2) scale           heavy head + light tail 1e-3 .. 3e-6 (start / end / mixed), all-equal moduli, exactly repeated
#                       values, all-negative reals, purely imaginary, one amplitude of modulus exactly 1 (each index, phase
#                       1, -1, i, -i), sparse with nnz << length, norm carried by one sub-tree
#   (3) sign / phase    exactly-zero imaginary part with negative entries, global phase -1 and i, per-entry phases +-1, +-i
#   (4) call forms      constructor `.definition`, static `X.initialize(circuit, state, qubits=[...], opt_params=...)` on a
#                       permuted non-ascending sub-list of a larger host (integer indices, numpy integers, Qubit objects,
#                       two registers, positional arguments), the same gate appended twice, `.copy()` / deepcopy before
#                       and after `.definition`, the SAME opt_params dict reused with contents changed in between,
#                       partition as tuple / ndarray / list of numpy ints (sorted and unsorted), max_fidelity_loss = int 0
#   (5) sizes           n = 1, 2, 3 explicitly for every class defined there, n = 4, selected n = 5, 6 (odd / even default
#                       partition (n+1)//2 vs n//2)
# The ideal is np.asarray(<the object handed to the library>, dtype=complex), computed by the harness.
# Observable: Statevector of the circuit vs the ideal to TOL, global phase included (except global_phase=False).
# ------------------------------------------------------------------------------------------------

DIV_QUARTIC = [1, -1, 1j, -1j]
DIV_PHASE_NAME = {1: "p1", -1: "m1", 1j: "pi", -1j: "mi"}
DIV_TAILS = [1e-3, 1e-4, 3e-6]
DIV_CUT_BAND = (2e-8, 5e-7)      # no Schmidt coefficient of a generated vector across ANY bipartition lies this close to the
                                 # 1e-7 rank cut of entanglement._effective_rank (dropping below it costs < 2e-8)
DIV_REAL_FORMS = ["float-list", "f64"]
DIV_ANY_FORMS = ["list", "tuple", "c128", "npscalar-list"]
DIV_EXACT32_FORMS = ["f32", "c64", "npscalar32-list"]
DIV_INT_FORMS = ["int-list", "i64", "mixed-list"]


def _div_cl(vals):
    """list of python complex with +0.0 zeros (re, im separately) -> unit vector (numpy complex128)."""
    v = np.array([complex(float(np.real(a)) + 0.0, float(np.imag(a)) + 0.0) for a in vals])
    v = v / np.linalg.norm(v)
    return np.array([complex(float(a.real) + 0.0, float(a.imag) + 0.0) for a in v])


def _div_cut_ok(v, n):
    """No singular value across any bipartition inside DIV_CUT_BAND."""
    if n < 2:
        return True
    for k in range(1, n // 2 + 1):
        for part in itertools.combinations(range(n), k):
            s = np.linalg.svd(ref_sep(n, v, list(part)), compute_uv=False)
            if any(DIV_CUT_BAND[0] <= x <= DIV_CUT_BAND[1] for x in s):
                return False
    return True


def _div_dyadic(r, dim, m=None):
    """Non-negative integers k_i with sum k_i^2 = 4^m: the amplitudes k_i / 2^m are exact in float32 and the sum of their
    squares is exactly 1 in float32 arithmetic as well (documented validation: |sum - 1| <= 1e-10)."""
    if m is None:
        m = 3 if dim <= 16 else 4
    target = 4 ** m
    for _ in range(200):
        k = [0] * dim
        tot = 0
        for _ in range(40 * dim):
            i = int(r.integers(dim))
            inc = 2 * k[i] + 1
            if tot + inc <= target:
                k[i] += 1
                tot += inc
            if tot == target:
                return [x / 2 ** m for x in k]
    k = [0] * dim
    k[int(r.integers(dim))] = 2 ** m
    return [x / 2 ** m for x in k]


def _div_vectors(r, n, level=2):
    """[(name, vector, tags)]: the scale / sign / phase families.  tags: 'real' (imaginary parts exactly +0.0),
    'exact32' (exact in float32 / complex64), 'int' (integer amplitudes), 'negzero' (oracle only: the JSON channel of
    the tie does not carry the sign of zero).  level 2 = all families, 1 = one representative per family, 0 = a handful."""
    dim = 2 ** n
    out = []

    def gen(cplx=True):
        m = r.uniform(0.3, 1.0, size=dim)
        return m * np.exp(1j * r.uniform(-3.0, 3.0, size=dim)) if cplx else m * r.choice([-1.0, 1.0], size=dim)

    def add(name, vals, *tags, screen=False, maker=None):
        v = _div_cl(vals)
        tries = 0
        while screen and not _div_cut_ok(v, n) and maker is not None and tries < 8:
            v = _div_cl(maker())
            tries += 1
        if screen and not _div_cut_ok(v, n):
            out.append((name, None, ("skipped",)))
            return
        out.append((name, v, tags))

    # ---- (2) heavy head + light tail
    def tail(pos, eps, cplx, heads):
        def make():
            idx = {"start": list(range(heads)), "end": list(range(dim - heads, dim)),
                   "mixed": [int(x) for x in r.choice(dim, size=heads, replace=False)]}[pos]
            v = eps * r.uniform(0.5, 1.5, size=dim) * (np.exp(1j * r.uniform(-3, 3, size=dim)) if cplx
                                                        else r.choice([-1.0, 1.0], size=dim))
            for i in idx:
                v[i] = r.uniform(0.5, 1.0) * (np.exp(1j * r.uniform(-3, 3)) if cplx else r.choice([-1.0, 1.0]))
            return v
        return make
    c = int(r.integers(6))
    for pos in ("start", "end", "mixed"):
        for rep in range(2 if level >= 2 else 1):
            eps = DIV_TAILS[c % 3]
            cplx = bool((c // 3) % 2)
            heads = 1 if (dim == 2 or c % 2) else 2
            c += 1
            mk = tail(pos, eps, cplx, heads)
            add(f"tail-{pos}-{eps:g}-{'c' if cplx else 'r'}-h{heads}", mk(), *(() if cplx else ("real",)), screen=True, maker=mk)
    if level >= 1 and dim >= 4:
        def graded():
            sc = np.array([1.0, 1e-1, 1e-2] + [10 ** -(3 + 3 * i / max(1, dim - 4)) for i in range(dim - 3)])
            return r.permutation(sc) * np.exp(1j * r.uniform(-3, 3, size=dim))
        add("tail-graded-1..1e-6", graded(), screen=True, maker=graded)

    # ---- (2)/(3) all-equal moduli, phases exactly +-1, +-i
    add("equal-quartic", [DIV_QUARTIC[int(r.integers(4))] for _ in range(dim)])
    if level >= 1:
        add("equal-pm1", [[1.0, -1.0][int(r.integers(2))] for _ in range(dim)], "real")
        add("equal-allneg", [-1.0] * dim, "real")
        add("equal-pmi", [[1j, -1j][int(r.integers(2))] for _ in range(dim)])
    if level >= 2:
        add("equal-alli", [1j] * dim)
        add("equal-allmi", [-1j] * dim)
    # ---- exactly repeated values
    if level >= 1:
        a, b = complex(r.uniform(0.3, 1)), r.uniform(0.3, 1) * np.exp(1j * r.uniform(-3, 3))
        add("repeat-block", [a] * (dim // 2) + [b] * (dim // 2))
        if level >= 2:
            add("repeat-interleave", [a, b] * (dim // 2))
            add("repeat-real-neg", [-0.6, 0.8] * (dim // 2), "real")
    # ---- all-negative reals, purely imaginary, global phase -1 / i, zero imaginary part with negative entries
    pos_v = r.uniform(0.3, 1.0, size=dim)
    sgn_v = gen(False)
    add("allneg", -pos_v, "real")
    add("realsigned", sgn_v, "real")
    add("imag-signed", 1j * sgn_v)
    if level >= 1:
        add("gphase-i", 1j * pos_v)
        add("gphase-mi", -1j * pos_v)
        g = gen(True)
        add("complex", g)
        if level >= 2:
            add("complex-gphase-m1", -g)
            add("complex-gphase-i", 1j * g)
    # ---- a single amplitude of modulus exactly 1
    if dim <= 4:
        units = [(k, p) for k in range(dim) for p in DIV_QUARTIC]
    elif dim == 8:
        off = int(r.integers(4))
        units = [(k, DIV_QUARTIC[(k + off + j) % 4]) for k in range(dim) for j in ((0, 2) if level >= 2 else (0,))]
    else:
        ks = [0, dim - 1] + [int(x) for x in r.choice(np.arange(1, dim - 1), size=2, replace=False)]
        units = [(k, DIV_QUARTIC[j]) for j, k in enumerate(ks)]
    if level == 0:
        units = units[::max(1, len(units) // 2)][:2]
    for k, p in units:
        v = [0.0] * dim
        v[k] = p
        tags = ("real", "exact32", "int") if p in (1, -1) else ("exact32", "gaussint")
        add(f"unit-k{k}-{DIV_PHASE_NAME[p]}", v, *tags)
    # ---- sparse with nnz << length, norm carried by one sub-tree
    if dim >= 8:
        for nnz in ((2, 3) if level >= 1 else (int(r.integers(2, 4)),)):
            v = np.zeros(dim, dtype=complex)
            for i in r.choice(dim, size=nnz, replace=False):
                v[i] = r.uniform(0.3, 1) * np.exp(1j * r.uniform(-3, 3))
            add(f"sparse-nnz{nnz}", v)
        if level >= 1:
            v = np.zeros(dim)
            for i in r.choice(dim, size=2, replace=False):
                v[i] = r.uniform(0.3, 1) * r.choice([-1.0, 1.0])
            add("sparse-real-nnz2", v, "real")
    if dim >= 4:
        for lvl in sorted({1, n - 1} if level >= 2 else {int(r.integers(1, n))}):
            size = dim >> lvl
            start = int(r.integers(dim // size)) * size
            v = np.zeros(dim, dtype=complex)
            v[start:start + size] = gen(True)[:size]
            add(f"subtree-L{lvl}-at{start}", v)
    # ---- dyadic: exact in float32 / complex64 (real signed, and magnitudes x quartic phases)
    if level >= 1:
        k = _div_dyadic(r, dim)
        add("dyadic-r", [x * [1.0, -1.0][int(r.integers(2))] for x in k], "real", "exact32")
        k = _div_dyadic(r, dim)
        add("dyadic-c", [x * DIV_QUARTIC[int(r.integers(4))] for x in k], "exact32")
    # ---- negative zeros in the zero amplitudes (and as the imaginary part of negative reals): oracle only
    nzs = [complex(-0.0, 0.0), complex(0.0, -0.0), complex(-0.0, -0.0)]
    if level >= 1:
        v = [nzs[int(r.integers(3))] for _ in range(dim)]
        for i in r.choice(dim, size=max(1, dim // 4), replace=False):
            v[i] = complex(-r.uniform(0.3, 1), -0.0) if r.integers(2) else r.uniform(0.3, 1) * np.exp(1j * r.uniform(-3, 3))
        out.append(("negzero-sparse", _div_norm_keep(v), ("negzero",)))
        v = [-0.0] * dim
        for i in r.choice(dim, size=max(1, dim // 2), replace=False):
            v[i] = float(r.uniform(0.3, 1) * r.choice([-1.0, 1.0]))
        out.append(("negzero-real", _div_norm_keep(v), ("negzero", "real", "realnz")))
        v = [nzs[int(r.integers(3))] for _ in range(dim)]
        v[int(r.integers(dim))] = DIV_QUARTIC[int(r.integers(4))]
        out.append(("negzero-unit", np.array([complex(a) for a in v]), ("negzero",)))
    return out


def _div_norm_keep(vals):
    """Normalise keeping the signs of the zeros (division by a positive norm keeps them)."""
    z = [complex(a) for a in vals]
    nrm = math.sqrt(sum(abs(a) ** 2 for a in z))
    return np.array([complex(a.real / nrm, a.imag / nrm) for a in z])


def _div_forms_for(tags):
    """Element-type forms an input with these tags can be handed over in."""
    forms = list(DIV_ANY_FORMS)
    if "real" in tags:
        forms += DIV_REAL_FORMS
    if "exact32" in tags:
        forms += ["c64", "npscalar32-list"] + (["f32"] if "real" in tags else [])
    if "int" in tags:
        forms += ["int-list", "i64"]
    if "int" in tags or "gaussint" in tags:
        forms += ["mixed-list"]
    return forms


def _div_input(re_, im_, form):
    """The object handed to the library, and the harness's own ideal np.asarray(obj, dtype=complex)."""
    z = [complex(a, b) for a, b in zip(re_, im_)]
    real = [float(a) for a in re_]
    if form == "list":
        x = list(z)
    elif form == "tuple":
        x = tuple(z)
    elif form == "c128":
        x = np.array(z, dtype=np.complex128)
    elif form == "c64":
        x = np.array(z, dtype=np.complex64)
    elif form == "npscalar-list":
        x = [np.float64(c.real) if (j % 2 and c.imag == 0 and not math.copysign(1, c.imag) < 0) else np.complex128(c)
             for j, c in enumerate(z)]
    elif form == "npscalar32-list":
        x = [np.float32(c.real) if (j % 2 and c.imag == 0) else np.complex64(c) for j, c in enumerate(z)]
    elif form == "float-list":
        x = real
    elif form == "f64":
        x = np.array(real, dtype=np.float64)
    elif form == "f32":
        x = np.array(real, dtype=np.float32)
    elif form == "i64":
        x = np.array([int(a) for a in real], dtype=np.int64)
    elif form == "int-list":
        x = [int(a) for a in real]
    elif form == "mixed-list":
        x = [(int(c.real) if c.real == int(c.real) else float(c.real)) if c.imag == 0 else c for c in z]
    else:
        raise ValueError(form)
    return x, np.asarray(x, dtype=complex)


def _div_opts(task, opts):
    """A fresh options object; `partition` converted to the requested container."""
    if opts is None:
        return None
    o = copy.deepcopy(opts)
    pf = task.get("part_form")
    if pf and o.get("partition") is not None:
        p = o["partition"]
        o["partition"] = {"list": list(p), "tuple": tuple(p), "ndarray": np.array(p, dtype=np.int64),
                          "npint-list": [np.int64(a) for a in p], "npint32-tuple": tuple(np.int32(a) for a in p)}[pf]
    for name, ftag in (task.get("opt_forms") or {}).items():
        if o.get(name) is not None:
            o[name] = OPT_FORM_CAST[ftag](o[name])
    return o


# flag-form pass: the type a boolean / integer / float option VALUE is handed over in (task["opt_forms"] = {option: tag};
# task["opts"] keeps the canonical Python bool / int / float, so that a payload stays JSON and `--replay` rebuilds the form)
OPT_FORM_CAST = {"bool": bool, "npbool": np.bool_, "int": int, "npint": np.int64, "npint32": np.int32, "float": float,
                 "npfloat": np.float64, "npfloat32": np.float32, "negzero": lambda x: -0.0 if x == 0 else float(x)}


def _div_embed(width, parts):
    """Ideal state of a `width`-wire circuit holding independent blocks: parts = [(vector, wires)], qubit i of the block on
    wire wires[i]; the other wires stay |0>."""
    out = np.zeros(2 ** width, dtype=complex)
    out[0] = 1.0
    for v, qs in parts:
        new = np.zeros_like(out)
        nz = np.nonzero(out)[0]
        for k in range(len(v)):
            idx = 0
            for i, q in enumerate(qs):
                idx |= ((k >> i) & 1) << q
            new[nz | idx] += out[nz] * v[k]
        out = new
    return out


def _div_host(entry):
    from qiskit import QuantumCircuit, QuantumRegister
    w = entry["width"]
    if entry.get("qform") == "tworeg":
        a = entry.get("split", 1)
        return QuantumCircuit(QuantumRegister(a, "a"), QuantumRegister(w - a, "b"))
    return QuantumCircuit(w)


def _div_qargs(qc, entry):
    qs = entry["qubits"]
    if qs is None:
        return None
    qf = entry.get("qform", "int")
    if qf in ("qubit", "tworeg"):
        return [qc.qubits[i] for i in qs]
    if qf == "npint":
        return [np.int64(i) for i in qs]
    if qf == "tuple":
        return tuple(qs)
    return list(qs)


_DIV_INFO = {}


def _div_run(task):
    """-> [(label, prepared statevector, ideal, up to phase?)]"""
    import qclib.state_preparation as sp
    from qiskit import QuantumCircuit
    from qiskit.quantum_info import Statevector
    cls, n, call = task["cls"], task["n"], task["call"]
    klass = getattr(sp, cls)
    upto = bool(task.get("upto_phase"))
    x, want = _div_input(task["re"], task["im"], task["form"])

    def mk(xx, opts):
        if cls == "SVDInitialize":
            return klass(xx)
        return klass(xx, opt_params=_div_opts(task, opts))

    def sv_of(gate, nq):
        d = gate.definition
        if d.num_qubits != nq or gate.num_qubits != nq:
            raise AssertionError(f"circuit on {d.num_qubits} qubits (declared {gate.num_qubits}) for a {nq}-qubit vector")
        return Statevector(d).data

    if call == "ctor":
        g = mk(x, task["opts"])
        res = [("definition", sv_of(g, n), want, upto)]
        if cls == "BaaLowRankInitialize" and getattr(g, "node", None) is not None:
            _DIV_INFO["baa_factors"] = len(g.node.vectors)      # histogram only
        return res
    if call == "static":
        e = task["entry"]
        qc = _div_host(e)
        qargs = _div_qargs(qc, e)
        opts = _div_opts(task, task["opts"])
        if e.get("positional"):
            klass.initialize(qc, x, qargs, *([] if cls == "SVDInitialize" else [opts]))
        elif cls == "SVDInitialize":
            klass.initialize(qc, x, qubits=qargs)
        else:
            klass.initialize(qc, x, qubits=qargs, opt_params=opts)
        qs = e["qubits"] if e["qubits"] is not None else list(range(n))
        return [("initialize", Statevector(qc).data, _div_embed(e["width"], [(want, qs)]), upto)]
    if call == "append-twice":
        g = mk(x, task["opts"])
        qc = QuantumCircuit(2 * n)
        q1, q2 = list(range(n)), list(range(2 * n - 1, n - 1, -1))
        qc.append(g, q1)
        qc.append(g, q2)
        return [("same gate appended twice", Statevector(qc).data, _div_embed(2 * n, [(want, q1), (want, q2)]), upto)]
    if call in ("copy-before-definition", "deepcopy-before-definition"):
        g = mk(x, task["opts"])
        g2 = g.copy() if call.startswith("copy") else copy.deepcopy(g)
        s2 = sv_of(g2, n)
        return [("copy", s2, want, upto), ("original after copy", sv_of(g, n), want, upto)]
    if call == "use-after-copy":
        g = mk(x, task["opts"])
        s0 = sv_of(g, n)
        g2 = g.copy()
        g3 = copy.deepcopy(g)
        qc = QuantumCircuit(2 * n)
        q1, q2 = list(range(n, 2 * n)), list(range(n))[::-1]
        qc.append(g2, q1)
        qc.append(g, q2)
        return [("definition", s0, want, upto), ("copy after definition", sv_of(g2, n), want, upto),
                ("deepcopy after definition", sv_of(g3, n), want, upto),
                ("copy and original appended", Statevector(qc).data, _div_embed(2 * n, [(want, q1), (want, q2)]), upto)]
    if call in ("dict-reuse-lazy", "dict-reuse-eager"):
        # ONE dict object: construct, change its contents, construct again (other size, options valid for that size only)
        x2, want2 = _div_input(task["re2"], task["im2"], task["form"])
        n2 = task["n2"]
        d = _div_opts(task, task["opts"]) if task["opts"] is not None else {}
        g1 = klass(x, opt_params=d)
        res = []
        if call == "dict-reuse-eager":
            res.append(("first gate (built before the dict changes)", sv_of(g1, n), want, upto))
        d.clear()
        d.update(_div_opts(task, task["opts2"]))
        g2 = klass(x2, opt_params=d)
        res.append(("second gate", sv_of(g2, n2), want2, bool(task.get("upto_phase2"))))
        res.append(("first gate (definition after the dict changed)", sv_of(g1, n), want, upto))
        return res
    raise ValueError(call)


def eval_div(task):
    """Worker: run one diversity case on the REAL code."""
    import sys
    import warnings
    warnings.filterwarnings("ignore")
    repo = task["repo"]
    if repo not in sys.path:
        sys.path.insert(0, repo)
    out = {"key": task["key"]}

    def worst(comps):
        w = None
        for label, sv, want, upto in comps:
            if len(sv) != len(want):
                return (float("inf"), f"{label}: {len(sv)} amplitudes for an ideal of {len(want)}")
            ph = 1.0
            if upto:
                ov = np.vdot(want, sv)
                ph = ov / abs(ov) if abs(ov) > 1e-12 else 1.0
            diff = np.abs(sv - ph * want)
            err = float(diff.max()) if np.all(np.isfinite(diff)) else float("inf")
            if w is None or err > w[0]:
                k = int(np.argmax(diff))
                w = (err, f"{label}: amplitude {k}: prepared {sv[k]:.9f}, wanted {(ph * want)[k]:.9f} (max err {err:.3e}, "
                          f"|<v|psi>| = {abs(np.vdot(want, sv)):.9f})")
        return w

    _DIV_INFO.clear()
    try:
        err, detail = worst(_div_run(task))
    except Exception as ex:
        out.update(status="raises", detail=f"{type(ex).__name__}: {str(ex)[:300]}")
        return out
    out["err"] = err
    out["info"] = dict(_DIV_INFO)
    if TOL < err <= A2_MAX:
        from unittest import mock
        import qclib.unitary as qu
        try:
            with mock.patch.object(qu, "_apply_a2", lambda circuit: circuit):
                err2, _ = worst(_div_run(task))
        except Exception:
            err2 = None
        if err2 is not None and err2 <= TOL:
            out.update(status="a2", err_without_a2=err2,
                       detail=detail + f"; with qclib.unitary._apply_a2 bypassed the error is {err2:.3e}: precision limit of "
                                       "qiskit's A.2 re-synthesis of a near-special two-qubit block")
            return out
    if not err <= TOL:
        out.update(status="fail", detail=detail)
    else:
        out["status"] = "ok"
    return out


def _div_callstr(task):
    cls, form = task["cls"], task["form"]
    o = f"opt_params={task['opts']}" + (f" [partition as {task['part_form']}]" if task.get("part_form") else "") + \
        (f" [value types: {task['opt_forms']}]" if task.get("opt_forms") else "")
    if task["call"] == "static":
        e = task["entry"]
        return (f"{cls}.initialize(<{e['width']}-wire circuit{' (two registers)' if e.get('qform') == 'tworeg' else ''}>, "
                f"<{form}>, qubits={e['qubits']} as {e.get('qform', 'int')}{', positional' if e.get('positional') else ''}, {o})")
    return f"{cls}(<{form}>, {o}): {task['call']}"


def div_task(ctx, cls, opts, n, name, v, form="c128", call="ctor", upto=False, sec="A", **extra):
    import framework
    key = f"div{sec}:{cls}:{optkey(opts)}:{call}:{form}:n={n}:{name}"
    if extra.get("entry"):
        e = extra["entry"]
        key += f":w{e['width']}q{'-'.join(map(str, e['qubits'])) if e['qubits'] is not None else 'None'}{e.get('qform', 'int')}"
    if extra.get("part_form"):
        key += ":P-" + extra["part_form"]
    if extra.get("opt_forms"):
        key = "flagforms:" + key + ":F-" + ",".join(f"{a}={b}" for a, b in sorted(extra["opt_forms"].items()))
    t = {"div": True, "repo": framework.REPO, "cls": cls, "opts": opts, "n": n, "family": name, "form": form, "call": call,
         "re": [float(a.real) for a in v], "im": [float(a.imag) for a in v], "upto_phase": bool(upto), "key": key}
    t.update(extra)
    ctx.count(f"diversity:form:{form}")
    ctx.count(f"diversity:call:{call}" + (":" + extra["entry"].get("qform", "int") if extra.get("entry") else ""))
    ctx.count("diversity:vector:" + name.replace(":", "-").split("-")[0])
    ctx.count(f"diversity:class:{cls}")
    ctx.count(f"diversity:n={n}")
    return t


def _div_task_sec(sec):
    def f(ctx, *a, **k):
        return div_task(ctx, *a, sec=sec, **k)
    return f


div_task_B, div_task_C, div_task_D, div_task_E, div_task_F = (_div_task_sec(x) for x in "BCDEF")


def record_div(ctx, task, res):
    rep = {k: v for k, v in task.items() if k != "repo"}
    rep["callstr"] = _div_callstr(task)
    nz = sum(1 for a, b in zip(task["re"], task["im"]) if a != 0 or b != 0)
    ctx.count(f"oracle:{task['cls']}")
    if (res.get("info") or {}).get("baa_factors", 1) > 1:
        ctx.count("diversity:baa:plan-with-several-factors")
    if res["status"] == "ok":
        ctx.ok(task["key"], nontrivial=task["n"] >= 2 and nz >= 2,
               sample={"class": task["cls"], "opts": task["opts"], "n": task["n"], "family": task["family"],
                       "form": task["form"], "call": task["call"], "err": res["err"]})
    elif res["status"] == "a2":
        ctx.count("a2-precision")
        ctx.fail(f"dense-a2-precision:{task['cls']}:{optkey(task['opts'])}:n={task['n']}:div:{task['family']}",
                 f"{task['key']}: {rep['callstr']}: " + res["detail"],
                 dict(rep, observed_err=res.get("err"), err_without_a2=res.get("err_without_a2")))
    elif res["status"] == "raises":
        ctx.fail(task["key"] + ":raises", f"{rep['callstr']}: " + res["detail"], rep)
    else:
        ctx.fail(task["key"], f"{rep['callstr']}: " + res["detail"], dict(rep, observed_err=res.get("err")))


def run_div_tasks(ctx, tasks):
    from concurrent.futures import ProcessPoolExecutor
    import multiprocessing as mp
    if not tasks:
        return
    workers = max(1, min(14, (os.cpu_count() or 2) - 1))
    order = sorted(range(len(tasks)), key=lambda i: -(tasks[i]["n"] * (2 if tasks[i]["call"] in ("append-twice", "use-after-copy") else 1)))
    with ProcessPoolExecutor(max_workers=workers, mp_context=mp.get_context("fork")) as ex:
        res_sorted = list(ex.map(eval_div, [tasks[i] for i in order], chunksize=4))
    results = [None] * len(tasks)
    for i, res in zip(order, res_sorted):
        results[i] = res
    for task, res in zip(tasks, results):
        record_div(ctx, task, res)


def _div_option_sets(cls, n):
    """Every documented option value of the class (exact preparation), incl. None / {} / partial / full dictionaries.
    -> [(opts, up to phase?)]"""
    if cls == "TopDownInitialize":
        return [(None, False), ({}, False), ({"lib": "qclib"}, False), ({"lib": "qiskit"}, False), ({"global_phase": True}, False),
                ({"global_phase": False}, True), ({"global_phase": True, "lib": "qiskit"}, False),
                ({"global_phase": True, "lib": "qclib"}, False)]
    if cls == "SVDInitialize":
        return [(None, False)]
    if cls == "UCGInitialize":
        return [(None, False), ({}, False), ({"target_state": 0}, False), ({"target_state": 0, "preserve_previous": False}, False),
                ({"target_state": 0, "preserve_previous": True}, False), ({"preserve_previous": False}, False)]
    if cls == "UCGEInitialize":
        return [(None, False), ({}, False), ({"target_state": 0}, False), ({"target_state": 0, "preserve_previous": False}, False)]
    if cls == "IsometryInitialize":
        return [(None, False), ({}, False), ({"scheme": "ccd"}, False), ({"scheme": "csd"}, False)] + \
               ([({"scheme": "knill"}, False)] if n >= 2 else [])
    if cls == "LowRankInitialize":
        out = [(None, False), ({}, False), ({"svd": "regular"}, False), ({"svd": "auto", "lr": 0}, False)]
        out += [({"iso_scheme": i, "unitary_scheme": u}, False) for i, u in SCHEME_PAIRS]
        out += [({"iso_scheme": "knill"}, False), ({"unitary_scheme": "csd", "lr": 2 ** n}, False)]
        return out
    if cls == "BaaLowRankInitialize":
        out = [(None, False), ({}, False), ({"max_fidelity_loss": 0}, False), ({"max_fidelity_loss": 0.0, "strategy": "greedy"}, False)]
        for st in ("greedy", "brute_force", "split", "canonical"):
            for ulr in (False, True):
                for mcs in (0, 1, 2):
                    if mcs > max(1, n // 2):
                        continue
                    out.append(({"max_fidelity_loss": 0 if (mcs + ulr) % 2 else 0.0, "strategy": st, "use_low_rank": ulr,
                                 "max_combination_size": mcs}, False))
        out += [({"max_fidelity_loss": 0.0, "strategy": "brute_force", "use_low_rank": True, "iso_scheme": "knill",
                  "unitary_scheme": "csd"}, False),
                ({"max_fidelity_loss": 0, "iso_scheme": "csd", "unitary_scheme": "qsd"}, False)]
        return out
    raise ValueError(cls)


def _div_min_n(cls, opts):
    if cls == "SVDInitialize":
        return 2
    if opts and (opts.get("scheme") == "knill"):
        return 2
    return 1


def _div_entry(ctx, n, qform, width=None, positional=False):
    """A permuted, non-ascending, non-contiguous selection of n wires of a larger host."""
    w = width or n + 2
    while True:
        qs = ctx.rng.sample(range(w), n)
        if n == 1:
            if qs[0] != 0:
                break
        elif qs != sorted(qs) and (n < 3 or qs != sorted(qs, reverse=True)):
            break
    e = {"width": w, "qubits": qs, "qform": qform}
    if qform == "tworeg":
        e["split"] = ctx.rng.choice([1, 2])
    if positional:
        e["positional"] = True
    return e


def _diversity_oracle_tasks(ctx):
    r = ctx.nprng()
    tasks = []
    cyc = {c: ctx.rng.randrange(1000) for c in ALL_CLASSES}

    def next_opts(cls, n):
        sets = [s for s in _div_option_sets(cls, n) if _div_min_n(cls, s[0]) <= n]
        cyc[cls] += 1
        return sets[cyc[cls] % len(sets)]

    # ---- A. scale / sign / phase families x every class, n = 1, 2, 3, 4 in full, selected at n = 5, 6;
    #         options cycle through the documented values of the class (every option meets every family over the sizes)
    qforms = ["int", "qubit", "npint", "tworeg", "tuple"]
    fc = itertools.count(ctx.rng.randrange(100))
    for n in (1, 2, 3, 4, 5, 6):
        level = 2 if n <= 3 else (1 if n == 4 else 0)
        vecs = _div_vectors(r, n, level)
        for name, v, tags in vecs:
            if v is None:
                ctx.count("diversity:skipped:rank-cut-band")
                continue
            for cls in ALL_CLASSES:
                if n < _div_min_n(cls, None):
                    continue
                if n >= 5 and cls == "BaaLowRankInitialize" and next(fc) % 2:
                    continue
                opts, upto = next_opts(cls, n)
                forms = DIV_ANY_FORMS
                form = forms[next(fc) % len(forms)]
                tasks.append(div_task(ctx, cls, opts, n, name, v, form=form, upto=upto))
                # the escaped kinds (light tail, exact phases, unit amplitude, negative zeros): static helper as well
                k = next(fc)
                if n <= 4 and (name.startswith(("tail", "equal-quartic", "negzero", "realsigned")) or (name.startswith("unit") and k % 3 == 0)):
                    opts2, upto2 = next_opts(cls, n)
                    e = _div_entry(ctx, n, qforms[k % len(qforms)], positional=(k % 7 == 0))
                    tasks.append(div_task(ctx, cls, opts2, n, name, v, form=forms[k % len(forms)], call="static", upto=upto2, entry=e))

    # ---- B. element types x every class x every option value, n = 1, 2, 3 (constructor and static helper)
    tog = {}
    for n in (1, 2, 3):
        vecs = {name: (v, tags) for name, v, tags in _div_vectors(r, n, 1) if v is not None}
        pick = {}
        for name, (v, tags) in vecs.items():
            for form in _div_forms_for(tags):
                pick.setdefault(form, []).append(name)
        for cls in ALL_CLASSES:
            for opts, upto in _div_option_sets(cls, n):
                if n < _div_min_n(cls, opts):
                    continue
                if cls == "BaaLowRankInitialize" and opts and opts.get("max_combination_size") == 2 and n < 3:
                    continue
                for form in DIV_REAL_FORMS + DIV_EXACT32_FORMS + DIV_INT_FORMS + DIV_ANY_FORMS:
                    names = pick.get(form, [])
                    if not names:
                        continue
                    # prefer vectors with negative entries for the real dtypes
                    pref = [x for x in names if x.startswith(("realsigned", "tail", "dyadic", "negzero", "allneg", "equal", "imag"))] or names
                    k = next(fc)
                    name = pref[k % len(pref)]
                    v, tags = vecs[name]
                    if cls in ("LowRankInitialize", "BaaLowRankInitialize", "TopDownInitialize") and k % 3 and form in DIV_ANY_FORMS:
                        continue        # the python-container forms are already crossed with these classes in A
                    tog[(cls, form)] = tog.get((cls, form), 0) + 1
                    both = cls != "BaaLowRankInitialize" and form not in DIV_ANY_FORMS      # BAA: alternate (30 option sets)
                    if both or tog[(cls, form)] % 2:
                        tasks.append(div_task_B(ctx, cls, opts, n, name, v, form=form, upto=upto))
                    if both or not tog[(cls, form)] % 2:
                        e = _div_entry(ctx, n, qforms[(k + tog[(cls, form)]) % len(qforms)], positional=(k % 5 == 0))
                        tasks.append(div_task_B(ctx, cls, opts, n, name, v, form=form, call="static", upto=upto, entry=e))
        # the two integer basis vectors of the task text, every class, both call forms
        if n == 2:
            for cls in ALL_CLASSES:
                for lit, nm in (([0, 1, 0, 0], "basis-0100"), ([0, 0, 0, -1], "basis-000m1")):
                    for form in ("int-list", "i64"):
                        opts, upto = next_opts(cls, n)
                        v = np.array(lit, dtype=complex)
                        tasks.append(div_task_B(ctx, cls, opts, n, nm, v, form=form, upto=upto))
                        tasks.append(div_task_B(ctx, cls, opts, n, nm, v, form=form, call="static", upto=upto,
                                              entry=_div_entry(ctx, n, qforms[next(fc) % len(qforms)])))

    # ---- C. real dtypes x the routines that work in place / build complex intermediates: every scheme, n = 1..4
    for n in (1, 2, 3, 4):
        vecs = [(name, v) for name, v, tags in _div_vectors(r, n, 1) if v is not None and "real" in tags and "negzero" not in tags]
        for cls, optlist in (("IsometryInitialize", [{"scheme": s} for s in ISO]),
                             ("LowRankInitialize", [{"iso_scheme": i, "unitary_scheme": u} for i, u in SCHEME_PAIRS]),
                             ("UCGInitialize", [None]), ("UCGEInitialize", [None]), ("SVDInitialize", [None]),
                             ("BaaLowRankInitialize", [{"max_fidelity_loss": 0, "iso_scheme": "knill"}, {"use_low_rank": True}])):
            for opts in optlist:
                if n < _div_min_n(cls, opts):
                    continue
                for j, (name, v) in enumerate(vecs):
                    if n == 4 and j % 2:
                        continue
                    form = (DIV_REAL_FORMS + ["f64"])[next(fc) % 3]
                    tasks.append(div_task_C(ctx, cls, opts, n, name, v, form=form))

    # ---- D. call forms: same gate twice, copies before / after the definition, one dict object for two constructions
    for n in (1, 2, 3):
        vecs = [(name, v) for name, v, tags in _div_vectors(r, n, 0) if v is not None and "negzero" not in tags]
        vecs2 = [(name, v) for name, v, tags in _div_vectors(r, n + 1, 0) if v is not None and "negzero" not in tags]
        for cls in ALL_CLASSES:
            for call in ("append-twice", "copy-before-definition", "deepcopy-before-definition", "use-after-copy"):
                if n < _div_min_n(cls, None):
                    continue
                opts, upto = next_opts(cls, n)
                name, v = vecs[next(fc) % len(vecs)]
                tasks.append(div_task_D(ctx, cls, opts, n, name, v, form=DIV_ANY_FORMS[next(fc) % 4], call=call, upto=upto))
            if cls == "SVDInitialize":
                continue
            for call in ("dict-reuse-lazy", "dict-reuse-eager"):
                for o1, o2, up2 in _div_reuse_pairs(cls, n):
                    if n < _div_min_n(cls, o1):
                        continue
                    name, v = vecs[next(fc) % len(vecs)]
                    name2, v2 = vecs2[next(fc) % len(vecs2)]
                    tasks.append(div_task_D(ctx, cls, o1, n, name, v, form=DIV_ANY_FORMS[next(fc) % 4], call=call,
                                          opts2=o2, n2=n + 1, family2=name2, upto_phase2=up2,
                                          re2=[float(a.real) for a in v2], im2=[float(a.imag) for a in v2]))

    # ---- E. LowRankInitialize: the partition as list / tuple / ndarray / numpy ints, sorted and unsorted, n = 2..5,
    #         constructor and static helper
    pforms = ["tuple", "ndarray", "npint-list", "npint32-tuple", "list"]
    for n in (2, 3, 4, 5):
        subsets = [list(s) for k in range(1, n) for s in itertools.combinations(range(n), k)]
        if n == 5:
            subsets = ctx.rng.sample(subsets, 8)
        for sub in subsets:
            orders = [list(sub)]
            if len(sub) >= 2:
                sh = list(sub)
                while sh == sorted(sh):
                    ctx.rng.shuffle(sh)
                orders.append(sh)
            for order in orders:
                k = next(fc)
                pf = pforms[k % len(pforms)]
                if order == sorted(order) and pf == "list":
                    pf = "tuple"
                iso, uni = SCHEME_PAIRS[k % len(SCHEME_PAIRS)]
                opts = {"partition": order, "iso_scheme": iso, "unitary_scheme": uni}
                fam = ["complex", "rankdef", "real_signed", "sparse"][k % 4]
                v = make_vector(r, n, fam, sub)
                if in_band(n, v, sub):
                    continue
                nm = f"{fam}:P={','.join(map(str, order))}"
                if k % 3 == 0 and n <= 4:
                    tasks.append(div_task_E(ctx, "LowRankInitialize", opts, n, nm, v, form="list", call="static",
                                          entry=_div_entry(ctx, n, qforms[k % len(qforms)]), part_form=pf))
                else:
                    tasks.append(div_task_E(ctx, "LowRankInitialize", opts, n, nm, v, form=DIV_ANY_FORMS[k % 4], part_form=pf))
                ctx.count("diversity:partition:" + pf + (":unsorted" if order != sorted(order) else ":sorted"))

    # ---- F. BaaLowRankInitialize at zero loss on states whose plan has SEVERAL factors (each factor gets its own options:
    #         a one-qubit factor has rank 1, an entangled factor rank 0): exact structured products (GHZ / W / Bell / cluster
    #         blocks next to basis or |+> factors, qubits permuted), and a 4-qubit block of Schmidt rank 2 across a 2|2 cut
    def ghz(k, a=1 / math.sqrt(2), b=1 / math.sqrt(2)):
        w = np.zeros(2 ** k, dtype=complex)
        w[0], w[-1] = a, b
        return w
    e0, e1, plus = np.array([1.0, 0.0]), np.array([0.0, 1.0]), np.array([1.0, 1.0]) / math.sqrt(2)
    bell = ghz(2)
    w4 = np.zeros(16)
    for q in range(4):
        w4[1 << q] = 0.5
    cl4 = np.kron(bell, bell)
    for i in range(16):
        if (i >> 1) & 1 and (i >> 2) & 1:
            cl4[i] = -cl4[i]
    structured = [("ghz4x0", [ghz(4), e0]), ("1xghz4", [e1, ghz(4)]), ("ghz4-0.6-0.8ix+", [ghz(4, 0.6, 0.8j), plus]),
                  ("bellxbellx0", [bell, bell, e0]), ("w4x1", [w4, e1]), ("cluster4x0", [cl4, e0]), ("ghz3xbell", [ghz(3), bell]),
                  ("ghz4xbell", [ghz(4), bell]), ("bellxghz4-0.6-m0.8", [bell, ghz(4, 0.6, -0.8)]), ("bellxbellxbell", [bell] * 3),
                  ("ghz3x0x1", [ghz(3), e0, e1]), ("0xbell", [e0, bell]), ("bellx1x+", [bell, e1, plus])]
    for nm, facs in structured:
        v = np.ones(1, dtype=complex)
        for f in facs:
            v = np.kron(v, f)
        n = int(round(math.log2(len(v))))
        perms = [list(range(n))] + [[int(a) for a in r.permutation(n)]]
        for pi_, perm in enumerate(perms):
            vv = _div_cl(np.transpose(v.reshape([2] * n), perm).reshape(-1))
            for st in ("brute_force", "greedy"):
                for ulr in ((False, True) if n <= 4 or (pi_ == 0 and st == "brute_force") else (False,)):
                    k = next(fc)
                    iso, uni = SCHEME_PAIRS[k % len(SCHEME_PAIRS)]
                    opts = {"max_fidelity_loss": 0 if k % 2 else 0.0, "strategy": st, "use_low_rank": ulr}
                    if k % 3 == 0:
                        opts.update(iso_scheme=iso, unitary_scheme=uni)
                    tasks.append(div_task_F(ctx, "BaaLowRankInitialize", opts, n, f"{nm}-perm{''.join(map(str, perm))}", vv,
                                            form=DIV_ANY_FORMS[k % 4]))
    for n in (5, 6):
        cut = [[0, 1], [0, 2], [1, 2], [0, 3]][int(r.integers(4))]
        u = _haar_cols(r, 4, 2)
        w = _haar_cols(r, 4, 2)
        blk = ref_undo(4, (u * np.array([0.8, 0.6])) @ w.T, cut)
        other = _haar_cols(r, 2 ** (n - 4), 1)[:, 0]
        v = _div_cl(np.kron(blk, other) if n == 5 else np.kron(other, blk))
        if not _div_cut_ok(v, n):
            ctx.count("diversity:skipped:rank-cut-band")
            continue
        for st in ("greedy", "brute_force"):
            for ulr in (True, False):
                tasks.append(div_task_F(ctx, "BaaLowRankInitialize",
                                        {"max_fidelity_loss": 0, "strategy": st, "use_low_rank": ulr}, n,
                                        f"rank2-block-cut{''.join(map(str, cut))}", v, form="list"))
    return tasks


def _div_reuse_pairs(cls, n):
    """(first options, second options, second up to phase?): the second set is meant for the (n+1)-qubit vector of the second
    construction; where the class has such options it is not valid for n qubits, or it permits a deviation the first does
    not (global_phase=False), so a gate that read the caller's dict late would be wrong."""
    if cls == "TopDownInitialize":
        return [({"global_phase": True}, {"global_phase": False, "lib": "qclib"}, True), (None, {"lib": "qiskit"}, False)]
    if cls in ("UCGInitialize", "UCGEInitialize"):
        return [({"target_state": 0}, {"target_state": 0, "preserve_previous": False}, False)]
    if cls == "IsometryInitialize":
        return [({"scheme": "ccd"}, {"scheme": "knill"}, False), ({"scheme": "csd"}, {"scheme": "ccd"}, False)]
    if cls == "LowRankInitialize":
        p1 = [0] if n >= 2 else None
        o1 = {"iso_scheme": "knill", "unitary_scheme": "csd"}
        if p1:
            o1["partition"] = p1
        return [(o1, {"partition": [n], "iso_scheme": "ccd"}, False), ({}, {"partition": [n, 0] if n >= 2 else [n]}, False)]
    if cls == "BaaLowRankInitialize":
        return [({"max_fidelity_loss": 0, "strategy": "brute_force"}, {"max_fidelity_loss": 0.0, "strategy": "greedy",
                                                                      "use_low_rank": True, "iso_scheme": "knill"}, False)]
    return []


def _diversity_tie(ctx):
    """The same families through the correspondence: TopDownInitialize (trees, multiplexer calls, gate list, phase) for every
    family without negative zeros, n = 1..4; LowRank plans with light-tail / structured vectors and the partition handed over
    as tuple / ndarray / numpy ints; SVD plans with tuple / real inputs."""
    r = ctx.nprng()
    for n in (1, 2, 3, 4):
        for name, v, tags in _div_vectors(r, n, 2 if n <= 3 else 1):
            if v is None or "negzero" in tags:
                continue
            for gp in ((None, False) if (n <= 3 or name.startswith(("tail", "equal-quartic", "unit"))) else (None,)):
                tie_topdown(ctx, v, gp, "div:" + name)
            ctx.count("diversity:tie:topdown:" + name.split("-")[0])
    pforms = {"tuple": tuple, "ndarray": lambda p: np.array(p, dtype=np.int64), "npint-list": lambda p: [np.int64(a) for a in p]}
    k = 0
    for n in (2, 3, 4):
        subsets = [list(s) for j in range(1, n) for s in itertools.combinations(range(n), j)]
        vecs = [(name, v) for name, v, tags in _div_vectors(r, n, 1)
                if v is not None and "negzero" not in tags and name.startswith(("tail", "equal-quartic", "unit", "sparse", "subtree",
                                                                                  "realsigned", "repeat", "dyadic"))]
        for name, v in vecs:
            k += 1
            sub = subsets[k % len(subsets)]
            order = list(sub)
            if len(order) >= 2 and k % 2:
                order = order[::-1]
            pf = list(pforms)[k % 3]
            for part, obj in ((None, None), (order, pforms[pf](order))):
                _, svals = eff_rank(v, n, default_partition(n) if part is None else sub)
                if any(DIV_CUT_BAND[0] <= x <= DIV_CUT_BAND[1] for x in svals):
                    ctx.count("plesch:skipped-threshold-band")
                    continue
                for lr in (0, 1):
                    iso, uni = PLESCH_SCHEMES[(k + lr) % 2]
                    op, lines = plan_impl(v, n, part, lr, iso, uni, "auto" if k % 2 else "regular", part_obj=obj)
                    ctx.tie(op, lines)
                    ctx.count("diversity:tie:lrplan:" + ("default-partition" if part is None else pf))
    for n in (2, 3, 4, 5):
        for name, v, tags in _div_vectors(r, n, 0):
            if v is None or "negzero" in tags:
                continue
            x = tuple(v) if "real" not in tags else np.array(v.real, dtype=np.float64)
            op, lines = svdplan_impl(x, n)
            ctx.tie(op, lines)
            ctx.count("diversity:tie:svdplan")


def _flagform_tasks(ctx):
    """flag-form pass (section G).  Options of the dense initializers with a boolean value or a valid FALSY value:
      TopDownInitialize   global_phase (bool)        True / False as numpy.bool_, int 1 / 0
      LowRankInitialize   lr (int; 0 = no truncation) 0 as int, np.int64, np.int32 next to None, 2^n (ignored: out of range)
                          partition                   [0] (qubit index 0 alone), [n - 1], [0, n - 1] in every container /
                                                      integer type (list, tuple, ndarray, list of np.int64, tuple of np.int32)
      BaaLowRankInitialize max_fidelity_loss (0 = exact) 0 as int, 0.0, -0.0, np.float64, np.float32, np.int64
                          max_combination_size (0 = maximal; 1, 2) as int, np.int64, np.int32
                          use_low_rank (bool)          True / False as numpy.bool_, int 1 / 0; x strategy
      (iso_scheme / unitary_scheme / svd / scheme / lib / strategy are strings: no second form; UCG / UCGE options: C12)
    through the constructor and the static initialize (keyword and positional opt_params, permuted host wires), n = 1 (the
    n < 2 hand-over to TopDown), 2, 3, 4.  Oracle: the property's own (Statevector vs the vector, global phase included unless
    global_phase is falsy).  Tie: TopDown trees / gate list / phase with the flag object vs the model asked with the Python
    bool; LowRank plans with lr = np.int64(0) / np.int32(0) vs the model's lr = 0."""
    r = ctx.nprng()
    tasks = []
    T = _div_task_sec("G")
    j = 0

    def entry(n, j):
        return _div_entry(ctx, n, ["int", "qubit", "npint"][j % 3], positional=(j % 2 == 0))

    def vec(n, fam="complex"):
        return make_vector(r, n, fam)
    # (A) TopDown global_phase
    for n in (1, 2, 3, 4):
        for gp in (True, False):
            for ftag in ("npbool", "int"):
                for extra in ({}, {"lib": "qclib"}):
                    j += 1
                    ctx.count(f"flagforms:global_phase:{ftag}:{gp}")
                    opts = dict({"global_phase": gp}, **extra)
                    kw = dict(upto=not gp, opt_forms={"global_phase": ftag})
                    if extra:
                        tasks.append(T(ctx, "TopDownInitialize", opts, n, "complex", vec(n), call="static", entry=entry(n, j), **kw))
                    else:
                        tasks.append(T(ctx, "TopDownInitialize", opts, n, "complex", vec(n), form=["c128", "list"][(j // 2) % 2], **kw))
                flag = OPT_FORM_CAST[ftag](gp)
                tie_topdown(ctx, vec(n), flag, f"flagforms:global_phase={ftag}({gp})")
                if n == 2:
                    tie_topdown(ctx, vec(n, "sparse"), flag, f"flagforms:global_phase={ftag}({gp}):lib", {"lib": "qclib"})
    # (B) LowRank lr = 0 and the partition ends
    for n in (1, 2, 3, 4):
        for ftag in ("int", "npint", "npint32"):
            for lr in (0, 2 ** n):
                j += 1
                ctx.count(f"flagforms:lr:{ftag}:{lr if lr == 0 else '2^n'}")
                opts = {"lr": lr, "svd": ["auto", "regular"][j % 2]}
                if j % 2:
                    tasks.append(T(ctx, "LowRankInitialize", opts, n, "complex", vec(n), opt_forms={"lr": ftag}))
                else:
                    tasks.append(T(ctx, "LowRankInitialize", opts, n, "complex", vec(n), call="static", entry=entry(n, j),
                                   opt_forms={"lr": ftag}))
            if n >= 2 and ftag != "int":
                v = vec(n)
                part = [[0], [n - 1], None][j % 3]
                if part is None or not in_band(n, v, part):
                    iso, uni = PLESCH_SCHEMES[j % 2]
                    # the one-element partition [0] / [n - 1] as ndarray / numpy ints (a one-element array [0] is FALSY)
                    pobj = None if part is None else [np.array(part, dtype=np.int64), [np.int64(a) for a in part],
                                                      tuple(np.int32(a) for a in part)][j % 3]
                    op, lines = plan_impl(v, n, part, OPT_FORM_CAST[ftag](0), iso, uni, "auto", part_obj=pobj)
                    ctx.tie(op, lines)
                    ctx.count("flagforms:tie:lrplan:lr=" + ftag + ("" if part is None else f":partition={part}-as-{type(pobj).__name__}"))
        if n >= 2:
            for part in ([0], [n - 1]):
                v = make_vector(r, n, "complex", part)
                if not in_band(n, v, part):
                    for pobj in (np.array(part, dtype=np.int64), [np.int64(part[0])]):
                        op, lines = plan_impl(v, n, part, 0, "ccd", "qsd", "auto", part_obj=pobj)
                        ctx.tie(op, lines)
                        ctx.count(f"flagforms:tie:lrplan:partition={part}-as-{type(pobj).__name__}")
            for part in ([0], [n - 1], [0, n - 1]):
                if len(part) >= n:
                    continue
                for pf in ("list", "tuple", "ndarray", "npint-list", "npint32-tuple"):
                    j += 1
                    v = make_vector(r, n, "complex", part)
                    ctx.count(f"flagforms:partition:{pf}:{'+'.join('0' if q == 0 else 'n-1' for q in part)}")
                    opts = {"partition": part, "lr": 0}
                    kw = dict(part_form=pf, opt_forms={"lr": ["int", "npint"][j % 2]})
                    if j % 2:
                        tasks.append(T(ctx, "LowRankInitialize", opts, n, "complex", v, **kw))
                    else:
                        tasks.append(T(ctx, "LowRankInitialize", opts, n, "complex", v, call="static", entry=entry(n, j), **kw))
    # (A), (B) BAA: zero loss, maximal combination size, use_low_rank
    loss_tags = ("int", "float", "negzero", "npfloat", "npfloat32", "npint")
    for n in (1, 2, 3, 4):
        for st in ("greedy", "brute_force", "split", "canonical"):
            for ulr in (True, False):
                for utag in ("npbool", "int"):
                    j += 1
                    if n == 4 and st in ("split", "canonical") and utag == "int":
                        continue
                    mcs = [0, 1, 2][j % 3]
                    if mcs > max(1, n // 2):
                        mcs = 0
                    ltag, mtag = loss_tags[j % len(loss_tags)], ["int", "npint", "npint32"][(j // 2) % 3]
                    for c in (f"flagforms:use_low_rank:{utag}:{ulr}", f"flagforms:max_fidelity_loss:{ltag}:0",
                              f"flagforms:max_combination_size:{mtag}:{mcs}"):
                        ctx.count(c)
                    opts = {"max_fidelity_loss": 0, "strategy": st, "use_low_rank": ulr, "max_combination_size": mcs}
                    of = {"max_fidelity_loss": ltag, "use_low_rank": utag, "max_combination_size": mtag}
                    fam = ["complex", "product", "sparse", "real_signed"][j % 4]
                    if j % 3:
                        tasks.append(T(ctx, "BaaLowRankInitialize", opts, n, fam, vec(n, fam), opt_forms=of))
                    else:
                        tasks.append(T(ctx, "BaaLowRankInitialize", opts, n, fam, vec(n, fam), call="static", entry=entry(n, j),
                                       opt_forms=of))
    return tasks


def _diversity_oracle(ctx):
    tasks = _diversity_oracle_tasks(ctx) + _flagform_tasks(ctx)
    run_div_tasks(ctx, tasks)
    ctx.notes.append("input diversity (_diversity_*): every class x documented option values x {python list, tuple, list of numpy "
                     "scalars (64 / 32 bit), complex128, complex64, float64, float32, int64, all-int lists, mixed int/complex lists} "
                     "x {heavy head + light tail 1e-3 / 1e-4 / 3e-6 at start / end / mixed, graded 1..1e-6, equal moduli with phases "
                     "+-1 / +-i, repeated values, all-negative, purely imaginary, global phase -1 / i, one amplitude of modulus 1 at "
                     "each index with each quartic phase, sparse, single sub-tree, exact dyadic vectors, negative zeros} x {constructor, "
                     "static initialize on a permuted non-ascending sub-list of a wider host with int / numpy-int / Qubit / two-register "
                     "/ tuple / positional arguments, same gate twice, copy / deepcopy before and after the definition, one opt_params "
                     "dict reused with changed contents}, n = 1, 2, 3 in full, 4, selected 5, 6; float32 / complex64 inputs are exact "
                     "dyadic vectors (anything else fails the documented 1e-10 normalisation test); light-tail vectors keep every "
                     f"Schmidt coefficient across every bipartition outside [{DIV_CUT_BAND[0]}, {DIV_CUT_BAND[1]}]")


# ------------------------------------------------------------------------------------------------
# entry points
# ------------------------------------------------------------------------------------------------

def run(ctx):
    run_tie_topdown(ctx)
    run_tie_boundaries(ctx)
    run_tie_plesch(ctx, nmax=5 if ctx.quick else 6)
    _diversity_tie(ctx)
    run_oracle(ctx)
    _diversity_oracle(ctx)


def search(ctx, hints):
    """Failing-input search on the real code: first the inputs on which model and code disagreed, then the structured
    generator (thorough sizes are used by the framework's search context)."""
    tasks = []
    for h in hints[:40]:
        op = h.get("op", {})
        if op.get("op") == "topdown":
            v = np.array(op["re"]) + 1j * np.array(op["im"])
            gp = op.get("gp", True)
            tasks.append(make_task("TopDownInitialize", {"global_phase": bool(gp)}, op["n"], op.get("family", "hint"),
                                   len(tasks), v, upto_phase=not gp))
        elif op.get("op") == "lrplan" and op.get("n", 0) >= 2:
            n = op["n"]
            part = op.get("P") or default_partition(n)
            r = ctx.nprng()
            for fam in ("complex", "rankdef"):
                v = make_vector(r, n, fam, part)
                tasks.append(make_task("LowRankInitialize", {"partition": part, "lr": 0, "iso_scheme": op.get("iso", "ccd"),
                                                             "unitary_scheme": op.get("uni", "qsd")}, n, fam, len(tasks), v))
        elif op.get("op") == "svdplan" and op.get("n", 0) >= 2:
            r = ctx.nprng()
            v = make_vector(r, op["n"], "complex")
            tasks.append(make_task("SVDInitialize", None, op["n"], "complex", len(tasks), v))
    run_tasks(ctx, tasks)
    run_oracle(ctx, nmax=6)


def replay(ctx, payload):
    rp = payload["replay"]
    if rp.get("div"):
        import framework
        t = dict(rp, repo=framework.REPO)
        record_div(ctx, t, eval_div(t))
        return
    v = np.array(rp["re"]) + 1j * np.array(rp["im"])
    t = make_task(rp["cls"], rp["opts"], rp["n"], rp.get("family", "replay"), 0, v, upto_phase=rp.get("upto_phase", False),
                  label=rp.get("label"), entry=rp.get("entry"))
    t["key"] = rp.get("key", t["key"])
    if rp.get("allclose_probe"):
        t["allclose_probe"] = True
    if rp.get("rsvd_seed") is not None:
        t["rsvd_seed"] = rp["rsvd_seed"]
    record(ctx, t, eval_case(t))
