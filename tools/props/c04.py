"""C04 — multi-controlled one-qubit gates.  Part A (this file): Ldmcsu, LdMcSpecialUnitary (qclib/gates/ldmcsu.py),
MultiTargetMCSU2 (multitargetmcsu2.py), apply_ctrl_state (gates/util.py).  Part B (Ldmcu, Qdmcu, Mcg, MCU) lives in
props/c04_u2.py and is called from here."""
import itertools
import math
import os
import warnings

import numpy as np

try:
    from props import c04_u2 as U2
except ImportError:  # pragma: no cover
    U2 = None

CLAIMED = True
TECHNIQUE = ("Lean 4 proofs: amplitude-function semantics over any commutative ring for the eight-gate core and the Barenco "
             "ABC circuit (all states, all wire layouts), list/omega arithmetic for the wire and pattern slices (all k), "
             "real/complex algebra for the fourth-root gate, the H conjugation and the ZYZ/ABC identities; gate-skeleton "
             "correspondence with ldmcsu.py / multitargetmcsu2.py / util.py; Operator oracle")
LEVEL_TEXT = ("Proved for all sizes/inputs of the model: C04_ctrl_state (X conjugation = pattern, every string), C04_slices (the "
              "two half-size MCX wire lists have the lengths McxVchainDirty expects, are duplicate-free, borrow the other half's "
              "controls, and the pattern slices follow the wire slices; every k>=2), C04_ldmcsu_core (MCX1,A,MCX2,A',MCX1,A,MCX2,A' "
              "with ideal MCX = C^k((A'XAX)^2) on every state, any commutative ring), C04_gate_a (_compute_gate_a is special "
              "unitary and (A^dagger X A X)^2 = [[conj z, x],[-x, z]] for real x, complex z, x^2+|z|^2=1, Re z != -1; the x=0 "
              "branch from the fourth-root specification), C04_h_conj, C04_abc (ABC=I, AXBXC=RZ RY RZ; Barenco circuit with ideal "
              "MCX = C^k(U); C04_abc_model: the same for the executable model's matrices), C04_multitarget, C04_ldmcsu_circuit (the "
              "model's linear_depth_mcv gate list denotes C^k((A'XAX)^2) for every k>=2, pattern and wire layout).  Part B "
              "(Ldmcu, Qdmcu, Mcg, MCU): C04_pairs, C04_ladder_diag_partial, C04_ladder_weights, C04_ladder_run_partial, C04_qdmcu(_step), C04_mcg_dispatch, C04_mcu_base, "
              "C04_mcu_error_partial, C04_mcu_operator, C04_mcu_degenerate, C04_mcu_error (whole approximate gate, operator norm, all states; see props/c04_u2.py).  Unconditional (C05 composed in, V-chains and the .inverse() V-chain "
              "expanded to the primitive gates the tie compares): C04_vchain_inverse (the expanded McxVchainDirty and its qiskit "
              "inverse both denote the ideal MCX on every duplicate-free wire list), C04_ldmcsu_full (the expanded linear_depth_mcv "
              "list denotes C^k((A'XAX)^2) for every k>=2, layout, pattern, state; no MCX hypothesis), C04_ldmcsu_full_defined "
              "(the expansion exists for every pattern of length <= k), C04_ldmcsu_spec (real instance, amplitudes in C: the whole "
              "expanded Ldmcsu definition denotes 'U on the target iff the controls read the pattern' for every SU(2) U with real "
              "secondary diagonal (plain branch) or real main diagonal (H sandwich), and for one control; the eigenbasis path for "
              "general SU(2) stays tied/tested only), C04_multitarget_full / _full_defined / _spec (the expanded MultiTargetMCSU2 "
              "definition, multi-target V-chains and the inverse chain written out, applies unitaries[j] to target j iff the "
              "controls read the pattern, for every k>=2, pattern, state, and every list of SU(2) matrices with a real secondary "
              "or real main diagonal; H pairs pushed onto their targets), C04_ldmcsp_spec (the expanded LdMcSpecialUnitary definition, "
              "LinearMcx(k-1) and its inverse written out, is C^k(RZ RY RZ) for 1<=k<=6 given the _params_zyz specification of the "
              "angle triples; unconditional on the MCX), C04_ldmcsp_partial (same for every k; for k>=7 the bracket property of the "
              "LinearMcx(action_only=True) pair, whose borrowed controls are left dirty and cleaned by the inverse copy, remains a "
              "named hypothesis LmBracket), C04_ldmcsp_full_defined.  The older circuit-level statements (C04_ldmcsu_circuit, C04_abc, "
              "C04_multitarget) take 'the dirty-ancilla MCX denotes the ideal MCX' as an explicit hypothesis.  Tie: flattened gate skeletons (wires, patterns, branch, "
              "op_a / s_op / ABC matrices to 1e-9) of the real definitions vs the model for k<=7 (9 thorough), all patterns "
              "k<=5.  Oracle: Operator(definition) vs reference controlled-U, k<=8 (10 thorough).")
LEVEL_NOTE = ("Trusted: Lean kernel (axioms propext, Classical.choice, Quot.sound); hand model = code beyond the explored sizes; "
              "np.linalg.eig of a 2x2 (eigenbasis path of Ldmcsu: tied and tested, not proved), qiskit _params_zyz (specified: "
              "U = RZ(phi) RY(theta) RZ(lam), validated each run), UnitaryGate, .control(1), mcx, inverse(); float: the branch tests "
              "isclose(x.imag, 0.0, abs_tol=1e-12) are read as x.imag = 0 by the model, the driver sets imaginary parts up to 1e-12 "
              "to 0 before calling it (dust cases tied).  MultiTargetMCSU2 is claimed only for unitaries with a real main or real "
              "secondary diagonal (rotations, +-I, +-iX, +-iZ, iY...): for a general SU(2) the code raises ValueError (no "
              "eigenbasis path) — outside the property's quantifier ('each listed rotation').")
LEAN_TARGETS = ["QclibModel.Props.C04", "QclibModel.Props.C04U2"]
THEOREMS = ["Qclib.C04_ctrl_state", "Qclib.C04_ctrl_state_bits", "Qclib.C04_slices", "Qclib.C04_ldmcsu_core", "Qclib.C04_ldmcsu_circuit",
            "Qclib.C04_gate_a", "Qclib.C04_gate_a_diag", "Qclib.C04_h_conj", "Qclib.C04_abc", "Qclib.C04_abc_model", "Qclib.C04_multitarget",
            "Qclib.C04_ldmcsu_full", "Qclib.C04_vchain_inverse", "Qclib.C04_ldmcsu_full_defined", "Qclib.C04_ldmcsu_spec",
            "Qclib.C04_multitarget_full", "Qclib.C04_multitarget_full_defined", "Qclib.C04_multitarget_spec",
            "Qclib.C04_ldmcsp_partial", "Qclib.C04_ldmcsp_full_defined", "Qclib.C04_ldmcsp_spec",
            # part B (props/c04_u2.py, Props/C04U2.lean)
            "Qclib.C04_pairs", "Qclib.C04_ladder_diag_partial", "Qclib.C04_ladder_weights", "Qclib.C04_ladder_run_partial",
            "Qclib.C04_qdmcu_step", "Qclib.C04_qdmcu",
            "Qclib.C04_mcg_dispatch", "Qclib.C04_mcu_base", "Qclib.C04_mcu_error_partial",
            "Qclib.C04_mcu_operator", "Qclib.C04_mcu_degenerate", "Qclib.C04_mcu_error",
    "Qclib.C04_lm_bracket",
    "Qclib.C04_ldmcsp_spec_all",
    "Qclib.C04_eig_algebra",
    "Qclib.C04_eig_both",
    "Qclib.C04_mv_bracket",
    "Qclib.C04_ldmcsu_eig",
    "Qclib.C04_ldmcsu_eig_full",
    "Qclib.C04_ldmcsu_eig_full_defined",
    "Qclib.C04_ldmcsu_eig_spec",
    "Qclib.C04_ldmcu_full",
    "Qclib.C04_ldmcu_basis",
    "Qclib.C04_ldmcu_groups",
    "Qclib.C04_qdmcu_full"]
TRUSTED = [
    "qiskit UnitaryGate / .inverse() / .control(1, ctrl_state) / mcx / H / X matrices (K4; the Operator oracle exercises them)",
    "np.linalg.eig(2x2) and OneQubitEulerDecomposer._params_zyz are inputs of the model (their specifications are re-checked "
    "numerically on every call)",
    "McxVchainDirty / LinearMcx sub-circuits are expanded through the C05 model for the tie; the theorems use the ideal MCX "
    "as hypothesis (C05_vchain / C05_linear)",
    "float: theorems are exact; the driver runs the same definitions over Float and is compared to 1e-9",
    "part B (Ldmcu, Qdmcu, Mcg, MCU): np.linalg.eig of a 2x2 unitary and the spectral formula of _gate_u / custom_sqrtm give "
    "the principal root U^(s/p) (each emitted root is compared with an independent Schur-based root on every run); qiskit crx, "
    "x, UnitaryGate, .control(1, ctrl_state), .inverse(), little-endian Operator (pinned numerically each run); "
    "LinearMcx(action_only=True) inside Qdmcu is the C05 model, expanded and diffed gate by gate",
]
ASSUMPTIONS = ["exact arithmetic in the theorems; implementation compared to 1e-7 (operators) / 1e-9 (gate parameters)",
               "the dirty-ancilla V-chain and LinearMcx denote the ideal MCX on pairwise distinct wires (C05)",
               "_params_zyz returns (theta, phi, lam) with U = RZ(phi) RY(theta) RZ(lam) for U in SU(2)",
               "part B: C04_qdmcu assumes an ideal multi-controlled X and exact square roots V*V = U, V'*V = 1; "
               "C04_ladder_*_partial prove the exponent bookkeeping of the four sweeps under classical propagation, the "
               "operator-level lift is C04_ldmcu_full; MCU: C04_mcu_operator (the truncated ladder is C^k(U) times one omitted root "
               "controlled by the k-b+1 lowest controls) and C04_mcu_error (operator-norm bound <= error for every state, all k, "
               "patterns and accepted base counts) are proved given U's eigen-decomposition and the exact real base count; "
               "the multi-target RX call inside MCU has its ideal meaning there (C04_multitarget_spec)"]
RULE = ("tie: (class, matrix family, k, ctrl_state) tuples whose flattened definition was diffed against the Lean model; "
        "oracle: Operator(definition) vs reference controlled-U for distinct (class, family, k, ctrl_state); non-trivial = "
        "k>=2 and U != I")
DRIVER = "Drivers/C04.lean"

# Generator-quality audit (tools/branch_audit.py C04): items of the anchored files that the generated inputs do not
# reach, and why that is acceptable for this property.
UNREACHED_JUSTIFIED = {
    "qclib/gates/ldmcsu.py:318": "LdMcSpecialUnitary raise for a matrix outside SU(2): invalid input, rejection is C16's property (probed there)",
    "qclib/gates/util.py:44": "check_u2 raise for a non-2x2 matrix: invalid input, C16",
    "qclib/gates/util.py:48": "check_u2 raise for a non-unitary matrix: invalid input, C16",
    "qclib/gates/multitargetmcsu2.py:136->145": "general_su2_optimization=True is never passed: _define calls "
                                                "clinear_depth_mcv() with the default; no entry point sets it",
    "qclib/gates/mcx.py:96->exit": "toffoli_multi_target is only called with side in ('l', 'r', None): the implicit "
                                   "fall-through of the elif chain is dead",
    "qclib/gates/mcx.py:160->exit": "the action-part loop always leaves through the `break` at i = num_ctrl - 2; it is "
                                    "never exhausted (the chain branch needs num_ctrl >= 3)",
    "qclib/gates/mcx.py:211 mcx_vchain_dirty": "static helper of the MCX gates: C05/C15 (known finding K-C15-2: it passes "
                                               "its arguments to the constructor in the wrong positions)",
    "qclib/gates/mcx.py:329 mcx": "static helper of LinearMcx: C05/C15 (known finding K-C15-1: appends a k+2-qubit gate "
                                  "to k+1 qubits)",
}

TOL = 1e-7
I2 = np.eye(2, dtype=complex)
PX = np.array([[0, 1], [1, 0]], dtype=complex)
PY = np.array([[0, -1j], [1j, 0]], dtype=complex)
PZ = np.diag([1, -1]).astype(complex)
HAD = np.array([[1, 1], [1, -1]], dtype=complex) / math.sqrt(2)


# ------------------------------------------------------------------------------------------------
# matrix families (each selects a branch of the code)
# ------------------------------------------------------------------------------------------------

def rx(t):
    c, s = math.cos(t / 2), math.sin(t / 2)
    return np.array([[c, -1j * s], [-1j * s, c]])


def ry(t):
    c, s = math.cos(t / 2), math.sin(t / 2)
    return np.array([[c, -s], [s, c]], dtype=complex)


def rz(t):
    return np.array([[np.exp(-0.5j * t), 0], [0, np.exp(0.5j * t)]])


def haar_su2(r):
    v = np.array([r.gauss(0, 1) for _ in range(4)])
    v /= np.linalg.norm(v)
    a, b = complex(v[0], v[1]), complex(v[2], v[3])
    return np.array([[a, -np.conj(b)], [b, np.conj(a)]])


def away(r, lo, hi, bad, band):
    """uniform in [lo, hi] staying `band` away from every point of `bad` (thresholds / ill-conditioned points)."""
    while True:
        t = r.uniform(lo, hi)
        if all(abs(t - b) > band for b in bad):
            return t


def families(r):
    """name -> matrix.  Fixed boundary matrices + random members of each branch-selecting family.
    Random angles stay 0.05 away from multiples of pi (exact real/imaginary diagonals are separate, fixed members;
    rotations by ~2*pi are the ill-conditioned neighbourhood of -I, probed separately)."""
    mult = [j * math.pi for j in range(-4, 5)]
    ang = lambda: away(r, -2 * math.pi + 0.05, 2 * math.pi - 0.05, mult, 0.05)
    f = {
        "I": I2.copy(), "-I": -I2, "iX": 1j * PX, "-iX": -1j * PX, "iZ": 1j * PZ, "-iZ": -1j * PZ, "iY": 1j * PY,
        "-iY": -1j * PY, "RZpi": rz(math.pi), "RYpi": ry(math.pi), "RXpi": rx(math.pi), "iH": 1j * HAD,
        "RY": ry(ang()), "RZ": rz(ang()), "RX": rx(ang()), "haar": haar_su2(r), "haar2": haar_su2(r),
    }
    # rotations about an axis in the XZ plane: complex main diagonal, imaginary secondary diagonal -> eigenbasis path of
    # Ldmcsu, and the eigenvector matrix is REAL (np.linalg.eig returns it with or without float dust in the imaginary
    # parts): the real-secondary-diagonal branch of `_get_x_z(eig_vecs)`.  iH above is the member (1,0,1)/sqrt2, angle pi.
    for nm in ("RXZ", "RXZ2"):
        ax, th = r.uniform(0.0, 2 * math.pi), ang()
        while min(abs(math.cos(ax)), abs(math.sin(ax))) < 0.05:
            ax = r.uniform(0.0, 2 * math.pi)
        f[nm] = math.cos(th / 2) * I2 - 1j * math.sin(th / 2) * (math.cos(ax) * PX + math.sin(ax) * PZ)
    f["RXZ-3-4-5"] = 0.6 * I2 - 0.8j * (0.6 * PX + 0.8 * PZ)
    h = haar_su2(r)
    a, b = abs(h[0, 0]), h[1, 0]
    f["main-real"] = np.array([[a, -np.conj(b)], [b, a]])            # real main diagonal, complex secondary: H sandwich
    f["main-real-neg"] = -f["main-real"]
    h = haar_su2(r)
    a, b = h[0, 0], abs(h[1, 0])
    f["sec-real"] = np.array([[a, -b], [b, np.conj(a)]])             # real secondary diagonal, complex main
    f["sec-real-neg"] = -f["sec-real"]
    return f


IMAG_TOL = 1e-12      # abs_tol of the code's `isclose(x.imag, 0.0, abs_tol=1e-12)` branch tests (ldmcsu.py, multitargetmcsu2.py)


def _real(x):
    return abs(x.imag) <= IMAG_TOL


def is_real_diag_type(u):
    """main or secondary diagonal real up to the code's tolerance (the matrices MultiTargetMCSU2 is defined for)."""
    return (_real(u[0, 0]) and _real(u[1, 1])) or (_real(u[0, 1]) and _real(u[1, 0]))


def dusty(u, eps=1e-17):
    """`u` with imaginary float dust on all four entries: what u2_to_su2(e^{ia} u) returns for a real rotation u.  Both
    diagonals are real only up to the tolerance: the `abs_tol` side of the branch tests."""
    d = np.array(u, dtype=complex)
    d[0, 0] += eps * 1j
    d[1, 1] -= eps * 1j
    d[0, 1] += eps * 1j
    d[1, 0] += eps * 1j
    return d


def on_root_cut(cls, us):
    """Some listed matrix has x = 0 and z = -1 + (negative rounding dust)i, (x, z) as `_get_x_z` reads them: the branch
    cut of the principal fourth root in `_compute_gate_a`, where the model (which clears imaginary dust before it
    starts) legitimately picks the other root."""
    if cls == "LdMcSpecialUnitary":
        return False
    for u in us:
        if not is_real_diag_type(u):
            continue
        if _real(u[0, 1]) and _real(u[1, 0]):
            x, z = u[0, 1].real, u[1, 1]
        else:
            x, z = -u[0, 1].real, u[1, 1] - 1j * u[0, 1].imag
        if x == 0 and z.real < 0 and -IMAG_TOL <= z.imag < 0:
            return True
    return False


def region(cls, us, k):
    """Input region used in failure keys (narrow, computed from the input)."""
    tags = []
    if cls == "MultiTargetMCSU2" and k == 1:
        tags.append("k=1")
    for u in us:
        if not is_real_diag_type(u):
            if cls == "MultiTargetMCSU2":
                tags.append("general-su2")
            continue
        # (x, z) as _get_x_z computes them
        if _real(u[0, 1]) and _real(u[1, 0]):
            x, z = u[0, 1].real, u[1, 1]
        else:
            x, z = -u[0, 1].real, u[1, 1] - 1j * u[0, 1].imag
        if x != 0 and z.real + 1.0 < 1e-6:
            tags.append("near-minus-I")
    return "+".join(sorted(set(tags))) or "regular"


# ------------------------------------------------------------------------------------------------
# real code
# ------------------------------------------------------------------------------------------------

def mflat(m):
    m = np.asarray(m, dtype=complex)
    return [float(v) for e in m.ravel() for v in (e.real, e.imag)]


def mline(m):
    return " ".join(repr(v) for v in mflat(m))


def build(cls, us, k, cs):
    """The real gate object's definition (a QuantumCircuit)."""
    if cls == "Ldmcsu":
        from qclib.gates.ldmcsu import Ldmcsu
        return Ldmcsu(us[0], k, cs).definition
    if cls == "LdMcSpecialUnitary":
        from qclib.gates.ldmcsu import LdMcSpecialUnitary
        return LdMcSpecialUnitary(us[0], k, cs).definition
    from qclib.gates.multitargetmcsu2 import MultiTargetMCSU2
    return MultiTargetMCSU2(list(us), k, len(us), cs).definition


def ctrl_unitary(op):
    """(ctrl value, base matrix) if `op` is what `QuantumCircuit(1).unitary(U).control(1, ctrl_state)` builds (possibly
    wrapped once by `append`), else None.  It is a K4 primitive: qiskit's synthesis of it is not expanded."""
    from qiskit.circuit import ControlledGate
    inner = op
    if not isinstance(inner, ControlledGate) and op.definition is not None and len(op.definition.data) == 1 \
            and op.num_qubits == 2:
        inner = op.definition.data[0].operation
    if isinstance(inner, ControlledGate) and inner.num_ctrl_qubits == 1 and inner.num_qubits == 2:
        base = inner.base_gate
        bd = base.definition
        if bd is not None and len(bd.data) == 1 and bd.data[0].operation.name == "unitary":
            return int(inner.ctrl_state), bd.data[0].operation.to_matrix()
    return None


def skeleton(cls, defn, k, wires=None, out=None):
    """Flattened definition in the line format of Drivers/C04.lean (tools/flatten.py's alphabet plus `cunitary`)."""
    import flatten as FL
    if out is None:
        out = []
    if wires is None:
        wires = list(range(defn.num_qubits))
    for inst in defn.data:
        op = inst.operation
        qs = [wires[defn.find_bit(q).index] for q in inst.qubits]
        w = " ".join(str(q) for q in qs)
        cu = ctrl_unitary(op) if op.name not in FL.PRIMITIVE and op.name not in FL.OPAQUE else None
        if cu is not None:
            out.append(f"cunitary {w} ; {cu[0]} {mline(cu[1])}")
        elif op.name == "unitary":
            out.append(f"unitary {w} ; {mline(op.params[0])}")
        elif op.name in FL.PRIMITIVE or op.name in FL.OPAQUE or op.definition is None:
            sub = type(defn)(defn.num_qubits)
            sub.append(op, [defn.find_bit(q).index for q in inst.qubits])
            for name, _, params in FL.flatten(sub):
                out.append(f"{name} {w} ; " + " ".join(repr(float(p)) for p in params))
        else:
            skeleton(cls, op.definition, k, qs, out)
    return out


def zyz(m):
    from qiskit.synthesis import OneQubitEulerDecomposer
    th, ph, la, _ = OneQubitEulerDecomposer._params_zyz(np.asarray(m, dtype=complex))
    return [float(th), float(ph), float(la)]


def tie_op(cls, us, k, cs):
    """The op sent to the Lean driver (with the K4 inputs the model takes as parameters)."""
    op = {"k": k}
    if cs is not None:
        op["cs"] = cs
    if cls == "Ldmcsu":
        u = np.asarray(us[0], dtype=complex)
        vals, vecs = np.linalg.eig(u)
        op.update(op="ldmcsu", u=mflat(u), eigvals=mflat(vals), eigvecs=mflat(vecs))
    elif cls == "LdMcSpecialUnitary":
        from qclib.gates.ldmcsu import LdMcSpecialUnitary
        u = np.array(us[0], dtype=complex)
        t = zyz(u)
        a, b, c = LdMcSpecialUnitary.get_abc_operators(t[1], t[0], t[2])
        op.update(op="ldmcsp", zyz=t + zyz(a.to_matrix()) + zyz(b.to_matrix()) + zyz(c.to_matrix()))
    else:
        op.update(op="multi", nt=len(us), us=[v for u in us for v in mflat(u)])
    return op


def ref_matrix(us, k, cs):
    """Reference controlled operator, qiskit little-endian: controls = qubits 0..k-1 (control i must read
    ctrl_state[::-1][i]; None = all ones), target j = qubit k+j."""
    nt = len(us)
    dim = 2 ** (k + nt)
    pat = int(cs, 2) if cs is not None else 2 ** k - 1
    full = np.eye(1)
    for u in us:
        full = np.kron(u, full)
    m = np.eye(dim, dtype=complex)
    idx = [pat + (h << k) for h in range(2 ** nt)]
    m[np.ix_(idx, idx)] = full
    return m


def eval_case(args):
    """Worker: build the real definition, dump its skeleton, evaluate the Operator oracle.  Returns a plain dict."""
    cls, fam, us, k, cs, do_oracle = args
    us = [np.asarray(u, dtype=complex) for u in us]
    out = {"cls": cls, "fam": fam, "k": k, "cs": cs, "region": region(cls, us, k), "exc": None, "lines": None,
           "err": None, "width": None}
    try:
        with warnings.catch_warnings():
            warnings.simplefilter("ignore")
            defn = build(cls, us, k, cs)
            out["width"] = defn.num_qubits
            out["lines"] = skeleton(cls, defn, k)
    except ValueError as e:
        out["exc"] = "ValueError: " + str(e)[:120]
        return out
    except Exception as e:  # any other exception of qclib on a valid input
        out["exc"] = type(e).__name__ + ": " + str(e)[:120]
        return out
    if do_oracle == "state":
        out["err"] = state_error(defn, us, k, cs)
    elif do_oracle and defn.num_qubits <= 11:
        from qiskit.quantum_info import Operator
        with warnings.catch_warnings():
            warnings.simplefilter("ignore")
            opm = Operator(defn).data
        ref = ref_matrix(us, k, cs)
        out["err"] = float(np.abs(opm - ref).max()) if opm.shape == ref.shape else float("inf")
    return out


def state_error(defn, us, k, cs, reps=2):
    """Cheap form of the Operator oracle for wide gates (boundary sizes k >= 8): the definition applied to `reps` dense
    pseudo-random states (fixed by k and the pattern, every amplitude non-zero) versus the reference controlled operator
    applied to the same states; sup-norm of the difference.  A wrong operator D != 0 moves a generic state by |D psi| > 0."""
    from qiskit.quantum_info import Statevector
    nt = len(us)
    if defn.num_qubits != k + nt:
        return float("inf")
    dim = 2 ** (k + nt)
    pat = int(cs, 2) if cs is not None else 2 ** k - 1
    full = np.eye(1)
    for u in us:
        full = np.kron(u, full)
    idx = [pat + (h << k) for h in range(2 ** nt)]
    g = np.random.default_rng(977 * k + 31 * nt + pat)
    worst = 0.0
    for _ in range(reps):
        psi = g.standard_normal(dim) + 1j * g.standard_normal(dim)
        psi /= np.linalg.norm(psi)
        ref = psi.copy()
        ref[idx] = full @ psi[idx]
        with warnings.catch_warnings():
            warnings.simplefilter("ignore")
            got = Statevector(psi).evolve(defn).data
        # amplitudes of a normalised dense state are ~ 2^-(n/2): rescale so that the 1e-7 tolerance keeps its meaning
        worst = max(worst, float(np.abs(got - ref).max()) * math.sqrt(dim))
    return worst


def run_cases(ctx, cases):
    from concurrent.futures import ProcessPoolExecutor
    import multiprocessing as mp
    workers = int(os.environ.get("C04_WORKERS", "12"))
    if workers <= 1 or len(cases) < 8:
        results = [eval_case(c) for c in cases]
    else:
        with ProcessPoolExecutor(max_workers=workers, mp_context=mp.get_context("fork")) as ex:
            results = list(ex.map(eval_case, cases, chunksize=8))
    for c, r in zip(cases, results):
        record(ctx, c, r)


def record(ctx, case, r):
    cls, fam, us, k, cs, do_oracle = case
    reg = r["region"]
    base = f"{cls}:%s:{reg}:{fam}:k={k}:cs={cs}"
    rep = {"part": "su2", "cls": cls, "family": fam, "unitaries": [mflat(u) for u in us], "k": k, "ctrl_state": cs}
    ctx.count(f"{cls}:{reg}")
    outside = cls == "MultiTargetMCSU2" and "general-su2" in reg
    if r["exc"] is not None:
        if outside and r["exc"].startswith("ValueError"):
            ctx.count("MultiTargetMCSU2:general-su2:rejected-by-code")
            ctx.tie(tie_op(cls, us, k, cs), ["REJECT"], label=f"{cls} {fam} k={k} cs={cs} (raises)")
            return
        kind = "raises-" + r["exc"].split(":")[0]
        ctx.fail(base % kind, f"{cls}({fam}, k={k}, ctrl_state={cs!r}) raised {r['exc']}", dict(rep, observed=r["exc"]))
        if r["exc"].startswith("ValueError"):
            ctx.tie(tie_op(cls, us, k, cs), ["REJECT"], label=f"{cls} {fam} k={k} cs={cs} (raises)")
        return
    if on_root_cut(cls, us):
        # z = -1 - (dust)i with x = 0: the code takes the principal fourth root of z as it is (e^{-i pi/4}), the driver
        # clears dust <= 1e-12 first (e^{+i pi/4}).  Both are fourth roots of -1 and give the same operator: oracle only.
        ctx.count("diversity:phase:fourth-root cut, negative imaginary dust (oracle only)")
    else:
        ctx.tie(tie_op(cls, us, k, cs), r["lines"], label=f"{cls} {fam} k={k} cs={cs}")
    if r["width"] != k + len(us):
        ctx.fail(base % "width", f"definition has {r['width']} qubits, expected {k + len(us)}", rep)
    if r["err"] is None:
        return
    if outside:
        return
    if not r["err"] <= TOL:
        ctx.fail(base % "operator-mismatch",
                 f"max |Operator(definition) - reference controlled-U| = {r['err']:.3e}", dict(rep, observed_err=r["err"]))
    else:
        ctx.ok(base % "ok", nontrivial=k >= 2 and fam != "I",
               sample={"cls": cls, "family": fam, "k": k, "ctrl_state": cs, "err": r["err"]})


# ------------------------------------------------------------------------------------------------
# numeric intermediates: op_a, s_op, (x, z), ABC, ZYZ specification
# ------------------------------------------------------------------------------------------------

def intermediates(ctx):
    try:
        _intermediates(ctx)
    except Exception as e:
        import traceback
        tb = traceback.extract_tb(e.__traceback__)
        if any("qclib" in fr.filename and "/verif/" not in fr.filename for fr in tb[-3:]):
            ctx.fail(f"ldmcsu-helpers:raises-{type(e).__name__}", f"a qclib helper (_compute_gate_a / _get_x_z / "
                     f"get_abc_operators) raised {type(e).__name__}: {str(e)[:160]}", {"part": "su2", "call": "Ldmcsu._compute_gate_a"})
        else:
            raise


def _intermediates(ctx):
    from qclib.gates.ldmcsu import Ldmcsu, LdMcSpecialUnitary
    r = ctx.rng
    n = 12 if ctx.quick else 40
    for i in range(n):
        v = np.array([r.gauss(0, 1) for _ in range(3)])
        v /= np.linalg.norm(v)
        if v[1] < -0.999:            # ill-conditioned neighbourhood of Re z = -1 (probed separately)
            v[1] = -v[1]
        x, z = float(v[0]), complex(v[1], v[2])
        with warnings.catch_warnings():
            warnings.simplefilter("ignore")
            a = Ldmcsu._compute_gate_a(x, z)
        ctx.tie({"op": "gate_a", "x": x, "zre": z.real, "zim": z.imag}, ["op_a ; " + mline(a)], label=f"_compute_gate_a #{i}")
        w = np.array([[np.conj(z), x], [-x, z]])
        p = a.conj().T @ PX @ a @ PX
        ctx.assumption_checks += 1
        if np.abs(p @ p - w).max() > 1e-9 or np.abs(a @ a.conj().T - I2).max() > 1e-9:
            ctx.fail(f"gate_a:identity:x={x!r}:z={z!r}", "(A^dagger X A X)^2 != [[conj z, x],[-x, z]] or A not unitary",
                     {"part": "su2", "call": "Ldmcsu._compute_gate_a", "x": x, "z": [z.real, z.imag]})
    for z in (1, -1, 1j, -1j, np.exp(0.3j), np.exp(3j), np.exp(-3j), np.exp(-1.7j)):
        z = complex(z)
        a = Ldmcsu._compute_gate_a(0, z)
        ctx.tie({"op": "gate_a", "x": 0.0, "zre": z.real, "zim": z.imag}, ["op_a ; " + mline(a)], label=f"_compute_gate_a x=0 z={z}")
        ctx.assumption_checks += 1
        if abs(a[0, 0] ** 4 - z) > 1e-9:
            ctx.fail(f"gate_a:root4:z={z!r}", "alpha^4 != z", {"part": "su2", "call": "Ldmcsu._compute_gate_a", "x": 0, "z": [z.real, z.imag]})
    fams = families(r)
    for name, u in fams.items():
        xz = Ldmcsu._get_x_z(u)
        ctx.tie({"op": "get_x_z", "u": mflat(u)},
                [f"xz ; {float(np.real(xz[0]))!r} {float(np.real(xz[1]))!r} {float(np.imag(xz[1]))!r}"], label=f"_get_x_z {name}")
        t = zyz(u)
        a, b, c = LdMcSpecialUnitary.get_abc_operators(t[1], t[0], t[2])
        ctx.tie({"op": "abc", "zyz": t}, ["A ; " + mline(a.to_matrix()), "B ; " + mline(b.to_matrix()), "C ; " + mline(c.to_matrix())],
                label=f"get_abc_operators {name}")
        ctx.assumption_checks += 1
        if np.abs(rz(t[1]) @ ry(t[0]) @ rz(t[2]) - u).max() > 1e-9:
            ctx.fail(f"assumption:params_zyz:{name}", "RZ(phi) RY(theta) RZ(lam) != U for U in SU(2)",
                     {"part": "su2", "family": name, "unitaries": [mflat(u)]}, kind="assumption")


def slices_tie(ctx, kmax):
    """k_1, k_2 and the wire lists of the two half-size MCX gates, read off the REAL definition's composite instructions."""
    from qclib.gates.ldmcsu import Ldmcsu
    from flatten import flatten
    u = ry(0.7)
    for k in range(2, kmax + 1):
        cs = "".join(ctx.rng.choice("01") for _ in range(k))
        try:
            with warnings.catch_warnings():
                warnings.simplefilter("ignore")
                d = Ldmcsu(u, k, cs).definition
        except Exception as e:  # qclib raising on a valid input is a failure of the property, not of the harness
            ctx.fail(f"Ldmcsu:raises-{type(e).__name__}:regular:RY0.7:k={k}:cs={cs}",
                     f"Ldmcsu(RY(0.7), k={k}, ctrl_state={cs!r}).definition raised {type(e).__name__}: {str(e)[:160]}",
                     {"part": "su2", "cls": "Ldmcsu", "family": "RY0.7", "unitaries": [mflat(u)], "k": k, "ctrl_state": cs})
            continue
        comps = [inst for inst in d.data if inst.operation.name not in ("unitary", "h", "x")]
        w1 = [d.find_bit(q).index for q in comps[0].qubits]
        w2 = [d.find_bit(q).index for q in comps[1].qubits]
        k1 = len([q for q in w1 if q < k and w1.index(q) < (k + 1) // 2])

        def pattern(inst, kk):
            zeros = []
            for name, qs, _ in flatten(inst.operation.definition):
                if name != "x":
                    break
                zeros.append(qs[0])
            return "".join("0" if i in zeros else "1" for i in range(kk))[::-1]
        # widths: McxVchainDirty(kk) has kk + max(kk-2,0) + 1 wires
        kk1 = next(j for j in range(1, k + 1) if j + max(j - 2, 0) + 1 == len(w1))
        kk2 = next(j for j in range(1, k + 1) if j + max(j - 2, 0) + 1 == len(w2))
        impl = [f"k {kk1} {kk2} ;", "w1 " + " ".join(map(str, w1)) + " ;", "w2 " + " ".join(map(str, w2)) + " ;",
                "cs1 ; p" + pattern(comps[0], kk1), "cs2 ; p" + pattern(comps[1], kk2)]
        ctx.tie({"op": "slices", "k": k, "cs": cs}, impl, label=f"slices k={k} cs={cs}")


def ctrl_state_tie(ctx, kmax):
    """apply_ctrl_state on LdMcSpecialUnitary's own circuit: the leading x gates, incl. strings longer than k (IndexError)."""
    from qclib.gates.ldmcsu import LdMcSpecialUnitary
    from qiskit import QuantumCircuit, QuantumRegister

    class Dummy:
        pass
    from qclib.gates.util import apply_ctrl_state
    for k in range(1, kmax + 1):
        pats = ["".join(p) for p in itertools.product("01", repeat=k)] if k <= 4 else \
            ["".join(ctx.rng.choice("01") for _ in range(k)) for _ in range(6)]
        pats += ["1" + "1" * k, "0" + "1" * k, "1" * (k - 1) if k > 1 else "", "0" * (k - 1) if k > 1 else "1"]
        for cs in pats:
            d = Dummy()
            d.ctrl_state = cs
            d.control_qubits = QuantumRegister(k)
            d.definition = QuantumCircuit(d.control_qubits)
            try:
                apply_ctrl_state(d)
                impl = [f"x {d.definition.find_bit(i.qubits[0]).index} ;" for i in d.definition.data]
            except IndexError:
                impl = ["REJECT"]
            ctx.tie({"op": "ctrl", "k": k, "cs": cs}, impl, label=f"apply_ctrl_state k={k} cs={cs!r}")


# ------------------------------------------------------------------------------------------------
# probes of specific inputs (defects found while building the check; each has its own key)
# ------------------------------------------------------------------------------------------------

def probes(ctx):
    cases = []
    for k in (2, 3):
        cases.append(("Ldmcsu", "RY2pi", [ry(2 * math.pi)], k, None, True))
    cases.append(("Ldmcsu", "RY2pi-1e-6", [ry(2 * math.pi - 1e-6)], 3, "010", True))
    cases.append(("MultiTargetMCSU2", "RY2pi", [ry(2 * math.pi)], 3, None, True))
    for fam, u in (("RY0.7", ry(0.7)), ("iX", 1j * PX)):
        for cs in (None, "0"):
            cases.append(("MultiTargetMCSU2", fam, [u], 1, cs, True))
    cases.append(("MultiTargetMCSU2", "RY0.7+RZ0.4", [ry(0.7), rz(0.4)], 1, "1", True))
    # imaginary parts at rounding level (|Im| <= 1e-12) count as zero in the branch tests: the tolerance side of the
    # comparison, for the plain branch (secondary diagonal real), the H sandwich (main real) and a matrix just outside
    for fam, u in (("RY0.5+dust1e-17", dusty(ry(0.5))), ("RX1.1+dust1e-14", dusty(rx(1.1), 1e-14)),
                   ("RZ0.9+dust1e-13", dusty(rz(0.9), 1e-13)), ("RY0.5+imag1e-9", dusty(ry(0.5), 1e-9))):
        ctx.count("branch:imag within abs_tol" if "dust" in fam else "branch:imag just outside abs_tol")
        cases.append(("Ldmcsu", fam, [u], 2, None, True))
        cases.append(("Ldmcsu", fam, [u], 3, "010", True))
        if "dust" in fam:
            cases.append(("MultiTargetMCSU2", fam + "+RZ0.4", [u, rz(0.4)], 3, "011", True))
    run_cases(ctx, cases)
    single_unitary_probe(ctx)
    static_helper_probe(ctx)
    entry_point_probes(ctx)


def static_helper_probe(ctx):
    """`MultiTargetMCSU2.multi_target_mcsu2(circuit, unitary, controls, target, ctrl_state)`: the pattern must reach the
    gate in both branches (list of unitaries / single matrix)."""
    from qclib.gates.multitargetmcsu2 import MultiTargetMCSU2
    from qiskit import QuantumCircuit
    from qiskit.quantum_info import Operator
    for us, k, cs in (([ry(0.7), rz(0.4)], 3, "010"), ([rx(1.1)], 2, "01"), ([ry(0.7)], 3, "011"), (ry(0.7), 3, "010")):
        is_list = isinstance(us, list)
        ul = us if is_list else [us]
        tag = f"{'list' if is_list else 'single'}:nt={len(ul)}:k={k}:cs={cs}"
        rep = {"part": "su2", "probe": "static-helper", "k": k, "ctrl_state": cs, "list": is_list,
               "unitaries": [mflat(u) for u in ul]}
        try:
            with warnings.catch_warnings():
                warnings.simplefilter("ignore")
                qc = QuantumCircuit(k + len(ul))
                tg = list(range(k, k + len(ul)))
                MultiTargetMCSU2.multi_target_mcsu2(qc, us, list(qc.qubits[:k]), [qc.qubits[t] for t in tg] if is_list
                                                    else qc.qubits[k], ctrl_state=cs)
                opm = Operator(qc).data
        except Exception as e:
            ctx.fail(f"MultiTargetMCSU2:static-helper:raises-{type(e).__name__}:{tag}",
                     f"multi_target_mcsu2(..., ctrl_state={cs!r}) raised {type(e).__name__}: {str(e)[:160]}", rep)
            continue
        err = float(np.abs(opm - ref_matrix(ul, k, cs)).max())
        if not err <= TOL:
            ctx.fail(f"MultiTargetMCSU2:static-helper:ctrl_state-not-applied:{tag}",
                     f"max |Operator - controlled-U with pattern {cs}| = {err:.3e}", dict(rep, observed_err=err))
        else:
            ctx.ok(f"MultiTargetMCSU2:static-helper:ok:{tag}")


def entry_point_probes(ctx):
    """Branches of ldmcsu.py that no class-level case takes (generator-quality audit):
    * the static `Ldmcsu.ldmcsu` / `LdMcSpecialUnitary.ldmcsu(circuit, unitary, controls, target, ctrl_state)` with
      `controls` a list of qubits and a QuantumRegister, default and explicit pattern: tied to the model of the class and
      compared with the reference;
    * `LdMcSpecialUnitary(U, 0)`: the explicit `num_controls == 0` branch (`control_qubits = []`, definition = U on the
      target).  Oracle only: the model starts at one control."""
    from qclib.gates.ldmcsu import Ldmcsu, LdMcSpecialUnitary
    from qiskit import QuantumCircuit, QuantumRegister
    from qiskit.quantum_info import Operator
    r = ctx.rng
    fams = families(r)
    picks = [("Ldmcsu", "RY", 2), ("Ldmcsu", "haar", 3), ("Ldmcsu", "main-real", 3), ("Ldmcsu", "iX", 1),
             ("Ldmcsu", r.choice(list(fams)), 4), ("LdMcSpecialUnitary", "haar", 2), ("LdMcSpecialUnitary", "RZ", 3),
             ("LdMcSpecialUnitary", r.choice(list(fams)), 4), ("LdMcSpecialUnitary", "haar2", 6)]
    for i, (cls, fam, k) in enumerate(picks):
        u = fams[fam]
        cs = None if i % 2 == 0 else "".join(r.choice("01") for _ in range(k))
        as_register = i % 2 == 1
        helper = Ldmcsu.ldmcsu if cls == "Ldmcsu" else LdMcSpecialUnitary.ldmcsu
        tag = f"{fam}:k={k}:cs={cs}:{'register' if as_register else 'list'}"
        rep = {"part": "su2", "probe": "entry-points", "cls": cls + ".ldmcsu", "family": fam, "k": k, "ctrl_state": cs,
               "unitaries": [mflat(u)]}
        try:
            with warnings.catch_warnings():
                warnings.simplefilter("ignore")
                if as_register:
                    qr, tr = QuantumRegister(k), QuantumRegister(1)
                    qc = QuantumCircuit(qr, tr)
                    helper(qc, u, qr, tr[0], ctrl_state=cs)
                else:
                    qc = QuantumCircuit(k + 1)
                    helper(qc, u, list(qc.qubits[:k]), qc.qubits[k], cs)
                lines = skeleton(cls, qc, k)
                opm = Operator(qc).data
        except Exception as e:
            ctx.fail(f"{cls}.ldmcsu:static:raises-{type(e).__name__}:{tag}",
                     f"{cls}.ldmcsu(circuit, {fam}, {k} controls, target, ctrl_state={cs!r}) raised "
                     f"{type(e).__name__}: {str(e)[:160]}", rep)
            continue
        ctx.count(f"branch:{cls}.ldmcsu:static:" + ("register" if as_register else "list"))
        ctx.tie(tie_op(cls, [u], k, cs), lines, label=f"{cls}.ldmcsu static {tag}")
        err = float(np.abs(opm - ref_matrix([u], k, cs)).max())
        if not err <= TOL:
            ctx.fail(f"{cls}.ldmcsu:static:operator-mismatch:{tag}",
                     f"max |Operator(circuit) - reference controlled-U| = {err:.3e}", dict(rep, observed_err=err))
        else:
            ctx.ok(f"{cls}.ldmcsu:static:ok:{tag}", nontrivial=k >= 2)
    for fam in ("RY", "haar", "-I"):
        u = fams[fam]
        rep = {"part": "su2", "probe": "entry-points", "cls": "LdMcSpecialUnitary", "family": fam, "k": 0,
               "unitaries": [mflat(u)]}
        ctx.count("branch:LdMcSpecialUnitary:k=0")
        try:
            with warnings.catch_warnings():
                warnings.simplefilter("ignore")
                defn = LdMcSpecialUnitary(u, 0).definition
                opm = Operator(defn).data
        except Exception as e:
            ctx.fail(f"LdMcSpecialUnitary:k=0:raises-{type(e).__name__}",
                     f"LdMcSpecialUnitary({fam}, 0).definition raised {type(e).__name__}: {str(e)[:160]} (the explicit "
                     f"zero-control branch of _define)", rep)
            continue
        err = float(np.abs(opm - u).max()) if opm.shape == (2, 2) else float("inf")
        if not err <= TOL:
            ctx.fail(f"LdMcSpecialUnitary:k=0:operator-mismatch:{fam}", f"max |Operator(definition) - U| = {err:.3e}",
                     dict(rep, observed_err=err))
        else:
            ctx.ok(f"LdMcSpecialUnitary:k=0:ok:{fam}", nontrivial=False)


def single_unitary_probe(ctx):
    """MultiTargetMCSU2 with a single (non-list) unitary: the gate must have a circuit definition equal to controlled-U
    (it wraps Ldmcsu: tied to the Ldmcsu model)."""
    from qclib.gates.multitargetmcsu2 import MultiTargetMCSU2
    from qiskit.quantum_info import Operator
    key = "MultiTargetMCSU2:single-unitary:definition-not-circuit"
    u = ry(0.7)
    for k, cs in ((3, None), (3, "010"), (1, "0")):
        rep = {"part": "su2", "probe": "single-unitary", "cls": "MultiTargetMCSU2", "k": k, "ctrl_state": cs}
        try:
            with warnings.catch_warnings():
                warnings.simplefilter("ignore")
                g = MultiTargetMCSU2(u, k, ctrl_state=cs)
                opm = Operator(g).data
                lines = skeleton("Ldmcsu", g.definition, k)
        except Exception as e:
            ctx.fail(key, f"Operator(MultiTargetMCSU2(RY(0.7), {k}, ctrl_state={cs!r})) raised {type(e).__name__}: {str(e)[:160]}", rep)
            continue
        ctx.tie(tie_op("Ldmcsu", [u], k, cs), lines, label=f"MultiTargetMCSU2(single matrix) k={k} cs={cs}")
        ref = ref_matrix([u], k, cs)
        err = float(np.abs(opm - ref).max()) if opm.shape == ref.shape else float("inf")
        if not err <= TOL:
            ctx.fail(f"MultiTargetMCSU2:single-unitary:operator-mismatch:k={k}:cs={cs}",
                     f"max |Operator - controlled-U| = {err:.3e} (shape {opm.shape})", rep)
        else:
            ctx.ok(f"MultiTargetMCSU2:single-unitary:ok:k={k}:cs={cs}")


# ------------------------------------------------------------------------------------------------
# case generation
# ------------------------------------------------------------------------------------------------

def all_patterns(k):
    return ["".join(p) for p in itertools.product("01", repeat=k)]


def rand_patterns(r, k, n):
    s = {"1" * k, "0" * k}
    while len(s) < min(n, 2 ** k):
        s.add("".join(r.choice("01") for _ in range(k)))
    return sorted(s)


def gen_cases(ctx, kmax_tie, kmax_oracle, exhaustive_k, exhaustive_fams_k):
    r = ctx.rng
    fams = families(r)
    names = list(fams)
    cases = []
    for cls in ("Ldmcsu", "LdMcSpecialUnitary"):
        for k in range(1, max(kmax_tie, kmax_oracle) + 1):
            if k <= exhaustive_fams_k:
                use, pats = names, [None] + all_patterns(k)
            elif k <= exhaustive_k:
                use = r.sample(names, 4)
                pats = [None] + all_patterns(k)
            elif k <= 8:
                use = r.sample(names, 5 if ctx.quick else 8)
                pats = [None] + rand_patterns(r, k, 3 if ctx.quick else 6)
            else:           # 10- and 11-qubit operators: fewer, still every class
                use = r.sample(names, 4)
                pats = [None] + rand_patterns(r, k, 3)
            for fam in use:
                for cs in pats:
                    cases.append((cls, fam, [fams[fam]], k, cs, k <= kmax_oracle))
    # multi-target: 1..3 targets, shared controls.  k = 1 is probed separately (known region).
    real_names = [n for n in names if is_real_diag_type(fams[n])]
    gen_names = [n for n in names if not is_real_diag_type(fams[n])]
    for nt in (1, 2, 3):
        for k in range(2, min(kmax_oracle, 7) + 1):
            reps = (3 if k <= 4 else 2) if ctx.quick else (8 if k <= 5 else 4)
            for _ in range(reps):
                sel = [r.choice(real_names) for _ in range(nt)]
                for cs in [None] + rand_patterns(r, k, 2 if ctx.quick else 4):
                    cases.append(("MultiTargetMCSU2", "+".join(sel), [fams[s] for s in sel], k, cs, k + nt <= 10))
    for k in (2, 3):
        for nt in (1, 2):
            sel = [r.choice(gen_names)] + [r.choice(real_names) for _ in range(nt - 1)]
            cases.append(("MultiTargetMCSU2", "+".join(sel), [fams[s] for s in sel], k, "0" * k, True))
    return cases


# ------------------------------------------------------------------------------------------------
# boundary-value pass: inputs AT and next to every size / threshold comparison of the anchored files
# ------------------------------------------------------------------------------------------------
#   ldmcsu.py          len(controls) == 1                         k = 1, 2 (gen_cases, exhaustive)
#                      k_1 = ceil(k/2), k_2 = floor(k/2); slices controls[k_1 : 2 k_1 - 2], controls[k_1 - k_2 + 2 : k_1]
#                                                                 odd / even k = 2..11, crossed with the four branch
#                                                                 classes (both / main / secondary / neither diagonal real);
#                                                                 the half-size McxVchainDirty changes construction at
#                                                                 k_i = 1, 2, 3 (C3X), >= 4 (chain; action_only and the
#                                                                 qiskit inverse first differ there: k = 8, 9)
#                      isclose(.imag, 0, abs_tol=1e-12) x 4       dust 3e-13 (inside) and 3e-12, 1e-11 (outside) on all four
#                                                                 entries, and on ONE entry with the partner exactly real
#                                                                 (each conjunct of the two `and`s decides alone)
#                      x_value == 0; z_value.real < 0             x = +-0.0, 1e-300, 1e-17, 1e-13; Re z = 0, +-1e-9
#                      LdMcSpecialUnitary: num_controls > 0, len < 3, len < 6 (action_only), LinearMcx(k-1) size branches
#                                                                 k = 0 (entry_point_probes), 1..11
#   multitargetmcsu2.py len(controls) == 1 (probes); the same k_1/k_2 slices with `num_target_qubit` targets;
#                      `not secondary and main` H-sandwich test per target; mcx.py `num_ctrl == 3 and num_target < 2`
#                                                                 k = 2..9 x nt = 1, 2, 3 with fixed mixed diagonal types
#   float thresholds: generated dust keeps a factor >= 3 from abs_tol = 1e-12 (excluded band (3.3e-13, 3e-12)).

def mixed_pattern(k):
    """A pattern with zeros and ones in both halves: '0101..' read from control 0 upwards."""
    return "".join("10"[(k - 1 - j) % 2] for j in range(k))


def one_entry_dust(u, i, j, eps):
    d = np.array(u, dtype=complex)
    d[i, j] += eps * 1j
    return d


def boundary_cases(ctx):
    r = ctx.rng
    fams = families(r)
    cases = []

    def orc(width):
        return True if width <= 8 else "state"

    # -- Ldmcsu: every size k = 2..11 (k_1, k_2 parity and the V-chain construction of each half) x branch class
    for k in range(2, 12):
        pats = [None, mixed_pattern(k)] if k <= 9 else [mixed_pattern(k)]
        for fam in ("RY", "main-real", "sec-real", "haar"):
            for cs in pats:
                ctx.count("boundary:ldmcsu:k x diagonal-type")
                cases.append(("Ldmcsu", "bv-" + fam, [fams[fam]], k, cs, orc(k + 1)))
    # -- LdMcSpecialUnitary: k around < 3, < 6 and the LinearMcx(k-1) size branches (k + 1 wires: < 5, 5, 6, 7, >= 8)
    for k in range(1, 12):
        pats = [None, mixed_pattern(k)] if k <= 9 else [mixed_pattern(k)]
        for cs in pats:
            ctx.count("boundary:ldmcsp:k")
            cases.append(("LdMcSpecialUnitary", "bv-haar2", [fams["haar2"]], k, cs, orc(k + 1)))
    # -- MultiTargetMCSU2: k x number of targets with fixed diagonal types (H on one target, none on the other)
    mt = {1: ["main-real"], 2: ["main-real", "sec-real"], 3: ["RY", "main-real", "RZ"]}
    for k in range(2, 10):
        for nt in (1, 2, 3):
            if nt == 3 and k not in (2, 3, 5, 6, 7, 8):
                continue
            pats = [None, mixed_pattern(k)] if k <= 6 else [mixed_pattern(k)]
            for cs in pats:
                ctx.count("boundary:multitarget:k x nt")
                cases.append(("MultiTargetMCSU2", "bv-" + "+".join(mt[nt]), [fams[n] for n in mt[nt]], k, cs, orc(k + nt)))
    # -- abs_tol = 1e-12 of the real-diagonal tests: all four entries dusty, inside and outside
    for eps, side in ((3e-13, "inside"), (3e-12, "outside"), (1e-11, "outside")):
        for fam, u in (("RY0.5", ry(0.5)), ("RX1.1", rx(1.1)), ("RZ0.9", rz(0.9)), ("main-real", fams["main-real"]),
                       ("sec-real", fams["sec-real"])):
            ctx.count("boundary:imag abs_tol:" + side)
            nm = f"bv-{fam}+dust{eps:g}"
            cases.append(("Ldmcsu", nm, [dusty(u, eps)], 2, None, True))
            cases.append(("Ldmcsu", nm, [dusty(u, eps)], 3, "010", True))
            if side == "inside":
                cases.append(("MultiTargetMCSU2", nm + "+RZ0.4", [dusty(u, eps), rz(0.4)], 3, "011", True))
    # -- one conjunct at a time: a single entry leaves the real axis, its partner stays exactly real
    singles = [("main-real", 0, 0), ("main-real", 1, 1), ("sec-real", 0, 1), ("sec-real", 1, 0),
               ("RY", 0, 0), ("RY", 1, 1), ("RY", 0, 1), ("RY", 1, 0)]
    for fam, i, j in singles:
        for eps, side in ((3e-13, "inside"), (3e-12, "outside"), (1e-10, "outside")):
            ctx.count("boundary:imag abs_tol:single-entry:" + side)
            u = one_entry_dust(fams[fam], i, j, eps)
            nm = f"bv-{fam}+im[{i}{j}]{eps:g}"
            cases.append(("Ldmcsu", nm, [u], 2, None, True))
            cases.append(("Ldmcsu", nm, [u], 3, "010", True))
            if fam == "RY" or side == "inside":     # the other diagonal stays real: still a listed rotation
                cases.append(("MultiTargetMCSU2", nm + "+RZ0.4", [u, rz(0.4)], 3, "011", True))
                cases.append(("MultiTargetMCSU2", "RZ0.4+" + nm, [rz(0.4), u], 2, "01", True))
    # -- x == 0 / Re z < 0 of _compute_gate_a, through the whole gate: [[conj z, x], [-x, z]]
    for x, zs in ((0.0, (1j, -1j, np.exp(2.5j))), (1e-13, (np.exp(0.45j), np.exp(2.5j), 1j)), (1e-17, (np.exp(-2.5j), -1j, -1.0)),
                  (0.6, (0.8j, -0.8j, complex(1e-9, 0.8), complex(-1e-9, 0.8)))):
        for z in zs:
            z = complex(z)
            ctx.count("boundary:gate_a:x==0 / Re z<0 (whole gate)")
            u = np.array([[np.conj(z), x], [-x, z]])
            nm = f"bv-xz:x={x:g}:z={z.real:g}{z.imag:+g}j"
            cases.append(("Ldmcsu", nm, [u], 2, None, True))
            cases.append(("Ldmcsu", nm, [u], 3, "010", True))
            cases.append(("MultiTargetMCSU2", nm + "+RY", [u, fams["RY"]], 2, "10", True))
    return cases


def boundary_gate_a(ctx):
    """`_compute_gate_a` next to its two comparisons: x_value == 0 (+-0.0, denormal-range, rounding-level, small) and
    z_value.real < 0 (Re z = 0 exactly, +-1e-9), tied to the model and checked against (A^dagger X A X)^2 = [[conj z, x],[-x, z]]."""
    from qclib.gates.ldmcsu import Ldmcsu
    zs_any = [1j, -1j, complex(1e-9, 1.0), complex(-1e-9, 1.0), np.exp(0.3j), np.exp(3j), np.exp(-3j), 1.0]
    for x in (0.0, -0.0, 1e-300, -1e-300, 1e-17, -1e-17, 1e-13, 1e-9):
        for z in zs_any:
            z = complex(z)
            z = z / abs(z)
            if x != 0:
                z = z * math.sqrt(max(0.0, 1.0 - x * x))
            ctx.count("boundary:gate_a:x==0" if abs(x) < 1e-200 else "boundary:gate_a:x tiny")
            with warnings.catch_warnings():
                warnings.simplefilter("ignore")
                a = Ldmcsu._compute_gate_a(x, z)
            ctx.tie({"op": "gate_a", "x": float(x), "zre": z.real, "zim": z.imag}, ["op_a ; " + mline(a)],
                    label=f"_compute_gate_a boundary x={x!r} z={z}")
            w = np.array([[np.conj(z), x], [-x, z]])
            p = a.conj().T @ PX @ a @ PX
            ctx.assumption_checks += 1
            key = f"gate_a:identity:x={x!r}:z={z!r}"
            if not (np.abs(p @ p - w).max() <= 1e-9 and np.abs(a @ a.conj().T - I2).max() <= 1e-9):
                ctx.fail(key, "(A^dagger X A X)^2 != [[conj z, x],[-x, z]] or A not unitary at the x == 0 / Re z < 0 boundary",
                         {"part": "su2", "call": "Ldmcsu._compute_gate_a", "x": x, "z": [z.real, z.imag]})
            else:
                ctx.ok(key, nontrivial=False)


def underflow_probe(ctx):
    """The `x_value == 0` boundary of `_compute_gate_a` at z = -1: for 0 < |x| < ~1e-154 the square x**2 underflows, the
    cancellation-free form of 1 + Re z becomes 0 (or a denormal) and gate A is NaN / inaccurate (finding of the
    boundary-value pass; x = 0 and |x| >= 1e-150 are fine and are probed as well)."""
    cases = []
    for xs in ("1e-17", "1e-150", "1e-160", "1e-200"):
        x = float(xs)
        ctx.count("boundary:gate_a:near -I with tiny x")
        cases.append(("Ldmcsu", "minusI+x" + xs, [np.array([[-1, x], [-x, -1]], dtype=complex)], 2, None, True))
    run_cases(ctx, cases)


# ------------------------------------------------------------------------------------------------
# input-diversity pass: the FORM of otherwise ordinary inputs (element type / container of the matrix, sign and phase
# structure, call form and placement on a host circuit), for every entry point of part A
# ------------------------------------------------------------------------------------------------
#   form                                        x entry point                                  -> where generated
#   1 element types: nested list of ints / floats / Python complex, tuple of tuples, list of numpy scalars, int64,
#     float64 (real dtype, also -RY and signed zeros), float32 / complex64 (exact members 0, +-1, +-i, (+-1+-i)/2 and
#     inexact ones: reduced-precision rule), complex128 with -0.0 real and imaginary parts, np.matrix, read-only array,
#     non-contiguous view, Fortran order
#                                               x Ldmcsu, LdMcSpecialUnitary, MultiTargetMCSU2 ([U] and bare U), one
#                                                 of the four static helpers on a permuted host      -> div_elem_specs
#                                               x _get_x_z, _compute_gate_a (int, float, complex, numpy scalars),
#                                                 get_abc_operators (int / numpy angles, >= 2 pi)    -> diversity_helpers
#     list of unitaries as list / tuple / 3-D ndarray, mixed element types, the same array object twice, nt = 2, 3
#                                               x MultiTargetMCSU2, multi_target_mcsu2              -> div_mt_list_specs
#   3 sign / phase: rotations by 2pi+a, -(2pi+a), 3pi, -3pi, +-4pi, 4pi+a, -2pi (2pi: probes()) about y, z, x and an
#     XZ axis; -U of the general class; lists whose angles sum to 2pi; +-iX, +-iZ, iY, -I lists
#                                               x the three classes (tie + oracle through run_cases) -> div_phase_cases
#                                               x the four static helpers                            -> div_call_specs
#   4 call forms: ctrl_state None / all ones / explicit / int, positional / keyword / omitted; gate appended twice;
#     copy() before .definition; inverse(); definition.to_instruction() / to_gate() / compose(); one array object for two
#     gates; host larger than needed with permuted, non-ascending, non-contiguous qubits as ints / Qubits / register /
#     reversed register slice, hosts built from three registers in three orders, target in the middle, targets in
#     non-ascending order, target as Qubit / int / one-element list / register
#                                               x the three classes and the four static helpers      -> div_call_specs
#   5 sizes: k = 1..5 (k_1, k_2 = 1, 2, 3: plain CX, Toffoli, C3X halves; LdMcSpecialUnitary < 3, >= 3), nt = 1, 2, 3 x
#     odd / even k, all with the new forms only (the size sweep itself is boundary_cases)            -> all of the above
#   Tie: whenever the converted input denotes the same numbers as a complex128 matrix and the gate sits in a circuit
#   as built (append / static helper / to_instruction / compose / copy), the flattened host - wires relabelled to the
#   listed order - is diffed against the model op of the canonical matrix.  Oracle only: float32 / complex64 (values
#   differ at 1e-8), inverse(), twice / reuse (two gates), rejected forms.
#   Forms the library does not claim (recorded as diversity:...:unsupported-form-raises-<Exc>, never silently wrong):
#   a bare nested list handed to MultiTargetMCSU2 (read as a list of rows: ValueError), tuple / 3-D ndarray of
#   unitaries (ValueError from check_u2), int ctrl_state of Ldmcsu, Ldmcsu.ldmcsu and the bare-matrix branch of
#   multi_target_mcsu2 with k >= 2 (`ctrl_state[::-1]` -> TypeError; annotated `str`, not documented),
#   definition.to_gate() (QiskitError: the definitions hold sub-circuits appended as Instructions).
#   Regression of fixed findings, judged by the ordinary operator oracle (and tied): nested list / tuple / list of
#   numpy scalars as THE matrix of Ldmcsu, Ldmcsu.ldmcsu, MultiTargetMCSU2(tuple matrix), multi_target_mcsu2(bare
#   matrix) at every k (F-C04-14, group regression:F-C04-14); int and np.int64 ctrl_state of LdMcSpecialUnitary and
#   LdMcSpecialUnitary.ldmcsu (apply_ctrl_state, F-C04-13, group regression:F-C04-13); nested list / tuple / list of
#   numpy scalars as ELEMENTS of MultiTargetMCSU2's list, class and multi_target_mcsu2, k = 1..5, nt = 1..3 (F-C04-15,
#   group regression:F-C04-15); int and np.int64 ctrl_state of MultiTargetMCSU2 (list and bare matrix) and of
#   multi_target_mcsu2 with a list (F-C04-16, group regression:F-C04-16).

SEQ_FORMS = ("list-int", "list-float", "list-complex", "tuple", "npscalars")
REDUCED_FORMS = ("float32", "complex64")
DIV_CLASSES = ("Ldmcsu", "LdMcSpecialUnitary", "MultiTargetMCSU2")
TOL_REDUCED = 1e-5
CS_TYPES = {"np.int64": np.int64, "np.int32": np.int32, "np.uint8": np.uint8}     # numpy forms of a decimal ctrl_state
QHALF = np.array([[0.5 + 0.5j, -0.5 + 0.5j], [0.5 + 0.5j, 0.5 - 0.5j]])    # general SU(2), exact in complex64
R345 = np.array([[0.6, -0.8], [0.8, 0.6]], dtype=complex)


def _nz(v):
    return -0.0 if v == 0 else float(v)


def to_form(m, tag):
    """The canonical complex128 matrix `m` in the element type / container `tag` (the same numbers)."""
    m = np.array(m, dtype=complex)
    is_real = bool(np.all(m.imag == 0))
    if tag in ("list-int", "list-float", "int64", "float64", "float32", "float64-negzero") and not is_real:
        raise RuntimeError(f"harness: form {tag} needs a real matrix")
    if tag == "c128":
        return m.copy()
    if tag == "list-int":
        return [[int(round(v)) for v in row] for row in m.real]
    if tag == "list-float":
        return [[float(v) for v in row] for row in m.real]
    if tag == "list-complex":
        return [[complex(v) for v in row] for row in m]
    if tag == "tuple":
        return tuple(tuple((float(v.real) if is_real else complex(v)) for v in row) for row in m)
    if tag == "npscalars":
        return [[(np.float64(v.real) if is_real else np.complex128(v)) for v in row] for row in m]
    if tag == "int64":
        return np.array(np.round(m.real), dtype=np.int64)
    if tag == "float64":
        return np.array(m.real, dtype=np.float64)
    if tag == "float32":
        return np.array(m.real, dtype=np.float32)
    if tag == "complex64":
        return m.astype(np.complex64)
    if tag == "c128-negzero":
        return np.array([[complex(_nz(e.real), _nz(e.imag)) for e in row] for row in m])
    if tag == "float64-negzero":
        return np.array([[_nz(v) for v in row] for row in m.real], dtype=np.float64)
    if tag == "matrix":
        return np.matrix(m.real if is_real else m)
    if tag == "readonly":
        a = np.array(m.real if is_real else m)
        a.flags.writeable = False
        return a
    if tag == "view":
        big = np.zeros((4, 4), dtype=complex)
        big[::2, ::2] = m
        return big[::2, ::2]
    if tag == "fortran":
        return np.asfortranarray(m)
    raise RuntimeError("harness: unknown form " + tag)


def snapshot(x):
    """Bit-exact picture of a caller-owned input (element types, signed zeros), to see that the library left it alone."""
    if isinstance(x, np.ndarray):
        return ("nd", type(x).__name__, str(x.dtype), tuple(x.shape), np.ascontiguousarray(x).tobytes())
    if isinstance(x, (list, tuple)):
        return (type(x).__name__, tuple(snapshot(e) for e in x))
    return (type(x).__name__, repr(x))


def unflat(fl):
    return np.array([complex(fl[2 * i], fl[2 * i + 1]) for i in range(4)]).reshape(2, 2)


def host_ref(us, k, cs, n_host, ctrl, tgt):
    """Ideal operator on an `n_host`-qubit host: us[j] on qubit tgt[j] iff qubit ctrl[i] reads cs[::-1][i] for every i
    (None: all ones); identity on every other basis state and on every other qubit."""
    nt = len(us)
    want = [int(cs[::-1][i]) if cs is not None else 1 for i in range(k)]
    full = np.eye(1)
    for u in us:
        full = np.kron(u, full)
    dim = 2 ** n_host
    m = np.zeros((dim, dim), dtype=complex)
    for b in range(dim):
        if all(((b >> ctrl[i]) & 1) == want[i] for i in range(k)):
            h = sum(((b >> tgt[j]) & 1) << j for j in range(nt))
            base = b
            for j in range(nt):
                base &= ~(1 << tgt[j])
            for h2 in range(2 ** nt):
                b2 = base | sum(((h2 >> j) & 1) << tgt[j] for j in range(nt))
                m[b2, b] += full[h2, h]
        else:
            m[b, b] = 1.0
    return m


def _resolve(host, rr, q):
    """(argument handed to the library, list of Qubit objects in the listed order) for a qubit-list spec."""
    kind = q["kind"]
    if kind == "register":
        reg = rr[q["reg"]]
        return reg, list(reg)
    if kind == "slice":
        a, b, c = q["sl"]
        qs = rr[q["reg"]][slice(a, b, c)]
        return qs, list(qs)
    qs = [rr[nm][i] for nm, i in q["q"]]
    if kind in ("ints", "list-int"):
        return [host.find_bit(x).index for x in qs], qs
    if kind in ("qubits", "list-qubit"):
        return list(qs), qs
    if kind == "tuple-qubit":
        return tuple(qs), qs
    if kind == "int":
        return host.find_bit(qs[0]).index, qs
    if kind == "qubit":
        return qs[0], qs
    raise RuntimeError("harness: unknown qubit form " + kind)


def _flat_arg(a):
    from qiskit.circuit import Qubit
    return [a] if isinstance(a, (int, Qubit)) else list(a)


def div_eval(spec):
    """Worker: rebuild the input in its form, place the gate as the call form says, Operator of the host versus the ideal
    on the listed qubits in the listed order (identity elsewhere).  Returns a plain dict."""
    from qclib.gates.ldmcsu import Ldmcsu, LdMcSpecialUnitary
    from qclib.gates.multitargetmcsu2 import MultiTargetMCSU2
    from qiskit import QuantumCircuit, QuantumRegister
    from qiskit.quantum_info import Operator
    entry, k, cs, use = spec["entry"], spec["k"], spec.get("cs"), spec.get("use", "append")
    raw = [to_form(unflat(m), f) for m, f in zip(spec["unitaries"], spec["forms"])]
    if spec.get("same_object"):
        raw = [raw[0]] * len(raw)
    up = [np.array(x, dtype=complex) for x in raw]
    nt = len(raw)
    wrap = spec.get("wrap", "list" if entry.startswith("MultiTargetMCSU2") else "single")
    arg = {"list": list(raw), "tuple": tuple(raw), "ndarray3": np.array(up), "single": raw[0]}[wrap]
    snap = snapshot(arg)
    rr = {nm: QuantumRegister(sz, nm) for nm, sz in spec["regs"]}
    host = QuantumCircuit(*[rr[nm] for nm, _ in spec["regs"]])
    carg, cqs = _resolve(host, rr, spec["ctrl"])
    targ, tqs = _resolve(host, rr, spec["tgt"])
    ctrl_idx = [host.find_bit(q).index for q in cqs]
    tgt_idx = [host.find_bit(q).index for q in tqs]
    labels = [99] * host.num_qubits
    for pos, i in enumerate(ctrl_idx + tgt_idx):
        labels[i] = pos
    cs_str = format(cs, f"0{k}b") if isinstance(cs, int) else cs
    if spec.get("cs_type"):
        cs = CS_TYPES[spec["cs_type"]](cs)
    how = spec.get("cs_how", "kw")
    exact = all(np.array_equal(u, unflat(m)) for u, m in zip(up, spec["unitaries"]))
    out = {"exc": None, "err": None, "ties": [], "mutated": False, "up": [mflat(u) for u in up], "cs_str": cs_str, "exact": exact,
           "n_host": host.num_qubits, "ctrl_idx": ctrl_idx, "tgt_idx": tgt_idx}
    tcls = entry.split(".")[0]
    if tcls == "MultiTargetMCSU2" and wrap == "single":
        tcls = "Ldmcsu"                       # the bare-matrix form wraps Ldmcsu

    def gate(cls=None):
        cls = cls or entry
        if cls == "MultiTargetMCSU2":
            if how == "pos":
                return MultiTargetMCSU2(arg, k, nt, cs)
            if how == "omit":
                return MultiTargetMCSU2(arg, k, num_target=nt)
            return MultiTargetMCSU2(arg, num_controls=k, num_target=nt, ctrl_state=cs)
        ctor = Ldmcsu if cls == "Ldmcsu" else LdMcSpecialUnitary
        if how == "pos":
            return ctor(arg, k, cs)
        if how == "omit":
            return ctor(arg, k)
        return ctor(arg, k, ctrl_state=cs)
    try:
        with warnings.catch_warnings():
            warnings.simplefilter("ignore")
            if entry in DIV_CLASSES:
                qargs = _flat_arg(carg) + _flat_arg(targ)
                g = gate()
                if use == "append":
                    host.append(g, qargs)
                elif use == "twice":
                    host.append(g, qargs)
                    host.append(g, qargs)
                elif use == "copy-first":
                    c = g.copy()
                    host.append(c, qargs)
                    host.append(g, qargs)
                    out["ties"] = [skeleton(tcls, g.definition, k), skeleton(tcls, c.definition, k)]
                elif use == "inverse":
                    host.append(g.inverse(), qargs)
                elif use == "to_instruction":
                    host.append(g.definition.to_instruction(), qargs)
                elif use == "to_gate":
                    host.append(g.definition.to_gate(), qargs)
                elif use == "compose":
                    host.compose(g.definition, qubits=qargs, inplace=True)
                elif use == "reuse":
                    g2 = gate("LdMcSpecialUnitary" if entry == "Ldmcsu" else "Ldmcsu")
                    host.append(g, qargs)
                    host.append(g2, qargs)
                else:
                    raise RuntimeError("harness: unknown use " + use)
            else:
                helper = {"Ldmcsu.ldmcsu": Ldmcsu.ldmcsu, "LdMcSpecialUnitary.ldmcsu": LdMcSpecialUnitary.ldmcsu,
                          "MultiTargetMCSU2.multi_target_mcsu2": MultiTargetMCSU2.multi_target_mcsu2}[entry]
                for _ in range(2 if use == "twice" else 1):
                    if how == "pos":
                        helper(host, arg, carg, targ, cs)
                    elif how == "omit":
                        helper(host, arg, carg, targ)
                    elif how == "allkw":
                        helper(circuit=host, unitary=arg, controls=carg, target=targ, ctrl_state=cs)
                    else:
                        helper(host, arg, carg, targ, ctrl_state=cs)
            opm = Operator(host).data
            if not out["ties"] and use in ("append", "to_instruction", "to_gate", "compose"):
                out["ties"] = [skeleton(tcls, host, k, wires=labels)]
    except Exception as e:
        out["exc"] = type(e).__name__ + ": " + str(e)[:140]
        out["mutated"] = snapshot(arg) != snap
        return out
    out["mutated"] = snapshot(arg) != snap
    mult = {"twice": 2, "copy-first": 2, "reuse": 2, "inverse": -1}.get(use, 1)
    exp = [u.conj().T if mult == -1 else np.linalg.matrix_power(u, mult) for u in up]
    ref = host_ref(exp, k, cs_str, host.num_qubits, ctrl_idx, tgt_idx)
    out["err"] = float(np.abs(opm - ref).max()) if opm.shape == ref.shape else float("inf")
    return out


def div_allowed_exc(spec):
    """The exception an UNSUPPORTED form may end in (None: the form is supported and must work)."""
    entry, k, use = spec["entry"], spec["k"], spec.get("use", "append")
    cls = entry.split(".")[0]
    wrap = spec.get("wrap", "list" if cls == "MultiTargetMCSU2" else "single")
    if cls == "MultiTargetMCSU2" and wrap in ("tuple", "ndarray3"):
        return "ValueError"                                 # not a list: taken for ONE matrix of the wrong shape
    if cls == "MultiTargetMCSU2" and wrap == "single" and any(f in SEQ_FORMS and f != "tuple" for f in spec["forms"]):
        return "ValueError"                                 # a nested list is read as a list of 1-D "unitaries"
    if isinstance(spec.get("cs"), int) and (cls == "Ldmcsu" or (entry.endswith("multi_target_mcsu2") and wrap == "single")):
        # Ldmcsu slices the pattern itself (`ctrl_state[::-1]`) and annotates it `str`: not a documented form.  The
        # bare-matrix branch of the static helper hands the int straight to Ldmcsu.  LdMcSpecialUnitary (apply_ctrl_state,
        # F-C04-13) and the MultiTargetMCSU2 constructor (documented "decimal or bitstring", F-C04-16) convert: oracle.
        # A numpy integer fails the same slice with IndexError ("invalid index to scalar variable"); with one control
        # the value goes to qiskit's `.control(1, ctrl_state)`, which takes a Python int and refuses a numpy one.
        if k >= 2:
            return "IndexError" if spec.get("cs_type") else "TypeError"
        if spec.get("cs_type"):
            return "CircuitError"
    # nested sequences as THE matrix of Ldmcsu (F-C04-14) and as elements of MultiTargetMCSU2's list (F-C04-15) are
    # converted with np.asarray: operator oracle, no exception allowed
    if use == "to_gate":
        return "QiskitError"
    return None


def div_key(spec):
    call = "/".join([spec.get("use", "append"), spec["ctrl"]["kind"], spec["tgt"]["kind"], "cs-" + spec.get("cs_how", "kw"),
                     "host=" + "+".join(f"{nm}{sz}" for nm, sz in spec["regs"])])
    form = "+".join(spec["forms"]) + (":" + spec["wrap"] if "wrap" in spec else "") + \
        (":same-object" if spec.get("same_object") else "")
    head = "flagforms:" + spec["flagform"] if spec.get("flagform") else "diversity"
    return f"{head}:{spec['entry']}:%s:{form}:{call}:{spec['family']}:k={spec['k']}:cs={spec.get('cs')}{'(' + spec['cs_type'] + ')' if spec.get('cs_type') else ''}"


def div_record(ctx, spec, r):
    key = div_key(spec)
    entry, k = spec["entry"], spec["k"]
    reduced = any(f in REDUCED_FORMS for f in spec["forms"])
    ctx.count("diversity:" + spec["group"])
    what = f"{entry} [{spec['family']} as {'+'.join(spec['forms'])}, k={k}, ctrl_state={spec.get('cs')!r}, {spec.get('use', 'append')}]"
    allowed = div_allowed_exc(spec)
    if spec.get("flagform"):
        ctx.count("flagforms:" + spec["flagform"] + (":unsupported-" + allowed if allowed and r["exc"] is not None
                                                     and r["exc"].split(":")[0] == allowed else ""))
    if r["mutated"]:
        ctx.fail(key % "caller-input-modified", what + ": the caller's matrix / list was modified", spec)
    if r["exc"] is not None:
        name = r["exc"].split(":")[0]
        if reduced and not r["exact"] and name == "ValueError" and "U(2)" in r["exc"]:
            # the rounded entries are not unitary to the library's tolerance: the documented rejection
            ctx.count(f"diversity:{entry}:{'+'.join(spec['forms'])}:reduced-precision-input-rejected-ValueError")
            ctx.ok(key % "rejected-not-unitary", nontrivial=False)
        elif allowed == name:
            ctx.count(f"diversity:{entry}:{'+'.join(sorted(set(spec['forms'])))}:{spec.get('use', 'append')}"
                      f"{':int-ctrl_state' if isinstance(spec.get('cs'), int) else ''}:unsupported-form-raises-{name}")
            ctx.ok(key % ("unsupported-" + name), nontrivial=False)
        else:
            ctx.fail(key % ("raises-" + name), what + " raised " + r["exc"], dict(spec, observed=r["exc"]))
        return
    tol = TOL_REDUCED if reduced else TOL
    if not r["err"] <= tol:
        ctx.fail(key % "operator-mismatch", what + f": max |Operator(host) - ideal on the listed qubits| = {r['err']:.3e} "
                 f"(tolerance {tol:g}; controls {r['ctrl_idx']}, targets {r['tgt_idx']} of {r['n_host']} host qubits)",
                 dict(spec, observed_err=r["err"]))
    else:
        if reduced and r["err"] > TOL:
            ctx.count(f"diversity:note:{entry}:{'+'.join(spec['forms'])}:single-precision-result(err>1e-7)")
        ctx.ok(key % "ok", nontrivial=k >= 2,
               sample={"entry": entry, "forms": spec["forms"], "k": k, "use": spec.get("use", "append"), "err": r["err"]})
    if spec.get("tie", True) and not reduced and r["ties"]:
        tcls = entry.split(".")[0]
        if tcls == "MultiTargetMCSU2" and spec.get("wrap", "list") == "single":
            tcls = "Ldmcsu"
        up = [unflat(m) for m in r["up"]]
        if tcls == "MultiTargetMCSU2" and not all(is_real_diag_type(u) for u in up):
            return
        for lines in r["ties"]:
            ctx.tie(tie_op(tcls, up, k, r["cs_str"]), lines, label="diversity " + key % "tie")


def div_run(ctx, specs):
    from concurrent.futures import ProcessPoolExecutor
    import multiprocessing as mp
    workers = int(os.environ.get("C04_WORKERS", "12"))
    if workers <= 1 or len(specs) < 8:
        results = [div_eval(s) for s in specs]
    else:
        with ProcessPoolExecutor(max_workers=workers, mp_context=mp.get_context("fork")) as ex:
            results = list(ex.map(div_eval, specs, chunksize=8))
    for s, r in zip(specs, results):
        div_record(ctx, s, r)


def div_spec(group, entry, fam, us, forms, k, cs=None, **kw):
    nt = len(us)
    spec = {"part": "su2", "probe": "diversity", "group": group, "entry": entry, "family": fam,
            "unitaries": [mflat(u) for u in us], "forms": list(forms), "k": k, "cs": cs,
            "regs": [["q", k + nt]], "ctrl": {"kind": "ints", "q": [["q", i] for i in range(k)]},
            "tgt": {"kind": "ints", "q": [["q", k + j] for j in range(nt)]}, "use": "append", "cs_how": "kw"}
    if entry.endswith(".ldmcsu") or (entry.endswith("multi_target_mcsu2") and kw.get("wrap") == "single"):
        spec["tgt"]["kind"] = "int"
    spec.update(kw)
    return spec


def div_layout(r, k, nt, idle, kind_c="ints", kind_t=None):
    """A host `q` of k + nt + idle qubits; controls in non-ascending order, not contiguous where possible, a target below
    the highest control (in the middle of the host), targets in non-ascending order."""
    n = k + nt + idle
    while True:
        pos = r.sample(range(n), k + nt)
        c, t = pos[:k], pos[k:]
        if (k == 1 or c != sorted(c)) and min(t) < max(c) and (nt == 1 or t != sorted(t)):
            break
    if kind_t is None:
        kind_t = "ints" if kind_c in ("ints", "list-int") else "qubits"
    return {"regs": [["q", n]], "ctrl": {"kind": kind_c, "q": [["q", i] for i in c]},
            "tgt": {"kind": kind_t, "q": [["q", i] for i in t]}}


def div_reg_host(r, k, nt, order, ctrl_form, tgt_form):
    """Host built from three registers c (k or k + 1 qubits), t (nt or nt + 1), a (2 idle) in the order `order`."""
    extra_c = 1 if ctrl_form in ("slice-lo", "slice-rev-part") else 0
    extra_t = 1 if tgt_form in ("qubit-last", "slice-rev-part") else 0
    sizes = {"c": k + extra_c, "t": nt + extra_t, "a": 2}
    lay = {"regs": [[nm, sizes[nm]] for nm in order]}
    lay["ctrl"] = {"register": {"kind": "register", "reg": "c"},
                   "slice-rev": {"kind": "slice", "reg": "c", "sl": [None, None, -1]},
                   "slice-lo": {"kind": "slice", "reg": "c", "sl": [1, None, None]},
                   "slice-rev-part": {"kind": "slice", "reg": "c", "sl": [k - 1, None, -1]},
                   "qubits": {"kind": "qubits", "q": [["c", i] for i in r.sample(range(k), k)]}}[ctrl_form]
    lay["tgt"] = {"register": {"kind": "register", "reg": "t"},
                  "slice-rev": {"kind": "slice", "reg": "t", "sl": [None, None, -1]},
                  "slice-rev-part": {"kind": "slice", "reg": "t", "sl": [nt - 1, None, -1]},
                  "qubit": {"kind": "qubit", "q": [["t", 0]]}, "qubit-last": {"kind": "qubit", "q": [["t", nt]]},
                  "int": {"kind": "int", "q": [["t", 0]]}, "list-qubit": {"kind": "list-qubit", "q": [["t", j] for j in range(nt)][::-1]},
                  "list-int": {"kind": "list-int", "q": [["t", j] for j in range(nt)][::-1]}}[tgt_form]
    return lay


def div_pattern(r, k, i):
    """ctrl_state rotating over None / all ones / a mixed pattern / random."""
    return [None, "1" * k, mixed_pattern(k), "".join(r.choice("01") for _ in range(k))][i % 4]


def div_pattern_call(r, k, i):
    """ctrl_state for the call-form cases: mostly patterns with both a 0 and a 1 (a permuted / dropped / reversed
    pattern or qubit list is invisible under None and all ones), read differently from both ends where k allows."""
    if i % 4 == 1:
        return None
    if i % 4 == 3:
        return "1" * k
    if k == 1:
        return "0"
    while True:
        p = "".join(r.choice("01") for _ in range(k))
        if "0" in p and "1" in p and p != p[::-1]:
            return p
        if k == 2 and p in ("01", "10"):
            return p


def div_elem_specs(ctx):
    """Family 1: every element type / container of the 2x2 matrix through every entry point."""
    r = ctx.rng
    fams = families(r)
    minus_iy, plus_iy = np.array([[0, -1], [1, 0]], dtype=complex), np.array([[0, 1], [-1, 0]], dtype=complex)
    ryn = -fams["RY"]
    combos = []
    for nm, m in (("-iY", minus_iy), ("iY", plus_iy), ("-I", -I2), ("I", I2.copy())):
        combos += [("list-int", nm, m), ("int64", nm, m), ("float32", nm + "(exact)", m)]
    combos += [("list-complex", "iX", 1j * PX), ("list-complex", "Qhalf", QHALF), ("list-complex", "haar", fams["haar"]),
               ("list-float", "RY", fams["RY"]), ("list-float", "3-4-5", R345),
               ("tuple", "-iY", minus_iy), ("tuple", "RY", fams["RY"]), ("tuple", "iX", 1j * PX), ("tuple", "haar", fams["haar2"]),
               ("float64", "RY", fams["RY"]), ("float64", "-RY", ryn), ("float64", "3-4-5", R345),
               ("float64-negzero", "I", I2.copy()), ("float64-negzero", "-I", -I2), ("float64-negzero", "-iY", minus_iy),
               ("float32", "3-4-5", R345), ("float32", "RY", fams["RY"]), ("float32", "-RY", ryn),
               ("complex64", "iX(exact)", 1j * PX), ("complex64", "-iZ(exact)", -1j * PZ), ("complex64", "Qhalf(exact)", QHALF),
               ("complex64", "haar", fams["haar"]), ("complex64", "main-real", fams["main-real"]), ("complex64", "RZ", fams["RZ"]),
               ("c128-negzero", "RY", fams["RY"]), ("c128-negzero", "-iY", minus_iy), ("c128-negzero", "-I", -I2),
               ("c128-negzero", "iZ", 1j * PZ), ("c128-negzero", "iX", 1j * PX), ("c128-negzero", "RX", fams["RX"]),
               ("npscalars", "RY", fams["RY"]), ("npscalars", "Qhalf", QHALF),
               ("matrix", "RY", fams["RY"]), ("matrix", "haar", fams["haar"]), ("matrix", "main-real", fams["main-real"]),
               ("readonly", "-RY", ryn), ("readonly", "haar", fams["haar2"]), ("readonly", "sec-real", fams["sec-real"]),
               ("view", "haar", fams["haar"]), ("view", "main-real-neg", fams["main-real-neg"]),
               ("fortran", "sec-real-neg", fams["sec-real-neg"]), ("fortran", "RXZ", fams["RXZ"])]
    specs = []
    statics = ("Ldmcsu.ldmcsu", "LdMcSpecialUnitary.ldmcsu", "MultiTargetMCSU2.multi_target_mcsu2", "MultiTargetMCSU2.multi_target_mcsu2")
    for i, (tag, nm, m) in enumerate(combos):
        grp = "elem:" + tag
        rd = is_real_diag_type(m)
        hows = ("kw", "pos")
        ks = [2, 3][i % 2]
        specs.append(div_spec(grp, "Ldmcsu", nm, [m], [tag], ks, div_pattern(r, ks, i), cs_how=hows[i % 2]))
        if i % 4 == 0:
            specs.append(div_spec(grp, "Ldmcsu", nm, [m], [tag], 1, ["0", None][(i // 4) % 2]))
        if i % 7 == 3:
            specs.append(div_spec(grp, "Ldmcsu", nm, [m], [tag], 4 + (i // 7) % 2, div_pattern(r, 4 + (i // 7) % 2, i + 2)))
        kp = [3, 2, 1, 4][i % 4]
        specs.append(div_spec(grp, "LdMcSpecialUnitary", nm, [m], [tag], kp, div_pattern(r, kp, i + 1), cs_how=hows[(i + 1) % 2]))
        km = [3, 2][i % 2]
        if rd:
            specs.append(div_spec(grp, "MultiTargetMCSU2", nm, [m], [tag], km, div_pattern(r, km, i + 2), wrap="list",
                                  cs_how=hows[i % 2]))
        if i % 3 == 0 or not rd:
            specs.append(div_spec(grp, "MultiTargetMCSU2", nm, [m], [tag], 5 - km, div_pattern(r, 5 - km, i + 3), wrap="single"))
        ent = statics[i % 4]
        if ent.startswith("Multi"):
            wrap = "list" if (i % 4 == 2 and rd) else "single"
        kk = [2, 3, 3, 2][(i // 4) % 4]
        lay = div_layout(r, kk, 1, 1, kind_c=("ints", "qubits")[(i // 2) % 2],
                         kind_t=("int", "qubit") [(i // 2) % 2] if not (ent.startswith("Multi") and wrap == "list")
                         else ("list-int", "list-qubit")[(i // 2) % 2])
        kw = dict(lay, cs_how=("kw", "pos", "allkw")[i % 3])
        if ent.startswith("Multi"):
            kw["wrap"] = wrap
        specs.append(div_spec(grp, ent, nm, [m], [tag], kk, div_pattern(r, kk, i + 1), **kw))
    return specs


def div_mt_list_specs(ctx):
    """Family 1 for the LIST of unitaries of MultiTargetMCSU2: containers, mixed element types, one object twice."""
    r = ctx.rng
    fams = families(r)
    minus_iy = np.array([[0, -1], [1, 0]], dtype=complex)
    lists = [("RY+RZ+-iY", [fams["RY"], fams["RZ"], minus_iy], ["float64", "c128", "int64"]),
             ("RX+RY", [fams["RX"], fams["RY"]], ["readonly", "matrix"]),
             ("-RY+iZ", [-fams["RY"], 1j * PZ], ["float64-negzero", "c128-negzero"]),
             ("main-real+sec-real+RY", [fams["main-real"], fams["sec-real"], fams["RY"]], ["fortran", "view", "float64"]),
             ("3-4-5+iX", [R345, 1j * PX], ["float32", "complex64"]),
             ("-iY+RY", [minus_iy, fams["RY"]], ["list-int", "list-float"]),
             ("RY+RY", [fams["RY"], fams["RY"]], ["float64", "float64"]),
             ("RX+RX+RX", [fams["RX"]] * 3, ["c128"] * 3)]
    specs = []
    for i, (nm, us, forms) in enumerate(lists):
        nt = len(us)
        for j, k in enumerate((2, 3) if i % 2 == 0 else (3, 4)):
            cs = div_pattern(r, k, i + j)
            same = nm in ("RY+RY", "RX+RX+RX")
            specs.append(div_spec("mt-list:class", "MultiTargetMCSU2", nm, us, forms, k, cs, wrap="list", same_object=same,
                                  cs_how=("kw", "pos")[j]))
            lay = div_layout(r, k, nt, 1, kind_c=("qubits", "ints")[j], kind_t=("list-qubit", "list-int")[j])
            specs.append(div_spec("mt-list:static", "MultiTargetMCSU2.multi_target_mcsu2", nm, us, forms, k, cs, wrap="list",
                                  same_object=same, cs_how=("pos", "kw")[j], **lay))
    us, forms = [fams["RY"], fams["RZ"]], ["c128", "c128"]
    for wrap in ("tuple", "ndarray3"):
        for k in (1, 2, 3):
            specs.append(div_spec("mt-list:container", "MultiTargetMCSU2", "RY+RZ", us, forms, k, None, wrap=wrap))
        specs.append(div_spec("mt-list:container", "MultiTargetMCSU2.multi_target_mcsu2", "RY+RZ", us, forms, 2, "01", wrap=wrap,
                              tgt={"kind": "list-int", "q": [["q", 2], ["q", 3]]}))
        specs.append(div_spec("mt-list:container", "MultiTargetMCSU2", "RY", us[:1], forms[:1], 2, None, wrap=wrap))
    specs.append(div_spec("mt-list:container", "MultiTargetMCSU2", "-iY", [minus_iy], ["list-int"], 2, None, wrap="single"))
    return specs


def div_rot(axis, t):
    if axis == "y":
        return ry(t)
    if axis == "z":
        return rz(t)
    if axis == "x":
        return rx(t)
    return math.cos(t / 2) * I2 - 1j * math.sin(t / 2) * (0.6 * PX + 0.8 * PZ)     # XZ axis: eigenbasis path


def div_phase_cases(ctx):
    """Family 3 through the ordinary case runner (tie + oracle): rotation angles beyond one turn, exact multiples of
    pi, -U of the general class, angle lists summing to 2 pi, lists of +-i Paulis.  RY(2 pi) itself is in probes()."""
    r = ctx.rng
    a = away(r, 0.3, 2.8, [math.pi / 2, math.pi], 0.2)
    two = 2 * math.pi
    angles = [("2pi+a", two + a), ("-2pi-a", -two - a), ("3pi", 3 * math.pi), ("-3pi", -3 * math.pi), ("4pi", 2 * two),
              ("-4pi", -2 * two), ("4pi+a", 2 * two + a), ("-2pi", -two), ("6pi-a", 3 * two - a)]
    cases = []
    i = 0
    for an, t in angles:
        for ax in ("y", "z", "x", "xz"):
            u = div_rot(ax, t)
            nm = f"div-R{ax}({an})"
            ctx.count("diversity:phase:angle beyond one turn" if "a" in an else "diversity:phase:exact multiple of pi")
            for cls in ("Ldmcsu", "LdMcSpecialUnitary"):
                k = 2 + (i % 2)
                cases.append((cls, nm, [u], k, [None, mixed_pattern(k)][(i // 2) % 2], True))
                if i % 6 == 0:
                    cases.append((cls, nm, [u], 1, "0", True))
                i += 1
            if is_real_diag_type(u):
                k = 2 + (i % 2)
                cases.append(("MultiTargetMCSU2", nm + "+RZ0.4", [u, rz(0.4)][:: 1 if i % 4 < 2 else -1], k, mixed_pattern(k), True))
    fams = families(r)
    for nm, u in (("div-haar-neg", -fams["haar"]), ("div-RXZ-neg", -fams["RXZ"]), ("div-Qhalf", QHALF), ("div-Qhalf-neg", -QHALF),
                  ("div-iH-neg", -1j * HAD)):
        ctx.count("diversity:phase:-U general class")
        for k, cs in ((1, None), (2, "01"), (3, None), (4, "0110")):
            cases.append(("Ldmcsu", nm, [u], k, cs, True))
            cases.append(("LdMcSpecialUnitary", nm, [u], k, cs, True))
    lists = [("div-RY(a)+RY(2pi-a)", [ry(a), ry(two - a)]), ("div-RZpi+RZpi", [rz(math.pi), rz(math.pi)]),
             ("div-3xRY(2pi/3)", [ry(two / 3)] * 3), ("div-RY(2pi+a)+RX(-2pi-a)+RZ(4pi+a)", [ry(two + a), rx(-two - a), rz(2 * two + a)]),
             ("div-iX+-iX", [1j * PX, -1j * PX]), ("div-iZ+iY+-I", [1j * PZ, 1j * PY, -I2]), ("div--iZ+-iY", [-1j * PZ, -1j * PY]),
             ("div-RY(a)+RY(a)+RY(2pi-2a)", [ry(a), ry(a), ry(two - 2 * a)])]
    for j, (nm, us) in enumerate(lists):
        ctx.count("diversity:phase:multitarget list (sum 2pi / +-i Paulis)")
        for k in (2, 3):
            cases.append(("MultiTargetMCSU2", nm, us, k, [None, mixed_pattern(k)][(j + k) % 2], True))
        if j % 3 == 0:
            cases.append(("MultiTargetMCSU2", nm, us, 1, "0", True))
    return cases


def div_call_specs(ctx):
    """Families 4 and 5: call forms of the classes and of the four static helpers on larger hosts, k = 1..5, nt = 1..3."""
    r = ctx.rng
    fams = families(r)
    a = away(r, 0.3, 2.8, [math.pi / 2, math.pi], 0.2)
    two = 2 * math.pi
    pool = [("RY", fams["RY"]), ("main-real", fams["main-real"]), ("sec-real", fams["sec-real"]), ("haar", fams["haar"]),
            ("iX", 1j * PX), ("-RY", -fams["RY"]), ("RXZ", fams["RXZ"]), ("-iZ", -1j * PZ), ("RX(2pi+a)", rx(two + a)),
            ("RZ(-2pi-a)", rz(-two - a)), ("RXZ(3pi)", div_rot("xz", 3 * math.pi)), ("RY(4pi+a)", ry(2 * two + a))]
    rd_pool = [p for p in pool if is_real_diag_type(p[1])]
    orders = (["t", "a", "c"], ["a", "c", "t"], ["c", "a", "t"])
    specs = []
    i = 0
    # -- the gate classes: how the gate object is used
    uses = ("append", "twice", "copy-first", "inverse", "to_instruction", "compose", "reuse", "to_gate")
    for entry in ("Ldmcsu", "LdMcSpecialUnitary"):
        for use in uses:
            for k in (1, 2, 3, 4, 5):
                if k == 5 and use in ("twice", "reuse", "to_gate"):
                    continue
                nm, u = pool[i % len(pool)]
                cs = div_pattern_call(r, k, i)
                how = ("kw", "pos", "omit")[i % 3] if cs is None else ("kw", "pos")[i % 2]
                if i % 3 == 2:
                    lay = div_reg_host(r, k, 1, orders[(i // 3) % 3], ("register", "slice-rev", "qubits", "slice-lo")[(i // 3) % 4],
                                       ("qubit", "qubit-last")[(i // 3) % 2])
                else:
                    lay = div_layout(r, k, 1, 1 + (i % 2 if k < 5 else 0), kind_c=("ints", "qubits")[i % 2])
                specs.append(div_spec("call:class:" + use, entry, nm, [u], ["c128"], k, cs, use=use, cs_how=how, **lay))
                i += 1
    for use in uses:
        for k in (1, 2, 3, 4):
            nt = 1 + (i % 3)
            if k + nt > 6 and use in ("twice", "reuse", "copy-first"):
                nt = 1
            if use == "reuse":
                continue
            sel = [rd_pool[(i + j) % len(rd_pool)] for j in range(nt)]
            cs = div_pattern_call(r, k, i)
            how = ("kw", "pos", "omit")[i % 3] if cs is None else ("kw", "pos")[i % 2]
            if i % 3 == 1:
                lay = div_reg_host(r, k, nt, orders[(i // 3) % 3], ("register", "slice-rev", "qubits", "slice-lo")[(i // 3) % 4],
                                   ("register", "slice-rev", "list-qubit")[(i // 3) % 3])
            else:
                lay = div_layout(r, k, nt, 1, kind_c=("ints", "qubits")[i % 2])
            specs.append(div_spec("call:class:" + use, "MultiTargetMCSU2", "+".join(s[0] for s in sel), [s[1] for s in sel],
                                  ["c128"] * nt, k, cs, use=use, cs_how=how, wrap="list", **lay))
            if use in ("inverse", "copy-first", "twice") and k in (2, 3):
                nm, u = pool[(i + 3) % len(pool)]
                specs.append(div_spec("call:class:" + use, "MultiTargetMCSU2", nm, [u], ["c128"], k, cs, use=use, cs_how=how,
                                      wrap="single", **div_layout(r, k, 1, 1, kind_c=("qubits", "ints")[i % 2])))
            i += 1
    # -- int ctrl_state (annotated `str`; qiskit's own controlled gate takes ints, hence k = 1 of Ldmcsu / MultiTarget works)
    for entry in DIV_CLASSES:
        for k, cs in ((1, 0), (2, 1), (3, 5), (2, 3)):
            nm, u = rd_pool[(i + k) % len(rd_pool)]
            specs.append(div_spec("call:int ctrl_state", entry, nm, [u], ["c128"], k, cs, cs_how=("kw", "pos")[k % 2],
                                  **({"wrap": "list"} if entry.startswith("Multi") else {})))
    # -- regression F-C04-13: decimal ctrl_state through apply_ctrl_state (LdMcSpecialUnitary), int and np.int64, every
    #    k = 1..5 (mcx pair, LinearMcx with and without action_only), class and static helper on a permuted host
    for j, (k, cs) in enumerate(((1, 0), (2, 2), (3, 3), (3, 6), (4, 5), (5, 22), (2, 0), (4, 15))):
        nm, u = pool[(i + j) % len(pool)]
        ct = {"cs_type": "np.int64"} if j % 2 else {}
        specs.append(div_spec("regression:F-C04-13", "LdMcSpecialUnitary", nm, [u], ["c128"], k, cs,
                              cs_how=("kw", "pos")[j % 2], use=("append", "copy-first", "inverse", "twice")[j % 4], **ct,
                              **div_layout(r, k, 1, 1, kind_c=("ints", "qubits")[j % 2])))
        if k <= 4:
            specs.append(div_spec("regression:F-C04-13", "LdMcSpecialUnitary.ldmcsu", nm, [u], ["c128"], k, cs,
                                  cs_how=("pos", "kw", "allkw")[j % 3], **ct,
                                  **div_layout(r, k, 1, 1, kind_c=("qubits", "ints")[j % 2], kind_t=("qubit", "int")[j % 2])))
    # -- regression F-C04-14: the matrix of Ldmcsu as a nested Python sequence, k >= 2 (every branch class: the branch
    #    tests index the matrix), through each way that reaches Ldmcsu
    seq = [("list-int", "-iY", np.array([[0, -1], [1, 0]], dtype=complex)), ("list-float", "RY", fams["RY"]),
           ("list-complex", "main-real", fams["main-real"]), ("tuple", "sec-real", fams["sec-real"]),
           ("npscalars", "haar", fams["haar"]), ("tuple", "RXZ", fams["RXZ"]), ("list-complex", "-iZ", -1j * PZ),
           ("list-int", "-I", -I2)]
    for j, (tag, nm, m) in enumerate(seq):
        k = 2 + j % 3
        cs = div_pattern_call(r, k, j)
        specs.append(div_spec("regression:F-C04-14", "Ldmcsu", nm, [m], [tag], k, cs,
                              use=("append", "copy-first", "inverse", "to_instruction")[j % 4],
                              **div_layout(r, k, 1, 1, kind_c=("ints", "qubits")[j % 2])))
        specs.append(div_spec("regression:F-C04-14", "Ldmcsu.ldmcsu", nm, [m], [tag], k, cs, cs_how=("kw", "pos")[j % 2],
                              **div_layout(r, k, 1, 1, kind_c=("qubits", "ints")[j % 2], kind_t=("qubit", "int")[j % 2])))
        if tag == "tuple":          # a bare nested LIST would be read as a list of unitaries
            specs.append(div_spec("regression:F-C04-14", "MultiTargetMCSU2", nm, [m], [tag], k, cs, wrap="single"))
            specs.append(div_spec("regression:F-C04-14", "MultiTargetMCSU2.multi_target_mcsu2", nm, [m], [tag], k, cs,
                                  wrap="single", **div_layout(r, k, 1, 1, kind_c="ints", kind_t="int")))
    # -- regression F-C04-15: nested Python sequences as ELEMENTS of the list of unitaries (the branch tests and
    #    _get_x_z index every element), alone, mixed with arrays, one list object twice; k = 1..5, nt = 1..3
    minus_iy = np.array([[0, -1], [1, 0]], dtype=complex)
    elists = [("-iY", [minus_iy], ["list-int"], False),
              ("RY+sec-real", [fams["RY"], fams["sec-real"]], ["list-float", "tuple"], False),
              ("main-real+RY+-I", [fams["main-real"], fams["RY"], -I2], ["list-complex", "npscalars", "list-int"], False),
              ("-iY+RZ", [minus_iy, fams["RZ"]], ["tuple", "c128"], False),
              ("RX+iX+RY", [fams["RX"], 1j * PX, fams["RY"]], ["npscalars", "list-complex", "float64"], False),
              ("RY+RY", [fams["RY"], fams["RY"]], ["list-float", "list-float"], True),
              ("-iZ", [-1j * PZ], ["list-complex"], False),
              ("iY+main-real-neg", [np.array([[0, 1], [-1, 0]], dtype=complex), fams["main-real-neg"]], ["tuple", "tuple"], False)]
    uses4 = ("append", "copy-first", "inverse", "twice")
    for j, (nm, us, forms, same) in enumerate(elists):
        nt = len(us)
        for jj in range(2):
            k = 1 + (2 * j + jj) % 5
            cs = div_pattern_call(r, k, j + 2 * jj)
            idle = 1 if k + nt <= 6 else 0
            specs.append(div_spec("regression:F-C04-15", "MultiTargetMCSU2", nm, us, forms, k, cs, wrap="list", same_object=same,
                                  use=uses4[(j + jj) % 4], cs_how=("kw", "pos")[jj],
                                  **div_layout(r, k, nt, idle, kind_c=("ints", "qubits")[(j + jj) % 2])))
            specs.append(div_spec("regression:F-C04-15", "MultiTargetMCSU2.multi_target_mcsu2", nm, us, forms, k, cs, wrap="list",
                                  same_object=same, use=("append", "twice")[(j + jj) % 3 == 2], cs_how=("pos", "kw", "allkw")[(j + jj) % 3],
                                  **div_layout(r, k, nt, idle, kind_c=("qubits", "ints")[(j + jj) % 2],
                                               kind_t=("list-qubit", "list-int")[(j + jj) % 2])))
    # -- regression F-C04-16: decimal ctrl_state (int, np.int64) of MultiTargetMCSU2 - list and bare matrix - and of the
    #    static helper's list branch; the pattern string the model gets is the zero-padded binary form
    for j, (k, cs) in enumerate(((1, 0), (2, 1), (3, 5), (3, 6), (4, 5), (5, 22), (2, 2), (4, 8), (5, 9), (1, 1))):
        nt = 1 + j % 3
        sel = [rd_pool[(i + j + t) % len(rd_pool)] for t in range(nt)]
        ct = {"cs_type": "np.int64"} if j % 2 else {}
        idle = 1 if k + nt <= 6 else 0
        nm, us = "+".join(x[0] for x in sel), [x[1] for x in sel]
        specs.append(div_spec("regression:F-C04-16", "MultiTargetMCSU2", nm, us, ["c128"] * nt, k, cs, wrap="list",
                              use=uses4[j % 4], cs_how=("kw", "pos")[j % 2], **ct,
                              **div_layout(r, k, nt, idle, kind_c=("ints", "qubits")[j % 2])))
        specs.append(div_spec("regression:F-C04-16", "MultiTargetMCSU2.multi_target_mcsu2", nm, us, ["c128"] * nt, k, cs, wrap="list",
                              cs_how=("pos", "kw", "allkw")[j % 3], **ct,
                              **div_layout(r, k, nt, idle, kind_c=("qubits", "ints")[j % 2], kind_t=("list-qubit", "list-int")[j % 2])))
        if j % 2 == 0:
            pn, pu = pool[(i + j) % len(pool)]
            specs.append(div_spec("regression:F-C04-16", "MultiTargetMCSU2", pn, [pu], ["c128"], k, cs, wrap="single",
                                  use=uses4[(j // 2) % 4], cs_how=("pos", "kw")[(j // 2) % 2], **ct,
                                  **div_layout(r, k, 1, 1, kind_c=("qubits", "ints")[(j // 2) % 2])))
    for k, cs in ((1, 0), (2, 1), (3, 5)):     # bare matrix through the static helper: the int reaches Ldmcsu (undocumented there)
        specs.append(div_spec("call:int ctrl_state", "MultiTargetMCSU2.multi_target_mcsu2", "RY", [fams["RY"]], ["c128"], k, cs,
                              wrap="single"))
    # -- the static helpers: controls / target forms, ctrl_state positional / keyword / omitted, every keyword at once
    ctrl_forms = ("ints", "qubits", "tuple-qubit", "register", "slice-rev", "slice-lo", "slice-rev-part")
    for entry in ("Ldmcsu.ldmcsu", "LdMcSpecialUnitary.ldmcsu", "MultiTargetMCSU2.multi_target_mcsu2:single",
                  "MultiTargetMCSU2.multi_target_mcsu2:list"):
        ent, _, wrap = entry.partition(":")
        for cf in ctrl_forms:
            for k in (1, 2, 3, 4):
                if (cf in ("slice-lo", "slice-rev-part", "tuple-qubit") and k in (1, 4)) or (k == 4 and cf == "register"):
                    continue
                nt = 1 if wrap != "list" else 1 + (i % 3)
                src = rd_pool if wrap == "list" else pool
                sel = [src[(i + j) % len(src)] for j in range(nt)]
                cs = div_pattern_call(r, k, i)
                how = ("omit", "kw", "pos", "allkw")[i % 4] if cs is None else ("kw", "pos", "allkw")[i % 3]
                if cf in ("ints", "qubits", "tuple-qubit"):
                    kt = {"ints": ("int", "list-int"), "qubits": ("qubit", "list-qubit"), "tuple-qubit": ("qubit", "list-qubit")}[cf]
                    lay = div_layout(r, k, nt, 1 + i % 2, kind_c=cf, kind_t=kt[1] if (wrap == "list" or i % 5 == 0) else kt[0])
                else:
                    tf = ("register", "slice-rev", "list-qubit", "list-int", "slice-rev-part")[i % 5] if wrap == "list" else \
                        ("qubit", "qubit-last", "int")[i % 3]
                    lay = div_reg_host(r, k, nt, orders[i % 3], cf, tf)
                kw = dict(lay, cs_how=how, use="twice" if i % 11 == 5 else "append")
                if wrap:
                    kw["wrap"] = wrap
                specs.append(div_spec("call:static:" + cf, ent, "+".join(s[0] for s in sel), [s[1] for s in sel], ["c128"] * nt,
                                      k, cs, **kw))
                i += 1
    return specs


def div_flagform_specs(ctx):
    """Flag-form pass (part A has no boolean option; its one option with a valid falsy value and two documented forms is
    `ctrl_state`: "decimal or bitstring", MultiTargetMCSU2 docstring; apply_ctrl_state for LdMcSpecialUnitary).
    The decimal form at BOTH ENDS of the range - 0 (the all-open pattern: falsy) and 2^k - 1 - and in the middle, as
    Python int, np.int64, np.int32, np.uint8, next to the bit-string form of the same value, through every entry point
    that takes the option (constructor positional / keyword, static helper positional / keyword / all keywords), at k on
    both sides of the size thresholds of the code path (one control; LdMcSpecialUnitary < 3, < 6; k_1 != k_2).
    Judged by the ordinary operator oracle on a permuted host and tied with the canonical zero-padded bit string.
    Ldmcsu / Ldmcsu.ldmcsu / the bare-matrix branch of multi_target_mcsu2 annotate `str` and slice the pattern: for
    k >= 2 the int must end in TypeError (counted flagforms:...:unsupported-TypeError) - never in a silently different
    pattern, which is what `if ctrl_state:` in place of `is not None` would give for 0."""
    r = ctx.rng
    fams = families(r)
    pool = [("RY", fams["RY"]), ("main-real", fams["main-real"]), ("sec-real", fams["sec-real"]), ("-RY", -fams["RY"]),
            ("iX", 1j * PX), ("RZ", fams["RZ"])]
    gen = [("haar", fams["haar"]), ("RXZ", fams["RXZ"])]
    plan = [("LdMcSpecialUnitary", None, (1, 2, 3, 5, 6), ("kw", "pos")),
            ("LdMcSpecialUnitary.ldmcsu", None, (1, 2, 3, 5), ("pos", "kw", "allkw")),
            ("MultiTargetMCSU2", "list", (1, 2, 3, 4), ("kw", "pos")),
            ("MultiTargetMCSU2", "single", (1, 2, 3), ("pos", "kw")),
            ("MultiTargetMCSU2.multi_target_mcsu2", "list", (1, 2, 3, 4), ("pos", "kw", "allkw")),
            ("MultiTargetMCSU2.multi_target_mcsu2", "single", (1, 2, 3), ("kw", "pos")),
            ("Ldmcsu", None, (1, 2, 3), ("kw", "pos")),
            ("Ldmcsu.ldmcsu", None, (1, 2, 3), ("pos", "kw", "allkw"))]
    np_forms = ("np.int64", "np.int32", "np.uint8")
    specs = []
    i = 0
    for entry, wrap, ks, hows in plan:
        for k in ks:
            ends = [("zero", 0), ("ones", 2 ** k - 1)] + ([("middle", r.randrange(1, 2 ** k - 1))] if k >= 2 else [])
            for where, val in ends:
                forms = ["int", "np.int64"] if where != "middle" else [("int", "np.int64")[i % 2]]
                if where != "middle" and k in (2, 3):
                    forms.append(np_forms[1 + i % 2])
                if where != "middle" and k == ks[1]:
                    forms.append("str")
                for form in forms:
                    i += 1
                    nt = 1 + (i % 3 if k <= 3 else i % 2) if wrap == "list" else 1
                    src = pool if (wrap == "list" or i % 3) else gen
                    sel = [src[(i + j) % len(src)] for j in range(nt)]
                    static = "." in entry
                    if wrap == "list":
                        kt = ("list-int", "list-qubit")[i % 2] if static else None
                    else:
                        kt = ("int", "qubit")[i % 2] if static else None
                    lay = div_layout(r, k, nt, 1 if k + nt <= 6 else 0, kind_c=("ints", "qubits")[i % 2], kind_t=kt)
                    kw = dict(lay, cs_how=hows[i % len(hows)], flagform=f"ctrl_state:{form}:{where}")
                    if wrap:
                        kw["wrap"] = wrap
                    if form.startswith("np."):
                        kw["cs_type"] = form
                    cs = format(val, f"0{k}b") if form == "str" else val
                    specs.append(div_spec("flagforms:ctrl_state", entry, "+".join(x[0] for x in sel), [x[1] for x in sel],
                                          ["c128"] * nt, k, cs, **kw))
    return specs


def diversity_helpers(ctx):
    """Family 1 / 3 for the helper functions: `_get_x_z` on non-complex128 arrays, `_compute_gate_a` on Python / numpy
    scalars of every kind, `get_abc_operators` on integer / numpy / beyond-one-turn angles.  Tied to the same model ops
    as the complex128 / float forms, plus the defining identities."""
    from qclib.gates.ldmcsu import Ldmcsu, LdMcSpecialUnitary
    r = ctx.rng
    fams = families(r)
    minus_iy = np.array([[0, -1], [1, 0]], dtype=complex)
    rep = {"part": "su2", "probe": "diversity-helpers"}
    for tag, nm, m in (("int64", "-iY", minus_iy), ("int64", "-I", -I2), ("float64", "RY", fams["RY"]), ("float64", "-RY", -fams["RY"]),
                       ("float64-negzero", "I", I2), ("c128-negzero", "iX", 1j * PX), ("c128-negzero", "RY", fams["RY"]),
                       ("matrix", "haar", fams["haar"]), ("matrix", "RY", fams["RY"]), ("readonly", "main-real", fams["main-real"]),
                       ("view", "sec-real", fams["sec-real"]), ("float32", "-iY", minus_iy), ("float32", "3-4-5", R345),
                       ("complex64", "iX", 1j * PX), ("complex64", "haar", fams["haar"])):
        raw = to_form(m, tag)
        snap = snapshot(raw)
        key = f"diversity:Ldmcsu._get_x_z:%s:{tag}:{nm}"
        ctx.count("diversity:helpers:_get_x_z:" + tag)
        try:
            x, z = Ldmcsu._get_x_z(raw)
            x, z = float(np.real(x)), complex(z)
        except Exception as e:
            ctx.fail(key % ("raises-" + type(e).__name__), f"_get_x_z({nm} as {tag}) raised {type(e).__name__}: {str(e)[:120]}", rep)
            continue
        up = np.array(raw, dtype=complex)
        x0, z0 = Ldmcsu._get_x_z(up)
        tol = 1e-6 if tag in REDUCED_FORMS else 1e-12
        if snapshot(raw) != snap:
            ctx.fail(key % "caller-input-modified", "the matrix was modified", rep)
        if abs(x - x0) > tol or abs(z - z0) > tol:
            ctx.fail(key % "mismatch", f"_get_x_z({nm} as {tag}) = ({x}, {z}), complex128 form gives ({x0}, {z0})", rep)
        else:
            ctx.ok(key % "ok", nontrivial=False)
        if tag not in REDUCED_FORMS:
            ctx.tie({"op": "get_x_z", "u": mflat(up)}, [f"xz ; {x!r} {z.real!r} {z.imag!r}"], label=f"diversity _get_x_z {nm} as {tag}")
    s = math.sqrt(0.5)
    scal = [("int", 0, 1), ("int", 0, -1), ("int", 1, 0), ("int", -1, 0), ("int+complex", 0, 1j), ("int+complex", 0, -1j),
            ("float", 0.6, 0.8), ("float", -0.6, 0.8), ("float", 0.6, -0.8), ("float+complex", -0.6, 0.8j), ("float+complex", 0.6, complex(0.0, -0.8)),
            ("float+complex-negzero", -0.0, complex(-0.0, 1.0)), ("float+complex-negzero", 0.6, complex(0.8, -0.0)),
            ("np.int64", np.int64(0), np.int64(-1)), ("np.int64", np.int64(-1), np.int64(0)),
            ("np.float64", np.float64(s), np.float64(-s)), ("np.float64+np.complex128", np.float64(-0.6), np.complex128(0.8j)),
            ("np.float32", np.float32(1.0), np.float32(0.0)), ("np.float32", np.float32(0.0), np.float32(-1.0)),
            ("np.float32", np.float32(0.6), np.float32(0.8)), ("np.float32+np.complex64", np.float32(0.0), np.complex64(1j)),
            ("np.float32+np.complex64", np.float32(0.6), np.complex64(-0.8j))]
    for tag, x, z in scal:
        key = f"diversity:Ldmcsu._compute_gate_a:%s:{tag}:x={x!r}:z={z!r}"
        ctx.count("diversity:helpers:_compute_gate_a:" + tag)
        try:
            with warnings.catch_warnings():
                warnings.simplefilter("ignore")
                a = np.asarray(Ldmcsu._compute_gate_a(x, z), dtype=complex)
        except Exception as e:
            ctx.fail(key % ("raises-" + type(e).__name__), f"_compute_gate_a({x!r}, {z!r}) raised {type(e).__name__}: {str(e)[:120]}", rep)
            continue
        xf, zf = float(x), complex(z)
        w = np.array([[np.conj(zf), xf], [-xf, zf]])
        p = a.conj().T @ PX @ a @ PX
        reduced = "32" in tag or "64+np.complex64" in tag
        tol = 1e-5 if reduced else 1e-9
        ctx.assumption_checks += 1
        if not (np.abs(p @ p - w).max() <= tol and np.abs(a @ a.conj().T - I2).max() <= tol):
            ctx.fail(key % "identity", "(A^dagger X A X)^2 != [[conj z, x],[-x, z]] or A not unitary", rep)
        else:
            ctx.ok(key % "ok", nontrivial=False)
        if not reduced:
            ctx.tie({"op": "gate_a", "x": xf, "zre": zf.real, "zim": zf.imag}, ["op_a ; " + mline(a)],
                    label=f"diversity _compute_gate_a {tag} x={x!r} z={z!r}")
    two = 2 * math.pi
    angs = [("int", (1, 3, 5)), ("int", (0, 0, 0)), ("int", (-7, 2, 9)), ("int", (13, -20, 7)), ("np.int64", tuple(np.int64(v) for v in (1, 2, 3))),
            ("np.float64", tuple(np.float64(v) for v in (0.5, 1.5, -2.5))), ("np.float32", tuple(np.float32(v) for v in (0.5, 1.5, -2.5))),
            ("float>=2pi", (two + 0.3, two + 1.1, -two - 0.7)), ("float=+-2pi", (two, -two, two)), ("float=+-4pi", (2 * two, 0.9, -2 * two)),
            ("float:sum=2pi", (0.7, 1.3, two - 0.7)), ("float:3pi", (3 * math.pi, 1.0, -3 * math.pi)), ("mixed", (1, np.float64(0.25), 2.5))]
    for tag, (b, g, d) in angs:
        key = f"diversity:LdMcSpecialUnitary.get_abc_operators:%s:{tag}:{b!r},{g!r},{d!r}"
        ctx.count("diversity:helpers:get_abc_operators:" + tag)
        try:
            ga, gb, gc = LdMcSpecialUnitary.get_abc_operators(b, g, d)
            am, bm, cm = ga.to_matrix(), gb.to_matrix(), gc.to_matrix()
        except Exception as e:
            ctx.fail(key % ("raises-" + type(e).__name__), f"get_abc_operators({b!r}, {g!r}, {d!r}) raised {type(e).__name__}: {str(e)[:120]}", rep)
            continue
        bf, gf, df = float(b), float(g), float(d)
        want = rz(bf) @ ry(gf) @ rz(df)
        ctx.assumption_checks += 1
        if not (np.abs(am @ bm @ cm - I2).max() <= 1e-9 and np.abs(am @ PX @ bm @ PX @ cm - want).max() <= 1e-9):
            ctx.fail(key % "identity", "ABC != I or A X B X C != RZ(beta) RY(gamma) RZ(delta)", rep)
        else:
            ctx.ok(key % "ok", nontrivial=False)
        ctx.tie({"op": "abc", "zyz": [gf, bf, df]}, ["A ; " + mline(am), "B ; " + mline(bm), "C ; " + mline(cm)],
                label=f"diversity get_abc_operators {tag} {b!r},{g!r},{d!r}")


def diversity(ctx):
    diversity_helpers(ctx)
    run_cases(ctx, div_phase_cases(ctx))
    div_run(ctx, div_elem_specs(ctx) + div_mt_list_specs(ctx) + div_call_specs(ctx) + div_flagform_specs(ctx))


def run(ctx, scale=0):
    ctx.notes.append("MultiTargetMCSU2 oracle restricted to unitaries with a real main or secondary diagonal; for general "
                     "SU(2) the code raises ValueError (no eigenbasis path) - outside the property ('each listed rotation').")
    ctx.notes.append("random rotation angles stay 0.05 away from multiples of pi; exact multiples are fixed family members; the "
                     "neighbourhood of -I reached by real rotations (RY(2pi -+ 1e-6)) is probed separately.")
    ctx.notes.append("zero controls (outside the quantifier 1..K): only the classes with an explicit num_controls == 0 branch are "
                     "probed there (LdMcSpecialUnitary, MCU; Ldmcu/Mcg are tied from k=0).  Ldmcsu(U, 0) and "
                     "MultiTargetMCSU2(., 0) have no such branch and build a one-qubit circuit that is not U - not generated.")
    ctx.notes.append("input-diversity cases: float32 / complex64 matrices are compared with the ideal of the up-cast input to 1e-5 "
                     "(Ldmcsu / MultiTargetMCSU2 keep the caller's dtype, the fourth-root gate is then computed in single "
                     "precision: up to 1.5e-7 even for exactly representable members) or may be rejected by check_u2; nested "
                     "Python sequences (Ldmcsu, MultiTargetMCSU2, k >= 2), tuple / 3-D array of unitaries, int ctrl_state and "
                     "definition.to_gate() are unsupported forms that must end in their recorded exception or be right; x = 0, "
                     "z = -1 - (dust)i (rotation by exactly -2 pi about z) is on the fourth-root cut: oracle only, no tie.")
    intermediates(ctx)
    quick = ctx.quick and not scale
    slices_tie(ctx, 9 if quick else 12)
    ctrl_state_tie(ctx, 6 if quick else 8)
    if quick:
        cases = gen_cases(ctx, kmax_tie=7, kmax_oracle=8, exhaustive_k=5, exhaustive_fams_k=3)
    else:
        cases = gen_cases(ctx, kmax_tie=9, kmax_oracle=10, exhaustive_k=5, exhaustive_fams_k=4)
    run_cases(ctx, cases)
    boundary_gate_a(ctx)
    run_cases(ctx, boundary_cases(ctx))
    underflow_probe(ctx)
    probes(ctx)
    diversity(ctx)
    if U2 is not None:
        U2.run(ctx)


def case_from_replay(r):
    us = [np.array([complex(m[2 * i], m[2 * i + 1]) for i in range(4)]).reshape(2, 2) for m in r["unitaries"]]
    k = int(r["k"])
    return (r["cls"], r.get("family", "replay"), us, k, r.get("ctrl_state"), True if k + len(us) <= 10 else "state")


def search(ctx, hints):
    """Failing-input search on the real code: the disagreeing ops first, then a larger sweep."""
    cases = []
    for h in hints:
        op = h.get("op", {})
        name = op.get("op")
        k, cs = op.get("k"), op.get("cs")

        def mats(fl):
            return [np.array([complex(fl[8 * j + 2 * i], fl[8 * j + 2 * i + 1]) for i in range(4)]).reshape(2, 2)
                    for j in range(len(fl) // 8)]
        if name == "ldmcsu":
            cases.append(("Ldmcsu", "hint", mats(op["u"]), k, cs, True))
        elif name == "multi":
            cases.append(("MultiTargetMCSU2", "hint", mats(op["us"]), k, cs, True))
        elif name == "ldmcsp":
            z = op["zyz"]
            cases.append(("LdMcSpecialUnitary", "hint", [rz(z[1]) @ ry(z[0]) @ rz(z[2])], k, cs, True))
    run_cases(ctx, cases[:200])
    intermediates(ctx)
    probes(ctx)
    diversity(ctx)
    run_cases(ctx, gen_cases(ctx, kmax_tie=8, kmax_oracle=9, exhaustive_k=5, exhaustive_fams_k=4))
    if U2 is not None:
        U2.search(ctx, hints)


def replay(ctx, payload):
    r = payload["replay"]
    if r.get("part") == "u2":
        if U2 is not None:
            U2.replay(ctx, r)
        return
    if r.get("probe") == "diversity":
        div_record(ctx, r, div_eval(r))
        return
    if r.get("probe") == "diversity-helpers":
        diversity_helpers(ctx)
        return
    if r.get("probe") == "single-unitary":
        single_unitary_probe(ctx)
        return
    if r.get("probe") == "static-helper":
        static_helper_probe(ctx)
        return
    if r.get("probe") == "entry-points":
        entry_point_probes(ctx)
        return
    if r.get("call") == "Ldmcsu._compute_gate_a":
        intermediates(ctx)
        return
    case = case_from_replay(r)
    record(ctx, case, eval_case(case))
