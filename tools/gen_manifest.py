#!/usr/bin/env python3
"""Regenerate MANIFEST.json from the per-property modules (tools/props/cXX.py)."""
import ast
import json
import os
import sys

HERE = os.path.dirname(os.path.abspath(__file__))
VERIF = os.path.dirname(HERE)


def consts(path):
    """Read top-level string/list constants of a module without importing it."""
    tree = ast.parse(open(path).read())
    out = {}
    for node in tree.body:
        if isinstance(node, ast.Assign) and len(node.targets) == 1 and isinstance(node.targets[0], ast.Name):
            try:
                out[node.targets[0].id] = ast.literal_eval(node.value)
            except Exception:
                pass
    return out


def main():
    props = [json.loads(l) for l in open(os.path.join(VERIF, "properties.jsonl"))]
    # properties whose check has been integrated (reviewed, run on the unchanged tree, committed)
    ready = set(open(os.path.join(HERE, "ready.txt")).read().split())
    checks, na = [], []
    for p in props:
        pid = p["id"]
        path = os.path.join(HERE, "props", pid.lower() + ".py")
        c = consts(path) if os.path.exists(path) else {}
        if not c.get("CLAIMED", False) or pid not in ready:
            na.append({"property_id": pid,
                       "reason": c.get("NA_REASON", "check not built yet in this round; no claim is made (see DESIGN.md §7 for the plan)")})
            continue
        checks.append({
            "property_id": pid,
            "quick_cmd": f"python3 tools/check.py {pid} --tier quick",
            "thorough_cmd": f"python3 tools/check.py {pid} --tier thorough",
            "evidence_file": f"evidence/{pid}.json",
            "replay_cmd_template": f"python3 tools/check.py {pid} --replay {{path}}",
            "engine": "lean-proof",
            "level_claimed": {"category": "proof", "text": c["LEVEL_TEXT"], "design_ref": c.get("DESIGN_REF", "DESIGN.md §7 " + pid)},
            "level_note": c["LEVEL_NOTE"],
            "technique": c.get("TECHNIQUE", "Lean 4 theorem about a model + model/code correspondence check"),
        })
    man = {
        "version": 1,
        "setup_cmd": "cd lean && lake build",
        "hooks": {
            "guard": "QCLIB_VERIF",
            "enable": "no source hooks are needed: checks import qclib from /repo's working tree and read gate lists / intermediates through its public functions",
            "baseline_off_cmd": "cd /repo && /venv/bin/python -m pytest -ra -q -p no:cacheprovider --timeout=900 --continue-on-collection-errors",
            "source_commits": [],
            "add_only": True,
        },
        "engines": [{
            "name": "lean-proof", "path": "lean/",
            "serves_properties": [c["property_id"] for c in checks],
            "kind_free_text": "Lean 4 (core + single Mathlib modules) models and theorems; Python harness (tools/check.py) for build, axiom audit, model/code correspondence through the Main.lean line-protocol driver, numerical oracle = failing-input search",
        }],
        "checks": checks,
        "not_applicable": na,
        "notes": "See DESIGN.md. Every check: lake build of the property's theorems, #print axioms audit, correspondence of the executable Lean model with the real code, numerical oracle on the real code. Known findings: known_findings.json.",
    }
    with open(os.path.join(VERIF, "MANIFEST.json"), "w") as f:
        json.dump(man, f, indent=1)
    print(f"claimed {len(checks)}, not_applicable {len(na)}")


if __name__ == "__main__":
    main()
