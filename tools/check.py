#!/usr/bin/env python3
"""check.py <Cxx> --tier quick|thorough [--replay file]   (see DESIGN.md §2)

Re-executes itself under /venv/bin/python (the interpreter that has qiskit and qclib's
dependencies) with /repo first on sys.path so that the CURRENT working tree is what is checked.
"""
import argparse
import importlib
import os
import sys

VENV_PY = "/venv/bin/python"
if os.path.exists(VENV_PY) and os.path.realpath(sys.executable) != os.path.realpath(VENV_PY) \
        and not os.environ.get("QCLIB_VERIF_NOREEXEC"):
    os.environ["QCLIB_VERIF_NOREEXEC"] = "1"
    os.execv(VENV_PY, [VENV_PY] + sys.argv)

sys.path.insert(0, os.path.dirname(os.path.abspath(__file__)))
os.environ.setdefault("OMP_NUM_THREADS", "1")
os.environ.setdefault("OPENBLAS_NUM_THREADS", "1")
os.environ.setdefault("MKL_NUM_THREADS", "1")
import framework  # noqa: E402


def main():
    ap = argparse.ArgumentParser()
    ap.add_argument("pid")
    ap.add_argument("--tier", default=os.environ.get("VERIF_TIER", "quick"), choices=["quick", "thorough"])
    ap.add_argument("--replay", default=None)
    a = ap.parse_args()
    seed = int(os.environ.get("VERIF_SEED", "20260930"))
    mod = importlib.import_module("props." + a.pid.lower())
    sys.exit(framework.run_check(mod, a.pid, a.tier, seed, a.replay))


if __name__ == "__main__":
    main()
