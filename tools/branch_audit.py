#!/usr/bin/env python3
"""branch_audit.py <Cxx> [--tier quick|thorough]

Generator-quality audit: runs the property's harness (`run(ctx)`: tie extraction + oracle on the real
code, no Lean) under coverage.py with branch measurement restricted to the source files the
property is anchored in (properties.jsonl `anchors.files`), and prints the lines / branch arcs of
those files that the generated inputs never reached.  A mutation on an unreached branch cannot be
seen by the correspondence or the oracle, so unreached branches are where generators must grow.
Writes work/branch_audit_<Cxx>.json.
"""
import importlib
import json
import os
import sys

VENV_PY = "/venv/bin/python"
if os.path.exists(VENV_PY) and os.path.realpath(sys.executable) != os.path.realpath(VENV_PY) \
        and not os.environ.get("QCLIB_VERIF_NOREEXEC"):
    os.environ["QCLIB_VERIF_NOREEXEC"] = "1"
    os.execv(VENV_PY, [VENV_PY] + sys.argv)

sys.path.insert(0, os.path.dirname(os.path.abspath(__file__)))
os.environ.setdefault("OMP_NUM_THREADS", "1")
os.environ.setdefault("OPENBLAS_NUM_THREADS", "1")
import coverage  # noqa: E402
import framework  # noqa: E402


def main():
    pid = sys.argv[1]
    tier = "quick"
    if "--tier" in sys.argv:
        tier = sys.argv[sys.argv.index("--tier") + 1]
    props = {json.loads(l)["id"]: json.loads(l) for l in open(os.path.join(framework.VERIF, "properties.jsonl"))}
    files = [os.path.join(framework.REPO, f) for f in props[pid]["anchors"]["files"]]
    files = [f for f in files if os.path.exists(f)]
    data = os.path.join(framework.WORK, f".coverage_{pid}")
    for fn in os.listdir(framework.WORK):
        if fn.startswith(f".coverage_{pid}"):
            os.remove(os.path.join(framework.WORK, fn))
    rc = os.path.join(framework.WORK, f"coveragerc_{pid}")
    with open(rc, "w") as fh:
        fh.write("[run]\nbranch = True\nparallel = True\nconcurrency = multiprocessing\n"
                 f"data_file = {data}\ninclude =\n" + "".join(f"    {f}\n" for f in files))
    cov = coverage.Coverage(config_file=rc)
    cov.start()
    mod = importlib.import_module("props." + pid.lower())
    ctx = framework.Ctx(pid, tier, int(os.environ.get("VERIF_SEED", "20260930")))
    try:
        mod.run(ctx)
    finally:
        cov.stop()
        cov.save()
    cov.combine(data_paths=[framework.WORK], keep=False)
    out = {"property": pid, "tier": tier, "files": {}}
    for f in files:
        try:
            an = cov._analyze(f)  # noqa: SLF001 (stable enough for a report)
        except Exception as e:
            out["files"][os.path.relpath(f, framework.REPO)] = {"error": str(e)}
            continue
        import ast as _ast
        missing = sorted(an.missing)
        executed = set(an.statements) - set(missing)
        arcs = sorted(an.arcs_missing()) if an.has_arcs else []
        src_text = open(f).read()
        src = src_text.split("\n")
        rel = os.path.relpath(f, framework.REPO)
        # enclosing function of every line
        funcs = []
        for node in _ast.walk(_ast.parse(src_text)):
            if isinstance(node, (_ast.FunctionDef, _ast.AsyncFunctionDef)):
                funcs.append((node.lineno, node.end_lineno, node.name))
        def func_of(ln):
            best = None
            for lo, hi, name in funcs:
                if lo <= ln <= hi and (best is None or lo >= best[0]):
                    best = (lo, hi, name)
            return best
        never_called = sorted({fo[2] for fo in funcs
                               if not any(fo[0] < ln <= fo[1] for ln in executed)
                               and any(fo[0] < ln <= fo[1] for ln in an.statements)})
        partial = [[x, y] for x, y in arcs if x > 0 and x in executed]
        unreached = [ln for ln in missing if func_of(ln) and func_of(ln)[2] not in never_called]
        out["files"][rel] = {"statements": len(an.statements), "reached": len(executed),
                             "functions_never_called": never_called,
                             "branches_never_taken": partial, "lines_never_reached_in_called_functions": unreached}
        print(f"== {rel}: {len(executed)}/{len(an.statements)} statements reached")
        if never_called:
            print("   functions never called: " + ", ".join(never_called))
        for x, y in partial:
            fo = func_of(x)
            print(f"   [{fo[2] if fo else '?'}] branch at line {x} never goes to {y if y > 0 else 'exit'}: {src[x - 1].strip()[:100]}")
        for ln in unreached:
            fo = func_of(ln)
            print(f"   [{fo[2] if fo else '?'}] line {ln} never reached: {src[ln - 1].strip()[:100]}")
    with open(os.path.join(framework.WORK, f"branch_audit_{pid}.json"), "w") as fh:
        json.dump(out, fh, indent=1)


if __name__ == "__main__":
    main()
