"""Source tie of the rank rule of qclib/entanglement.py, shared by the C07 and C09 harnesses.

`generate(ctx, module, theorems)`: re-translates `_effective_rank` (whole function; the float threshold `10**-7` is
folded by Python and emitted as the exact rational value of that binary64, the singular values are `List Rat`) and
the statements of `low_rank_approximation` that compute `rank` into lean/QclibModel/Gen/SchmidtRank.lean, then
re-checks the property's `_src` theorem (`srctie.verify`).  A translator refusal raises (broken obligation).

`tie(ctx)`: second tie of the translation — the generated definitions, run by the property's driver (op `gen_rank`,
values sent as exact integer ratios), against the Python originals on an exhaustive small range: every requested
rank 0..9 (and -1) on spectra of 0..9 values above the threshold, with entries AT the threshold constant, one ulp
above / below it, 0.0 and negative, in several orders.
"""
import math
import os

import framework

GEN_FILE_REL = "lean/QclibModel/Gen/SchmidtRank.lean"
SOURCE = "qclib/entanglement.py"


def generate(ctx, module, theorems):
    import py2lean
    import srctie
    py2lean.ensure_prelude(framework.LEAN)
    blk = py2lean.translate_block(
        os.path.join(framework.REPO, SOURCE), "low_rank_approximation", "low_rank_rank", "Qclib.Gen.SchmidtRank",
        result="rank", stop=r"^return\b", params=[("low_rank", "Int"), ("singular_values", "ListRat")],
        also=["_effective_rank"], types={"_effective_rank.singular_values": "ListRat"}, relpath=SOURCE)
    text = py2lean.write_module(os.path.join(framework.VERIF, GEN_FILE_REL), [blk],
                                [SOURCE + " :: _effective_rank, low_rank_approximation (the statements that compute rank)"])
    srctie.verify(ctx, module, theorems)
    return {"file": GEN_FILE_REL, "bytes": len(text),
            "translated": ["entanglement._effective_rank", "entanglement.low_rank_approximation (rank)"]}


def spectra():
    thr = 10 ** -7
    up, dn = math.nextafter(thr, 1.0), math.nextafter(thr, 0.0)
    out = []
    for eff in range(0, 10):
        base = [1.0 / (i + 1) for i in range(eff)]
        out.append(base)
        out.append(base + [thr, dn, 0.0])            # at / just below the threshold: not counted
        out.append([dn, 0.0] + base[::-1] + [-1.0])    # any order, a negative entry
        out.append(base + [up])                        # one ulp above: counted
    out.append([thr] * 3)
    out.append([up, 2e-7, 1e-6, 5e-8])
    return out


def tie(ctx):
    import numpy as np
    from qclib.entanglement import _effective_rank, low_rank_approximation

    def same(op, impl, model):
        return None if impl == model else f"impl={impl!r} generated={model!r}"
    for s in spectra():
        for lr in (-1, 0, 1, 2, 3, 4, 5, 7, 8, 9):
            arr = np.asarray(s, dtype=float)
            try:
                eff = int(_effective_rank(arr))
                lines = [f"eff {eff}"]
            except Exception as e:
                lines = [f"raised {type(e).__name__}"]
            try:
                r = low_rank_approximation(lr, np.zeros((1, max(len(s), 1))), np.zeros((max(len(s), 1), 1)), arr)[0]
                lines.append(f"rank {int(r)}")
            except ValueError:
                lines.append("reject")
            except Exception as e:
                lines.append(f"raised {type(e).__name__}")
            ratios = [float(x).as_integer_ratio() for x in s]
            ctx.tie({"op": "gen_rank", "lr": lr, "num": [a for a, _ in ratios], "den": [b for _, b in ratios]}, lines,
                    label=f"translated rank rule lr={lr} s={s[:4]}{'...' if len(s) > 4 else ''}", compare=same)
            ctx.count("gen-rank")
