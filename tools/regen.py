#!/usr/bin/env python3
"""regen.py: regenerate every source-derived Lean module (lean/QclibModel/Gen/*.lean) from /repo by
calling the `generate(ctx)` hook of each property harness.  Used after a run against a scratch copy
(QCLIB_REPO=...) so that the generated files on disk describe /repo again."""
import importlib
import os
import sys

VENV_PY = "/venv/bin/python"
if os.path.exists(VENV_PY) and os.path.realpath(sys.executable) != os.path.realpath(VENV_PY) \
        and not os.environ.get("QCLIB_VERIF_NOREEXEC"):
    os.environ["QCLIB_VERIF_NOREEXEC"] = "1"
    os.execv(VENV_PY, [VENV_PY] + sys.argv)
os.environ.pop("QCLIB_REPO", None)
sys.path.insert(0, os.path.dirname(os.path.abspath(__file__)))
import framework  # noqa: E402


def main():
    only = [a.upper() for a in sys.argv[1:]]
    for i in range(1, 21):
        pid = f"C{i:02d}"
        if only and pid not in only:
            continue
        mod = importlib.import_module("props." + pid.lower())
        if hasattr(mod, "generate"):
            ctx = framework.Ctx(pid, "quick", 1)
            try:
                mod.generate(ctx)
                print(pid, "regenerated", "" if not ctx.broken else f"(broken: {ctx.broken[0]['obligation']})")
            except Exception as e:
                print(pid, "generate failed:", str(e)[:200])


if __name__ == "__main__":
    main()
