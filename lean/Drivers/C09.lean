import QclibModel.Model.DriverLib
import QclibModel.Model.Schmidt
import QclibModel.Gen.SchmidtRank
open Lean Qclib Qclib.Drv Qclib.Schmidt

def natsLine (tag : String) (xs : List Nat) : String :=
  xs.foldl (fun acc x => acc ++ " " ++ toString x) tag

def runOp (j : Json) : List String :=
  match jStr j "op" with
  | "sep" =>
    let n := jNat j "n"
    let P := (jInts j "P").toList
    match sepAxes n P with
    | none => ["reject"]
    | some src =>
      let k := src.length
      let cols := 2 ^ k
      let rows := 2 ^ (n - k)
      [natsLine "sep" ((List.range (2 ^ n)).map (fun i =>
          let rc := sepIndexAx n src i; rc.1 * cols + rc.2)),
       natsLine "undo" ((List.range (rows * cols)).map (fun f => undoIndexAx n src (f / cols) (f % cols)))]
  | "rank" =>
    match rankRule (jInt j "lr") (jNat j "eff") with
    | none => ["reject"]
    | some r => ["rank " ++ toString r]
  | "ranks" =>
    let s := (jFloats j "s").toList
    let eff := effRank (1e-7 : Float) s
    match rankRule (jInt j "lr") eff with
    | none => ["eff " ++ toString eff, "reject"]
    | some r => ["eff " ++ toString eff, "rank " ++ toString r]
  | "gen_rank" =>
    -- double tie of the translation (Gen/SchmidtRank.lean): singular values as exact rationals num/den
    let nums := (jInts j "num").toList
    let dens := (jInts j "den").toList
    let s : List Rat := (nums.zip dens).map (fun nd => mkRat nd.1 nd.2.toNat)
    let eff := Qclib.Gen.SchmidtRank.effective_rank s
    ["eff " ++ toString eff,
     if eff == 0 then "reject" else "rank " ++ toString (Qclib.Gen.SchmidtRank.low_rank_rank (jInt j "lr") s)]
  | other => ["UNKNOWN-OP " ++ other]

def main : IO Unit := driverMain runOp
