import QclibModel.Model.DriverLib
import QclibModel.Model.Schmidt
open Lean Qclib Qclib.Drv Qclib.Schmidt

def natsLine (tag : String) (xs : List Nat) : String :=
  xs.foldl (fun acc x => acc ++ " " ++ toString x) tag

def runOp (j : Json) : List String :=
  match jStr j "op" with
  | "sep" =>
    let n := jNat j "n"
    let P := (jInts j "P").toList
    match sepAxes n P with
    | none => ["reject"]
    | some src =>
      let k := src.length
      let cols := 2 ^ k
      let rows := 2 ^ (n - k)
      [natsLine "sep" ((List.range (2 ^ n)).map (fun i =>
          let rc := sepIndexAx n src i; rc.1 * cols + rc.2)),
       natsLine "undo" ((List.range (rows * cols)).map (fun f => undoIndexAx n src (f / cols) (f % cols)))]
  | "rank" =>
    match rankRule (jInt j "lr") (jNat j "eff") with
    | none => ["reject"]
    | some r => ["rank " ++ toString r]
  | "ranks" =>
    let s := (jFloats j "s").toList
    let eff := effRank (1e-7 : Float) s
    match rankRule (jInt j "lr") eff with
    | none => ["eff " ++ toString eff, "reject"]
    | some r => ["eff " ++ toString eff, "rank " ++ toString r]
  | other => ["UNKNOWN-OP " ++ other]

def main : IO Unit := driverMain runOp
