import QclibModel.Model.DriverLib
import QclibModel.Model.Entangle
open Lean Qclib Qclib.Drv Qclib.Ent

/-- rational as `num/den` -/
def ratStr (q : Rat) : String := toString q.num ++ "/" ++ toString q.den

def gratVec (j : Json) : Array GRat :=
  let re := jInts j "re"
  let im := jInts j "im"
  let den : Rat := (jNat j "den" : Nat)
  (Array.range re.size).map fun i => ⟨(re.getD i 0 : Int) / den, (im.getD i 0 : Int) / den⟩

def cfVec (re im : Array Float) : Array CF :=
  (Array.range re.size).map fun i => ⟨re.getD i 0.0, im.getD i 0.0⟩

def floatOfNat (n : Nat) : Float := Float.ofNat n

def sliceLine (tag : String) (j : Nat) (p : Array GRat) : String :=
  tag ++ " " ++ toString j ++ " ;" ++ p.foldl (fun s x => s ++ " " ++ ratStr x.re ++ " " ++ ratStr x.im) ""

def tuckerOf (j : Json) : Tucker1 CF :=
  let c := jFloats j "core"
  let fs := jArr j "factors"
  { core := ⟨c.getD 0 0.0, c.getD 1 0.0⟩,
    factors := fs.toList.map fun f =>
      match f with
      | .arr xs =>
        let g := fun (i : Nat) => match xs.getD i (.num 0) with | .num n => n.toFloat | _ => 0.0
        (⟨g 0, g 1⟩, ⟨g 2, g 3⟩)
      | _ => (CF.zero, CF.zero) }

def runOp (j : Json) : List String :=
  match jStr j "op" with
  | "iota" =>
    -- every (qubit, selector, basis state) of an n-qubit register
    let n := jNat j "n"
    (List.range n).flatMap fun q => [0, 1].flatMap fun s => (List.range (2 ^ n)).map fun b =>
      match getIota q n s b with
      | some (d, r) => s!"{q} {s} {b} {if d then 1 else 0} {r}"
      | none => s!"{q} {s} {b} raise"
  | "iota1" =>
    match getIota (jNat j "q") (jNat j "n") (jNat j "s") (jNat j "b") with
    | some (d, r) => [s!"{if d then 1 else 0} {r}"]
    | none => ["raise"]
  | "toqubits" =>
    (jNats j "lens").toList.map fun l => s!"{l} {toQubits l}"
  | "mwq" =>
    let v := gratVec j
    let n := toQubits v.size
    let sl := (List.range n).flatMap fun q =>
      match slices GRat.zero q n v with
      | some (p0, p1) =>
        [sliceLine "s0" q p0, sliceLine "s1" q p1] ++
          (match gcp GRat.nsq GRat.zero p0 p1 with
           | some e => ["e " ++ toString q ++ " ; " ++ ratStr e]
           | none => ["e " ++ toString q ++ " raise"])
      | none => ["slices " ++ toString q ++ " raise"]
    let nrm := sumTo v.size fun i => (v.getD i GRat.zero).nsq
    match meyerWallach GRat.nsq (fun k => ((k : Nat) : Rat)) GRat.zero v with
    | some r => sl ++ ["norm2 ; " ++ ratStr nrm, "mw ; " ++ ratStr r]
    | none => ["raise"]
  | "mwf" =>
    let v := cfVec (jFloats j "re") (jFloats j "im")
    let n := toQubits v.size
    match meyerWallach CF.nsq floatOfNat CF.zero v with
    | some r =>
      ((List.range n).map fun q =>
        "e " ++ toString q ++ " ; " ++ fbits ((mwEntry CF.nsq CF.zero n v q).getD 0.0))
        ++ ["mw ; " ++ fbits r]
    | none => ["raise"]
  | "geo" =>
    let results := (jArr j "results").toList.map tuckerOf
    match geoPost CF.nsq CF.one (1.0 : Float) (fun a b => a ≤ b) Float.sqrt (fun r => (⟨r, 0.0⟩ : CF))
        results with
    | some (l, ps, fs) =>
      ["loss ; " ++ fbits l,
       "ps ;" ++ ps.foldl (fun s x => s ++ " " ++ fbits x.re ++ " " ++ fbits x.im) "",
       "factors ;" ++ fs.foldl (fun s f => s ++ " " ++ fbits f.1.re ++ " " ++ fbits f.1.im ++ " "
          ++ fbits f.2.re ++ " " ++ fbits f.2.im) ""]
    | none => ["raise"]
  | other => ["UNKNOWN-OP " ++ other]

def main : IO Unit := driverMain runOp
