import QclibModel.Model.DriverLib
import QclibModel.Model.BlackBox
open Lean Qclib Qclib.Drv Qclib.BlackBox

/-- IEEE double instance of the numeric operations (tie only). -/
def floatTrig : TrigOps Float where
  ofNat := Float.ofNat
  add := (· + ·)
  mul := (· * ·)
  div := (· / ·)
  neg := fun x => -x
  sqrt := Float.sqrt
  acos := Float.acos
  clip01 := fun x => if x < 0.0 then 0.0 else if x > 1.0 then 1.0 else x
  atan2 := Float.atan2
  pi := 3.141592653589793
  toNat := fun x => x.toUInt64.toNat

def wiresStr (n : Nat) : String := " ".intercalate ((List.range (n+1)).map toString)

def anglesStr (k : Nat) (a : Nat → Float) : String :=
  " ".intercalate ((List.range (2^k)).map (fun j => fbits (a j)))

def gLine : BG Float → String
  | .h q => s!"h {q} ;"
  | .ucry k a => s!"ucry {wiresStr k} ; {anglesStr k a}"
  | .ucrz k a => s!"ucrz {wiresStr k} ; {anglesStr k a}"
  | .ucryDg k a => s!"ucry_dg {wiresStr k} ; {anglesStr k a}"
  | .ucrzDg k a => s!"ucrz_dg {wiresStr k} ; {anglesStr k a}"
  | .it q => s!"I_t {q} ; -1.0 0.0 0.0 1.0"
  | .is n => s!"I_s {wiresStr n} ; {n} 0 -1.0 0.0 0.0 1.0"
  | .gphasePi => s!"gphase ; {fbits floatTrig.pi}"

def runOp (j : Json) : List String :=
  match jStr j "op" with
  | "bb" =>
    let n := jNat j "n"
    let re := jFloats j "re"
    let im := jFloats j "im"
    let ref := fun k => re.getD k 0.0
    let imf := fun k => im.getD k 0.0
    let r := reps floatTrig (2^n) ref imf
    [s!"reps {r} ;"] ++ (define floatTrig n ref imf).map gLine
  | "reps" =>
    let n := jNat j "n"
    [s!"reps {repsOfNorm floatTrig (2^n) (jFloat j "norm")} ;"]
  | other => ["UNKNOWN-OP " ++ other]

def main : IO Unit := driverMain runOp
