import QclibModel.Model.DriverLib
import QclibModel.Model.Unitary
import QclibModel.Model.FloatOps
open Lean Qclib Qclib.Drv Qclib.Uni

/-- nested float arrays -/
def jFloatss (j : Json) (k : String) : List (List Float) :=
  (jArr j k).toList.map (fun row => match row with
    | .arr xs => xs.toList.map (fun x => match x with | .num n => n.toFloat | _ => 0.0)
    | _ => [])

def jPairs (j : Json) (k : String) : List (Nat × Nat) :=
  (jArr j k).toList.map (fun row => match row with
    | .arr xs => (((xs.getD 0 Json.null).getNat?.toOption).getD 0, ((xs.getD 1 Json.null).getNat?.toOption).getD 0)
    | _ => (0, 0))

def floatUOps : UOps Float := ⟨floatOps, fun x => -x, 0.0⟩

private def wsS (l : List Nat) : String := " ".intercalate (l.map toString)
private def fsS (l : List Float) : String := " ".intercalate (l.map fbits)

def ugLine : UG Float → String
  | .g g => (g.mapParams FBits.mk).toLine
  | .unitary ws => s!"unitary {wsS ws} ;"
  | .ucrz a ws => s!"ucrz {wsS ws} ; {fsS a}"
  | .ucry a ws => s!"ucry {wsS ws} ; {fsS a}"
  | .ucg _ ws => s!"ucg {wsS ws} ;"

def decOf (s : String) : Dec := if s == "csd" then Dec.csd else if s == "qr" then Dec.qr else Dec.qsd

def runOp (j : Json) : List String :=
  match jStr j "op" with
  | "qr" =>
    match qrCircuit (jNat j "n") (jPairs j "pairs") with
    | some l => l.map QG.toLine
    | none => ["REJECT"]
  | "bits" =>
    let n := jNat j "n"
    let r := bitsLE n (jNat j "row")
    let c := bitsLE n (jNat j "col")
    [s!"bits {wsS (c.map (fun b => if b then 1 else 0))} {nDiff r c} {wsS (r.map (fun b => if b then 1 else 0))} ;"]
  | "build" =>
    let (l, rest) := buildUnitary floatUOps (decOf (jStr j "dec")) (jNat j "n") (jNat j "iso") (jFloatss j "tape")
    l.map ugLine ++ [s!"tape-left {rest.length} ;"]
  | "negright" =>
    (negRightHalf (fun x : Float => -x) (jNat j "h") (jFloatss j "rows")).map (fun r => s!"row ; {fsS r}")
  | "a2" => [s!"a2 {if a2Attempted (decOf (jStr j "dec")) (jBool j "a2") then 1 else 0} ;"]
  | other => ["UNKNOWN-OP " ++ other]

def main : IO Unit := driverMain runOp
