import QclibModel.Model.DriverLib
import QclibModel.Model.TopDown
import QclibModel.Model.FloatOps
import QclibModel.Model.Plesch
open Lean Qclib Qclib.Drv

/-- `Float` instance of the tree operations (driver only).  `x ** 2` is C `pow(x, 2.0)`,
`math.sqrt/asin` the libm functions Python calls as well. -/
def tdFloatOps : TOps Float where
  zero := 0.0
  one := 1.0
  two := 2.0
  pi := 3.141592653589793
  neg := fun x => -x
  add := (· + ·)
  sub := (· - ·)
  mul := (· * ·)
  div := (· / ·)
  sq := fun x => Float.pow x 2.0
  sqrt := Float.sqrt
  asin := Float.asin
  lt := fun a b => a < b
  neZero := fun x => x != 0.0
  aops := floatOps

/-- Leaves: the real state tree's `(mag, arg)` (outputs of the builtins `abs`, `cmath.phase`),
cross-checked here against `sqrt(re²+im²)` and `atan2(im, re)`. -/
def leafCheck (re im mag arg : Array Float) : List String :=
  (List.range mag.size).filterMap fun k =>
    let m := Float.sqrt (re.getD k 0.0 * re.getD k 0.0 + im.getD k 0.0 * im.getD k 0.0)
    let a := Float.atan2 (im.getD k 0.0) (re.getD k 0.0)
    if (m - mag.getD k 0.0).abs > 1e-12 || (a - arg.getD k 0.0).abs > 1e-12 then
      some s!"LEAF-MISMATCH {k}"
    else none

def wiresStr (l : List Nat) : String := " ".intercalate (l.map toString)
def floatsStr (l : List Float) : String := " ".intercalate (l.map fbits)

def dumpTopDown (t : TopDownOut Float) : List String :=
  (treeTable 0 0 t.stree).map (fun (l, i, v) => s!"st {l} {i} ; {fbits v.mag} {fbits v.arg}")
  ++ (allocTable 0 0 t.alloc.tree).map (fun (l, i, q) => s!"alloc {l} {i} {q} ;")
  ++ (treeTable 0 0 t.atree).map (fun (l, i, v) => s!"at {l} {i} ; {fbits v.y} {fbits v.z}")
  ++ (chainCalls tdFloatOps t.alloc.tree [] [t.alloc.tree]).map (fun c =>
        s!"mux{if c.ax == Axis.Y then "Y" else "Z"} {if c.last then 1 else 0} {wiresStr c.ws} ; {floatsStr c.angles}")
  ++ [s!"width {t.alloc.circWidth} ;"]
  ++ circLines t.circ

/-! ### low-rank / SVD assembly (Model/Plesch.lean, Model/Schmidt.lean)
  ops:  {"op":"lrplan","n":..,"P":[..] | "defpart":true,"lr":..,"eff":..,"iso":..,"uni":..}
        {"op":"svdplan","n":..}   {"op":"dispatch","rows":..,"cols":..,"iso":..,"uni":..} -/

namespace PleschDrv
open Qclib.Schmidt Qclib.Plesch

def natsStr (xs : List Nat) : String :=
  xs.foldl (fun acc x => acc ++ " " ++ toString x) ""

def encLine (reg : List Nat) (label : String) (rows cols : Nat) (iso uni : String) : String :=
  "enc" ++ natsStr reg ++ " ; " ++ label ++ " " ++ branchName (encodeBranch rows cols) iso uni ++
    " " ++ toString rows ++ " " ++ toString cols

/-- The assembled gate list with dummy matrices whose `(0,0)` entry names the block. -/
def pgLines (c : List (PG Nat)) : List String :=
  c.map fun
    | .cx c t => "outcx " ++ toString c ++ " " ++ toString t
    | .block reg m => "outblk" ++ natsStr reg ++ " ; " ++
        (match m 0 0 with | 0 => "sv" | 1 => "U" | _ => "V")

def lrPlanLines (j : Json) : List String :=
  let n := jNat j "n"
  if lowRankTop n then ["top ; topdown"] else
  let P := if jBool j "defpart" then defaultPartition n else (jNats j "P").toList
  let iso := jStr j "iso"
  let uni := jStr j "uni"
  match lowRankPlan n P (jInt j "lr") (jNat j "eff") iso uni with
  | none => ["reject"]
  | some p =>
    ["rega" ++ natsStr p.regA, "regb" ++ natsStr p.regB,
     "rank " ++ toString p.rank, "ebits " ++ toString p.ebits] ++
    (if p.ebits > 0 then [encLine p.regSv "sv" p.rank 1 iso uni] else []) ++
    p.cxs.map (fun ct => "cx " ++ toString ct.1 ++ " " ++ toString ct.2) ++
    [encLine p.regB "U" (2 ^ p.regB.length) p.rank iso uni,
     encLine p.regA "V" (2 ^ p.regA.length) p.rank iso uni] ++
    pgLines (lowRankCirc n p (fun _ _ => 0) (fun _ _ => 1) (fun _ _ => 2))

def svdPlanLines (j : Json) : List String :=
  let p := svdPlan (jNat j "n")
  ["rega" ++ natsStr p.regA, "regb" ++ natsStr p.regB,
   "sv" ++ natsStr p.regB ++ " ; " ++ (if p.nestedSvd then "svd" else "topdown") ++ " " ++
     toString p.lenD] ++
  p.cxs.map (fun ct => "cx " ++ toString ct.1 ++ " " ++ toString ct.2) ++
  ["U" ++ natsStr p.regB ++ " ; " ++ toString p.uSize ++ " " ++ toString p.uSize,
   "V" ++ natsStr p.regA ++ " ; " ++ toString p.vSize ++ " " ++ toString p.vSize] ++
  pgLines (svdCirc (jNat j "n") (fun _ _ => 0) (fun _ _ => 1) (fun _ _ => 2))

end PleschDrv

def runPleschOp (j : Json) : Option (List String) :=
  match jStr j "op" with
  | "lrplan" => some (PleschDrv.lrPlanLines j)
  | "svdplan" => some (PleschDrv.svdPlanLines j)
  | "dispatch" =>
    some ["branch ; " ++ Qclib.Plesch.branchName
      (Qclib.Plesch.encodeBranch (jNat j "rows") (jNat j "cols")) (jStr j "iso") (jStr j "uni")]
  | _ => none

def runOp (j : Json) : List String :=
  match jStr j "op" with
  | "topdown" =>
    let mag := jFloats j "mag"
    let arg := jFloats j "arg"
    let leaves : Nat → SV Float := fun k => ⟨mag.getD k 0.0, arg.getD k 0.0⟩
    let chk := leafCheck (jFloats j "re") (jFloats j "im") mag arg
    match topDownInit tdFloatOps (Nat.log2 mag.size) leaves (jBool j "gp") with
    | none => chk ++ ["REJECTED"]
    | some t => chk ++ dumpTopDown t
  | other => (runPleschOp j).getD ["UNKNOWN-OP " ++ other]

def main : IO Unit := driverMain runOp
