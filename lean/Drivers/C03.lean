import QclibModel.Model.DriverLib
import QclibModel.Model.Isometry
open Lean Qclib Qclib.Drv Qclib.Iso

structure CF where
  re : Float
  im : Float

instance : Mul CF := ⟨fun x y => ⟨x.re * y.re - x.im * y.im, x.re * y.im + x.im * y.re⟩⟩
instance : Neg CF := ⟨fun x => ⟨-x.re, -x.im⟩⟩
instance : Zero CF := ⟨⟨0.0, 0.0⟩⟩
instance : One CF := ⟨⟨1.0, 0.0⟩⟩
def CF.conj (x : CF) : CF := ⟨x.re, -x.im⟩

private def wsS (l : List Nat) : String := " ".intercalate (l.map toString)

def m2Line (m : Mat2 CF) : String :=
  "lemma2 ; " ++ " ".intercalate ([m.a.re, m.a.im, m.b.re, m.b.im, m.c.re, m.c.im, m.d.re, m.d.im].map fbits)

def runOp (j : Json) : List String :=
  match jStr j "op" with
  | "abk" =>
    (List.range (jNat j "kmax")).flatMap (fun k => (List.range (jNat j "imax")).map (fun i =>
      s!"abk {k} {i} {aFn k i} {bFn k i} {kS k i} ;"))
  | "ccd" => ccdLines (jNat j "n") (jNat j "m")
  | "lemma2" =>
    let a : CF := ⟨jFloat j "are", jFloat j "aim"⟩
    let b : CF := ⟨jFloat j "bre", jFloat j "bim"⟩
    let nrm := Float.sqrt (a.re * a.re + a.im * a.im + b.re * b.re + b.im * b.im)
    if nrm == 0.0 then [m2Line Mat2.one]
    else [m2Line (lemma2 CF.conj ⟨1.0 / nrm, 0.0⟩ a b (jNat j "basis"))]
  | "knill" =>
    let n := jNat j "n"
    let args := (jFloats j "args").toList
    (knillKept (fun x : Float => x.abs > 1e-7) args).flatMap (fun i =>
      (knillFactor n i).map (fun l => if l.startsWith "mcp" then l ++ " " ++ fbits (args.getD i 0.0) else l))
  | other => ["UNKNOWN-OP " ++ other]

def main : IO Unit := driverMain runOp
