import QclibModel.Model.DriverLib
import QclibModel.Model.FloatOps
import QclibModel.Model.Widths
import QclibModel.Gen.Widths
import QclibModel.Spec.Placement
open Lean Qclib Qclib.Drv Qclib.Widths

/-- One gate of the alphabet from `{"g": name, "w": [wires], "p": [params]}`. -/
def parseGate (e : Json) : Option (G Float) :=
  let w := jNats e "w"
  let p := jFloats e "p"
  let wi (i : Nat) : Nat := w.getD i 0
  let pi (i : Nat) : Float := p.getD i 0.0
  match jStr e "g" with
  | "x" => some (.x (wi 0))
  | "h" => some (.h (wi 0))
  | "cx" => some (.cx (wi 0) (wi 1))
  | "cz" => some (.cz (wi 0) (wi 1))
  | "ccx" => some (.ccx (wi 0) (wi 1) (wi 2))
  | "mcx" => some (.mcx (w.toList.take (w.size - 1)) (wi (w.size - 1)))
  | "ry" => some (.ry (pi 0) (wi 0))
  | "rz" => some (.rz (pi 0) (wi 0))
  | "p" => some (.p (pi 0) (wi 0))
  | "cp" => some (.cp (pi 0) (wi 0) (wi 1))
  | "u" => some (.u (pi 0) (pi 1) (pi 2) (wi 0))
  | "cu" => some (.cu (pi 0) (pi 1) (pi 2) (pi 3) (wi 0) (wi 1))
  | "swap" => some (.swap (wi 0) (wi 1))
  | "cswap" => some (.cswap (wi 0) (wi 1) (wi 2))
  | "gphase" => some (.gphase (pi 0))
  | _ => none

def parseCirc (j : Json) : Option (Circ Float) :=
  (jArr j "gates").toList.mapM parseGate

def runOp (j : Json) : List String :=
  match jStr j "op" with
  | "width" =>
    match Cls.ofString (jStr j "cls") with
    | none => ["UNKNOWN-CLASS " ++ jStr j "cls"]
    | some c =>
      let d : Params := {}
      let has (k : String) : Bool := (j.getObjVal? k).toOption.isSome
      let p : Params :=
        { len := if has "len" then jNat j "len" else d.len
          n := if has "n" then jNat j "n" else d.n
          m := if has "m" then jNat j "m" else d.m
          s := if has "s" then jNat j "s" else d.s
          aux := if has "aux" then jBool j "aux" else d.aux
          classical := if has "classical" then jBool j "classical" else d.classical
          k := if has "k" then jNat j "k" else d.k
          t := if has "t" then jNat j "t" else d.t }
      [s!"decl {declaredWidth c p}",
       match circuitWidth c p with
       | some w => s!"circ {w}"
       | none => "circ reject"]
  | "gen_width" =>
    -- double tie of the translation: width expressions generated from the current constructors
    let n : Int := Int.ofNat (jNat j "n")
    let m : Int := Int.ofNat (jNat j "m")
    let k : Int := Int.ofNat (jNat j "k")
    let t : Int := Int.ofNat (jNat j "t")
    let optNone := jBool j "opt_none"
    let o : Option Bool := if jBool j "has_opt" then some (jBool j "opt") else none
    let w : Int := match jStr j "cls" with
      | "cvoqram" => Qclib.Gen.Widths.cvoqram_width n optNone o
      | "fnPoints" => Qclib.Gen.Widths.fnpoints_width n
      | "pivot" => Qclib.Gen.Widths.pivot_width n m optNone o
      | "mcxVchainDirty" => Qclib.Gen.Widths.mcx_vchain_dirty_width k t
      | "linearMcx" => Qclib.Gen.Widths.linear_mcx_width k
      | "multiTargetMCSU2" => Qclib.Gen.Widths.multi_target_mcsu2_width k t
      | _ => -1
    [s!"decl {w}"]
  | "inv" =>
    match parseCirc j with
    | some c => circLines (Circ.inv c)
    | none => ["BAD-GATE"]
  | "place" =>
    match parseCirc j with
    | some c => circLines (place c (jNats j "ws").toList)
    | none => ["BAD-GATE"]
  | other => ["UNKNOWN-OP " ++ other]

def main : IO Unit := driverMain runOp
