import QclibModel.Model.DriverLib
import QclibModel.Model.QrLocate
open Lean Qclib Qclib.Drv Qclib.QrLoc

/-- `{"op":"locate","N":N,"codes":[[…],…]}` with `codes[i][j] ∈ {0,1,2}` (entry `== 0`, `== 1`,
anything else) → one line `row col` (what `_get_row_col` ends with) or `raises ValueError`. -/
def runOp (j : Json) : List String :=
  match jStr j "op" with
  | "locate" =>
    let rows : Array (Array Nat) := (jArr j "codes").map (fun r =>
      match r with
      | .arr xs => xs.map (fun x => (x.getNat?.toOption).getD 0)
      | _ => #[])
    let M : Nat → Nat → Code := fun i k => Code.ofCode ((rows.getD i #[]).getD k 0)
    match getRowColG (jNat j "N") M with
    | some p => [s!"{p.1} {p.2}"]
    | none => ["raises ValueError"]
  | other => ["UNKNOWN-OP " ++ other]

def main : IO Unit := driverMain runOp
