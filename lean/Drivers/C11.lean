import QclibModel.Model.DriverLib
import QclibModel.Model.Tree
import QclibModel.Model.FloatOps
import QclibModel.Gen.TreeWidth
open Lean Qclib Qclib.Drv

/-- `Float` instance of the tree operations (driver only).  `x ** 2` is C `pow(x, 2.0)`,
`math.sqrt/asin` the libm functions Python calls as well. -/
def treeFloatOps : TOps Float where
  zero := 0.0
  one := 1.0
  two := 2.0
  pi := 3.141592653589793
  neg := fun x => -x
  add := (· + ·)
  sub := (· - ·)
  mul := (· * ·)
  div := (· / ·)
  sq := fun x => Float.pow x 2.0
  sqrt := Float.sqrt
  asin := Float.asin
  lt := fun a b => a < b
  neZero := fun x => x != 0.0
  aops := floatOps

/-- Leaves: the real state tree's `(mag, arg)` (outputs of the builtins `abs`, `cmath.phase`),
cross-checked here against `sqrt(re²+im²)` and `atan2(im, re)`. -/
def leafCheck (re im mag arg : Array Float) : List String :=
  (List.range mag.size).filterMap fun k =>
    let m := Float.sqrt (re.getD k 0.0 * re.getD k 0.0 + im.getD k 0.0 * im.getD k 0.0)
    let a := Float.atan2 (im.getD k 0.0) (re.getD k 0.0)
    if (m - mag.getD k 0.0).abs > 1e-12 || (a - arg.getD k 0.0).abs > 1e-12 then
      some s!"LEAF-MISMATCH {k}"
    else none

def dump (sl : Nat) (r : Option (TreeOut Float)) : List String :=
  match r with
  | none => ["REJECTED"]
  | some t =>
    [s!"split {t.split} ;", s!"declared {t.declared} ;", s!"circwidth {t.alloc.circWidth} ;",
     s!"nqubits {t.alloc.nqubits} ;", s!"noutput {t.alloc.noutput} ;",
     s!"unused {t.alloc.rest.length} ;",
     s!"readsok {if readsOk sl 0 t.alloc.tree then 1 else 0} ;"]
    ++ (allocTable 0 0 t.alloc.tree).map (fun (l, i, q) => s!"alloc {l} {i} {q} ;")
    ++ circLines t.gates

/-- Double tie of the translation: the definitions generated from the current source of bdsp.py /
dcsp.py, run on (`len`, `opt_params is None`, `opt_params.get('split')`). -/
def genWidths (j : Json) : List String :=
  let len : Int := Int.ofNat (jNat j "len")
  let optSplit : Option Int := if jBool j "has_split" then some (Int.ofNat (jNat j "s")) else none
  let split := Qclib.Gen.TreeWidth.bdsp_split len (jBool j "opt_none") optSplit
  [s!"split {split} ;", s!"declared {Qclib.Gen.TreeWidth.bdsp_num_qubits split len} ;",
   s!"dcsp {Qclib.Gen.TreeWidth.dcsp_num_qubits len} ;"]

def runOp (j : Json) : List String :=
  if jStr j "op" == "gen_widths" then genWidths j else
  let mag := jFloats j "mag"
  let arg := jFloats j "arg"
  let leaves : Nat → SV Float := fun k => ⟨mag.getD k 0.0, arg.getD k 0.0⟩
  let chk := leafCheck (jFloats j "re") (jFloats j "im") mag arg
  let len := mag.size
  let n := Nat.log2 len
  match jStr j "op" with
  | "bdsp" =>
    let split : Option Nat := if jBool j "default" then none else some (jNat j "s")
    let s := split.getD (bdspDefaultSplit len)
    chk ++ dump (n - s) (bdsp treeFloatOps len leaves split)
  | "dcsp" => chk ++ dump n (dcsp treeFloatOps len leaves)
  | other => ["UNKNOWN-OP " ++ other]

def main : IO Unit := driverMain runOp
