import QclibModel.Model.DriverLib
import QclibModel.Model.Pqm
import QclibModel.Model.FloatOps
open Lean Qclib Qclib.Drv

def runOp (j : Json) : List String :=
  match jStr j "op" with
  | "pqm" =>
    let n := jNat j "n"
    let pattern := jNats j "pattern"
    let mem := jNats j "mem"
    let pat := jNats j "pat"
    circLines (pqm n (jBool j "classical") (fun k => pattern.getD k 0 == 1)
      (fun k => mem.getD k 0) (fun k => pat.getD k 0) (jNat j "aux")
      (jFloat j "theta_m") (jFloat j "theta_c"))
  | other => ["UNKNOWN-OP " ++ other]

def main : IO Unit := driverMain runOp
