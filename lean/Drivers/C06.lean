import QclibModel.Model.DriverLib
import QclibModel.Model.SparseMerge
import QclibModel.Model.SparsePivot
import QclibModel.Model.SparseCvo
/-
  C06 driver: runs the executable models of merge / pivot / cvoqram (instantiated at `Float`) on
  the dictionaries the harness sends and prints the same canonical dump the harness produces from
  the real code (tools/props/c06_trace.py).
-/
open Lean Qclib Qclib.Drv Qclib.Sparse

def keyStr (s : Str) : String := "1" ++ String.join (s.map (fun b => if b then "1" else "0"))
def parseKey (s : String) : Str := s.toList.map (· == '1')
def wsStr (l : List Nat) : String := " ".intercalate (l.map toString)
def fl (xs : List Float) : String := " ".intercalate (xs.map fbits)

def ampStr (a : Amp Float) : String := if a.cplx then fl [a.re, a.im] else fl [a.re]

/-- `UGate(θ,φ,λ).to_matrix()` row-major, (re, im) per entry -/
def uMat (θ φ l : Float) : List Float :=
  let c := Float.cos (θ / 2)
  let s := Float.sin (θ / 2)
  [c, 0.0, -(Float.cos l) * s, -(Float.sin l) * s,
   Float.cos φ * s, Float.sin φ * s, Float.cos (φ + l) * c, Float.sin (φ + l) * c]

def gateLine : SG Float → String
  | .x q => s!"x {q} ;"
  | .cx c t cv => (if cv then "cx" else "cx[0]") ++ s!" {c} {t} ;"
  | .rccx a b t => s!"rccx {a} {b} {t} ;"
  | .u θ φ l q => s!"u2 {q} ; " ++ fl (uMat θ φ l)
  | .cu θ φ l c t => s!"cu {c} {t} ; " ++ fl [θ, φ, l, 0.0]
  | .mcu be cs θ φ l t => s!"mcu:{be} {wsStr (cs ++ [t])} ; " ++ fl (uMat θ φ l)
  | .mcuX be cs t => s!"mcu:{be} {wsStr (cs ++ [t])} ; " ++ fl [0, 0, 1, 0, 1, 0, 0, 0]
  | .mcxd cs t d => s!"mcxd {wsStr (cs ++ [t] ++ d)} ; {cs.length}"
  | .dense ws v => s!"lowrank {wsStr ws} ; " ++ fl (v.flatMap (fun a => [a.re, a.im]))

def dictLines (tag : String) (d : Dict Float) : List String :=
  d.map (fun kv => s!"{tag} {keyStr kv.1} ; " ++ ampStr kv.2)

def mevLines : MEv Float → List String
  | .sel b1 b2 dif dq => [s!"sel {keyStr b1} {keyStr b2} {dif} {wsStr dq} ;"]
  | .updX q d => s!"upd:x {q} ;" :: dictLines "d" d
  | .updCx c t d => s!"upd:cx {c} {t} ;" :: dictLines "d" d
  | .updMerge b1 b2 d => s!"upd:merge {keyStr b1} {keyStr b2} ;" :: dictLines "d" d
  | .ang θ φ l => ["ang ; " ++ fl [θ, φ, l]]

def numOf (x : Option Json) : Float :=
  match x with
  | some (Json.num n) => n.toFloat
  | _ => 0.0

def readDict (j : Json) : Dict Float :=
  let keys := (jStrs j "keys").toList
  let amps := (jArr j "amps").toList
  keys.zip amps |>.map (fun (k, a) =>
    match a with
    | Json.arr xs => (parseKey k, (⟨numOf xs[0]?, numOf xs[1]?, true⟩ : Amp Float))
    | _ => (parseKey k, ⟨0.0, 0.0, true⟩))

def runOp (j : Json) : List String :=
  let d := readDict j
  let n := jNat j "n"
  match jStr j "op" with
  | "merge" =>
    match mergeInit d with
    | none => ["REJECT"]
    | some (g, e) => e.flatMap mevLines ++ ["gates ;"] ++ g.map gateLine
  | "pivot" =>
    match pivotInit n (jBool j "aux") d with
    | none => ["REJECT"]
    | some o =>
      o.steps.flatMap (fun s =>
        s!"step {keyStr s.nz} {keyStr s.zero} {s.differ} {if s.cv then 1 else 0} ;" :: dictLines "s" s.st)
      ++ ["gates ;"] ++ o.gates.map gateLine
  | "cvo" =>
    let r := cvoInit n (jBool j "aux") (jStr j "method") d
    r.2.map (fun l => "load ; " ++ fl [l.norm, l.θ, l.φ, l.lam]) ++ ["gates ;"] ++ r.1.map gateLine
  | "opx" => [keyStr (computeOpX (parseKey (jStr j "s")) (jNat j "i"))]
  | "opcx" => [keyStr (computeOpCx (parseKey (jStr j "s")) (jNat j "c") (jNat j "t"))]
  | other => ["UNKNOWN-OP " ++ other]

def main : IO Unit := driverMain runOp
