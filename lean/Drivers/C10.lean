import QclibModel.Model.DriverLib
import QclibModel.Model.CnotShape
open Lean Qclib Qclib.Drv Qclib.Cnot Qclib.Gen.CnotCount

def decOf (s : String) : Dec := if s == "csd" then Dec.csd else Dec.qsd
def isoOf (s : String) : IsoScheme := if s == "csd" then IsoScheme.csd else IsoScheme.ccd

def primOf (j : Json) : Prim :=
  let k := jNat j "k"
  match jStr j "prim" with
  | "u1" => Prim.u1
  | "u2" => Prim.u2 false
  | "qsd2q" => Prim.u2 true
  | "ucrz" => Prim.ucrz k
  | "ucry" => Prim.ucry k
  | "ucrCZ" => Prim.ucrCZ k
  | "ucg" => Prim.ucg k
  | "ucgd" => Prim.ucgd k
  | "diag" => Prim.diag k
  | _ => Prim.cx k

/-- the GENERATED functions, by Python name (second tie of the translator) -/
def runGen (j : Json) : List String :=
  let a := jInts j "args"
  let i (k : Nat) : Int := a.getD k 0
  match jStr j "fn" with
  | "unitary._cnot_count_estimate" =>
      [toString (unitary.cnot_count_estimate (i 0) (jStr j "dec") (i 1) (jBool j "a2"))]
  | "unitary._cnot_count_iso" => [toString (unitary.cnot_count_iso (i 0) (i 1) (jBool j "a2"))]
  | "unitary._cnot_count_iso_qsd" => [toString (unitary.cnot_count_iso_qsd (i 0) (jBool j "a2"))]
  | "isometry._a" => [toString (isometry.a (i 0) (i 1))]
  | "isometry._b" => [toString (isometry.b (i 0) (i 1))]
  | "isometry._k_s" => [toString (isometry.k_s (i 0) (i 1))]
  | "isometry._cnot_count_estimate_ccd" => [toString (isometry.cnot_count_estimate_ccd (i 0) (i 1))]
  | "lowrank._default_partition" => ["[" ++ " ".intercalate ((lowrank.default_partition (i 0)).map toString) ++ "]"]
  | "entanglement._to_qubits" => [toString (entanglement.to_qubits (i 0))]
  | other => ["UNKNOWN-FN " ++ other]

def runOp (j : Json) : List String :=
  match jStr j "op" with
  | "gen" => runGen j
  | "cost" => [toString (primOf j).cost]
  | "a2" =>   -- a list of `vis` visible blocks and `inl` inline ones
      let l := List.replicate (jNat j "vis") (Prim.u2 true) ++ List.replicate (jNat j "inl") (Prim.u2 false)
      [toString (cnotsOf true l)]
  | "shape" => tokens (buildUnitary (decOf (jStr j "dec")) (jNat j "n") (jNat j "iso"))
  | "ccdshape" => tokens (ccdShape (jNat j "n") (jNat j "m"))
  | "unitary" =>
      [toString (unitaryCnots (decOf (jStr j "dec")) (jNat j "n") (jNat j "iso") (jBool j "a2"))]
  | "isometry" =>
      [toString (isoComp (isoOf (jStr j "scheme")) (jNat j "n") (jNat j "m")).cnots]
  | "lowrank" =>
      let n := jNat j "n"
      let iso := isoOf (jStr j "iso")
      let uni := decOf (jStr j "uni")
      let cs := lrComps iso uni (n + 1) n (jNat j "p") (jNat j "e")
      [s!"est {lrEst iso uni (n + 1) n (jNat j "p") (jNat j "e")}", s!"struct {compsCnots cs}"]
        ++ (cs.filter (fun c => c.tag != "cx")).map (fun c => s!"leaf {c.tag} {c.cnots}")
  | other => ["UNKNOWN-OP " ++ other]

def main : IO Unit := driverMain runOp
