import QclibModel.Model.DriverLib
import QclibModel.Model.FnPoints
import QclibModel.Model.FloatOps
import QclibModel.Gen.FnNPrime
open Lean Qclib Qclib.Drv

/-- key string → bit function (`z j` = character `j`). -/
def keyBits (k : String) : Nat → Bool :=
  let cs := k.toList
  fun j => cs.getD j '0' == '1'

def runOp (j : Json) : List String :=
  match jStr j "op" with
  | "fnpoints" =>
    let n := jNat j "n"
    let keys := (jStrs j "keys").toList
    let ss := (jInts j "s").toList
    let pts := (keys.zip ss).map (fun ks => ({ z := keyBits ks.1, s := ks.2 } : FnPoint))
    let N : Option Int := if jBool j "hasN" then some (jInt j "N") else none
    match fnPointsCode fnFloatAngles n pts N with
    | .error e => ["error_" ++ e ++ " ;"]
    | .ok c => ("nprime " ++ toString (fnNPrime N ss) ++ " ;") :: circLines c
  | "gen_nprime" =>
    -- double tie of the translation: the N' rule generated from the current source of fnpoints.py
    let N : Option Int := if jBool j "hasN" then some (jInt j "N") else none
    ["nprime " ++ toString (Qclib.Gen.FnNPrime.fn_n_prime (jInt j "max") (jBool j "opt_none") N) ++ " ;"]
  | other => ["UNKNOWN-OP " ++ other]

def main : IO Unit := driverMain runOp
