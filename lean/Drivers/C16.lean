import QclibModel.Model.DriverLib
import QclibModel.Model.Validate
import QclibModel.Gen.Validate
open Lean Qclib Qclib.Drv Qclib.Validate

/-- IEEE doubles: the tie runs the model on exactly the numbers the real constructor received. -/
def floatNOps : NOps Float where
  ofNat n := n.toFloat
  ofDec d := Float.ofScientific d.m true d.e
  add := (· + ·)
  sub := (· - ·)
  mul := (· * ·)
  abs := Float.abs
  le a b := a <= b
  eq a b := a == b
  isInf := Float.isInf

/-- entries are sent as IEEE bit patterns (JSON has no NaN / inf), row-major -/
def arrOf (j : Json) : Arr Float :=
  let re := (jNats j "re").map (fun b => Float.ofBits b.toUInt64)
  let im := (jNats j "im").map (fun b => Float.ofBits b.toUInt64)
  let ndim := jNat j "ndim"
  let rows := jNat j "rows"
  let cols := jNat j "cols"
  { ndim := ndim, rows := rows, cols := cols,
    ent := fun i k => ⟨re.getD (i * cols + k) 0.0, im.getD (i * cols + k) 0.0⟩ }

def showDecision : Except String Unit → String
  | .ok () => "accept"
  | .error e => "reject " ++ e

def runOp (j : Json) : List String :=
  match jStr j "op" with
  | "entry" =>
    -- decision of an entry point = its row of the generated table, interpreted
    match Gen.entryTable.find? (fun e => e.name == jStr j "name") with
    | none => ["NO-SUCH-ENTRY " ++ jStr j "name"]
    | some e => [showDecision (entryDecide floatNOps Gen.validators (arrOf j) e.evs)]
  | "steps" =>
    -- a validator called directly
    [showDecision (run floatNOps (arrOf j) (Gen.validators.steps (jStr j "v")))]
  | "pred" =>
    match evalCond floatNOps (arrOf j) (Gen.validators.preds (jStr j "p")) with
    | .ok b => [toString b]
    | .error e => ["raise " ++ e]
  | "table" =>
    Gen.entryTable.map (fun e => e.name ++ " guarded=" ++ toString e.guarded)
  | other => ["UNKNOWN-OP " ++ other]

def main : IO Unit := driverMain runOp
