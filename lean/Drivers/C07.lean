import QclibModel.Model.DriverLib
import QclibModel.Model.Schmidt
open Lean Qclib Qclib.Drv Qclib.Schmidt

def natsStr (xs : List Nat) : String :=
  xs.foldl (fun acc x => acc ++ " " ++ toString x) ""

def runOp (j : Json) : List String :=
  match jStr j "op" with
  | "plan" =>
    let n := jNat j "n"
    let P := (jNats j "P").toList
    let s := (jFloats j "s").toList
    let eff := effRank (1e-7 : Float) s
    match lowRankPlan n P (jInt j "lr") eff (jStr j "iso") (jStr j "uni") with
    | none => ["eff " ++ toString eff, "reject"]
    | some p =>
      ["eff " ++ toString eff,
       "rank " ++ toString p.rank,
       "ebits " ++ toString p.ebits,
       "rega" ++ natsStr p.regA,
       "regb" ++ natsStr p.regB] ++
      (match p.encSv with
       | some k => ["enc" ++ natsStr p.regSv ++ " ; sv " ++ k ++ " " ++ toString p.rank ++ " 1"]
       | none => []) ++
      p.cxs.map (fun bt => "cx " ++ toString bt.1 ++ " " ++ toString bt.2) ++
      ["enc" ++ natsStr p.regB ++ " ; U " ++ p.encU ++ " " ++ toString (2 ^ p.regB.length) ++ " " ++ toString p.rank,
       "enc" ++ natsStr p.regA ++ " ; V " ++ p.encV ++ " " ++ toString (2 ^ p.regA.length) ++ " " ++ toString p.rank]
  | "rank" =>
    match rankRule (jInt j "lr") (jNat j "eff") with
    | none => ["reject"]
    | some r => ["rank " ++ toString r, "ebits " ++ toString (toQubits r)]
  | other => ["UNKNOWN-OP " ++ other]

def main : IO Unit := driverMain runOp
