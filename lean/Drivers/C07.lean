import QclibModel.Model.DriverLib
import QclibModel.Model.Schmidt
import QclibModel.Gen.SchmidtRank
open Lean Qclib Qclib.Drv Qclib.Schmidt

def natsStr (xs : List Nat) : String :=
  xs.foldl (fun acc x => acc ++ " " ++ toString x) ""

def runOp (j : Json) : List String :=
  match jStr j "op" with
  | "plan" =>
    let n := jNat j "n"
    let P := (jNats j "P").toList
    let s := (jFloats j "s").toList
    let eff := effRank (1e-7 : Float) s
    match lowRankPlan n P (jInt j "lr") eff (jStr j "iso") (jStr j "uni") with
    | none => ["eff " ++ toString eff, "reject"]
    | some p =>
      ["eff " ++ toString eff,
       "rank " ++ toString p.rank,
       "ebits " ++ toString p.ebits,
       "rega" ++ natsStr p.regA,
       "regb" ++ natsStr p.regB] ++
      (match p.encSv with
       | some k => ["enc" ++ natsStr p.regSv ++ " ; sv " ++ k ++ " " ++ toString p.rank ++ " 1"]
       | none => []) ++
      p.cxs.map (fun bt => "cx " ++ toString bt.1 ++ " " ++ toString bt.2) ++
      ["enc" ++ natsStr p.regB ++ " ; U " ++ p.encU ++ " " ++ toString (2 ^ p.regB.length) ++ " " ++ toString p.rank,
       "enc" ++ natsStr p.regA ++ " ; V " ++ p.encV ++ " " ++ toString (2 ^ p.regA.length) ++ " " ++ toString p.rank]
  | "rank" =>
    match rankRule (jInt j "lr") (jNat j "eff") with
    | none => ["reject"]
    | some r => ["rank " ++ toString r, "ebits " ++ toString (toQubits r)]
  | "gen_rank" =>
    -- double tie of the translation (Gen/SchmidtRank.lean): singular values as exact rationals num/den
    let nums := (jInts j "num").toList
    let dens := (jInts j "den").toList
    let s : List Rat := (nums.zip dens).map (fun nd => mkRat nd.1 nd.2.toNat)
    let eff := Qclib.Gen.SchmidtRank.effective_rank s
    ["eff " ++ toString eff,
     if eff == 0 then "reject" else "rank " ++ toString (Qclib.Gen.SchmidtRank.low_rank_rank (jInt j "lr") s)]
  | other => ["UNKNOWN-OP " ++ other]

def main : IO Unit := driverMain runOp
