import QclibModel.Model.DriverLib
import QclibModel.Model.Mcx
import QclibModel.Model.FloatOps
open Lean Qclib Qclib.Drv

/-- `theta = pi / 4.`, `-theta`, `0.` as the Python code computes them. -/
def floatAngles : McxAngles Float := ⟨0.7853981633974483, -0.7853981633974483, 0.0⟩

def jCs (j : Json) : Option (List Bool) :=
  match j.getObjVal? "cs" with
  | .ok (.str s) => some (parseCs s)
  | _ => none

def out (r : Option (Circ Float)) : List String :=
  match r with
  | some c => circLines c
  | none => ["REJECT"]

def runOp (j : Json) : List String :=
  match jStr j "op" with
  | "vchain" =>
    out (vchain floatAngles (jNat j "k") (jNat j "t") (jCs j) (jBool j "rp") (jBool j "ao"))
  | "linear" => out (linearMcx floatAngles (jNat j "k") (jCs j) (jBool j "ao"))
  | "toffoli" =>
    let cancel := match jStr j "cancel" with
      | "left" => Cancel.left | "right" => Cancel.right | _ => Cancel.none
    circLines (toffoli floatAngles cancel 0 1 2)
  | "tmt" =>
    let side := match jStr j "side" with
      | "l" => Side.l | "r" => Side.r | _ => Side.both
    circLines (toffoliMultiTarget (jNat j "n") side)
  | other => ["UNKNOWN-OP " ++ other]

def main : IO Unit := driverMain runOp
