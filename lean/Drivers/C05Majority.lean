import QclibModel.Model.DriverLib
import QclibModel.Model.Majority
import QclibModel.Gen.Majority
open Lean Qclib Qclib.Drv

def runOp (j : Json) : List String :=
  match jStr j "op" with
  | "majority_sizes" =>
    -- one line per n in [lo, hi]: "n : k1 k2 ..."
    (List.range' (jNat j "lo") (jNat j "hi" + 1 - jNat j "lo")).map fun n =>
      s!"{n} : " ++ " ".intercalate ((majSizes n).map toString)
  | "gen_sizes" =>
    -- the definition translated from the current source, same line format, preceded by n_min
    (List.range' (jNat j "lo") (jNat j "hi" + 1 - jNat j "lo")).map fun n =>
      let r := Qclib.Gen.Majority.operate_sizes (Int.ofNat n)
      s!"{n} : min {r.1} : " ++ " ".intercalate (r.2.map toString)
  | "majority" =>
    let controls := (jNats j "controls").toList
    ((majority controls (jNat j "target") : Circ Nat)).map fun g =>
      match g with
      | .mcx cs t => "mcx " ++ " ".intercalate ((cs ++ [t]).map toString) ++ " ;"
      | _ => "?"
  | other => ["UNKNOWN-OP " ++ other]

def main : IO Unit := driverMain runOp
