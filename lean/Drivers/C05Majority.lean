import QclibModel.Model.DriverLib
import QclibModel.Model.Majority
open Lean Qclib Qclib.Drv

def runOp (j : Json) : List String :=
  match jStr j "op" with
  | "majority_sizes" =>
    -- one line per n in [lo, hi]: "n : k1 k2 ..."
    (List.range' (jNat j "lo") (jNat j "hi" + 1 - jNat j "lo")).map fun n =>
      s!"{n} : " ++ " ".intercalate ((majSizes n).map toString)
  | "majority" =>
    let controls := (jNats j "controls").toList
    ((majority controls (jNat j "target") : Circ Nat)).map fun g =>
      match g with
      | .mcx cs t => "mcx " ++ " ".intercalate ((cs ++ [t]).map toString) ++ " ;"
      | _ => "?"
  | other => ["UNKNOWN-OP " ++ other]

def main : IO Unit := driverMain runOp
