import QclibModel.Model.DriverLib
import QclibModel.Model.Mixed
import QclibModel.Gen.MixedWidth
open Lean Qclib Qclib.Drv Qclib.Mixed

/-- IEEE doubles: the instance the tie runs the validation model on (NaN/inf semantics are the
hardware's, the same as CPython's). -/
def floatVOps : VOps Float where
  ofNat n := n.toFloat
  add := (· + ·)
  sub := (· - ·)
  mul := (· * ·)
  inv k := 1.0 / k.toFloat
  abs := Float.abs
  lt a b := decide (a < b)
  le a b := decide (a ≤ b)
  eq a b := a == b
  isInf := Float.isInf
  relTol := 1e-9
  absTol := 0.0

structure CF where
  re : Float
  im : Float

def cfOps : POps CF where
  zero := ⟨0.0, 0.0⟩
  one := ⟨1.0, 0.0⟩
  add x y := ⟨x.re + y.re, x.im + y.im⟩
  mul x y := ⟨x.re * y.re - x.im * y.im, x.re * y.im + x.im * y.re⟩
  sqrt x := ⟨Float.sqrt x.re, 0.0⟩

def bitsToFloats (a : Array Nat) : List Float := a.toList.map (fun n => Float.ofBits (UInt64.ofNat n))

def ws (l : List Nat) : String := " ".intercalate (l.map toString)

/-- states: array of arrays `[re0, im0, re1, im1, …]` -/
def stateFn (j : Json) : Nat → Nat → CF :=
  let sts : Array (Array Float) := (jArr j "states").map (fun s =>
    match s with
    | .arr xs => xs.map (fun x => match x with | .num n => n.toFloat | _ => 0.0)
    | _ => #[])
  fun i x => let s := sts.getD i #[]; ⟨s.getD (2 * x) 0.0, s.getD (2 * x + 1) 0.0⟩

def runOp (j : Json) : List String :=
  match jStr j "op" with
  | "decide" =>
    let probs : Option (List Float) :=
      if jBool j "none" then none else some (bitsToFloats (jNats j "probs"))
    match initDecision floatVOps (jBool j "initOk") (jNats j "dims").toList probs with
    | .error e => ["raise " ++ e.name]
    | .ok acc => [s!"accept {acc.numQubits} {acc.numCtrl} {acc.numData} ;"
                    ++ " ".intercalate (acc.probs.map (fun p => " " ++ fbits p))]
  | "gen_width" =>
    -- double tie of the translation: the definitions generated from the current source
    (jNats j "ks").toList.map (fun k =>
      s!"nq {k} {Qclib.Gen.MixedWidth.mixed_num_qubits (Int.ofNat (jNat j "dim")) (Int.ofNat k)} {Qclib.Gen.MixedWidth.mixed_num_ctrl (Int.ofNat k)} ;")
  | "width" => (jNats j "ks").toList.map (fun k => s!"nq {k} {numQubits (jNat j "dim") k} {clog2 k} ;")
  | "wrap" =>
    let k := jNat j "k"; let n := jNat j "n"; let a := clog2 k
    [s!"wrap {a} {n} {ws (List.range (a + n))} ;", s!"reset {ws (resetWires (jBool j "reset") a)} ;"]
  | "purif" =>
    let k := jNat j "k"; let n := jNat j "n"; let a := clog2 k
    let ps := jFloats j "probs"
    let p : Nat → CF := fun i => ⟨ps.getD i 0.0, 0.0⟩
    let w := purification cfOps a k ps.size (stateFn j) p
    (List.range (2 ^ (n + a))).map (fun idx => let z := w idx; s!"w {idx} ; {fbits z.re} {fbits z.im}")
  | "incirc" =>
    let k := jNat j "k"; let n := jNat j "n"; let a := clog2 k
    let ps := jFloats j "probs"
    let p : Nat → CF := fun i => ⟨ps.getD i 0.0, 0.0⟩
    let aux := auxState cfOps ps.size p
    [s!"aux {ws (List.range a)} ;" ++ " ".intercalate ((List.range (auxLen a ps.size)).map
        (fun i => " " ++ fbits (aux i).re ++ " " ++ fbits (aux i).im))]
    ++ (inCircuitSteps a n k).map (fun st =>
        s!"cstep {st.index} {ws (st.lits.map (·.1))} {ws (st.lits.map (fun l => l.2.toNat))} {ws st.targets} ;"
          ++ " ".intercalate ((List.range (2 ^ n)).map (fun x =>
            let z := stateFn j st.index x; " " ++ fbits z.re ++ " " ++ fbits z.im)))
    ++ [s!"wrap {a} {n} {ws (List.range (a + n))} ;", s!"reset {ws (resetWires (jBool j "reset") a)} ;"]
  | other => ["UNKNOWN-OP " ++ other]

def main : IO Unit := driverMain runOp
