import QclibModel.Model.DriverLib
import QclibModel.Model.Ucr
import QclibModel.Model.FloatOps
open Lean Qclib Qclib.Drv

def runOp (j : Json) : List String :=
  match jStr j "op" with
  | "ucr" =>
    let ax := if jStr j "axis" == "Z" then Axis.Z else Axis.Y
    let e := if jStr j "ent" == "CZ" then Ent.CZ else Ent.CX
    let angles := jFloats j "angles"
    circLines (ucr floatOps ax e (jNat j "k") (fun i => angles.getD i 0.0) (jBool j "last"))
  | other => ["UNKNOWN-OP " ++ other]

def main : IO Unit := driverMain runOp
