import QclibModel.Model.DriverLib
import QclibModel.Model.Ucg
open Lean Qclib Qclib.Drv Qclib.Ucg

/-- complex IEEE doubles: the instance the tie runs the model on. -/
structure CF where
  re : Float
  im : Float

def cfOps : COps CF where
  zero := ⟨0.0, 0.0⟩
  one := ⟨1.0, 0.0⟩
  add x y := ⟨x.re + y.re, x.im + y.im⟩
  mul x y := ⟨x.re * y.re - x.im * y.im, x.re * y.im + x.im * y.re⟩
  neg x := ⟨-x.re, -x.im⟩
  conj x := ⟨x.re, -x.im⟩
  div x y :=
    let d := y.re * y.re + y.im * y.im
    ⟨(x.re * y.re + x.im * y.im) / d, (x.im * y.re - x.re * y.im) / d⟩
  nrm x y := ⟨Float.sqrt (x.re * x.re + x.im * x.im + y.re * y.re + y.im * y.im), 0.0⟩
  isZero x := x.re == 0.0 && x.im == 0.0

def cabs (x : CF) : Float := Float.sqrt (x.re * x.re + x.im * x.im)

/-- `np.allclose(a, b)` on 2×2 matrices: `|a - b| <= atol + rtol * |b|` entrywise
(`rtol = 1e-5`, `atol = 1e-8`). -/
def closeC (x y : CF) : Bool := cabs ⟨x.re - y.re, x.im - y.im⟩ <= 1e-8 + 1e-5 * cabs y
def allclose (m k : Mat2 CF) : Bool := closeC m.a k.a && closeC m.b k.b && closeC m.c k.c && closeC m.d k.d

def ofBits (n : Nat) : Float := Float.ofBits (UInt64.ofNat n)
def cvec (re im : Array Nat) : Nat → CF := fun i => ⟨ofBits (re.getD i 0), ofBits (im.getD i 0)⟩
def ws (l : List Nat) : String := " ".intercalate (l.map toString)
def cstr (x : CF) : String := fbits x.re ++ " " ++ fbits x.im
def mstr (m : Mat2 CF) : String := " ".intercalate [cstr m.a, cstr m.b, cstr m.c, cstr m.d]

/-- tabulate a function on `0..len-1` (so that later levels do not recompute earlier ones). -/
def tabA {β} (len : Nat) (f : Nat → β) : Array β := Array.ofFn (n := len) (fun i => f i.val)
def look {β} [Inhabited β] (a : Array β) (i : Nat) : β := a.getD i default

instance : Inhabited CF := ⟨⟨0.0, 0.0⟩⟩
instance : Inhabited (Mat2 CF) := ⟨⟨default, default, default, default⟩⟩
instance : Inhabited Kind := ⟨.identity⟩

/-- One level of `_define_initialize`; returns the printed lines and the next children. -/
def runLevel (ucge preserve : Bool) (n t level : Nat) (children : Nat → CF) (diag : Nat → CF) :
    List String × (Nat → CF) :=
  let p0 := levelPlan cfOps ucge allclose n t level children
  let muxA := tabA p0.muxLen p0.mux
  let mux := look muxA
  let p : LevelPlan CF := { p0 with mux := mux }
  let q := p.target
  let r := rGateAt t q
  let parentA := tabA p.muxLen (updateParent cfOps children)
  let parent := look parentA
  let head := [s!"lvl {level} {q} {p.bit.toNat} {ws p.oldControls} ;"]
  let ops := (List.range p.muxLen).map (fun k => s!"op {level} {k} ; {(p.kinds k).name} {mstr (mux k)}")
  let pars := (List.range p.muxLen).map (fun k => s!"par {level} {k} ; {cstr (parent k)}")
  let simp := if ucge then
      [s!"dc {level} {ws p.dontCarry} ;", s!"kept {level} {ws p.kept} ;", s!"mc {level} {ws p.controls} ;"]
    else []
  let nm := newMux cfOps mux p.kept
  let nlen := p.kept.length
  let pres := if preserve then
      let cs := ctrlState n t q r p.controls.length
      let wires := outGateCtrl n q
      let ok := match ctrlLits wires cs with | some _ => "ok" | none => "raise"
      [s!"pres {level} {r} {q} {ws wires} ; s{bitStr cs} {ok} {mstr (nm r)}"]
    else []
  let um := if preserve then replaceEntry cfOps nm r else nm
  let ucg := (List.range nlen).map (fun k => s!"ucgmux {level} {k} ; {mstr (um k)}")
  let nxtA := tabA p.muxLen (nextChildren cfOps ucge n p children diag)
  let nxt := look nxtA
  let chs := (List.range p.muxLen).map (fun k => s!"ch {level} {k} ; {cstr (nxt k)}")
  (head ++ pars ++ ops ++ simp ++ pres ++ ucg ++ chs, nxt)

def runAll (ucge preserve : Bool) (n t : Nat) (v : Nat → CF) (diags : Array (Nat → CF)) : List String :=
  let rec go (fuel level : Nat) (children : Nat → CF) (acc : List String) : List String :=
    match fuel with
    | 0 => acc
    | fuel + 1 =>
      if level = 0 then acc else
      let (ls, nxt) := runLevel ucge preserve n t level children (diags.getD (n - level) (fun _ => ⟨1.0, 0.0⟩))
      go fuel (level - 1) nxt (acc ++ ls)
  let vA := tabA (2 ^ n) v
  go n n (look vA) []

def runOp (j : Json) : List String :=
  match jStr j "op" with
  | "run" =>
    let n := jNat j "n"
    let diags := (jArr j "diags").map (fun d => cvec (jNats d "re") (jNats d "im"))
    runAll (jStr j "cls" == "ucge") (jBool j "preserve") n (jNat j "t")
      (cvec (jNats j "vre") (jNats j "vim")) diags
  | "strs" =>
    let n := jNat j "n"; let t := jNat j "t"
    [s!"str ; s{bitStr (strTarget n t)}"] ++
      (List.range n).map (fun q =>
        s!"cs {q} {rGateAt t q} {ws (outGateCtrl n q)} ; s{bitStr (ctrlState n t q (rGateAt t q) (n - q - 1))}")
  | other => ["UNKNOWN-OP " ++ other]

def main : IO Unit := driverMain runOp
