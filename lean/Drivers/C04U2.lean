import QclibModel.Model.DriverLib
import QclibModel.Model.Mcu2
import QclibModel.Spec.Mcu2
import QclibModel.Model.FloatOps
open Lean Qclib Qclib.Drv Qclib.Mcu2

/-- `theta = pi / 4.`, `-theta`, `0.` of toffoli.py (as in Drivers/C05.lean). -/
def floatAngles : McxAngles Float := ⟨0.7853981633974483, -0.7853981633974483, 0.0⟩

def pyPi : Float := 3.141592653589793

def jCs (j : Json) : Option (List Bool) :=
  match j.getObjVal? "cs" with
  | .ok (.str s) => some (parseCs s)
  | _ => none

def ws (l : List Nat) : String := " ".intercalate (l.map toString)

def patStr : Option (List Bool) → String
  | none => "None"
  | some p => String.ofList (p.map fun b => if b then '1' else '0')

/-- `signal * np.pi / param`. -/
def rxAngle (p : Nat) (s : Int) : Float := (Float.ofInt s) * pyPi / p.toFloat

def lgLine : LG Float → String
  | .x q => s!"x {q} ;"
  | .root t p s => s!"root {t} ; {p} {s}"
  | .croot c t cv p s => s!"croot {c} {t} ; {if cv then 1 else 0} {p} {s}"
  | .crx c t p s => s!"crx {c} {t} ; {fbits (rxAngle p s)}"
  | .mtmcsu2 cs ts rx =>
    s!"mtmcsu2[{cs.length},{ts.length}] {ws (cs ++ ts)} ; "
      ++ " ".intercalate (rx.map fun ps => fbits (rxAngle ps.1 ps.2))
  | .call cls cs t pat p s => s!"call[{cls},{patStr pat}] {ws (cs ++ [t])} ; {p} {s}"
  | .prim g => (g.mapParams FBits.mk).toLine

def out (r : Option (List (LG Float))) : List String :=
  match r with
  | some c => c.map lgLine
  | none => ["REJECT"]

/-- Float twin of `MCU._get_num_base_ctrl_qubits` after `np.linalg.eig`/`np.angle` (the two eigen-
angles are inputs): angle choice, `int(np.ceil(np.log2(angle / np.arccos(1 - error**2 / 2)))) + 1`.
`int(nan)` raises ValueError, `int(±inf)` OverflowError.  The exact version over ℝ is
`Qclib.Mcu2.numBaseR` (Spec/Mcu2.lean). -/
def numBaseF (a0 a1 err : Float) : String :=
  let angle := if (1 - Float.cos a0) >= (1 - Float.cos a1) then a0 else a1
  let quotient := angle / Float.acos (1 - err * err / 2)
  let v := Float.ceil (Float.log2 quotient)
  if v.isNaN then "raise ValueError"
  else if v.isInf then "raise OverflowError"
  else
    let i : Int := if v < 0 then -((-v).toUInt64.toNat : Int) else (v.toUInt64.toNat : Int)
    s!"b {i + 1}"

def runOp (j : Json) : List String :=
  match jStr j "op" with
  | "pairs" =>
    (qubitPairs (jNat j "n") (jBool j "fwd")).map fun p => s!"{p.1} {p.2}"
  | "ldmcu" => out (ldmcu (jNat j "k") (jCs j))
  | "qdmcu" => out (qdmcu floatAngles (fun x => -x) (jNat j "k") (jCs j))
  | "qdcroots" =>
    -- the controlled-root gates of the *ideal* recursion `qdIdeal` (Spec/Mcu2.lean) for the literal
    -- list `qdLits controls ctrl_state`: ties the pattern bookkeeping of theorem C04_qdmcu to the code
    let k := jNat j "k"
    let pat := (jCs j).getD (List.replicate k true)
    (qdCroots (Θ := Float) k 0 (qdLits (List.range k) pat)).map lgLine
  | "mcg" => out (mcg (jNat j "k") (jCs j) (jBool j "su2") (jBool j "utd"))
  | "mcu" => out (mcu (jNat j "k") (jInt j "b") (jCs j))
  | "numbase" => [numBaseF (jFloat j "a0") (jFloat j "a1") (jFloat j "err")]
  | other => ["UNKNOWN-OP " ++ other]

def main : IO Unit := driverMain runOp
