import QclibModel.Model.DriverLib
import QclibModel.Model.Mcsu
import QclibModel.Model.FloatOps
open Lean Qclib Qclib.Drv Qclib.Mcsu

/-- `theta = pi / 4.`, `-theta`, `0.` as mcx.py / toffoli.py compute them. -/
def c04Angles : McxAngles Float := ⟨0.7853981633974483, -0.7853981633974483, 0.0⟩

/-- Python `(z + 0j) ** (1 / 4)` (`c_pow`: `hypot`, `atan2`, `pow`, `cos`, `sin`). -/
def root4F (re im : Float) : Float × Float :=
  if re == 0.0 && im == 0.0 then (0.0, 0.0) else
  let im := im + 0.0
  let r := Float.pow (Float.sqrt (re * re + im * im)) 0.25
  let ph := Float.atan2 im re * 0.25
  (r * Float.cos ph, r * Float.sin ph)

def fOps : ROps Float where
  zero := 0.0
  one := 1.0
  two := 2.0
  add := (· + ·)
  sub := (· - ·)
  mul := (· * ·)
  div := (· / ·)
  neg := fun x => -x
  sqrt := Float.sqrt
  cosH := fun t => Float.cos (t / 2.0)
  sinH := fun t => Float.sin (t / 2.0)
  root4 := root4F
  isZero := fun x => x == 0.0
  isNeg := fun x => x < 0.0
  close := fun dre dim tgt => Float.sqrt (dre * dre + dim * dim) <= 1e-8 + 1e-5 * tgt.abs

def jCs (j : Json) : Option (List Bool) :=
  match j.getObjVal? "cs" with
  | .ok (.str s) => some (parseCs s)
  | _ => none

/-- The branch tests of ldmcsu.py / multitargetmcsu2.py are `isclose(x.imag, 0.0, abs_tol=1e-12)` (since /repo 91c03e6:
imaginary parts at rounding level count as zero); the model's `isZero` is the exact test, which is also what
`x_value == 0` in `_compute_gate_a` needs.  The driver therefore hands the model the input matrix with imaginary
parts of magnitude <= 1e-12 set to 0: the model on the snapped matrix takes the branch the code takes on the original
one, and every emitted parameter moves by at most 1e-12 (compared to 1e-9).  Over ℝ the theorems read the test as
`x = 0`: on every input that reading calls real the code agrees, so they are unaffected. -/
def snapIm (x : Float) : Float := if x.abs <= 1e-12 then 0.0 else x

def matAt (a : Array Float) (i : Nat) : CMat Float :=
  let g := fun n => a.getD (i + n) 0.0
  ⟨⟨g 0, snapIm (g 1)⟩, ⟨g 2, snapIm (g 3)⟩, ⟨g 4, snapIm (g 5)⟩, ⟨g 6, snapIm (g 7)⟩⟩

def matStr (m : CMat Float) : String :=
  " ".intercalate ([m.a.re, m.a.im, m.b.re, m.b.im, m.c.re, m.c.im, m.d.re, m.d.im].map fbits)

def wsStr (l : List Nat) : String := " ".intercalate (l.map toString)

def sgLines (g : SG Float) : Option (List String) :=
  match g with
  | .x q => some [s!"x {q} ;"]
  | .h q => some [s!"h {q} ;"]
  | .cx c t => some [s!"cx {c} {t} ;"]
  | .ccx a b t => some [s!"ccx {a} {b} {t} ;"]
  | .un m q => some [s!"unitary {q} ; {matStr m}"]
  | .cun m c t v => some [s!"cunitary {c} {t} ; {if v then 1 else 0} {matStr m}"]
  | .mcxv k nt ws cs ao inv =>
    (expandMcxv c04Angles k nt ws cs ao).map (fun c =>
      circLines (if inv then invCirc (fun x : Float => -x) c else c))
  | .lmcx k ws ao inv =>
    (expandLmcx c04Angles k ws ao).map (fun c =>
      circLines (if inv then invCirc (fun x : Float => -x) c else c))

def outSG (r : Option (List (SG Float))) : List String :=
  match r with
  | none => ["REJECT"]
  | some gs =>
    match allSome (gs.map sgLines) with
    | none => ["REJECT"]
    | some ls => ls.flatten

def zyzAt (a : Array Float) (i : Nat) : Zyz Float := ⟨a.getD i 0.0, a.getD (i + 1) 0.0, a.getD (i + 2) 0.0⟩

def boolStr (l : List Bool) : String := String.ofList (l.map (fun b => if b then '1' else '0'))

def runOp (j : Json) : List String :=
  match jStr j "op" with
  | "ldmcsu" =>
    let u := matAt (jFloats j "u") 0
    let ev := jFloats j "eigvals"
    let eig : Cx Float × Cx Float × CMat Float :=
      (⟨ev.getD 0 0.0, ev.getD 1 0.0⟩, ⟨ev.getD 2 0.0, ev.getD 3 0.0⟩, matAt (jFloats j "eigvecs") 0)
    let k := jNat j "k"
    outSG (ldmcsu fOps u eig (List.range k) k (jCs j))
  | "ldmcsp" =>
    let z := jFloats j "zyz"
    let k := jNat j "k"
    outSG (ldmcSpecial fOps (zyzAt z 0) (zyzAt z 3) (zyzAt z 6) (zyzAt z 9) (List.range k) k (jCs j))
  | "multi" =>
    let us := jFloats j "us"
    let k := jNat j "k"
    let nt := jNat j "nt"
    outSG (multiTarget fOps ((List.range nt).map (fun i => matAt us (8 * i))) (List.range k)
      ((List.range nt).map (· + k)) (jCs j))
  | "gate_a" =>
    let m := computeGateA fOps (jFloat j "x") ⟨jFloat j "zre", jFloat j "zim"⟩
    [s!"op_a ; {matStr m}"]
  | "half_s" =>
    let m := halfS fOps (jFloat j "x") ⟨jFloat j "zre", jFloat j "zim"⟩
    [s!"s_op ; {matStr m}"]
  | "get_x_z" =>
    let r := getXZ fOps (matAt (jFloats j "u") 0)
    [s!"xz ; {fbits r.1} {fbits r.2.re} {fbits r.2.im}"]
  | "abc" =>
    let z := jFloats j "zyz"
    let r := abcOperators fOps (z.getD 1 0.0) (z.getD 0 0.0) (z.getD 2 0.0)
    [s!"A ; {matStr r.1}", s!"B ; {matStr r.2.1}", s!"C ; {matStr r.2.2}"]
  | "slices" =>
    let k := jNat j "k"
    let cw := List.range k
    let cs := (jStr j "cs").toList
    [s!"k {k1 k} {k2 k} ;", s!"w1 {wsStr (wires1 cw [k])} ;", s!"w2 {wsStr (wires2 cw [k])} ;",
     "cs1 ; p" ++ String.ofList (csK1 cs k), "cs2 ; p" ++ String.ofList (csK2 cs k)]
  | "ctrl" =>
    let k := jNat j "k"
    match (ctrlXsSG (List.range k) (parseCs (jStr j "cs")) : Option (List (SG Float))) with
    | none => ["REJECT"]
    | some xs => outSG (some xs)
  | other => ["UNKNOWN-OP " ++ other]

def main : IO Unit := driverMain runOp
