import QclibModel.Model.DriverLib
import QclibModel.Model.Baa
import Std.Data.HashMap
open Lean Qclib Qclib.Drv Qclib.Baa

/-! Driver of C08: runs the search model on the oracle answers recorded from the real code. -/

def floatL : LossOps Float :=
  ⟨0.0, 1.0, (· - ·), (· * ·), fun a b => decide (a ≤ b), fun a b => decide (a < b)⟩

def ratL : LossOps Rat :=
  ⟨0, 1, (· - ·), (· * ·), fun a b => decide (a ≤ b), fun a b => decide (a < b)⟩

def natsStr (xs : List Nat) : String := xs.foldl (fun acc x => acc ++ " " ++ toString x) ""

def optNats (j : Json) (k : String) : Option (List Nat) :=
  match j.getObjVal? k with
  | .ok (.arr xs) => some (xs.toList.map (fun x => (x.getNat?.toOption).getD 0))
  | _ => none

def keyS (v : Nat) (lp : List Nat) (u : Bool) : String := toString v ++ "|" ++ natsStr lp ++ "|" ++ toString u
def keyC (v : Nat) (p : Option (List Nat)) (lr : Nat) : String :=
  toString v ++ "|" ++ (match p with | none => "N" | some l => natsStr l) ++ "|" ++ toString lr

/-- A loss as sent by the harness: IEEE bits and the exact dyadic rational. -/
def lossF (j : Json) : Float := Float.ofBits (UInt64.ofNat (jNat j "b"))
def lossQ (j : Json) : Rat := (jInt j "n" : Rat) / (jNat j "d" : Rat)

def mkOracle {α : Type} (rd : Json → α) (j : Json) : Oracle α × (Nat → List Nat → Bool → Bool) :=
  let tabS : Std.HashMap String (List (SvdInfo α)) :=
    (jArr j "schmidt").foldl (fun m e =>
      m.insert (keyS (jNat e "v") (jNats e "lp").toList (jBool e "u"))
        ((jArr e "infos").toList.map (fun i =>
          { rank := jNat i "r", loss := rd i, vecV := jNat i "vv", vecU := jNat i "vu", vecA := jNat i "va" }))) {}
  let tabC : Std.HashMap String Nat :=
    (jArr j "cnots").foldl (fun m e => m.insert (keyC (jNat e "v") (optNats e "p") (jNat e "lr")) (jNat e "c")) {}
  ({ schmidt := fun v lp u => (tabS.get? (keyS v lp u)).getD []
     cnots := fun v p lr => (tabC.get? (keyC v p lr)).getD 1000003 },
   fun v lp u => tabS.contains (keyS v lp u))

def entryLine (tag : String) (e : Entry) : String :=
  tag ++ "e " ++ toString e.vec ++ " " ++ toString e.rank ++ " " ++ toString e.qubits.length ++ natsStr e.qubits
    ++ (match e.partition with
        | none => " -1"
        | some p => " " ++ toString p.length ++ natsStr p)

def nodeLines {α : Type} (pl : α → String) (tag : String) (head : String) (nd : Node α) : List String :=
  (tag ++ head ++ " " ++ toString nd.nodeSaved ++ " " ++ toString nd.totalSaved ++ " "
      ++ toString nd.entries.length ++ " ;" ++ pl nd.nodeLoss ++ pl nd.totalLoss)
    :: nd.entries.map (entryLine tag)

def visitLines {α : Type} (pl : α → String) (has : Nat → List Nat → Bool → Bool) (tag : String)
    (vs : List (Visit α)) : List String :=
  vs.flatMap (fun v =>
    nodeLines pl tag ("node " ++ toString v.depth ++ " " ++ (if v.leaf then "1" else "0")
        ++ (if v.truncated then " 1" else " 0")) v.node
    ++ v.log.map (fun q =>
        (if has q.vec (localPartition q.register q.partition) q.ulr then tag ++ "q " else tag ++ "MISS ")
          ++ toString q.vec ++ " " ++ (if q.ulr then "1" else "0") ++ " " ++ toString q.register.length
          ++ natsStr q.register ++ " " ++ toString q.partition.length ++ natsStr q.partition))

/-- The whole observable run for one arithmetic. -/
def runBaa {α : Type} (L : LossOps α) (rd : Json → α) (pl : α → String) (j : Json) : List String :=
  let (O, has) := mkOracle rd j
  let n := jNat j "n"
  let root := jNat j "root"
  let maxK := jNat j "maxK"
  let s := Strategy.ofString (jStr j "strategy")
  let ml := optMaxLoss L (match j.getObjVal? "maxLoss" with | .ok o => rd o | _ => L.zero)
  let P : Params α := ⟨ml, s, jBool j "ulr"⟩
  let Pc : Params α := ⟨L.one, .canonical, false⟩
  let pre := if s != .canonical then walk L O Pc (fuelFor n) 0 (rootNode L n root) 0 else []
  let early : Bool := match search L O Pc n root 0 with
    | some prod => s != .canonical && L.le prod.totalLoss ml
    | none => false
  let main := if early then [] else walk L O P (fuelFor n) 0 (rootNode L n root) maxK
  let res := adaptiveApproximation L O P n root maxK
  visitLines pl has "pre:" pre ++ ["early " ++ (if early then "1" else "0")]
    ++ visitLines pl has "" main
    ++ (match res with
        | none => ["ret-none"]
        | some nd => nodeLines pl "" "ret" nd
            ++ nd.entries.map (fun e => "wires" ++ natsStr ((List.range e.qubits.length).map (wireOf n e.qubits))))

def runOp (j : Json) : List String :=
  match jStr j "op" with
  | "baa" =>
    let fl := runBaa floatL lossF (fun x => " " ++ fbits x) j
    let qDisc := runBaa ratL lossQ (fun _ => "") j
    let fDisc := runBaa floatL lossF (fun _ => "") j
    fl ++ ["exact " ++ (if qDisc == fDisc then "1" else "0")]
  | "combs" =>
    let qs := (jNats j "reg").toList
    let k := jNat j "k"
    let cs := match jStr j "kind" with
      | "split" => splitCombinations qs k
      | "all" => allCombinations qs k
      | _ => combinations qs k
    cs.map (fun c => "c" ++ natsStr c)
  | "local" =>
    ["lp" ++ natsStr (localPartition (jNats j "reg").toList (jNats j "part").toList)]
  | "index" =>
    -- the assembled index map: for every global index the local index of every factor
    let n := jNat j "n"
    let regs := (jArr j "regs").toList.map (fun r => (r.getArr?.toOption.getD #[]).toList.map (fun x => (x.getNat?.toOption).getD 0))
    regs.map (fun qs => "ix" ++ natsStr ((List.range (2 ^ n)).map (localIndex n qs)))
  | other => ["UNKNOWN-OP " ++ other]

def main : IO Unit := driverMain runOp
