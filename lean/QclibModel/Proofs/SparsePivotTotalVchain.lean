import QclibModel.Proofs.SparseCvoTotalLadder
import QclibModel.Model.SparsePivot
import Mathlib.Data.List.Basic
/-
  C06 — pivot.py `_mcxvchain` (option `aux=True`): the ascending `rccx` ladder on clean ancillas
  `n + j`, a `cx` from the last ancilla, and the ladder back.  For every state the block equals
  `applyIf c X tgt` (`ladder_conj`: the relative phases cancel), and on labels whose ancillas are
  clean (only the `len(ctrl) − 1` ancillas actually used are required to be `0`) the firing
  condition `c` is the AND of all controls (`mcxVchain_sem`) — i.e. the block acts
  there as the ideal multi-controlled X.
-/
namespace Qclib.Sparse
open Qclib RotSem

/-- `(control, ancilla, target ancilla)` wires of the ascending ladder, rungs `j, j+1, …` -/
def upTriples (n : Nat) (ctrl : List Nat) : Nat → Nat → List (Nat × Nat × Nat)
  | _, 0 => []
  | j, m + 1 => (ctrl.getD j 0, n + (j - 2), n + (j - 1)) :: upTriples n ctrl (j + 1) m

theorem upTriples_eq {Θ : Type} (n : Nat) (ctrl : List Nat) (j m : Nat) :
    (List.range' j m).map
        (fun j => (SG.rccx (ctrl.getD j 0) (n + (j - 2)) (n + (j - 1)) : SG Θ))
      = ladderSG (upTriples n ctrl j m) := by
  induction m generalizing j with
  | zero => rfl
  | succ m ih =>
    rw [List.range'_succ, List.map_cons, ih]
    rfl

theorem getD_mem_of_lt (ctrl : List Nat) (i : Nat) (h : i < ctrl.length) :
    ctrl.getD i 0 ∈ ctrl := by
  rw [List.getD_eq_getElem?_getD, List.getElem?_eq_getElem h]
  exact List.getElem_mem h

theorem upTriples_ok (n : Nat) (ctrl : List Nat) (tgt : Nat) (hc : ∀ q ∈ ctrl, q < n)
    (ht : tgt < n) (htc : tgt ∉ ctrl) (j m : Nat) (hj : 2 ≤ j) (hjm : j + m ≤ ctrl.length) :
    ∀ x ∈ upTriples n ctrl j m, TripleOk tgt x := by
  induction m generalizing j with
  | zero => intro x hx; cases hx
  | succ m ih =>
    intro x hx
    rcases List.mem_cons.mp hx with rfl | hx
    · have hm := getD_mem_of_lt ctrl j (by omega)
      have h1 := hc _ hm
      unfold TripleOk
      refine ⟨?_, ?_, ?_, ?_, ?_⟩
      · simp only; omega
      · simp only; omega
      · simp only; intro e; exact htc (e ▸ hm)
      · simp only; omega
      · simp only; omega
    · exact ih (j + 1) (by omega) (by omega) x hx

/-- classical action of the ascending ladder on clean ancillas -/
theorem upPerm_top (n : Nat) (ctrl : List Nat) (hc : ∀ q ∈ ctrl, q < n) (j m : Nat) (w : Bits)
    (hj : 2 ≤ j) (hjm : j + m ≤ ctrl.length)
    (hclr : ∀ i, j - 1 ≤ i → i < ctrl.length - 1 → w (n + i) = false) :
    ladderPerm (upTriples n ctrl j m) w (n + (j + m - 2))
      = (w (n + (j - 2)) && (List.range' j m).all (fun i => w (ctrl.getD i 0))) := by
  induction m generalizing j w with
  | zero => simp [upTriples, ladderPerm]
  | succ m ih =>
    show ladderPerm (upTriples n ctrl (j + 1) m)
        (rccxPerm (ctrl.getD j 0) (n + (j - 2)) (n + (j - 1)) w) (n + (j + (m + 1) - 2)) = _
    have e : j + (m + 1) - 2 = j + 1 + m - 2 := by omega
    rw [e, ih (j + 1) _ (by omega) (by omega)]
    · have e2 : j + 1 - 2 = j - 1 := by omega
      rw [e2, rccxPerm_tgt _ _ _ _ (hclr (j - 1) (by omega) (by omega)), List.range'_succ,
        List.all_cons]
      have hall : (List.range' (j + 1) m).all
            (fun i => rccxPerm (ctrl.getD j 0) (n + (j - 2)) (n + (j - 1)) w (ctrl.getD i 0))
          = (List.range' (j + 1) m).all (fun i => w (ctrl.getD i 0)) := by
        rw [Bool.eq_iff_iff, List.all_eq_true, List.all_eq_true]
        have key : ∀ i ∈ List.range' (j + 1) m,
            rccxPerm (ctrl.getD j 0) (n + (j - 2)) (n + (j - 1)) w (ctrl.getD i 0)
              = w (ctrl.getD i 0) := by
          intro i hi
          rw [List.mem_range'_1] at hi
          have := hc _ (getD_mem_of_lt ctrl i (by omega))
          exact rccxPerm_ne _ _ _ _ _ (by omega)
        constructor
        · intro h i hi; rw [← key i hi]; exact h i hi
        · intro h i hi; rw [key i hi]; exact h i hi
      rw [hall]
      cases w (ctrl.getD j 0) <;> cases w (n + (j - 2)) <;> simp
    · intro i hi hik
      rw [rccxPerm_ne _ _ _ _ _ (by omega)]
      exact hclr i (by omega) hik

theorem all_eq_range_getD (ctrl : List Nat) (f : Nat → Bool) :
    ctrl.all f = (List.range ctrl.length).all (fun i => f (ctrl.getD i 0)) := by
  have : ctrl = (List.range ctrl.length).map (fun i => ctrl.getD i 0) := by
    apply List.ext_getElem
    · simp
    · intro i h1 h2
      simp [List.getD_eq_getElem?_getD, List.getElem?_eq_getElem h1]
  conv_lhs => rw [this]
  rw [List.all_map]
  rfl

section
variable {Θ R : Type} [CommRing R] [RotSem Θ R]

/-- **`_mcxvchain`** is, on clean ancillas, the multi-controlled X on `tgt`. -/
theorem mcxVchain_sem (iu : R) (hi : iu * iu = -1)
    (dn : List Nat → List (Amp Θ) → State R → State R) (n : Nat) (ctrl : List Nat) (tgt : Nat)
    (hlen : 2 ≤ ctrl.length) (hc : ∀ q ∈ ctrl, q < n)
    (ht : tgt < n) (htc : tgt ∉ ctrl) :
    ∃ c : Bits → Bool,
      (∀ b, (∀ i, i < ctrl.length - 1 → b (n + i) = false) → c b = ctrl.all (fun q => b q)) ∧
      ∀ ψ : State R, semSG iu dn (mcxVchain (α := Θ) n ctrl tgt) ψ = applyIf c Mat2.X tgt ψ := by
  let k := ctrl.length
  let tr : List (Nat × Nat × Nat) :=
    (ctrl.getD 0 0, ctrl.getD 1 0, n + 0) :: upTriples n ctrl 2 (k - 2)
  have hgates : mcxVchain (α := Θ) n ctrl tgt
      = ladderSG tr ++ [SG.cx (n + (k - 2)) tgt true] ++ (ladderSG tr).reverse := by
    unfold mcxVchain
    simp only [List.range_eq_range', List.drop_range', Nat.zero_add, upTriples_eq]
    simp [tr, k, ladderSG]
  have h0 := hc _ (getD_mem_of_lt ctrl 0 (by omega))
  have h1 := hc _ (getD_mem_of_lt ctrl 1 (by omega))
  have hok : ∀ x ∈ tr, TripleOk tgt x := by
    intro x hx
    rcases List.mem_cons.mp hx with rfl | hx
    · unfold TripleOk
      refine ⟨?_, ?_, ?_, ?_, ?_⟩
      · simp only; omega
      · simp only; omega
      · simp only; intro e; exact htc (e ▸ getD_mem_of_lt ctrl 0 (by omega))
      · simp only; intro e; exact htc (e ▸ getD_mem_of_lt ctrl 1 (by omega))
      · simp only; omega
    · exact upTriples_ok n ctrl tgt hc ht htc 2 (k - 2) (by omega) (by omega) x hx
  refine ⟨fun w => ctrlOk [(n + (k - 2), true)] (ladderPerm tr w), ?_, ?_⟩
  · intro b hb
    show ctrlOk [(n + (k - 2), true)]
      (ladderPerm (upTriples n ctrl 2 (k - 2))
        (rccxPerm (ctrl.getD 0 0) (ctrl.getD 1 0) (n + 0) b)) = _
    simp only [ctrlOk, List.all_cons, List.all_nil, Bool.and_true, beq_true]
    have e : n + (k - 2) = n + (2 + (k - 2) - 2) := by omega
    rw [e, upPerm_top n ctrl hc 2 (k - 2) _ (by omega) (by omega)]
    · have e2 : n + (2 - 2) = n + 0 := by omega
      rw [e2, rccxPerm_tgt _ _ _ _ (hb 0 (by omega)), all_eq_range_getD ctrl (fun q => b q)]
      have hr : List.range ctrl.length = 0 :: 1 :: List.range' 2 (k - 2) := by
        rw [List.range_eq_range']
        have : ctrl.length = (k - 2) + 1 + 1 := by omega
        rw [this, List.range'_succ, List.range'_succ]
      rw [hr, List.all_cons, List.all_cons, Bool.and_assoc]
      congr 2
      rw [Bool.eq_iff_iff, List.all_eq_true, List.all_eq_true]
      have key : ∀ i ∈ List.range' 2 (k - 2),
          rccxPerm (ctrl.getD 0 0) (ctrl.getD 1 0) (n + 0) b (ctrl.getD i 0)
            = b (ctrl.getD i 0) := by
        intro i hi
        rw [List.mem_range'_1] at hi
        have := hc _ (getD_mem_of_lt ctrl i (by omega))
        exact rccxPerm_ne _ _ _ _ _ (by omega)
      constructor
      · intro h i hi; rw [← key i hi]; exact h i hi
      · intro h i hi; rw [key i hi]; exact h i hi
    · intro i hi hik
      rw [rccxPerm_ne _ _ _ _ _ (by omega)]
      exact hb i hik
  · intro ψ
    rw [hgates]
    exact semSG_ladder_block iu hi dn tgt tr hok (SG.cx (n + (k - 2)) tgt true)
      (ctrlOk [(n + (k - 2), true)]) Mat2.X rfl ψ

end
end Qclib.Sparse
