import QclibModel.Proofs.UcrProof
import QclibModel.Spec.Mcx
/-
  Generic lemmas for C05: matrix families on an arbitrary wire, signed relabellings `sp σ π`
  (`ψ ↦ fun b => σ b * ψ (π b)`), wires that a signed relabelling neither reads nor writes, and how
  these interact with `cx`, `ccx` and with matrix families.
-/
namespace Qclib
open RotSem

section
variable {Θ R : Type} [CommRing R] [RotSem Θ R]

/-! ### Labels -/

theorem flipBit_eq_setBit (b : Bits) (q : Nat) : flipBit b q = setBit b q (!b q) :=
  (setBit_not b q).symm

theorem setBit_flipBit_ne (b : Bits) {q t : Nat} (v : Bool) (h : q ≠ t) :
    flipBit (setBit b q v) t = setBit (flipBit b t) q v := by
  funext i; grind [flipBit, setBit]

/-! ### Matrix families on wire `t` -/

/-- The family does not look at wire `t`. -/
def TFree (t : Nat) (f : Bits → Mat2 R) : Prop := ∀ b v, f (setBit b t v) = f b

theorem applyFam_comp' (t : Nat) (f g : Bits → Mat2 R) (hg : TFree t g) (ψ : State R) :
    applyFam f t (applyFam g t ψ) = applyFam (fun b => f b * g b) t ψ := by
  funext b
  simp only [applyFam, setBit_same, setBit_setBit, hg b]
  by_cases h : b t = true <;> simp [h] <;> ring

theorem applyFam_congr (t : Nat) {f g : Bits → Mat2 R} (h : ∀ b, f b = g b) (ψ : State R) :
    applyFam f t ψ = applyFam g t ψ := by
  have : f = g := funext h
  rw [this]

theorem applyFam_one (t : Nat) (ψ : State R) : applyFam (fun _ => (1 : Mat2 R)) t ψ = ψ := by
  funext b
  by_cases h : b t = true
  · simp [applyFam, h, setBit_self' b t true h]
  · have h' : b t = false := by simpa using h
    simp [applyFam, h', setBit_self' b t false h']

theorem applyMcu_nil' (m : Mat2 R) (t : Nat) (ψ : State R) :
    applyMcu [] m t ψ = applyFam (fun _ => m) t ψ := by
  funext b
  simp [applyMcu, applyFam, ctrlOk]

/-- `X` on `t` under a Boolean condition, as a matrix family. -/
theorem applyFam_condX (P : Bits → Bool) (t : Nat) (ψ : State R) :
    applyFam (fun b => if P b then (Mat2.X : Mat2 R) else 1) t ψ
      = fun b => if P b then ψ (flipBit b t) else ψ b := by
  funext b
  rw [← setBit_not]
  by_cases hp : P b = true
  · by_cases h : b t = true <;> simp [applyFam, hp, h, Mat2.X]
  · have hp' : P b = false := by simpa using hp
    by_cases h : b t = true
    · simp [applyFam, hp', h, setBit_self' b t true h]
    · have h' : b t = false := by simpa using h
      simp [applyFam, hp', h', setBit_self' b t false h']

/-! ### Signed relabellings -/

/-- `ψ ↦ fun b => σ b * ψ (π b)`. -/
def sp (σ : Bits → R) (π : Bits → Bits) (ψ : State R) : State R := fun b => σ b * ψ (π b)

/-- Wire `q` is neither read nor written by `(σ, π)`. -/
structure FreeAt (q : Nat) (σ : Bits → R) (π : Bits → Bits) : Prop where
  sig : ∀ b v, σ (setBit b q v) = σ b
  perm : ∀ b v, π (setBit b q v) = setBit (π b) q v

omit [CommRing R] in
theorem FreeAt.get {q : Nat} {σ : Bits → R} {π : Bits → Bits} (h : FreeAt q σ π) (b : Bits) :
    (π b) q = b q := by
  have := congrFun (h.perm b (b q)) q
  rw [setBit_self, setBit_same] at this
  exact this

omit [CommRing R] in
theorem FreeAt.sig_flip {q : Nat} {σ : Bits → R} {π : Bits → Bits} (h : FreeAt q σ π) (b : Bits) :
    σ (flipBit b q) = σ b := by
  rw [flipBit_eq_setBit, h.sig]

omit [CommRing R] in
theorem FreeAt.perm_flip {q : Nat} {σ : Bits → R} {π : Bits → Bits} (h : FreeAt q σ π)
    (b : Bits) : π (flipBit b q) = flipBit (π b) q := by
  rw [flipBit_eq_setBit, h.perm, flipBit_eq_setBit, h.get]

/-- A matrix family on a free wire `t` that is invariant under `π` commutes with `sp σ π`. -/
theorem applyFam_sp (σ : Bits → R) (π : Bits → Bits) (t : Nat) (hf : FreeAt t σ π)
    (g : Bits → Mat2 R) (hg : ∀ b, g (π b) = g b) (ψ : State R) :
    applyFam g t (sp σ π ψ) = sp σ π (applyFam g t ψ) := by
  funext b
  simp only [applyFam, sp, hf.sig, hf.perm, hf.get, hg]
  by_cases h : b t = true <;> simp [h] <;> ring

/-- `cx a t ; W ; cx a t = X_t^P ; W` when `W` flips `a` exactly under `P` and does not see `t`. -/
theorem cx_sp_cx (σ : Bits → R) (π : Bits → Bits) (a t : Nat) (P : Bits → Bool)
    (hf : FreeAt t σ π)
    (ha : ∀ b, (π b) a = xor (b a) (P b)) (hP : ∀ b, P (π b) = P b)
    (hat : a ≠ t) (ψ : State R) :
    denote (G.cx a t : G Θ) (sp σ π (denote (G.cx a t : G Θ) ψ))
      = sp σ π (fun b => if P b then ψ (flipBit b t) else ψ b) := by
  funext b
  simp only [denote_cx, sp, hf.sig_flip, hf.perm_flip, ha, hP, flipBit_ne _ hat,
    flipBit_flipBit]
  cases h1 : b a <;> cases h2 : P b <;> simp

theorem sp_sp (σ σ' : Bits → R) (π π' : Bits → Bits) (ψ : State R) :
    sp σ π (sp σ' π' ψ) = sp (fun b => σ b * σ' (π b)) (fun b => π' (π b)) ψ := by
  funext b
  simp only [sp]; ring

/-- An involutive signed relabelling applied twice is the identity. -/
theorem sp_invol (σ : Bits → R) (π : Bits → Bits) (h1 : ∀ b, π (π b) = b)
    (h2 : ∀ b, σ b * σ (π b) = 1) (ψ : State R) : sp σ π (sp σ π ψ) = ψ := by
  funext b
  simp only [sp, h1]
  rw [← mul_assoc, h2, one_mul]

/-- `cx u v` commutes with a signed relabelling that sees neither wire. -/
theorem cx_sp_comm (σ : Bits → R) (π : Bits → Bits) (u v : Nat) (hu : FreeAt u σ π)
    (hv : FreeAt v σ π) (ψ : State R) :
    denote (G.cx u v : G Θ) (sp σ π ψ) = sp σ π (denote (G.cx u v : G Θ) ψ) := by
  funext b
  simp only [denote_cx, sp, hv.sig_flip, hv.perm_flip, hu.get]
  cases b u <;> simp

end
end Qclib
