import QclibModel.Proofs.WidthLinkCore
import QclibModel.Model.Mcu2
import QclibModel.Proofs.McxCtrl
import QclibModel.Proofs.Mcu2Pairs
/-
  C15 link, part "U(2) multi-controlled gates": the executable gate lists of `Model/Mcu2.lean`
  (`ldmcu`, `qdmcu`, `mcu`, `mcg`) only touch wires below the width the class declares
  (`Widths.declaredWidth … = k + 1`), and the top wire `k` (the target) is touched.
-/
namespace Qclib
namespace WL
open Mcu2

/-- All wires a skeleton gate of `Model/Mcu2.lean` mentions (controls and target). -/
def lgWires {Θ : Type} : LG Θ → List Nat
  | .x q => [q]
  | .root t _ _ => [t]
  | .croot c t _ _ _ => [c, t]
  | .crx c t _ _ => [c, t]
  | .mtmcsu2 cs ts _ => cs ++ ts
  | .call _ cs t _ _ _ => cs ++ [t]
  | .prim g => g.wires

variable {Θ : Type}

/-! ### helpers -/

theorem lg_getD_lt {l : List Nat} {n : Nat} (hl : ∀ w ∈ l, w < n) (hn : 0 < n) (i : Nat) :
    l.getD i 0 < n := by
  by_cases h : i < l.length
  · rw [List.getD_eq_getElem?_getD, List.getElem?_eq_getElem h]
    exact hl _ (List.getElem_mem h)
  · rw [List.getD_eq_getElem?_getD, List.getElem?_eq_none (by omega)]
    exact hn

theorem lg_below_place {n : Nat} (c : Circ Θ) {ws : List Nat} (hl : ∀ w ∈ ws, w < n) (hn : 0 < n) :
    Below G.wires n (place c ws) := by
  intro g hg w hw
  simp only [place, List.mem_map] at hg
  obtain ⟨g', _, rfl⟩ := hg
  rw [wires_mapWires', List.mem_map] at hw
  obtain ⟨w', _, rfl⟩ := hw
  exact lg_getD_lt hl hn w'

theorem lg_below_prim {n : Nat} {c : Circ Θ} (h : Below G.wires n c) :
    Below lgWires n (c.map LG.prim) :=
  below_map (fun g hg w hw => h g hg w hw)

theorem lg_ctrlXsL_below {k : Nat} {cs : Option (List Bool)} {xs : List (LG Θ)}
    (h : ctrlXsL k cs = some xs) : Below lgWires k xs := by
  unfold ctrlXsL at h
  cases hy : ctrlXs (Θ := Θ) k (fun i => i) cs with
  | none => rw [hy] at h; exact absurd h (by simp)
  | some ys =>
    rw [hy] at h
    simp only [Option.map_some, Option.some.injEq] at h
    subst h
    obtain ⟨rfl, hlt⟩ := ctrlXs_eq k (fun i => i) cs ys hy
    intro g hg w hw
    rw [List.mem_filterMap] at hg
    obtain ⟨a, ha, hga⟩ := hg
    rw [List.mem_map] at ha
    obtain ⟨q, hq, rfl⟩ := ha
    simp only [Option.some.injEq] at hga
    subst hga
    simp only [lgWires, List.mem_singleton] at hw
    subst hw
    obtain ⟨i, hi, _, rfl⟩ := (csFlips_mem k (fun i => i) cs w hlt).mp hq
    exact hi

theorem mcu2_pair_bounds {n : Nat} {fwd : Bool} {pr : Nat × Nat} (h : pr ∈ qubitPairs n fwd) :
    pr.1 < pr.2 ∧ pr.2 < n := by
  obtain ⟨c, t⟩ := pr
  exact (mem_qubitPairs.mp h).2

/-! ### `Ldmcu` -/

theorem mcu2_c1c2_below (n : Nat) (first fwd : Bool) : Below lgWires n (c1c2 (Θ := Θ) n first fwd) := by
  unfold c1c2
  apply below_map
  intro pr hpr w hw
  have hb := mcu2_pair_bounds hpr
  split at hw <;> simp only [lgWires, List.mem_cons, List.not_mem_nil, or_false] at hw <;> omega

theorem mcu2_ladder_below (k : Nat) : Below lgWires (k + 1) (ladder (Θ := Θ) k) := by
  unfold ladder
  refine below_append.mpr ⟨below_append.mpr ⟨below_append.mpr ⟨?_, ?_⟩, ?_⟩, ?_⟩
  · exact mcu2_c1c2_below _ _ _
  · exact mcu2_c1c2_below _ _ _
  · exact below_mono (mcu2_c1c2_below _ _ _) (Nat.le_succ k)
  · exact below_mono (mcu2_c1c2_below _ _ _) (Nat.le_succ k)

/-- **Ldmcu, soundness.**  For every number of controls `k` and every control pattern, every gate
of the definition `Ldmcu(U, k, ctrl_state)` (whenever the constructor does not raise) acts on wires
below the declared width `k + 1`. -/
theorem ldmcu_below (k : Nat) (cs : Option (List Bool)) (c : List (LG Θ))
    (h : ldmcu k cs = some c) :
    Below lgWires (Widths.declaredWidth .ldmcu { k := k }) c := by
  show Below lgWires (k + 1) c
  unfold ldmcu at h
  split at h
  · rename_i hk
    simp only [Option.some.injEq] at h
    subst h
    rw [below_singleton]
    intro w hw
    simp only [lgWires, List.mem_singleton] at hw
    omega
  · split at h
    · exact absurd h (by simp)
    · rename_i xs hxs
      simp only [Option.some.injEq] at h
      subst h
      have hx := below_mono (lg_ctrlXsL_below hxs) (Nat.le_succ k)
      exact below_append.mpr ⟨below_append.mpr ⟨hx, mcu2_ladder_below k⟩, hx⟩

/-- **Ldmcu, tightness.**  The top wire `k` (the target) is touched by some gate, for every `k`. -/
theorem ldmcu_uses_top (k : Nat) (cs : Option (List Bool)) (c : List (LG Θ))
    (h : ldmcu k cs = some c) : Uses lgWires k c := by
  unfold ldmcu at h
  split at h
  · rename_i hk
    simp only [Option.some.injEq] at h
    subst h; subst hk
    exact uses_cons_self _ (by simp [lgWires])
  · rename_i hk
    split at h
    · exact absurd h (by simp)
    · rename_i xs hxs
      simp only [Option.some.injEq] at h
      subst h
      apply uses_append_left
      apply uses_append_right
      unfold ladder
      apply uses_append_left
      apply uses_append_left
      apply uses_append_left
      have hm : (0, k) ∈ qubitPairs (k + 1) true :=
        mem_qubitPairs.mpr ⟨Nat.zero_le _, by omega, by omega⟩
      refine ⟨_, List.mem_map_of_mem (f := _) hm, ?_⟩
      simp [lgWires]

/-- Non-vacuity (`decide` cannot evaluate `List.mergeSort` inside `qubitPairs` — well-founded
recursion — so the instance is closed by `rfl` for "returns `some`" and by the theorems): the
generator returns `some` on 4 controls with a mixed pattern, the list is below 5, touches wire 4
and is therefore not below 4. -/
example : ∃ c, ldmcu (Θ := Unit) 4 (some [true, false, true, true]) = some c
    ∧ Below lgWires 5 c ∧ Uses lgWires 4 c ∧ ¬ Below lgWires 4 c := by
  refine ⟨_, rfl, ?_, ?_, ?_⟩
  · exact ldmcu_below 4 (some [true, false, true, true]) _ rfl
  · exact ldmcu_uses_top 4 (some [true, false, true, true]) _ rfl
  · exact fun h => not_uses_of_below h (ldmcu_uses_top 4 (some [true, false, true, true]) _ rfl)

example : (ldmcu (Θ := Unit) 2 (some [false, true])).map (allWires lgWires)
    = some [1, 1, 2, 0, 2, 0, 1, 1, 2, 0, 1, 1] := by
  simp [ldmcu, ctrlXsL, ctrlXs, ladder, c1c2, allWires, lgWires, qubitPairs, sortPairs, rawPairs,
    List.mergeSort, key, List.range, List.range.loop, List.range', List.MergeSort.Internal.splitInTwo]

/-! ### `Qdmcu` -/

theorem mcu2_qdmcuRec_below (o : McxAngles Θ) (neg : Θ → Θ) (n : Nat) :
    ∀ (fuel d : Nat) (ctrls : List Nat) (t : Nat) (pat : List Bool) (c : List (LG Θ)),
      (∀ w ∈ ctrls, w < n) → t < n → qdmcuRec o neg fuel d ctrls t pat = some c →
      Below lgWires n c := by
  intro fuel
  induction fuel with
  | zero => intro d ctrls t pat c _ _ h; simp [qdmcuRec] at h
  | succ fuel ih =>
    intro d ctrls t pat c hc ht h
    have hn : 0 < n := by omega
    simp only [qdmcuRec] at h
    split at h
    · exact absurd h (by simp)
    · split at h
      · simp only [Option.some.injEq] at h
        subst h
        rw [below_singleton]
        intro w hw
        simp only [lgWires, List.mem_cons, List.not_mem_nil, or_false] at hw
        rcases hw with rfl | rfl
        · exact lg_getD_lt hc hn _
        · exact ht
      · split at h
        · exact absurd h (by simp)
        · split at h
          · exact absurd h (by simp)
          · split at h
            · exact absurd h (by simp)
            · rename_i tail htail
              simp only [Option.some.injEq] at h
              subst h
              have hrest : ∀ w ∈ ctrls.take (ctrls.length - 1), w < n :=
                fun w hw => hc w (List.mem_of_mem_take hw)
              have hlast : ctrls.getD (ctrls.length - 1) 0 < n := lg_getD_lt hc hn _
              have hws : ∀ w ∈ ctrls.take (ctrls.length - 1) ++ [ctrls.getD (ctrls.length - 1) 0, t],
                  w < n := by
                intro w hw
                simp only [List.mem_append, List.mem_cons, List.not_mem_nil, or_false] at hw
                rcases hw with h | rfl | rfl
                · exact hrest w h
                · exact hlast
                · exact ht
              have hcr : ∀ (cv : Bool) (p : Nat) (s : Int),
                  Below lgWires n [LG.croot (Θ := Θ) (ctrls.getD (ctrls.length - 1) 0) t cv p s] := by
                intro cv p s
                rw [below_singleton]
                intro w hw
                simp only [lgWires, List.mem_cons, List.not_mem_nil, or_false] at hw
                rcases hw with rfl | rfl
                · exact hlast
                · exact ht
              have htl := ih _ _ _ _ _ hrest ht htail
              refine below_append.mpr ⟨below_append.mpr ⟨below_append.mpr ⟨below_append.mpr
                ⟨hcr _ _ _, ?_⟩, hcr _ _ _⟩, ?_⟩, htl⟩
              · exact lg_below_prim (lg_below_place _ hws hn)
              · exact lg_below_prim (lg_below_place _ hws hn)

/-- **Qdmcu, soundness.**  For every `k`, every pattern and every angle set of the linear MCX,
every gate of `Qdmcu(U, k, ctrl_state).definition` (skeleton gates and the primitive gates of the
placed linear MCX sub-circuits; whenever the model is defined, i.e. `k ≥ 1` and a pattern of length
`k`) acts on wires below the declared width `k + 1`. -/
theorem qdmcu_below (o : McxAngles Θ) (neg : Θ → Θ) (k : Nat) (cs : Option (List Bool))
    (c : List (LG Θ)) (h : qdmcu o neg k cs = some c) :
    Below lgWires (Widths.declaredWidth .qdmcu { k := k }) c := by
  show Below lgWires (k + 1) c
  unfold qdmcu at h
  refine mcu2_qdmcuRec_below o neg (k + 1) _ _ _ _ _ c ?_ (Nat.lt_succ_self k) h
  intro w hw
  have := List.mem_range.mp hw
  omega

theorem mcu2_qdmcuRec_uses (o : McxAngles Θ) (neg : Θ → Θ)
    (fuel d : Nat) (ctrls : List Nat) (t : Nat) (pat : List Bool) (c : List (LG Θ))
    (h : qdmcuRec o neg fuel d ctrls t pat = some c) : Uses lgWires t c := by
  cases fuel with
  | zero => simp [qdmcuRec] at h
  | succ fuel =>
    simp only [qdmcuRec] at h
    split at h
    · exact absurd h (by simp)
    · split at h
      · simp only [Option.some.injEq] at h
        subst h
        exact uses_cons_self _ (by simp [lgWires])
      · split at h
        · exact absurd h (by simp)
        · split at h
          · exact absurd h (by simp)
          · split at h
            · exact absurd h (by simp)
            · simp only [Option.some.injEq] at h
              subst h
              simp only [List.append_assoc, List.cons_append, List.nil_append]
              exact uses_cons_self _ (by simp [lgWires])

/-- **Qdmcu, tightness.**  The top wire `k` (the target) is touched, for every `k` on which the
model is defined. -/
theorem qdmcu_uses_top (o : McxAngles Θ) (neg : Θ → Θ) (k : Nat) (cs : Option (List Bool))
    (c : List (LG Θ)) (h : qdmcu o neg k cs = some c) : Uses lgWires k c :=
  mcu2_qdmcuRec_uses o neg _ _ _ _ _ c h

/-- Non-vacuity: 3 controls, mixed pattern, toy angle type `Unit`: the generator returns `some`,
the list is below 4 and not below 3. -/
example : ∃ c, qdmcu (Θ := Unit) ⟨(), (), ()⟩ id 3 (some [true, false, true]) = some c
    ∧ Below lgWires 4 c ∧ Uses lgWires 3 c ∧ ¬ Below lgWires 3 c := by
  refine ⟨_, rfl, ?_, ?_, ?_⟩ <;> decide

/-! ### `Mcg` -/

theorem lg_range_append_lt {k w : Nat} (hw : w ∈ List.range k ++ [k]) : w < k + 1 := by
  simp only [List.mem_append, List.mem_range, List.mem_singleton] at hw
  omega

/-- **Mcg, soundness.**  For every `k`, pattern and dispatch flags the (single) gate of
`Mcg._define` — the plain unitary, the one-control gate, or the call of `Ldmcsu` / the nested `Mcg` /
`Ldmcu` on controls `0..k-1` and target `k` — acts on wires below the declared width `k + 1`. -/
theorem mcg_below (k : Nat) (cs : Option (List Bool)) (su2 utd : Bool) (c : List (LG Θ))
    (h : mcg k cs su2 utd = some c) :
    Below lgWires (Widths.declaredWidth .mcg { k := k }) c := by
  show Below lgWires (k + 1) c
  unfold mcg at h
  split at h
  · rename_i hk
    simp only [Option.some.injEq] at h
    subst h
    rw [below_singleton]; intro w hw
    simp only [lgWires, List.mem_singleton] at hw; omega
  · split at h
    · rename_i hk
      simp only [Option.some.injEq] at h
      subst h
      rw [below_singleton]; intro w hw
      simp only [lgWires, List.mem_cons, List.not_mem_nil, or_false] at hw; omega
    · split at h
      · simp only [Option.some.injEq] at h
        subst h
        rw [below_singleton]; intro w hw
        exact lg_range_append_lt hw
      · split at h <;>
        · simp only [Option.some.injEq] at h
          subst h
          rw [below_singleton]; intro w hw
          exact lg_range_append_lt hw

/-- **Mcg, tightness.**  The top wire `k` is touched, for every `k` and all flags. -/
theorem mcg_uses_top (k : Nat) (cs : Option (List Bool)) (su2 utd : Bool) (c : List (LG Θ))
    (h : mcg k cs su2 utd = some c) : Uses lgWires k c := by
  unfold mcg at h
  split at h
  · rename_i hk
    simp only [Option.some.injEq] at h
    subst h; subst hk
    exact uses_cons_self _ (by simp [lgWires])
  · split at h
    · rename_i hk
      simp only [Option.some.injEq] at h
      subst h; subst hk
      exact uses_cons_self _ (by simp [lgWires])
    · split at h
      · simp only [Option.some.injEq] at h
        subst h
        exact uses_cons_self _ (by simp [lgWires])
      · split at h <;>
        · simp only [Option.some.injEq] at h
          subst h
          exact uses_cons_self _ (by simp [lgWires])

example : ∃ c, mcg (Θ := Unit) 5 (some [true, false, true, true, false]) false false = some c
    ∧ Below lgWires 6 c ∧ Uses lgWires 5 c ∧ ¬ Below lgWires 5 c := by
  refine ⟨_, rfl, ?_, ?_, ?_⟩ <;> decide

/-! ### `MCU` (approximate) -/

theorem lg_foldl_inv {α β : Type} (P : α → Prop) (I : β → Prop) (step : β → α → β)
    (hstep : ∀ acc a, P a → I acc → I (step acc a)) :
    ∀ (l : List α) (acc : β), (∀ a ∈ l, P a) → I acc → I (l.foldl step acc) := by
  intro l
  induction l with
  | nil => intro acc _ h; exact h
  | cons a l ih =>
    intro acc hP h
    rw [List.foldl_cons]
    exact ih _ (fun x hx => hP x (List.mem_cons_of_mem _ hx))
      (hstep _ _ (hP a List.mem_cons_self) h)

theorem mcu2_mcuC1c2_below (nq : Nat) (b : Int) (first fwd : Bool)
    (hb : (if first then b + 1 else b) ≤ (nq : Int)) :
    Below lgWires nq (mcuC1c2 (Θ := Θ) nq b first fwd) := by
  unfold mcuC1c2
  simp only []
  generalize hN : (if first = true then b + 1 else b) = nBase at hb ⊢
  refine (lg_foldl_inv (fun pr : Nat × Nat => pr.1 < pr.2 ∧ pr.2 < nBase.toNat)
    (fun acc : List (LG Θ) × List (Nat × Int) × List Nat =>
      Below lgWires nq acc.1 ∧ ∀ w ∈ acc.2.2, w < nq) _ ?_ _ _ ?_ ?_).1
  · rintro ⟨out, ulist, tgts⟩ pr ⟨h1, h2⟩ ⟨ho, ht⟩
    simp only [] at ho ht ⊢
    have he : pr.2 + ((nq : Int) - nBase).toNat < nq := by omega
    have he1 : ((nq : Int) - nBase).toNat + 1 ≤ nq := by omega
    generalize ((nq : Int) - nBase).toNat = e at he he1 ⊢
    have hnew : ∀ w ∈ tgts ++ [pr.2 + e], w < nq := by
      intro w hw
      rcases List.mem_append.mp hw with h | h
      · exact ht w h
      · rw [List.mem_singleton] at h; omega
    split
    · split
      · refine ⟨below_append.mpr ⟨ho, ?_⟩, ht⟩
        rw [below_singleton]; intro w hw
        simp only [lgWires, List.mem_cons, List.not_mem_nil, or_false] at hw; omega
      · exact ⟨ho, ht⟩
    · split
      · split
        · refine ⟨below_append.mpr ⟨ho, ?_⟩, hnew⟩
          rw [below_singleton]; intro w hw
          simp only [lgWires] at hw
          rcases List.mem_append.mp hw with h | h
          · have := List.mem_range.mp h; omega
          · exact hnew w h
        · exact ⟨ho, hnew⟩
      · refine ⟨below_append.mpr ⟨ho, ?_⟩, ht⟩
        rw [below_singleton]; intro w hw
        simp only [lgWires, List.mem_cons, List.not_mem_nil, or_false] at hw; omega
  · intro pr hpr; exact mcu2_pair_bounds hpr
  · exact ⟨below_nil, fun w hw => absurd hw List.not_mem_nil⟩

theorem lg_foldl_emit {α β γ : Type} (proj : β → List γ) (step : β → α → β) (g0 : γ) (a0 : α)
    (hmono : ∀ acc a, g0 ∈ proj acc → g0 ∈ proj (step acc a))
    (hemit : ∀ acc, g0 ∈ proj (step acc a0)) :
    ∀ (l : List α) (acc : β), a0 ∈ l → g0 ∈ proj (l.foldl step acc) := by
  intro l
  induction l with
  | nil => intro acc h; exact absurd h List.not_mem_nil
  | cons a l ih =>
    intro acc h
    rw [List.foldl_cons]
    rcases List.mem_cons.mp h with rfl | h
    · exact lg_foldl_inv (fun _ => True) (fun acc => g0 ∈ proj acc) step
        (fun acc a _ h => hmono acc a h) l _ (fun _ _ => trivial) (hemit acc)
    · exact ih _ h

/-- With at least two base controls the first sweep emits the root gate `croot (k-b+1) k`. -/
theorem mcu2_mcuC1c2_uses (k : Nat) (b : Int) (h2 : 2 ≤ b) (hbk : b ≤ (k : Int)) :
    Uses lgWires k (mcuC1c2 (Θ := Θ) (k + 1) b true true) := by
  have hm : (1, b.toNat) ∈ qubitPairs (b + 1).toNat true :=
    mem_qubitPairs.mpr ⟨Nat.zero_le _, by omega, by omega⟩
  refine ⟨LG.croot (1 + (((k + 1 : Nat) : Int) - (b + 1)).toNat)
    (b.toNat + (((k + 1 : Nat) : Int) - (b + 1)).toNat) true (param (1, b.toNat))
    (signal (1, b.toNat) true true), ?_, ?_⟩
  · unfold mcuC1c2
    simp only [if_true]
    refine lg_foldl_emit (fun acc : List (LG Θ) × List (Nat × Int) × List Nat => acc.1) _ _
      (1, b.toNat) ?_ ?_ _ _ hm
    · rintro ⟨out, ulist, tgts⟩ pr h
      simp only [] at h ⊢
      split
      · split
        · exact List.mem_append_left _ h
        · exact h
      · split
        · split
          · exact List.mem_append_left _ h
          · exact h
        · exact List.mem_append_left _ h
    · rintro ⟨out, ulist, tgts⟩
      simp only []
      rw [if_pos ⟨by omega, trivial⟩, if_pos (by omega)]
      exact List.mem_append_right _ List.mem_cons_self
  · simp only [lgWires, List.mem_cons, List.not_mem_nil, or_false]
    right; omega

/-- With at most one base control (`b = 1` or `b < 0`) every sweep is empty. -/
theorem mcu2_mcuC1c2_nil (nq : Nat) (b : Int) (first fwd : Bool) (hb : b ≤ 1) :
    mcuC1c2 (Θ := Θ) nq b first fwd = [] := by
  unfold mcuC1c2
  simp only []
  generalize hN : (if first = true then b + 1 else b) = nBase
  refine lg_foldl_inv (fun pr : Nat × Nat => pr.1 < pr.2 ∧ pr.2 < nBase.toNat)
    (fun acc : List (LG Θ) × List (Nat × Int) × List Nat => acc.1 = []) _ ?_ _ _ ?_ rfl
  · rintro ⟨out, ulist, tgts⟩ pr ⟨h1, h2⟩ ho
    simp only [] at ho ⊢
    cases first
    · simp only [Bool.false_eq_true, if_false] at hN
      omega
    · simp only [if_true] at hN
      rw [if_pos ⟨by omega, rfl⟩, if_neg (by omega)]
      exact ho
  · intro pr hpr; exact mcu2_pair_bounds hpr

theorem mcu2_accept {k : Nat} {b : Int} (h : mcuAccept k b = true) : b ≠ 0 ∧ b ≤ (k : Int) := by
  unfold mcuAccept at h
  simp only [Bool.and_eq_true, Bool.not_eq_true', beq_eq_false_iff_ne, ne_eq,
    decide_eq_false_iff_not, Int.not_lt] at h
  exact ⟨h.1, by omega⟩

/-- **MCU, soundness.**  For every `k`, every base-control count `b` the constructor accepts and
every control pattern, every gate of `MCU(U, k, error, ctrl_state).definition` — the `x` gates, the
controlled roots, the `crx`, and the `MultiTargetMCSU2` calls with their control and target lists —
acts on wires below the declared width `k + 1`. -/
theorem mcu_below (k : Nat) (b : Int) (cs : Option (List Bool)) (c : List (LG Θ))
    (h : mcu k b cs = some c) :
    Below lgWires (Widths.declaredWidth .mcu { k := k }) c := by
  show Below lgWires (k + 1) c
  unfold mcu at h
  split at h
  · exact absurd h (by simp)
  · rename_i hacc
    have ha := mcu2_accept (by simpa using hacc)
    split at h
    · simp only [Option.some.injEq] at h
      subst h
      rw [below_singleton]; intro w hw
      simp only [lgWires, List.mem_singleton] at hw; omega
    · split at h
      · exact absurd h (by simp)
      · rename_i xs hxs
        simp only [Option.some.injEq] at h
        subst h
        have hx := below_mono (lg_ctrlXsL_below hxs) (Nat.le_succ k)
        have h1 : ∀ fwd, Below lgWires (k + 1) (mcuC1c2 (Θ := Θ) (k + 1) b true fwd) :=
          fun fwd => mcu2_mcuC1c2_below (k + 1) b true fwd (by simp only [if_true]; omega)
        have h2 : ∀ fwd, Below lgWires (k + 1) (mcuC1c2 (Θ := Θ) k b false fwd) :=
          fun fwd => below_mono (mcu2_mcuC1c2_below k b false fwd
            (by simp only [Bool.false_eq_true, if_false]; omega)) (Nat.le_succ k)
        exact below_append.mpr ⟨below_append.mpr ⟨below_append.mpr ⟨below_append.mpr
          ⟨below_append.mpr ⟨hx, h1 _⟩, h1 _⟩, h2 _⟩, h2 _⟩, hx⟩

/-- **MCU, tightness.**  With no control (`k = 0`), or with at least two base controls
(`2 ≤ b`), the top wire `k` (the target) is touched. -/
theorem mcu_uses_top (k : Nat) (b : Int) (cs : Option (List Bool)) (c : List (LG Θ))
    (h : mcu k b cs = some c) (hb : k = 0 ∨ 2 ≤ b) : Uses lgWires k c := by
  unfold mcu at h
  split at h
  · exact absurd h (by simp)
  · rename_i hacc
    have ha := mcu2_accept (by simpa using hacc)
    split at h
    · rename_i hk
      simp only [Option.some.injEq] at h
      subst h; subst hk
      exact uses_cons_self _ (by simp [lgWires])
    · rename_i hk
      split at h
      · exact absurd h (by simp)
      · rename_i xs hxs
        simp only [Option.some.injEq] at h
        subst h
        have h2 : 2 ≤ b := by omega
        apply uses_append_left
        apply uses_append_left
        apply uses_append_left
        apply uses_append_left
        apply uses_append_right
        exact mcu2_mcuC1c2_uses k b h2 ha.2

/-- **MCU, the exception to tightness** (the model of the real code; known from `C04_mcu_operator`:
such base counts are accepted and give the identity).  With `k ≥ 1` controls and a base-control
count `b = 1` or `b < 0`, all four sweeps are empty: the definition consists of the `x` gates of the
control pattern only, every gate is below `k`, and the declared top wire `k` (the target) is touched
by NO gate. -/
theorem mcu_top_unused (k : Nat) (b : Int) (cs : Option (List Bool)) (c : List (LG Θ))
    (h : mcu k b cs = some c) (hk : 1 ≤ k) (hb : b ≤ 1) :
    Below lgWires k c ∧ ¬ Uses lgWires k c := by
  suffices hbl : Below lgWires k c from ⟨hbl, not_uses_of_below hbl⟩
  unfold mcu at h
  split at h
  · exact absurd h (by simp)
  · split at h
    · omega
    · split at h
      · exact absurd h (by simp)
      · rename_i xs hxs
        simp only [Option.some.injEq] at h
        subst h
        simp only [mcu2_mcuC1c2_nil _ b _ _ hb, List.append_nil]
        have hx := lg_ctrlXsL_below hxs
        exact below_append.mpr ⟨hx, hx⟩

/-- Non-vacuity (as for `ldmcu`, `decide` cannot evaluate the sorted pair schedule): `k = 5`
controls, `b = 3` base controls, a mixed pattern: accepted, below 6, touches wire 5, not below 5. -/
example : ∃ c, mcu (Θ := Unit) 5 3 (some [true, false, true, true, false]) = some c
    ∧ Below lgWires 6 c ∧ Uses lgWires 5 c ∧ ¬ Below lgWires 5 c := by
  refine ⟨_, rfl, ?_, ?_, ?_⟩
  · exact mcu_below 5 3 (some [true, false, true, true, false]) _ rfl
  · exact mcu_uses_top 5 3 (some [true, false, true, true, false]) _ rfl (Or.inr (by decide))
  · exact fun h => not_uses_of_below h
      (mcu_uses_top 5 3 (some [true, false, true, true, false]) _ rfl (Or.inr (by decide)))

/-- The exception is inhabited: `MCU` with 3 controls and base count `1` (resp. `-2`) is accepted
and its definition never touches the target wire 3. -/
example : (∃ c, mcu (Θ := Unit) 3 1 (some [true, false, true]) = some c ∧ ¬ Uses lgWires 3 c)
    ∧ (∃ c, mcu (Θ := Unit) 3 (-2) none = some c ∧ ¬ Uses lgWires 3 c) := by
  refine ⟨⟨_, rfl, ?_⟩, ⟨_, rfl, ?_⟩⟩
  · exact (mcu_top_unused 3 1 (some [true, false, true]) _ rfl (by decide) (by decide)).2
  · exact (mcu_top_unused 3 (-2) none _ rfl (by decide) (by decide)).2

end WL
end Qclib
