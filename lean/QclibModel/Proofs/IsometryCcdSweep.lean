import QclibModel.Proofs.IsometryCcd
import Mathlib.Tactic.Ring
import Mathlib.Algebra.Ring.Int.Defs
/-
  C03 — column-by-column decomposition, part 3:

  * the chooser the code uses (`_unitary` = Lemma 2, identity on a zero pair) satisfies the zeroing
    hypotheses of `ccd_zeroes_column` over any commutative ring (`codeChooser_zeroing`);
  * the sweep over the columns `0 … K-1` on a family of columns (`ccd_sweep`);
  * concrete instances (non-vacuity).
-/
namespace Qclib.Iso

/-! ### the code's chooser -/

section chooser
variable {R : Type}

/-- `_unitary([[a],[b]], basis)`: the identity when the pair is (recognised as) zero, Lemma 2 with
normalisation `s a b` otherwise. -/
def codeUnitary [Mul R] [Neg R] [Zero R] [One R] (conj : R → R) (s : R → R → R)
    (z : R → R → Bool) (a b : R) (basis : Nat) : Mat2 R :=
  if z a b then Mat2.one else lemma2 conj (s a b) a b basis

/-- `_mc_unitary` / `_uc_unitaries`: Lemma 2 on the pairs `mcIdx`, `ucIdx` of the current column,
with `basis = 0` for the MCG and `basis = _k_s(k, i)` for the UCG blocks. -/
def codeChooser [Mul R] [Neg R] [Zero R] [One R] (conj : R → R) (s : R → R → R)
    (z : R → R → Bool) : Chooser R where
  mc k i w := codeUnitary conj s z (w (mcIdx k i).1) (w (mcIdx k i).2) 0
  uc k i w j := codeUnitary conj s z (w (ucIdx k i j).1) (w (ucIdx k i j).2) (kS k i)

variable [CommRing R]

/-- Lemma 2, `basis = 0`: the second row of the matrix annihilates `(a, b)` (any normalisation
`s`, any conjugation). -/
theorem lemma2_basis0_zeroes (conj : R → R) (s a b : R) :
    (lemma2 conj s a b 0).c * a + (lemma2 conj s a b 0).d * b = 0 := by
  simp only [lemma2, if_true]; ring

/-- Lemma 2, `basis = 1`: the first row of the matrix annihilates `(a, b)`. -/
theorem lemma2_basis1_zeroes (conj : R → R) (s a b : R) :
    (lemma2 conj s a b 1).a * a + (lemma2 conj s a b 1).b * b = 0 := by
  simp only [lemma2, if_neg (by decide : ¬ (1 = 0))]; ring

theorem codeUnitary_basis0_zeroes (conj : R → R) (s : R → R → R) (z : R → R → Bool)
    (hz : ∀ a b, z a b = true → a = 0 ∧ b = 0) (a b : R) :
    (codeUnitary conj s z a b 0).c * a + (codeUnitary conj s z a b 0).d * b = 0 := by
  unfold codeUnitary
  cases h : z a b
  · simp only [Bool.false_eq_true, if_false]; exact lemma2_basis0_zeroes conj _ a b
  · obtain ⟨ha, hb⟩ := hz a b h
    simp [ha, hb]

theorem codeUnitary_basis1_zeroes (conj : R → R) (s : R → R → R) (z : R → R → Bool)
    (hz : ∀ a b, z a b = true → a = 0 ∧ b = 0) (a b : R) :
    (codeUnitary conj s z a b 1).a * a + (codeUnitary conj s z a b 1).b * b = 0 := by
  unfold codeUnitary
  cases h : z a b
  · simp only [Bool.false_eq_true, if_false]; exact lemma2_basis1_zeroes conj _ a b
  · obtain ⟨ha, hb⟩ := hz a b h
    simp [ha, hb]

/-- **The code's chooser satisfies the zeroing hypotheses** for every column, every `n`, `k`: over
any commutative ring, with any conjugation and normalisation, provided the zero test `z` only
accepts the zero pair. -/
theorem codeChooser_zeroing (conj : R → R) (s : R → R → R) (z : R → R → Bool)
    (hz : ∀ a b, z a b = true → a = 0 ∧ b = 0) (n k : Nat) :
    (codeChooser conj s z).Zeroing n k := by
  intro i _ w
  refine ⟨fun _ => codeUnitary_basis0_zeroes conj s z hz _ _, ?_⟩
  intro j _ _
  refine ⟨fun h0 => ?_, fun h1 => ?_⟩
  · show (codeUnitary conj s z _ _ (kS k i)).c * _ + (codeUnitary conj s z _ _ (kS k i)).d * _ = 0
    rw [h0]; exact codeUnitary_basis0_zeroes conj s z hz _ _
  · show (codeUnitary conj s z _ _ (kS k i)).a * _ + (codeUnitary conj s z _ _ (kS k i)).b * _ = 0
    rw [h1]; exact codeUnitary_basis1_zeroes conj s z hz _ _

/-- `G_k` with the code's chooser zeroes column `k` off the pivot (all `n`, `k < 2^n`, any column
vanishing above row `k`). -/
theorem ccd_zeroes_column_code (conj : R → R) (s : R → R → R) (z : R → R → Bool)
    (hz : ∀ a b, z a b = true → a = 0 ∧ b = 0) (n k : Nat) (hk : k < 2 ^ n)
    (v : Nat → R) (hv : ∀ r, r < k → v r = 0) :
    ∀ r, r < 2 ^ n → r ≠ k → gkCol (codeChooser conj s z) n k n v r = 0 :=
  ccd_zeroes_column _ n k hk (codeChooser_zeroing conj s z hz n k) v hv

end chooser

/-! ### the sweep over the columns -/

section sweep
variable {R : Type} [Semiring R]

/-- The column after the MCG of step `(k, i)` along the trajectory of `v` under `G_k`. -/
def afterMc (ch : Chooser R) (n k i : Nat) (v : Nat → R) : Nat → R :=
  if hasMcg k i then applyOn i (mcMat n k i (ch.mc k i (gkCol ch n k i v))) (gkCol ch n k i v)
  else gkCol ch n k i v

/-- The chooser that replays, on ANY column, the matrices `ch` picks along the trajectory of column
`v` under `G_k` — this is how `G_k` (computed from column `k`) acts on the other columns of the
working isometry (`_update_isometry`). -/
def replay (ch : Chooser R) (n k : Nat) (v : Nat → R) : Chooser R where
  mc _ i _ := ch.mc k i (gkCol ch n k i v)
  uc _ i _ := ch.uc k i (afterMc ch n k i v)

/-- On the column the matrices were computed from, replaying is `G_k` itself. -/
theorem gkCol_replay_self (ch : Chooser R) (n k s : Nat) (v : Nat → R) :
    gkCol (replay ch n k v) n k s v = gkCol ch n k s v := by
  induction s with
  | zero => rfl
  | succ s ih =>
    rw [gkCol_succ, gkCol_succ, ih]
    rfl

/-- `G_k` applied to the whole family of columns `F` (`F c` = column `c` of the working
isometry): the matrices are chosen from column `k`. -/
def sweepStep (ch : Chooser R) (n k : Nat) (F : Nat → Nat → R) : Nat → Nat → R :=
  fun c => gkCol (replay ch n k (F k)) n k n (F c)

/-- `G_{K-1} ⋯ G_1 G_0` applied to the family `F`. -/
def sweep (ch : Chooser R) (n : Nat) : Nat → (Nat → Nat → R) → (Nat → Nat → R)
  | 0, F => F
  | K + 1, F => sweepStep ch n K (sweep ch n K F)

/-- **The sweep.**  For `K ≤ 2^n` columns, a chooser satisfying Lemma 2, and provided that each time
a column `k` is processed it vanishes on the rows `< k` (for an isometry this follows from
orthogonality to the processed columns `e_0 … e_{k-1}`; it is a hypothesis here — unitarity of the
gates is not part of this model), after `G_{K-1} ⋯ G_0` every column `c < K` is a multiple of `e_c`
on the rows `< 2^n`. -/
theorem ccd_sweep (ch : Chooser R) (n K : Nat) (hK : K ≤ 2 ^ n)
    (hch : ∀ k, k < K → ch.Zeroing n k) (F : Nat → Nat → R)
    (horth : ∀ k, k < K → ∀ r, r < k → sweep ch n k F k r = 0) :
    ∀ c, c < K → ∀ r, r < 2 ^ n → r ≠ c → sweep ch n K F c r = 0 := by
  induction K with
  | zero => intro c hc; omega
  | succ K ih =>
    intro c hc r hr hne
    have ih' := ih (by omega) (fun k hk => hch k (by omega)) (fun k hk => horth k (by omega))
    show gkCol (replay ch n K (sweep ch n K F K)) n K n (sweep ch n K F c) r = 0
    by_cases hcK : c = K
    · subst hcK
      rw [gkCol_replay_self]
      exact ccd_zeroes_column ch n c (by omega) (hch c (by omega)) _ (horth c (by omega)) r hr hne
    · have hcl : c < K := by omega
      rw [ccd_preserves_gk_lt _ n K n (Nat.le_refl n) (by omega) _
        (fun r' h1 h2 => ih' c hcl r' h2 (by omega)) r hr]
      exact ih' c hcl r hr hne

end sweep

/-! ### concrete instances (non-vacuity) -/

section examples

/-- The code's chooser over `ℤ` (trivial conjugation, normalisation `1`, exact zero test). -/
def intChooser : Chooser Int := codeChooser id (fun _ _ => 1) (fun a b => a == 0 && b == 0)

theorem intChooser_zeroing (n k : Nat) : intChooser.Zeroing n k :=
  codeChooser_zeroing _ _ _ (by intro a b h; simpa using h) n k

/-- a column on 2 qubits that vanishes above row `1` -/
def exCol : Nat → Int := fun r => match r with | 1 => 3 | 2 => 4 | 3 => 12 | _ => 0

/-- `G_1` on two qubits (one MCG-free step with `start = 1`, then a step on bit 1) maps
`(0, 3, 4, 12)` to a multiple of `e_1`; the pivot is non-zero. -/
example : (List.range 4).map (gkCol intChooser 2 1 2 exCol) = [0, 25609, 0, 0] := by decide

/-- a column on 3 qubits for `k = 2` (vanishes on rows 0, 1) -/
def exCol3 : Nat → Int := fun r => match r with
  | 2 => 1 | 3 => 2 | 4 => 2 | 5 => 1 | 6 => 1 | 7 => 1 | _ => 0

/-- `G_2` on three qubits zeroes everything but row 2; `ccd_zeroes_column` applies. -/
example : ∀ r, r < 2 ^ 3 → r ≠ 2 → gkCol intChooser 3 2 3 exCol3 r = 0 :=
  ccd_zeroes_column intChooser 3 2 (by decide) (intChooser_zeroing 3 2) exCol3
    (by intro r hr; match r, hr with | 0, _ => rfl | 1, _ => rfl)

/-- The MCG is scheduled in the previous example's neighbour `k = 1`, `i = 1` (bit 1 of `k` is `0`,
`k mod 4 ≠ 0`) with pair `(1, 3)`, controlled on wire … bit 0; the UCG then starts at block `1`. -/
example : hasMcg 1 1 = true ∧ mcIdx 1 1 = (1, 3) ∧ ucStart 1 1 = 1 ∧ mcCtrls 2 1 1 = [1] := by
  decide

/-- A processed column (`5·e_0`) is untouched by `G_1`. -/
example : gkCol intChooser 2 1 2 (fun r => if r = 0 then 5 else 0) =
    (fun r => if r = 0 then 5 else 0) :=
  ccd_preserves_gk intChooser 2 1 2 (Nat.le_refl 2) (by decide) _
    (by intro r hr; simp only [show r ≠ 0 by omega, if_false])

end examples

end Qclib.Iso
