import QclibModel.Proofs.RotReal
import QclibModel.Model.BlackBox
import Mathlib.Analysis.SpecialFunctions.Trigonometric.Inverse
import Mathlib.Analysis.SpecialFunctions.Complex.Arg
/-
  C19, K3 over ℝ/ℂ: the real instance of the numeric operations of the model, the oracle angles
  `2·arccos|a|`, `−2·arg a`, and the amplitude identity behind `C19_oracle`.
-/
namespace Qclib
open Complex

/-- Exact-real instance of the numeric operations (`Float` twin: `floatTrig` in Drivers/C19.lean). -/
noncomputable def realTrig : TrigOps ℝ where
  ofNat n := (n : ℝ)
  add := (· + ·)
  mul := (· * ·)
  div := (· / ·)
  neg := fun x => -x
  sqrt := Real.sqrt
  acos := Real.arccos
  clip01 := fun x => max 0 (min x 1)
  atan2 := fun y x => Complex.arg ⟨x, y⟩
  pi := Real.pi
  toNat := fun x => ⌊x⌋₊

/-- `theta` of the code for the amplitude `a` (with `|a| ≤ 1` the clip is the identity). -/
noncomputable def thetaOf (a : ℂ) : ℝ := 2 * Real.arccos ‖a‖

/-- `phi` of the code for the amplitude `a`. -/
noncomputable def phiOf (a : ℂ) : ℝ := -2 * Complex.arg a

theorem theta_real (re im : Nat → ℝ) (k : Nat) (h : ‖(⟨re k, im k⟩ : ℂ)‖ ≤ 1) :
    BlackBox.theta realTrig re im k = thetaOf ⟨re k, im k⟩ := by
  have hn : ‖(⟨re k, im k⟩ : ℂ)‖ = Real.sqrt (re k * re k + im k * im k) := by
    rw [Complex.norm_def, Complex.normSq_mk]
  simp only [BlackBox.theta, BlackBox.absC, realTrig, thetaOf]
  rw [← hn, min_eq_left h, max_eq_right (norm_nonneg _)]
  norm_num

theorem phi_real (re im : Nat → ℝ) (k : Nat) :
    BlackBox.phi realTrig re im k = phiOf ⟨re k, im k⟩ := by
  simp only [BlackBox.phi, realTrig, phiOf]
  norm_num

/-- `cos(θ/2) = |a|` for `θ = 2·arccos|a|`, `|a| ≤ 1` (valid at `|a| = 0` and `|a| = 1`). -/
theorem cs_thetaOf (a : ℂ) (h : ‖a‖ ≤ 1) : (RotSem.cs (thetaOf a) : ℂ) = (‖a‖ : ℂ) := by
  show ((Real.cos (thetaOf a / 2) : ℝ) : ℂ) = _
  have : thetaOf a / 2 = Real.arccos ‖a‖ := by unfold thetaOf; ring
  rw [this, Real.cos_arccos (by linarith [norm_nonneg a]) h]

/-- `sin(θ/2) = √(1 − |a|²)`. -/
theorem sn_thetaOf (a : ℂ) : (RotSem.sn (thetaOf a) : ℂ) = ((Real.sqrt (1 - ‖a‖ ^ 2) : ℝ) : ℂ) := by
  show ((Real.sin (thetaOf a / 2) : ℝ) : ℂ) = _
  have : thetaOf a / 2 = Real.arccos ‖a‖ := by unfold thetaOf; ring
  rw [this, Real.sin_arccos]

/-- `RZ(φ)` with `φ = −2·arg a` multiplies flag 0 by `e^{−iφ/2} = e^{+i·arg a}`. -/
theorem exb_phiOf (a : ℂ) : (RotSem.exb (phiOf a) : ℂ) = Complex.exp (Complex.arg a * Complex.I) := by
  show Complex.exp (-(((phiOf a / 2 : ℝ) : ℂ) * Complex.I)) = _
  congr 1
  unfold phiOf; push_cast; ring

theorem ex_phiOf (a : ℂ) :
    (RotSem.ex (phiOf a) : ℂ) = Complex.exp (((-Complex.arg a : ℝ) : ℂ) * Complex.I) := by
  show Complex.exp (((phiOf a / 2 : ℝ) : ℂ) * Complex.I) = _
  congr 1
  unfold phiOf; push_cast; ring

/-- Flag-0 amplitude of `RZ(−2 arg a)·RY(2 arccos|a|)|0⟩` is exactly `a`. -/
theorem oracle_flag0 (a : ℂ) (h : ‖a‖ ≤ 1) :
    (RotSem.exb (phiOf a) : ℂ) * RotSem.cs (thetaOf a) = a := by
  rw [cs_thetaOf a h, exb_phiOf, mul_comm]
  exact Complex.norm_mul_exp_arg_mul_I a

/-- Flag-1 amplitude has modulus `√(1 − |a|²)`. -/
theorem oracle_flag1_norm (a : ℂ) :
    ‖(RotSem.ex (phiOf a) : ℂ) * RotSem.sn (thetaOf a)‖ = Real.sqrt (1 - ‖a‖ ^ 2) := by
  rw [sn_thetaOf, ex_phiOf, norm_mul, Complex.norm_exp_ofReal_mul_I, one_mul, Complex.norm_real,
    Real.norm_of_nonneg (Real.sqrt_nonneg _)]

/-- `np.linalg.norm` of the model is `√(Σ_k |a_k|²)`. -/
theorem normV_real (N : Nat) (re im : Nat → ℝ) :
    BlackBox.normV realTrig N re im
      = Real.sqrt (∑ k ∈ Finset.range N, Complex.normSq ⟨re k, im k⟩) := by
  simp only [BlackBox.normV, realTrig]
  congr 1
  induction N with
  | zero => simp
  | succ N ih =>
    rw [List.range_succ, List.foldl_append, ih, Finset.sum_range_succ, Complex.normSq_mk]
    simp

/-- The repetition count of the model over ℝ: `⌊(π/4)·(√N / ‖v‖)⌋`. -/
theorem reps_real (N : Nat) (re im : Nat → ℝ) :
    BlackBox.reps realTrig N re im
      = ⌊Real.pi / 4 * (Real.sqrt N / BlackBox.normV realTrig N re im)⌋₊ := by
  simp only [BlackBox.reps, BlackBox.repsOfNorm, realTrig]
  norm_num

end Qclib
