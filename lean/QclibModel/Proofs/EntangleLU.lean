import QclibModel.Proofs.EntangleMw
import QclibModel.Proofs.EntangleModel
/-
  C20 — invariance of the Meyer–Wallach value under a one-qubit unitary, and under relabelling.
-/
namespace Qclib.Ent
open Finset Complex

/-! ### bit bookkeeping: inserting at `k` commutes with acting on another position `q` -/

/-- position of qubit `q` among the remaining qubits after qubit `k` is removed -/
def posAfterDel (k q : ℕ) : ℕ := if q < k then q else q - 1

theorem testBit_insBit_other {k q : ℕ} (hqk : q ≠ k) (s : Bool) (r : ℕ) :
    (insBit k s r).testBit q = r.testBit (posAfterDel k q) := by
  rw [testBit_insBit]; unfold posAfterDel
  by_cases h : q < k <;> simp [h, hqk]

theorem insBit_comm {k q : ℕ} (hqk : q ≠ k) (s c : Bool) (r : ℕ) :
    insBit q c (delBit q (insBit k s r))
      = insBit k s (insBit (posAfterDel k q) c (delBit (posAfterDel k q) r)) := by
  apply Nat.eq_of_testBit_eq; intro i
  unfold posAfterDel
  simp only [testBit_insBit, testBit_delBit]
  split_ifs <;> first | rfl | (exfalso; omega) | (congr 1; omega)

/-! ### the acted qubit -/

theorem slice_apply1_self (U : Bool → Bool → ℂ) (q : ℕ) (ψ : ℕ → ℂ) (c : Bool) (r : ℕ) :
    slice (apply1 U q ψ) q c r = U c false * slice ψ q false r + U c true * slice ψ q true r := by
  unfold slice apply1
  rw [testBit_insBit_self, delBit_insBit]

theorem crossSum_mix (m : ℕ) (a b c d : ℂ) (u v : ℕ → ℂ) :
    crossSum m (fun r => a * u r + b * v r) (fun r => c * u r + d * v r)
      = normSq (a * d - b * c) * crossSum m u v := by
  unfold crossSum
  rw [mul_sum]; apply sum_congr rfl; intro j _
  rw [mul_sum]; apply sum_congr rfl; intro i _
  rw [← normSq_mul]; congr 1; ring

theorem det_unitary {U : Bool → Bool → ℂ} (hU : IsUnitary2 U) :
    normSq (U false false * U true true - U false true * U true false) = 1 := by
  obtain ⟨h1, h2, h3⟩ := hU
  have key : normSq (U false false * U true true - U false true * U true false)
      = (normSq (U false false) + normSq (U true false)) * (normSq (U false true) + normSq (U true true))
        - normSq ((starRingEnd ℂ) (U false false) * U false true + (starRingEnd ℂ) (U true false) * U true true) := by
    simp only [normSq_apply, mul_re, mul_im, sub_re, sub_im, add_re, add_im, conj_re, conj_im]
    ring
  rw [key, h1, h2, h3]; simp

/-! ### a unitary on one position preserves norms and inner products -/

theorem normSq_eq_conj_mul (z : ℂ) : ((normSq z : ℝ) : ℂ) = (starRingEnd ℂ) z * z := by
  rw [mul_comm, mul_conj]

theorem apply1_ins (U : Bool → Bool → ℂ) (q : ℕ) (u : ℕ → ℂ) (c : Bool) (r : ℕ) :
    apply1 U q u (insBit q c r) = U c false * u (insBit q false r) + U c true * u (insBit q true r) := by
  unfold apply1; rw [testBit_insBit_self, delBit_insBit]

theorem inner_apply1 {U : Bool → Bool → ℂ} (hU : IsUnitary2 U) {n q : ℕ} (hq : q < n) (u v : ℕ → ℂ) :
    inner (2 ^ n) (apply1 U q u) (apply1 U q v) = inner (2 ^ n) u v := by
  obtain ⟨h1, h2, h3⟩ := hU
  have h1c : (starRingEnd ℂ) (U false false) * U false false + (starRingEnd ℂ) (U true false) * U true false = 1 := by
    rw [← normSq_eq_conj_mul, ← normSq_eq_conj_mul, ← ofReal_add, h1]; simp
  have h2c : (starRingEnd ℂ) (U false true) * U false true + (starRingEnd ℂ) (U true true) * U true true = 1 := by
    rw [← normSq_eq_conj_mul, ← normSq_eq_conj_mul, ← ofReal_add, h2]; simp
  have h3c : (starRingEnd ℂ) (U false true) * U false false + (starRingEnd ℂ) (U true true) * U true false = 0 := by
    have := congrArg (starRingEnd ℂ) h3
    simpa [map_add, map_mul, mul_comm] using this
  unfold inner
  rw [sum_split_bit hq, sum_split_bit hq (fun b => (starRingEnd ℂ) (u b) * v b), ← sum_add_distrib,
    ← sum_add_distrib]
  apply sum_congr rfl; intro r _
  simp only [apply1_ins, map_add, map_mul]
  linear_combination
    ((starRingEnd ℂ) (u (insBit q false r)) * v (insBit q false r)) * h1c
    + ((starRingEnd ℂ) (u (insBit q true r)) * v (insBit q true r)) * h2c
    + ((starRingEnd ℂ) (u (insBit q false r)) * v (insBit q true r)) * h3
    + ((starRingEnd ℂ) (u (insBit q true r)) * v (insBit q false r)) * h3c

theorem nrm2_eq_inner (m : ℕ) (u : ℕ → ℂ) : ((nrm2 m u : ℝ) : ℂ) = inner m u u := by
  unfold nrm2 inner
  rw [ofReal_sum]; apply sum_congr rfl; intro i _; exact normSq_eq_conj_mul _

theorem nrm2_apply1 {U : Bool → Bool → ℂ} (hU : IsUnitary2 U) {n q : ℕ} (hq : q < n) (u : ℕ → ℂ) :
    nrm2 (2 ^ n) (apply1 U q u) = nrm2 (2 ^ n) u := by
  have := inner_apply1 hU hq u u
  rw [← nrm2_eq_inner, ← nrm2_eq_inner] at this
  exact_mod_cast this

theorem nrm2_congr {m : ℕ} {u u' : ℕ → ℂ} (h : ∀ i, i < m → u i = u' i) : nrm2 m u = nrm2 m u' := by
  unfold nrm2; exact sum_congr rfl (fun i hi => by rw [h i (mem_range.mp hi)])

theorem inner_congr {m : ℕ} {u u' v v' : ℕ → ℂ} (hu : ∀ i, i < m → u i = u' i)
    (hv : ∀ i, i < m → v i = v' i) : inner m u v = inner m u' v' := by
  unfold inner
  exact sum_congr rfl (fun i hi => by rw [hu i (mem_range.mp hi), hv i (mem_range.mp hi)])

/-! ### the other qubits -/

theorem slice_apply1_other (U : Bool → Bool → ℂ) {k q : ℕ} (hqk : q ≠ k) (ψ : ℕ → ℂ) (s : Bool) (r : ℕ) :
    slice (apply1 U q ψ) k s r = apply1 U (posAfterDel k q) (slice ψ k s) r := by
  unfold slice apply1
  rw [testBit_insBit_other hqk, insBit_comm hqk, insBit_comm hqk]

/-- Each per-qubit cross sum is invariant under a unitary on qubit `q`. -/
theorem crossSum_apply1 {U : Bool → Bool → ℂ} (hU : IsUnitary2 U) {n q k : ℕ} (hq : q < n) (hk : k < n)
    (ψ : ℕ → ℂ) :
    crossSum (2 ^ (n - 1)) (slice (apply1 U q ψ) k false) (slice (apply1 U q ψ) k true)
      = crossSum (2 ^ (n - 1)) (slice ψ k false) (slice ψ k true) := by
  by_cases hqk : q = k
  · subst hqk
    have e : crossSum (2 ^ (n - 1)) (slice (apply1 U q ψ) q false) (slice (apply1 U q ψ) q true)
        = crossSum (2 ^ (n - 1))
            (fun r => U false false * slice ψ q false r + U false true * slice ψ q true r)
            (fun r => U true false * slice ψ q false r + U true true * slice ψ q true r) :=
      crossSum_congr (fun i _ => slice_apply1_self U q ψ false i) (fun i _ => slice_apply1_self U q ψ true i)
    rw [e, crossSum_mix, det_unitary hU, one_mul]
  · have hq' : posAfterDel k q < n - 1 := by unfold posAfterDel; split <;> omega
    have e0 : ∀ s, ∀ i, i < 2 ^ (n - 1) →
        slice (apply1 U q ψ) k s i = apply1 U (posAfterDel k q) (slice ψ k s) i :=
      fun s i _ => slice_apply1_other U hqk ψ s i
    rw [lagrange, lagrange, nrm2_congr (e0 false), nrm2_congr (e0 true),
      inner_congr (e0 false) (e0 true), nrm2_apply1 hU hq', nrm2_apply1 hU hq', inner_apply1 hU hq']

theorem mwValue_apply1 {U : Bool → Bool → ℂ} (hU : IsUnitary2 U) {n q : ℕ} (hq : q < n) (ψ : ℕ → ℂ) :
    mwValue n (apply1 U q ψ) = mwValue n ψ := by
  unfold mwValue
  congr 1
  exact sum_congr rfl (fun k hk => crossSum_apply1 hU hq (mem_range.mp hk) ψ)

theorem mwValue_congr {n : ℕ} {ψ ψ' : ℕ → ℂ} (h : ∀ b, b < 2 ^ n → ψ b = ψ' b) :
    mwValue n ψ = mwValue n ψ' := by
  unfold mwValue
  congr 1
  apply sum_congr rfl; intro k hk
  have hk' := mem_range.mp hk
  exact crossSum_congr (fun i hi => h _ (insBit_lt false hk' hi)) (fun i hi => h _ (insBit_lt true hk' hi))

/-! ### relabelling -/

theorem nrm2_reindex {m : ℕ} (π : Equiv.Perm ℕ) (hπ : ∀ r, π r < m ↔ r < m) (u : ℕ → ℂ) :
    nrm2 m (fun r => u (π r)) = nrm2 m u := by
  unfold nrm2
  apply sum_nbij' π π.symm
  · intro a ha; exact mem_range.mpr ((hπ a).mpr (mem_range.mp ha))
  · intro a ha; rw [mem_range] at *; have := hπ (π.symm a); rw [Equiv.apply_symm_apply] at this
    exact this.mp ha
  · intro a _; simp
  · intro a _; simp
  · intro a _; rfl

theorem inner_reindex {m : ℕ} (π : Equiv.Perm ℕ) (hπ : ∀ r, π r < m ↔ r < m) (u v : ℕ → ℂ) :
    inner m (fun r => u (π r)) (fun r => v (π r)) = inner m u v := by
  unfold inner
  apply sum_nbij' π π.symm
  · intro a ha; exact mem_range.mpr ((hπ a).mpr (mem_range.mp ha))
  · intro a ha; rw [mem_range] at *; have := hπ (π.symm a); rw [Equiv.apply_symm_apply] at this
    exact this.mp ha
  · intro a _; simp
  · intro a _; simp
  · intro a _; rfl

/-- If qubit `k` of `ψ'` is qubit `τ k` of `ψ`, the remaining label being reindexed by a bijection
`π k`, then the value is unchanged. -/
theorem mwValue_relabel (n : ℕ) (ψ ψ' : ℕ → ℂ) (τ : Equiv.Perm ℕ) (hτ : ∀ k, τ k < n ↔ k < n)
    (π : ℕ → Equiv.Perm ℕ) (hπ : ∀ k r, π k r < 2 ^ (n - 1) ↔ r < 2 ^ (n - 1))
    (h : ∀ k, k < n → ∀ c r, r < 2 ^ (n - 1) → ψ' (insBit k c r) = ψ (insBit (τ k) c (π k r))) :
    mwValue n ψ' = mwValue n ψ := by
  unfold mwValue
  congr 1
  have e : ∀ k, k < n →
      crossSum (2 ^ (n - 1)) (slice ψ' k false) (slice ψ' k true)
        = crossSum (2 ^ (n - 1)) (slice ψ (τ k) false) (slice ψ (τ k) true) := by
    intro k hk
    have e0 : ∀ c, ∀ i, i < 2 ^ (n - 1) → slice ψ' k c i = (fun r => slice ψ (τ k) c (π k r)) i :=
      fun c i hi => h k hk c i hi
    rw [lagrange, lagrange, nrm2_congr (e0 false), nrm2_congr (e0 true),
      inner_congr (e0 false) (e0 true), nrm2_reindex (π k) (hπ k), nrm2_reindex (π k) (hπ k),
      inner_reindex (π k) (hπ k)]
  rw [sum_congr rfl (fun k hk => e k (mem_range.mp hk))]
  apply sum_nbij' τ τ.symm
  · intro a ha; exact mem_range.mpr ((hτ a).mpr (mem_range.mp ha))
  · intro a ha; rw [mem_range] at *; have := hτ (τ.symm a); rw [Equiv.apply_symm_apply] at this
    exact this.mp ha
  · intro a _; simp
  · intro a _; simp
  · intro a _; rfl

end Qclib.Ent
