import QclibModel.Spec.Baa
import QclibModel.Proofs.BaaPartition
/-
  C08, CNOT bookkeeping: in every reachable node `total_saved_cnots` is the estimate for the whole
  vector minus the estimates of the factors of the plan (telescoping of `_count_saved_cnots`), and
  it is positive at every node but the root.
-/
namespace Qclib.Baa

variable {α : Type}

theorem sum_eraseIdx (f : Entry → Int) (l : List Entry) (idx : Nat) (orig : Entry)
    (h : l[idx]? = some orig) : (l.map f).sum = f orig + ((l.eraseIdx idx).map f).sum := by
  induction l generalizing idx with
  | nil => simp at h
  | cons x xs ih =>
    cases idx with
    | zero =>
      simp only [List.getElem?_cons_zero, Option.some.injEq] at h
      subst h
      simp
    | succ i =>
      simp only [List.getElem?_cons_succ] at h
      simp only [List.map_cons, List.sum_cons, List.eraseIdx_cons_succ]
      have := ih i h
      omega

theorem planCost_newEntries (O : Oracle α) (e : EInfo α) (orig : Entry)
    (hlen : orig.qubits.length ≠ 1) :
    planCost O (newEntries e orig) = entryCost O orig - savedCnots O e orig := by
  unfold planCost newEntries savedCnots entryCost
  split
  · simp only [List.map_cons, List.map_nil, List.sum_cons, List.sum_nil]
    have h1 : ∀ (m : Nat), (if m = 1 then 0 else if m = 1 then 1 else 0) = 0 := by
      intro m; split <;> rfl
    simp only [h1]
    omega
  · simp only [List.map_cons, List.map_nil, List.sum_cons, List.sum_nil, hlen, if_false]
    omega

theorem createNode_saved (L : LossOps α) (O : Oracle α) (parent c : Node α) (e : EInfo α)
    (reg : List Nat) (hc : createNode L O parent e = some c) (hreg : e.register = reg)
    (hlen : reg.length ≠ 1) :
    c.totalSaved - parent.totalSaved = planCost O parent.entries - planCost O c.entries := by
  obtain ⟨idx, orig, _, horig, hoq, _, hts, _, _, hent⟩ := createNode_some L O parent c e hc
  rw [hreg] at hoq
  have h1 := sum_eraseIdx (entryCost O) parent.entries idx orig horig
  have h2 := planCost_newEntries O e orig (by rw [hoq]; exact hlen)
  unfold planCost at *
  rw [hent, List.map_append, List.sum_append, hts]
  omega

/-- Telescoping and positivity along any path from the root. -/
theorem reach_saved (L : LossOps α) (O : Oracle α) (P : Params α) (n vec k0 : Nat) (hn : n ≠ 1)
    (path : List (Node α)) (nd : Node α) (k : Nat)
    (h : Reach L O P (rootNode L n vec) k0 path nd k) :
    nd.totalSaved = (O.cnots vec none 0 : Int) - planCost O nd.entries ∧
    (nd.totalSaved = 0 ∧ path = [rootNode L n vec] ∨ 0 < nd.totalSaved) ∧
    nd.totalSaved = (path.map (·.nodeSaved)).sum := by
  refine Reach.induct (fun path nd => RegOK n nd.entries ∧
      nd.totalSaved = (O.cnots vec none 0 : Int) - planCost O nd.entries ∧
      (nd.totalSaved = 0 ∧ path = [rootNode L n vec] ∨ 0 < nd.totalSaved) ∧
      nd.totalSaved = (path.map (·.nodeSaved)).sum) ?_ ?_ h |>.2
  · refine ⟨rootNode_regOK L n vec hn, ?_, Or.inl ⟨rfl, rfl⟩, by simp [rootNode]⟩
    simp [rootNode, planCost, entryCost]
  · intro path nd c hi hc
    have hok := childOf_regOK L O P n nd c hi.1 hc
    obtain ⟨ent, part, e, k0, hent, hr0, _, he, _, hcn, hpos⟩ := hc
    have hf := reduceEntanglement_fields O _ _ _ _ e he
    have hs := createNode_saved L O nd c e ent.qubits hcn hf.1 (hi.1.rank0 ent hent hr0)
    obtain ⟨_, _, _, _, _, hns, hts, _⟩ := createNode_some L O nd c e hcn
    refine ⟨hok, by have := hi.2.1; omega, Or.inr hpos, ?_⟩
    rw [List.map_cons, List.sum_cons, ← hi.2.2.2, hts, hns]
    omega

end Qclib.Baa
