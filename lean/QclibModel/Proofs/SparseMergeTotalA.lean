import QclibModel.Proofs.SparseSelect
import QclibModel.Proofs.SparseReal
import QclibModel.Spec.Sparse
/-
  C06 — whole-circuit theorem for `MergeInitialize`, part A: the state of a dictionary
  (`dictState`), keys read off basis labels (`wireKey`), and the relabelling gates `x` / `cx` of
  `_preprocess_states` on such states.
-/
namespace Qclib.Sparse.Mrg
open Qclib

/-! ### keys read off labels -/

/-- the `n`-character key carried by wires `0..n-1` of the label `b` -/
def wireKey (n : Nat) (b : Bits) : Str := (List.range n).map b

/-- the label `b` with wires `0..n-1` cleared (the spectator part of `b`) -/
def clr (n : Nat) (b : Bits) : Bits := fun i => if i < n then false else b i

theorem wireKey_length (n : Nat) (b : Bits) : (wireKey n b).length = n := by simp [wireKey]

theorem bitAt_wireKey (n : Nat) (b : Bits) (i : Nat) :
    bitAt (wireKey n b) i = if i < n then b i else false := by
  unfold bitAt wireKey
  rw [List.getD_eq_getElem?_getD, List.getElem?_map]
  by_cases h : i < n
  · simp [h]
  · simp [h]

theorem wireKey_congr (n : Nat) (b c : Bits) (h : ∀ i, i < n → b i = c i) : wireKey n b = wireKey n c := by
  apply eq_of_bitAt _ _ (by rw [wireKey_length, wireKey_length])
  intro j
  rw [bitAt_wireKey, bitAt_wireKey]
  by_cases hj : j < n
  · simp [hj, h j hj]
  · simp [hj]

theorem wireKey_lab (n : Nat) (s : Str) (h : s.length = n) : wireKey n (lab s) = s := by
  apply eq_of_bitAt _ _ (by rw [wireKey_length, h])
  intro j
  rw [bitAt_wireKey]
  by_cases hj : j < n
  · simp [hj, lab]
  · simp only [hj, if_false]
    exact (bitAt_ge s j (by omega)).symm

theorem lab_wireKey (n : Nat) (b : Bits) (i : Nat) (h : i < n) : lab (wireKey n b) i = b i := by
  show bitAt (wireKey n b) i = b i
  rw [bitAt_wireKey, if_pos h]

theorem clr_flipBit (n : Nat) (b : Bits) (q : Nat) (h : q < n) : clr n (flipBit b q) = clr n b := by
  funext i
  unfold clr flipBit
  by_cases hi : i < n
  · simp [hi]
  · have : i ≠ q := by omega
    simp [hi, this]

theorem clr_setBit (n : Nat) (b : Bits) (q : Nat) (v : Bool) (h : q < n) :
    clr n (setBit b q v) = clr n b := by
  funext i
  unfold clr setBit
  by_cases hi : i < n
  · simp [hi]
  · have : i ≠ q := by omega
    simp [hi, this]

theorem wireKey_flipBit (n : Nat) (b : Bits) (q : Nat) (h : q < n) :
    wireKey n (flipBit b q) = computeOpX (wireKey n b) q := by
  have hq : q < (wireKey n b).length := by rw [wireKey_length]; exact h
  apply eq_of_bitAt _ _ (by rw [computeOpX_length _ _ hq, wireKey_length, wireKey_length])
  intro j
  rw [bitAt_computeOpX _ _ _ hq, bitAt_wireKey, bitAt_wireKey, bitAt_wireKey]
  by_cases hj : j = q
  · subst hj; simp [h, flipBit]
  · by_cases hjn : j < n
    · simp [hj, hjn, flipBit]
    · simp [hj, hjn]

theorem wireKey_cx (n : Nat) (b : Bits) (c t : Nat) (hc : c < n) (ht : t < n) :
    wireKey n (if b c then flipBit b t else b) = computeOpCx (wireKey n b) c t := by
  have htl : t < (wireKey n b).length := by rw [wireKey_length]; exact ht
  rw [computeOpCx_eq _ _ _ htl, bitAt_wireKey, if_pos hc]
  cases hb : b c
  · simp
  · simp only [if_true]
    rw [wireKey_flipBit n b t ht, computeOpX_eq _ _ htl]

/-! ### the state of a dictionary -/

/-- amplitude of the key `k` in the dictionary (`0` if `k` is not a key) -/
noncomputable def ampOf (d : Dict ℝ) (k : Str) : ℂ :=
  match d.lookup k with
  | some a => a.toC
  | none => 0

/-- **The state a dictionary stands for** (merge convention: key character `i` ↔ wire `i`), on top
of an arbitrary spectator state `ψ0`: the label `b` carries the amplitude of the key on its wires
`0..n-1` times the amplitude that `ψ0` has on the spectator part of `b`. -/
noncomputable def dictState (n : Nat) (d : Dict ℝ) (ψ0 : State ℂ) : State ℂ :=
  fun b => ampOf d (wireKey n b) * ψ0 (clr n b)

theorem lookup_nil (k : Str) : Dict.lookup ([] : Dict ℝ) k = none := rfl

theorem lookup_cons (kv : Str × Amp ℝ) (d : Dict ℝ) (k : Str) :
    Dict.lookup (kv :: d) k = if kv.1 = k then some kv.2 else Dict.lookup d k := by
  unfold Dict.lookup
  rw [List.find?_cons]
  by_cases h : kv.1 = k
  · simp [h]
  · have : (kv.1 == k) = false := by simpa using h
    simp [h, this]

theorem keys_cons (kv : Str × Amp ℝ) (d : Dict ℝ) : Dict.keys (kv :: d) = kv.1 :: Dict.keys d := rfl

theorem mem_keys {d : Dict ℝ} {k : Str} : k ∈ d.keys ↔ ∃ a, (k, a) ∈ d := by
  unfold Dict.keys
  rw [List.mem_map]
  constructor
  · rintro ⟨kv, h, rfl⟩; exact ⟨kv.2, h⟩
  · rintro ⟨a, h⟩; exact ⟨(k, a), h, rfl⟩

theorem lookup_none_of_not_mem (d : Dict ℝ) (k : Str) (h : k ∉ d.keys) : d.lookup k = none := by
  induction d with
  | nil => rfl
  | cons kv d ih =>
    rw [keys_cons, List.mem_cons, not_or] at h
    rw [lookup_cons, if_neg (fun e => h.1 e.symm)]
    exact ih h.2

theorem lookup_mem (d : Dict ℝ) (k : Str) (a : Amp ℝ) (h : d.lookup k = some a) : (k, a) ∈ d := by
  induction d with
  | nil => simp [lookup_nil] at h
  | cons kv d ih =>
    rw [lookup_cons] at h
    by_cases e : kv.1 = k
    · rw [if_pos e] at h
      have : kv.2 = a := Option.some.inj h
      rw [← e, ← this]; exact List.mem_cons_self
    · rw [if_neg e] at h
      exact List.mem_cons_of_mem _ (ih h)

theorem lookup_some_of_mem (d : Dict ℝ) (k : Str) (h : k ∈ d.keys) : ∃ a, d.lookup k = some a := by
  induction d with
  | nil => simp [Dict.keys] at h
  | cons kv d ih =>
    rw [lookup_cons]
    by_cases e : kv.1 = k
    · exact ⟨kv.2, by rw [if_pos e]⟩
    · rw [if_neg e]
      rw [keys_cons, List.mem_cons] at h
      rcases h with h | h
      · exact absurd h.symm e
      · exact ih h

theorem ampOf_not_mem (d : Dict ℝ) (k : Str) (h : k ∉ d.keys) : ampOf d k = 0 := by
  unfold ampOf; rw [lookup_none_of_not_mem d k h]

theorem keys_mapKeys_m (f : Str → Str) (d : Dict ℝ) : (d.mapKeys f).keys = d.keys.map f := by
  simp [Dict.keys, Dict.mapKeys, List.map_map, Function.comp_def]

/-- relabelling the keys by a map that does not identify `k` with another key -/
theorem lookup_mapKeys (f : Str → Str) (d : Dict ℝ) (k : Str)
    (hinj : ∀ k' ∈ d.keys, f k' = f k → k' = k) :
    (d.mapKeys f).lookup (f k) = d.lookup k := by
  induction d with
  | nil => rfl
  | cons kv d ih =>
    have ih' := ih (fun k' hk' => hinj k' (List.mem_cons_of_mem _ hk'))
    show Dict.lookup ((f kv.1, kv.2) :: Dict.mapKeys f d) (f k) = _
    rw [lookup_cons, lookup_cons]
    by_cases e : kv.1 = k
    · simp [e]
    · have : ¬ f kv.1 = f k := fun h => e (hinj kv.1 List.mem_cons_self h)
      simp only [this, e, if_false]
      exact ih'

/-! ### the gates of `_preprocess_states` on dictionary states -/

section Gates
variable (iu : ℂ) (dn : List Nat → List (Amp ℝ) → State ℂ → State ℂ)

theorem semSG_append_m (c1 c2 : List (SG ℝ)) (ψ : State ℂ) :
    semSG iu dn (c1 ++ c2) ψ = semSG iu dn c2 (semSG iu dn c1 ψ) := by
  simp [semSG, List.foldl_append]

theorem semSG_nil_m (ψ : State ℂ) : semSG iu dn ([] : List (SG ℝ)) ψ = ψ := rfl

theorem semSG_single_m (g : SG ℝ) (ψ : State ℂ) : semSG iu dn [g] ψ = denoteSG iu dn g ψ := rfl

theorem denoteSG_x_m (q : Nat) (ψ : State ℂ) (b : Bits) :
    denoteSG iu dn (SG.x q) ψ b = ψ (flipBit b q) := denote_x (Θ := ℝ) q ψ b

theorem denoteSG_cx_m (c t : Nat) (ψ : State ℂ) (b : Bits) :
    denoteSG iu dn (SG.cx c t true) ψ b = if b c then ψ (flipBit b t) else ψ b :=
  denote_cx (Θ := ℝ) c t ψ b

/-- the gate emitted together with a key operation -/
def _root_.Qclib.Sparse.KOp.mergeSG : KOp → SG ℝ
  | .x q => SG.x q
  | .cx c t => SG.cx c t true

theorem KOp.app_inj (n dif : Nat) (o : KOp) (ho : o.ok n dif) (k k' : Str) (hk : k.length = n)
    (hk' : k'.length = n) (h : o.app k = o.app k') : k = k' := by
  have hag : agreeOn (o.app k) (o.app k') (fun _ => True) := by intro q _; rw [h]
  have := (KOp.app_agree n dif o ho k k' hk hk' (fun _ => True) trivial).mp hag
  exact eq_of_bitAt k k' (hk.trans hk'.symm) (fun j => this j trivial)

/-- One relabelling gate undoes the dictionary update that was recorded with it. -/
theorem denote_op_dictState (n dif : Nat) (hdif : dif < n) (o : KOp) (ho : o.ok n dif)
    (d : Dict ℝ) (hlen : ∀ k ∈ d.keys, k.length = n) (ψ0 : State ℂ) :
    denoteSG iu dn o.mergeSG (dictState n (d.mapKeys o.app) ψ0) = dictState n d ψ0 := by
  funext b
  have hinj : ∀ k' ∈ d.keys, o.app k' = o.app (wireKey n b) → k' = wireKey n b :=
    fun k' hk' h => KOp.app_inj n dif o ho k' _ (hlen k' hk') (wireKey_length n b) h
  have hlk := lookup_mapKeys o.app d (wireKey n b) hinj
  cases o with
  | x q =>
    have hq : q < n := ho
    show denoteSG iu dn (SG.x q) _ b = _
    rw [denoteSG_x_m]
    unfold dictState ampOf
    rw [wireKey_flipBit n b q hq, clr_flipBit n b q hq]
    show (match Dict.lookup (Dict.mapKeys (KOp.app (KOp.x q)) d) (KOp.app (KOp.x q) (wireKey n b)) with
      | some a => a.toC | none => 0) * _ = _
    rw [hlk]
  | cx c t =>
    obtain ⟨rfl, htd, htn⟩ := ho
    show denoteSG iu dn (SG.cx c t true) _ b = _
    rw [denoteSG_cx_m]
    have hkey := wireKey_cx n b c t hdif htn
    have hclr : clr n (if b c then flipBit b t else b) = clr n b := by
      cases b c
      · rfl
      · exact clr_flipBit n b t htn
    have : (if b c = true then dictState n (Dict.mapKeys (KOp.app (KOp.cx c t)) d) ψ0 (flipBit b t)
        else dictState n (Dict.mapKeys (KOp.app (KOp.cx c t)) d) ψ0 b)
        = dictState n (Dict.mapKeys (KOp.app (KOp.cx c t)) d) ψ0 (if b c then flipBit b t else b) := by
      cases b c <;> rfl
    rw [this]
    unfold dictState ampOf
    rw [hkey, hclr]
    show (match Dict.lookup (Dict.mapKeys (KOp.app (KOp.cx c t)) d) (KOp.app (KOp.cx c t) (wireKey n b)) with
      | some a => a.toC | none => 0) * _ = _
    rw [hlk]

/-- The recorded relabelling gates, in reversed order, take the state of the relabelled dictionary
back to the state of the original one. -/
theorem sem_ops_dictState (n dif : Nat) (hdif : dif < n) (ops : List KOp) (hok : OkOps n dif ops)
    (d : Dict ℝ) (hlen : ∀ k ∈ d.keys, k.length = n) (ψ0 : State ℂ) :
    semSG iu dn (ops.map KOp.mergeSG).reverse (dictState n (d.mapKeys (applyOps ops)) ψ0)
      = dictState n d ψ0 := by
  induction ops generalizing d with
  | nil =>
    have : Dict.mapKeys (applyOps []) d = d := mapKeys_id d
    rw [this]; rfl
  | cons o l ih =>
    have ho := hok o List.mem_cons_self
    have hl : OkOps n dif l := fun o' ho' => hok o' (List.mem_cons_of_mem _ ho')
    have hlen' : ∀ k ∈ (Dict.mapKeys o.app d).keys, k.length = n := by
      intro k hk
      rw [keys_mapKeys_m, List.mem_map] at hk
      obtain ⟨k0, hk0, rfl⟩ := hk
      exact KOp.app_length n dif o ho k0 (hlen k0 hk0)
    have hd : Dict.mapKeys (applyOps (o :: l)) d = Dict.mapKeys (applyOps l) (Dict.mapKeys o.app d) := by
      rw [mapKeys_mapKeys]; rfl
    rw [List.map_cons, List.reverse_cons, semSG_append_m, hd, ih hl _ hlen', semSG_single_m]
    exact denote_op_dictState iu dn n dif hdif o ho d hlen ψ0

end Gates

end Qclib.Sparse.Mrg
