import QclibModel.Proofs.UcrProof
/-
  Group structure of the ideal multiplexer (used by the C13 corollaries `C13_compose`,
  `C13_inverse`): multiplexers with the same axis and controls compose by adding the angle
  vectors, the zero vector is the identity, hence the negated vector is the two-sided inverse.
  This is what the library relies on when it un-computes a `ucr` by emitting the same construction
  with negated angles (bottom-up preparation, black-box oracle, `inverse()` of the gate).
-/
namespace Qclib
open RotSem

variable {Θ R : Type} [AddCommGroup Θ] [CommRing R] [RotSem Θ R] [RotLaws Θ R]

omit [AddCommGroup Θ] [RotLaws Θ R] in
theorem muxFam_bit0Free (ax : Axis) (k : Nat) (a : Nat → Θ) :
    Bit0Free (R := R) (fun b => rotMat ax (a (ctrlIdx k b))) := by
  intro b v
  show rotMat ax (a (ctrlIdx k (setBit b 0 v))) = rotMat ax (a (ctrlIdx k b))
  rw [ctrlIdx_setBit0]

theorem mux_add (ax : Axis) (k : Nat) (a c : Nat → Θ) (ψ : State R) :
    muxIdeal ax k a (muxIdeal ax k c ψ) = muxIdeal ax k (fun j => a j + c j) ψ := by
  unfold muxIdeal
  rw [applyFam_comp _ _ (muxFam_bit0Free ax k c)]
  congr 1
  funext b
  exact rot_add ax _ _

theorem mux_zero (ax : Axis) (k : Nat) (ψ : State R) :
    muxIdeal ax k (fun _ => (0 : Θ)) ψ = ψ := by
  unfold muxIdeal
  have h : (fun b : Bits => (rotMat ax ((fun _ : Nat => (0 : Θ)) (ctrlIdx k b)) : Mat2 R))
      = fun _ => (1 : Mat2 R) := by
    funext b; exact rot_zero ax
  rw [h]
  exact ((Rep.nil (Θ := Θ) (R := R)).2 ψ).symm

theorem mux_neg_left (ax : Axis) (k : Nat) (a : Nat → Θ) (ψ : State R) :
    muxIdeal ax k (fun j => -(a j)) (muxIdeal ax k a ψ) = ψ := by
  rw [mux_add]
  have h : (fun j => -(a j) + a j) = fun _ : Nat => (0 : Θ) := by funext j; simp
  rw [h, mux_zero]

theorem mux_neg_right (ax : Axis) (k : Nat) (a : Nat → Θ) (ψ : State R) :
    muxIdeal ax k a (muxIdeal ax k (fun j => -(a j)) ψ) = ψ := by
  rw [mux_add]
  have h : (fun j => a j + -(a j)) = fun _ : Nat => (0 : Θ) := by funext j; simp
  rw [h, mux_zero]

omit [AddCommGroup Θ] [RotLaws Θ R] in
theorem sem_append' (c d : Circ Θ) (ψ : State R) : sem (c ++ d) ψ = sem d (sem c ψ) := by
  simp [sem, List.foldl_append]

end Qclib
