import QclibModel.Proofs.BaaGreedyFin
import QclibModel.Proofs.BaaNested
import Mathlib.Tactic.Ring
/-
  C08, true loss for `n ≤ 3`.

  (1) Combinatorics, about the model of the search: every reachable plan is reached in at most
      `n − 1` steps (the weight `Σ_{rank-0 registers} (size − 1)` drops at every step), and for
      `n ≤ 3` at most one register of any reachable plan has more than one qubit — so every step
      acts inside the only multi-qubit factor, all of whose siblings are single qubits that are
      kept to the end: the plan is a nesting of at most two splits.
  (2) Algebra (finite sums, orthonormality as hypothesis): for `M = Σ_i U[:,i] s_i V[i,:]` with
      orthonormal `U`-columns / `V`-rows and real `s`, `⟨M|M⟩ = Σ s_i²`, `⟨M|U₀⊗V₀⟩ = s₀`, hence for
      a unit `M` the loss of the rank-1 truncation is `1 − s₀² = Σ_{i≥1} s_i²`; and for two nested
      truncations the fidelity is `(1 − l₁)(1 − l₂)`, i.e. the true loss is the accounted loss
      `1 − (1 − l₁)(1 − l₂)`.
-/
namespace Qclib.Baa
open Qclib.Schmidt Finset

/-! ### (1) the shape of the plans -/

section shape
variable {α : Type}

/-- weight of a register: `size − 1` while it can still be split. -/
def wt (x : Entry) : Nat := if x.rank = 0 then x.qubits.length - 1 else 0
/-- `1` for a register of more than one qubit (or none). -/
def ns (x : Entry) : Nat := if x.qubits.length = 1 then 0 else 1

theorem sum_map_eraseIdx (f : Entry → Nat) (l : List Entry) (idx : Nat) (orig : Entry)
    (h : l[idx]? = some orig) : (l.map f).sum = f orig + ((l.eraseIdx idx).map f).sum := by
  induction l generalizing idx with
  | nil => simp at h
  | cons x xs ih =>
    cases idx with
    | zero =>
      simp only [List.getElem?_cons_zero, Option.some.injEq] at h
      subst h
      simp
    | succ i =>
      simp only [List.getElem?_cons_succ] at h
      simp only [List.map_cons, List.sum_cons, List.eraseIdx_cons_succ, ih i h]
      omega

theorem le_sum_map_of_mem (f : Entry → Nat) (l : List Entry) (x : Entry) (h : x ∈ l) :
    f x ≤ (l.map f).sum := by
  induction l with
  | nil => simp at h
  | cons y ys ih =>
    simp only [List.map_cons, List.sum_cons]
    rcases List.mem_cons.mp h with rfl | h
    · omega
    · have := ih h; omega

/-- the oracle never reports rank `0`. -/
def RankPos (O : Oracle α) : Prop := ∀ v lp u, ∀ s ∈ O.schmidt v lp u, 1 ≤ s.rank

/-- the invariant carried along `Reach`. -/
structure ShapeInv (n : Nat) (path : List (Node α)) (nd : Node α) : Prop where
  reg : RegOK n nd.entries
  nonempty : ∀ e ∈ nd.entries, e.qubits ≠ []
  pos : 1 ≤ path.length
  weight : path.length + (nd.entries.map wt).sum ≤ n
  single : n ≤ 3 → (nd.entries.map ns).sum ≤ 1

theorem childOf_shape (L : LossOps α) (O : Oracle α) (P : Params α) (n : Nat)
    (hR : RankPos O) (hprop : ProperCandidates L O P.strategy)
    (path : List (Node α)) (nd c : Node α) (hi : ShapeInv n path nd) (hc : ChildOf L O P nd c) :
    ShapeInv n (c :: path) c := by
  obtain ⟨ent, part, e, k0, hent, hr0, hpart, he, _, hcn, _⟩ := hc
  have hs := hi.reg.sorted ent hent
  have hcand := candidates_ok L O P.strategy ent _ hs part hpart
  have hf := reduceEntanglement_fields O _ _ _ _ e he
  have hlen2 : 2 ≤ ent.qubits.length := by
    have h1 := hi.reg.rank0 ent hent hr0
    have h2 := hi.nonempty ent hent
    have : ent.qubits.length ≠ 0 := fun h => h2 (List.length_eq_zero_iff.mp h)
    omega
  have hck := clampK_range k0 _ hlen2
  have hpr := hprop ent _ hlen2 hck.1 hck.2 part hpart
  have hregOK := createNode_regOK L O n nd c e ent.qubits part hcn hi.reg hf.1 hf.2.1 hf.2.2
    hcand.1 hcand.2 (hi.reg.rank0 ent hent hr0)
  obtain ⟨idx, orig, hidx, horig, _, _, _, _, _, hentries⟩ := createNode_some L O nd c e hcn
  rw [hf.1] at hidx
  have huniq := unique_register n nd.entries hi.reg ent hent (hi.nonempty ent hent) idx orig hidx horig
  subst huniq
  obtain ⟨s, hsm, _, hrk, _, _, _⟩ := reduceEntanglement_vecs O _ _ _ _ e he
  have hrpos : 1 ≤ e.rank := by rw [hrk]; exact hR _ _ _ s hsm
  have hfl := filter_length_lt orig.qubits part hcand.1 hcand.2 hs
  have hp1 : sortU (orig.qubits.filter (fun q => !part.contains q))
      = orig.qubits.filter (fun q => !part.contains q) := sortU_of_pairwise _ (hs.filter _)
  have hplen : 1 ≤ part.length := by
    have : part.length ≠ 0 := fun h => hpr.1 (List.length_eq_zero_iff.mp h)
    omega
  have hwsum := sum_map_eraseIdx wt nd.entries idx orig horig
  have hnsum := sum_map_eraseIdx ns nd.entries idx orig horig
  have hwo : wt orig = orig.qubits.length - 1 := by unfold wt; rw [if_pos hr0]
  have hno : ns orig = 1 := by unfold ns; rw [if_neg (by omega)]
  have hmn : orig.qubits.length ≤ n := by
    have := hi.weight; have := hi.pos; omega
  -- the new entries
  have hnew : ((newEntries e orig).map wt).sum + 1 ≤ orig.qubits.length - 1
      ∧ (n ≤ 3 → ((newEntries e orig).map ns).sum ≤ 1)
      ∧ ∀ x ∈ newEntries e orig, x.qubits ≠ [] := by
    unfold newEntries
    by_cases h1 : e.rank = 1
    · rw [if_pos h1, hf.2.1]
      simp only [hp1]
      set r := (orig.qubits.filter (fun q => !part.contains q)).length with hr
      refine ⟨?_, fun hn3 => ?_, ?_⟩
      · simp only [List.map_cons, List.map_nil, List.sum_cons, List.sum_nil, wt]
        repeat' split
        all_goals omega
      · simp only [List.map_cons, List.map_nil, List.sum_cons, List.sum_nil, ns]
        repeat' split
        all_goals omega
      · intro x hx
        simp only [List.mem_cons, List.not_mem_nil, or_false] at hx
        rcases hx with rfl | rfl
        · exact hpr.1
        · intro h0
          have : r = 0 := by rw [hr]; exact List.length_eq_zero_iff.mpr h0
          omega
    · rw [if_neg h1]
      refine ⟨?_, fun _ => ?_, ?_⟩
      · simp only [List.map_cons, List.map_nil, List.sum_cons, List.sum_nil, wt]
        rw [if_neg (by omega)]
        omega
      · simp only [List.map_cons, List.map_nil, List.sum_cons, List.sum_nil, ns]
        repeat' split
        all_goals omega
      · intro x hx
        simp only [List.mem_singleton] at hx
        subst hx
        exact hi.nonempty orig hent
  refine ⟨hregOK, ?_, by simp, ?_, fun hn3 => ?_⟩
  · intro x hx
    rw [hentries] at hx
    rcases List.mem_append.mp hx with hx | hx
    · exact hi.nonempty x (List.mem_of_mem_eraseIdx hx)
    · exact hnew.2.2 x hx
  · rw [hentries, List.map_append, List.sum_append, List.length_cons]
    have := hi.weight
    omega
  · rw [hentries, List.map_append, List.sum_append]
    have := hi.single hn3
    have := hnew.2.1 hn3
    omega

/-- **Shape of the plans.**  For `n ≥ 2`, an oracle that never reports rank `0` and proper
candidates: every reachable node is reached by at most `n − 1` steps (`path` has at most `n`
members, the root included), and for `n ≤ 3` at most one of its registers is not a single qubit. -/
theorem reach_shape (L : LossOps α) (O : Oracle α) (P : Params α) (n vec k0 : Nat) (hn : 2 ≤ n)
    (hR : RankPos O) (hprop : ProperCandidates L O P.strategy)
    (path : List (Node α)) (nd : Node α) (k : Nat)
    (h : Reach L O P (rootNode L n vec) k0 path nd k) : ShapeInv n path nd := by
  refine Reach.induct (L := L) (O := O) (P := P) (fun path nd => ShapeInv n path nd) ?_
    (fun path nd c hi hc => childOf_shape L O P n hR hprop path nd c hi hc) h
  refine ⟨rootNode_regOK L n vec (by omega), ?_, by simp, ?_, fun _ => ?_⟩
  · intro e he
    simp only [rootNode, List.mem_singleton] at he
    subst he
    intro h0
    have := congrArg List.length h0
    simp at this
    omega
  · simp [rootNode, wt]
    omega
  · simp [rootNode, ns]
    split <;> omega

end shape

/-! ### (2) the loss of a rank-1 truncation, and of two nested ones -/

section algebra
variable {K : Type} [CommRing K] [StarRing K]

/-- `⟨M | U₀ ⊗ V₀⟩ = conj(s₀)` for orthonormal data. -/
theorem overlap_leading (rows cols k : Nat) (hk : 0 < k) (U : Nat → Nat → K) (s : Nat → K)
    (V : Nat → Nat → K)
    (hV : ∀ i, i < k → gramRows cols V i 0 = if i = 0 then 1 else 0)
    (hU0 : sumTo rows (fun r => star (U r 0) * U r 0) = 1) :
    inner2 star rows cols (composeMat k U s V) (fun r c => U r 0 * V 0 c) = star (s 0) := by
  rw [nested_overlap_row rows cols k hk U s V (fun r => U r 0) hV, hU0, mul_one]

/-- **Two nested rank-1 truncations multiply the overlaps.**  `M = Σ_i U[:,i] s_i V[i,:]` (first
split; the rows of `V` are orthogonal to the normalised `V₀`, which is kept), and the kept-on factor
`U₀`, read as a `rows₁ × rows₂` matrix through any index map `ix`, is `Σ_j A[:,j] t_j B[j,:]` with
the rows of `B` orthogonal to the normalised `B₀` and `A₀` normalised (second split).  Then the
overlap of `M` with the prepared product `(A₀ ⊗ B₀) ⊗ V₀` is `conj(s₀)·conj(t₀)`. -/
theorem nested_two (rows cols k : Nat) (hk : 0 < k) (U : Nat → Nat → K) (s : Nat → K)
    (V : Nat → Nat → K) (hV : ∀ i, i < k → gramRows cols V i 0 = if i = 0 then 1 else 0)
    (w : Nat → K) (z : K) (hw : sumTo rows (fun r => star (U r 0) * w r) = z) :
    inner2 star rows cols (composeMat k U s V) (fun r c => w r * V 0 c) = star (s 0) * z := by
  rw [nested_overlap_row rows cols k hk U s V w hV, hw]

/-- accounted loss of two successive approximations equals `1 −` the product of the fidelities:
with `f₁ = conj(s₀)s₀ = 1 − l₁`, `f₂ = conj(t₀)t₀ = 1 − l₂` the true fidelity
`|conj(s₀)conj(t₀)|² = f₁ f₂` gives the true loss `1 − (1 − l₁)(1 − l₂)`. -/
theorem true_loss_two (s0 t0 l1 l2 : K) (h1 : star s0 * s0 = 1 - l1) (h2 : star t0 * t0 = 1 - l2) :
    1 - star (star s0 * star t0) * (star s0 * star t0) = 1 - (1 - l1) * (1 - l2) := by
  rw [star_mul, star_star, star_star, ← h1, ← h2]
  ring

end algebra

end Qclib.Baa
