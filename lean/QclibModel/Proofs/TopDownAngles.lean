import QclibModel.Spec.Dense
import QclibModel.Proofs.TreeAngles
import QclibModel.Proofs.TreeDcsp
import QclibModel.Proofs.RotReal
import Mathlib.Analysis.SpecialFunctions.Complex.Arg
/-
  C01, angle algebra over ℝ / ℂ: one node of `create_angles_tree` (half-angle identities without
  squares, phase bookkeeping), the root of the state tree (norm, mean phase), and the product of
  the `RY`/`RZ` factors along the root-to-leaf path.
-/
namespace Qclib.Dense
open RotSem

/-- `m·e^{iφ}`. -/
noncomputable def pol (m φ : ℝ) : ℂ := (m : ℂ) * Complex.exp ((φ : ℂ) * Complex.I)

/-! ### One node: magnitudes -/

theorem angleY_half_cos_nonneg (m r : ℝ) : 0 ≤ Real.cos (angleY realTOps m r / 2) := by
  rw [angleY_eq]
  have e : (2 * Real.arcsin (if m ≠ 0 then r / m else 0)) / 2
      = Real.arcsin (if m ≠ 0 then r / m else 0) := by ring
  rw [e]
  exact Real.cos_arcsin_nonneg _

theorem sqrt_ge_right (l r : ℝ) (_hr : 0 ≤ r) : r ≤ Real.sqrt (l ^ 2 + r ^ 2) := by
  apply Real.le_sqrt_of_sq_le
  nlinarith [sq_nonneg l]

theorem node_sin (l r m : ℝ) (_hl : 0 ≤ l) (hr : 0 ≤ r) (hm : m = Real.sqrt (l ^ 2 + r ^ 2)) :
    m * Real.sin (angleY realTOps m r / 2) = r := by
  have hrm : r ≤ m := by rw [hm]; exact sqrt_ge_right l r hr
  rw [angleY_half_sin m r hr hrm]
  split_ifs with h
  · field_simp
  · have h0 : m = 0 := not_not.mp h
    rw [h0] at hrm ⊢
    have : r = 0 := le_antisymm hrm hr
    rw [this]; ring

theorem node_cos (l r m : ℝ) (hl : 0 ≤ l) (hr : 0 ≤ r) (hm : m = Real.sqrt (l ^ 2 + r ^ 2)) :
    m * Real.cos (angleY realTOps m r / 2) = l := by
  have hm0 : 0 ≤ m := by rw [hm]; exact Real.sqrt_nonneg _
  have hsq := angleY_cos_sq l r m hl hr hm
  have h1 : 0 ≤ m * Real.cos (angleY realTOps m r / 2) :=
    mul_nonneg hm0 (angleY_half_cos_nonneg m r)
  have h2 : (m * Real.cos (angleY realTOps m r / 2)) ^ 2 = l ^ 2 := by
    rw [mul_pow]; exact hsq
  exact (sq_eq_sq₀ h1 hl).1 h2

/-! ### One node: phases -/

theorem angleZ_eq (φl φr : ℝ) :
    angleZ realTOps ((φl + φr) / 2) φr = φr - φl := by
  simp only [angleZ, realTOps]; ring

theorem exp_add_I (x y : ℝ) :
    Complex.exp ((x : ℂ) * Complex.I) * Complex.exp ((y : ℂ) * Complex.I)
      = Complex.exp (((x + y : ℝ) : ℂ) * Complex.I) := by
  rw [← Complex.exp_add]; congr 1; push_cast; ring

/-- Left child: `m e^{iφ} · cos(y/2) e^{-iz/2} = l e^{iφ_l}`. -/
theorem node_left (l r φl φr : ℝ) (hl : 0 ≤ l) (hr : 0 ≤ r) :
    pol (Real.sqrt (l ^ 2 + r ^ 2)) ((φl + φr) / 2)
      * (stepAmp (⟨angleY realTOps (Real.sqrt (l ^ 2 + r ^ 2)) r,
            angleZ realTOps ((φl + φr) / 2) φr⟩ : AV ℝ) false : ℂ)
      = pol l φl := by
  have hc := node_cos l r _ hl hr rfl
  rw [angleZ_eq]
  show pol _ _ * (((Real.cos (angleY realTOps (Real.sqrt (l ^ 2 + r ^ 2)) r / 2) : ℝ) : ℂ)
      * Complex.exp (-((((φr - φl) / 2 : ℝ) : ℂ) * Complex.I))) = _
  have e1 : -((((φr - φl) / 2 : ℝ) : ℂ) * Complex.I) = (((-((φr - φl) / 2) : ℝ)) : ℂ) * Complex.I := by
    push_cast; ring
  rw [e1]
  unfold pol
  have : ((Real.sqrt (l ^ 2 + r ^ 2) : ℝ) : ℂ) * Complex.exp ((((φl + φr) / 2 : ℝ) : ℂ) * Complex.I)
      * (((Real.cos (angleY realTOps (Real.sqrt (l ^ 2 + r ^ 2)) r / 2) : ℝ) : ℂ)
        * Complex.exp (((-((φr - φl) / 2) : ℝ) : ℂ) * Complex.I))
      = (((Real.sqrt (l ^ 2 + r ^ 2) * Real.cos (angleY realTOps (Real.sqrt (l ^ 2 + r ^ 2)) r / 2) : ℝ)) : ℂ)
        * (Complex.exp ((((φl + φr) / 2 : ℝ) : ℂ) * Complex.I)
          * Complex.exp (((-((φr - φl) / 2) : ℝ) : ℂ) * Complex.I)) := by
    push_cast; ring
  have e2 : (φl + φr) / 2 + -((φr - φl) / 2) = φl := by ring
  rw [this, hc, exp_add_I, e2]

/-- Right child: `m e^{iφ} · sin(y/2) e^{iz/2} = r e^{iφ_r}`. -/
theorem node_right (l r φl φr : ℝ) (hl : 0 ≤ l) (hr : 0 ≤ r) :
    pol (Real.sqrt (l ^ 2 + r ^ 2)) ((φl + φr) / 2)
      * (stepAmp (⟨angleY realTOps (Real.sqrt (l ^ 2 + r ^ 2)) r,
            angleZ realTOps ((φl + φr) / 2) φr⟩ : AV ℝ) true : ℂ)
      = pol r φr := by
  have hs := node_sin l r _ hl hr rfl
  rw [angleZ_eq]
  show pol _ _ * (((Real.sin (angleY realTOps (Real.sqrt (l ^ 2 + r ^ 2)) r / 2) : ℝ) : ℂ)
      * Complex.exp ((((φr - φl) / 2 : ℝ) : ℂ) * Complex.I)) = _
  unfold pol
  have : ((Real.sqrt (l ^ 2 + r ^ 2) : ℝ) : ℂ) * Complex.exp ((((φl + φr) / 2 : ℝ) : ℂ) * Complex.I)
      * (((Real.sin (angleY realTOps (Real.sqrt (l ^ 2 + r ^ 2)) r / 2) : ℝ) : ℂ)
        * Complex.exp ((((φr - φl) / 2 : ℝ) : ℂ) * Complex.I))
      = (((Real.sqrt (l ^ 2 + r ^ 2) * Real.sin (angleY realTOps (Real.sqrt (l ^ 2 + r ^ 2)) r / 2) : ℝ)) : ℂ)
        * (Complex.exp ((((φl + φr) / 2 : ℝ) : ℂ) * Complex.I)
          * Complex.exp ((((φr - φl) / 2 : ℝ) : ℂ) * Complex.I)) := by
    push_cast; ring
  have e2 : (φl + φr) / 2 + (φr - φl) / 2 = φr := by ring
  rw [this, hs, exp_add_I, e2]

/-! ### Unfolding the angle tree of a state tree -/

theorem stateTree_root_arg_succ (n : Nat) (a : Nat → SV ℝ) :
    ((stateTree realTOps (n + 1) a).valD ⟨0, 0⟩).arg
      = (((stateTree realTOps n a).valD ⟨0, 0⟩).arg
          + ((stateTree realTOps n (fun i => a (i + 2 ^ n))).valD ⟨0, 0⟩).arg) / 2 := rfl

/-- The root node of the angle tree of a height-`n+1` state tree. -/
noncomputable def rootAV (n : Nat) (a : Nat → SV ℝ) : AV ℝ :=
  ⟨angleY realTOps ((stateTree realTOps (n + 1) a).valD ⟨0, 0⟩).mag
      ((stateTree realTOps n (fun i => a (i + 2 ^ n))).valD ⟨0, 0⟩).mag,
    angleZ realTOps ((stateTree realTOps (n + 1) a).valD ⟨0, 0⟩).arg
      ((stateTree realTOps n (fun i => a (i + 2 ^ n))).valD ⟨0, 0⟩).arg⟩

theorem angleTree_stateTree_succ (m : Nat) (a : Nat → SV ℝ) :
    angleTree realTOps (stateTree realTOps (m + 1 + 1) a)
      = .node (rootAV (m + 1) a)
          (angleTree realTOps (stateTree realTOps (m + 1) a))
          (angleTree realTOps (stateTree realTOps (m + 1) (fun i => a (i + 2 ^ (m + 1))))) := by
  have hl := stateTree_succ_isLeaf realTOps m a
  show (if (stateTree realTOps (m + 1) a).isLeaf then _ else _) = _
  rw [hl]
  rfl

theorem angleTree_stateTree_one (a : Nat → SV ℝ) :
    angleTree realTOps (stateTree realTOps 1 a) = .node (rootAV 0 a) .nil .nil := rfl

theorem pathAmp_zero {Θ R : Type} [Mul R] [One R] [RotSem Θ R] (t : BT (AV Θ)) (k : Nat) :
    (pathAmp 0 t k : R) = 1 := by
  simp [pathAmp]

theorem pathAmp_angleTree_stateTree (n : Nat) (a : Nat → SV ℝ) (k : Nat) :
    (pathAmp (n + 1) (angleTree realTOps (stateTree realTOps (n + 1) a)) k : ℂ)
      = if k < 2 ^ n then
          stepAmp (rootAV n a) false * pathAmp n (angleTree realTOps (stateTree realTOps n a)) k
        else
          stepAmp (rootAV n a) true
            * pathAmp n (angleTree realTOps (stateTree realTOps n (fun i => a (i + 2 ^ n))))
                (k - 2 ^ n) := by
  cases n with
  | zero =>
    rw [pathAmp_zero, pathAmp_zero, angleTree_stateTree_one]
    simp [pathAmp]
  | succ m =>
    rw [angleTree_stateTree_succ]
    rfl

/-! ### Path product -/

/-- For every height `n ≥ 0`: root value (in polar form) times the product of the `RY`/`RZ`
factors along the path to leaf `k` is the polar form of leaf `k`. -/
theorem topdown_path_aux (n : Nat) : ∀ (a : Nat → SV ℝ), (∀ k, 0 ≤ (a k).mag) → ∀ k, k < 2 ^ n →
    pol ((stateTree realTOps n a).valD ⟨0, 0⟩).mag ((stateTree realTOps n a).valD ⟨0, 0⟩).arg
      * (pathAmp n (angleTree realTOps (stateTree realTOps n a)) k : ℂ)
    = pol (a k).mag (a k).arg := by
  induction n with
  | zero =>
    intro a _ k hk
    have hk0 : k = 0 := by simpa using hk
    subst hk0
    rw [pathAmp_zero, mul_one]
    rfl
  | succ n ih =>
    intro a h k hk
    have h' : ∀ j, 0 ≤ (a (j + 2 ^ n)).mag := fun j => h _
    have hl := stateTree_root_nonneg n a h
    have hr := stateTree_root_nonneg n (fun i => a (i + 2 ^ n)) h'
    rw [pathAmp_angleTree_stateTree]
    have hL := node_left _ _ ((stateTree realTOps n a).valD ⟨0, 0⟩).arg
      ((stateTree realTOps n (fun i => a (i + 2 ^ n))).valD ⟨0, 0⟩).arg hl hr
    have hR := node_right _ _ ((stateTree realTOps n a).valD ⟨0, 0⟩).arg
      ((stateTree realTOps n (fun i => a (i + 2 ^ n))).valD ⟨0, 0⟩).arg hl hr
    rw [← stateTree_root_succ n a, ← stateTree_root_arg_succ n a] at hL hR
    split_ifs with hlt
    · rw [← mul_assoc]
      have : stepAmp (rootAV n a) false = (stepAmp (⟨angleY realTOps ((stateTree realTOps (n + 1) a).valD ⟨0, 0⟩).mag
          ((stateTree realTOps n (fun i => a (i + 2 ^ n))).valD ⟨0, 0⟩).mag,
          angleZ realTOps ((stateTree realTOps (n + 1) a).valD ⟨0, 0⟩).arg
          ((stateTree realTOps n (fun i => a (i + 2 ^ n))).valD ⟨0, 0⟩).arg⟩ : AV ℝ) false : ℂ) := rfl
      rw [this, hL]
      exact ih a h k hlt
    · have hp : 2 ^ (n + 1) = 2 * 2 ^ n := by ring
      have hk' : k - 2 ^ n < 2 ^ n := by omega
      rw [← mul_assoc]
      have : stepAmp (rootAV n a) true = (stepAmp (⟨angleY realTOps ((stateTree realTOps (n + 1) a).valD ⟨0, 0⟩).mag
          ((stateTree realTOps n (fun i => a (i + 2 ^ n))).valD ⟨0, 0⟩).mag,
          angleZ realTOps ((stateTree realTOps (n + 1) a).valD ⟨0, 0⟩).arg
          ((stateTree realTOps n (fun i => a (i + 2 ^ n))).valD ⟨0, 0⟩).arg⟩ : AV ℝ) true : ℂ) := rfl
      rw [this, hR, ih (fun i => a (i + 2 ^ n)) h' (k - 2 ^ n) hk']
      show pol (a (k - 2 ^ n + 2 ^ n)).mag (a (k - 2 ^ n + 2 ^ n)).arg = _
      rw [Nat.sub_add_cancel (not_lt.mp hlt)]

/-! ### The root: norm and mean phase -/

/-- Sum of the leaf phases `arg a_0 + … + arg a_{2^n-1}` (as a balanced recursion). -/
def sumArg : Nat → (Nat → SV ℝ) → ℝ
  | 0, a => (a 0).arg
  | n + 1, a => sumArg n a + sumArg n (fun i => a (i + 2 ^ n))

theorem stateTree_root_arg (n : Nat) : ∀ (a : Nat → SV ℝ),
    ((stateTree realTOps n a).valD ⟨0, 0⟩).arg = sumArg n a / 2 ^ n := by
  induction n with
  | zero => intro a; simp [sumArg]; rfl
  | succ n ih =>
    intro a
    rw [stateTree_root_arg_succ, ih a, ih (fun i => a (i + 2 ^ n))]
    simp only [sumArg]
    field_simp
    ring

theorem pow2F_real (n : Nat) : pow2F realTOps n = (2 : ℝ) ^ n := by
  induction n with
  | zero => rfl
  | succ n ih =>
    show (2 : ℝ) * pow2F realTOps n = _
    rw [ih]; ring

theorem sumArgs_succ (m : Nat) (a : Nat → SV ℝ) :
    sumArgs realTOps (m + 1) a = sumArgs realTOps m a + (a m).arg := by
  simp only [sumArgs, List.range_succ, List.foldl_append, List.foldl_cons, List.foldl_nil]
  rfl

theorem sumArgs_add (m : Nat) (a : Nat → SV ℝ) : ∀ p,
    sumArgs realTOps (m + p) a = sumArgs realTOps m a + sumArgs realTOps p (fun i => a (i + m))
  | 0 => by
    have : sumArgs realTOps 0 (fun i => a (i + m)) = 0 := rfl
    rw [this]; simp
  | p + 1 => by
    rw [← Nat.add_assoc, sumArgs_succ, sumArgs_add m a p, sumArgs_succ]
    show _ = _ + (_ + (a (p + m)).arg)
    rw [Nat.add_comm p m]; ring

theorem sumArgs_eq (n : Nat) : ∀ (a : Nat → SV ℝ), sumArgs realTOps (2 ^ n) a = sumArg n a := by
  induction n with
  | zero =>
    intro a
    show sumArgs realTOps (0 + 1) a = _
    rw [sumArgs_succ]
    show (0 : ℝ) + (a 0).arg = (a 0).arg
    ring
  | succ n ih =>
    intro a
    rw [show 2 ^ (n + 1) = 2 ^ n + 2 ^ n by ring, sumArgs_add, ih a, ih]
    rfl

/-- The global phase the code adds, `sum(np.angle(params)) / len(params)`, is the phase stored at
the root of the state tree. -/
theorem meanArg_eq_root (n : Nat) (a : Nat → SV ℝ) :
    meanArg realTOps n a = ((stateTree realTOps n a).valD ⟨0, 0⟩).arg := by
  rw [stateTree_root_arg]
  show sumArgs realTOps (2 ^ n) a / pow2F realTOps n = _
  rw [sumArgs_eq, pow2F_real]

theorem stateTree_root_unit (n : Nat) (a : Nat → SV ℝ) (h : ∀ k, 0 ≤ (a k).mag)
    (hu : sumSq n a = 1) : ((stateTree realTOps n a).valD ⟨0, 0⟩).mag = 1 := by
  have h2 := stateTree_root_sq n a h
  rw [hu] at h2
  have h0 := stateTree_root_nonneg n a h
  have : ((stateTree realTOps n a).valD ⟨0, 0⟩).mag ^ 2 = (1 : ℝ) ^ 2 := by rw [h2]; ring
  exact (sq_eq_sq₀ h0 (by norm_num)).1 this

theorem pol_leavesOf (a : Nat → ℂ) (k : Nat) :
    pol (leavesOf a k).mag (leavesOf a k).arg = a k := by
  show ((‖a k‖ : ℝ) : ℂ) * Complex.exp ((Complex.arg (a k) : ℂ) * Complex.I) = a k
  exact Complex.norm_mul_exp_arg_mul_I (a k)

/-- Path product for a unit vector `a : ℕ → ℂ` (entries `0 … 2^n − 1`), zero amplitudes
included: `e^{i·mean arg}` times the product of the factors along the path to `k` is `a_k`. -/
theorem topdown_path (n : Nat) (a : Nat → ℂ) (hu : sumSq n (leavesOf a) = 1) (k : Nat)
    (hk : k < 2 ^ n) :
    Complex.exp (((meanArg realTOps n (leavesOf a) : ℝ) : ℂ) * Complex.I)
      * (pathAmp n (angleTree realTOps (stateTree realTOps n (leavesOf a))) k : ℂ) = a k := by
  have hpos : ∀ j, 0 ≤ (leavesOf a j).mag := fun j => norm_nonneg _
  have h := topdown_path_aux n (leavesOf a) hpos k hk
  rw [stateTree_root_unit n _ hpos hu, ← meanArg_eq_root, pol_leavesOf] at h
  rw [← h]
  unfold pol
  push_cast
  ring

#print axioms topdown_path
end Qclib.Dense
