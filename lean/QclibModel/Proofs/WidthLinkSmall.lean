import QclibModel.Proofs.WidthLinkCore
import QclibModel.Model.Ucr
import QclibModel.Model.Pqm
import QclibModel.Model.FnPoints
import QclibModel.Model.BlackBox
/-
  C15 link — ucr (C13), pqm (C17), FnPointsInitialize (C18), BlackBoxInitialize (C19): every gate
  of the gate-list model touches only wires below the width the C15 table declares, and the top
  declared wire is used.  Core Lean only.
-/
namespace Qclib
namespace WL
open Widths
variable {Θ : Type}

/-! ### ucr -/

theorem rotG_wires (ax : Axis) (θ : Θ) (q : Nat) : (rotG ax θ q).wires = [q] := by
  cases ax <;> rfl

theorem entG_wires (e : Ent) (c t : Nat) : (entG (Θ := Θ) e c t).wires = [c, t] := by
  cases e <;> rfl

/-- `ucr` on `2^k` angles: target wire 0, controls `1 … k`; every gate is below `k + 1`. -/
theorem ucr_below (o : AOps Θ) (ax : Axis) (e : Ent) (k : Nat) (a : Nat → Θ) (last : Bool) :
    Below G.wires (k + 1) (ucr o ax e k a last) := by
  induction k generalizing a last with
  | zero =>
    simp only [ucr]
    split
    · exact below_nil
    · rw [below_singleton, rotG_wires]; intro w hw
      simp only [List.mem_singleton] at hw; omega
  | succ k ih =>
    have he : Below G.wires (k + 1 + 1) [(entG e (k + 1) 0 : G Θ)] := by
      rw [below_singleton, entG_wires]; intro w hw
      simp only [List.mem_cons, List.not_mem_nil, or_false] at hw; omega
    simp only [ucr, below_append, below_reverse]
    refine ⟨⟨⟨below_mono (ih _ _) (by omega), he⟩, below_mono (ih _ _) (by omega)⟩, ?_⟩
    split
    · exact he
    · exact below_nil

/-- With at least one control, the top control wire `k` is used (the middle entangler is
unconditional). -/
theorem ucr_uses_top (o : AOps Θ) (ax : Axis) (e : Ent) (k : Nat) (a : Nat → Θ) (last : Bool) :
    Uses G.wires (k + 1) (ucr o ax e (k + 1) a last) := by
  simp only [ucr]
  apply uses_append_left
  apply uses_append_left
  apply uses_append_right
  exact ⟨_, List.mem_singleton_self _, by rw [entG_wires]; simp⟩

/-- Without controls the single wire is used iff the angle is not negligible. -/
theorem ucr_zero_uses (o : AOps Θ) (ax : Axis) (e : Ent) (a : Nat → Θ) (last : Bool) :
    Uses G.wires 0 (ucr o ax e 0 a last) ↔ o.negl (a 0) = false := by
  simp only [ucr]
  cases h : o.negl (a 0)
  · simp only [Bool.false_eq_true, if_false]
    exact ⟨fun _ => trivial, fun _ => ⟨_, List.mem_singleton_self _, by rw [rotG_wires]; simp⟩⟩
  · simp only [if_true]
    exact ⟨fun ⟨g, hg, _⟩ => absurd hg List.not_mem_nil, fun h => by cases h⟩

/-! ### pqm -/

theorem pqmXor_below {n W : Nat} (classical : Bool) (pattern : Nat → Bool) {mem pat : Nat → Nat}
    (hm : ∀ k, k < n → mem k < W) (hp : classical = false → ∀ k, k < n → pat k < W) :
    Below G.wires W (pqmXor (Θ := Θ) n classical pattern mem pat) := by
  unfold pqmXor
  apply below_flatMap
  intro k hk
  simp only [List.mem_range] at hk
  cases classical with
  | true =>
    simp only [if_true]
    split
    · rw [below_singleton]; intro w hw
      simp only [G.wires, List.mem_singleton] at hw; subst hw; exact hm k hk
    · exact below_nil
  | false =>
    simp only [Bool.false_eq_true, if_false]
    rw [below_singleton]; intro w hw
    simp only [G.wires, List.mem_cons, List.not_mem_nil, or_false] at hw
    rcases hw with rfl | rfl
    · exact hp rfl k hk
    · exact hm k hk

/-- `pqm.initialize` on ANY registers: every gate is on a memory wire, the auxiliary wire or (for a
quantum pattern) a pattern wire. -/
theorem pqm_below_gen {n W : Nat} (classical : Bool) (pattern : Nat → Bool) {mem pat : Nat → Nat}
    {aux : Nat} (θm θc : Θ) (hm : ∀ k, k < n → mem k < W)
    (hp : classical = false → ∀ k, k < n → pat k < W) (ha : aux < W) :
    Below G.wires W (pqm n classical pattern mem pat aux θm θc) := by
  have hh : Below G.wires W [(G.h aux : G Θ)] := by
    rw [below_singleton]; intro w hw
    simp only [G.wires, List.mem_singleton] at hw; subst hw; exact ha
  have hx := pqmXor_below (Θ := Θ) classical pattern hm hp
  simp only [pqm, below_append, below_reverse]
  refine ⟨⟨⟨⟨⟨hh, hx⟩, ?_⟩, ?_⟩, hx⟩, hh⟩
  · apply below_map; intro k hk w hw
    simp only [List.mem_range] at hk
    simp only [G.wires, List.mem_singleton] at hw; subst hw; exact hm k hk
  · apply below_map; intro k hk w hw
    simp only [List.mem_range] at hk
    simp only [G.wires, List.mem_cons, List.not_mem_nil, or_false] at hw
    rcases hw with rfl | rfl
    · exact ha
    · exact hm k hk

theorem pqm_uses_aux (n : Nat) (classical : Bool) (pattern : Nat → Bool) (mem pat : Nat → Nat)
    (aux : Nat) (θm θc : Θ) : Uses G.wires aux (pqm n classical pattern mem pat aux θm θc) := by
  simp only [pqm]
  apply uses_append_right
  exact ⟨_, List.mem_singleton_self _, by simp [G.wires]⟩

/-- The natural layout of the registers handed to `pqm.initialize` (the one the C15 width row
counts): classical pattern — memory `0 … n−1`, auxiliary `n`; quantum pattern — pattern
`0 … n−1`, memory `n … 2n−1`, auxiliary `2n`. -/
def pqmMem (n : Nat) (classical : Bool) (k : Nat) : Nat := if classical then k else n + k
def pqmAux (n : Nat) (classical : Bool) : Nat := if classical then n else 2 * n

/-- The model on the natural layout. -/
def pqmNatural (n : Nat) (classical : Bool) (pattern : Nat → Bool) (θm θc : Θ) : Circ Θ :=
  pqm n classical pattern (pqmMem n classical) (fun k => k) (pqmAux n classical) θm θc

theorem pqmNatural_below (n : Nat) (classical : Bool) (pattern : Nat → Bool) (θm θc : Θ) :
    Below G.wires (declaredWidth .pqm { n := n, classical := classical })
      (pqmNatural n classical pattern θm θc) := by
  show Below G.wires (n + 1 + (if classical = true then 0 else n)) _
  apply pqm_below_gen
  · intro k hk; unfold pqmMem; cases classical <;> simp <;> omega
  · intro hc k hk; subst hc; simp; omega
  · unfold pqmAux; cases classical <;> simp <;> omega

theorem pqmNatural_uses_top (n : Nat) (classical : Bool) (pattern : Nat → Bool) (θm θc : Θ) :
    Uses G.wires (declaredWidth .pqm { n := n, classical := classical } - 1)
      (pqmNatural n classical pattern θm θc) := by
  have h := pqm_uses_aux n classical pattern (pqmMem n classical) (fun k => k)
    (pqmAux n classical) θm θc
  have e : declaredWidth .pqm { n := n, classical := classical } - 1 = pqmAux n classical := by
    show n + 1 + (if classical = true then 0 else n) - 1 = _
    unfold pqmAux; cases classical <;> simp <;> omega
  rw [e]; exact h

/-! ### FnPointsInitialize -/

section fn
variable (n : Nat) (hn : 2 ≤ n)

theorem fn_x_lt (j : Nat) : (fnCodeLayout n).xw j < 2 * n + 1 := by
  show n - 1 - j < 2 * n + 1; omega
theorem fn_g_lt (k : Nat) (hk : k + 2 ≤ n) : (fnCodeLayout n).gw k < 2 * n + 1 := by
  show n + k < 2 * n + 1; omega
theorem fn_c0_lt : (fnCodeLayout n).c0 < 2 * n + 1 := by
  show 2 * n - 1 < 2 * n + 1; omega
theorem fn_c1_lt : (fnCodeLayout n).c1 < 2 * n + 1 := by
  show 2 * n < 2 * n + 1; omega

theorem fn_xgate_below (z : Nat → Bool) (k : Nat) :
    Below G.wires (2 * n + 1) (if z k then [] else [(G.x ((fnCodeLayout n).xw k) : G Θ)]) := by
  split
  · exact below_nil
  · rw [below_singleton]; intro w hw
    simp only [G.wires, List.mem_singleton] at hw; rw [hw]; exact fn_x_lt n k

include hn

theorem fnStage0_below (z : Nat → Bool) :
    Below G.wires (2 * n + 1) (fnStage0 (Θ := Θ) (fnCodeLayout n) z) := by
  simp only [fnStage0, fnFlipflop01, below_append]
  refine ⟨⟨⟨fn_xgate_below _ z 0, fn_xgate_below _ z 1⟩, ?_⟩, fn_xgate_below _ z 0, fn_xgate_below _ z 1⟩
  rw [below_singleton]; intro w hw
  simp only [G.wires, List.mem_cons, List.not_mem_nil, or_false] at hw
  rcases hw with h | h | h <;> rw [h]
  · exact fn_x_lt n 0
  · exact fn_x_lt n 1
  · exact fn_g_lt n 0 (by omega)

omit hn in
theorem fnStage_below (z : Nat → Bool) (k : Nat) (hk2 : 2 ≤ k) (hk : k < n) :
    Below G.wires (2 * n + 1) (fnStage (Θ := Θ) (fnCodeLayout n) z k) := by
  simp only [fnStage, below_append]
  refine ⟨⟨fn_xgate_below n z k, ?_⟩, fn_xgate_below n z k⟩
  rw [below_singleton]; intro w hw
  simp only [G.wires, List.mem_cons, List.not_mem_nil, or_false] at hw
  rcases hw with h | h | h <;> rw [h]
  · exact fn_x_lt n k
  · exact fn_g_lt n (k - 2) (by omega)
  · exact fn_g_lt n (k - 1) (by omega)

theorem fnLadder_below (z : Nat → Bool) :
    Below G.wires (2 * n + 1) (fnLadder (Θ := Θ) (fnCodeLayout n) n z) := by
  have hs : ∀ l : List Nat, (∀ i ∈ l, i < n - 2) →
      Below G.wires (2 * n + 1)
        (l.flatMap (fun i => fnStage (Θ := Θ) (fnCodeLayout n) z (i + 2))) := by
    intro l hl
    apply below_flatMap
    intro i hi
    exact fnStage_below n z (i + 2) (by omega) (by have := hl i hi; omega)
  simp only [fnLadder, below_append]
  refine ⟨⟨⟨⟨fnStage0_below n hn z, hs _ (fun i hi => List.mem_range.mp hi)⟩, ?_⟩,
    hs _ (fun i hi => List.mem_range.mp (List.mem_reverse.mp hi))⟩, fnStage0_below n hn z⟩
  rw [below_singleton]; intro w hw
  simp only [G.wires, List.mem_cons, List.not_mem_nil, or_false] at hw
  rcases hw with h | h <;> rw [h]
  · exact fn_g_lt n (n - 2) (by omega)
  · exact fn_c0_lt n

omit hn in
theorem fnMove_below (prev z : Nat → Bool) :
    Below G.wires (2 * n + 1) (fnMove (Θ := Θ) (fnCodeLayout n) n prev z) := by
  have hx : ∀ w ∈ (G.x (fnCodeLayout n).c1 : G Θ).wires, w < 2 * n + 1 := by
    intro w hw; simp only [G.wires, List.mem_singleton] at hw; rw [hw]; exact fn_c1_lt n
  simp only [fnMove, below_append, below_cons]
  refine ⟨⟨⟨hx, below_nil⟩, ?_⟩, ?_, hx, below_nil⟩
  · apply below_map; intro j _ w hw
    simp only [G.wires, List.mem_cons, List.not_mem_nil, or_false] at hw
    rcases hw with h | h <;> rw [h]
    · exact fn_c1_lt n
    · exact fn_x_lt n j
  · intro w hw
    simp only [G.wires, List.mem_cons, List.not_mem_nil, or_false] at hw
    rcases hw with h | h <;> rw [h]
    · exact fn_c1_lt n
    · exact fn_c0_lt n

theorem fnLoop_below (A : FnAngles Θ) (prev : Nat → Bool) (pts : List FnPoint) :
    Below G.wires (2 * n + 1) (fnLoop (fnCodeLayout n) n A prev pts) := by
  induction pts generalizing prev with
  | nil => exact below_nil
  | cons pt rest ih =>
    simp only [fnLoop, fnIter, fnSmatrix, below_append]
    refine ⟨⟨⟨fnMove_below n prev pt.z, ?_⟩, fnLadder_below n hn pt.z⟩, ih _⟩
    rw [below_singleton]; intro w hw
    simp only [G.wires, List.mem_cons, List.not_mem_nil, or_false] at hw
    rcases hw with h | h <;> rw [h]
    · exact fn_c0_lt n
    · exact fn_c1_lt n

theorem fnPointsAt_below (A : FnAngles Θ) (pts : List FnPoint) :
    Below G.wires (2 * n + 1) (fnPointsAt (fnCodeLayout n) n A pts) := by
  simp only [fnPointsAt, below_append]
  refine ⟨fnLoop_below n hn A _ _, ?_⟩
  rw [below_singleton]; intro w hw
  simp only [G.wires, List.mem_singleton] at hw; rw [hw]; exact fn_c1_lt n

end fn

theorem fnPointsCode_ok {mk : Int → FnAngles Θ} {n : Nat} {pts : List FnPoint} {N : Option Int}
    {c : Circ Θ} (h : fnPointsCode mk n pts N = .ok c) :
    2 ≤ n ∧ ∃ A, c = fnPointsAt (fnCodeLayout n) n A pts := by
  simp only [fnPointsCode] at h
  split at h
  · cases h
  · split at h
    · cases h
    · split at h
      · cases h
      · rename_i hn
        simp only [Except.ok.injEq] at h
        exact ⟨by omega, _, h.symm⟩

/-- Soundness for `FnPointsInitialize`. -/
theorem fnPoints_below (mk : Int → FnAngles Θ) (n : Nat) (pts : List FnPoint) (N : Option Int)
    (c : Circ Θ) (h : fnPointsCode mk n pts N = .ok c) :
    Below G.wires (declaredWidth .fnPoints { n := n }) c := by
  obtain ⟨hn, A, rfl⟩ := fnPointsCode_ok h
  exact fnPointsAt_below n hn A pts

/-- Tightness for `FnPointsInitialize`: the top wire `2n` is `reg_c[1]`, hit by the final `x`. -/
theorem fnPoints_uses_top (mk : Int → FnAngles Θ) (n : Nat) (pts : List FnPoint) (N : Option Int)
    (c : Circ Θ) (h : fnPointsCode mk n pts N = .ok c) :
    Uses G.wires (declaredWidth .fnPoints { n := n } - 1) c := by
  obtain ⟨hn, A, rfl⟩ := fnPointsCode_ok h
  show Uses G.wires (2 * n + 1 - 1) _
  simp only [fnPointsAt]
  apply uses_append_right
  exact ⟨_, List.mem_singleton_self _, by simp [G.wires, fnCodeLayout]⟩

/-! ### BlackBoxInitialize -/

/-- All wires a black-box gate acts on: the multiplexed rotations have target 0 and controls
`1 … k`; `I_s` has controls `0 … n−1` and target `n`. -/
def bgWires : BG Θ → List Nat
  | .h q => [q]
  | .ucry k _ | .ucrz k _ | .ucryDg k _ | .ucrzDg k _ => List.range (k + 1)
  | .it q => [q]
  | .is n => List.range (n + 1)
  | .gphasePi => []

namespace BB
open BlackBox

theorem hLayer_below (n m : Nat) (h : m ≤ n) : Below bgWires (n + 1) (hLayer (Θ := Θ) m) := by
  induction m with
  | zero => exact below_nil
  | succ m ih =>
    simp only [hLayer, below_append, below_singleton]
    refine ⟨ih (by omega), ?_⟩
    intro w hw; simp only [bgWires, List.mem_singleton] at hw; omega

theorem hLayerRev_below (n m : Nat) (h : m ≤ n) : Below bgWires (n + 1) (hLayerRev (Θ := Θ) m) := by
  induction m with
  | zero => exact below_nil
  | succ m ih =>
    simp only [hLayerRev, below_cons]
    refine ⟨?_, ih (by omega)⟩
    intro w hw; simp only [bgWires, List.mem_singleton] at hw; omega

theorem gateU_below (n : Nat) (θ φ : Nat → Θ) : Below bgWires (n + 1) (gateU n θ φ) := by
  simp only [gateU, below_append, below_cons]
  refine ⟨hLayer_below n n (Nat.le_refl _), ?_, ?_, below_nil⟩ <;>
    (intro w hw; simp only [bgWires, List.mem_range] at hw; exact hw)

theorem gateUdg_below (n : Nat) (θ φ : Nat → Θ) : Below bgWires (n + 1) (gateUdg n θ φ) := by
  simp only [gateUdg, below_append, below_cons]
  refine ⟨⟨?_, ?_, below_nil⟩, hLayerRev_below n n (Nat.le_refl _)⟩ <;>
    (intro w hw; simp only [bgWires, List.mem_range] at hw; exact hw)

theorem round_below (n : Nat) (θ φ : Nat → Θ) : Below bgWires (n + 1) (round n θ φ) := by
  simp only [round, below_append, below_singleton]
  refine ⟨⟨⟨gateU_below n θ φ, ?_⟩, gateUdg_below n θ φ⟩, ?_⟩
  · intro w hw; simp only [bgWires, List.mem_singleton] at hw; omega
  · intro w hw; simp only [bgWires, List.mem_range] at hw; exact hw

theorem rounds_below (n : Nat) (θ φ : Nat → Θ) (r : Nat) :
    Below bgWires (n + 1) (rounds n θ φ r) := by
  induction r with
  | zero => exact below_nil
  | succ r ih => simp only [rounds, below_append]; exact ⟨round_below n θ φ, ih⟩

theorem circuit_below (n r : Nat) (θ φ : Nat → Θ) :
    Below bgWires (n + 1) (circuit n r θ φ) := by
  simp only [circuit, core, below_append]
  refine ⟨⟨rounds_below n θ φ r, gateU_below n θ φ⟩, ?_⟩
  split
  · rw [below_singleton]; intro w hw; simp only [bgWires] at hw; exact absurd hw List.not_mem_nil
  · exact below_nil

/-- The top wire `n` is used (by the `UCRYGate` of the final `U`, which spans all `n + 1` wires). -/
theorem circuit_uses_top (n r : Nat) (θ φ : Nat → Θ) :
    Uses bgWires n (circuit n r θ φ) := by
  simp only [circuit, core, gateU]
  apply uses_append_left
  apply uses_append_right
  apply uses_append_right
  exact ⟨.ucry n θ, List.mem_cons_self, by simp [bgWires]⟩

end BB

/-- Soundness for `BlackBoxInitialize` (vector of `2^n` amplitudes). -/
theorem blackBox_below {F : Type} (o : TrigOps F) (n : Nat) (re im : Nat → F) :
    Below bgWires (declaredWidth .blackBox { len := 2 ^ n }) (BlackBox.define o n re im) := by
  show Below bgWires (Nat.log2 (2 ^ n) + 1) _
  rw [Nat.log2_two_pow]
  exact BB.circuit_below n _ _ _

theorem blackBox_uses_top {F : Type} (o : TrigOps F) (n : Nat) (re im : Nat → F) :
    Uses bgWires (declaredWidth .blackBox { len := 2 ^ n } - 1) (BlackBox.define o n re im) := by
  show Uses bgWires (Nat.log2 (2 ^ n) + 1 - 1) _
  rw [Nat.log2_two_pow, Nat.add_sub_cancel]
  exact BB.circuit_uses_top n _ _ _

end WL
end Qclib
