import QclibModel.Model.Mcu2
import Mathlib.Data.List.Nodup
import Mathlib.Data.List.Range
/-
  The pair schedule of `Ldmcu._c1c2` / `MCU._compute_qubit_pairs` (C04, part B): membership,
  no repetition, order by anti-diagonals, disjointness inside an anti-diagonal, and the
  dependency order the commutation argument of arXiv:2203.11882 needs.
-/
namespace Qclib.Mcu2

theorem mem_rawPairs {n start c t : Nat} :
    (c, t) ∈ rawPairs n start ↔ start ≤ c ∧ c < t ∧ t < n := by
  simp only [rawPairs, List.mem_flatMap, List.mem_range, List.mem_map, List.mem_range'_1,
    Prod.mk.injEq]
  constructor
  · rintro ⟨t', ht', c', ⟨h1, h2⟩, rfl, rfl⟩
    omega
  · rintro ⟨h1, h2, h3⟩
    exact ⟨t, h3, c, ⟨h1, by omega⟩, rfl, rfl⟩

theorem nodup_rawPairs (n start : Nat) : (rawPairs n start).Nodup := by
  rw [rawPairs, List.nodup_flatMap]
  refine ⟨fun t _ => ?_, ?_⟩
  · refine List.Nodup.map ?_ (List.nodup_range' (step := 1) (by omega))
    intro a b h
    exact congrArg Prod.fst h
  · refine List.Pairwise.imp ?_ (List.nodup_range (n := n))
    intro a b hab
    simp only [Function.onFun]
    intro x hx hy
    simp only [List.mem_map] at hx hy
    obtain ⟨_, _, rfl⟩ := hx
    obtain ⟨_, _, h⟩ := hy
    exact hab (congrArg Prod.snd h).symm

/-- The comparison handed to the sort. -/
def le' (rev : Bool) (a b : Nat × Nat) : Bool :=
  if rev then decide (key b ≤ key a) else decide (key a ≤ key b)

theorem sortPairs_eq (rev : Bool) (l : List (Nat × Nat)) : sortPairs rev l = l.mergeSort (le' rev) := rfl

theorem le'_trans (rev : Bool) (a b c : Nat × Nat) : le' rev a b = true → le' rev b c = true →
    le' rev a c = true := by
  cases rev <;> simp [le'] <;> omega

theorem le'_total (rev : Bool) (a b : Nat × Nat) : (le' rev a b || le' rev b a) = true := by
  cases rev <;> simp [le'] <;> omega

theorem sortPairs_perm (rev : Bool) (l : List (Nat × Nat)) : (sortPairs rev l).Perm l :=
  List.mergeSort_perm l _

theorem sortPairs_sorted (rev : Bool) (l : List (Nat × Nat)) :
    (sortPairs rev l).Pairwise (fun a b => le' rev a b = true) :=
  List.pairwise_mergeSort (le'_trans rev) (le'_total rev) l

/-- Python's sort is stable also with `reverse=True`: two elements `a` before `b` of the input
whose keys are already in the requested order keep their relative order. -/
theorem sortPairs_stable (rev : Bool) (l : List (Nat × Nat)) (a b : Nat × Nat)
    (h : le' rev a b = true) (hs : [a, b].Sublist l) : [a, b].Sublist (sortPairs rev l) :=
  List.pair_sublist_mergeSort (le'_trans rev) (le'_total rev) h hs

/-- `start` of `_c1c2`: 0 for `step == 1`, else 1. -/
def startOf (fwd : Bool) : Nat := if fwd then 0 else 1

theorem qubitPairs_perm (n : Nat) (fwd : Bool) :
    (qubitPairs n fwd).Perm (rawPairs n (startOf fwd)) := by
  cases fwd <;> simp only [qubitPairs, startOf] <;> exact sortPairs_perm _ _

theorem mem_qubitPairs {n : Nat} {fwd : Bool} {c t : Nat} :
    (c, t) ∈ qubitPairs n fwd ↔ startOf fwd ≤ c ∧ c < t ∧ t < n := by
  rw [(qubitPairs_perm n fwd).mem_iff, mem_rawPairs]

theorem nodup_qubitPairs (n : Nat) (fwd : Bool) : (qubitPairs n fwd).Nodup :=
  (qubitPairs_perm n fwd).nodup_iff.mpr (nodup_rawPairs _ _)

theorem qubitPairs_sorted (n : Nat) (fwd : Bool) :
    (qubitPairs n fwd).Pairwise
      (fun a b => if fwd then key b ≤ key a else key a ≤ key b) := by
  cases fwd
  · have := sortPairs_sorted false (rawPairs n 1)
    simpa [qubitPairs, le'] using this
  · have := sortPairs_sorted true (rawPairs n 0)
    simpa [qubitPairs, le'] using this

/-- Two different pairs on one anti-diagonal share no wire. -/
theorem antidiag_disjoint {a b : Nat × Nat} (ha : a.1 < a.2) (hb : b.1 < b.2) (hne : a ≠ b)
    (hk : key a = key b) : a.1 ≠ b.1 ∧ a.1 ≠ b.2 ∧ a.2 ≠ b.1 ∧ a.2 ≠ b.2 := by
  obtain ⟨a1, a2⟩ := a
  obtain ⟨b1, b2⟩ := b
  simp only [key] at *
  have : ¬ (a1 = b1 ∧ a2 = b2) := by
    rintro ⟨rfl, rfl⟩
    exact hne rfl
  omega

/-- Dependency order.  Forward sweep (descending anti-diagonals): a gate never targets a wire that
a later gate uses as control — every gate sees its control before that wire is rotated.  Backward
sweep (ascending): a gate's control is never the target of a later gate — every gate sees its
control after that wire has received all its rotations. -/
theorem qubitPairs_dep (n : Nat) (fwd : Bool) :
    (qubitPairs n fwd).Pairwise (fun a b => if fwd then a.2 ≠ b.1 else a.1 ≠ b.2) := by
  have hs := qubitPairs_sorted n fwd
  refine List.Pairwise.imp_of_mem ?_ hs
  intro a b ha hb hab
  obtain ⟨a1, a2⟩ := a
  obtain ⟨b1, b2⟩ := b
  have ha' := (mem_qubitPairs).mp ha
  have hb' := (mem_qubitPairs).mp hb
  cases fwd <;> simp only [key] at hab ⊢ <;> simp at hab ⊢ <;> omega

end Qclib.Mcu2
