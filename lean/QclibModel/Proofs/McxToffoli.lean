import QclibModel.Proofs.McxSem
/-
  C05, the relative-phase Toffoli of toffoli.py and its two halves.

  With `A = u(π/4,0,0)`, `c = cos(π/8)`, `s = sin(π/8)` the only facts used are `c² + s² = 1` and
  `c² - s² = 2cs` (structure `Pi8`; the real instance is in Proofs/McxReal.lean).  The block
  `[u(±π/4) t, cx c0 t, u(±π/4) t]` is the matrix family `c0 ? A^{±1} X A^{±1} : A^{±2}` on wire `t`,
  and `(A X A)⁻¹ X (A X A) = X`, `(A A)⁻¹ X (A A) = -Z`.
-/
namespace Qclib
open RotSem

/-- The algebraic laws of the three gate parameters `π/4`, `-π/4`, `0`. -/
structure Pi8 {Θ : Type} (R : Type) [CommRing R] [RotSem Θ R] (o : McxAngles Θ) : Prop where
  ex_z : (ex o.z : R) = 1
  cs_nq : (cs o.nq : R) = cs o.q
  sn_nq : (sn o.nq : R) = -sn o.q
  sq : (cs o.q : R) * cs o.q + sn o.q * sn o.q = 1
  dbl : (cs o.q : R) * cs o.q - sn o.q * sn o.q = 2 * (cs o.q * sn o.q)

section
variable {Θ R : Type} [CommRing R] [RotSem Θ R]

/-- `-Z = diag(-1, 1)`. -/
def negZ : Mat2 R := ⟨-1, 0, 0, 1⟩

/-- The matrix the relative-phase Toffoli applies to its target: `p ? (c ? X : -Z) : I`. -/
def relTofMat (p c : Bool) : Mat2 R := if p then (if c then Mat2.X else negZ) else 1

/-- `X` under a Boolean. -/
def condX (c : Bool) : Mat2 R := if c then Mat2.X else 1

theorem applyMcu_one' (c t : Nat) (m : Mat2 R) (ψ : State R) :
    applyMcu [(c, true)] m t ψ = applyFam (fun b => if b c then m else 1) t ψ := by
  funext b
  by_cases hc : b c = true
  · simp [applyMcu, applyFam, ctrlOk, hc]
  · have hc' : b c = false := by simpa using hc
    by_cases h : b t = true
    · simp [applyMcu, applyFam, ctrlOk, hc', h, setBit_self' b t true h]
    · have h' : b t = false := by simpa using h
      simp [applyMcu, applyFam, ctrlOk, hc', h', setBit_self' b t false h']

/-- The block `[u(θ,0,0) t, cx c0 t, u(θ,0,0) t]` as a matrix family on `t`. -/
theorem sem_block (θ z : Θ) (c0 t : Nat) (h : c0 ≠ t) (ψ : State R) :
    sem [G.u θ z z t, G.cx c0 t, G.u θ z z t] ψ
      = applyFam (fun b => (matU θ z z : Mat2 R) * (condX (b c0) * matU θ z z)) t ψ := by
  have e : sem [G.u θ z z t, G.cx c0 t, G.u θ z z t] ψ
      = applyFam (fun _ => (matU θ z z : Mat2 R)) t
          (applyFam (fun b => condX (b c0)) t (applyFam (fun _ => (matU θ z z : Mat2 R)) t ψ)) := by
    simp only [sem, List.foldl, denote, applyMcu_nil', applyMcu_one', condX]
  rw [e, applyFam_comp' t _ _ (fun _ _ => rfl), applyFam_comp' t]
  intro b v
  simp only [setBit_other b v h]

variable (o : McxAngles Θ) (hp : Pi8 R o)
include hp

/-- The key 2×2 identity: `P_c · X^p · P_c⁻¹ = p ? (c ? X : -Z) : I`. -/
theorem block_conj (p c : Bool) :
    ((matU o.q o.z o.z : Mat2 R) * (condX c * matU o.q o.z o.z))
        * (condX p * ((matU o.nq o.z o.z : Mat2 R) * (condX c * matU o.nq o.z o.z)))
      = relTofMat p c := by
  have h1 := hp.sq
  have h2 := hp.dbl
  cases p <;> cases c <;>
    ext <;>
    simp [relTofMat, condX, negZ, matU, Mat2.X, hp.ex_z, hp.cs_nq, hp.sn_nq] <;>
    grind

end
end Qclib
