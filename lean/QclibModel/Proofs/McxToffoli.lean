import QclibModel.Proofs.McxSem
/-
  C05, the relative-phase Toffoli of toffoli.py and its two halves.

  With `A = u(π/4,0,0)`, `c = cos(π/8)`, `s = sin(π/8)` the only facts used are `c² + s² = 1` and
  `c² - s² = 2cs` (structure `Pi8`; the real instance is in Proofs/McxReal.lean).  The block
  `[u(±π/4) t, cx c0 t, u(±π/4) t]` is the matrix family `c0 ? A^{±1} X A^{±1} : A^{±2}` on wire `t`,
  and `(A X A)⁻¹ X (A X A) = X`, `(A A)⁻¹ X (A A) = -Z`.
-/
namespace Qclib
open RotSem

/-- The algebraic laws of the three gate parameters `π/4`, `-π/4`, `0`. -/
structure Pi8 {Θ : Type} (R : Type) [CommRing R] [RotSem Θ R] (o : McxAngles Θ) : Prop where
  ex_z : (ex o.z : R) = 1
  cs_nq : (cs o.nq : R) = cs o.q
  sn_nq : (sn o.nq : R) = -sn o.q
  sq : (cs o.q : R) * cs o.q + sn o.q * sn o.q = 1
  dbl : (cs o.q : R) * cs o.q - sn o.q * sn o.q = 2 * (cs o.q * sn o.q)

section
variable {Θ R : Type} [CommRing R] [RotSem Θ R]

/-- `-Z = diag(-1, 1)`. -/
def negZ : Mat2 R := ⟨-1, 0, 0, 1⟩

/-- The matrix the relative-phase Toffoli applies to its target: `p ? (c ? X : -Z) : I`. -/
def relTofMat (p c : Bool) : Mat2 R := if p then (if c then Mat2.X else negZ) else 1

/-- `X` under a Boolean. -/
def condX (c : Bool) : Mat2 R := if c then Mat2.X else 1

theorem applyMcu_one' (c t : Nat) (m : Mat2 R) (ψ : State R) :
    applyMcu [(c, true)] m t ψ = applyFam (fun b => if b c then m else 1) t ψ := by
  funext b
  by_cases hc : b c = true
  · simp [applyMcu, applyFam, ctrlOk, hc]
  · have hc' : b c = false := by simpa using hc
    by_cases h : b t = true
    · simp [applyMcu, applyFam, ctrlOk, hc', h, setBit_self' b t true h]
    · have h' : b t = false := by simpa using h
      simp [applyMcu, applyFam, ctrlOk, hc', h', setBit_self' b t false h']

/-- The block `[u(θ,0,0) t, cx c0 t, u(θ,0,0) t]` as a matrix family on `t`. -/
theorem sem_block (θ z : Θ) (c0 t : Nat) (h : c0 ≠ t) (ψ : State R) :
    sem [G.u θ z z t, G.cx c0 t, G.u θ z z t] ψ
      = applyFam (fun b => (matU θ z z : Mat2 R) * (condX (b c0) * matU θ z z)) t ψ := by
  have e : sem [G.u θ z z t, G.cx c0 t, G.u θ z z t] ψ
      = applyFam (fun _ => (matU θ z z : Mat2 R)) t
          (applyFam (fun b => condX (b c0)) t (applyFam (fun _ => (matU θ z z : Mat2 R)) t ψ)) := by
    simp only [sem, List.foldl, denote, applyMcu_nil', applyMcu_one', condX]
  have hfree : TFree t (fun b : Bits => (condX (b c0) : Mat2 R)) := by
    intro b v
    simp only [setBit_other b v h]
  rw [e, applyFam_comp' t _ _ hfree, applyFam_comp' t _ _ (fun _ _ => rfl)]
  exact applyFam_congr t (fun b => Mat2.mul_assoc' _ _ _) ψ

theorem toffoli_none (o : McxAngles Θ) (c0 c1 t : Nat) :
    toffoli o .none c0 c1 t
      = [G.u o.nq o.z o.z t, G.cx c0 t, G.u o.nq o.z o.z t] ++ [G.cx c1 t]
          ++ [G.u o.q o.z o.z t, G.cx c0 t, G.u o.q o.z o.z t] := rfl

theorem toffoli_right (o : McxAngles Θ) (c0 c1 t : Nat) :
    toffoli o .right c0 c1 t
      = [G.u o.nq o.z o.z t, G.cx c0 t, G.u o.nq o.z o.z t] ++ [G.cx c1 t] := rfl

theorem toffoli_left (o : McxAngles Θ) (c0 c1 t : Nat) :
    toffoli o .left c0 c1 t
      = [G.cx c1 t] ++ [G.u o.q o.z o.z t, G.cx c0 t, G.u o.q o.z o.z t] := rfl

theorem denote_cx_fam (c t : Nat) (ψ : State R) :
    denote (G.cx c t : G Θ) ψ = applyFam (fun b => (condX (b c) : Mat2 R)) t ψ := by
  simp only [denote, applyMcu_one', condX]

/-- sign of `P ? (c0 ? X : -Z) : I` on `t` -/
def relSgn (P : Bits → Bool) (c0 t : Nat) (b : Bits) : R :=
  if P b && !(b c0) && !(b t) then -1 else 1

/-- relabelling of `P ? (c0 ? X : -Z) : I` on `t` -/
def relPerm (P : Bits → Bool) (c0 t : Nat) (b : Bits) : Bits :=
  if P b && b c0 then flipBit b t else b

omit [RotSem Θ R] in
/-- The relative-phase Toffoli family as a signed relabelling. -/
theorem relTof_sp (c0 t : Nat) (P : Bits → Bool) (ψ : State R) :
    applyFam (fun b => (relTofMat (P b) (b c0) : Mat2 R)) t ψ
      = sp (relSgn P c0 t) (relPerm P c0 t) ψ := by
  funext b
  simp only [applyFam, sp, relTofMat, negZ, Mat2.X, relSgn, relPerm, ← setBit_not]
  cases hP : P b <;> cases hc : b c0 <;> cases ht : b t <;>
    simp [setBit_self' b t _ ht]

variable (o : McxAngles Θ) (hp : Pi8 R o)
include hp

/-- The key 2×2 identity: `P_c · X^p · P_c⁻¹ = p ? (c ? X : -Z) : I`. -/
theorem block_conj (p c : Bool) :
    ((matU o.q o.z o.z : Mat2 R) * (condX c * matU o.q o.z o.z))
        * (condX p * ((matU o.nq o.z o.z : Mat2 R) * (condX c * matU o.nq o.z o.z)))
      = relTofMat p c := by
  have h1 := hp.sq
  have h2 := hp.dbl
  cases p <;> cases c <;>
    ext <;>
    simp [relTofMat, condX, negZ, matU, Mat2.X, hp.ex_z, hp.cs_nq, hp.sn_nq] <;>
    grind

/-- `P⁻¹ ; X_t^P ; P` (time order) is the relative-phase Toffoli matrix family. -/
theorem conj_core (c0 t : Nat) (hct : c0 ≠ t) (P : Bits → Bool)
    (hPt : ∀ b v, P (setBit b t v) = P b) (ψ : State R) :
    sem [G.u o.q o.z o.z t, G.cx c0 t, G.u o.q o.z o.z t]
        (applyFam (fun b => (condX (P b) : Mat2 R)) t
          (sem [G.u o.nq o.z o.z t, G.cx c0 t, G.u o.nq o.z o.z t] ψ))
      = applyFam (fun b => (relTofMat (P b) (b c0) : Mat2 R)) t ψ := by
  have f1 : TFree t (fun b : Bits =>
      (matU o.nq o.z o.z : Mat2 R) * (condX (b c0) * matU o.nq o.z o.z)) := by
    intro b v
    simp only [setBit_other b v hct]
  have f2 : TFree t (fun b : Bits => (condX (P b) : Mat2 R)
      * ((matU o.nq o.z o.z : Mat2 R) * (condX (b c0) * matU o.nq o.z o.z))) := by
    intro b v
    simp only [setBit_other b v hct, hPt]
  rw [sem_block _ _ _ _ hct, sem_block _ _ _ _ hct, applyFam_comp' t _ _ f1,
    applyFam_comp' t _ _ f2]
  exact applyFam_congr t (fun b => block_conj o hp (P b) (b c0)) ψ

/-- The full relative-phase Toffoli `Toffoli()` on wires `[c0, c1, t]` is the matrix family
`c1 ? (c0 ? X : -Z) : I` on `t`. -/
theorem toffoli_relphase (c0 c1 t : Nat) (h0 : c0 ≠ t) (h1 : c1 ≠ t) (ψ : State R) :
    sem (toffoli o .none c0 c1 t) ψ
      = applyFam (fun b => (relTofMat (b c1) (b c0) : Mat2 R)) t ψ := by
  rw [toffoli_none, sem_append, sem_append, sem_single, denote_cx_fam]
  exact conj_core o hp c0 t h0 (fun b => b c1) (fun b v => by simp only [setBit_other b v h1]) ψ

/-- The conjugation step: a right-cancelled and a left-cancelled Toffoli around a signed
relabelling `W = sp σ π` that does not see `t`, keeps `c0` and flips `a` exactly under `P`,
equal `W` after the relative-phase Toffoli family `P ? (c0 ? X : -Z) : I` on `t`. -/
theorem halves (c0 a t : Nat) (σ : Bits → R) (π : Bits → Bits) (P : Bits → Bool)
    (body : Circ Θ) (hbody : ∀ ψ : State R, sem body ψ = sp σ π ψ)
    (hct : c0 ≠ t) (hat : a ≠ t) (hf : FreeAt t σ π)
    (hc0 : ∀ b, (π b) c0 = b c0)
    (ha : ∀ b, (π b) a = xor (b a) (P b)) (hP : ∀ b, P (π b) = P b)
    (hPt : ∀ b v, P (setBit b t v) = P b) (ψ : State R) :
    sem (toffoli o .right c0 a t ++ body ++ toffoli o .left c0 a t) ψ
      = sp σ π (applyFam (fun b => (relTofMat (P b) (b c0) : Mat2 R)) t ψ) := by
  rw [toffoli_right, toffoli_left]
  simp only [sem_append, sem_single, hbody]
  rw [cx_sp_cx σ π a t P hf ha hP hat, ← applyFam_condX, sem_block _ _ _ _ hct,
    applyFam_sp σ π t hf, ← sem_block _ _ _ _ hct]
  · have e : (fun b => if P b = true then (Mat2.X : Mat2 R) else 1)
        = fun b => (condX (P b) : Mat2 R) := rfl
    rw [e, conj_core o hp c0 t hct P hPt]
  · intro b
    simp only [hc0]

end
end Qclib
