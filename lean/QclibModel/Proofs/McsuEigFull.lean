import QclibModel.Proofs.McsuEigCirc
import QclibModel.Proofs.McxAoChain
/-
  C04 (part A), the eigenbasis path of `Ldmcsu._define`, unconditionally: the bracket hypothesis
  `MvBracket` of `ldmcsu_eig_sem` is discharged for the *expanded* action-only V-chain and its
  printed inverse by `vchain_action_only_invCirc` (Proofs/McxAoChain.lean), the exact chains by
  `expMcx_mv` (C05_vchain), on the wire lists of `C04_slices`.
-/
set_option linter.unusedSectionVars false
set_option linter.unusedSimpArgs false
namespace Qclib.Mcsu
open RotSem

section chain
variable {Θ R : Type} [AddCommGroup Θ] [CommRing R] [RotSem Θ R] [RotLaws Θ R]

/-- **The action-only V-chain pair, read by its expansion, satisfies the bracket** on every
duplicate-free wire list `cw ++ anc ++ [t]` (`|anc| = |cw| - 2`, at least one control): the chain
is the ideal MCX followed by an involutive signed relabelling that neither reads nor writes the
target, its printed inverse is that relabelling followed by the ideal MCX. -/
theorem expMcx_mvBracket (a : McxAngles Θ) (hp : Pi8 R a) (cw anc : List Nat) (t : Nat)
    (cs : Option (List Bool)) (hn : (cw ++ anc ++ [t]).Nodup) (ha : anc.length = cw.length - 2)
    (h1 : 1 ≤ cw.length) (c : Circ Θ)
    (hc : expandMcxv a cw.length 1 (cw ++ anc ++ [t]) cs true = some c) :
    MvBracket (expMcx a (fun x : Θ => -x) : McxSem R) cw.length 1 (cw ++ anc ++ [t]) cs
      (litsOf cw (cs.getD []).reverse) t := by
  have hk0 : ¬ cw.length = 0 := by omega
  have hc' := hc
  simp only [expandMcxv, if_neg hk0] at hc'
  have hl : (cw ++ anc ++ [t]).length = cw.length + (cw.length - 2) + 1 := by
    simp only [List.length_append, ha, List.length_singleton]
  have L := vlayout_of_nodup (cw ++ anc ++ [t]) cw.length 1 hn hl
  obtain ⟨σ, π, hsem, hinv, hI, hfree, -⟩ :=
    vchain_action_only_invCirc (R := R) a hp cw.length 1 _ _ _ L cs c hc'
  have e1 : patLits cw.length (fun i => (cw ++ anc ++ [t]).getD i 0) cs
      = litsOf cw (cs.getD []).reverse := by
    rw [List.append_assoc]; exact patLits_eq_litsOf cw (anc ++ [t]) cs
  have e2 : (List.range 1).map
      (fun i => (cw ++ anc ++ [t]).getD (cw.length + (cw.length - 2) + i) 0) = [t] := by
    have := map_getD_range (cw ++ anc) [t]
    rwa [List.length_append, ha] at this
  rw [e1, e2] at hsem hinv
  simp only [mcxIdeal_single] at hsem hinv
  have et : (cw ++ anc ++ [t]).getD (cw.length + (cw.length - 2) + 0) 0 = t := by
    have := congrArg (fun l => l.getD 0 0) e2
    simpa using this
  have hft : FreeAt t σ π := by
    apply hfree t
    · intro i hi e
      exact L.hct i 0 (by omega) (by omega) (e.trans et.symm)
    · intro i hi e
      exact L.hat i 0 (by omega) (by omega) (e.trans et.symm)
  refine mvBracket_of_dirt _ _ _ _ _ _ t (sp σ π) (sp σ π) ?_ ?_ ?_ ?_
  · intro φ
    simp only [expMcx, hc, Bool.false_eq_true, if_false]
    exact hsem φ
  · intro φ
    simp only [expMcx, hc, if_true]
    exact hinv φ
  · exact sp_invol σ π hI.invπ hI.invσ
  · intro B φ
    exact (applyMcu_sp_comm σ π [] B t hft (by simp) φ).symm

end chain

section ld
variable {K Θ R : Type} [AddCommGroup Θ] [CommRing R] [RotSem Θ R] [RotLaws Θ R]

/-- The bracket of the model's second-half action-only pair, expanded. -/
theorem mcxHalf2_bracket (a : McxAngles Θ) (hp : Pi8 R a) (cw : List Nat) (t : Nat)
    (cs : Option (List Bool)) (inv0 : Bool) (hk : 2 ≤ cw.length) (hn : (cw ++ [t]).Nodup)
    (m : List (MG K Θ))
    (hm : expandSG a (fun x : Θ => -x) (mcxHalf2 cw [t] cs true inv0 : SG K) = some m) :
    MvBracket (expMcx a (fun x : Θ => -x) : McxSem R) (k2 cw.length) 1 (wires2 cw [t])
      (cs.map (csK2 · cw.length)) (litsOf (ctl2 cw) (csK2 (cs.getD []) cw.length).reverse) t := by
  obtain ⟨c, hc⟩ := expandSG_mcxv_some a _ _ _ _ _ _ _ m hm
  have hl := ctl2_length cw
  simp only [List.length_singleton, wires2_parts, ← hl] at hc
  have h := expMcx_mvBracket (R := R) a hp (ctl2 cw) (anc2 cw) t (cs.map (csK2 · cw.length))
    (by rw [← wires2_parts]; exact wires2_nodup cw [t] hn)
    (by rw [anc2_length cw hk, hl])
    (by rw [hl]; unfold k2; omega) c hc
  rw [hl, map_getD_csK2] at h
  exact h

/-- The eigen path with its MCX constructors read by their expansion (every gate of the list has
one). -/
theorem ldmcsu_eig_exp (o : ROps K) (a : McxAngles Θ) (hp : Pi8 R a) (ι : CMat K → Mat2 R)
    (u : CMat K) (eig : Cx K × Cx K × CMat K) (cw : List Nat) (t : Nat)
    (cs : Option (List Bool)) (gs : List (SG K)) (hk : 2 ≤ cw.length) (hn : (cw ++ [t]).Nodup)
    (hm : mainReal o u = false) (hs : secondaryReal o u = false)
    (hg : ldmcsu o u eig cw t cs = some gs)
    (hx : ∀ g ∈ gs, ∃ m : List (MG K Θ), expandSG a (fun x : Θ => -x) g = some m)
    (hI : EigInv (⟨rh Θ, rh Θ, rh Θ, -rh Θ⟩ : Mat2 R) (ι (eigS o eig.2.2))
      (ι (adj o (eigS o eig.2.2))) (ι (hEquiv o)) (ι (eigA o eig.1 eig.2.1))
      (ι (adj o (eigA o eig.1 eig.2.1))))
    (W : Mat2 R)
    (hW : eigBoth (⟨rh Θ, rh Θ, rh Θ, -rh Θ⟩ : Mat2 R) (ι (eigS o eig.2.2))
      (ι (adj o (eigS o eig.2.2))) (ι (hEquiv o)) (ι (eigA o eig.1 eig.2.1))
      (ι (adj o (eigA o eig.1 eig.2.1))) = W)
    (ψ : State R) :
    semSG ι (rh Θ) (expMcx a (fun x : Θ => -x)) gs ψ
      = applyMcu (litsOf cw (cs.getD []).reverse) W t ψ := by
  obtain ⟨pa, pb, pc, ea, eb, ec, hgs⟩ := ldmcsu_eig_unfold o u eig cw t cs hk hm hs gs hg
  have ha := halfLd_some o _ _ cw t cs true pa ea
  have hc := halfLd_some o _ _ cw t cs false pc ec
  simp only [if_true, Bool.false_eq_true, if_false] at ha hc
  obtain ⟨m1, hm1⟩ := hx (mcxHalf1 cw [t] cs) (by rw [hgs, hc]; simp)
  obtain ⟨m2, hm2⟩ := hx (mcxHalf2 cw [t] cs false false) (by rw [hgs, hc]; simp)
  obtain ⟨m3, hm3⟩ := hx (mcxHalf2 cw [t] cs true false) (by rw [hgs, ha]; simp)
  exact ldmcsu_eig_core o ι (rh Θ) _ u eig cw t cs gs hk hn hm hs hg
    (fun φ => mcxHalf1_full a hp ι cw t cs hk hn m1 hm1 φ)
    (fun φ => mcxHalf2_full a hp ι cw t cs false false hk hn m2 hm2 φ)
    (mcxHalf2_bracket a hp cw t cs false hk hn m3 hm3) hI W hW ψ

/-- **`Ldmcsu._define`, eigenbasis path, expanded to primitive gates, denotes the multi-controlled
gate** — no hypothesis about the MCX sub-circuits (exact chains: `C05_vchain`; the action-only
chain and its `.inverse()`: `vchain_action_only`). -/
theorem ldmcsu_eig_full (o : ROps K) (a : McxAngles Θ) (hp : Pi8 R a) (ι : CMat K → Mat2 R)
    (u : CMat K) (eig : Cx K × Cx K × CMat K) (cw : List Nat) (t : Nat)
    (cs : Option (List Bool)) (gs : List (SG K)) (ms : List (MG K Θ)) (hk : 2 ≤ cw.length)
    (hn : (cw ++ [t]).Nodup) (hm : mainReal o u = false) (hs : secondaryReal o u = false)
    (hg : ldmcsu o u eig cw t cs = some gs)
    (hx : expandAll a (fun x : Θ => -x) gs = some ms)
    (hI : EigInv (⟨rh Θ, rh Θ, rh Θ, -rh Θ⟩ : Mat2 R) (ι (eigS o eig.2.2))
      (ι (adj o (eigS o eig.2.2))) (ι (hEquiv o)) (ι (eigA o eig.1 eig.2.1))
      (ι (adj o (eigA o eig.1 eig.2.1))))
    (W : Mat2 R)
    (hW : eigBoth (⟨rh Θ, rh Θ, rh Θ, -rh Θ⟩ : Mat2 R) (ι (eigS o eig.2.2))
      (ι (adj o (eigS o eig.2.2))) (ι (hEquiv o)) (ι (eigA o eig.1 eig.2.1))
      (ι (adj o (eigA o eig.1 eig.2.1))) = W)
    (ψ : State R) :
    semMG ι ms ψ = applyMcu (litsOf cw (cs.getD []).reverse) W t ψ := by
  rw [expandAll_sem a _ ι gs ms hx]
  exact ldmcsu_eig_exp o a hp ι u eig cw t cs gs hk hn hm hs hg (expandAll_mem a _ gs ms hx)
    hI W hW ψ

omit [AddCommGroup Θ] [CommRing R] [RotSem Θ R] [RotLaws Θ R] in
/-- Every gate `half_linear_depth_mcv` emits has an expansion when the pattern is no longer than
the control register. -/
theorem halfLd_expands (o : ROps K) (a : McxAngles Θ) (neg : Θ → Θ) (x : K) (z : Cx K)
    (cw : List Nat) (t : Nat) (cs : Option (List Bool)) (inv : Bool) (gs : List (SG K))
    (hp : ∀ p, cs = some p → p.length ≤ cw.length)
    (hg : halfLinearDepthMcv o x z cw t cs inv = some gs) :
    ∀ g ∈ gs, ∃ m : List (MG K Θ), expandSG a neg g = some m := by
  have hgs := halfLd_some o x z cw t cs inv gs hg
  have hv1 : ∃ m : List (MG K Θ), expandSG a neg (mcxHalf1 cw [t] cs : SG K) = some m := by
    obtain ⟨c, hc⟩ := expandMcxv_defined a (k1 cw.length) 1 (wires1 cw [t])
      (cs.map (csK1 · cw.length)) false (by omega) (by
        intro p hp'
        cases cs with
        | none => simp at hp'
        | some q =>
          simp only [Option.map_some, Option.some.injEq] at hp'
          subst hp'
          exact csK1_length_le q _)
    exact ⟨(if false = true then invCirc neg c else c).map MG.prim, by
      simp only [mcxHalf1, expandSG, List.length_singleton, hc, Option.map_some]⟩
  have hv2 : ∀ ao inv', ∃ m : List (MG K Θ),
      expandSG a neg (mcxHalf2 cw [t] cs ao inv' : SG K) = some m := by
    intro ao inv'
    obtain ⟨c, hc⟩ := expandMcxv_defined a (k2 cw.length) 1 (wires2 cw [t])
      (cs.map (csK2 · cw.length)) ao (by omega) (by
        intro p hp'
        cases cs with
        | none => simp at hp'
        | some q =>
          simp only [Option.map_some, Option.some.injEq] at hp'
          subst hp'
          exact csK2_length_le q _ (hp q rfl))
    exact ⟨(if inv' = true then invCirc neg c else c).map MG.prim, by
      simp only [mcxHalf2, expandSG, List.length_singleton, hc, Option.map_some]⟩
  intro g hgm
  rw [hgs] at hgm
  cases inv
  · simp only [Bool.false_eq_true, if_false, List.mem_cons, List.not_mem_nil, or_false] at hgm
    rcases hgm with rfl | rfl | rfl | rfl | rfl | rfl
    · exact hv1
    · exact ⟨_, rfl⟩
    · exact ⟨_, rfl⟩
    · exact hv2 _ _
    · exact ⟨_, rfl⟩
    · exact ⟨_, rfl⟩
  · simp only [if_true, List.mem_cons, List.not_mem_nil, or_false] at hgm
    rcases hgm with rfl | rfl | rfl | rfl | rfl
    · exact ⟨_, rfl⟩
    · exact ⟨_, rfl⟩
    · exact hv2 _ _
    · exact ⟨_, rfl⟩
    · exact ⟨_, rfl⟩

omit [AddCommGroup Θ] [CommRing R] [RotSem Θ R] [RotLaws Θ R] in
/-- **The expansion of the eigen path exists** whenever the model emits a skeleton and the pattern
is `None` or a string no longer than the control register. -/
theorem ldmcsu_eig_full_defined (o : ROps K) (a : McxAngles Θ) (neg : Θ → Θ) (u : CMat K)
    (eig : Cx K × Cx K × CMat K) (cw : List Nat) (t : Nat) (cs : Option (List Bool))
    (gs : List (SG K)) (hk : 2 ≤ cw.length) (hm : mainReal o u = false)
    (hs : secondaryReal o u = false) (hp : ∀ p, cs = some p → p.length ≤ cw.length)
    (hg : ldmcsu o u eig cw t cs = some gs) :
    ∃ ms : List (MG K Θ), expandAll a neg gs = some ms := by
  obtain ⟨pa, pb, pc, ea, eb, ec, rfl⟩ := ldmcsu_eig_unfold o u eig cw t cs hk hm hs gs hg
  apply expandAll_defined
  intro g hgm
  simp only [List.mem_append] at hgm
  rcases hgm with (hgm | hgm) | hgm
  · exact halfLd_expands o a neg _ _ cw t cs true pa hp ea g hgm
  · exact linearDepthMcv_expands o a neg _ cw t cs true pb hp eb g hgm
  · exact halfLd_expands o a neg _ _ cw t cs false pc hp ec g hgm

end ld

/-! ### The real instance, unconditionally -/

section real
open Complex

/-- **`Ldmcsu(U, k, ctrl_state).definition` for general SU(2) (both diagonals non-real), real
instance of the model, expanded to primitive gates.**  Hypotheses only on the two numerical
kernels: the `np.linalg.eig` specification (`V = [[a, b], [-conj b, a]]`, `a` real,
`a² + |b|² = 1`; eigenvalues `p ∓ iq` on the unit circle; `U = V·diag·V†`) and the fourth-root
specification `r⁴ = e₂`.  For `k ≥ 2` controls on pairwise different wires, every pattern and every
state the expanded list denotes "apply `U` to the target iff control `cw[i]` reads
`ctrl_state[::-1][i]`" — exact and action-only V-chains written out as `u`/`cx`/`ccx`/`mcx`/`x` gates. -/
theorem ldmcsu_eig_full_spec (r4 : ℝ → ℝ → ℝ × ℝ) (cosH sinH : ℝ → ℝ) (u : CMat ℝ)
    (a br bi p q : ℝ) (hV : a ^ 2 + br ^ 2 + bi ^ 2 = 1) (he : p ^ 2 + q ^ 2 = 1)
    (hU : toMat u = toMat (su2Mat a 0 br bi) * ⟨⟨p, -q⟩, 0, 0, ⟨p, q⟩⟩
      * adjC (toMat (su2Mat a 0 br bi)))
    (hr : (⟨(r4 p q).1, (r4 p q).2⟩ : ℂ) ^ 4 = ⟨p, q⟩)
    (cw : List Nat) (t : Nat) (cs : Option (List Bool)) (gs : List (SG ℝ)) (ms : List (MG ℝ ℝ))
    (hk : 2 ≤ cw.length) (hn : (cw ++ [t]).Nodup)
    (hm : mainReal (realOps r4 cosH sinH) u = false)
    (hs : secondaryReal (realOps r4 cosH sinH) u = false)
    (hg : ldmcsu (realOps r4 cosH sinH) u (⟨p, -q⟩, ⟨p, q⟩, su2Mat a 0 br bi) cw t cs = some gs)
    (hx : expandAll realAngles (fun x : ℝ => -x) gs = some ms) (ψ : State ℂ) :
    semMG toMat ms ψ = applyMcu (litsOf cw (cs.getD []).reverse) (toMat u) t ψ := by
  have hrh : (2 : ℂ) * (rh ℝ * rh ℝ) = 1 := RotLaws.rh_sq
  have hpos := eig_a_pos r4 cosH sinH u a br bi p q hV hU hs
  obtain ⟨hinv, hboth⟩ := eig_both_real r4 cosH sinH a br bi p q (rh ℝ) hrh hV hpos he hr
  have hI : EigInv (⟨rh ℝ, rh ℝ, rh ℝ, -rh ℝ⟩ : Mat2 ℂ)
      (toMat (eigS (realOps r4 cosH sinH) (su2Mat a 0 br bi)))
      (toMat (adj (realOps r4 cosH sinH) (eigS (realOps r4 cosH sinH) (su2Mat a 0 br bi))))
      (toMat (hEquiv (realOps r4 cosH sinH)))
      (toMat (eigA (realOps r4 cosH sinH) ⟨p, -q⟩ ⟨p, q⟩))
      (toMat (adj (realOps r4 cosH sinH) (eigA (realOps r4 cosH sinH) ⟨p, -q⟩ ⟨p, q⟩))) := by
    rw [eigS_real, eigA_real, toMat_adj, toMat_adj]
    exact hinv
  have hW : eigBoth (⟨rh ℝ, rh ℝ, rh ℝ, -rh ℝ⟩ : Mat2 ℂ)
      (toMat (eigS (realOps r4 cosH sinH) (su2Mat a 0 br bi)))
      (toMat (adj (realOps r4 cosH sinH) (eigS (realOps r4 cosH sinH) (su2Mat a 0 br bi))))
      (toMat (hEquiv (realOps r4 cosH sinH)))
      (toMat (eigA (realOps r4 cosH sinH) ⟨p, -q⟩ ⟨p, q⟩))
      (toMat (adj (realOps r4 cosH sinH) (eigA (realOps r4 cosH sinH) ⟨p, -q⟩ ⟨p, q⟩)))
      = toMat u := by
    rw [eigS_real, eigA_real, toMat_adj, toMat_adj, hU]
    exact hboth
  exact ldmcsu_eig_full (realOps r4 cosH sinH) realAngles pi8_real toMat u _ cw t cs gs ms hk hn
    hm hs hg hx hI (toMat u) hW ψ

end real

/-! ### Non-vacuity -/

/-- `EigInv` over the integers with a both-fire product that is not the identity. -/
example : EigInv (⟨1, 0, 0, -1⟩ : Mat2 Int) ⟨1, 1, 0, 1⟩ ⟨1, -1, 0, 1⟩ ⟨0, 1, 1, 0⟩ ⟨1, 0, 2, 1⟩
      ⟨1, 0, -2, 1⟩
    ∧ eigBoth (⟨1, 0, 0, -1⟩ : Mat2 Int) ⟨1, 1, 0, 1⟩ ⟨1, -1, 0, 1⟩ ⟨0, 1, 1, 0⟩ ⟨1, 0, 2, 1⟩
      ⟨1, 0, -2, 1⟩ ≠ 1 := by
  refine ⟨⟨?_, ?_, ?_, ?_, ?_, ?_⟩, ?_⟩
  · apply Mat2.ext' <;> decide
  · apply Mat2.ext' <;> decide
  · apply Mat2.ext' <;> decide
  · apply Mat2.ext' <;> decide
  · apply Mat2.ext' <;> decide
  · apply Mat2.ext' <;> decide
  · intro h
    have := congrArg Mat2.b h
    revert this
    decide

/-- The hypotheses of `eig_both_real` / `ldmcsu_eig_spec` on `V` and the eigenvalues are
satisfiable: `V = [[4/5, 3/5], [-3/5, 4/5]]`, `e₂ = 3/5 + 4i/5`, and
`U = V·diag(conj e₂, e₂)·V† = [[3/5 - 28i/125, 96i/125], [96i/125, 3/5 + 28i/125]]` has both
diagonals non-real. -/
theorem eig_example_U :
    toMat (⟨⟨3 / 5, -(28 / 125)⟩, ⟨0, 96 / 125⟩, ⟨0, 96 / 125⟩, ⟨3 / 5, 28 / 125⟩⟩ : CMat ℝ)
      = toMat (su2Mat (4 / 5) 0 (3 / 5) 0) * ⟨⟨3 / 5, -(4 / 5)⟩, 0, 0, ⟨3 / 5, 4 / 5⟩⟩
        * adjC (toMat (su2Mat (4 / 5) 0 (3 / 5) 0)) := by
  apply Mat2.ext' <;> apply Complex.ext <;>
    simp [toMat, toC, su2Mat, adjC, mat_mul_def, Mat2.mul] <;> norm_num

/-- The interpretation that reads controls and target off the wire list and ignores `action_only`
(the ideal MCX for every placement). -/
def idealMcxSem (R : Type) [CommRing R] : McxSem R :=
  ⟨fun k _ ws cs _ _ =>
      applyMcu (litsOf (ws.take k) (cs.getD []).reverse) Mat2.X (ws.getD (k + (k - 2)) 0),
   fun _ _ _ _ ψ => ψ⟩

theorem idealMcxSem_ideal (R : Type) [CommRing R] : IdealMv (idealMcxSem R) := by
  intro cw anc t cs inv ψ _ ha _
  have e1 : (cw ++ anc ++ [t]).take cw.length = cw := by simp
  have e2 : (cw ++ anc ++ [t]).getD (cw.length + (cw.length - 2)) 0 = t := by
    rw [← ha, ← List.length_append]; simp
  simp only [idealMcxSem, e1, e2]

/-- Non-vacuity of `ldmcsu_eig_sem` / `ldmcsu_eig_spec`: the matrix `U` above, five controls on
wires `0..4` with pattern `10110`, target `5`, the ideal interpretation of the MCX placements
(which satisfies both `IdealMv` and `MvBracket`): the model emits a skeleton in the eigen branch
and it denotes `C^5(U)` with that pattern on every state. -/
example (r4 : ℝ → ℝ → ℝ × ℝ) (cosH sinH : ℝ → ℝ)
    (hr : (⟨(r4 (3 / 5) (4 / 5)).1, (r4 (3 / 5) (4 / 5)).2⟩ : ℂ) ^ 4 = ⟨3 / 5, 4 / 5⟩)
    (ψ : State ℂ) :
    ∃ gs, ldmcsu (realOps r4 cosH sinH)
        (⟨⟨3 / 5, -(28 / 125)⟩, ⟨0, 96 / 125⟩, ⟨0, 96 / 125⟩, ⟨3 / 5, 28 / 125⟩⟩ : CMat ℝ)
        (⟨3 / 5, -(4 / 5)⟩, ⟨3 / 5, 4 / 5⟩, su2Mat (4 / 5) 0 (3 / 5) 0) [0, 1, 2, 3, 4] 5
        (some (parseCs "10110")) = some gs
      ∧ semSG toMat (RotSem.rh ℝ) (idealMcxSem ℂ) gs ψ
          = applyMcu [(0, false), (1, true), (2, true), (3, false), (4, true)]
              (toMat (⟨⟨3 / 5, -(28 / 125)⟩, ⟨0, 96 / 125⟩, ⟨0, 96 / 125⟩, ⟨3 / 5, 28 / 125⟩⟩ :
                CMat ℝ)) 5 ψ := by
  have hm : mainReal (realOps r4 cosH sinH)
      (⟨⟨3 / 5, -(28 / 125)⟩, ⟨0, 96 / 125⟩, ⟨0, 96 / 125⟩, ⟨3 / 5, 28 / 125⟩⟩ : CMat ℝ) = false := by
    simp [mainReal, realOps]
  have hs : secondaryReal (realOps r4 cosH sinH)
      (⟨⟨3 / 5, -(28 / 125)⟩, ⟨0, 96 / 125⟩, ⟨0, 96 / 125⟩, ⟨3 / 5, 28 / 125⟩⟩ : CMat ℝ) = false := by
    simp [secondaryReal, realOps]
  obtain ⟨gs, hgs⟩ : ∃ gs, ldmcsu (realOps r4 cosH sinH)
      (⟨⟨3 / 5, -(28 / 125)⟩, ⟨0, 96 / 125⟩, ⟨0, 96 / 125⟩, ⟨3 / 5, 28 / 125⟩⟩ : CMat ℝ)
      (⟨3 / 5, -(4 / 5)⟩, ⟨3 / 5, 4 / 5⟩, su2Mat (4 / 5) 0 (3 / 5) 0) [0, 1, 2, 3, 4] 5
      (some (parseCs "10110")) = some gs := by
    have hu : ∀ m, unitaryOk (realOps r4 cosH sinH) m = true := fun m => by
      simp [unitaryOk, realOps]
    simp [ldmcsu, hm, hs, halfLinearDepthMcv, linearDepthMcv, unGate, hu]
  refine ⟨gs, hgs, ?_⟩
  have hB : MvBracket (idealMcxSem ℂ) (k2 [0, 1, 2, 3, 4].length) 1 (wires2 [0, 1, 2, 3, 4] [5])
      ((some (parseCs "10110")).map (csK2 · [0, 1, 2, 3, 4].length))
      (litsOf (ctl2 [0, 1, 2, 3, 4])
        (csK2 ((some (parseCs "10110")).getD []) [0, 1, 2, 3, 4].length).reverse) 5 := by
    intro B φ
    rfl
  exact ldmcsu_eig_spec r4 cosH sinH _ (4 / 5) (3 / 5) 0 (3 / 5) (4 / 5) (RotSem.rh ℝ)
    RotLaws.rh_sq (idealMcxSem ℂ) (idealMcxSem_ideal ℂ) (by norm_num) (by norm_num) eig_example_U
    hr [0, 1, 2, 3, 4] 5 (some (parseCs "10110")) gs (by decide) (by decide) hm hs hgs hB ψ

/-- Non-vacuity of `ldmcsu_eig_full` / `ldmcsu_eig_full_spec` / `expMcx_mvBracket`: the same
instance with the V-chains (exact and action-only) expanded to primitive gates — the expansion
exists and denotes `C^5(U)` with pattern `10110`. -/
example (r4 : ℝ → ℝ → ℝ × ℝ) (cosH sinH : ℝ → ℝ)
    (hr : (⟨(r4 (3 / 5) (4 / 5)).1, (r4 (3 / 5) (4 / 5)).2⟩ : ℂ) ^ 4 = ⟨3 / 5, 4 / 5⟩)
    (ψ : State ℂ) :
    ∃ gs ms, ldmcsu (realOps r4 cosH sinH)
        (⟨⟨3 / 5, -(28 / 125)⟩, ⟨0, 96 / 125⟩, ⟨0, 96 / 125⟩, ⟨3 / 5, 28 / 125⟩⟩ : CMat ℝ)
        (⟨3 / 5, -(4 / 5)⟩, ⟨3 / 5, 4 / 5⟩, su2Mat (4 / 5) 0 (3 / 5) 0) [0, 1, 2, 3, 4] 5
        (some (parseCs "10110")) = some gs
      ∧ expandAll realAngles (fun x : ℝ => -x) gs = some ms
      ∧ semMG toMat ms ψ
          = applyMcu [(0, false), (1, true), (2, true), (3, false), (4, true)]
              (toMat (⟨⟨3 / 5, -(28 / 125)⟩, ⟨0, 96 / 125⟩, ⟨0, 96 / 125⟩, ⟨3 / 5, 28 / 125⟩⟩ :
                CMat ℝ)) 5 ψ := by
  have hm : mainReal (realOps r4 cosH sinH)
      (⟨⟨3 / 5, -(28 / 125)⟩, ⟨0, 96 / 125⟩, ⟨0, 96 / 125⟩, ⟨3 / 5, 28 / 125⟩⟩ : CMat ℝ) = false := by
    simp [mainReal, realOps]
  have hs : secondaryReal (realOps r4 cosH sinH)
      (⟨⟨3 / 5, -(28 / 125)⟩, ⟨0, 96 / 125⟩, ⟨0, 96 / 125⟩, ⟨3 / 5, 28 / 125⟩⟩ : CMat ℝ) = false := by
    simp [secondaryReal, realOps]
  obtain ⟨gs, hgs⟩ : ∃ gs, ldmcsu (realOps r4 cosH sinH)
      (⟨⟨3 / 5, -(28 / 125)⟩, ⟨0, 96 / 125⟩, ⟨0, 96 / 125⟩, ⟨3 / 5, 28 / 125⟩⟩ : CMat ℝ)
      (⟨3 / 5, -(4 / 5)⟩, ⟨3 / 5, 4 / 5⟩, su2Mat (4 / 5) 0 (3 / 5) 0) [0, 1, 2, 3, 4] 5
      (some (parseCs "10110")) = some gs := by
    have hu : ∀ m, unitaryOk (realOps r4 cosH sinH) m = true := fun m => by
      simp [unitaryOk, realOps]
    simp [ldmcsu, hm, hs, halfLinearDepthMcv, linearDepthMcv, unGate, hu]
  obtain ⟨ms, hms⟩ := ldmcsu_eig_full_defined (Θ := ℝ) (realOps r4 cosH sinH) realAngles
    (fun x : ℝ => -x) _ _ [0, 1, 2, 3, 4] 5 (some (parseCs "10110")) gs (by decide) hm hs
    (by intro p hp; cases hp; decide) hgs
  refine ⟨gs, ms, hgs, hms, ?_⟩
  exact ldmcsu_eig_full_spec r4 cosH sinH _ (4 / 5) (3 / 5) 0 (3 / 5) (4 / 5) (by norm_num)
    (by norm_num) eig_example_U hr [0, 1, 2, 3, 4] 5 (some (parseCs "10110")) gs ms (by decide)
    (by decide) hm hs hgs hms ψ

end Qclib.Mcsu
