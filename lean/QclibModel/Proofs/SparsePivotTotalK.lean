import QclibModel.Proofs.SparsePivotTotalH
import QclibModel.Proofs.SparsePivotTotalJ
/-
  C06 — PivotInitialize, whole circuit (part K): the theorems for `opt_params = {'aux': True}`
  (`m ≥ 3`; `t − 1` clean auxiliaries on the wires `0 … t−2` of the result, data on
  `t−1 … n+t−2`, dense hand-off on `t−1 … 2t−2`).
-/
namespace Qclib.Sparse
open Qclib

theorem ceilLog2_ge_two (m : Nat) (hm : 3 ≤ m) : 2 ≤ ceilLog2 m := by
  have := (ceilLog2_spec m).1
  by_contra h
  have h1 : ceilLog2 m = 0 ∨ ceilLog2 m = 1 := by omega
  rcases h1 with e | e <;> rw [e] at this <;> simp at this <;> omega

/-- the model's `pivotInit` with auxiliaries, unfolded -/
theorem pivotInit_aux_eq {Θ : Type} [NumOps Θ] (n : Nat) (d : Dict Θ) (hm3 : 3 ≤ d.length)
    (st : Dict Θ) (g : List (SG Θ)) (e : List (PStep Θ)) (v : List (Amp Θ))
    (hloop : pivotLoop n (ceilLog2 d.length) d.length true d.length d [] [] = some (st, g, e))
    (hv : denseVec (ceilLog2 d.length) st = some v) :
    pivotInit n true d = some ⟨ceilLog2 d.length, e, v,
      SG.dense ((List.range (ceilLog2 d.length)).map (· + (ceilLog2 d.length - 1))) v ::
        (g.map (SG.mapWires (fun q => n + (ceilLog2 d.length - 1) - 1 - q))).reverse⟩ := by
  have h1 : ¬ d.length < 2 := by omega
  have h3 : ¬ d.length < 3 := by omega
  have ht := ceilLog2_ge_two d.length hm3
  have ef : (fun q => n + ceilLog2 d.length - 1 - 1 - q)
      = (fun q => n + (ceilLog2 d.length - 1) - 1 - q) := by
    funext q; omega
  unfold pivotInit
  simp only [h1, h3, if_false, if_true, Bool.true_and, decide_false, Bool.false_eq_true, hloop, hv, ef]


/-- **PivotInitialize succeeds** (`aux = True`).  For every `n` and every dictionary of `m ≥ 3`
distinct `n`-character keys the model of `PivotInitialize(d, opt_params={'aux': True}).definition`
returns a circuit (free index by pigeonhole, loop stops within `m` passes, `dense_state`
indexable); `t = ⌈log₂ m⌉`, `2 ≤ t ≤ n`. -/
theorem pivot_succeeds_aux {Θ : Type} [NumOps Θ] (n : Nat) (d : Dict Θ) (hnd : d.keys.Nodup)
    (hlen : ∀ k ∈ d.keys, k.length = n) (hm3 : 3 ≤ d.length) :
    ∃ out : PivotOut Θ, pivotInit n true d = some out ∧ out.t = ceilLog2 d.length ∧
      2 ≤ out.t ∧ out.t ≤ n ∧ out.dense.length = 2 ^ out.t := by
  let _ : RotSem Θ ℂ := ⟨fun _ => 0, fun _ => 0, fun _ => 0, fun _ => 0, 0⟩
  have ht := ceilLog2_ge_two d.length hm3
  obtain ⟨htn, st, g, e, v, hloop, hv, hvl, -⟩ :=
    pivot_assemble (R := ℂ) Complex.I (fun _ _ ψ => ψ) (fun _ => 0) rfl n
      (ceilLog2 d.length - 1) true d hnd hlen (by omega)
      (stepSem_aux Complex.I Complex.I_mul_I _ n _ ht)
  exact ⟨_, pivotInit_aux_eq n d hm3 st g e v hloop hv, rfl, ht, htn, hvl⟩

section
variable {Θ R : Type} [CommRing R] [RotSem Θ R] [NumOps Θ]

/-- **PivotInitialize prepares the dictionary** (`aux = True`), whole circuit.
For every `n`, every dictionary `d` of `m ≥ 3` distinct `n`-character keys, `iu` with `iu² = −1`
(the relative-phase Toffolis `rccx` of `_mcxvchain` are NOT idealised: their phases `±i`, `−1` are
shown to cancel), if the constructor model returns `out` (`t = out.t`, `t − 1` auxiliaries), and the
dense hand-off of this call on the wires `t−1 … 2t−2` behaves as C01 states (`DenseOn`), then for
every `ψ₀` supported on the labels whose `n + t − 1` circuit wires are `0` and every label `b`:

`out.gates ψ₀ b = amp(d[key read off b]) · ψ₀(b with the n data wires cleared)`

where the data wires are `t−1 … n+t−2` (character `i` on wire `n+t−2−i`); in particular the result is
`0` on every label with an auxiliary wire (`0 … t−2`) set: the auxiliaries are returned clean. -/
theorem pivot_total_aux (iu : R) (hi : iu * iu = -1)
    (dn : List Nat → List (Amp Θ) → State R → State R)
    (amp : Amp Θ → R) (hamp0 : amp zeroAmp = 0) (n : Nat) (d : Dict Θ)
    (hnd : d.keys.Nodup) (hlen : ∀ k ∈ d.keys, k.length = n) (hm3 : 3 ≤ d.length)
    (out : PivotOut Θ) (hout : pivotInit n true d = some out)
    (hdn : DenseOn amp dn ((List.range out.t).map (· + (out.t - 1))) out.dense)
    (ψ0 : State R) (hψ0 : ∀ b : Bits, (∃ w, w < n + (out.t - 1) ∧ b w = true) → ψ0 b = 0)
    (b : Bits) :
    semSG iu dn out.gates ψ0 b
      = amp ((d.lookup (keyOf (fun i => n + (out.t - 1) - 1 - i) n b)).getD zeroAmp)
        * ψ0 (clearWires ((List.range n).map (· + (out.t - 1))) b) := by
  have ht := ceilLog2_ge_two d.length hm3
  obtain ⟨htn, st, g, e, v, hloop, hv, hvl, hsem⟩ :=
    pivot_assemble iu dn amp hamp0 n (ceilLog2 d.length - 1) true d hnd hlen (by omega)
      (stepSem_aux iu hi dn n _ ht)
  rw [pivotInit_aux_eq n d hm3 st g e v hloop hv, Option.some.injEq] at hout
  subst hout
  exact hsem hdn ψ0 hψ0 b

end

/-- Non-vacuity of `pivot_succeeds_aux` / `pivot_total_aux`: the dictionary
`{0011: 0.6, 1100: 0.8i, 1111: 0, 0110: 0}` (four distinct 4-character keys, `t = 2`, one
auxiliary) over `ℝ → ℂ`, `iu = i`, the ideal dense initializer, and the state that is `1` on "all
five wires `0`". -/
example : ∃ (d : Dict ℝ) (out : PivotOut ℝ)
    (dn : List Nat → List (Amp ℝ) → State ℂ → State ℂ) (ψ0 : State ℂ),
    d.keys.Nodup ∧ (∀ k ∈ d.keys, k.length = 4) ∧ 3 ≤ d.length ∧ Complex.I * Complex.I = -1 ∧
    pivotInit 4 true d = some out ∧
    DenseOn Amp.toC dn ((List.range out.t).map (· + (out.t - 1))) out.dense ∧
    Amp.toC zeroAmp = 0 ∧ (∀ b : Bits, (∃ w, w < 4 + (out.t - 1) ∧ b w = true) → ψ0 b = 0) ∧
    ψ0 (fun _ => false) = 1 := by
  let d : Dict ℝ := [([false, false, true, true], ⟨0.6, 0, true⟩),
    ([true, true, false, false], ⟨0, 0.8, true⟩), ([true, true, true, true], ⟨0, 0, true⟩),
    ([false, true, true, false], ⟨0, 0, true⟩)]
  have hnd : d.keys.Nodup := by decide
  have hlen : ∀ k ∈ d.keys, k.length = 4 := by decide
  obtain ⟨out, hout, _, _, _, _⟩ := pivot_succeeds_aux 4 d hnd hlen (by decide)
  refine ⟨d, out,
    fun ws v ψ b => Amp.toC (v.getD (wiresIdx ws b) zeroAmp) * ψ (clearWires ws b),
    fun b => if ∃ w, w < 4 + (out.t - 1) ∧ b w = true then 0 else 1, hnd, hlen, by decide,
    Complex.I_mul_I, hout, fun _ _ _ => rfl, ?_, ?_, ?_⟩
  · show (⟨(0 : ℝ), (0 : ℝ)⟩ : ℂ) = 0
    rfl
  · intro b hb
    simp only [hb, if_true]
  · simp

end Qclib.Sparse
