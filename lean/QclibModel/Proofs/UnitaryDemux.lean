import QclibModel.Proofs.SemLemmas
import QclibModel.Spec.Ucr
import Mathlib.Data.Matrix.Block
import Mathlib.LinearAlgebra.Matrix.ConjTranspose
import Mathlib.Algebra.Star.Basic
import Mathlib.Tactic.Ring
/-
  C02 — the demultiplexing step of the quantum Shannon decomposition
  (`qclib/unitary.py::_qsd`, `_compute_gates`).

  `_compute_gates(gate1, gate2)`:
      d_square, gate_v = np.linalg.eig(gate1 @ gate2†)
      list_d = sqrt(d_square);  gate_d = diag(list_d)
      gate_v = _closest_unitary(gate_v)            (only if `gate_v` is not unitary)
      gate_w = gate_d @ gate_v† @ gate2
  `_qsd`: circuit  `gate_w` on the low wires, `UCRZ(-2·angle(list_d))` with target = top wire,
  `gate_v` on the low wires.

  Part (i) (`demux_blocks`): block algebra, Mathlib matrices, the eigen-decomposition is a hypothesis.
  Part (ii) (`demux_rz`, `demux_mux`): the multiplexed RZ with angles `-2·arg d_j` is `D ⊕ D†`,
  in the `RotSem`/`RotLaws` vocabulary and in the amplitude semantics.
-/
namespace Qclib.Uni
open Matrix

/-! ### (i) block level -/

section Blocks
variable {R ι : Type} [CommRing R] [StarRing R] [Fintype ι] [DecidableEq ι]

/-- `D† D = 1` for a diagonal matrix with unimodular entries. -/
theorem diag_unimod (d : ι → R) (hd : ∀ i, d i * star (d i) = 1) :
    (diagonal d)ᴴ * diagonal d = 1 := by
  rw [diagonal_conjTranspose, diagonal_mul_diagonal, ← diagonal_one]
  congr 1
  funext i
  simp only [Pi.star_apply]
  rw [mul_comm]
  exact hd i

/-- The upper block of the demultiplexed product: `V · D · W = U1` with `W = D V† U2`.
Needs only the eigen equation `U1 U2† = V D² V†` and `U2† U2 = 1`. -/
theorem demux_upper (U1 U2 V : Matrix ι ι R) (d : ι → R)
    (heig : U1 * U2ᴴ = V * diagonal (fun i => d i * d i) * Vᴴ)
    (hU2 : U2ᴴ * U2 = 1) :
    V * diagonal d * (diagonal d * Vᴴ * U2) = U1 := by
  have h1 : V * diagonal d * (diagonal d * Vᴴ * U2)
      = (V * (diagonal d * diagonal d) * Vᴴ) * U2 := by
    simp only [Matrix.mul_assoc]
  rw [h1, diagonal_mul_diagonal, ← heig, Matrix.mul_assoc, hU2, Matrix.mul_one]

/-- The lower block of the demultiplexed product: `V · D† · W = U2` with `W = D V† U2`.
Needs `|d_i| = 1` and `V V† = 1`. -/
theorem demux_lower (U2 V : Matrix ι ι R) (d : ι → R)
    (hd : ∀ i, d i * star (d i) = 1) (hV : V * Vᴴ = 1) :
    V * (diagonal d)ᴴ * (diagonal d * Vᴴ * U2) = U2 := by
  have h1 : V * (diagonal d)ᴴ * (diagonal d * Vᴴ * U2)
      = (V * ((diagonal d)ᴴ * diagonal d) * Vᴴ) * U2 := by
    simp only [Matrix.mul_assoc]
  rw [h1, diag_unimod d hd, Matrix.mul_one, hV, Matrix.one_mul]

/-- **Demultiplexing (block level).**  Hypotheses — all about what the numerical kernel returned:
* `heig`: the eigen-decomposition specification `gate1 · gate2† = V · diag(d²) · V†`
  (`d_square, gate_v = eig(gate1 @ gate2†)`, `list_d = sqrt(d_square)`; after the
  `_closest_unitary` repair of a non-unitary `gate_v` this equation is *only assumed*);
* `hV`: `V V† = 1` (what `is_unitary_matrix` tests / `_closest_unitary` enforces);
* `hd`: the eigenvalues' square roots are unimodular, `d_i · conj d_i = 1`;
* `hU2`: the lower input block is an isometry, `U2† U2 = 1`.
Then with `D = diag d` and `W = D V† U2` (`gate_w`):
`U1 ⊕ U2 = (V ⊕ V) · (D ⊕ D†) · (W ⊕ W)`.  (No unitarity of `U1` is needed.) -/
theorem demux_blocks (U1 U2 V : Matrix ι ι R) (d : ι → R)
    (hV : V * Vᴴ = 1)
    (hd : ∀ i, d i * star (d i) = 1)
    (heig : U1 * U2ᴴ = V * diagonal (fun i => d i * d i) * Vᴴ)
    (hU2 : U2ᴴ * U2 = 1) :
    fromBlocks U1 0 0 U2
      = fromBlocks V 0 0 V * fromBlocks (diagonal d) 0 0 (diagonal d)ᴴ
          * fromBlocks (diagonal d * Vᴴ * U2) 0 0 (diagonal d * Vᴴ * U2) := by
  simp only [fromBlocks_multiply, Matrix.mul_zero, Matrix.zero_mul, add_zero, zero_add]
  rw [demux_upper U1 U2 V d heig hU2, demux_lower U2 V d hd hV]

/-- `W = D V† U2` is unitary when `V`, `U2` are and `|d_i| = 1` (so the recursion of `_qsd` on
`gate_w` is again on a unitary): `W† W = 1` from `V V† = 1`, `U2† U2 = 1`. -/
theorem demux_w_unitary (U2 V : Matrix ι ι R) (d : ι → R)
    (hV : V * Vᴴ = 1) (hd : ∀ i, d i * star (d i) = 1) (hU2 : U2ᴴ * U2 = 1) :
    (diagonal d * Vᴴ * U2)ᴴ * (diagonal d * Vᴴ * U2) = 1 := by
  have h1 : (diagonal d * Vᴴ * U2)ᴴ * (diagonal d * Vᴴ * U2)
      = U2ᴴ * (V * ((diagonal d)ᴴ * diagonal d) * Vᴴ) * U2 := by
    simp only [conjTranspose_mul, conjTranspose_conjTranspose, Matrix.mul_assoc]
  rw [h1, diag_unimod d hd, Matrix.mul_one, hV, Matrix.mul_one, hU2]

/-- Non-vacuity of `demux_blocks`: its hypotheses are satisfiable with non-constant `d`
(over `ℤ` with the trivial star: `U1 = U2 = -1`, `V = 1`, `d = (1, -1)`), and the conclusion then
holds for that instance. -/
example : ∃ (U1 U2 V : Matrix (Fin 2) (Fin 2) ℤ) (d : Fin 2 → ℤ),
    V * Vᴴ = 1 ∧ (∀ i, d i * star (d i) = 1)
      ∧ U1 * U2ᴴ = V * diagonal (fun i => d i * d i) * Vᴴ ∧ U2ᴴ * U2 = 1 ∧ d 0 ≠ d 1
      ∧ fromBlocks U1 0 0 U2
        = fromBlocks V 0 0 V * fromBlocks (diagonal d) 0 0 (diagonal d)ᴴ
            * fromBlocks (diagonal d * Vᴴ * U2) 0 0 (diagonal d * Vᴴ * U2) := by
  have hd : ∀ i : Fin 2, (if i = 0 then (1 : ℤ) else -1) * star (if i = 0 then (1 : ℤ) else -1) = 1 := by
    intro i; split <;> simp
  have hdd : (fun i : Fin 2 => (if i = 0 then (1 : ℤ) else -1) * (if i = 0 then (1 : ℤ) else -1))
      = fun _ => 1 := by
    funext i; split <;> simp
  have heig : (-1 : Matrix (Fin 2) (Fin 2) ℤ) * (-1)ᴴ
      = 1 * diagonal (fun i : Fin 2 => (if i = 0 then (1 : ℤ) else -1) * (if i = 0 then (1 : ℤ) else -1)) * 1ᴴ := by
    rw [hdd]; simp
  exact ⟨-1, -1, 1, fun i => if i = 0 then 1 else -1, by simp, hd, heig, by simp, by decide,
    demux_blocks _ _ _ _ (by simp) hd heig (by simp)⟩

end Blocks

/-! ### (ii) the multiplexed RZ realises `D ⊕ D†` -/

section Rz
open Qclib RotSem
variable {Θ R : Type} [AddCommGroup Θ] [CommRing R] [RotSem Θ R] [RotLaws Θ R]

/-- `e^{ia/2} · e^{-ia/2} = 1`, from `ex_add` and `ex_zero`. -/
theorem ex_mul_ex_neg (a : Θ) : (ex a : R) * ex (-a) = 1 := by
  rw [← RotLaws.ex_add, add_neg_cancel, RotLaws.ex_zero]

/-- **One multiplexer entry.**  With `α = arg d` (so `d = e^{iα} = ex α * ex α`, because
`ex θ = e^{iθ/2}`), the rotation `RZ(-2α)` that `_qsd` puts into `UCRZGate(-2·angle(list_d))` is
`diag(d, e^{-iα})`: upper entry (target = top wire reads `0`, the `U1` block) `d`, lower entry
(top wire reads `1`, the `U2` block) `ex (-α) * ex (-α)`. -/
theorem demux_rz (α : Θ) :
    (matRZ (-(α + α)) : Mat2 R) = ⟨ex α * ex α, 0, 0, ex (-α) * ex (-α)⟩ := by
  unfold matRZ
  rw [RotLaws.exb_eq, neg_neg, RotLaws.ex_add, neg_add, RotLaws.ex_add]

/-- The lower entry of `demux_rz` is the inverse of the upper one (`= conj d` when `|d| = 1`):
`(ex α * ex α) * (ex (-α) * ex (-α)) = 1`. -/
theorem demux_rz_inv (α : Θ) : (ex α * ex α : R) * (ex (-α) * ex (-α)) = 1 := by
  have h := ex_mul_ex_neg (R := R) α
  calc (ex α * ex α : R) * (ex (-α) * ex (-α))
      = (ex α * ex (-α)) * (ex α * ex (-α)) := by ring
    _ = 1 := by rw [h, one_mul]

/-- **Demultiplexer, amplitude level, all `k`.**  The ideal Z-multiplexer (`muxIdeal`, target wire
`0`, controls `1..k` reading `j`) with angles `-2·α_j` applies, where the controls read `j`,
`diag(d_j, d_j⁻¹)` with `d_j = ex (α j) * ex (α j)`: it is the operator `D ⊕ D†` of
`demux_blocks` (block index = the target wire).  Combined with `C13_ucr` (axis `Z`, entangler
`CX`) this is what a correct `UCRZ` circuit denotes. -/
theorem demux_mux (k : Nat) (α : Nat → Θ) (ψ : State R) :
    muxIdeal Axis.Z k (fun j => -(α j + α j)) ψ
      = applyFam (fun b => Mat2.diag (ex (α (ctrlIdx k b)) * ex (α (ctrlIdx k b)))
          (ex (-(α (ctrlIdx k b))) * ex (-(α (ctrlIdx k b))))) 0 ψ := by
  unfold muxIdeal
  congr 1
  funext b
  simp only [rotMat, Mat2.diag]
  exact demux_rz _

/-- Pointwise form of `demux_mux`: the amplitude of label `b` is multiplied by `d_j` if the target
wire `0` reads `0` and by `d_j⁻¹` if it reads `1`, `j` = the number on the control wires. -/
theorem demux_mux_apply (k : Nat) (α : Nat → Θ) (ψ : State R) (b : Bits) :
    muxIdeal Axis.Z k (fun j => -(α j + α j)) ψ b
      = (if b 0 then ex (-(α (ctrlIdx k b))) * ex (-(α (ctrlIdx k b)))
          else ex (α (ctrlIdx k b)) * ex (α (ctrlIdx k b))) * ψ b := by
  rw [demux_mux]
  simp only [applyFam, Mat2.diag]
  cases h : b 0
  · have : setBit b 0 false = b := by rw [← h, setBit_self]
    simp [this]
  · have : setBit b 0 true = b := by rw [← h, setBit_self]
    simp [this]

end Rz

end Qclib.Uni
