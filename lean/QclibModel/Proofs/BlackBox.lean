import QclibModel.Proofs.SemLemmas
import QclibModel.Spec.BlackBox
import QclibModel.Proofs.UcrProof
/-
  C19, circuit level (any commutative ring with rotation laws): `bsem` on lists, the pointwise
  action of the reflections `I_t`, `I_s`, and the closed form of `U|0…0⟩`.
-/
namespace Qclib
open RotSem BlackBox
set_option linter.unusedSectionVars false

section
variable {Θ R : Type} [Neg Θ] [CommRing R] [RotSem Θ R]

theorem bsem_append (c1 c2 : List (BG Θ)) (ψ : State R) :
    bsem (c1 ++ c2) ψ = bsem c2 (bsem c1 ψ) := by
  simp [bsem, List.foldl_append]

theorem bsem_nil (ψ : State R) : bsem ([] : List (BG Θ)) ψ = ψ := rfl

theorem bsem_cons (g : BG Θ) (c : List (BG Θ)) (ψ : State R) :
    bsem (g :: c) ψ = bsem c (bdenote g ψ) := rfl

theorem bsem_single (g : BG Θ) (ψ : State R) : bsem [g] ψ = bdenote g ψ := rfl

/-! ### The reflections -/

/-- `I_t` (the coded `UnitaryGate([[-1,0],[0,1]])` on wire `q`) multiplies the amplitude by `−1`
where wire `q` reads 0 and by `+1` where it reads 1. -/
theorem denote_it (q : Nat) (ψ : State R) (b : Bits) :
    bdenote (BG.it q : BG Θ) ψ b = (if b q then 1 else -1) * ψ b := by
  simp only [bdenote, applyMcu, ctrlOk, List.all_nil, matIt]
  cases h : b q
  · have : setBit b q false = b := setBit_self' b q false h
    simp [this]
  · have : setBit b q true = b := setBit_self' b q true h
    simp [this]

theorem ctrlOk_isCtrls (n : Nat) (b : Bits) :
    ctrlOk (isCtrls n) b = true ↔ ∀ i, i < n → b i = false := by
  simp [ctrlOk, isCtrls, List.all_eq_true]

/-- `I_s` (the coded `I_t.control(n, ctrl_state=0)`, controls on wires `0..n-1`, target `n`)
multiplies the amplitude by `−1` exactly on the labels whose wires `0..n` all read 0. -/
theorem denote_is (n : Nat) (ψ : State R) (b : Bits) :
    bdenote (BG.is n : BG Θ) ψ b = (if ∀ i, i ≤ n → b i = false then -1 else 1) * ψ b := by
  simp only [bdenote, applyMcu, matIt]
  by_cases hc : ctrlOk (isCtrls n) b = true
  · rw [if_pos hc]
    rw [ctrlOk_isCtrls] at hc
    cases h : b n
    · have h0 : setBit b n false = b := setBit_self' b n false h
      have : ∀ i, i ≤ n → b i = false := by
        intro i hi
        rcases Nat.lt_or_eq_of_le hi with hlt | rfl
        · exact hc i hlt
        · exact h
      rw [if_pos this, h0]; simp
    · have h1 : setBit b n true = b := setBit_self' b n true h
      have : ¬ ∀ i, i ≤ n → b i = false := by
        intro hall; have := hall n (Nat.le_refl n); simp [h] at this
      rw [if_neg this, h1]; simp
  · rw [if_neg hc]
    have : ¬ ∀ i, i ≤ n → b i = false := by
      intro hall; apply hc; rw [ctrlOk_isCtrls]; intro i hi; exact hall i (Nat.le_of_lt hi)
    rw [if_neg this]; simp

/-! ### `U|0…0⟩` -/

attribute [local instance] Classical.propDecidable

/-- `|0…0⟩` -/
noncomputable def zeroState : State R :=
  fun b => if ∀ i, b i = false then 1 else 0

/-- `H^{⊗m}` on wires `1..m` applied to `|0…0⟩`. -/
noncomputable def hState (Θ : Type) [RotSem Θ R] (m : Nat) : State R :=
  fun b => if b 0 = false ∧ ∀ i, m < i → b i = false then rh Θ ^ m else 0

theorem hState_zero : hState Θ 0 = (zeroState : State R) := by
  funext b
  simp only [hState, zeroState, pow_zero]
  congr 1
  apply propext
  constructor
  · rintro ⟨h0, h⟩ i
    rcases Nat.eq_zero_or_pos i with rfl | hi
    · exact h0
    · exact h i hi
  · intro h; exact ⟨h 0, fun i _ => h i⟩

theorem hLayer_zeroState (m : Nat) :
    bsem (hLayer m : List (BG Θ)) (zeroState : State R) = hState Θ m := by
  induction m with
  | zero => rw [hState_zero]; rfl
  | succ m ih =>
    rw [hLayer, bsem_append, ih, bsem_single]
    funext b
    simp only [bdenote, applyMcu, ctrlOk, List.all_nil, matH, if_true]
    have h1 : hState Θ m (setBit b (m+1) true) = (0 : R) := by
      simp only [hState]
      rw [if_neg]
      rintro ⟨_, h⟩
      have := h (m+1) (Nat.lt_succ_self m)
      simp [setBit] at this
    have hiff : (setBit b (m+1) false 0 = false ∧ ∀ i, m < i → setBit b (m+1) false i = false)
        ↔ (b 0 = false ∧ ∀ i, m + 1 < i → b i = false) := by
      constructor
      · rintro ⟨h0, h⟩
        refine ⟨by simpa [setBit] using h0, fun i hi => ?_⟩
        have := h i (Nat.lt_of_succ_lt hi)
        rwa [setBit_ne _ _ (Nat.ne_of_gt hi)] at this
      · rintro ⟨h0, h⟩
        refine ⟨by simpa [setBit] using h0, fun i hi => ?_⟩
        by_cases hi' : i = m + 1
        · simp [setBit, hi']
        · rw [setBit_ne _ _ hi']
          exact h i (by omega)
    have h0 : hState Θ m (setBit b (m+1) false)
        = (if b 0 = false ∧ ∀ i, m + 1 < i → b i = false then rh Θ ^ m else (0 : R)) := by
      simp only [hState]
      exact if_congr hiff rfl rfl
    rw [h0, h1]
    simp only [hState]
    by_cases hb : b 0 = false ∧ ∀ i, m + 1 < i → b i = false
    · have hm : b (m+1) = false ∨ b (m+1) = true := by cases b (m+1) <;> simp
      rcases hm with hm | hm
      · rw [if_pos hb, if_pos hb]; simp [hm, pow_succ]; ring
      · rw [if_pos hb, if_pos hb]; simp [hm, pow_succ]; ring
    · rw [if_neg hb, if_neg hb]; simp

/-- The closed form of `U|0…0⟩`: on the label (`k` on wires `1..n`, flag `f` on wire 0, zeros
above) the amplitude is `rh^n` times the flag-`f` entry of `RZ(φ_k)·RY(θ_k)|0⟩`. -/
noncomputable def uState (n : Nat) (θ φ : Nat → Θ) : State R :=
  fun b => if ∀ i, n < i → b i = false then
      rh Θ ^ n * (if b 0 then ex (φ (ctrlIdx n b)) * sn (θ (ctrlIdx n b))
                  else exb (φ (ctrlIdx n b)) * cs (θ (ctrlIdx n b)))
    else 0

theorem hState_flag1 (n : Nat) (b : Bits) : hState Θ n (setBit b 0 true) = (0 : R) := by
  simp only [hState]
  rw [if_neg]
  rintro ⟨h, _⟩
  simp [setBit] at h

theorem hState_flag0 (n : Nat) (b : Bits) :
    hState Θ n (setBit b 0 false) = (if ∀ i, n < i → b i = false then rh Θ ^ n else (0 : R)) := by
  simp only [hState]
  apply if_congr _ rfl rfl
  constructor
  · rintro ⟨_, h⟩ i hi
    have := h i hi
    rwa [setBit_ne _ _ (by omega)] at this
  · intro h
    refine ⟨by simp [setBit], fun i hi => ?_⟩
    rw [setBit_ne _ _ (by omega)]
    exact h i hi

theorem gateU_zeroState (n : Nat) (θ φ : Nat → Θ) :
    bsem (gateU n θ φ) (zeroState : State R) = uState n θ φ := by
  rw [gateU, bsem_append, hLayer_zeroState, bsem_cons, bsem_single]
  funext b
  simp only [bdenote, muxIdeal, applyFam, rotMat, matRY, matRZ, ctrlIdx_setBit0, setBit_eq,
    hState_flag1, hState_flag0, uState]
  by_cases hb : ∀ i, n < i → b i = false
  · have hb0 : ∀ v, ∀ i, n < i → setBit b 0 v i = false := by
      intro v i hi
      rw [setBit_ne _ _ (by omega)]; exact hb i hi
    simp only [if_pos hb, if_pos (hb0 true), if_pos (hb0 false)]
    cases h0 : b 0 <;> simp <;> ring
  · have hb0 : ∀ v, ¬ ∀ i, n < i → setBit b 0 v i = false := by
      intro v hall; apply hb; intro i hi
      have := hall i hi
      rwa [setBit_ne _ _ (by omega)] at this
    simp only [if_neg hb, if_neg (hb0 true), if_neg (hb0 false)]
    cases h0 : b 0 <;> simp

theorem ctrlIdx_lt (k : Nat) (b : Bits) : ctrlIdx k b < 2 ^ k := by
  induction k with
  | zero => simp [ctrlIdx]
  | succ k ih =>
    simp only [ctrlIdx, pow_succ]
    split <;> omega

/-! ### The global phase -/

theorem circuit_eq_core (n r : Nat) (θ φ : Nat → Θ) (ψ : State R) :
    bsem (circuit n r θ φ) ψ
      = scale (if r % 2 = 1 then -1 else 1) (bsem (core n r θ φ) ψ) := by
  rw [circuit, bsem_append]
  by_cases h : r % 2 = 1
  · simp only [if_pos h]; rfl
  · simp only [if_neg h, bsem_nil]
    funext b; simp [scale]

end
end Qclib
