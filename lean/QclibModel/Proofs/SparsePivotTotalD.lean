import QclibModel.Proofs.SparsePivotTotalC
/-
  C06 — PivotInitialize, whole circuit (part D): one `_pivoting` call of the model.
  The choices it makes (`pvDiffer`, `pvTcx`), the gate list it emits (without auxiliaries) as a
  relabelling of basis states, and its effect on the tracked dictionary (keys stay distinct, the
  number of keys outside the low block strictly decreases).
-/
namespace Qclib.Sparse
open Qclib

variable {α : Type}

/-! ### the choices of `_pivoting` -/

/-- `index_differ` -/
def pvDiffer (n t : Nat) (nz zero : Str) : Nat :=
  ((List.range (n - t)).find? (fun k => bitAt nz k != bitAt zero k)).getD 0

/-- `target_cx` -/
def pvTcx (n t : Nat) (nz zero : Str) : List Nat :=
  (List.range (n - t)).filter (fun k => pvDiffer n t nz zero != k && bitAt nz k != bitAt zero k)
    ++ ((List.range n).drop (n - t)).filter (fun k => bitAt nz k != bitAt zero k)

/-- the multi-controlled X of one step without auxiliaries -/
def pvMc (n t : Nat) (d : Nat) : List (SG α) :=
  if n ≥ 5 && t ≤ (n + 1) / 2 then
    qiskitMcx ((List.range n).drop (n - t)) d (sliceKm2 ((List.range (n - t)).erase d) t)
  else mcgX ((List.range n).drop (n - t)) d

/-- the X layer of one step -/
def pvXs (n t : Nat) (zero : Str) : List Nat :=
  ((List.range n).drop (n - t)).filter (fun k => bitAt zero k == false)

theorem pivoting_st (n t : Nat) (aux : Bool) (nz zero : Str) (st : Dict α) :
    (pivoting n t aux nz zero st).2.st
      = nextState (pvDiffer n t nz zero) (bitAt nz (pvDiffer n t nz zero)) (pvTcx n t nz zero)
          (n - t) zero st := rfl

theorem pivoting_gates_noaux (n t : Nat) (nz zero : Str) (st : Dict α) :
    (pivoting n t false nz zero st).1
      = (pvTcx n t nz zero).map (fun k => SG.cx (pvDiffer n t nz zero) k (bitAt nz (pvDiffer n t nz zero)))
        ++ (pvXs n t zero).map SG.x ++ pvMc n t (pvDiffer n t nz zero) ++ (pvXs n t zero).map SG.x := rfl

theorem pvDiffer_spec (n t : Nat) (nz zero : Str) (hzlow : inLow n t zero)
    (hnzhigh : ¬ inLow n t nz) :
    pvDiffer n t nz zero < n - t ∧ bitAt nz (pvDiffer n t nz zero) ≠ bitAt zero (pvDiffer n t nz zero) := by
  have hex : ∃ k, k < n - t ∧ bitAt nz k ≠ bitAt zero k := by
    by_contra h
    apply hnzhigh
    intro i hi
    by_contra hb
    exact h ⟨i, hi, by rw [hzlow i hi]; exact hb⟩
  obtain ⟨k0, hk0, hk0ne⟩ := hex
  unfold pvDiffer
  cases hfind : (List.range (n - t)).find? (fun k => bitAt nz k != bitAt zero k) with
  | none =>
    rw [List.find?_eq_none] at hfind
    have := hfind k0 (List.mem_range.mpr hk0)
    simp at this
    exact absurd this hk0ne
  | some d =>
    have hd_mem := List.mem_of_find?_eq_some hfind
    have hd_p := List.find?_some hfind
    rw [List.mem_range] at hd_mem
    exact ⟨hd_mem, by simpa using hd_p⟩

theorem mem_pvTcx (n t : Nat) (nz zero : Str) (hd : pvDiffer n t nz zero < n - t) (k : Nat) :
    k ∈ pvTcx n t nz zero ↔ k < n ∧ k ≠ pvDiffer n t nz zero ∧ bitAt nz k ≠ bitAt zero k := by
  unfold pvTcx
  simp only [List.mem_append, List.mem_filter, List.mem_range, mem_drop_range_iff k n (n - t),
    Bool.and_eq_true, bne_iff_ne, ne_eq]
  constructor
  · rintro (⟨h1, h2, h3⟩ | ⟨⟨h1, h1'⟩, h2⟩)
    · exact ⟨by omega, fun e => h2 e.symm, h3⟩
    · exact ⟨h1', by omega, h2⟩
  · rintro ⟨h1, h2, h3⟩
    by_cases hk : k < n - t
    · exact Or.inl ⟨hk, fun e => h2 e.symm, h3⟩
    · exact Or.inr ⟨⟨by omega, h1⟩, h3⟩

theorem pvTcx_nodup (n t : Nat) (nz zero : Str) : (pvTcx n t nz zero).Nodup := by
  unfold pvTcx
  rw [List.nodup_append]
  refine ⟨List.nodup_range.filter _, (List.nodup_range.sublist (List.drop_sublist _ _)).filter _, ?_⟩
  intro a ha b hb
  have h1 := List.mem_range.mp (List.mem_filter.mp ha).1
  have h2 := ((mem_drop_range_iff b n (n - t)).mp (List.mem_filter.mp hb).1).1
  omega

/-- the model's choice as a `PivotChoice` (so the per-step lemmas apply) -/
def pvChoice (n t : Nat) (nz zero : Str) (hzlow : inLow n t zero) (hnzhigh : ¬ inLow n t nz) :
    PivotChoice n t nz zero where
  d := pvDiffer n t nz zero
  cv := bitAt nz (pvDiffer n t nz zero)
  tcx := pvTcx n t nz zero
  hd := (pvDiffer_spec n t nz zero hzlow hnzhigh).1
  hcv := rfl
  hdiff := (pvDiffer_spec n t nz zero hzlow hnzhigh).2
  htcx := by
    intro k hk
    rw [List.contains_iff_mem, mem_pvTcx n t nz zero (pvDiffer_spec n t nz zero hzlow hnzhigh).1]
    exact ⟨fun h => h.2, fun h => ⟨hk, h⟩⟩


/-! ### the emitted gates as a relabelling -/

/-- classical action of the relabelling gates of the alphabet (identity on the others) -/
def tauSG : SG α → Bits → Bits
  | .x q => mcxTau [] q
  | .cx c t cv => mcxTau [(c, cv)] t
  | .mcuX _ cs t => mcxTau (cs.map (fun c => (c, true))) t
  | .mcxd cs t _ => mcxTau (cs.map (fun c => (c, true))) t
  | _ => id

def isPermG : SG α → Bool
  | .x _ => true
  | .cx _ _ _ => true
  | .mcuX _ _ _ => true
  | .mcxd _ _ _ => true
  | _ => false

theorem PermCirc.single {Θ R : Type} [CommRing R] [RotSem Θ R] (iu : R)
    (dn : List Nat → List (Amp Θ) → State R → State R) (g : SG Θ) (h : isPermG g = true) :
    PermCirc iu dn [g] (tauSG g) := by
  cases g with
  | x q => exact PermCirc.x iu dn q
  | cx c t cv => exact PermCirc.cx iu dn c t cv
  | mcuX be cs t => exact PermCirc.mcuX iu dn be cs t
  | mcxd cs t d => exact PermCirc.mcxd iu dn cs t d
  | _ => exact absurd h (by simp [isPermG])

/-- the MCX of a step is one relabelling gate: "flip `differ` iff all `remain` wires are 1" -/
theorem pvMc_single (n t d : Nat) (r : Nat → Nat) :
    ∃ g : SG α, pvMc n t d = [g] ∧ isPermG (g.mapWires r) = true ∧
      tauSG (g.mapWires r)
        = mcxTau ((((List.range n).drop (n - t)).map r).map (fun c => (c, true))) (r d) := by
  unfold pvMc
  split
  · unfold qiskitMcx
    split
    · rename_i c hc
      rw [hc]; exact ⟨_, rfl, rfl, rfl⟩
    · rename_i c1 c2 hc
      exact ⟨_, rfl, rfl, rfl⟩
    · exact ⟨_, rfl, rfl, rfl⟩
  · unfold mcgX
    split
    · exact ⟨_, rfl, rfl, rfl⟩
    · exact ⟨_, rfl, rfl, rfl⟩

theorem foldl_tau_fan (r : Nat → Nat) (d : Nat) (cv : Bool) (tcx : List Nat) (b : Bits) :
    ((tcx.map (fun k => (SG.cx d k cv : SG α))).map (SG.mapWires r)).foldl (fun b g => tauSG g b) b
      = fanFold (r d) cv (tcx.map r) b := by
  unfold fanFold
  simp only [List.foldl_map]
  rfl

theorem foldl_tau_xs (r : Nat → Nat) (ws : List Nat) (b : Bits) :
    ((ws.map (SG.x : Nat → SG α)).map (SG.mapWires r)).foldl (fun b g => tauSG g b) b
      = xsFold (ws.map r) b := by
  unfold xsFold
  simp only [List.foldl_map]
  induction ws generalizing b with
  | nil => rfl
  | cons k ws ih =>
    simp only [List.foldl_cons]
    rw [← ih]
    congr 1

/-- **gates of one step (no auxiliaries)**: mapped to the final wires and reversed they act as the
relabelling by `stepB`. -/
theorem step_permCirc_noaux {Θ R : Type} [CommRing R] [RotSem Θ R] (iu : R)
    (dn : List Nat → List (Amp Θ) → State R → State R) (r : Nat → Nat) (n t : Nat)
    (nz zero : Str) (st : Dict Θ) :
    PermCirc iu dn (((pivoting n t false nz zero st).1.map (SG.mapWires r)).reverse)
      (stepB r n (n - t) (pvDiffer n t nz zero) (bitAt nz (pvDiffer n t nz zero))
        (pvTcx n t nz zero) zero) := by
  obtain ⟨g, hg, hperm, htau⟩ := pvMc_single (α := Θ) n t (pvDiffer n t nz zero) r
  have h := PermCirc.reverse_of_each iu dn ((pivoting n t false nz zero st).1.map (SG.mapWires r))
    tauSG (by
      intro g' hg'
      apply PermCirc.single
      rw [pivoting_gates_noaux, hg] at hg'
      simp only [List.map_append, List.mem_append, List.mem_map] at hg'
      rcases hg' with ((⟨_, ⟨k, _, rfl⟩, rfl⟩ | ⟨_, ⟨k, _, rfl⟩, rfl⟩) | ⟨_, hx, rfl⟩) | ⟨_, ⟨k, _, rfl⟩, rfl⟩
      · rfl
      · rfl
      · rw [List.mem_singleton] at hx; subst hx; exact hperm
      · rfl)
  have e : (fun b => ((pivoting n t false nz zero st).1.map (SG.mapWires r)).foldl
        (fun b g => tauSG g b) b)
      = stepB r n (n - t) (pvDiffer n t nz zero) (bitAt nz (pvDiffer n t nz zero))
        (pvTcx n t nz zero) zero := by
    funext b
    rw [pivoting_gates_noaux, hg]
    simp only [List.map_append, List.foldl_append]
    rw [foldl_tau_fan, foldl_tau_xs, foldl_tau_xs]
    simp only [List.map_cons, List.map_nil, List.foldl_cons, List.foldl_nil, htau]
    rfl
  rw [e] at h
  exact h


/-! ### the tracked dictionary -/

/-- loop invariant on the tracked dictionary: `m` distinct keys of `n` characters -/
def PInv (n m : Nat) (st : Dict α) : Prop :=
  st.keys.Nodup ∧ (∀ k ∈ st.keys, k.length = n) ∧ st.length = m

/-- number of keys outside the low block (the termination measure) -/
def highCount (pre : Nat) (st : Dict α) : Nat := st.keys.countP (isHigh pre)

theorem keys_mapKeys (f : Str → Str) (st : Dict α) : (st.mapKeys f).keys = st.keys.map f := by
  simp [Dict.keys, Dict.mapKeys, List.map_map, Function.comp_def]

theorem countP_lt_of_witness {β : Type} (p q : β → Bool) (l : List β)
    (h : ∀ k ∈ l, q k = true → p k = true) (x : β) (hx : x ∈ l) (hpx : p x = true)
    (hqx : q x = false) : l.countP q < l.countP p := by
  induction l with
  | nil => simp at hx
  | cons a l ih =>
    rw [List.countP_cons, List.countP_cons]
    have hle : l.countP q ≤ l.countP p :=
      List.countP_mono_left (fun k hk => h k (List.mem_cons_of_mem _ hk))
    rcases List.mem_cons.mp hx with rfl | hx'
    · rw [hpx, hqx]; simp; omega
    · have := ih (fun k hk => h k (List.mem_cons_of_mem _ hk)) hx'
      have ha := h a (List.mem_cons_self ..)
      cases hq : q a
      · simp; omega
      · rw [ha hq]; simp; omega

/-- **the free index exists and lies in the low block** (`_get_index_zero` never returns `None`
while `_get_index_nz` finds a key). -/
theorem step_indices (n t m : Nat) (ht : 1 ≤ t) (hm : m ≤ 2 ^ t) (htm : t ≤ m) (st : Dict α)
    (hinv : PInv n m st) (nz : Str) (hnz : getIndexNz (n - t) st = some nz) :
    t < n ∧ nz ∈ st.keys ∧ nz.length = n ∧ ¬ inLow n t nz ∧
    ∃ zero, getIndexZero n m st = some zero ∧ zero.length = n ∧ inLow n t zero ∧
      zero ∉ st.keys := by
  obtain ⟨hnd, hlen, hlm⟩ := hinv
  rw [getIndexNz_eq] at hnz
  have hmem := List.mem_of_find?_eq_some hnz
  have hhigh : isHigh (n - t) nz = true := List.find?_some hnz
  have htn : t < n := by
    by_contra hge
    have : n - t = 0 := by omega
    rw [this] at hhigh
    simp [isHigh] at hhigh
  have hnzlen := hlen nz hmem
  have hnlow : ¬ inLow n t nz := by
    intro hl
    rw [← isHigh_false_iff n t nz hnzlen, hhigh] at hl
    exact Bool.noConfusion hl
  refine ⟨htn, hmem, hnzlen, hnlow, ?_⟩
  have hkl : st.keys.length ≤ 2 ^ t := by
    have : st.keys.length = st.length := by simp [Dict.keys]
    omega
  obtain ⟨k, hk, hfree⟩ := exists_free_low n t ht st.keys hkl nz hmem hhigh
  have hpow : 2 ^ t ≤ 2 ^ m := Nat.pow_le_pow_right (by decide) htm
  obtain ⟨k1, hk1, hfree1, hgo⟩ := indexZeroGo_spec n st.keys (2 ^ m) 0 k (Nat.zero_le _) (by omega) hfree
  have hk1t : k1 < 2 ^ t := by omega
  have hpow2 : 2 ^ t ≤ 2 ^ n := Nat.pow_le_pow_right (by decide) (by omega)
  have hzlen : (fmtBin n k1).length = n := fmtBin_length n k1 (by omega) (by omega)
  refine ⟨fmtBin n k1, hgo, hzlen, ?_, ?_⟩
  · rw [← isHigh_false_iff n t _ hzlen]
    simp [isHigh, fmtBin_take n t k1 ht hk1t]
  · intro h
    have : st.keys.contains (fmtBin n k1) = true := by simpa using h
    rw [hfree1] at this
    exact Bool.noConfusion this

/-- **one step on the dictionary**: keys stay distinct and of length `n`, and the number of keys
outside the low block strictly decreases. -/
theorem step_inv (n t m : Nat) (aux : Bool) (st : Dict α) (hinv : PInv n m st) (nz zero : Str)
    (hnzmem : nz ∈ st.keys) (hnzlen : nz.length = n) (hnlow : ¬ inLow n t nz)
    (hzlen : zero.length = n) (hzlow : inLow n t zero) (hzfree : zero ∉ st.keys) :
    PInv n m (pivoting n t aux nz zero st).2.st ∧
    highCount (n - t) (pivoting n t aux nz zero st).2.st < highCount (n - t) st := by
  obtain ⟨hnd, hlen, hlm⟩ := hinv
  have hsp := pvDiffer_spec n t nz zero hzlow hnlow
  have hdt : pvDiffer n t nz zero ∉ pvTcx n t nz zero := by
    intro h; exact ((mem_pvTcx n t nz zero hsp.1 _).mp h).2.1 rfl
  have hflen : ∀ s : Str, s.length = n →
      (nextKey (pvDiffer n t nz zero) (bitAt nz (pvDiffer n t nz zero)) (pvTcx n t nz zero)
        (n - t) zero s).length = n := by
    intro s hs
    rw [nextKey_length _ _ _ _ _ _ (by omega), hs]
  rw [pivoting_st]
  unfold nextState
  refine ⟨⟨?_, ?_, ?_⟩, ?_⟩
  · rw [keys_mapKeys]
    apply List.Nodup.map_on _ hnd
    intro x hx y hy e
    exact nextKey_injective _ _ _ _ _ x y hsp.1 (by rw [hlen x hx]; omega) (by rw [hlen y hy]; omega) hdt e
  · intro k hk
    rw [keys_mapKeys] at hk
    obtain ⟨s, hs, rfl⟩ := List.mem_map.mp hk
    exact hflen s (hlen s hs)
  · simpa [Dict.mapKeys] using hlm
  · unfold highCount
    rw [keys_mapKeys, List.countP_map]
    apply countP_lt_of_witness _ _ _ _ nz hnzmem
    · cases h : isHigh (n - t) nz
      · exact absurd ((isHigh_false_iff n t nz hnzlen).mp h) hnlow
      · rfl
    · show isHigh (n - t) (nextKey _ _ _ _ _ nz) = false
      have := nextKey_pivot n t nz zero hnzlen hzlen (pvChoice n t nz zero hzlow hnlow)
      have e : nextKey (pvDiffer n t nz zero) (bitAt nz (pvDiffer n t nz zero)) (pvTcx n t nz zero)
        (n - t) zero nz = zero := this
      rw [e, isHigh_false_iff n t zero hzlen]; exact hzlow
    · intro k hk hq
      by_contra hp
      have hp' : isHigh (n - t) k = false := by simpa using hp
      have hklow := (isHigh_false_iff n t k (hlen k hk)).mp hp'
      have hne : k ≠ zero := fun e => hzfree (e ▸ hk)
      have := nextKey_low_fixed n t nz zero hzlen hzlow (pvChoice n t nz zero hzlow hnlow) k
        (hlen k hk) hklow hne
      have e : nextKey (pvDiffer n t nz zero) (bitAt nz (pvDiffer n t nz zero)) (pvTcx n t nz zero)
        (n - t) zero k = k := this
      simp only [Function.comp] at hq
      rw [e, hp'] at hq
      exact Bool.noConfusion hq

end Qclib.Sparse
