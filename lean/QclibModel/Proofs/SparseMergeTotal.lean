import QclibModel.Proofs.SparseMergeTotalC
/-
  C06 — whole-circuit theorem for `MergeInitialize` (merge.py): the loop, the final `x` layer and
  the top-level theorems `merge_total`, `merge_total_unit`.
-/
namespace Qclib.Sparse.Mrg
open Qclib

section Total
variable (iu : ℂ) (dn : List Nat → List (Amp ℝ) → State ℂ → State ℂ)

/-! ### the loop -/

/-- **The `while len(b_strings) > 1` loop**, by induction over the fuel: on a non-empty dictionary
satisfying the invariant it terminates within `len(dict) - 1` passes with a one-key dictionary, the
gates `tail` it appended, in reversed order, take the state of that last dictionary back to the
state of the initial one, `Σ|a|²` is unchanged, and the last entry is a real scalar (if at least
one pass ran). -/
theorem loop_total (n : Nat) : ∀ (fuel : Nat) (d : Dict ℝ) (g : List (SG ℝ)) (e : List (MEv ℝ)),
    DInv n d → 1 ≤ d.length → d.length ≤ fuel + 1 →
    (d.length ≤ 1 → ∀ kv ∈ d, kv.2.cplx = false) →
    ∃ (d' : Dict ℝ) (tail : List (SG ℝ)) (e' : List (MEv ℝ)),
      mergeLoop fuel d g e = some (d', g ++ tail, e') ∧ d'.length = 1 ∧ DInv n d' ∧
      (∀ kv ∈ d', kv.2.cplx = false) ∧ dictSq d' = dictSq d ∧
      ∀ ψ0 : State ℂ, semSG iu dn tail.reverse (dictState n d' ψ0) = dictState n d ψ0 := by
  intro fuel
  induction fuel with
  | zero =>
    intro d g e hI h1 hf hfin
    have hle : d.length ≤ 1 := by omega
    refine ⟨d, [], e, ?_, by omega, hI, hfin hle, rfl, fun ψ0 => rfl⟩
    rw [mergeLoop_done 0 d g e (by omega), List.append_nil]
  | succ fuel ih =>
    intro d g e hI h1 hf hfin
    by_cases hlen : d.length > 1
    · obtain ⟨b1, b2, dif, dq, a1, a2, ops, hsel, hl1, hl2, hgates, hIm, hlm, hsq, hmem, hsem⟩ :=
        merge_step iu dn n d hI hlen g e
      obtain ⟨e1, hloop⟩ := mergeLoop_succ fuel d g e hlen b1 b2 dif dq hsel a1 a2 hl1 hl2
      generalize hdm : mergeUpdate (stepPre d g e b1 b2 dif dq).d (stepPre d g e b1 b2 dif dq).b1
        (stepPre d g e b1 b2 dif dq).b2 (normAmp a1 a2) = dm at hIm hlm hsq hmem hsem hloop
      have hfin' : dm.length ≤ 1 → ∀ kv ∈ dm, kv.2.cplx = false := by
        intro hle kv hkv
        match dm, hle, hkv, hmem with
        | [x], _, hkv, hmem =>
          rw [List.mem_singleton] at hkv hmem
          rw [hkv, ← hmem]
        | [], _, hkv, _ => simp at hkv
      obtain ⟨d', tail', e', hres, hd1, hId', hc', hsq', hsem'⟩ :=
        ih dm ((stepPre d g e b1 b2 dif dq).gates ++ [stepGate dq dif a1 a2]) e1 hIm
          (by omega) (by omega) hfin'
      refine ⟨d', ops.map KOp.mergeSG ++ [stepGate dq dif a1 a2] ++ tail', e', ?_, hd1, hId', hc',
        hsq'.trans hsq, ?_⟩
      · rw [hloop, hres, hgates]
        simp only [List.append_assoc]
      · intro ψ0
        rw [List.reverse_append, semSG_append_m, hsem' ψ0]
        exact hsem ψ0
    · have hle : d.length ≤ 1 := by omega
      refine ⟨d, [], e, ?_, by omega, hI, hfin hle, rfl, fun ψ0 => rfl⟩
      rw [mergeLoop_done (fuel + 1) d g e hlen, List.append_nil]

/-! ### the final `x` layer -/

theorem semSG_xs (l : List Nat) (ψ : State ℂ) (b : Bits) :
    semSG iu dn (l.map SG.x) ψ b = ψ (l.foldr (fun q c => flipBit c q) b) := by
  induction l generalizing ψ with
  | nil => rfl
  | cons q l ih =>
    show semSG iu dn (l.map SG.x) (denoteSG iu dn (SG.x q) ψ) b = _
    rw [ih, denoteSG_x_m]; rfl

theorem foldr_flip (l : List Nat) (hnd : l.Nodup) (b : Bits) (i : Nat) :
    (l.foldr (fun q c => flipBit c q) b) i = if i ∈ l then !(b i) else b i := by
  induction l with
  | nil => simp
  | cons q l ih =>
    rw [List.nodup_cons] at hnd
    rw [List.foldr_cons]
    by_cases hi : i = q
    · subst hi
      rw [flipBit_eq, ih hnd.2, if_neg hnd.1]; simp
    · rw [flipBit_ne _ hi, ih hnd.2]
      simp [hi]

theorem mem_onesOf (s : Str) (i : Nat) : i ∈ onesOf s ↔ i < s.length ∧ bitAt s i = true := by
  unfold onesOf; rw [List.mem_filter, List.mem_range]

theorem nodup_onesOf (s : Str) : (onesOf s).Nodup := List.nodup_range.filter _

/-- The `x` layer (reversed) moves the amplitude of the all-zero key to the last key `bl`: from
`c·ψ0`, with `ψ0` supported on labels whose wires `0..n-1` are `0`, to the state of the one-key
dictionary `{bl: c}`. -/
theorem xlayer_dictState (n : Nat) (bl : Str) (al : Amp ℝ) (hbl : bl.length = n) (ψ0 : State ℂ)
    (hsupp : ∀ b : Bits, (∃ i, i < n ∧ b i = true) → ψ0 b = 0) :
    semSG iu dn ((onesOf bl).map SG.x).reverse (scale al.toC ψ0) = dictState n [(bl, al)] ψ0 := by
  funext b
  rw [← List.map_reverse, semSG_xs]
  have hF : ∀ i, ((onesOf bl).reverse.foldr (fun q c => flipBit c q) b) i
      = if i < n ∧ bitAt bl i = true then !(b i) else b i := by
    intro i
    rw [foldr_flip _ (List.nodup_reverse.mpr (nodup_onesOf bl))]
    by_cases hm : i ∈ onesOf bl
    · rw [if_pos (List.mem_reverse.mpr hm), if_pos (by rw [← hbl]; exact (mem_onesOf bl i).mp hm)]
    · rw [if_neg (fun h => hm (List.mem_reverse.mp h)),
        if_neg (by rw [← hbl]; exact fun h => hm ((mem_onesOf bl i).mpr h))]
  unfold dictState ampOf scale
  rw [lookup_cons, lookup_nil]
  by_cases hk : bl = wireKey n b
  · have : (onesOf bl).reverse.foldr (fun q c => flipBit c q) b = clr n b := by
      funext i
      rw [hF]
      unfold clr
      by_cases hi : i < n
      · have hb : bitAt bl i = b i := by rw [hk, bitAt_wireKey, if_pos hi]
        rw [hb]
        cases h : b i <;> simp [hi]
      · simp [hi]
    rw [this]; simp [hk]
  · have : ∃ i, i < n ∧ bitAt bl i ≠ b i := by
      by_contra hcon
      apply hk
      apply eq_of_bitAt _ _ (by rw [hbl, wireKey_length])
      intro j
      rw [bitAt_wireKey]
      by_cases hj : j < n
      · rw [if_pos hj]
        by_contra hne
        exact hcon ⟨j, hj, hne⟩
      · rw [if_neg hj]; exact bitAt_ge bl j (by omega)
    obtain ⟨i, hi, hne⟩ := this
    have hz : ψ0 ((onesOf bl).reverse.foldr (fun q c => flipBit c q) b) = 0 := by
      apply hsupp
      refine ⟨i, hi, ?_⟩
      rw [hF]
      cases h1 : bitAt bl i <;> cases h2 : b i <;> simp_all
    rw [hz]; simp [hk]

/-! ### the whole circuit -/

/-- `‖a‖ = √(Σ_k |a_k|²)` -/
noncomputable def dictNorm (d : Dict ℝ) : ℝ := Real.sqrt (dictSq d)

theorem sq_pos_of_toC_ne (a : Amp ℝ) (h : a.toC ≠ 0) : 0 < a.absSq := by
  by_contra hle
  apply h
  have h0 : a.re * a.re + a.im * a.im ≤ 0 := not_lt.mp hle
  have hr : a.re = 0 := by nlinarith [mul_self_nonneg a.re, mul_self_nonneg a.im]
  have hi : a.im = 0 := by nlinarith [mul_self_nonneg a.re, mul_self_nonneg a.im]
  apply Complex.ext <;> simp [Amp.toC, hr, hi]

/-- **C06 (MergeInitialize, whole circuit).**  For every `n` and every dictionary `d` of `m ≥ 2`
distinct `n`-character keys with non-zero amplitudes — Python `complex` values, or real scalars
that are non-negative (`cplx = false` entries; a negative real scalar is outside the theorem) —
* the construction succeeds: `mergeInit d = some (gates, evs)` (`_select_strings` never raises,
  every dictionary lookup succeeds, the loop ends after `m - 1` passes);
* the circuit `gates` (the generated list reversed by `reverse_ops`; the opaque multi-controlled
  `U` denotes the ideal multi-controlled gate) prepares `Σ_k a_k |k⟩` **exactly** — global phase
  included, zero on every non-key — from `‖a‖·|0…0⟩`: for every spectator state `ψ0` supported on
  labels whose wires `0..n-1` are all `0`, the amplitude of the output on any label `b` is the
  amplitude of the key on wires `0..n-1` of `b` (`0` if it is not a key) times `ψ0` at the
  spectator part of `b`.  Key character `i` ↔ wire `i`.
`m = 1` is excluded (the code then emits only `x` gates and loses the amplitude's phase). -/
theorem merge_total (n : Nat) (d : Dict ℝ) (hnd : d.keys.Nodup)
    (hlen : ∀ k ∈ d.keys, k.length = n) (hm : 2 ≤ d.length) (hnz : ∀ kv ∈ d, kv.2.toC ≠ 0)
    (hreal : ∀ kv ∈ d, kv.2.cplx = false → kv.2.im = 0 ∧ 0 ≤ kv.2.re) :
    ∃ gates evs, mergeInit d = some (gates, evs) ∧
      ∀ ψ0 : State ℂ, (∀ b : Bits, (∃ i, i < n ∧ b i = true) → ψ0 b = 0) →
        ∀ b : Bits, semSG iu dn gates (scale ((dictNorm d : ℝ) : ℂ) ψ0) b
          = ampOf d (wireKey n b) * ψ0 (clr n b) := by
  have hI : DInv n d := ⟨hnd, hlen, fun kv hkv => sq_pos_of_toC_ne kv.2 (hnz kv hkv), hreal⟩
  obtain ⟨d', tail, e', hres, hd1, hId', hc', hsq', hsem'⟩ :=
    loop_total iu dn n d.length d [] [] hI (by omega) (by omega) (fun h => by omega)
  match d', hd1, hres, hId', hc', hsq', hsem' with
  | [(bl, al)], _, hres, hId', hc', hsq', hsem' =>
    have hbl : bl.length = n := hId'.len bl List.mem_cons_self
    have hcl : al.cplx = false := hc' (bl, al) List.mem_cons_self
    obtain ⟨him, hre⟩ : al.im = 0 ∧ 0 ≤ al.re := hId'.real (bl, al) List.mem_cons_self hcl
    have hal : al.toC = ((dictNorm d : ℝ) : ℂ) := by
      have hs : al.re * al.re = dictSq d := by
        rw [← hsq']; simp [dictSq, Amp.absSq, him]
      have : dictNorm d = al.re := by
        unfold dictNorm; rw [← hs]; exact Real.sqrt_mul_self hre
      rw [this]
      apply Complex.ext <;> simp [Amp.toC, him]
    refine ⟨([] ++ tail ++ (onesOf bl).map SG.x).reverse, e', ?_, ?_⟩
    · unfold mergeInit
      rw [hres]
      rfl
    · intro ψ0 hsupp b
      rw [List.reverse_append, semSG_append_m, ← hal, xlayer_dictState iu dn n bl al hbl ψ0 hsupp,
        List.nil_append, hsem' ψ0]
      rfl

/-- **C06 (MergeInitialize, whole circuit, unit vector of complex amplitudes).**  The statement of
`merge_total` for `m ≥ 2` distinct `n`-character keys with non-zero Python-`complex` amplitudes of
total squared norm `1`: the circuit started on any `ψ0` supported on labels with wires `0..n-1`
all `0` puts on every label `b` exactly `a_{key of b}` (or `0`) times `ψ0` at the spectator part
of `b`. -/
theorem merge_total_unit (n : Nat) (d : Dict ℝ) (hnd : d.keys.Nodup)
    (hlen : ∀ k ∈ d.keys, k.length = n) (hm : 2 ≤ d.length) (hc : ∀ kv ∈ d, kv.2.cplx = true)
    (hnz : ∀ kv ∈ d, kv.2.toC ≠ 0) (hunit : dictSq d = 1) :
    ∃ gates evs, mergeInit d = some (gates, evs) ∧
      ∀ ψ0 : State ℂ, (∀ b : Bits, (∃ i, i < n ∧ b i = true) → ψ0 b = 0) →
        ∀ b : Bits, semSG iu dn gates ψ0 b = ampOf d (wireKey n b) * ψ0 (clr n b) := by
  obtain ⟨gates, evs, hmi, hsem⟩ := merge_total iu dn n d hnd hlen hm hnz
    (fun kv hkv hf => by rw [hc kv hkv] at hf; cases hf)
  refine ⟨gates, evs, hmi, ?_⟩
  intro ψ0 hsupp b
  have h1 : ((dictNorm d : ℝ) : ℂ) = 1 := by
    unfold dictNorm; rw [hunit, Real.sqrt_one]; simp
  have hs : scale ((dictNorm d : ℝ) : ℂ) ψ0 = ψ0 := by
    funext c; unfold scale; rw [h1, one_mul]
  rw [← hsem ψ0 hsupp b, hs]

end Total

/-! ### non-vacuity: a concrete instance of the hypotheses -/

/-- `{'00': 0.6, '11': 0.8j}` -/
noncomputable def exDict : Dict ℝ := [([false, false], ⟨3 / 5, 0, true⟩), ([true, true], ⟨0, 4 / 5, true⟩)]

theorem exDict_hyps :
    exDict.keys.Nodup ∧ (∀ k ∈ exDict.keys, k.length = 2) ∧ 2 ≤ exDict.length ∧
    (∀ kv ∈ exDict, kv.2.cplx = true) ∧ (∀ kv ∈ exDict, kv.2.toC ≠ 0) ∧ dictSq exDict = 1 := by
  refine ⟨by decide, by decide, by decide, ?_, ?_, ?_⟩
  · intro kv hkv
    simp only [exDict, List.mem_cons, List.not_mem_nil, or_false] at hkv
    rcases hkv with rfl | rfl <;> rfl
  · intro kv hkv
    simp only [exDict, List.mem_cons, List.not_mem_nil, or_false] at hkv
    rcases hkv with rfl | rfl
    · intro h
      have := congrArg Complex.re h
      simp [Amp.toC] at this
    · intro h
      have := congrArg Complex.im h
      simp [Amp.toC] at this
  · simp [dictSq, exDict, Amp.absSq]; norm_num

/-- `merge_total_unit` (hence `merge_total`) applies to `{'00': 0.6, '11': 0.8j}`; the spectator
state `ψ0 = |0…0⟩` satisfies the support hypothesis and is non-zero. -/
example (iu : ℂ) (dn : List Nat → List (Amp ℝ) → State ℂ → State ℂ) :
    ∃ gates evs, mergeInit exDict = some (gates, evs) ∧
      ∀ ψ0 : State ℂ, (∀ b : Bits, (∃ i, i < 2 ∧ b i = true) → ψ0 b = 0) →
        ∀ b : Bits, semSG iu dn gates ψ0 b = ampOf exDict (wireKey 2 b) * ψ0 (clr 2 b) :=
  merge_total_unit iu dn 2 exDict exDict_hyps.1 exDict_hyps.2.1 exDict_hyps.2.2.1
    exDict_hyps.2.2.2.1 exDict_hyps.2.2.2.2.1 exDict_hyps.2.2.2.2.2

example (iu : ℂ) (dn : List Nat → List (Amp ℝ) → State ℂ → State ℂ) :
    ∃ gates evs, mergeInit exDict = some (gates, evs) ∧
      ∀ ψ0 : State ℂ, (∀ b : Bits, (∃ i, i < 2 ∧ b i = true) → ψ0 b = 0) →
        ∀ b : Bits, semSG iu dn gates (scale ((dictNorm exDict : ℝ) : ℂ) ψ0) b
          = ampOf exDict (wireKey 2 b) * ψ0 (clr 2 b) :=
  merge_total iu dn 2 exDict exDict_hyps.1 exDict_hyps.2.1 exDict_hyps.2.2.1
    exDict_hyps.2.2.2.2.1 (fun kv hkv hf => by rw [exDict_hyps.2.2.2.1 kv hkv] at hf; cases hf)

/-- the support hypothesis on `ψ0` is satisfiable by a non-zero state -/
example : ∃ ψ0 : State ℂ, (∀ b : Bits, (∃ i, i < 2 ∧ b i = true) → ψ0 b = 0) ∧
    ψ0 (fun _ => false) = 1 := by
  refine ⟨fun b => if b 0 || b 1 then 0 else 1, ?_, by simp⟩
  rintro b ⟨i, hi, hb⟩
  have : i = 0 ∨ i = 1 := by omega
  rcases this with rfl | rfl <;> simp [hb]

/-- the loop-level theorems are about a satisfiable invariant -/
example : DInv 2 exDict :=
  ⟨exDict_hyps.1, exDict_hyps.2.1,
    fun kv hkv => sq_pos_of_toC_ne kv.2 (exDict_hyps.2.2.2.2.1 kv hkv),
    fun kv hkv hf => by rw [exDict_hyps.2.2.2.1 kv hkv] at hf; cases hf⟩

end Qclib.Sparse.Mrg
