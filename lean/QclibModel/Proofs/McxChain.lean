import QclibModel.Proofs.McxToffoli
/-
  C05, the ladder of half-Toffolis ("sweep") of `McxVchainDirty`.

  `sweep j = R_j ; … ; R_1 ; Toffoli(c0,c1;a0) ; L_1 ; … ; L_j` denotes a signed relabelling
  `sp σ π` that is an involution, changes only the borrowed wires `a 0 … a j`, flips `a j` exactly
  when `c 0 … c (j+1)` are all 1, and does not see any other wire (`SweepInv`).  Proved by
  induction on `j` with the conjugation step `halves`.
-/
set_option linter.unusedSectionVars false

namespace Qclib
open RotSem

/-- Wires `c 0 … c (n-1)` all read 1. -/
def all1 (c : Nat → Nat) : Nat → Bits → Bool
  | 0, _ => true
  | n + 1, b => all1 c n b && b (c n)

theorem all1_congr (c : Nat → Nat) (n : Nat) (b b' : Bits) (h : ∀ i, i < n → b' (c i) = b (c i)) :
    all1 c n b' = all1 c n b := by
  induction n with
  | zero => rfl
  | succ n ih =>
    simp only [all1]
    rw [ih (fun i hi => h i (Nat.lt_succ_of_lt hi)), h n (Nat.lt_succ_self n)]

theorem all1_setBit (c : Nat → Nat) (n : Nat) (b : Bits) (q : Nat) (v : Bool)
    (h : ∀ i, i < n → c i ≠ q) : all1 c n (setBit b q v) = all1 c n b :=
  all1_congr c n b _ (fun i hi => setBit_other b v (h i hi))

section
variable {Θ R : Type} [CommRing R] [RotSem Θ R]

/-! ### Extending a signed relabelling by a relative-phase Toffoli family -/

omit [RotSem Θ R] in
theorem relSgn_sq (P : Bits → Bool) (c0 t : Nat) (b : Bits) :
    (relSgn P c0 t b : R) * relSgn P c0 t b = 1 := by
  simp only [relSgn]; split <;> simp

theorem relPerm_get_ne (P : Bits → Bool) (c0 t : Nat) (b : Bits) {q : Nat} (h : q ≠ t) :
    (relPerm P c0 t b) q = b q := by
  simp only [relPerm]; split
  · exact flipBit_ne b h
  · rfl

theorem relPerm_get (P : Bits → Bool) (c0 t : Nat) (b : Bits) :
    (relPerm P c0 t b) t = xor (b t) (P b && b c0) := by
  simp only [relPerm]; split <;> rename_i h
  · rw [flipBit_eq, h]; simp
  · have h' : (P b && b c0) = false := by simpa using h
    rw [h']; simp

variable (P : Bits → Bool) (c0 t : Nat) (hPt : ∀ b v, P (setBit b t v) = P b) (hct : c0 ≠ t)
include hPt hct

theorem relPerm_P (b : Bits) : P (relPerm P c0 t b) = P b := by
  simp only [relPerm]; split
  · rw [flipBit_eq_setBit, hPt]
  · rfl

theorem relPerm_c0 (b : Bits) : (relPerm P c0 t b) c0 = b c0 := relPerm_get_ne P c0 t b hct

theorem relPerm_invol (b : Bits) : relPerm P c0 t (relPerm P c0 t b) = b := by
  have h1 := relPerm_P P c0 t hPt hct b
  have h2 := relPerm_c0 P c0 t hPt hct b
  by_cases h : (P b && b c0) = true
  · have e : relPerm P c0 t b = flipBit b t := by simp only [relPerm, if_pos h]
    rw [e] at h1 h2 ⊢
    simp only [relPerm, h1, h2, if_pos h, flipBit_flipBit]
  · have e : relPerm P c0 t b = b := by simp only [relPerm, if_neg h]
    rw [e, e]

omit [RotSem Θ R] in
theorem relSgn_relPerm (b : Bits) : (relSgn P c0 t (relPerm P c0 t b) : R) = relSgn P c0 t b := by
  have h1 := relPerm_P P c0 t hPt hct b
  have h2 := relPerm_c0 P c0 t hPt hct b
  simp only [relSgn, h1, h2]
  by_cases h : (P b && b c0) = true
  · have hc : b c0 = true := by
      cases hh : b c0
      · rw [hh] at h; simp at h
      · rfl
    simp [hc]
  · simp only [relPerm, if_neg h]

end

/-- An involutive signed relabelling. -/
structure Invol {R : Type} [CommRing R] (σ : Bits → R) (π : Bits → Bits) : Prop where
  invπ : ∀ b, π (π b) = b
  invσ : ∀ b, σ b * σ (π b) = 1

section ext
variable {Θ R : Type} [CommRing R]
variable (σ : Bits → R) (π : Bits → Bits) (P : Bits → Bool) (c0 t : Nat)
  (hf : FreeAt t σ π) (hc0 : ∀ b, (π b) c0 = b c0) (hP : ∀ b, P (π b) = P b)
  (hPt : ∀ b v, P (setBit b t v) = P b) (hct : c0 ≠ t)
include hf hc0 hP

theorem perm_relPerm (b : Bits) : π (relPerm P c0 t b) = relPerm P c0 t (π b) := by
  simp only [relPerm, hP, hc0]
  split
  · exact hf.perm_flip b
  · rfl

theorem relSgn_perm (b : Bits) : (relSgn P c0 t (π b) : R) = relSgn P c0 t b := by
  simp only [relSgn, hP, hc0, hf.get]

theorem sig_relPerm (b : Bits) : σ (relPerm P c0 t b) = σ b := by
  simp only [relPerm]; split
  · exact hf.sig_flip b
  · rfl

include hPt hct

/-- Composing an involutive signed relabelling with the relative-phase Toffoli family it commutes
with gives an involutive signed relabelling. -/
theorem ext_invol (hi : Invol σ π) :
    Invol (fun b => σ b * relSgn P c0 t (π b)) (fun b => relPerm P c0 t (π b)) := by
  constructor
  · intro b
    show relPerm P c0 t (π (relPerm P c0 t (π b))) = b
    rw [perm_relPerm σ π P c0 t hf hc0 hP, hi.invπ, relPerm_invol P c0 t hPt hct]
  · intro b
    show σ b * relSgn P c0 t (π b)
        * (σ (relPerm P c0 t (π b)) * relSgn P c0 t (π (relPerm P c0 t (π b)))) = 1
    rw [perm_relPerm σ π P c0 t hf hc0 hP, hi.invπ, sig_relPerm σ π P c0 t hf hc0 hP,
      relSgn_relPerm P c0 t hPt hct, relSgn_perm σ π P c0 t hf hc0 hP]
    have h1 := hi.invσ b
    have h2 := relSgn_sq (R := R) P c0 t b
    calc σ b * relSgn P c0 t b * (σ (π b) * relSgn P c0 t b)
        = (σ b * σ (π b)) * (relSgn P c0 t b * relSgn P c0 t b) := by ring
      _ = 1 := by rw [h1, h2, one_mul]

omit hf hc0 hP hPt hct in
/-- A wire free for `(σ, π)`, different from `t` and `c0` and not read by `P` stays free. -/
theorem ext_free (q : Nat) (hq : FreeAt q σ π) (hqt : q ≠ t) (hqc : q ≠ c0)
    (hPq : ∀ b v, P (setBit b q v) = P b) :
    FreeAt q (fun b => σ b * relSgn P c0 t (π b)) (fun b => relPerm P c0 t (π b)) := by
  constructor
  · intro b v
    show σ (setBit b q v) * relSgn P c0 t (π (setBit b q v)) = σ b * relSgn P c0 t (π b)
    rw [hq.sig, hq.perm]
    simp only [relSgn, hPq, setBit_other _ v hqc.symm, setBit_other _ v hqt.symm]
  · intro b v
    show relPerm P c0 t (π (setBit b q v)) = setBit (relPerm P c0 t (π b)) q v
    rw [hq.perm]
    simp only [relPerm, hPq, setBit_other _ v hqc.symm]
    split
    · exact setBit_flipBit_ne _ v hqt
    · rfl

end ext

/-! ### The sweep -/

/-- `R_j ; … ; R_1 ; Toffoli(c 0, c 1; a 0) ; L_1 ; … ; L_j` with `R_m = Toffoli(cancel='right')`
and `L_m = Toffoli(cancel='left')` on `[c (m+1), a (m-1), a m]`. -/
def sweep {Θ : Type} (o : McxAngles Θ) (c a : Nat → Nat) : Nat → Circ Θ
  | 0 => toffoli o .none (c 0) (c 1) (a 0)
  | j + 1 => toffoli o .right (c (j + 2)) (a j) (a (j + 1)) ++ sweep o c a j
      ++ toffoli o .left (c (j + 2)) (a j) (a (j + 1))

/-- What the sweep over `c 0 … c (j+1)`, `a 0 … a j` denotes. -/
structure SweepInv {R : Type} [CommRing R] (c a : Nat → Nat) (j : Nat) (σ : Bits → R)
    (π : Bits → Bits) : Prop where
  free : ∀ q, (∀ i, i ≤ j + 1 → c i ≠ q) → (∀ i, i ≤ j → a i ≠ q) → FreeAt q σ π
  keep : ∀ b q, (∀ i, i ≤ j → a i ≠ q) → (π b) q = b q
  top : ∀ b, (π b) (a j) = xor (b (a j)) (all1 c (j + 2) b)
  invol : Invol σ π

section sweep
variable {Θ R : Type} [CommRing R] [RotSem Θ R] (o : McxAngles Θ) (hp : Pi8 R o)
include hp

theorem sweep_sem (c a : Nat → Nat) (j : Nat)
    (hca : ∀ i i', i ≤ j + 1 → i' ≤ j → c i ≠ a i')
    (haa : ∀ i i', i ≤ j → i' ≤ j → a i = a i' → i = i') :
    ∃ (σ : Bits → R) (π : Bits → Bits),
      (∀ ψ : State R, sem (sweep o c a j) ψ = sp σ π ψ) ∧ SweepInv c a j σ π := by
  induction j with
  | zero =>
    have h0 : c 0 ≠ a 0 := hca 0 0 (by omega) (by omega)
    have h1 : c 1 ≠ a 0 := hca 1 0 (by omega) (by omega)
    have hPt : ∀ (b : Bits) (v : Bool), (fun b : Bits => b (c 1)) (setBit b (a 0) v)
        = (fun b : Bits => b (c 1)) b := fun b v => setBit_other b v h1
    have hid : FreeAt (a 0) (fun _ : Bits => (1 : R)) (fun b => b) := ⟨fun _ _ => rfl, fun _ _ => rfl⟩
    refine ⟨fun b => 1 * relSgn (fun b => b (c 1)) (c 0) (a 0) b,
      fun b => relPerm (fun b => b (c 1)) (c 0) (a 0) b, ?_, ?_⟩
    · intro ψ
      rw [sweep, toffoli_relphase o hp _ _ _ h0 h1, relTof_sp]
      funext b
      simp only [sp, one_mul]
    · constructor
      · intro q hc ha
        exact ext_free (fun _ => (1 : R)) (fun b => b) (fun b => b (c 1)) (c 0) (a 0) q
          ⟨fun _ _ => rfl, fun _ _ => rfl⟩ (ha 0 (by omega)).symm (hc 0 (by omega)).symm
          (fun b v => setBit_other b v (hc 1 (by omega)))
      · intro b q h
        exact relPerm_get_ne _ _ _ b (h 0 (by omega)).symm
      · intro b
        rw [relPerm_get]
        simp only [all1, Bool.true_and, Bool.and_comm]
      · exact ext_invol (fun _ => (1 : R)) (fun b => b) (fun b => b (c 1)) (c 0) (a 0) hid
          (fun _ => rfl) (fun _ => rfl) hPt h0 ⟨fun _ => rfl, fun _ => by simp⟩
  | succ j ih =>
    obtain ⟨σ, π, hsem, hinv⟩ := ih (fun i i' hi hi' => hca i i' (by omega) (by omega))
      (fun i i' hi hi' => haa i i' (by omega) (by omega))
    have hct : c (j + 2) ≠ a (j + 1) := hca _ _ (by omega) (by omega)
    have hat : a j ≠ a (j + 1) := fun h => by
      have := haa j (j + 1) (by omega) (by omega) h
      omega
    have hf : FreeAt (a (j + 1)) σ π := hinv.free _
      (fun i hi => hca i (j + 1) (by omega) (by omega))
      (fun i hi h => by have := haa i (j + 1) (by omega) (by omega) h; omega)
    have hc0 : ∀ b, (π b) (c (j + 2)) = b (c (j + 2)) := fun b =>
      hinv.keep b _ (fun i hi => (hca (j + 2) i (by omega) (by omega)).symm)
    have hP : ∀ b, all1 c (j + 2) (π b) = all1 c (j + 2) b := fun b =>
      all1_congr c (j + 2) b _ (fun i hi =>
        hinv.keep b _ (fun i' hi' => (hca i i' (by omega) (by omega)).symm))
    have hPt : ∀ b v, all1 c (j + 2) (setBit b (a (j + 1)) v) = all1 c (j + 2) b := fun b v =>
      all1_setBit c (j + 2) b _ v (fun i hi => hca i (j + 1) (by omega) (by omega))
    refine ⟨fun b => σ b * relSgn (all1 c (j + 2)) (c (j + 2)) (a (j + 1)) (π b),
      fun b => relPerm (all1 c (j + 2)) (c (j + 2)) (a (j + 1)) (π b), ?_, ?_⟩
    · intro ψ
      rw [sweep, halves o hp (c (j + 2)) (a j) (a (j + 1)) σ π (all1 c (j + 2)) _ hsem hct hat hf
        hc0 hinv.top hP hPt, relTof_sp, sp_sp]
    · constructor
      · intro q hc ha
        exact ext_free σ π _ _ _ q
          (hinv.free q (fun i hi => hc i (by omega)) (fun i hi => ha i (by omega)))
          (ha (j + 1) (by omega)).symm (hc (j + 2) (by omega)).symm
          (fun b v => all1_setBit c (j + 2) b q v (fun i hi => hc i (by omega)))
      · intro b q h
        rw [relPerm_get_ne _ _ _ _ (h (j + 1) (by omega)).symm]
        exact hinv.keep b q (fun i hi => h i (by omega))
      · intro b
        rw [relPerm_get, hf.get, hP, hc0]
        rfl
      · exact ext_invol σ π _ _ _ hf hc0 hP hPt hct hinv.invol

end sweep

end Qclib
