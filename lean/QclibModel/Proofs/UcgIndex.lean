import QclibModel.Spec.Ucg
/-
  C12: index arithmetic (labels `i = lo + 2^q·(2·hi + b)`), `str_target`, `r_gate`.
-/
namespace Qclib.Ucg

theorem idx_mod (P lo m : Nat) (h : lo < P) : (lo + P * m) % P = lo := by
  rw [Nat.add_mul_mod_self_left, Nat.mod_eq_of_lt h]

theorem idx_div (P lo m : Nat) (h : lo < P) : (lo + P * m) / P = m := by
  rw [Nat.add_mul_div_left _ _ (by omega), Nat.div_eq_of_lt h, Nat.zero_add]

theorem two_mul_div_add_mod (r : Nat) : 2 * (r / 2) + r % 2 = r := by omega

theorem idx_decomp (P i : Nat) : i % P + P * (2 * (i / P / 2) + i / P % 2) = i := by
  rw [two_mul_div_add_mod, Nat.mod_add_div]

theorem pow_pos2 (q : Nat) : 0 < 2 ^ q := Nat.pos_of_ne_zero (by simp)

/-- `i ≡ t (mod 2^(q+1))` iff the low parts agree and bit `q` agrees. -/
theorem mod_succ_iff (q i t : Nat) :
    i % 2 ^ (q + 1) = t % 2 ^ (q + 1) ↔ (i % 2 ^ q = t % 2 ^ q ∧ i / 2 ^ q % 2 = t / 2 ^ q % 2) := by
  rw [Nat.pow_succ, Nat.mod_mul, Nat.mod_mul]
  have hi : i % 2 ^ q < 2 ^ q := Nat.mod_lt _ (pow_pos2 q)
  have ht : t % 2 ^ q < 2 ^ q := Nat.mod_lt _ (pow_pos2 q)
  have bi : i / 2 ^ q % 2 < 2 := Nat.mod_lt _ (by omega)
  have bt : t / 2 ^ q % 2 < 2 := Nat.mod_lt _ (by omega)
  constructor
  · intro h
    have h1 := congrArg (· % 2 ^ q) h
    simp only [idx_mod _ _ _ hi, idx_mod _ _ _ ht] at h1
    have h2 := congrArg (· / 2 ^ q) h
    simp only [idx_div _ _ _ hi, idx_div _ _ _ ht] at h2
    exact ⟨h1, h2⟩
  · rintro ⟨h1, h2⟩
    rw [h1, h2]

theorem div_succ (q i : Nat) : i / 2 ^ (q + 1) = i / 2 ^ q / 2 := by
  rw [Nat.pow_succ, Nat.div_div_eq_div_mul]

/-- `r_gate` at the level with target wire `q` is `t` without its `q+1` low bits. -/
theorem rGateAt_eq (t q : Nat) : rGateAt t q = t / 2 ^ q / 2 := by
  induction q with
  | zero => simp [rGateAt]
  | succ q ih => rw [rGateAt, ih, ← div_succ]

theorem strTarget_eq (n t : Nat) :
    strTarget n t = (List.range (max n (binLen t))).map t.testBit := by
  simp [strTarget, binZfill]

/-- `bit_target` of the level with target wire `q` is bit `q` of `t`. -/
theorem bitTarget_eq (n t q : Nat) (hq : q < n) : bitTarget n t (n - q) = t.testBit q := by
  have h : n - (n - q) = q := by omega
  rw [bitTarget, h, strTarget_eq]
  have hq' : q < max n (binLen t) := by omega
  simp [List.getD, hq']

theorem testBit_eq (t q : Nat) : t.testBit q = decide (t / 2 ^ q % 2 = 1) :=
  Nat.testBit_eq_decide_div_mod_eq

end Qclib.Ucg
