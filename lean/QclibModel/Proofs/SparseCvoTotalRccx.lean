import QclibModel.Spec.Sparse
import QclibModel.Proofs.SemLemmas
import Mathlib.Tactic.LinearCombination
/-
  C06 — relative-phase Toffoli ladders (`_mcuvchain` of cvoqram.py, `_mcxvchain` of pivot.py).

  `applyIf c m t`: apply the 2×2 `m` on wire `t` on the labels where the Boolean `c` holds.
  A *signed involution* `g` (`g ψ b = ph b · ψ (τ b)`, `τ∘τ = id`, `ph b · ph (τ b) = 1`, neither
  `τ` nor `ph` looks at wire `t`) conjugates `applyIf c m t` into `applyIf (c ∘ τ) m t`
  (`conj_applyIf`) — for every state and every label, no cleanliness assumption.  `rccx` is such a
  signed involution (`rccx_sinv`), so a compute / gate / uncompute ladder of `rccx` gates is
  `applyIf (c ∘ ladderPerm) m t` (`ladder_conj`): the phases `±i`, `−1` of the relative-phase
  Toffolis cancel exactly and only their classical action survives in the condition.
-/
namespace Qclib.Sparse
open Qclib RotSem

section
variable {R : Type} [CommRing R]

/-- apply `m` on wire `t` exactly on the labels where `c` holds -/
def applyIf (c : Bits → Bool) (m : Mat2 R) (t : Nat) (ψ : State R) : State R := fun b =>
  if c b then
    (if b t then m.c * ψ (setBit b t false) + m.d * ψ (setBit b t true)
     else m.a * ψ (setBit b t false) + m.b * ψ (setBit b t true))
  else ψ b

theorem applyMcu_eq_applyIf (cs : List (Nat × Bool)) (m : Mat2 R) (t : Nat) :
    applyMcu cs m t = applyIf (ctrlOk cs) m t := rfl

/-- `g` is a signed involution that ignores wire `t` -/
structure SInv (t : Nat) (g : State R → State R) (τ : Bits → Bits) (ph : Bits → R) : Prop where
  act : ∀ ψ b, g ψ b = ph b * ψ (τ b)
  invol : ∀ b, τ (τ b) = b
  τ_set : ∀ b v, τ (setBit b t v) = setBit (τ b) t v
  τ_t : ∀ b, τ b t = b t
  ph_set : ∀ b v, ph (setBit b t v) = ph b
  ph_mul : ∀ b, ph b * ph (τ b) = 1

/-- **conjugation**: `g ; applyIf c m t ; g = applyIf (c ∘ τ) m t` for every state. -/
theorem conj_applyIf {t : Nat} {g : State R → State R} {τ : Bits → Bits} {ph : Bits → R}
    (h : SInv t g τ ph) (c : Bits → Bool) (m : Mat2 R) (ψ : State R) :
    g (applyIf c m t (g ψ)) = applyIf (fun b => c (τ b)) m t ψ := by
  funext b
  rw [h.act]
  have e : ∀ v, g ψ (setBit (τ b) t v) = ph (τ b) * ψ (setBit b t v) := by
    intro v
    rw [h.act, h.ph_set, h.τ_set, h.invol]
  have e0 : g ψ (τ b) = ph (τ b) * ψ b := by rw [h.act, h.invol]
  have hm := h.ph_mul b
  simp only [applyIf, h.τ_t, e, e0]
  by_cases hc : c (τ b) = true
  · rw [if_pos hc, if_pos hc]
    by_cases ht : b t = true
    · rw [if_pos ht, if_pos ht]
      linear_combination (m.c * ψ (setBit b t false) + m.d * ψ (setBit b t true)) * hm
    · rw [if_neg ht, if_neg ht]
      linear_combination (m.a * ψ (setBit b t false) + m.b * ψ (setBit b t true)) * hm
  · rw [if_neg hc, if_neg hc]
    linear_combination (ψ b) * hm

/-! ### `rccx` -/

/-- classical action of `rccx a b t'` (= `ccx`) -/
def rccxPerm (a b t' : Nat) (w : Bits) : Bits := if w a && w b then flipBit w t' else w

/-- the phase of `rccx a b t'` at the *output* label -/
def rccxPh (iu : R) (a b t' : Nat) (w : Bits) : R :=
  if w a then (if w b then (if w t' then iu else -iu) else (if w t' then -1 else 1)) else 1

theorem applyRccx_eq (iu : R) (a b t' : Nat) (ψ : State R) (w : Bits) :
    applyRccx iu a b t' ψ w = rccxPh iu a b t' w * ψ (rccxPerm a b t' w) := by
  unfold applyRccx rccxPh rccxPerm
  cases ha : w a <;> cases hb : w b <;> cases ht : w t' <;>
    simp [← setBit_not, ht]

theorem rccx_sinv (iu : R) (hi : iu * iu = -1) (a b t' t : Nat) (hat : a ≠ t') (hbt : b ≠ t')
    (h1 : a ≠ t) (h2 : b ≠ t) (h3 : t' ≠ t) :
    SInv t (applyRccx iu a b t') (rccxPerm a b t') (rccxPh iu a b t') where
  act := applyRccx_eq iu a b t'
  invol := by
    intro w
    unfold rccxPerm
    by_cases h : (w a && w b) = true
    · rw [if_pos h, flipBit_ne _ hat, flipBit_ne _ hbt, if_pos h, flipBit_flipBit]
    · rw [if_neg h, if_neg h]
  τ_set := by
    intro w v
    unfold rccxPerm
    rw [setBit_ne _ _ h1, setBit_ne _ _ h2]
    by_cases h : (w a && w b) = true
    · rw [if_pos h, if_pos h]
      funext i
      by_cases hi1 : i = t <;> by_cases hi2 : i = t' <;> simp_all [setBit, flipBit]
    · rw [if_neg h, if_neg h]
  τ_t := by
    intro w
    unfold rccxPerm
    by_cases h : (w a && w b) = true
    · rw [if_pos h, flipBit_ne _ h3.symm]
    · rw [if_neg h]
  ph_set := by
    intro w v
    unfold rccxPh
    rw [setBit_ne _ _ h1, setBit_ne _ _ h2, setBit_ne _ _ h3]
  ph_mul := by
    intro w
    unfold rccxPh rccxPerm
    cases ha : w a <;> cases hb : w b <;> cases ht : w t' <;>
      simp [ha, hb, ht, flipBit_ne _ hat, flipBit_ne _ hbt, flipBit_eq, hi]

/-! ### ladders -/

/-- classical action of a list of `rccx (a, b, t')`, applied head first -/
def ladderPerm : List (Nat × Nat × Nat) → Bits → Bits
  | [], w => w
  | x :: r, w => ladderPerm r (rccxPerm x.1 x.2.1 x.2.2 w)

/-- the gates of a ladder -/
def ladderSG {Θ : Type} (tr : List (Nat × Nat × Nat)) : List (SG Θ) :=
  tr.map (fun x => SG.rccx x.1 x.2.1 x.2.2)

/-- wires of the triple are pairwise usable and differ from the target `t` -/
def TripleOk (t : Nat) (x : Nat × Nat × Nat) : Prop :=
  x.1 ≠ x.2.2 ∧ x.2.1 ≠ x.2.2 ∧ x.1 ≠ t ∧ x.2.1 ≠ t ∧ x.2.2 ≠ t

/-- **compute / gate / uncompute**: conjugating `applyIf c m t` by a ladder of `rccx` gates (the
uncompute half in reverse order) gives `applyIf (c ∘ ladderPerm tr) m t`, for every state. -/
theorem ladder_conj (iu : R) (hi : iu * iu = -1) (t : Nat) (tr : List (Nat × Nat × Nat))
    (hok : ∀ x ∈ tr, TripleOk t x) (c : Bits → Bool) (m : Mat2 R) (ψ : State R) :
    tr.reverse.foldl (fun s x => applyRccx iu x.1 x.2.1 x.2.2 s)
        (applyIf c m t (tr.foldl (fun s x => applyRccx iu x.1 x.2.1 x.2.2 s) ψ))
      = applyIf (fun w => c (ladderPerm tr w)) m t ψ := by
  induction tr generalizing ψ with
  | nil => rfl
  | cons x r ih =>
    rw [List.reverse_cons, List.foldl_append, List.foldl_cons, List.foldl_cons, List.foldl_nil,
      ih (fun y hy => hok y (List.mem_cons_of_mem _ hy))]
    obtain ⟨k1, k2, k3, k4, k5⟩ := hok x (List.mem_cons_self ..)
    exact conj_applyIf (rccx_sinv iu hi x.1 x.2.1 x.2.2 t k1 k2 k3 k4 k5) _ m ψ

end

section
variable {Θ R : Type} [CommRing R] [RotSem Θ R]

theorem semSG_append (iu : R) (dn : List Nat → List (Amp Θ) → State R → State R)
    (c1 c2 : List (SG Θ)) (ψ : State R) :
    semSG iu dn (c1 ++ c2) ψ = semSG iu dn c2 (semSG iu dn c1 ψ) := by
  simp [semSG, List.foldl_append]

theorem semSG_cons (iu : R) (dn : List Nat → List (Amp Θ) → State R → State R)
    (g : SG Θ) (c : List (SG Θ)) (ψ : State R) :
    semSG iu dn (g :: c) ψ = semSG iu dn c (denoteSG iu dn g ψ) := rfl

theorem semSG_nil (iu : R) (dn : List Nat → List (Amp Θ) → State R → State R) (ψ : State R) :
    semSG iu dn ([] : List (SG Θ)) ψ = ψ := rfl

theorem semSG_ladder (iu : R) (dn : List Nat → List (Amp Θ) → State R → State R)
    (tr : List (Nat × Nat × Nat)) (ψ : State R) :
    semSG iu dn (ladderSG (Θ := Θ) tr) ψ
      = tr.foldl (fun s x => applyRccx iu x.1 x.2.1 x.2.2 s) ψ := by
  induction tr generalizing ψ with
  | nil => rfl
  | cons x r ih => exact ih _

theorem ladderSG_reverse (tr : List (Nat × Nat × Nat)) :
    (ladderSG (Θ := Θ) tr).reverse = ladderSG tr.reverse := by
  simp [ladderSG, List.map_reverse]

/-- the block `ladder ; g ; ladder⁻¹` around any gate `g` that denotes an `applyIf` -/
theorem semSG_ladder_block (iu : R) (hi : iu * iu = -1)
    (dn : List Nat → List (Amp Θ) → State R → State R) (t : Nat)
    (tr : List (Nat × Nat × Nat)) (hok : ∀ x ∈ tr, TripleOk t x) (g : SG Θ) (c : Bits → Bool)
    (m : Mat2 R) (hg : denoteSG iu dn g = applyIf c m t) (ψ : State R) :
    semSG iu dn (ladderSG tr ++ [g] ++ (ladderSG tr).reverse) ψ
      = applyIf (fun w => c (ladderPerm tr w)) m t ψ := by
  rw [semSG_append, semSG_append, semSG_cons, semSG_nil, ladderSG_reverse, semSG_ladder,
    semSG_ladder, hg]
  exact ladder_conj iu hi t tr hok c m ψ

end
end Qclib.Sparse
