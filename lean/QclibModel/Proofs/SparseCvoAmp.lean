import QclibModel.Proofs.SparseReal
/-
  C06 — the CVO-QRAM rotation (`_compute_matrix_angles`, complex branch) over the reals:
  `U(α, β, -β)·(0, √norm)ᵀ = (x, √(norm - |x|²))ᵀ`, and the norm recurrence.
-/
namespace Qclib.Sparse
open Qclib Complex

theorem absSq_real (re im : ℝ) : absSq re im = re ^ 2 + im ^ 2 := by
  show Real.sqrt ((re * re - im * im) * (re * re - im * im) + 2 * (re * im) * (2 * (re * im))) = _
  have : (re * re - im * im) * (re * re - im * im) + 2 * (re * im) * (2 * (re * im))
      = (re ^ 2 + im ^ 2) ^ 2 := by ring
  rw [this, Real.sqrt_sq (by positivity)]

theorem clampTrig_id (c : ℝ) (h0 : -1 ≤ c) (h1 : c ≤ 1) : clampTrig c = c := by
  show (let v := if decide ((1 : ℝ) < c) = true then (1 : ℝ) else c
        if decide (v < -(1 : ℝ)) = true then -(1 : ℝ) else v) = c
  have a : ¬ (1 : ℝ) < c := not_lt.mpr h1
  have b : ¬ c < -(1 : ℝ) := not_lt.mpr h0
  simp [a, b]

theorem exp_neg_angle (β : ℝ) :
    Complex.exp (((-β : ℝ) : ℂ) * I) = (Real.cos β : ℂ) - (Real.sin β : ℂ) * I := by
  rw [Complex.exp_mul_I, ← Complex.ofReal_cos, ← Complex.ofReal_sin, Real.cos_neg, Real.sin_neg]
  push_cast; ring

/-- `cos β = -re/√p`, `sin β = im/√p` for the `β` of `_compute_matrix_angles`
(`arccos`, reflected to `2π - β` when `im < 0`). -/
theorem beta_cos_sin (re im : ℝ) (hp : 0 < re ^ 2 + im ^ 2) :
    let p := re ^ 2 + im ^ 2
    let β0 := Real.arccos (-re / Real.sqrt p)
    let β := if decide (im < 0) = true then 2 * Real.pi - β0 else β0
    Real.cos β = -re / Real.sqrt p ∧ Real.sin β = im / Real.sqrt p := by
  intro p β0 β
  have hsp : 0 < Real.sqrt p := Real.sqrt_pos.mpr hp
  have hsq : Real.sqrt p ^ 2 = p := Real.sq_sqrt hp.le
  have hq : (-re / Real.sqrt p) ^ 2 ≤ 1 := by
    rw [div_pow, div_le_one (by positivity), hsq]; nlinarith [sq_nonneg im]
  have hb : -1 ≤ -re / Real.sqrt p ∧ -re / Real.sqrt p ≤ 1 := by
    constructor <;> nlinarith [sq_nonneg (-re / Real.sqrt p + 1), sq_nonneg (-re / Real.sqrt p - 1)]
  have hc0 : Real.cos β0 = -re / Real.sqrt p := Real.cos_arccos hb.1 hb.2
  have hs0 : Real.sin β0 = |im| / Real.sqrt p := by
    show Real.sin (Real.arccos (-re / Real.sqrt p)) = _
    rw [Real.sin_arccos]
    have : 1 - (-re / Real.sqrt p) ^ 2 = (|im| / Real.sqrt p) ^ 2 := by
      rw [div_pow, div_pow, sq_abs, hsq, neg_sq, eq_div_iff hp.ne', sub_mul,
        div_mul_cancel₀ _ hp.ne']
      show 1 * (re ^ 2 + im ^ 2) - re ^ 2 = im ^ 2
      ring
    rw [this, Real.sqrt_sq (div_nonneg (abs_nonneg _) hsp.le)]
  by_cases him : im < 0
  · have : β = 2 * Real.pi - β0 := by simp [β, him]
    rw [this, Real.cos_two_pi_sub, Real.sin_two_pi_sub, hc0, hs0, abs_of_neg him]
    exact ⟨rfl, by ring⟩
  · have : β = β0 := by simp [β, him]
    rw [this, hc0, hs0, abs_of_nonneg (not_lt.mp him)]
    exact ⟨rfl, rfl⟩

/-- **CVO-QRAM rotation.**  For a complex feature `x ≠ 0` with `|x|² ≤ norm`:
the second column of `U(α,β,φ)` scaled by `√norm` is `(x, √(norm - |x|²))`, and the running norm
becomes `norm - |x|²`. -/
theorem cvo_rot (x : Amp ℝ) (hx : x.cplx = true) (norm : ℝ)
    (hp : 0 < x.re ^ 2 + x.im ^ 2) (hle : x.re ^ 2 + x.im ^ 2 ≤ norm) :
    (matU (cvoAngles x norm).1 (cvoAngles x norm).2.1 (cvoAngles x norm).2.2 : Mat2 ℂ).b
        * ((Real.sqrt norm : ℝ) : ℂ) = x.toC ∧
    (matU (cvoAngles x norm).1 (cvoAngles x norm).2.1 (cvoAngles x norm).2.2 : Mat2 ℂ).d
        * ((Real.sqrt norm : ℝ) : ℂ) = ((Real.sqrt (norm - (x.re ^ 2 + x.im ^ 2)) : ℝ) : ℂ) ∧
    normNext x norm = norm - (x.re ^ 2 + x.im ^ 2) := by
  set p := x.re ^ 2 + x.im ^ 2 with hpdef
  have hn : 0 < norm := lt_of_lt_of_le hp hle
  have hsn : 0 < Real.sqrt norm := Real.sqrt_pos.mpr hn
  have hsp : 0 < Real.sqrt p := Real.sqrt_pos.mpr hp
  have hfrac0 : 0 ≤ (norm - p) / norm := div_nonneg (by linarith) hn.le
  have hfrac1 : (norm - p) / norm ≤ 1 := by rw [div_le_one hn]; linarith
  set c := Real.sqrt ((norm - p) / norm) with hcdef
  have hc0 : 0 ≤ c := Real.sqrt_nonneg _
  have hc1 : c ≤ 1 := by
    rw [hcdef]; calc Real.sqrt ((norm - p) / norm) ≤ Real.sqrt 1 := Real.sqrt_le_sqrt hfrac1
      _ = 1 := Real.sqrt_one
  have hcsq : c ^ 2 = (norm - p) / norm := Real.sq_sqrt hfrac0
  set β0 := Real.arccos (-x.re / Real.sqrt p) with hβ0
  set β := if decide (x.im < 0) = true then 2 * Real.pi - β0 else β0 with hβ
  have hang : cvoAngles x norm = (2 * Real.arccos c, β, -β) := by
    unfold cvoAngles
    rw [if_pos hx]
    show (let phase := absSq x.re x.im
          let norm' := if decide (norm - phase < 0) = true then phase else norm
          let cosv := clampTrig (Real.sqrt ((norm' - phase) / norm'))
          let alpha := 2 * Real.arccos cosv
          let beta0 := Real.arccos (-x.re / Real.sqrt phase)
          let beta := if decide (x.im < 0) = true then 2 * Real.pi - beta0 else beta0
          (alpha, beta, -beta)) = _
    simp only [absSq_real]
    have : ¬ (norm - (x.re ^ 2 + x.im ^ 2) < 0) := not_lt.mpr (by linarith)
    simp only [this, decide_false, Bool.false_eq_true, if_false]
    rw [clampTrig_id _ (by linarith [Real.sqrt_nonneg ((norm - (x.re ^ 2 + x.im ^ 2)) / norm)]) hc1]
  have hnext : normNext x norm = norm - p := by
    unfold normNext
    rw [if_pos hx]
    show norm - absSq x.re x.im = _
    rw [absSq_real]
  obtain ⟨hcb, hsb⟩ := beta_cos_sin x.re x.im hp
  have hcb' : Real.cos β = -x.re / Real.sqrt p := hcb
  have hsb' : Real.sin β = x.im / Real.sqrt p := hsb
  have half : 2 * Real.arccos c / 2 = Real.arccos c := by ring
  have hcos : Real.cos (Real.arccos c) = c := Real.cos_arccos (by linarith) hc1
  have hsin : Real.sin (Real.arccos c) = Real.sqrt p / Real.sqrt norm := by
    rw [Real.sin_arccos]
    have : 1 - c ^ 2 = p / norm := by rw [hcsq]; field_simp; ring
    rw [this, Real.sqrt_div hp.le]
  have hcn : c * Real.sqrt norm = Real.sqrt (norm - p) := by
    rw [hcdef, Real.sqrt_div (by linarith)]; field_simp
  rw [hang]
  refine ⟨?_, ?_, hnext⟩
  · simp only [matU, ex_sq, cs_real, sn_real, half, hsin, exp_neg_angle, hcb', hsb']
    apply Complex.ext
    · simp [Amp.toC]; field_simp
    · simp [Amp.toC]; field_simp
  · have e1 : Complex.exp ((β : ℂ) * I) * Complex.exp (((-β : ℝ) : ℂ) * I) = 1 := by
      rw [← Complex.exp_add]; push_cast; simp
    simp only [matU, ex_sq, cs_real, half, hcos, e1, one_mul]
    rw [← hcn]; push_cast; ring

end Qclib.Sparse
