import QclibModel.Spec.Mcsu
import QclibModel.Proofs.McsuSlices
import QclibModel.Proofs.McsuCore
/-
  Circuit-level statement for the model of `Ldmcsu.linear_depth_mcv`: the gate list the model
  emits, interpreted with the ideal MCX for the two `McxVchainDirty` constructors (hypothesis
  `IdealMv`, which is what C05_vchain provides), denotes the ideal multi-controlled gate.
-/
namespace Qclib.Mcsu

variable {K R : Type} [CommRing R]

/-- **Hypothesis about the dirty-ancilla V-chain** (to be discharged by `C05_vchain`): on
pairwise different wires — `cw` controls, `anc` borrowed qubits (`|anc| = |cw| - 2`), target `t` —
`McxVchainDirty(|cw|, ctrl_state = cs).definition` and its inverse denote the ideal X on `t`
controlled on "control `cw[i]` reads `cs[::-1][i]`", on every state (borrowed qubits restored). -/
def IdealMv (M : McxSem R) : Prop :=
  ∀ (cw anc : List Nat) (t : Nat) (cs : Option (List Bool)) (inv : Bool) (ψ : State R),
    (cw ++ anc ++ [t]).Nodup → anc.length = cw.length - 2 → 1 ≤ cw.length →
    M.mv cw.length 1 (cw ++ anc ++ [t]) cs false inv ψ
      = applyMcu (litsOf cw (cs.getD []).reverse) Mat2.X t ψ

theorem litsOf_wires (cw : List Nat) (r : List Bool) : ∀ cv ∈ litsOf cw r, cv.1 ∈ cw := by
  induction cw generalizing r with
  | nil => intro cv h; simp [litsOf] at h
  | cons c cw ih =>
    intro cv h
    cases r with
    | nil =>
      simp only [litsOf, List.mem_cons] at h
      rcases h with rfl | h
      · simp
      · exact List.mem_cons_of_mem _ (ih [] cv h)
    | cons v r =>
      simp only [litsOf, List.mem_cons] at h
      rcases h with rfl | h
      · simp
      · exact List.mem_cons_of_mem _ (ih r cv h)

theorem litsOf_avoids (cw : List Nat) (r : List Bool) (t : Nat) (ht : t ∉ cw) :
    Avoids (litsOf cw r) t := by
  intro cv hcv e
  exact ht (e ▸ litsOf_wires cw r cv hcv)

theorem map_getD_csK1 (cs : Option (List Bool)) (k : Nat) :
    (cs.map (csK1 · k)).getD [] = csK1 (cs.getD []) k := by
  cases cs <;> simp [csK1]
theorem map_getD_csK2 (cs : Option (List Bool)) (k : Nat) :
    (cs.map (csK2 · k)).getD [] = csK2 (cs.getD []) k := by
  cases cs <;> simp [csK2]

/-- The first-half MCX of the model under the hypothesis. -/
theorem mcxHalf1_sem (ι : CMat K → Mat2 R) (rh : R) (M : McxSem R) (hM : IdealMv M)
    (cw : List Nat) (t : Nat) (cs : Option (List Bool)) (hk : 2 ≤ cw.length)
    (hn : (cw ++ [t]).Nodup) (ψ : State R) :
    denoteSG ι rh M (mcxHalf1 cw [t] cs) ψ
      = applyMcu (litsOf (ctl1 cw) (csK1 (cs.getD []) cw.length).reverse) Mat2.X t ψ := by
  have h := hM (ctl1 cw) (anc1 cw) t (cs.map (csK1 · cw.length)) false ψ
    (by rw [← wires1_parts]; exact wires1_nodup cw [t] hn)
    (by rw [anc1_length cw hk, ctl1_length cw (by omega)])
    (by rw [ctl1_length cw (by omega)]; unfold k1; omega)
  rw [ctl1_length cw (by omega), map_getD_csK1] at h
  simpa [denoteSG, mcxHalf1, wires1_parts] using h

/-- The second-half MCX of the model (and its `.inverse()`) under the hypothesis. -/
theorem mcxHalf2_sem (ι : CMat K → Mat2 R) (rh : R) (M : McxSem R) (hM : IdealMv M)
    (cw : List Nat) (t : Nat) (cs : Option (List Bool)) (inv : Bool) (hk : 2 ≤ cw.length)
    (hn : (cw ++ [t]).Nodup) (ψ : State R) :
    denoteSG ι rh M (mcxHalf2 cw [t] cs false inv) ψ
      = applyMcu (litsOf (ctl2 cw) (csK2 (cs.getD []) cw.length).reverse) Mat2.X t ψ := by
  have h := hM (ctl2 cw) (anc2 cw) t (cs.map (csK2 · cw.length)) inv ψ
    (by rw [← wires2_parts]; exact wires2_nodup cw [t] hn)
    (by rw [anc2_length cw hk, ctl2_length cw])
    (by rw [ctl2_length cw]; unfold k2; omega)
  rw [ctl2_length cw, map_getD_csK2] at h
  simpa [denoteSG, mcxHalf2, wires2_parts] using h

/-- **`linear_depth_mcv` (model) denotes the ideal multi-controlled gate.**  For `k ≥ 2` controls
on pairwise different wires, a target outside them, any pattern: if the model emits a gate list
(i.e. qiskit's `UnitaryGate` accepted `op_a`), then under `IdealMv` the list denotes
"`(A' X A X)²` on the target iff the controls read the pattern" on every state, where `A`, `A'`
are the images of `op_a` and its conjugate transpose (assumed mutually inverse — proved for the
real instance in `C04_gate_a`). -/
theorem linearDepthMcv_sem (o : ROps K) (ι : CMat K → Mat2 R) (rh : R) (M : McxSem R)
    (hM : IdealMv M) (u : CMat K) (cw : List Nat) (t : Nat) (cs : Option (List Bool))
    (gs : List (SG K)) (hk : 2 ≤ cw.length) (hn : (cw ++ [t]).Nodup)
    (hg : linearDepthMcv o u cw t cs false = some gs)
    (hA : ι (computeGateA o (getXZ o u).1 (getXZ o u).2)
        * ι (adj o (computeGateA o (getXZ o u).1 (getXZ o u).2)) = 1)
    (hA' : ι (adj o (computeGateA o (getXZ o u).1 (getXZ o u).2))
        * ι (computeGateA o (getXZ o u).1 (getXZ o u).2) = 1)
    (ψ : State R) :
    semSG ι rh M gs ψ
      = applyMcu (litsOf cw (cs.getD []).reverse)
          (coreW (ι (computeGateA o (getXZ o u).1 (getXZ o u).2))
            (ι (adj o (computeGateA o (getXZ o u).1 (getXZ o u).2)))) t ψ := by
  have htc : t ∉ cw := by
    intro h
    have := List.nodup_append.mp hn
    exact this.2.2 t h t (by simp) rfl
  set opA := computeGateA o (getXZ o u).1 (getXZ o u).2 with hopA
  unfold linearDepthMcv at hg
  simp only [← hopA, unGate] at hg
  by_cases h1 : unitaryOk o opA = true <;> by_cases h2 : unitaryOk o (adj o opA) = true <;>
    simp [h1, h2] at hg
  subst hg
  have e1 := fun φ => mcxHalf1_sem ι rh M hM cw t cs hk hn φ
  have e2 := fun inv φ => mcxHalf2_sem ι rh M hM cw t cs inv hk hn φ
  simp only [semSG, List.foldl_cons, List.foldl_nil, e1, e2]
  simp only [denoteSG]
  have hc := core_seq (litsOf (ctl1 cw) (csK1 (cs.getD []) cw.length).reverse)
    (litsOf (ctl2 cw) (csK2 (cs.getD []) cw.length).reverse) t (ι opA) (ι (adj o opA)) hA hA'
    (litsOf_avoids _ _ t (fun h => htc (List.mem_of_mem_take h)))
    (litsOf_avoids _ _ t (fun h => htc (List.mem_of_mem_drop h))) ψ
  rw [pattern_split] at hc
  exact hc

end Qclib.Mcsu
