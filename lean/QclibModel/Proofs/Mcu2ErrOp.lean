import QclibModel.Proofs.Mcu2ErrSweep
/-
  C04, part B — the approximate gate `MCU`, part 4: the operator identity.

  For `1 ≤ bn ≤ k` base controls (`e = k - bn` extra controls) the definition of
  `MCU(U, k, error, ctrl_state)` denotes, on every state,

      C^k(U)  ∘  C^{wires 0 … e}(U^(-1/2^(bn-1)))        (both with the pattern of `ctrl_state`),

  i.e. the exact multi-controlled `U` times a correction that applies the inverse of the omitted
  root to the target whenever the `e + 1` lowest controls match the pattern (`mcu_sem_pos`).
  For a negative count the four sweeps are empty and the definition is the identity
  (`mcu_sem_neg`); without controls it is `U` itself (`mcu_sem_zero`).
-/
namespace Qclib.Mcu2

variable {R : Type} [CommRing R]

/-- The four sweeps of `MCU._define`. -/
def mcuLadder {Θ : Type} (k : Nat) (b : Int) : List (LG Θ) :=
  mcuC1c2 (k + 1) b true true ++ mcuC1c2 (k + 1) b true false
    ++ mcuC1c2 k b false true ++ mcuC1c2 k b false false

theorem foldl_stepG_some (x : Nat → Bool) (w : Nat × Nat → ℚ) (L : List (Nat × Nat))
    (s : Option Acc) (a' : Acc) (h : L.foldl (stepG x w) s = some a') : ∃ a, s = some a := by
  cases s with
  | none => rw [foldl_stepG_none] at h; exact absurd h (by simp)
  | some a => exact ⟨a, rfl⟩

theorem allBelow_merge (e bn : Nat) (hbn : 1 ≤ bn) (x : Nat → Bool) :
    allBelow (vb e (xMerge e x)) bn = allBelow x (e + bn) := by
  have h0 : vb e (xMerge e x) 0 = allBelow x (e + 1) := by
    simp [vb, xMerge]
  have hj : ∀ j, 1 ≤ j → vb e (xMerge e x) j = x (j + e) := by
    intro j hj
    simp only [vb, xMerge]
    exact Function.update_of_ne (by omega) _ _
  rw [Bool.eq_iff_iff, allBelow_iff, allBelow_iff]
  constructor
  · intro h i hi
    by_cases hie : i ≤ e
    · have := h 0 (by omega)
      rw [h0, allBelow_iff] at this
      exact this i (by omega)
    · have := h (i - e) (by omega)
      rw [hj _ (by omega)] at this
      have e1 : i - e + e = i := by omega
      rw [e1] at this
      exact this
  · intro h j hj'
    by_cases h0' : j = 0
    · subst h0'
      rw [h0, allBelow_iff]
      intro i hi
      exact h i (by omega)
    · rw [hj j (by omega)]
      exact h _ (by omega)

section ladder
variable {Θ : Type} [RotSem Θ R] {Ur Rx : ℚ → Mat2 R}

theorem mcuC1c2_outN (k bn : Nat) (hbn : 1 ≤ bn) (hk : bn ≤ k) (first fwd : Bool) :
    (mcuC1c2 (if first then k + 1 else k) (bn : Int) first fwd : List (LG Θ))
      = outN (nbOf bn first) (k - bn) first fwd := by
  rw [mcuC1c2_eq, outN]
  have h1 : (if first then (bn : Int) + 1 else (bn : Int)).toNat = nbOf bn first := by
    cases first <;> simp only [nbOf, Bool.false_eq_true, if_false, if_true] <;> omega
  have h2 : (((if first then k + 1 else k : Nat) : Int)
      - (if first then (bn : Int) + 1 else (bn : Int))).toNat = k - bn := by
    cases first <;> simp only [Bool.false_eq_true, if_false, if_true] <;> omega
  rw [h1, h2]

/-- The fold of one sweep. -/
def sweepOp (e bn k : Nat) (Ur Rx : ℚ → Mat2 R) (first fwd : Bool) (ψ : State R) : State R :=
  (LM e bn first fwd).foldl (fun s pr => opM e k Ur Rx (wS e first fwd pr) pr s) ψ

theorem sweepOp_sadd (e bn k : Nat) (first fwd : Bool) (ψ φ : State R) :
    sweepOp e bn k Ur Rx first fwd (sadd ψ φ)
      = sadd (sweepOp e bn k Ur Rx first fwd ψ) (sweepOp e bn k Ur Rx first fwd φ) :=
  foldl_sadd (fun pr s => opM e k Ur Rx (wS e first fwd pr) pr s)
    (fun _ ψ φ => applyMcu_sadd _ _ _ ψ φ) _ ψ φ

/-- The four sweeps as folds of `opM`. -/
theorem mcuLadder_sem (k bn : Nat) (hbn : 1 ≤ bn) (hk : bn ≤ k) (ψ : State R) :
    semM Ur Rx (mcuLadder k (bn : Int) : List (LG Θ)) ψ
      = sweepOp (k - bn) bn k Ur Rx false false (sweepOp (k - bn) bn k Ur Rx false true
          (sweepOp (k - bn) bn k Ur Rx true false (sweepOp (k - bn) bn k Ur Rx true true ψ))) := by
  have hke : k = k - bn + bn := by omega
  have e1 := mcuC1c2_outN (Θ := Θ) k bn hbn hk true true
  have e2 := mcuC1c2_outN (Θ := Θ) k bn hbn hk true false
  have e3 := mcuC1c2_outN (Θ := Θ) k bn hbn hk false true
  have e4 := mcuC1c2_outN (Θ := Θ) k bn hbn hk false false
  simp only [if_true, Bool.false_eq_true, if_false] at e1 e2 e3 e4
  unfold mcuLadder sweepOp
  rw [semM_append, semM_append, semM_append, e1, e2, e3, e4,
    sweepM_sem Ur Rx (k - bn) bn k hke, sweepM_sem Ur Rx (k - bn) bn k hke,
    sweepM_sem Ur Rx (k - bn) bn k hke, sweepM_sem Ur Rx (k - bn) bn k hke]

variable (hU : OneParam Ur) (hR : OneParam Rx) (hH : HalfTurn Rx)
include hU hR hH

theorem sweepOp_sim (e bn k : Nat) (hk : k = e + bn) (x : Nat → Bool) (ψ : State R)
    (hs : CtrlBasis k x ψ) (first fwd : Bool) (a a' : Acc) (ha : ∀ q, q ≤ e → a q = 0)
    (h : (LM e bn first fwd).foldl (stepG (xMerge e x) (wS e first fwd)) (some a) = some a') :
    sweepOp e bn k Ur Rx first fwd (rot (matOf k Ur Rx a) (wiresOf k) ψ)
        = rot (matOf k Ur Rx a') (wiresOf k) ψ
      ∧ ∀ q, q ≤ e → a' q = 0 := by
  refine simM_list hU hR hH e k x ψ hs (wS e first fwd) (LM e bn first fwd) ?_ a a' ha h
  intro pr hpr
  obtain ⟨c, t, rfl, hb⟩ := LM_mem hpr
  simp only
  cases first
  · simp only [nbOf, Bool.false_eq_true, if_false] at hb; omega
  · simp only [nbOf, if_true] at hb; omega

/-- **The truncated ladder on a basis input of the controls.** -/
theorem ladderM_basis (k bn : Nat) (hbn : 1 ≤ bn) (hk : bn ≤ k) (x : Nat → Bool) (ψ : State R)
    (hs : CtrlBasis k x ψ) :
    semM Ur Rx (mcuLadder k (bn : Int) : List (LG Θ)) ψ
      = g1 (Ur (finAccM bn (vb (k - bn) (xMerge (k - bn) x)) bn)) k ψ := by
  have hke : k = k - bn + bn := by omega
  set e := k - bn with he
  have h12 := runM12 e bn hbn (xMerge e x) _ _ (LM_perm e bn true true) (LM_dep_fwd e bn true)
    (LM_perm e bn true false) (LM_dep_bwd e bn true)
  have h34 := runM34 e bn hbn (xMerge e x) _ _ (LM_perm e bn false true) (LM_dep_fwd e bn false)
    (LM_perm e bn false false) (LM_dep_bwd e bn false)
  obtain ⟨a1, ha1⟩ := foldl_stepG_some _ _ _ _ _ h12
  obtain ⟨a3, ha3⟩ := foldl_stepG_some _ _ _ _ _ h34
  rw [ha1] at h12
  rw [ha3] at h34
  have hstart : rot (matOf k Ur Rx (fun _ => 0)) (wiresOf k) ψ = ψ := by
    apply rot_one
    intro q _
    simp only [matOf]
    split
    · exact hU.zero
    · exact hR.zero
  have hend : rot (matOf k Ur Rx (accOf e (finAccM bn (vb e (xMerge e x))))) (wiresOf k) ψ
      = g1 (Ur (finAccM bn (vb e (xMerge e x)) bn)) k ψ := by
    rw [rot_pull _ (wiresOf k) (List.mem_range.mpr (by omega : k < k + 1))]
    have hk' : matOf k Ur Rx (accOf e (finAccM bn (vb e (xMerge e x)))) k
        = Ur (finAccM bn (vb e (xMerge e x)) bn) := by
      have : k - e = bn := by omega
      simp only [matOf, if_true, accOf, if_pos (by omega : e ≤ k), this]
    rw [hk', rot_one]
    intro q hq
    have hqk : q ≠ k := fun e' => by
      subst e'
      exact (List.Nodup.not_mem_erase List.nodup_range) hq
    have hz : accOf e (finAccM bn (vb e (xMerge e x))) q = 0 := by
      simp only [accOf, finAccM]
      split
      · rw [if_neg (by omega)]
      · rfl
    simp only [matOf, hqk, if_false, hz]
    exact hR.zero
  obtain ⟨s1, z1⟩ := sweepOp_sim hU hR hH e bn k hke x ψ hs true true _ a1 (fun _ _ => rfl) ha1
  obtain ⟨s2, z2⟩ := sweepOp_sim hU hR hH e bn k hke x ψ hs true false a1 _ z1 h12
  obtain ⟨s3, z3⟩ := sweepOp_sim hU hR hH e bn k hke x ψ hs false true _ a3 z2 ha3
  obtain ⟨s4, _⟩ := sweepOp_sim hU hR hH e bn k hke x ψ hs false false a3 _ z3 h34
  rw [mcuLadder_sem k bn hbn hk]
  conv_lhs => rw [← hstart]
  rw [s1, s2, s3, s4, hend]

omit hR hH in
/-- The ideal gate times the correction, on a basis input of the controls. -/
theorem ideal_basis (k bn : Nat) (hbn : 1 ≤ bn) (hk : bn ≤ k) (x : Nat → Bool) (ψ : State R)
    (hs : CtrlBasis k x ψ) :
    applyMcu (onesLits k) (Ur 1) k
        (applyMcu (onesLits (k - bn + 1)) (Ur (-(1 / 2 ^ (bn - 1)))) k ψ)
      = g1 (Ur (finAccM bn (vb (k - bn) (xMerge (k - bn) x)) bn)) k ψ := by
  set e := k - bn with he
  have hke : e + bn = k := by omega
  rw [mc_on_supp (e + 1) k (by omega) x ψ (fun c hc => hs c (by omega))]
  have h0 : vb e (xMerge e x) 0 = allBelow x (e + 1) := by simp [vb, xMerge]
  have hand : andQ (vb e (xMerge e x)) bn = andQ x k := by
    unfold andQ
    rw [allBelow_merge e bn hbn x, hke]
  simp only [finAccM, if_true, h0, hand]
  by_cases hlow : allBelow x (e + 1) = true
  · rw [if_pos hlow, hlow]
    have hs' : CtrlBasis k x (g1 (Ur (-(1 / 2 ^ (bn - 1)))) k ψ) :=
      fun c hc => supp_g1 (hs c hc) _ (by omega)
    rw [mc_on_supp k k (le_refl k) x _ hs', g1_comp, ← hU.add]
    unfold andQ
    cases allBelow x k
    · simp only [Bool.false_eq_true, if_false, ind, if_true]
      congr 2
      ring
    · simp only [if_true, ind]
      congr 2
      ring
  · rw [if_neg hlow]
    have hlow' : allBelow x (e + 1) = false := by simpa using hlow
    have hall : allBelow x k = false := by
      rw [Bool.eq_false_iff]
      intro h
      apply hlow
      rw [allBelow_iff] at h ⊢
      intro i hi
      exact h i (by omega)
    rw [mc_on_supp k k (le_refl k) x ψ hs, hall, hlow']
    simp only [Bool.false_eq_true, if_false, andQ, hall, ind, zero_div, sub_zero, hU.zero, g1_one]

/-- **The four sweeps of `MCU` on every state**: the multi-controlled `U` times the correction
`U^(-1/2^(bn-1))` controlled by the wires `0 … k - bn` (controls all ones). -/
theorem ladderM_all (k bn : Nat) (hbn : 1 ≤ bn) (hk : bn ≤ k) (ψ : State R) :
    semM Ur Rx (mcuLadder k (bn : Int) : List (LG Θ)) ψ
      = applyMcu (onesLits k) (Ur 1) k
          (applyMcu (onesLits (k - bn + 1)) (Ur (-(1 / 2 ^ (bn - 1)))) k ψ) := by
  have hT1 : ∀ ψ : State R, semM Ur Rx (mcuLadder k (bn : Int) : List (LG Θ)) ψ
      = sweepOp (k - bn) bn k Ur Rx false false (sweepOp (k - bn) bn k Ur Rx false true
          (sweepOp (k - bn) bn k Ur Rx true false (sweepOp (k - bn) bn k Ur Rx true true ψ))) :=
    mcuLadder_sem k bn hbn hk
  refine ext_of_basis k (fun ψ => semM Ur Rx (mcuLadder k (bn : Int) : List (LG Θ)) ψ)
    (fun ψ => applyMcu (onesLits k) (Ur 1) k
      (applyMcu (onesLits (k - bn + 1)) (Ur (-(1 / 2 ^ (bn - 1)))) k ψ)) ?_ ?_ ?_ ψ
  · intro ψ φ
    simp only [hT1, sweepOp_sadd]
  · intro ψ φ
    simp only [applyMcu_sadd]
  · intro x ψ hs
    rw [ladderM_basis hU hR hH k bn hbn hk x ψ hs, ideal_basis hU k bn hbn hk x ψ hs]

end ladder

/-! ### The `ctrl_state` layers -/

/-- Conjugation of an operator by the X layer on the wires `F`. -/
def conjX (F : List Nat) (T : State R → State R) (ψ : State R) : State R :=
  fun b => T (fun b' => ψ (flipAll F b')) (flipAll F b)

omit [CommRing R] in
theorem conjX_comp (F : List Nat) (T1 T2 : State R → State R) (ψ : State R) :
    conjX F (fun φ => T1 (T2 φ)) ψ = conjX F T1 (conjX F T2 ψ) := by
  funext b
  simp only [conjX, flipAll_invol]

theorem onesLits_eq (m : Nat) : onesLits m = patLits m (fun i => i) none := rfl

/-- The X layers turn "wires `0 … m-1` all ones" into "wires `0 … m-1` read the pattern". -/
theorem conjX_mcu (k m : Nat) (hm : m ≤ k) (cs : Option (List Bool))
    (hlt : ∀ i, csBit cs i = false → i < k) (M : Mat2 R) (ψ : State R) :
    conjX (csFlips (fun i => i) cs) (applyMcu (onesLits m) M k) ψ
      = applyMcu (patLits m (fun i => i) cs) M k ψ := by
  have hid : ∀ i j, i < k → j < k → (fun i : Nat => i) i = (fun i : Nat => i) j → i = j :=
    fun i j _ _ e => e
  have hnd := csFlips_nodup k (fun i => i) cs hlt hid
  have hkl : k ∉ csFlips (fun i => i) cs := by
    rw [csFlips_mem k (fun i => i) cs k hlt]
    rintro ⟨i, hi, _, e⟩
    have : i = k := e
    omega
  funext b
  have hc : ctrlOk (onesLits m) (flipAll (csFlips (fun i => i) cs) b)
      = ctrlOk (patLits m (fun i => i) cs) b := by
    have e1 := all1_fl k (fun i => i) cs hlt hid b m hm
    have e2 : ∀ b' : Bits, all1 (fun i => i) m b' = ctrlOk (patLits m (fun i => i) none) b' := by
      intro b'
      have := all1_fl k (fun i => i) none (fun i hi => by simp [csBit] at hi) hid b' m hm
      simpa only [csFlips, flipAll_nil] using this
    rw [onesLits_eq, ← e2]
    exact e1
  have hbk : (flipAll (csFlips (fun i => i) cs) b) k = b k := flipAll_get_not_mem _ _ _ hkl
  have hset : ∀ w, flipAll (csFlips (fun i => i) cs)
      (setBit (flipAll (csFlips (fun i => i) cs) b) k w) = setBit b k w := by
    intro w
    funext q
    rw [flipAll_get _ hnd]
    by_cases hq : q = k
    · subst hq
      simp [hkl, setBit_eq]
    · rw [setBit_ne _ w hq, setBit_ne _ w hq, flipAll_get _ hnd]
      by_cases hm' : q ∈ csFlips (fun i => i) cs <;> simp [hm']
  simp only [conjX, applyMcu, hc, hbk, hset, flipAll_invol]

section full
variable {Θ : Type} [RotSem Θ R] {Ur Rx : ℚ → Mat2 R}

theorem semM_xs (l : List Nat) (ψ : State R) :
    semM Ur Rx (l.map (fun w => (LG.x w : LG Θ))) ψ = fun b => ψ (flipAll l b) := by
  rw [semM_eq_semLG, semLG_xs]
  intro g hg a b c
  rw [List.mem_map] at hg
  obtain ⟨w, _, rfl⟩ := hg
  exact fun h => by cases h

/-- What `mcu k b cs = some gs` says for `k ≥ 1`. -/
theorem mcu_some (k : Nat) (hk : 1 ≤ k) (b : Int) (cs : Option (List Bool)) (gs : List (LG Θ))
    (h : mcu k b cs = some gs) :
    b ≠ 0 ∧ b ≤ (k : Int) ∧ (∀ i, csBit cs i = false → i < k) ∧
      gs = (csFlips (fun i => i) cs).map (fun w => (LG.x w : LG Θ)) ++ mcuLadder k b
        ++ (csFlips (fun i => i) cs).map (fun w => (LG.x w : LG Θ)) := by
  unfold mcu at h
  have hk0 : ¬ k = 0 := by omega
  by_cases hacc : mcuAccept k b = true
  · simp only [hacc, Bool.not_true, Bool.false_eq_true, if_false, if_neg hk0] at h
    split at h
    · exact absurd h (by simp)
    · rename_i xs hxs
      simp only [Option.some.injEq] at h
      obtain ⟨rfl, hlt⟩ := ctrlXsL_eq k cs xs hxs
      simp only [mcuAccept, Bool.and_eq_true, Bool.not_eq_true', beq_eq_false_iff_ne, ne_eq,
        decide_eq_false_iff_not, not_lt] at hacc
      refine ⟨hacc.1, hacc.2, hlt, ?_⟩
      rw [← h]
      simp only [mcuLadder, List.append_assoc]
  · simp [hacc] at h

variable (hU : OneParam Ur) (hR : OneParam Rx) (hH : HalfTurn Rx)
include hU hR hH

/-- **`MCU(U, k, error, ctrl_state).definition` with `1 ≤ b ≤ k` base controls**, on every state:
the multi-controlled `U` (pattern `ctrl_state`) composed with `U^(-1/2^(b-1))` on the target
controlled by the `k - b + 1` lowest controls (same pattern). -/
theorem mcu_sem_pos (k bn : Nat) (hbn : 1 ≤ bn) (cs : Option (List Bool)) (gs : List (LG Θ))
    (h : mcu k (bn : Int) cs = some gs) (ψ : State R) :
    semM Ur Rx gs ψ
      = applyMcu (patLits k (fun i => i) cs) (Ur 1) k
          (applyMcu (patLits (k - bn + 1) (fun i => i) cs) (Ur (-(1 / 2 ^ (bn - 1)))) k ψ) := by
  have hk1 : 1 ≤ k := by
    by_contra hk
    have : k = 0 := by omega
    subst this
    simp [mcu, mcuAccept] at h
  obtain ⟨_, hle, hlt, rfl⟩ := mcu_some k hk1 _ cs gs h
  have hk : bn ≤ k := by omega
  rw [semM_append, semM_append, semM_xs, semM_xs, ladderM_all hU hR hH k bn hbn hk]
  have := conjX_comp (csFlips (fun i => i) cs) (applyMcu (onesLits k) (Ur 1) k)
    (applyMcu (onesLits (k - bn + 1)) (Ur (-(1 / 2 ^ (bn - 1)))) k) ψ
  rw [conjX_mcu k k (le_refl k) cs hlt, conjX_mcu k (k - bn + 1) (by omega) cs hlt] at this
  rw [← this]
  rfl

omit hU hR hH in
/-- With a negative count every `range` of `_c1c2` is empty: the definition is the identity. -/
theorem mcu_sem_neg (k : Nat) (hk : 1 ≤ k) (b : Int) (hb : b < 0) (cs : Option (List Bool))
    (gs : List (LG Θ)) (h : mcu k b cs = some gs) (ψ : State R) :
    semM Ur Rx gs ψ = ψ := by
  obtain ⟨_, _, _, rfl⟩ := mcu_some k hk b cs gs h
  have hnil : ∀ (nq : Nat) (first fwd : Bool), (mcuC1c2 nq b first fwd : List (LG Θ)) = [] := by
    intro nq first fwd
    rw [mcuC1c2_eq]
    have h0 : (if first then b + 1 else b).toNat = 0 := by
      cases first <;> simp only [Bool.false_eq_true, if_false, if_true] <;> omega
    rw [h0]
    have : qubitPairs 0 fwd = [] := by
      cases fwd <;> simp [qubitPairs, sortPairs, rawPairs]
    rw [this]
    rfl
  simp only [mcuLadder, hnil, List.append_nil]
  rw [semM_append, semM_xs, semM_xs]
  funext b'
  simp only [flipAll_invol]

omit hU hR hH in
/-- Without controls the definition is `unitary(U)` on the target. -/
theorem mcu_sem_zero (b : Int) (cs : Option (List Bool)) (gs : List (LG Θ))
    (h : mcu 0 b cs = some gs) (ψ : State R) :
    semM Ur Rx gs ψ = applyMcu [] (Ur 1) 0 ψ := by
  unfold mcu at h
  split at h
  · exact absurd h (by simp)
  · simp only [if_true, Option.some.injEq] at h
    subst h
    show applyMcu [] (Ur (qw 1 1)) 0 ψ = _
    have : qw 1 1 = 1 := by simp [qw]
    rw [this]

end full
end Qclib.Mcu2
