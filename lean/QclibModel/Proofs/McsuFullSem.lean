import QclibModel.Spec.Mcsu
import QclibModel.Proofs.SemLemmas
/-
  C04 (part A), unconditional circuit statements — common semantics of the *expanded* skeleton.

  The skeleton `List (SG K)` of Model/Mcsu.lean keeps the dirty-ancilla MCX sub-circuits as one
  constructor each.  The driver (Drivers/C04.lean, `sgLines` / `outSG`) expands them to primitive
  gates through the C05 model (`expandMcxv`, `expandLmcx`, and `invCirc` for `.inverse()`) before
  printing, and the tie compares those lines with the flattened real circuit.  Here the same
  expansion is done on gates instead of on text:

  * `MG K Θ` — the mixed alphabet: opaque one-qubit `unitary` gates, the one-control controlled
    unitary, and the primitive gates `G Θ` of the C05 alphabet;
  * `expandSG`, `expandAll` — the expansion (gate for gate what `sgLines` / `outSG` print);
  * `denoteMG`, `semMG` — its denotation: `applyMcu` for the opaque gates, `denote` of
    Sem/Denote.lean for the primitives;
  * `expMcx` — the interpretation of the two MCX constructors *by their expansion*; with it the
    skeleton semantics `semSG` equals the semantics of the expanded list (`expandAll_sem`).
-/
namespace Qclib.Mcsu
open RotSem

/-- Mixed alphabet of the expanded skeleton. -/
inductive MG (K Θ : Type) where
  | un (m : CMat K) (q : Nat)
  | cun (m : CMat K) (c t : Nat) (v : Bool)
  | prim (g : G Θ)

variable {K Θ : Type}

/-- One gate of `invCirc`. -/
def invG (neg : Θ → Θ) (g : G Θ) : G Θ :=
  match g with
  | .u θ φ l q => .u (neg θ) (neg l) (neg φ) q
  | g => g

theorem invCirc_eq (neg : Θ → Θ) (c : Circ Θ) : invCirc neg c = c.reverse.map (invG neg) := by
  unfold invCirc
  apply List.map_congr_left
  intro g _
  cases g <;> rfl

/-- What the driver prints for one skeleton gate (`sgLines`), as gates. -/
def expandSG (a : McxAngles Θ) (neg : Θ → Θ) : SG K → Option (List (MG K Θ))
  | .x q => some [.prim (.x q)]
  | .h q => some [.prim (.h q)]
  | .cx c t => some [.prim (.cx c t)]
  | .ccx p q t => some [.prim (.ccx p q t)]
  | .un m q => some [.un m q]
  | .cun m c t v => some [.cun m c t v]
  | .mcxv k nt ws cs ao inv =>
    (expandMcxv a k nt ws cs ao).map (fun c => (if inv then invCirc neg c else c).map MG.prim)
  | .lmcx k ws ao inv =>
    (expandLmcx a k ws ao).map (fun c => (if inv then invCirc neg c else c).map MG.prim)

/-- The whole expanded gate list (`outSG`): `none` where the driver prints `REJECT`. -/
def expandAll (a : McxAngles Θ) (neg : Θ → Θ) (gs : List (SG K)) : Option (List (MG K Θ)) :=
  (allSome (gs.map (expandSG a neg))).map List.flatten

section sem
variable {R : Type} [Add R] [Mul R] [Neg R] [Zero R] [One R] [RotSem Θ R]

/-- Denotation of one gate of the mixed alphabet. -/
def denoteMG (ι : CMat K → Mat2 R) : MG K Θ → State R → State R
  | .un m q => applyMcu [] (ι m) q
  | .cun m c t v => applyMcu [(c, v)] (ι m) t
  | .prim g => denote g

/-- Gates are applied in list order. -/
def semMG (ι : CMat K → Mat2 R) (ms : List (MG K Θ)) (ψ : State R) : State R :=
  ms.foldl (fun s g => denoteMG ι g s) ψ

/-- The two MCX constructors interpreted by their expansion (identity where the expansion is
undefined — never used by the theorems, which assume the expansion exists). -/
def expMcx (a : McxAngles Θ) (neg : Θ → Θ) : McxSem R where
  mv k nt ws cs ao inv ψ :=
    match expandMcxv a k nt ws cs ao with
    | some c => sem (if inv then invCirc neg c else c) ψ
    | none => ψ
  lm k ws ao inv ψ :=
    match expandLmcx a k ws ao with
    | some c => sem (if inv then invCirc neg c else c) ψ
    | none => ψ

theorem semMG_append (ι : CMat K → Mat2 R) (m1 m2 : List (MG K Θ)) (ψ : State R) :
    semMG ι (m1 ++ m2) ψ = semMG ι m2 (semMG ι m1 ψ) := by
  simp [semMG, List.foldl_append]

theorem semMG_prim (ι : CMat K → Mat2 R) (c : Circ Θ) (ψ : State R) :
    semMG ι (c.map MG.prim) ψ = sem c ψ := by
  induction c generalizing ψ with
  | nil => rfl
  | cons g c ih =>
    show semMG ι (c.map MG.prim) (denote g ψ) = sem c (denote g ψ)
    exact ih _

theorem expandSG_sem (a : McxAngles Θ) (neg : Θ → Θ) (ι : CMat K → Mat2 R) (g : SG K)
    (m : List (MG K Θ)) (h : expandSG a neg g = some m) (ψ : State R) :
    semMG ι m ψ = denoteSG ι (rh Θ) (expMcx a neg) g ψ := by
  cases g with
  | x q => simp only [expandSG, Option.some.injEq] at h; subst h; rfl
  | h q => simp only [expandSG, Option.some.injEq] at h; subst h; rfl
  | cx c t => simp only [expandSG, Option.some.injEq] at h; subst h; rfl
  | ccx p q t => simp only [expandSG, Option.some.injEq] at h; subst h; rfl
  | un m' q => simp only [expandSG, Option.some.injEq] at h; subst h; rfl
  | cun m' c t v => simp only [expandSG, Option.some.injEq] at h; subst h; rfl
  | mcxv k nt ws cs ao inv =>
    simp only [expandSG, Option.map_eq_some_iff] at h
    obtain ⟨c, hc, rfl⟩ := h
    simp only [denoteSG, expMcx, hc, semMG_prim]
  | lmcx k ws ao inv =>
    simp only [expandSG, Option.map_eq_some_iff] at h
    obtain ⟨c, hc, rfl⟩ := h
    simp only [denoteSG, expMcx, hc, semMG_prim]

theorem allSome_cons_some {α : Type} (x : Option α) (r : List (Option α)) (l : List α)
    (h : allSome (x :: r) = some l) : ∃ y l', x = some y ∧ allSome r = some l' ∧ l = y :: l' := by
  cases x with
  | none => simp [allSome] at h
  | some y =>
    simp only [allSome, Option.map_eq_some_iff] at h
    obtain ⟨l', h1, h2⟩ := h
    exact ⟨y, l', rfl, h1, h2.symm⟩

/-- **The expanded list denotes what the skeleton denotes when its MCX constructors are read as
their expansions.** -/
theorem expandAll_sem (a : McxAngles Θ) (neg : Θ → Θ) (ι : CMat K → Mat2 R) (gs : List (SG K))
    (ms : List (MG K Θ)) (h : expandAll a neg gs = some ms) (ψ : State R) :
    semMG ι ms ψ = semSG ι (rh Θ) (expMcx a neg) gs ψ := by
  induction gs generalizing ms ψ with
  | nil =>
    simp only [expandAll, List.map_nil, allSome, Option.map_some, Option.some.injEq] at h
    subst h; rfl
  | cons g gs ih =>
    simp only [expandAll, List.map_cons, Option.map_eq_some_iff] at h
    obtain ⟨l, hl, rfl⟩ := h
    obtain ⟨y, l', hy, hl', rfl⟩ := allSome_cons_some _ _ _ hl
    rw [List.flatten_cons, semMG_append, expandSG_sem a neg ι g y hy]
    exact ih l'.flatten (by simp only [expandAll, hl', Option.map_some]) _

/-- Every gate of a list whose expansion exists has an expansion. -/
theorem expandAll_mem (a : McxAngles Θ) (neg : Θ → Θ) (gs : List (SG K)) (ms : List (MG K Θ))
    (h : expandAll a neg gs = some ms) (g : SG K) (hg : g ∈ gs) :
    ∃ m, expandSG a neg g = some m := by
  induction gs generalizing ms with
  | nil => simp at hg
  | cons g' gs ih =>
    simp only [expandAll, List.map_cons, Option.map_eq_some_iff] at h
    obtain ⟨l, hl, rfl⟩ := h
    obtain ⟨y, l', hy, hl', rfl⟩ := allSome_cons_some _ _ _ hl
    rcases List.mem_cons.mp hg with rfl | hg'
    · exact ⟨y, hy⟩
    · exact ih l'.flatten (by simp only [expandAll, hl', Option.map_some]) hg'

/-- Conversely: if every gate has an expansion, the list has one. -/
theorem expandAll_defined (a : McxAngles Θ) (neg : Θ → Θ) (gs : List (SG K))
    (h : ∀ g ∈ gs, ∃ m, expandSG a neg g = some m) : ∃ ms, expandAll a neg gs = some ms := by
  induction gs with
  | nil => exact ⟨[], rfl⟩
  | cons g gs ih =>
    obtain ⟨m, hm⟩ := h g List.mem_cons_self
    obtain ⟨ms, hms⟩ := ih (fun g' hg' => h g' (List.mem_cons_of_mem _ hg'))
    simp only [expandAll, Option.map_eq_some_iff] at hms
    obtain ⟨l, hl, rfl⟩ := hms
    exact ⟨(m :: l).flatten, by simp only [expandAll, List.map_cons, hm, allSome, hl, Option.map_some]⟩

end sem
end Qclib.Mcsu
