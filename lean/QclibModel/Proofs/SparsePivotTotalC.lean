import QclibModel.Proofs.SparsePivotTotalB
import Mathlib.Data.List.Perm.Subperm
import Mathlib.Data.List.Nodup
/-
  C06 — PivotInitialize, whole circuit (part C): arithmetic of the search for the free index.
  `ceilLog2`, `fmtBin` (`f"{k:0{n}b}"`), `int(key, 2)`, the low block, and the pigeonhole argument:
  `_get_index_zero` finds a free index inside the low block whenever a key lies outside it.
-/
namespace Qclib.Sparse
open Qclib

variable {α : Type}

/-! ### `ceilLog2` -/

theorem ceilLog2_spec (m : Nat) :
    m ≤ 2 ^ ceilLog2 m ∧ ceilLog2 m ≤ m ∧ ∀ j, m ≤ 2 ^ j → ceilLog2 m ≤ j := by
  unfold ceilLog2
  cases h : (List.range (m + 1)).find? (fun t => decide (2 ^ t ≥ m)) with
  | none =>
    rw [List.find?_eq_none] at h
    have := h m (List.mem_range.mpr (by omega))
    have h2 : m < 2 ^ m := Nat.lt_two_pow_self
    simp at this; omega
  | some t =>
    rw [List.find?_range_eq_some] at h
    obtain ⟨h1, h2, h3⟩ := h
    rw [List.mem_range] at h2
    simp only [Option.getD_some]
    refine ⟨by simpa using h1, by omega, ?_⟩
    intro j hj
    by_contra hlt
    have := h3 j (by omega)
    simp at this; omega

/-! ### `int(key, 2)` and `f"{k:0{n}b}"` -/

theorem strToNat_append_one (l : Str) (b : Bool) :
    strToNat (l ++ [b]) = 2 * strToNat l + (if b then 1 else 0) := by
  simp [strToNat, List.foldl_append]

theorem strToNat_binDigits (fuel k : Nat) (h : k < 2 ^ fuel) : strToNat (binDigits fuel k) = k := by
  induction fuel generalizing k with
  | zero => simp at h; subst h; rfl
  | succ f ih =>
    unfold binDigits
    by_cases h0 : k = 0
    · subst h0; rfl
    · rw [if_neg h0, strToNat_append_one, ih (k / 2) (by rw [Nat.pow_succ] at h; omega)]
      by_cases h1 : k % 2 = 1
      · simp [h1]; omega
      · have : (k % 2 == 1) = false := by simpa using h1
        rw [this]; simp; omega

theorem binDigits_length (fuel k j : Nat) (h : k < 2 ^ j) : (binDigits fuel k).length ≤ j := by
  induction fuel generalizing k j with
  | zero => simp [binDigits]
  | succ f ih =>
    unfold binDigits
    by_cases h0 : k = 0
    · subst h0; simp
    · rw [if_neg h0, List.length_append, List.length_singleton]
      cases j with
      | zero => simp at h; exact absurd h h0
      | succ j =>
        have := ih (k / 2) j (by rw [Nat.pow_succ] at h; omega)
        omega

/-- the digit string of `fmtBin` -/
def fmtDigits (k : Nat) : Str := if k = 0 then [false] else binDigits (k + 1) k

theorem fmtBin_eq (n k : Nat) :
    fmtBin n k = List.replicate (n - (fmtDigits k).length) false ++ fmtDigits k := rfl

theorem fmtDigits_length (k j : Nat) (hj : 1 ≤ j) (h : k < 2 ^ j) : (fmtDigits k).length ≤ j := by
  unfold fmtDigits
  split
  · simpa using hj
  · exact binDigits_length _ _ _ h

theorem strToNat_fmtDigits (k : Nat) : strToNat (fmtDigits k) = k := by
  unfold fmtDigits
  split
  · rename_i h; subst h; rfl
  · exact strToNat_binDigits _ _ (Nat.lt_of_lt_of_le Nat.lt_two_pow_self (Nat.pow_le_pow_right (by decide) (by omega)))

theorem strToNat_fmtBin (n k : Nat) : strToNat (fmtBin n k) = k := by
  rw [fmtBin_eq, strToNat_replicate_append, strToNat_fmtDigits]

theorem fmtBin_length (n k : Nat) (hn : 1 ≤ n) (h : k < 2 ^ n) : (fmtBin n k).length = n := by
  have := fmtDigits_length k n hn h
  rw [fmtBin_eq, List.length_append, List.length_replicate]; omega

theorem fmtBin_take (n t k : Nat) (ht : 1 ≤ t) (h : k < 2 ^ t) :
    (fmtBin n k).take (n - t) = List.replicate (n - t) false := by
  have := fmtDigits_length k t ht h
  rw [fmtBin_eq, List.take_append_of_le_length (by rw [List.length_replicate]; omega),
    List.take_replicate]
  congr 1; omega

/-! ### the low block -/

/-- the Boolean test of `_get_index_nz` -/
def isHigh (pre : Nat) (k : Str) : Bool := k.take pre != List.replicate pre false

theorem getIndexNz_eq (pre : Nat) (st : Dict α) : getIndexNz pre st = st.keys.find? (isHigh pre) := rfl

theorem isHigh_false_iff (n t : Nat) (s : Str) (hs : s.length = n) :
    isHigh (n - t) s = false ↔ inLow n t s := by
  unfold isHigh inLow
  rw [bne_eq_false_iff_eq]
  constructor
  · intro h i hi
    have : bitAt (s.take (n - t)) i = bitAt (List.replicate (n - t) false) i := by rw [h]
    simp only [bitAt, List.getD_eq_getElem?_getD, List.getElem?_take, hi, if_true,
      List.getElem?_replicate] at this
    simpa [bitAt, List.getD_eq_getElem?_getD] using this
  · intro h
    apply eq_of_bitAt _ _ (by simp; omega)
    intro i
    simp only [bitAt, List.getD_eq_getElem?_getD, List.getElem?_take, List.getElem?_replicate]
    by_cases hi : i < n - t
    · have := h i hi
      simp only [bitAt, List.getD_eq_getElem?_getD] at this
      simp [hi, this]
    · simp [hi]

/-! ### `_get_index_zero` -/

theorem indexZeroGo_spec (n : Nat) (keys : List Str) (fuel k0 k : Nat) (h0 : k0 ≤ k)
    (h1 : k < k0 + fuel) (hk : keys.contains (fmtBin n k) = false) :
    ∃ k1, k1 ≤ k ∧ keys.contains (fmtBin n k1) = false ∧
      indexZeroGo n keys fuel k0 = some (fmtBin n k1) := by
  induction fuel generalizing k0 with
  | zero => omega
  | succ f ih =>
    unfold indexZeroGo
    by_cases hc : keys.contains (fmtBin n k0) = true
    · rw [if_pos hc]
      have : k0 ≠ k := by intro e; subst e; rw [hk] at hc; exact Bool.false_ne_true hc
      exact ih (k0 + 1) (by omega) (by omega)
    · rw [if_neg hc]
      exact ⟨k0, h0, by simpa using hc, rfl⟩

/-- **pigeonhole**: at most `2^t − 1` of the `m ≤ 2^t` distinct keys are in the low block when one
key is outside, so some `k < 2^t` is free. -/
theorem exists_free_low (n t : Nat) (ht : 1 ≤ t) (keys : List Str)
    (hm : keys.length ≤ 2 ^ t) (nz : Str) (hnz : nz ∈ keys) (hhigh : isHigh (n - t) nz = true) :
    ∃ k, k < 2 ^ t ∧ keys.contains (fmtBin n k) = false := by
  by_contra hno
  have hall : ∀ k, k < 2 ^ t → fmtBin n k ∈ keys := by
    intro k hk
    by_contra hc
    exact hno ⟨k, hk, by simpa using hc⟩
  have hL : ((List.range (2 ^ t)).map (fmtBin n)).Nodup := by
    apply List.Nodup.map_on _ List.nodup_range
    intro x _ y _ e
    have := congrArg strToNat e
    rwa [strToNat_fmtBin, strToNat_fmtBin] at this
  have hnzL : nz ∉ (List.range (2 ^ t)).map (fmtBin n) := by
    intro hmem
    obtain ⟨k, hk, rfl⟩ := List.mem_map.mp hmem
    rw [List.mem_range] at hk
    have := fmtBin_take n t k ht hk
    simp [isHigh, this] at hhigh
  have hnd' : (nz :: (List.range (2 ^ t)).map (fmtBin n)).Nodup := List.nodup_cons.mpr ⟨hnzL, hL⟩
  have hsub : (nz :: (List.range (2 ^ t)).map (fmtBin n)) ⊆ keys := by
    intro x hx
    rcases List.mem_cons.mp hx with rfl | hx
    · exact hnz
    · obtain ⟨k, hk, rfl⟩ := List.mem_map.mp hx
      exact hall k (List.mem_range.mp hk)
  have := (List.subperm_of_subset hnd' hsub).length_le
  simp at this
  omega

end Qclib.Sparse
