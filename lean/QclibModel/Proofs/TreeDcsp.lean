import QclibModel.Proofs.TreeFinal
import QclibModel.Proofs.TreeMarg
import QclibModel.Proofs.RotReal
/-
  C11: output marginals of the model of `DcspInitialize` over ℂ, for every `n ≥ 1` and every
  unit vector: closed form (TreeSem) → squared moduli (`treeProb`) → sum over the ancilla
  assignments (TreeMarg) → reading through the output wires (`spW`) → path product
  (TreeAngles) → `|a_k|²`.
-/
namespace Qclib
open RotSem

/-! ### Squared moduli of the closed form -/

theorem normSq_exp_I (x : ℝ) : Complex.normSq (Complex.exp ((x : ℂ) * Complex.I)) = 1 := by
  rw [Complex.normSq_eq_norm_sq, Complex.norm_exp_ofReal_mul_I]; norm_num

noncomputable def cos2 (θ : ℝ) : ℝ := Real.cos (θ / 2) ^ 2
noncomputable def sin2 (θ : ℝ) : ℝ := Real.sin (θ / 2) ^ 2

theorem normSq_nodeAmp (v : QV ℝ) (b : Bits) :
    Complex.normSq (nodeAmp v b : ℂ) = nodeProb cos2 sin2 v b := by
  unfold nodeAmp nodeProb cos2 sin2
  split
  · show Complex.normSq (((Real.sin (v.y / 2) : ℝ) : ℂ)
      * Complex.exp (((v.z / 2 : ℝ) : ℂ) * Complex.I)) = _
    rw [Complex.normSq_mul, normSq_exp_I, Complex.normSq_ofReal]; ring
  · show Complex.normSq (((Real.cos (v.y / 2) : ℝ) : ℂ)
      * Complex.exp (-(((v.z / 2 : ℝ) : ℂ) * Complex.I))) = _
    have : -(((v.z / 2 : ℝ) : ℂ) * Complex.I) = (((-(v.z / 2) : ℝ)) : ℂ) * Complex.I := by
      push_cast; ring
    rw [this, Complex.normSq_mul, normSq_exp_I, Complex.normSq_ofReal]; ring

theorem normSq_treeAmp (o : TOps ℝ) : ∀ (t : BT (QV ℝ)) (b : Bits),
    Complex.normSq (treeAmp o t b : ℂ) = treeProb o cos2 sin2 t b
  | .nil, _ => by simp [treeAmp, treeProb]
  | .node v l r, b => by
    simp only [treeAmp, treeProb, Complex.normSq_mul, normSq_nodeAmp, normSq_treeAmp o l,
      normSq_treeAmp o r]

/-! ### Reading the output wires as a number -/

/-- The number read on wires `0 … n-1` (wire `i` = bit `i`). -/
def bitsVal : Nat → Bits → Nat
  | 0, _ => 0
  | n+1, b => bitsVal n b + (if b n then 2^n else 0)

theorem bitsVal_lt : ∀ (n : Nat) (b : Bits), bitsVal n b < 2^n
  | 0, _ => by simp [bitsVal]
  | n+1, b => by
    have := bitsVal_lt n b
    simp only [bitsVal, Nat.pow_succ]
    split <;> omega

theorem spW_pathProb (c2 s2 : ℝ → ℝ) : ∀ (n : Nat) (t : BT (QV ℝ)),
    complete n t → ∀ b, spW c2 s2 (List.range n).reverse t b
      = pathProb c2 s2 n (angles t) (bitsVal n b)
  | 0, .nil, _, b => by simp [spW, pathProb]
  | 0, .node .., h, _ => by simp [complete] at h
  | n+1, .nil, h, _ => by simp [complete] at h
  | n+1, .node v l r, h, b => by
    have hlt := bitsVal_lt n b
    rw [List.range_succ, List.reverse_append, List.reverse_singleton, List.singleton_append]
    simp only [spW, angles, BT.map, pathProb, bitsVal]
    have ihl := spW_pathProb c2 s2 n l h.1 b
    have ihr := spW_pathProb c2 s2 n r h.2 b
    simp only [angles] at ihl ihr
    cases hb : b n
    · simp only [Bool.false_eq_true, if_false, Nat.add_zero, hlt, if_true, ihl]
    · simp only [if_true]
      rw [if_neg (by omega), show bitsVal n b + 2^n - 2^n = bitsVal n b by omega, ihr]

/-! ### Wire lists -/

theorem qubitOrder_eq (n nq : Nat) (h : n ≤ nq) :
    qubitOrder n nq = (List.range n).reverse ++ (List.range' n (nq - n)).reverse := by
  unfold qubitOrder
  split
  · rfl
  · have : nq - n = 0 := by omega
    simp [this]

theorem ZeroOn_congr {R : Type} [Zero R] (ws ws' : List Nat) (h : ∀ w, w ∈ ws ↔ w ∈ ws')
    (ψ : State R) : ZeroOn ws ψ → ZeroOn ws' ψ := by
  intro hz b ⟨w, hw, hb⟩
  exact hz b ⟨w, (h w).2 hw, hb⟩

theorem clr_congr (ws ws' : List Nat) (h : ∀ w, w ∈ ws ↔ w ∈ ws') (b : Bits) :
    clr ws b = clr ws' b := by
  funext i
  simp only [clr, h i]

/-! ### The theorem -/

/-- Leaf values handed to the model: `(abs a_k, phase a_k)`. -/
noncomputable def leavesOf (a : Nat → ℂ) : Nat → SV ℝ := fun k => ⟨‖a k‖, Complex.arg (a k)⟩

theorem realTOps_neZero (x : ℝ) (h : realTOps.neZero x = false) : x = 0 := by
  simpa [realTOps] using h

/-- **Output marginals of `DcspInitialize`** (model, exact arithmetic), every `n ≥ 1`, every unit
vector `a`, every input state `ψ` whose `2^n − 1` tree wires are `|0⟩` (spectator wires in any
state): summing the squared modulus of the output amplitude over all assignments of the ancilla
wires `n … 2^n − 2` gives `|a_k|²` (times the squared modulus of the input amplitude on the
spectators), where `k` is the number read on the output wires `0 … n−1`. -/
theorem dcsp_marginal (n : Nat) (hn : 1 ≤ n) (a : Nat → ℂ) (hunit : sumSq n (leavesOf a) = 1)
    (out : TreeOut ℝ) (hout : dcsp realTOps (2^n) (leavesOf a) = some out)
    (ψ : State ℂ) (hψ : ZeroOn (List.range (2^n - 1)) ψ) (b : Bits) :
    sumOver (List.range' n (2^n - 1 - n)) (fun x => Complex.normSq (sem out.gates ψ x)) b
      = Complex.normSq (a (bitsVal n b))
        * Complex.normSq (ψ (clr (List.range (2^n - 1)) b)) := by
  obtain ⟨out', hout', hs⟩ := dcsp_spec realTOps n hn (leavesOf a)
  rw [hout] at hout'
  cases hout'
  obtain ⟨m, rfl⟩ : ∃ m, n = m + 1 := ⟨n - 1, by omega⟩
  have hle : m + 1 ≤ 2^(m+1) - 1 := by
    have := two_pow_ge (m+1); omega
  have hmem : ∀ w, w ∈ treeWires out.alloc.tree ↔ w ∈ List.range (2^(m+1) - 1) := by
    intro w; rw [hs.wires, mem_qubitOrder _ _ hle, List.mem_range]
  have hnd : (treeWires out.alloc.tree).Nodup := by rw [hs.wires]; exact qubitOrder_nodup _ _
  have hψ' : ZeroOn (treeWires out.alloc.tree) ψ :=
    ZeroOn_congr _ _ (fun w => (hmem w).symm) ψ hψ
  -- closed form, squared
  have hcl : ∀ x, Complex.normSq (sem out.gates ψ x)
      = treeProb realTOps cos2 sin2 out.alloc.tree x
        * Complex.normSq (ψ (clr (List.range (2^(m+1) - 1)) x)) := by
    intro x
    rw [dcsp_closed realTOps realTOps_neZero (m+1) (leavesOf a) out hs ψ hψ' x,
      Complex.normSq_mul, normSq_treeAmp, clr_congr _ _ hmem]
  rw [sumOver_congr _ _ _ hcl]
  -- the ancilla wires are exactly `anc tree`
  have hperm : (anc out.alloc.tree).Perm (List.range' (m+1) (2^(m+1) - 1 - (m+1))) := by
    have h1 := spine_anc_perm out.alloc.tree
    rw [hs.wires, qubitOrder_eq _ _ hle, hs.spineW] at h1
    exact ((List.perm_append_left_iff _).1 h1).trans (List.reverse_perm _)
  rw [← sumOver_perm _ _ hperm]
  -- the spectator factor does not depend on the summed wires
  have hanc : ∀ w ∈ anc out.alloc.tree, w ∈ List.range (2^(m+1) - 1) := by
    intro w hw
    have : w ∈ treeWires out.alloc.tree :=
      (spine_anc_perm out.alloc.tree).subset (List.mem_append_right _ hw)
    exact (hmem w).1 this
  rw [sumOver_mul_right _ _ _ (by
    intro x w v hw
    congr 2
    funext i
    by_cases hi : i ∈ List.range (2^(m+1) - 1)
    · rw [clr_mem _ _ hi, clr_mem _ _ hi]
    · rw [clr_not_mem _ _ hi, clr_not_mem _ _ hi, setBit_ne _ _ (fun (h : i = w) => hi (by rw [h]; exact hanc w hw))])]
  congr 1
  -- marginal → spine → output wires → path product → |a_k|²
  have hcs : ∀ y : ℝ, cos2 y + sin2 y = 1 := fun y => by
    unfold cos2 sin2; exact Real.cos_sq_add_sin_sq _
  have hs0 : ∀ y : ℝ, realTOps.neZero y = false → sin2 y = 0 := fun y hy => by
    rw [realTOps_neZero y hy]; simp [sin2]
  rw [treeProb_marginal realTOps cos2 sin2 hcs hs0 (m+1) _ hs.shape hnd,
    spineProb_eq_spW realTOps cos2 sin2 hs0 (m+1) _ hs.shape hnd, hs.spineW,
    spW_pathProb cos2 sin2 (m+1) _ hs.shape, hs.angles_eq]
  have hk := bitsVal_lt (m+1) b
  have := tree_path_product_unit m (leavesOf a) (fun k => norm_nonneg _) hunit (bitsVal (m+1) b) hk
  unfold cos2 sin2
  rw [this]
  show ‖a (bitsVal (m+1) b)‖ ^ 2 = _
  rw [Complex.normSq_eq_norm_sq]

#print axioms dcsp_marginal

end Qclib
