import QclibModel.Proofs.Mcu2Run
import Mathlib.Data.List.Perm.Basic
/-
  C04, part B — the approximate gate `MCU`, part 2: the classical-propagation run of the
  *truncated* ladder.

  With `bn ≥ 1` base controls and `e` extra controls the four sweeps of `MCU._define` are the
  `Ldmcu` sweeps on `bn` controls, every wire translated by `e`, without the root of base control 0
  (`keepB`), and with the gates of base control 0 possibly moved to the end of their sweep
  (multi-target call) — so the statement is about any lists that are permutations of the kept,
  translated schedule and respect the dependency order.  `xt` is the (virtual) input, `xb j = xt
  (j + e)` the base view.  Result: the target `e + bn` ends with
  `[all base wires 1] - [xb 0] / 2^(bn-1)`, every other wire with `0`.
-/
namespace Qclib.Mcu2

/-- Translation of a scheduled pair by `e` wires. -/
def shP (e : Nat) (pr : Nat × Nat) : Nat × Nat := (pr.1 + e, pr.2 + e)

/-- Weight of a translated pair. -/
def wS (e : Nat) (first fwd : Bool) (p : Nat × Nat) : ℚ := wt (p.1 - e, p.2 - e) first fwd

/-- The pairs `MCU._c1c2` keeps: all but the root of base control 0 (`first`, `(0, bn)`). -/
def keepB (bn : Nat) (first : Bool) (pr : Nat × Nat) : Bool :=
  !(first && pr.1 == 0 && pr.2 == bn)

/-- The base view of an input on the translated wires. -/
def vb (e : Nat) (v : Nat → Bool) : Nat → Bool := fun j => v (j + e)

/-- An accumulator given in base coordinates. -/
def accOf (e : Nat) (F : Nat → ℚ) : Acc := fun q => if e ≤ q then F (q - e) else 0

theorem tsum_perm {L L' : List (Nat × Nat)} (h : L.Perm L') (w : Nat × Nat → ℚ) (v : Nat → Bool)
    (q : Nat) : tsum L w v q = tsum L' w v q := by
  unfold tsum
  exact (h.map _).sum_eq

theorem tsum_nil (w : Nat × Nat → ℚ) (v : Nat → Bool) (q : Nat) : tsum [] w v q = 0 := by
  simp [tsum]

theorem tsum_map_sh (e : Nat) (first fwd : Bool) (L : List (Nat × Nat)) (v : Nat → Bool) (q : Nat) :
    tsum (L.map (shP e)) (wS e first fwd) v q
      = if e ≤ q then tsum L (fun pr => wt pr first fwd) (vb e v) (q - e) else 0 := by
  induction L with
  | nil => simp [tsum_nil]
  | cons pr L ih =>
    rw [List.map_cons, tsum_cons, ih]
    have hw : wS e first fwd (shP e pr) = wt pr first fwd := by
      simp [wS, shP]
    by_cases hq : e ≤ q
    · rw [if_pos hq, if_pos hq, tsum_cons, hw]
      congr 1
      have : ((shP e pr).2 = q ∧ v (shP e pr).1 = true) ↔ (pr.2 = q - e ∧ vb e v pr.1 = true) := by
        simp only [shP, vb]
        constructor
        · rintro ⟨h1, h2⟩; exact ⟨by omega, h2⟩
        · rintro ⟨h1, h2⟩; exact ⟨by omega, h2⟩
      by_cases hc : pr.2 = q - e ∧ vb e v pr.1 = true
      · rw [if_pos hc, if_pos (this.mpr hc)]
      · rw [if_neg hc, if_neg (fun h => hc (this.mp h))]
    · rw [if_neg hq, if_neg hq, add_zero]
      have : ¬ ((shP e pr).2 = q ∧ v (shP e pr).1 = true) := by
        simp only [shP]
        rintro ⟨h1, _⟩
        omega
      rw [if_neg this]

/-- The weight of the omitted root, as it would arrive at base wire `j`. -/
def omW (bn : Nat) (first fwd : Bool) (v0 : Bool) (j : Nat) : ℚ :=
  if first = true ∧ fwd = true ∧ j = bn ∧ v0 = true then 1 / 2 ^ (bn - 1) else 0

theorem wt_zero_bn (bn : Nat) : wt (0, bn) true true = 1 / 2 ^ (bn - 1) := by
  simp [wt, signal, param, exponent]

theorem tsum_keep (bn : Nat) (hbn : 1 ≤ bn) (first fwd : Bool) (v : Nat → Bool) (j : Nat) :
    tsum ((qubitPairs (if first then bn + 1 else bn) fwd).filter (keepB bn first))
        (fun pr => wt pr first fwd) v j
      = arrive (if first then bn + 1 else bn) first fwd v j - omW bn first fwd (v 0) j := by
  rw [← tsum_arrive]
  by_cases hff : first = true ∧ fwd = true
  · obtain ⟨rfl, rfl⟩ := hff
    simp only [if_true]
    have hmem : (0, bn) ∈ qubitPairs (bn + 1) true :=
      mem_qubitPairs.mpr ⟨by simp [startOf], by omega, by omega⟩
    have hperm := List.perm_cons_erase hmem
    have hnd := nodup_qubitPairs (bn + 1) true
    have hnot : (0, bn) ∉ (qubitPairs (bn + 1) true).erase (0, bn) := List.Nodup.not_mem_erase hnd
    have hfil : ((0, bn) :: (qubitPairs (bn + 1) true).erase (0, bn)).filter (keepB bn true)
        = (qubitPairs (bn + 1) true).erase (0, bn) := by
      rw [List.filter_cons_of_neg (by simp [keepB])]
      apply List.filter_eq_self.mpr
      intro pr hpr
      obtain ⟨c, t⟩ := pr
      simp only [keepB, Bool.true_and, Bool.not_eq_true', Bool.and_eq_false_iff, beq_eq_false_iff_ne,
        ne_eq]
      by_contra hcon
      have : c = 0 ∧ t = bn := by omega
      obtain ⟨rfl, rfl⟩ := this
      exact hnot hpr
    rw [tsum_perm (hperm.filter _), hfil, tsum_perm hperm _ _ _, tsum_cons, wt_zero_bn]
    simp only [omW, true_and]
    by_cases h : bn = j ∧ v 0 = true
    · rw [if_pos h, if_pos ⟨h.1.symm, h.2⟩]; ring
    · rw [if_neg h, if_neg (fun h' => h ⟨h'.1.symm, h'.2⟩)]; ring
  · have hfil : (qubitPairs (if first then bn + 1 else bn) fwd).filter (keepB bn first)
        = qubitPairs (if first then bn + 1 else bn) fwd := by
      apply List.filter_eq_self.mpr
      intro pr hpr
      have hb := mem_bounds hpr
      cases first
      · simp [keepB]
      · cases fwd
        · simp only [startOf, Bool.false_eq_true, if_false] at hb
          have : pr.1 ≠ 0 := by omega
          simp [keepB, this]
        · exact absurd ⟨rfl, rfl⟩ hff
    rw [hfil]
    have : omW bn first fwd (v 0) j = 0 := by
      unfold omW
      rw [if_neg]
      rintro ⟨h1, h2, _⟩
      exact hff ⟨h1, h2⟩
    rw [this, sub_zero]

/-- The kept, translated schedule of one sweep. -/
def keptSh (e bn : Nat) (first fwd : Bool) : List (Nat × Nat) :=
  ((qubitPairs (if first then bn + 1 else bn) fwd).filter (keepB bn first)).map (shP e)

theorem tsumM (e bn : Nat) (hbn : 1 ≤ bn) (first fwd : Bool) (L : List (Nat × Nat))
    (hL : L.Perm (keptSh e bn first fwd)) (v : Nat → Bool) :
    (fun q => tsum L (wS e first fwd) v q)
      = accOf e (fun j => arrive (if first then bn + 1 else bn) first fwd (vb e v) j
          - omW bn first fwd (vb e v 0) j) := by
  funext q
  rw [tsum_perm hL, keptSh, tsum_map_sh, accOf]
  split
  · rw [tsum_keep bn hbn]
  · rfl

theorem mem_keptSh {e bn : Nat} {first fwd : Bool} {L : List (Nat × Nat)}
    (hL : L.Perm (keptSh e bn first fwd)) {pr : Nat × Nat} (h : pr ∈ L) :
    ∃ c t, pr = (c + e, t + e) ∧ startOf fwd ≤ c ∧ c < t ∧
      t < (if first then bn + 1 else bn) := by
  rw [hL.mem_iff, keptSh, List.mem_map] at h
  obtain ⟨p, hp, rfl⟩ := h
  have hb := mem_bounds (List.mem_filter.mp hp).1
  exact ⟨p.1, p.2, rfl, hb⟩

theorem accOf_add (e : Nat) (F G : Nat → ℚ) :
    (fun q => accOf e F q + accOf e G q) = accOf e (fun j => F j + G j) := by
  funext q
  simp only [accOf]
  split <;> simp

theorem accOf_sh (e : Nat) (F : Nat → ℚ) (c : Nat) : accOf e F (c + e) = F c := by
  simp [accOf]

/-- The state after sweeps 1 and 2 of the truncated ladder (base coordinates). -/
def midAccM (bn : Nat) (xb : Nat → Bool) : Nat → ℚ :=
  fun j => midAcc bn xb j - omW bn true true (xb 0) j

/-- The final state of the truncated ladder (base coordinates). -/
def finAccM (bn : Nat) (xb : Nat → Bool) : Nat → ℚ :=
  fun j => if j = bn then andQ xb bn - ind (xb 0) / 2 ^ (bn - 1) else 0

theorem omW_other (bn : Nat) (first fwd v0 : Bool) (j : Nat) (h : j ≠ bn) :
    omW bn first fwd v0 j = 0 := by
  unfold omW
  rw [if_neg]
  rintro ⟨_, _, h', _⟩
  exact h h'

theorem omW_false (bn : Nat) (fwd v0 : Bool) (j : Nat) : omW bn false fwd v0 j = 0 := by
  simp [omW]

theorem omW_bwd (bn : Nat) (first v0 : Bool) (j : Nat) : omW bn first false v0 j = 0 := by
  simp [omW]

theorem vb_mid (e : Nat) (xb : Nat → Bool) : vb e (fun q => mid xb (q - e)) = mid xb := by
  funext j
  simp [vb]

section run
variable (e bn : Nat) (hbn : 1 ≤ bn) (xt : Nat → Bool)
include hbn

theorem runM12 (L1 L2 : List (Nat × Nat))
    (h1 : L1.Perm (keptSh e bn true true)) (d1 : L1.Pairwise (fun a b => a.2 ≠ b.1))
    (h2 : L2.Perm (keptSh e bn true false)) (d2 : L2.Pairwise (fun a b => a.1 ≠ b.2)) :
    L2.foldl (stepG xt (wS e true false)) (L1.foldl (stepG xt (wS e true true)) (some fun _ => 0))
      = some (accOf e (midAccM bn (vb e xt))) := by
  have hs1 : L1.foldl (stepG xt (wS e true true)) (some fun _ => 0)
      = some (accOf e (fun j => arrive (bn + 1) true true (vb e xt) j
          - omW bn true true (vb e xt 0) j)) := by
    rw [fwdRun xt _ xt L1 d1 _ (fun pr _ => by simp [seen, seenVal_zero])]
    congr 1
    have := tsumM e bn hbn true true L1 h1 xt
    simp only [if_true] at this
    rw [← this]
    funext q
    simp
  have hsum : ∀ j, (arrive (bn + 1) true true (vb e xt) j - omW bn true true (vb e xt 0) j)
      + (arrive (bn + 1) true false (mid (vb e xt)) j - omW bn true false (mid (vb e xt) 0) j)
      = midAccM bn (vb e xt) j := by
    intro j
    rw [omW_bwd, sub_zero]
    unfold midAccM midAcc
    by_cases hq : 1 ≤ j ∧ j ≤ bn
    · rw [if_pos hq, ← sweeps12 bn (vb e xt) j hq.1 hq.2]; ring
    · rw [if_neg hq]
      by_cases h0 : j = 0
      · subst h0; rw [arrive_zero, arrive_zero]; ring
      · rw [arrive_ge _ _ _ _ _ (by omega), arrive_ge _ _ _ _ _ (by omega)]; ring
  have ht2 := tsumM e bn hbn true false L2 h2 (fun q => mid (vb e xt) (q - e))
  simp only [if_true, vb_mid] at ht2
  have hfin : (fun q => accOf e (fun j => arrive (bn + 1) true true (vb e xt) j
        - omW bn true true (vb e xt 0) j) q + tsum L2 (wS e true false)
          (fun q => mid (vb e xt) (q - e)) q) = accOf e (midAccM bn (vb e xt)) := by
    have : (fun q => accOf e (fun j => arrive (bn + 1) true true (vb e xt) j
        - omW bn true true (vb e xt 0) j) q + tsum L2 (wS e true false)
          (fun q => mid (vb e xt) (q - e)) q)
        = fun q => accOf e (fun j => arrive (bn + 1) true true (vb e xt) j
          - omW bn true true (vb e xt 0) j) q
          + (fun q => tsum L2 (wS e true false) (fun q => mid (vb e xt) (q - e)) q) q := rfl
    rw [this, ht2, accOf_add]
    congr 1
    funext j
    exact hsum j
  rw [hs1, bwdRun xt _ (fun q => mid (vb e xt) (q - e)) L2 d2
    (fun pr h => by obtain ⟨c, t, rfl, hb⟩ := mem_keptSh h2 h; simp only; omega), hfin]
  intro pr hpr
  obtain ⟨c, t, rfl, hb⟩ := mem_keptSh h2 hpr
  simp only [startOf, Bool.false_eq_true, if_false, if_true] at hb
  rw [hfin]
  show seenVal (xt (c + e)) (accOf e (midAccM bn (vb e xt)) (c + e)) = _
  rw [accOf_sh, midAccM, omW_other _ _ _ _ _ (by omega), sub_zero, midAcc,
    if_pos ⟨by omega, by omega⟩, Nat.add_sub_cancel]
  exact seenVal_andQ (vb e xt) c (by omega)

theorem runM34 (L3 L4 : List (Nat × Nat))
    (h3 : L3.Perm (keptSh e bn false true)) (d3 : L3.Pairwise (fun a b => a.2 ≠ b.1))
    (h4 : L4.Perm (keptSh e bn false false)) (d4 : L4.Pairwise (fun a b => a.1 ≠ b.2)) :
    L4.foldl (stepG xt (wS e false false))
        (L3.foldl (stepG xt (wS e false true)) (some (accOf e (midAccM bn (vb e xt)))))
      = some (accOf e (finAccM bn (vb e xt))) := by
  have ht3 := tsumM e bn hbn false true L3 h3 (fun q => mid (vb e xt) (q - e))
  simp only [Bool.false_eq_true, if_false, vb_mid, omW_false, sub_zero] at ht3
  have ht4 := tsumM e bn hbn false false L4 h4 xt
  simp only [Bool.false_eq_true, if_false, omW_false, sub_zero] at ht4
  have hs3 : L3.foldl (stepG xt (wS e false true)) (some (accOf e (midAccM bn (vb e xt))))
      = some (accOf e (fun j => midAccM bn (vb e xt) j + arrive bn false true (mid (vb e xt)) j)) := by
    rw [fwdRun xt _ (fun q => mid (vb e xt) (q - e)) L3 d3]
    · congr 1
      rw [← accOf_add, ← ht3]
    · intro pr hpr
      obtain ⟨c, t, rfl, hb⟩ := mem_keptSh h3 hpr
      simp only [Bool.false_eq_true, if_false] at hb
      show seenVal (xt (c + e)) (accOf e (midAccM bn (vb e xt)) (c + e)) = _
      rw [accOf_sh, midAccM, omW_other _ _ _ _ _ (by omega), sub_zero, Nat.add_sub_cancel]
      by_cases h0 : c = 0
      · subst h0
        rw [mid_zero, midAcc, if_neg (by omega)]
        exact seenVal_zero _
      · rw [midAcc, if_pos ⟨by omega, by omega⟩]
        exact seenVal_andQ (vb e xt) c h0
  have hsum : ∀ j, (midAccM bn (vb e xt) j + arrive bn false true (mid (vb e xt)) j)
      + arrive bn false false (vb e xt) j = finAccM bn (vb e xt) j := by
    intro j
    unfold finAccM midAccM
    by_cases hq : 1 ≤ j ∧ j < bn
    · have := sweeps34 bn (vb e xt) j hq.1 hq.2
      rw [midAcc, if_pos ⟨hq.1, by omega⟩, if_neg (by omega), omW_other _ _ _ _ _ (by omega)]
      linarith
    · by_cases h0 : j = 0
      · subst h0
        rw [arrive_zero, arrive_zero, midAcc, if_neg (by omega), if_neg (by omega),
          omW_other _ _ _ _ _ (by omega)]
        ring
      · rw [arrive_ge _ _ _ _ _ (by omega), arrive_ge _ _ _ _ _ (by omega), midAcc]
        by_cases hk : j = bn
        · subst hk
          rw [if_pos ⟨by omega, le_refl _⟩, if_pos rfl]
          simp only [omW, true_and, ind]
          cases vb e xt 0 <;> simp
        · rw [if_neg (by omega), if_neg hk, omW_other _ _ _ _ _ hk]; ring
  have hfin : (fun q => accOf e (fun j => midAccM bn (vb e xt) j
        + arrive bn false true (mid (vb e xt)) j) q + tsum L4 (wS e false false) xt q)
      = accOf e (finAccM bn (vb e xt)) := by
    have : (fun q => accOf e (fun j => midAccM bn (vb e xt) j
        + arrive bn false true (mid (vb e xt)) j) q + tsum L4 (wS e false false) xt q)
        = fun q => accOf e (fun j => midAccM bn (vb e xt) j
          + arrive bn false true (mid (vb e xt)) j) q
          + (fun q => tsum L4 (wS e false false) xt q) q := rfl
    rw [this, ht4, accOf_add]
    congr 1
    funext j
    exact hsum j
  rw [hs3, bwdRun xt _ xt L4 d4
    (fun pr h => by obtain ⟨c, t, rfl, hb⟩ := mem_keptSh h4 h; simp only; omega), hfin]
  intro pr hpr
  obtain ⟨c, t, rfl, hb⟩ := mem_keptSh h4 hpr
  simp only [startOf, Bool.false_eq_true, if_false] at hb
  rw [hfin]
  show seenVal (xt (c + e)) (accOf e (finAccM bn (vb e xt)) (c + e)) = _
  rw [accOf_sh, finAccM, if_neg (by omega)]
  exact seenVal_zero _

end run
end Qclib.Mcu2
