import QclibModel.Proofs.McsuCtrl
import Mathlib.Data.List.Nodup
/-
  The wire and pattern slices of `linear_depth_mcv` / `half_linear_depth_mcv` /
  `clinear_depth_mcv` (C04_slices), for every number of controls `k ≥ 2` and every wire list.
-/
namespace Qclib.Mcsu

theorem k1_add_k2 (k : Nat) : k1 k + k2 k = k := by unfold k1 k2; omega
theorem k1_le (k : Nat) (hk : 1 ≤ k) : k1 k ≤ k := by unfold k1; omega
theorem k2_le_k1 (k : Nat) : k2 k ≤ k1 k := by unfold k1 k2; omega
theorem k1_le_k2_succ (k : Nat) : k1 k ≤ k2 k + 1 := by unfold k1 k2; omega

/-! ### Lengths: what `McxVchainDirty(k_i)` expects (`k_i` controls, `max(k_i - 2, 0)` ancillas,
the targets) -/

theorem wires1_length (cw ts : List Nat) (hk : 2 ≤ cw.length) :
    (wires1 cw ts).length = k1 cw.length + (k1 cw.length - 2) + ts.length := by
  simp only [wires1, pySlice, List.length_append, List.length_take, List.length_drop]
  unfold k1; omega

theorem wires2_length (cw ts : List Nat) (hk : 2 ≤ cw.length) :
    (wires2 cw ts).length = k2 cw.length + (k2 cw.length - 2) + ts.length := by
  simp only [wires2, pySlice, List.length_append, List.length_take, List.length_drop]
  unfold k1 k2; omega

/-! ### The three parts of each wire list -/

/-- controls of the first half, its dirty ancillas, controls of the second half, its ancillas -/
def ctl1 (cw : List Nat) : List Nat := cw.take (k1 cw.length)
def anc1 (cw : List Nat) : List Nat := pySlice cw (k1 cw.length) (2 * k1 cw.length - 2)
def ctl2 (cw : List Nat) : List Nat := cw.drop (k1 cw.length)
def anc2 (cw : List Nat) : List Nat := pySlice cw (k1 cw.length - k2 cw.length + 2) (k1 cw.length)

theorem wires1_parts (cw ts : List Nat) : wires1 cw ts = ctl1 cw ++ anc1 cw ++ ts := rfl
theorem wires2_parts (cw ts : List Nat) : wires2 cw ts = ctl2 cw ++ anc2 cw ++ ts := rfl

theorem ctl1_length (cw : List Nat) (hk : 1 ≤ cw.length) : (ctl1 cw).length = k1 cw.length := by
  simp only [ctl1, List.length_take]; unfold k1; omega
theorem ctl2_length (cw : List Nat) : (ctl2 cw).length = k2 cw.length := by
  simp only [ctl2, List.length_drop]; unfold k1 k2; omega
theorem anc1_length (cw : List Nat) (hk : 2 ≤ cw.length) : (anc1 cw).length = k1 cw.length - 2 := by
  simp only [anc1, pySlice, List.length_take, List.length_drop]; unfold k1; omega
theorem anc2_length (cw : List Nat) (hk : 2 ≤ cw.length) : (anc2 cw).length = k2 cw.length - 2 := by
  simp only [anc2, pySlice, List.length_take, List.length_drop]; unfold k1 k2; omega

/-- The two control halves together are the control register, in order. -/
theorem ctl1_append_ctl2 (cw : List Nat) : ctl1 cw ++ ctl2 cw = cw := List.take_append_drop _ _

/-- The dirty ancillas of the first half are controls of the second half … -/
theorem anc1_subset (cw : List Nat) : ∀ w ∈ anc1 cw, w ∈ ctl2 cw := by
  intro w hw
  simp only [anc1, pySlice, List.drop_take] at hw
  exact List.mem_of_mem_take hw

/-- … and the dirty ancillas of the second half are controls of the first half. -/
theorem anc2_subset (cw : List Nat) : ∀ w ∈ anc2 cw, w ∈ ctl1 cw := by
  intro w hw
  simp only [anc2, pySlice] at hw
  exact List.mem_of_mem_drop hw

theorem anc1_sublist (cw : List Nat) : (anc1 cw).Sublist (ctl2 cw) := by
  simp only [anc1, pySlice, List.drop_take, ctl2]
  exact List.take_sublist _ _

theorem anc2_sublist (cw : List Nat) : (anc2 cw).Sublist (ctl1 cw) := by
  simp only [anc2, pySlice, ctl1]
  exact List.drop_sublist _ _

/-- Controls, dirty ancillas and targets of the first half are pairwise distinct wires. -/
theorem wires1_nodup (cw ts : List Nat) (hn : (cw ++ ts).Nodup) : (wires1 cw ts).Nodup := by
  rw [wires1_parts]
  have hs : (ctl1 cw ++ anc1 cw ++ ts).Sublist (cw ++ ts) := by
    apply List.Sublist.append _ (List.Sublist.refl ts)
    rw [← ctl1_append_ctl2 cw]
    have e1 : ctl1 (ctl1 cw ++ ctl2 cw) = ctl1 cw := by rw [ctl1_append_ctl2]
    have e2 : anc1 (ctl1 cw ++ ctl2 cw) = anc1 cw := by rw [ctl1_append_ctl2]
    rw [e1, e2]
    exact List.Sublist.append (List.Sublist.refl _) (anc1_sublist cw)
  exact hs.nodup hn

/-- Controls, dirty ancillas and targets of the second half are pairwise distinct wires. -/
theorem wires2_nodup (cw ts : List Nat) (hn : (cw ++ ts).Nodup) : (wires2 cw ts).Nodup := by
  rw [wires2_parts]
  have hp : (ctl2 cw ++ anc2 cw ++ ts).Perm (anc2 cw ++ ctl2 cw ++ ts) :=
    List.Perm.append_right ts List.perm_append_comm
  rw [hp.nodup_iff]
  have hs : (anc2 cw ++ ctl2 cw ++ ts).Sublist (cw ++ ts) := by
    apply List.Sublist.append _ (List.Sublist.refl ts)
    conv => rhs; rw [← ctl1_append_ctl2 cw]
    exact List.Sublist.append (anc2_sublist cw) (List.Sublist.refl _)
  exact hs.nodup hn

/-! ### The pattern slices follow the wire slices -/

theorem csK1_reverse {α : Type} (cs : List α) (k : Nat) : (csK1 cs k).reverse = cs.reverse.take (k1 k) := by
  simp [csK1]
theorem csK2_reverse {α : Type} (cs : List α) (k : Nat) : (csK2 cs k).reverse = cs.reverse.drop (k1 k) := by
  simp [csK2]

/-- Splitting controls and (reversed) pattern at the same position splits the literals. -/
theorem litsOf_split (cw : List Nat) (r : List Bool) (n : Nat) :
    litsOf (cw.take n) (r.take n) ++ litsOf (cw.drop n) (r.drop n) = litsOf cw r := by
  induction n generalizing cw r with
  | zero => simp [litsOf]
  | succ n ih =>
    cases cw with
    | nil => simp [litsOf]
    | cons c cw =>
      cases r with
      | nil =>
        have := ih cw []
        simp only [List.take_nil, List.drop_nil] at this
        simp [litsOf, this]
      | cons v r => simp [litsOf, ih cw r]

/-- The literals of the two halves (each read with its own pattern slice, the way
`McxVchainDirty(k_i, ctrl_state = slice_i)` reads it) together are the literals of the whole
pattern on the whole control register. -/
theorem pattern_split (cw : List Nat) (cs : List Bool) :
    litsOf (ctl1 cw) (csK1 cs cw.length).reverse ++ litsOf (ctl2 cw) (csK2 cs cw.length).reverse
      = litsOf cw cs.reverse := by
  rw [csK1_reverse, csK2_reverse]
  exact litsOf_split cw cs.reverse (k1 cw.length)

theorem pattern_lengths {α : Type} (cs : List α) (k : Nat) (h : cs.length = k) :
    (csK1 cs k).length = k1 k ∧ (csK2 cs k).length = k2 k := by
  simp only [csK1, csK2, List.length_reverse, List.length_take, List.length_drop, h]
  unfold k1 k2; omega

end Qclib.Mcsu
