import QclibModel.Proofs.SparsePivotTotalI
import QclibModel.Proofs.SparsePivotTotalVchain
/-
  C06 — PivotInitialize with auxiliaries (part J): one `_pivoting` call with `aux = True`.
  The `_mcxvchain` block (rccx ladder on the auxiliaries / cx / ladder back), wire-renamed into the
  final frame, is for every state the relabelling "flip `differ` iff `c`"; on labels whose
  auxiliaries are clean `c` is the AND of the `remain` wires, so the step acts on keys as without
  auxiliaries.
-/
namespace Qclib.Sparse
open Qclib

/-- the bit reversal `q ↦ W−1−q` of the `W` circuit wires as an involution of all wires -/
def rho (W : Nat) (q : Nat) : Nat := if q < W then W - 1 - q else q

theorem rho_rho (W q : Nat) : rho W (rho W q) = q := by
  by_cases h : q < W
  · have h2 : W - 1 - q < W := by omega
    simp only [rho, h, h2, if_true]; omega
  · simp [rho, h]

theorem rho_lt (W q : Nat) (h : q < W) : rho W q = W - 1 - q := by simp [rho, h]

theorem xsFold_out (ws : List Nat) (b : Bits) (w : Nat) (hw : w ∉ ws) : xsFold ws b w = b w := by
  induction ws generalizing b with
  | nil => rfl
  | cons k ws ih =>
    show xsFold ws (flipBit b k) w = b w
    rw [ih _ (fun h => hw (List.mem_cons_of_mem _ h)), flipBit_ne]
    intro e; exact hw (e ▸ List.mem_cons_self ..)

theorem fanFold_out (c : Nat) (cv : Bool) (ts : List Nat) (b : Bits) (w : Nat) (hw : w ∉ ts) :
    fanFold c cv ts b w = b w := by
  induction ts generalizing b with
  | nil => rfl
  | cons k ts ih =>
    show fanFold c cv ts (mcxTau [(c, cv)] k b) w = b w
    rw [ih _ (fun h => hw (List.mem_cons_of_mem _ h)), mcxTau]
    split
    · exact flipBit_ne _ (fun e => hw (e ▸ List.mem_cons_self ..))
    · rfl

/-- a step whose multi-controlled X fires on an arbitrary condition `cond` -/
def stepBc (cond : Bits → Bool) (r : Nat → Nat) (n lo d : Nat) (cv : Bool) (tcx : List Nat)
    (zero : Str) (b : Bits) : Bits :=
  xsFold ((((List.range n).drop lo).filter (fun k => bitAt zero k == false)).map r)
    ((fun β => if cond β then flipBit β (r d) else β)
      (xsFold ((((List.range n).drop lo).filter (fun k => bitAt zero k == false)).map r)
        (fanFold (r d) cv (tcx.map r) b)))

theorem stepBc_eq (cond : Bits → Bool) (r : Nat → Nat) (n lo d : Nat) (cv : Bool)
    (tcx : List Nat) (zero : Str) (b : Bits) :
    stepBc cond r n lo d cv tcx zero b =
      if cond (xsFold ((((List.range n).drop lo).filter (fun k => bitAt zero k == false)).map r)
            (fanFold (r d) cv (tcx.map r) b)) = true
      then flipBit (fanFold (r d) cv (tcx.map r) b) (r d)
      else fanFold (r d) cv (tcx.map r) b := by
  unfold stepBc
  simp only
  split
  · rw [xsFold_flip, xsFold_xsFold]
  · rw [xsFold_xsFold]

/-- if the condition agrees with "all `remain` wires are 1" on the label reached after the fan and
the X layer, the step is the ordinary one -/
theorem stepBc_eq_stepB (cond : Bits → Bool) (r : Nat → Nat) (n lo d : Nat) (cv : Bool)
    (tcx : List Nat) (zero : Str) (b : Bits)
    (h : cond (xsFold ((((List.range n).drop lo).filter (fun k => bitAt zero k == false)).map r)
            (fanFold (r d) cv (tcx.map r) b))
        = ctrlOk ((((List.range n).drop lo).map r).map (fun c => (c, true)))
          (xsFold ((((List.range n).drop lo).filter (fun k => bitAt zero k == false)).map r)
            (fanFold (r d) cv (tcx.map r) b))) :
    stepBc cond r n lo d cv tcx zero b = stepB r n lo d cv tcx zero b := by
  rw [stepBc_eq, stepB_eq, h]

theorem getD_lt_of_all (ctrl : List Nat) (n : Nat) (hn : 0 < n) (hc : ∀ q ∈ ctrl, q < n) (j : Nat) :
    ctrl.getD j 0 < n := by
  by_cases h : j < ctrl.length
  · exact hc _ (getD_mem_of_lt ctrl j h)
  · rw [List.getD_eq_getElem?_getD, List.getElem?_eq_none (by omega)]; exact hn

/-- every gate of `_mcxvchain` is an `rccx` or a `cx` on wires below `W` -/
theorem mcxVchain_mem {α : Type} (n W : Nat) (ctrl : List Nat) (tgt : Nat) (hn : 0 < n)
    (hc : ∀ q ∈ ctrl, q < n) (hl : 2 ≤ ctrl.length) (hW : n + (ctrl.length - 1) ≤ W)
    (g : SG α) (hg : g ∈ mcxVchain n ctrl tgt) :
    (∃ a b c, g = SG.rccx a b c ∧ a < W ∧ b < W ∧ c < W) ∨
    (∃ c, g = SG.cx c tgt true ∧ c < W) := by
  have hcW : ∀ j, ctrl.getD j 0 < W := fun j => by
    have := getD_lt_of_all ctrl n hn hc j; omega
  have hlad : ∀ g' ∈ ((List.range ctrl.length).drop 2).map
      (fun j => (SG.rccx (ctrl.getD j 0) (n + (j - 2)) (n + (j - 1)) : SG α)),
      ∃ a b c, g' = SG.rccx a b c ∧ a < W ∧ b < W ∧ c < W := by
    intro g' hg'
    obtain ⟨j, hj, rfl⟩ := List.mem_map.mp hg'
    have := (mem_drop_range_iff j ctrl.length 2).mp hj
    exact ⟨_, _, _, rfl, hcW j, by omega, by omega⟩
  unfold mcxVchain at hg
  simp only [List.mem_append, List.mem_singleton, List.mem_reverse] at hg
  rcases hg with (((rfl | h) | rfl) | h) | rfl
  · exact Or.inl ⟨_, _, _, rfl, hcW 0, hcW 1, by omega⟩
  · exact Or.inl (hlad g h)
  · exact Or.inr ⟨_, rfl, by omega⟩
  · exact Or.inl (hlad g h)
  · exact Or.inl ⟨_, _, _, rfl, hcW 0, hcW 1, by omega⟩

theorem mcxVchain_reverse {α : Type} (n : Nat) (ctrl : List Nat) (tgt : Nat) :
    (mcxVchain (α := α) n ctrl tgt).reverse = mcxVchain n ctrl tgt := by
  unfold mcxVchain
  simp [List.reverse_append]


theorem pivoting_gates_aux {α : Type} (n t : Nat) (nz zero : Str) (st : Dict α) :
    (pivoting n t true nz zero st).1
      = (pvTcx n t nz zero).map (fun k => SG.cx (pvDiffer n t nz zero) k (bitAt nz (pvDiffer n t nz zero)))
        ++ (pvXs n t zero).map SG.x
        ++ mcxVchain n ((List.range n).drop (n - t)) (pvDiffer n t nz zero)
        ++ (pvXs n t zero).map SG.x := rfl

section
variable {Θ R : Type} [CommRing R] [RotSem Θ R]

theorem permCirc_xs (iu : R) (dn : List Nat → List (Amp Θ) → State R → State R) (r : Nat → Nat)
    (ws : List Nat) :
    PermCirc iu dn (((ws.map (SG.x : Nat → SG Θ)).map (SG.mapWires r)).reverse)
      (xsFold (ws.map r)) := by
  have h := PermCirc.reverse_of_each iu dn ((ws.map (SG.x : Nat → SG Θ)).map (SG.mapWires r)) tauSG
    (by
      intro g hg
      apply PermCirc.single
      simp only [List.mem_map] at hg
      obtain ⟨_, ⟨k, _, rfl⟩, rfl⟩ := hg
      rfl)
  have e : (fun b => ((ws.map (SG.x : Nat → SG Θ)).map (SG.mapWires r)).foldl
      (fun b g => tauSG g b) b) = xsFold (ws.map r) := by
    funext b; exact foldl_tau_xs r ws b
  rw [e] at h; exact h

theorem permCirc_fan (iu : R) (dn : List Nat → List (Amp Θ) → State R → State R) (r : Nat → Nat)
    (d : Nat) (cv : Bool) (tcx : List Nat) :
    PermCirc iu dn (((tcx.map (fun k => (SG.cx d k cv : SG Θ))).map (SG.mapWires r)).reverse)
      (fanFold (r d) cv (tcx.map r)) := by
  have h := PermCirc.reverse_of_each iu dn
    ((tcx.map (fun k => (SG.cx d k cv : SG Θ))).map (SG.mapWires r)) tauSG
    (by
      intro g hg
      apply PermCirc.single
      simp only [List.mem_map] at hg
      obtain ⟨_, ⟨k, _, rfl⟩, rfl⟩ := hg
      rfl)
  have e : (fun b => ((tcx.map (fun k => (SG.cx d k cv : SG Θ))).map (SG.mapWires r)).foldl
      (fun b g => tauSG g b) b) = fanFold (r d) cv (tcx.map r) := by
    funext b; exact foldl_tau_fan r d cv tcx b
  rw [e] at h; exact h

/-- **one step with auxiliaries** satisfies what the loop needs: offset `t − 1`, auxiliaries on
the wires `0 … t−2` of the final circuit. -/
theorem stepSem_aux (iu : R) (hi : iu * iu = -1)
    (dn : List Nat → List (Amp Θ) → State R → State R) (n t : Nat) (ht2 : 2 ≤ t) :
    StepSem iu dn (fun q => n + (t - 1) - 1 - q) n t true
      (fun b => ∀ w, w < t - 1 → b w = false) := by
  intro nz zero st hnzlen hzlen hzlow hnlow
  have hsp := pvDiffer_spec n t nz zero hzlow hnlow
  have hr : ∀ i j, i < n → j < n → n + (t - 1) - 1 - i = n + (t - 1) - 1 - j → i = j := by
    intro i j hi hj e; omega
  have hdt : pvDiffer n t nz zero ∉ pvTcx n t nz zero := by
    intro h; exact ((mem_pvTcx n t nz zero hsp.1 _).mp h).2.1 rfl
  have htn : ∀ k ∈ pvTcx n t nz zero, k < n := fun k hk => ((mem_pvTcx n t nz zero hsp.1 k).mp hk).1
  have hrem : ∀ q, q ∈ (List.range n).drop (n - t) ↔ n - t ≤ q ∧ q < n := fun q => mem_drop_range_iff q n (n - t)
  have hreml : ((List.range n).drop (n - t)).length = t := by simp; omega
  obtain ⟨c, hc_clean, hc_sem⟩ := mcxVchain_sem (Θ := Θ) iu hi dn n ((List.range n).drop (n - t))
    (pvDiffer n t nz zero) (by omega) (fun q hq => ((hrem q).mp hq).2) (by omega)
    (fun h => by have := ((hrem _).mp h).1; omega)
  -- the renamed v-chain
  have hmem := fun g hg => mcxVchain_mem (α := Θ) n (n + (t - 1)) ((List.range n).drop (n - t))
    (pvDiffer n t nz zero) (by omega) (fun q hq => ((hrem q).mp hq).2) (by omega) (by omega) g hg
  have hVmap : (mcxVchain (α := Θ) n ((List.range n).drop (n - t)) (pvDiffer n t nz zero)).map
        (SG.mapWires (fun q => n + (t - 1) - 1 - q))
      = (mcxVchain (α := Θ) n ((List.range n).drop (n - t)) (pvDiffer n t nz zero)).map
        (SG.mapWires (rho (n + (t - 1)))) := by
    apply List.map_congr_left
    intro g hg
    rcases hmem g hg with ⟨a, b, c', rfl, ha, hb, hc'⟩ | ⟨c', rfl, hc'⟩
    · simp only [SG.mapWires, rho_lt _ _ ha, rho_lt _ _ hb, rho_lt _ _ hc']
    · have hdW : pvDiffer n t nz zero < n + (t - 1) := by have := hsp.1; omega
      simp only [SG.mapWires, rho_lt _ _ hc', rho_lt _ _ hdW]
  have hVrc : ∀ g ∈ mcxVchain (α := Θ) n ((List.range n).drop (n - t)) (pvDiffer n t nz zero),
      isRC g = true := by
    intro g hg
    rcases hmem g hg with ⟨a, b, c', rfl, _, _, _⟩ | ⟨c', rfl, _⟩ <;> rfl
  have hV := permCirc_of_relab_applyIf iu dn (rho (n + (t - 1))) (rho_rho _) _ hVrc c
    (pvDiffer n t nz zero) hc_sem
  rw [← hVmap, rho_lt _ (pvDiffer n t nz zero) (by omega)] at hV
  refine ⟨stepBc (fun β => c (fun i => β (rho (n + (t - 1)) i))) (fun q => n + (t - 1) - 1 - q) n
    (n - t) (pvDiffer n t nz zero) (bitAt nz (pvDiffer n t nz zero)) (pvTcx n t nz zero) zero,
    ?_, ?_, ?_⟩
  · have hX := permCirc_xs iu dn (fun q => n + (t - 1) - 1 - q) (pvXs n t zero)
    have hF := permCirc_fan iu dn (fun q => n + (t - 1) - 1 - q) (pvDiffer n t nz zero)
      (bitAt nz (pvDiffer n t nz zero)) (pvTcx n t nz zero)
    have hall := PermCirc.append hX (PermCirc.append hV (PermCirc.append hX hF))
    have el : ((pivoting n t true nz zero st).1.map (SG.mapWires (fun q => n + (t - 1) - 1 - q))).reverse
        = (((pvXs n t zero).map (SG.x : Nat → SG Θ)).map (SG.mapWires (fun q => n + (t - 1) - 1 - q))).reverse
          ++ ((mcxVchain (α := Θ) n ((List.range n).drop (n - t)) (pvDiffer n t nz zero)).map
                (SG.mapWires (fun q => n + (t - 1) - 1 - q))
            ++ ((((pvXs n t zero).map (SG.x : Nat → SG Θ)).map (SG.mapWires (fun q => n + (t - 1) - 1 - q))).reverse
              ++ (((pvTcx n t nz zero).map (fun k => (SG.cx (pvDiffer n t nz zero) k
                    (bitAt nz (pvDiffer n t nz zero)) : SG Θ))).map
                  (SG.mapWires (fun q => n + (t - 1) - 1 - q))).reverse)) := by
      rw [pivoting_gates_aux]
      simp only [List.map_append, List.reverse_append, List.append_assoc]
      rw [← List.map_reverse (l := mcxVchain n _ _), mcxVchain_reverse]
    rw [el]
    exact hall
  · intro b hb
    rw [stepBc_eq_stepB]
    · exact stepB_key _ n (n - t) _ _ _ zero hr (by omega) hsp.1 hdt (pvTcx_nodup n t nz zero) htn
        hzlen b
    · -- on clean auxiliaries the condition is the AND of the `remain` wires
      have hβ : ∀ w, w < t - 1 →
          xsFold ((((List.range n).drop (n - t)).filter (fun k => bitAt zero k == false)).map
              (fun q => n + (t - 1) - 1 - q))
            (fanFold (n + (t - 1) - 1 - pvDiffer n t nz zero) (bitAt nz (pvDiffer n t nz zero))
              ((pvTcx n t nz zero).map (fun q => n + (t - 1) - 1 - q)) b) w = false := by
        intro w hw
        rw [xsFold_out, fanFold_out, hb w hw]
        · intro hm
          obtain ⟨k, hk, e⟩ := List.mem_map.mp hm
          have := htn k hk
          have e' : n + (t - 1) - 1 - k = w := e
          omega
        · intro hm
          obtain ⟨k, hk, e⟩ := List.mem_map.mp hm
          have := ((hrem k).mp (List.mem_filter.mp hk).1).2
          have e' : n + (t - 1) - 1 - k = w := e
          omega
      rw [hc_clean _ (by
        intro i hi
        rw [hreml] at hi
        show xsFold _ _ (rho (n + (t - 1)) (n + i)) = false
        rw [rho_lt _ _ (by omega)]
        exact hβ _ (by omega))]
      rw [Bool.eq_iff_iff, List.all_eq_true, ctrlOk_ones]
      constructor
      · intro h q hq
        obtain ⟨k, hk, rfl⟩ := List.mem_map.mp hq
        have := h k hk
        rwa [rho_lt _ _ (by have := ((hrem k).mp hk).2; omega)] at this
      · intro h k hk
        rw [rho_lt _ _ (by have := ((hrem k).mp hk).2; omega)]
        exact h _ (List.mem_map.mpr ⟨k, hk, rfl⟩)
  · intro b w hw
    rw [stepBc_eq]
    have hfan : fanFold (n + (t - 1) - 1 - pvDiffer n t nz zero) (bitAt nz (pvDiffer n t nz zero))
        ((pvTcx n t nz zero).map (fun q => n + (t - 1) - 1 - q)) b w = b w := by
      apply fanFold_out
      intro hm
      obtain ⟨k, hk, e⟩ := List.mem_map.mp hm
      exact hw k (htn k hk) e
    split
    · rw [flipBit_ne _ (fun e => hw (pvDiffer n t nz zero) (by omega) e.symm), hfan]
    · exact hfan

end
end Qclib.Sparse
